#!/usr/bin/env python3
"""py2coq -- fail-closed translator from pyplate/pyplate.py (Python ast) to Gallina.

Translated, each into its own file under coq/gen/ (regenerated on every run):
  UnitsGen.v      Unit.convert_prefix_to_multiplier (dict literal) and Unit.convert_from
                  (suffix loops, enzyme guard, if/elif tree with arithmetic leaves)
  RatioGen.v      Unit.calculate_concentration_ratio (binary-mixture mole-ratio helper)
  LifecycleGen.v  per Recipe method: the ordered list of state guards at the head of the body

Anything outside the recognised subset raises Unsupported; the file is then written with
only a comment so that the proofs depending on it do not build, and status.json says why.
Float literals are converted from their *source text* (1e-6 -> 1 # 1000000).
"""
import ast, sys, json, os
from fractions import Fraction


class Unsupported(Exception):
    pass


def bad(node, why=''):
    raise Unsupported(f"unsupported construct at line {getattr(node, 'lineno', '?')}: {type(node).__name__} {why}")


class Src:
    def __init__(self, path):
        self.path = path
        self.text = open(path).read()
        self.tree = ast.parse(self.text)

    def method(self, cls, name):
        for n in self.tree.body:
            if isinstance(n, ast.ClassDef) and n.name == cls:
                for m in n.body:
                    if isinstance(m, ast.FunctionDef) and m.name == name:
                        return m
        raise Unsupported(f"{cls}.{name} not found")

    def seg(self, node):
        return ast.get_source_segment(self.text, node)


def q_of_text(t):
    t = t.strip()
    if t.endswith('.'):
        t = t[:-1]
    fr = Fraction(t)
    return f"({fr.numerator} # {fr.denominator})" if fr >= 0 else f"(-{-fr.numerator} # {fr.denominator})"


def nodoc(body):
    return [s for s in body if not (isinstance(s, ast.Expr) and isinstance(s.value, ast.Constant)
                                    and isinstance(s.value.value, str))]


# ------------------------------------------------------------------ prefix table
def prefix_table(src):
    f = src.method('Unit', 'convert_prefix_to_multiplier')
    body = nodoc(f.body)
    d = None
    for st in body:
        if isinstance(st, ast.Assign) and isinstance(st.value, ast.Dict):
            if d is not None:
                bad(st, 'two dict literals')
            d = st
    if d is None:
        bad(f, 'no dict literal')
    tbl = d.targets[0].id
    # shape: [type guard] ; prefixes = {...} ; if prefix in prefixes: return prefixes[prefix] ; raise
    rest = [s for s in body if s is not d]
    ok_lookup = False
    for st in rest:
        if isinstance(st, ast.If) and isinstance(st.test, ast.Compare) and isinstance(st.test.ops[0], ast.In):
            r = st.body[0]
            if (isinstance(r, ast.Return) and isinstance(r.value, ast.Subscript)
                    and isinstance(r.value.value, ast.Name) and r.value.value.id == tbl and len(st.body) == 1
                    and not st.orelse):
                ok_lookup = True
            else:
                bad(st, 'lookup shape')
        elif isinstance(st, ast.If) and 'isinstance' in ast.dump(st.test) and isinstance(st.body[0], ast.Raise):
            pass
        elif isinstance(st, ast.Raise):
            pass
        else:
            bad(st, 'in convert_prefix_to_multiplier')
    if not ok_lookup:
        bad(f, 'no table lookup')
    rows = []
    for k, v in zip(d.value.keys, d.value.values):
        if not (isinstance(k, ast.Constant) and isinstance(k.value, str)):
            bad(k)
        if not (isinstance(v, ast.Constant) and isinstance(v.value, (int, float)) and not isinstance(v.value, bool)):
            bad(v)
        rows.append((k.value, q_of_text(src.seg(v))))
    return rows


# ------------------------------------------------------------------ convert_from
BASES = {'U': 'BU', 'L': 'BL', 'g': 'BG', 'mol': 'BMol'}
ATTR = {'density': 'dens', 'mol_weight': 'mw', 'specific_activity': 'act'}


def arith(src, e, env, subst_names):
    if isinstance(e, ast.BinOp):
        op = {ast.Mult: '*', ast.Div: '/', ast.Add: '+', ast.Sub: '-'}.get(type(e.op)) or bad(e)
        return f"({arith(src, e.left, env, subst_names)} {op} {arith(src, e.right, env, subst_names)})"
    if isinstance(e, ast.UnaryOp) and isinstance(e.op, ast.USub):
        return f"(- {arith(src, e.operand, env, subst_names)})"
    if isinstance(e, ast.Constant) and isinstance(e.value, (int, float)) and not isinstance(e.value, bool):
        return q_of_text(src.seg(e))
    if isinstance(e, ast.Name) and e.id in env:
        return env[e.id]
    if (isinstance(e, ast.Attribute) and isinstance(e.value, ast.Name) and e.value.id in subst_names
            and e.attr in ATTR):
        return f"({ATTR[e.attr]} {subst_names[e.value.id]})"
    bad(e)


def conv_cond(c):
    if (isinstance(c, ast.Compare) and len(c.ops) == 1 and isinstance(c.ops[0], ast.Eq)
            and isinstance(c.left, ast.Name) and c.left.id in ('from_unit', 'to_unit')
            and isinstance(c.comparators[0], ast.Constant) and c.comparators[0].value in BASES):
        return f"(base_eqb {'fb' if c.left.id == 'from_unit' else 'tb'} {BASES[c.comparators[0].value]})"
    if (isinstance(c, ast.Call) and isinstance(c.func, ast.Attribute) and c.func.attr == 'is_enzyme'
            and isinstance(c.func.value, ast.Name) and c.func.value.id == 'substance' and not c.args):
        return "(is_enzyme s)"
    if isinstance(c, ast.UnaryOp) and isinstance(c.op, ast.Not):
        return f"(negb {conv_cond(c.operand)})"
    if isinstance(c, ast.BoolOp) and isinstance(c.op, ast.And):
        return "(" + " && ".join(conv_cond(v) for v in c.values) + ")"
    if isinstance(c, ast.BoolOp) and isinstance(c.op, ast.Or):
        return "(" + " || ".join(conv_cond(v) for v in c.values) + ")"
    bad(c)


def conv_block(src, stmts, env, fallthrough):
    if not stmts:
        return fallthrough
    st, rest = stmts[0], stmts[1:]
    if isinstance(st, ast.Return):
        return f"(Ret {arith(src, st.value, env, {'substance': 's'})})"
    if isinstance(st, ast.Raise):
        return "Rej"
    if isinstance(st, ast.Assign) and len(st.targets) == 1 and isinstance(st.targets[0], ast.Name):
        nm = st.targets[0].id
        v = arith(src, st.value, env, {'substance': 's'})
        if nm == 'result':
            if rest:
                bad(st, 'assignment to result must end its block')
            return f"(Asg {v})"
        env2 = dict(env)
        env2[nm] = v
        return conv_block(src, rest, env2, fallthrough)
    if isinstance(st, ast.If):
        after = conv_block(src, rest, env, fallthrough)
        return (f"(if {conv_cond(st.test)} then {conv_block(src, st.body, env, after)} "
                f"else {conv_block(src, st.orelse, env, after)})")
    if isinstance(st, ast.Pass):
        return conv_block(src, rest, env, fallthrough)
    bad(st)


def is_typeguard(st):
    return (isinstance(st, ast.If) and 'isinstance' in ast.dump(st.test) and len(st.body) == 1
            and isinstance(st.body[0], ast.Raise) and not st.orelse)


def suffix_loop(st, var):
    if not (isinstance(st, ast.For) and isinstance(st.iter, ast.List) and st.orelse
            and isinstance(st.orelse[0], ast.Raise) and len(st.body) == 1):
        bad(st, 'suffix loop')
    order = []
    for e in st.iter.elts:
        if not (isinstance(e, ast.Constant) and isinstance(e.value, str)):
            bad(e)
        order.append(e.value)
    test = st.body[0]
    if not (isinstance(test, ast.If) and isinstance(test.test, ast.Call)
            and isinstance(test.test.func, ast.Attribute) and test.test.func.attr == 'endswith'
            and isinstance(test.test.func.value, ast.Name) and test.test.func.value.id == var and not test.orelse):
        bad(st, 'endswith')
    scales = False
    seen_prefix = seen_rebind = False
    for x in test.body[:-1]:
        if (isinstance(x, ast.Assign) and isinstance(x.targets[0], ast.Name) and x.targets[0].id == 'prefix'
                and ast.unparse(x.value) == f"{var}[:-len(suffix)]"):
            seen_prefix = True
        elif (isinstance(x, ast.AugAssign) and isinstance(x.op, ast.Mult) and isinstance(x.target, ast.Name)
              and x.target.id == 'quantity'
              and ast.unparse(x.value) == "Unit.convert_prefix_to_multiplier(prefix)"):
            scales = True
        elif (isinstance(x, ast.Assign) and isinstance(x.targets[0], ast.Name) and x.targets[0].id == var
              and isinstance(x.value, ast.Name) and x.value.id == 'suffix'):
            seen_rebind = True
        else:
            bad(x, 'in suffix loop body')
    if not (seen_prefix and seen_rebind and isinstance(test.body[-1], ast.Break)):
        bad(st, 'suffix loop body shape')
    return order, scales


def convert_from(src):
    f = src.method('Unit', 'convert_from')
    if [a.arg for a in f.args.args] != ['substance', 'quantity', 'from_unit', 'to_unit']:
        bad(f, 'signature')
    body = nodoc(f.body)
    i = 0
    while is_typeguard(body[i]):
        i += 1
    o1, sc1 = suffix_loop(body[i], 'from_unit'); i += 1
    if not sc1:
        bad(body[i - 1], 'from loop must scale quantity by the prefix multiplier')
    guard = body[i]; i += 1
    if not (isinstance(guard, ast.If) and len(guard.body) == 1 and isinstance(guard.body[0], ast.Raise)
            and not guard.orelse):
        bad(guard, 'enzyme guard')
    g = conv_cond(guard.test)
    o2, sc2 = suffix_loop(body[i], 'to_unit'); i += 1
    if sc2:
        bad(body[i - 1], 'to loop must not scale quantity')
    init = body[i]; i += 1
    if not (isinstance(init, ast.Assign) and isinstance(init.targets[0], ast.Name) and init.targets[0].id == 'result'
            and isinstance(init.value, ast.Constant) and init.value.value is None):
        bad(init)
    treest = body[i]; i += 1
    t = conv_block(src, [treest], {'quantity': 'q'}, 'Unset')
    asrt = body[i]; i += 1
    if not isinstance(asrt, ast.Assert):
        bad(asrt)
    ret = body[i]; i += 1
    if not (isinstance(ret, ast.Return) and ast.unparse(ret.value) == "result / Unit.convert_prefix_to_multiplier(prefix)"):
        bad(ret, 'final return')
    if i != len(body):
        bad(body[i], 'trailing statements')
    return o1, o2, g, t


def coq_str(s):
    return '"' + s.replace('"', '""') + '"'


def gen_units(src):
    rows = prefix_table(src)
    o1, o2, g, t = convert_from(src)
    out = [f"(* GENERATED by translator/py2coq.py from {src.path} -- do not edit *)",
           "Require Import Base Units GenBase.",
           "Open Scope string_scope.",
           "Definition gen_prefix_table : list (string * Q) := [" + "; ".join(
               f'({coq_str(k)}, {v})' for k, v in rows) + "].",
           "Definition gen_from_suffix_order : list string := [" + "; ".join(coq_str(x) for x in o1) + "].",
           "Definition gen_to_suffix_order : list string := [" + "; ".join(coq_str(x) for x in o2) + "].",
           f"Definition gen_from_guard (s : substance) (fb : base) : bool := {g}.",
           f"Definition gen_conv_tree (s : substance) (q : Q) (fb tb : base) : leaf :=\n  {t}."]
    return "\n".join(out) + "\n", {"prefixes": len(rows)}


# ------------------------------------------------------------------ concentration ratio helper
def ratio_cond(c):
    if (isinstance(c, ast.Compare) and len(c.ops) == 1 and isinstance(c.ops[0], ast.Eq)
            and isinstance(c.left, ast.Name) and c.left.id in ('numerator', 'denominator')
            and isinstance(c.comparators[0], ast.Constant) and c.comparators[0].value in BASES):
        return f"(base_eqb {'nb' if c.left.id == 'numerator' else 'db'} {BASES[c.comparators[0].value]})"
    bad(c)


def ratio_block(src, stmts, env, fallthrough):
    """leaves: Asg e for `ratio = e`; local rebinding of c (c /= 1000, c *= 1000) substituted"""
    names = {'solute': 'x', 'solvent': 'y'}
    if not stmts:
        return fallthrough
    st, rest = stmts[0], stmts[1:]
    if isinstance(st, ast.AugAssign) and isinstance(st.target, ast.Name) and st.target.id == 'c':
        op = {ast.Mult: '*', ast.Div: '/'}.get(type(st.op)) or bad(st)
        env2 = dict(env)
        env2['c'] = f"({env['c']} {op} {arith(src, st.value, env, names)})"
        return ratio_block(src, rest, env2, fallthrough)
    if isinstance(st, ast.Assign) and isinstance(st.targets[0], ast.Name) and st.targets[0].id == 'ratio':
        if rest:
            bad(st, 'ratio assignment must end its block')
        return f"(Asg {arith(src, st.value, env, names)})"
    if isinstance(st, ast.If):
        after = ratio_block(src, rest, env, fallthrough)
        return (f"(if {ratio_cond(st.test)} then {ratio_block(src, st.body, env, after)} "
                f"else {ratio_block(src, st.orelse, env, after)})")
    bad(st)


def gen_ratio(src):
    f = src.method('Unit', 'calculate_concentration_ratio')
    body = nodoc(f.body)
    # c, numerator, denominator = Unit.parse_concentration(concentration)
    i = 0
    st = body[i]; i += 1
    if not (isinstance(st, ast.Assign) and ast.unparse(st).replace('(', '').replace(')', '') ==
            "c, numerator, denominator = Unit.parse_concentrationconcentration"):
        bad(st, 'parse_concentration call')
    num_ok = den_ok = None
    while isinstance(body[i], ast.If) and isinstance(body[i].body[0], ast.Raise):
        t = body[i].test
        if not (isinstance(t, ast.Compare) and isinstance(t.ops[0], ast.NotIn) and isinstance(t.left, ast.Name)):
            bad(t)
        vals = [e.value for e in t.comparators[0].elts]
        if t.left.id == 'numerator':
            num_ok = vals
        elif t.left.id == 'denominator':
            den_ok = vals
        else:
            bad(t)
        i += 1
    st = body[i]; i += 1
    if not (isinstance(st, ast.Assign) and st.targets[0].id == 'ratio' and isinstance(st.value, ast.Constant)
            and st.value.value is None):
        bad(st)
    tree = body[i]; i += 1
    # the U branch ends with `ratio *= Unit.convert_from_storage(1, 'mol')`: dilution of enzymes is declared
    # unsupported by the library, so only the non-U part of the tree is translated; the U branch is checked
    # to be the last elif and replaced by Unset.
    node = tree
    chain = []
    while True:
        chain.append(node)
        if len(node.orelse) == 1 and isinstance(node.orelse[0], ast.If):
            node = node.orelse[0]
        else:
            break
    last = chain[-1]
    if not (ast.unparse(last.test) == "numerator == 'U'" and not last.orelse):
        bad(last, 'expected the U branch last')
    chain[-2].orelse = []
    t = ratio_block(src, [tree], {'c': 'c'}, 'Unset')
    ret = body[i]; i += 1
    if not (isinstance(ret, ast.Return) and ast.unparse(ret.value).strip('()') == "ratio, numerator, denominator"):
        bad(ret)
    if i != len(body):
        bad(body[i], 'trailing statements')
    out = [f"(* GENERATED by translator/py2coq.py from {src.path} -- do not edit *)",
           "Require Import Base Units GenBase.",
           f"(* numerators accepted: {num_ok}; denominators accepted: {den_ok} *)",
           "Definition gen_ratio_den_ok (db : base) : bool := " +
           ("(" + " || ".join(f"base_eqb db {BASES[v]}" for v in den_ok) + ")" if den_ok else "true") + ".",
           f"Definition gen_ratio_tree (x y : substance) (c : Q) (nb db : base) : leaf :=\n  {t}."]
    return "\n".join(out) + "\n", {}


# ------------------------------------------------------------------ recipe lifecycle guards
def guard_kind(src, st):
    """classify one statement at the head of a Recipe method as a state guard; None if it is not one"""
    if not (isinstance(st, ast.If) and len(st.body) >= 1 and isinstance(st.body[0], ast.Raise) and not st.orelse):
        return None
    test = ast.unparse(st.test)
    exc = st.body[0].exc
    exc_name = exc.func.id if isinstance(exc, ast.Call) and isinstance(exc.func, ast.Name) else '?'
    if test == 'self.locked':
        return ('GLocked', exc_name)
    if test == 'name in self.stages':
        return ('GStageExists', exc_name)
    if test == "self.current_stage != 'all'":
        return ('GStageOpen', exc_name)
    if test == 'self.current_stage != name':
        return ('GStageMismatch', exc_name)
    if test == "name == 'all'":
        return ('GNameIsAll', exc_name)
    return None


def has_declared_check(src, f, which):
    """does the method raise ValueError when the named operand is not in self.results?"""
    txt = ast.unparse(f)
    return which in txt


def gen_lifecycle(src):
    methods = ['start_stage', 'end_stage', 'uses', 'transfer', 'create_container', 'create_solution',
               'create_solution_from', 'remove', 'dilute', 'fill_to', 'bake']
    rows = []
    def inline_helpers(body):
        """a statement `self._helper(...)` whose method consists of state guards only stands for those guards"""
        out = []
        for st in body:
            if (isinstance(st, ast.Expr) and isinstance(st.value, ast.Call) and isinstance(st.value.func, ast.Attribute)
                    and isinstance(st.value.func.value, ast.Name) and st.value.func.value.id == 'self'):
                try:
                    h = nodoc(src.method('Recipe', st.value.func.attr).body)
                except Unsupported:
                    h = None
                if h and all(guard_kind(src, x) is not None for x in h):
                    out.extend(h)
                    continue
            out.append(st)
        return out

    for m in methods:
        f = src.method('Recipe', m)
        body = inline_helpers(nodoc(f.body))
        guards = []
        first_locked = None
        for idx, st in enumerate(body):
            g = guard_kind(src, st)
            if g is None:
                continue
            guards.append((idx, g))
        # position of the locked guard relative to the first statement with an effect (append / uses / assignment to self)
        first_effect = None
        for idx, st in enumerate(body):
            d = ast.unparse(st)
            if ('self.steps.append' in d or 'self.uses(' in d or d.startswith('self.current_stage')
                    or d.startswith('self.stages[') or d.startswith('for ')):
                first_effect = idx
                break
        locked_direct = any(g[0] == 'GLocked' and (first_effect is None or idx < first_effect) for idx, g in guards)
        locked_exc = next((g[1] for idx, g in guards if g[0] == 'GLocked'), None)
        via_uses = (not locked_direct) and any('self.uses(' in ast.unparse(st) for st in body) and \
                   not any('self.steps.append' in ast.unparse(st) for st in body[:next(
                       (k for k, st in enumerate(body) if 'self.uses(' in ast.unparse(st)), 0)])
        others = [g[0] for idx, g in guards if g[0] != 'GLocked']
        if not locked_direct and not via_uses:
            # reading the text, no lock guard is visible in this method: that may be a missing guard or a guard written in a way
            # this reader does not follow (decorator, helper with other statements ...): say so instead of claiming "no guard";
            # the extraction by probing (symex.py) then decides from the behaviour
            raise Unsupported(f"Recipe.{m}: no lock guard recognised at the head of the method")
        rows.append((m, locked_direct, locked_exc or '', via_uses, others))
    out = [f"(* GENERATED by translator/py2coq.py from {src.path} -- do not edit *)",
           "Require Import Base GenBase.", "Open Scope string_scope.",
           "(* method, locked guard present before any effect, its exception, locked enforced through self.uses, "
           "other stage guards in order *)",
           "Definition gen_lifecycle_guards : list (string * (bool * string * bool * list stage_guard)) := ["]
    items = []
    for m, ld, le, vu, others in rows:
        items.append(f"  ({coq_str(m)}, ({'true' if ld else 'false'}, {coq_str(le)}, {'true' if vu else 'false'}, "
                     f"[{'; '.join(others)}]))")
    out.append(";\n".join(items))
    out.append("].")
    return "\n".join(out) + "\n", {"methods": len(rows)}


def main():
    repo = sys.argv[1] if len(sys.argv) > 1 else '/repo'
    outdir = sys.argv[2] if len(sys.argv) > 2 else os.path.join(os.path.dirname(__file__), '..', 'coq', 'gen')
    os.makedirs(outdir, exist_ok=True)
    status = {}
    try:
        src = Src(os.path.join(repo, 'pyplate', 'pyplate.py'))
    except Exception as e:  # syntax error etc.
        src = None
        status['_source'] = f"unreadable: {e}"
    for name, fn in (('UnitsGen', gen_units), ('RatioGen', gen_ratio), ('LifecycleGen', gen_lifecycle)):
        path = os.path.join(outdir, name + '.v')
        try:
            if src is None:
                raise Unsupported(status['_source'])
            text, info = fn(src)
            status[name] = {"status": "ok", **info}
        except Unsupported as e:
            text = f"(* GENERATED: translator could not translate the source: {e} *)\n"
            status[name] = {"status": "unsupported", "reason": str(e)}
        except Exception as e:  # any other surprise is also fail-closed
            text = f"(* GENERATED: translator failed: {type(e).__name__}: {e} *)\n"
            status[name] = {"status": "unsupported", "reason": f"{type(e).__name__}: {e}"}
        old = open(path).read() if os.path.exists(path) else None
        if old != text:  # keep timestamps stable so make does not rebuild needlessly
            open(path, 'w').write(text)
    json.dump(status, open(os.path.join(outdir, 'status.json'), 'w'), indent=1)
    print(json.dumps(status))


if __name__ == '__main__':
    main()
