#!/venv/bin/python
"""symex -- second, structure-independent extraction of the unit kernel from /repo's pyplate.py.

Unit.convert_from is *executed* on symbolic operands: the quantity, the molecular weight, the density and the
specific activity are instances of Sym, a float subclass whose arithmetic builds a monomial
    coef * q^a * mw^b * dens^c * act^d            (coef an exact rational)
and whose every other use (comparison, truth value, hashing, conversion, power, modulo ...) raises Unsupported.
All control flow of convert_from that depends only on the unit strings and on the kind of the substance is
therefore followed for real, once per (kind, from-prefix, from-base, to-prefix, to-base) = 3 x 10 x 4 x 10 x 4
cells, and the outcome of each cell -- the exception class, a constant, or a monomial -- is written to
coq/gen/UnitsSym.v.  coq/UnitsSymOK.v proves the whole table equal to the hand-written model for every cell.

Unlike py2coq.py this does not care how the function is written (helpers, dictionaries, reordered branches,
renamed locals): only what it computes.  What it cannot see: branching on the *value* of a numeric operand
through C-level functions that read the underlying float (math.isfinite and the like see 1.0); a result that
is not a monomial (a sum of different monomials raises Unsupported: fail-closed).

Float constants met during execution are read through their shortest repr (1e-06 -> 1 # 1000000), as py2coq
reads literals through their source text.

The prefix table is extracted by calling Unit.convert_prefix_to_multiplier on every string of length <= 2 over
an alphabet containing every SI prefix letter plus the spelled-out forms; accepted strings and their multipliers
must be exactly the model's table.

LifecycleSym: for each Recipe method, the guard table is extracted by calling the method (with valid operands)
on a recipe in each lifecycle state (fresh, stage open, baked) and recording the exception class and whether any
observable field of the recipe changed.
"""
import sys, os, json, itertools
from fractions import Fraction


class Unsupported(Exception):
    pass


def frac_of(x):
    if isinstance(x, Sym):
        raise Unsupported('frac_of Sym')
    if isinstance(x, bool):
        raise Unsupported('bool in arithmetic')
    if isinstance(x, int):
        return Fraction(x)
    if isinstance(x, float):
        if x != x or x in (float('inf'), float('-inf')):
            raise Unsupported('non-finite constant')
        return Fraction(repr(x))
    try:
        import numpy
        if isinstance(x, numpy.generic):
            return frac_of(x.item())
    except ImportError:
        pass
    raise Unsupported(f'constant of type {type(x).__name__}')


def _no(name):
    def f(self, *a, **k):
        raise Unsupported(f'symbolic value used in {name}')
    return f


class Sym(float):
    """coef * prod var_i ^ exp_i ; subclass of float so that isinstance(x, (int, float)) guards pass"""
    __slots__ = ('coef', 'exps', 'rounded')
    NV = 4

    def __new__(cls, coef, exps, rounded=False):
        o = float.__new__(cls, 1.0)
        o.coef = Fraction(coef)
        o.exps = tuple(exps) if o.coef != 0 else (0,) * cls.NV
        o.rounded = rounded
        return o

    @staticmethod
    def lift(x):
        return x if isinstance(x, Sym) else Sym(frac_of(x), (0,) * Sym.NV)

    def __mul__(self, o):
        o = Sym.lift(o)
        return Sym(self.coef * o.coef, [a + b for a, b in zip(self.exps, o.exps)])
    __rmul__ = __mul__

    def __truediv__(self, o):
        o = Sym.lift(o)
        if o.coef == 0:
            raise ZeroDivisionError('float division by zero')
        return Sym(self.coef / o.coef, [a - b for a, b in zip(self.exps, o.exps)])

    def __rtruediv__(self, o):
        return Sym.lift(o).__truediv__(self)

    def __add__(self, o):
        o = Sym.lift(o)
        if o.coef == 0:
            return self
        if self.coef == 0:
            return o
        if self.exps != o.exps:
            raise Unsupported('sum of different monomials')
        return Sym(self.coef + o.coef, self.exps)
    __radd__ = __add__

    def __neg__(self):
        return Sym(-self.coef, self.exps)

    def __pos__(self):
        return self

    def __sub__(self, o):
        return self.__add__(Sym.lift(o).__neg__())

    def __rsub__(self, o):
        return Sym.lift(o).__add__(self.__neg__())

    def __round__(self, n=None):
        return Sym(self.coef, self.exps, True)

    def __repr__(self):
        return f"Sym({self.coef}, {self.exps})"

    def __float__(self):
        # float(x) is an identity conversion the library applies to numeric operands (float(quantity)); keep it symbolic
        return self
    __str__ = __repr__
    __format__ = lambda self, spec: repr(self)


for _n in ('__lt__', '__le__', '__gt__', '__ge__', '__eq__', '__ne__', '__bool__', '__hash__', '__int__', '__index__',
           '__pow__', '__rpow__', '__mod__', '__rmod__', '__floordiv__', '__rfloordiv__', '__divmod__', '__rdivmod__',
           '__abs__', '__trunc__', '__floor__', '__ceil__', 'is_integer', 'as_integer_ratio', 'hex', 'conjugate',
           '__array__', '__complex__'):
    setattr(Sym, _n, _no(_n))

PREFIXES = [('Pn', 'n'), ('Pu', 'u'), ('Pmu', 'µ'), ('Pm', 'm'), ('Pc', 'c'), ('Pd', 'd'), ('P0', ''), ('Pda', 'da'), ('Pk', 'k'), ('PM', 'M')]
BASES = [('BU', 'U'), ('BL', 'L'), ('BG', 'g'), ('BMol', 'mol')]
KINDS = ['Solid', 'Liquid', 'Enzyme']


def qlit(fr):
    fr = Fraction(fr)
    return f"({fr.numerator} # {fr.denominator})" if fr >= 0 else f"(-{-fr.numerator} # {fr.denominator})"


def coq_str(s):
    return '"' + s.replace('"', '""') + '"'


def var(i):
    e = [0] * Sym.NV
    e[i] = 1
    return Sym(1, e)


def make_substance(pyplate, kind):
    S = pyplate.Substance
    if kind == 'Solid':
        s = S.solid('sym_solid', 100.0)
    elif kind == 'Liquid':
        s = S.liquid('sym_liquid', 100.0, 1.0)
    else:
        s = S.enzyme('sym_enzyme', '10 U/g')
    s.mol_weight = var(1)
    s.density = var(2)
    s.specific_activity = var(3)
    return s


def gen_units(pyplate):
    Unit = pyplate.Unit
    # ---- prefix table
    alphabet = ['n', 'u', 'µ', 'm', 'c', 'd', 'a', 'k', 'M', 'G', 'T', 'p', 'f', 'h', 'K', 'μ', ' ', '1']
    cands = [''] + alphabet + [a + b for a in alphabet for b in alphabet] + ['deca', 'deka', 'kilo', 'milli', 'micro', 'nano', 'mega', 'mu']
    table = []
    for p in cands:
        try:
            v = Unit.convert_prefix_to_multiplier(p)
        except ValueError:
            continue
        except Exception as e:
            raise Unsupported(f'convert_prefix_to_multiplier({p!r}) raised {type(e).__name__}')
        table.append((p, frac_of(v)))
    order = {p: i for i, (_, p) in enumerate(PREFIXES)}       # the model's listing order first, anything else after it
    table.sort(key=lambda pv: (order.get(pv[0], len(order)), pv[0]))
    # ---- convert_from, every cell
    rows = []
    for kind in KINDS:
        for (pc1, p1), (bc1, b1), (pc2, p2), (bc2, b2) in itertools.product(PREFIXES, BASES, PREFIXES, BASES):
            s = make_substance(pyplate, kind)
            try:
                r = Unit.convert_from(s, var(0), p1 + b1, p2 + b2)
            except ValueError:
                cell = 'CRaise'
            except Unsupported:
                raise
            except Exception as e:
                raise Unsupported(f'convert_from({kind}, q, {p1 + b1!r}, {p2 + b2!r}) raised {type(e).__name__}: {e}')
            else:
                r = Sym.lift(r)
                cell = f"CVal {qlit(r.coef)} {' '.join('(%d)' % e for e in r.exps)}"
            rows.append(f"(({kind}, {pc1}, {bc1}, {pc2}, {bc2}), {cell})")
    # ---- convert_to_storage / convert_from_storage under every storage configuration
    from pyplate.pyplate import config
    saved = (config.volume_storage_unit, config.moles_storage_unit)
    srows = []
    try:
        for (cc, cp) in PREFIXES:
            config.volume_storage_unit, config.moles_storage_unit = cp + 'L', cp + 'mol'
            for to in (True, False):
                fn = Unit.convert_to_storage if to else Unit.convert_from_storage
                for (pc, pp), (bc, bb) in itertools.product(PREFIXES, [b for b in BASES if b[0] in ('BL', 'BMol')]):
                    try:
                        r = Sym.lift(fn(var(0), pp + bb))
                    except Unsupported:
                        raise
                    except Exception as e:
                        raise Unsupported(f'{fn.__name__}(q, {pp + bb!r}) under storage prefix {cp!r} raised {type(e).__name__}: {e}')
                    srows.append(f"(({'true' if to else 'false'}, {cc}, {pc}, {bc}), CVal {qlit(r.coef)} {' '.join('(%d)' % e for e in r.exps)})")
    finally:
        config.volume_storage_unit, config.moles_storage_unit = saved
    out = ["(* GENERATED by translator/symex.py by symbolic execution of /repo's Unit.convert_from and "
           "Unit.convert_prefix_to_multiplier -- do not edit *)",
           "Require Import Base Units GenBase.", "Open Scope string_scope.",
           "Definition sym_prefix_table : list (string * Q) := [" + "; ".join(f"({coq_str(p)}, {qlit(v)})" for p, v in table) + "].",
           f"(* candidate prefix strings tried: {len(cands)} *)",
           "Definition sym_cells : list ((kind * Units.prefix * base * Units.prefix * base) * cell) := ["]
    out.append(";\n".join(rows))
    out.append("].")
    out.append("(* (to-storage?, storage prefix, prefix, base) -> outcome of convert_to_storage / convert_from_storage *)")
    out.append("Definition sym_storage : list ((bool * Units.prefix * Units.prefix * base) * cell) := [")
    out.append(";\n".join(srows))
    out.append("].")
    return "\n".join(out) + "\n", {"prefixes": len(table), "prefix_candidates": len(cands), "cells": len(rows), "storage_cells": len(srows)}


# ------------------------------------------------------------------ recipe lifecycle guards, by probing
METHODS = ['start_stage', 'end_stage', 'uses', 'transfer', 'create_container', 'create_solution',
           'create_solution_from', 'remove', 'dilute', 'fill_to', 'bake']


def gen_lifecycle(pyplate):
    P = pyplate
    water = P.Substance.liquid('water', 18.0153, 1.0)
    salt = P.Substance.solid('salt', 58.4428)

    def fresh():
        r = P.Recipe()
        c1 = P.Container('c1', '10 mL', [(water, '5 mL'), (salt, '10 mmol')])
        c2 = P.Container('c2', '10 mL', [(water, '1 mL')])
        r.uses(c1, c2)
        r.transfer(c1, c2, '1 mL')     # so that bake() has nothing to object to
        return r, c1, c2

    def calls(r, c1, c2, stage_name):
        c3 = P.Container('c3', '10 mL')
        return {
            'start_stage': lambda: r.start_stage(stage_name),
            'end_stage': lambda: r.end_stage(stage_name),
            'uses': lambda: r.uses(c3),
            'transfer': lambda: r.transfer(c1, c2, '1 mL'),
            'create_container': lambda: r.create_container('n1', '10 mL', [(water, '1 mL')]),
            'create_solution': lambda: r.create_solution(salt, water, concentration='0.1 M', total_quantity='5 mL', name='n2'),
            'create_solution_from': lambda: r.create_solution_from(c1, salt, '0.1 M', water, '5 mL', name='n3'),
            'remove': lambda: r.remove(c1, water),
            'dilute': lambda: r.dilute(c1, salt, '0.1 M', water),
            'fill_to': lambda: r.fill_to(c2, water, '5 mL'),
            'bake': lambda: r.bake(),
        }

    def snapshot(r):
        return (len(r.steps), tuple(sorted(map(str, r.results.keys()))), tuple(sorted(r.stages.keys())), r.current_stage,
                bool(r.locked), tuple(sorted(map(str, getattr(r, 'used', [])))))

    def probe(state, m, stage_name):
        r, c1, c2 = fresh()
        if state == 'open':
            r.start_stage('s1')
        elif state == 'closed':
            r.start_stage('s1')
            r.end_stage('s1')
        elif state == 'baked':
            r.bake()
        before = snapshot(r)
        try:
            calls(r, c1, c2, stage_name)[m]()
            exc = ''
        except Exception as e:
            exc = type(e).__name__
        return exc, snapshot(r) == before

    rows = []
    for m in METHODS:
        exc, unchanged = probe('baked', m, 's2')
        locked_direct = (exc != '' and unchanged)
        others = []
        if m == 'start_stage':
            # an existing name, outside any stage; a new name, inside an open stage
            e1, u1 = probe('closed', m, 's1')
            if e1 == 'ValueError' and u1:
                others.append('GStageExists')
            e2, u2 = probe('open', m, 's2')
            if e2 == 'ValueError' and u2:
                others.append('GStageOpen')
        if m == 'end_stage':
            e1, u1 = probe('fresh', m, 'all')
            if e1 == 'ValueError' and u1:
                others.append('GNameIsAll')
            e2, u2 = probe('open', m, 's2')
            if e2 == 'ValueError' and u2:
                others.append('GStageMismatch')
        # sanity: the same call on a fresh / suitably staged recipe is accepted, so that the refusal above is due to the state
        ok_state = {'end_stage': 'open'}.get(m, 'fresh')
        e0, _ = probe(ok_state, m, 's1' if m == 'end_stage' else 's2')
        if e0 != '':
            raise Unsupported(f'probe of {m} in state {ok_state} raised {e0}')
        rows.append((m, locked_direct, exc, False, others))
    out = ["(* GENERATED by translator/symex.py by probing /repo's Recipe methods in each lifecycle state -- do not edit *)",
           "Require Import Base GenBase.", "Open Scope string_scope.",
           "Definition sym_lifecycle_guards : list (string * (bool * string * bool * list stage_guard)) := ["]
    out.append(";\n".join(f"  ({coq_str(m)}, ({'true' if ld else 'false'}, {coq_str(le)}, false, [{'; '.join(o)}]))"
                          for m, ld, le, _, o in rows))
    out.append("].")
    return "\n".join(out) + "\n", {"methods": len(rows)}


def main():
    repo = sys.argv[1] if len(sys.argv) > 1 else '/repo'
    outdir = sys.argv[2] if len(sys.argv) > 2 else os.path.join(os.path.dirname(__file__), '..', 'coq', 'gen')
    sys.path.insert(0, repo)
    os.makedirs(outdir, exist_ok=True)
    status = {}
    try:
        import pyplate
        if not os.path.realpath(pyplate.__file__).startswith(os.path.realpath(repo)):
            raise Unsupported(f'pyplate imported from {pyplate.__file__}, not from {repo}')
    except BaseException as e:
        pyplate = None
        status['_import'] = f'{type(e).__name__}: {e}'
    for name, fn in (('UnitsSym', gen_units), ('LifecycleSym', gen_lifecycle)):
        path = os.path.join(outdir, name + '.v')
        try:
            if pyplate is None:
                raise Unsupported(status['_import'])
            text, info = fn(pyplate)
            status[name] = {'status': 'ok', **info}
        except Unsupported as e:
            text = f"(* GENERATED: symbolic execution not possible: {str(e).replace('*)', '* )')} *)\n"
            status[name] = {'status': 'unsupported', 'reason': str(e)}
        except Exception as e:
            text = f"(* GENERATED: symbolic execution failed: {type(e).__name__} *)\n"
            status[name] = {'status': 'unsupported', 'reason': f'{type(e).__name__}: {e}'}
        old = open(path).read() if os.path.exists(path) else None
        if old != text:
            open(path, 'w').write(text)
    json.dump(status, open(os.path.join(outdir, 'status_sym.json'), 'w'), indent=1)
    print(json.dumps(status))


if __name__ == '__main__':
    main()
