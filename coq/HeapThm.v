(* HeapThm.v -- no public operation writes to an object that existed before the call.
   [agree n h h']: the first n cells (all objects existing when the call started) are the same in h'.
   [safe base m Q]: started in any heap with at least [base] cells, m leaves the first [base] cells alone --
   whether it returns or raises -- never shrinks the heap, and a returned value satisfies Q (used for
   "the address returned is a new one").  Writes are allowed at new addresses only: [safe_store] needs base <= a. *)
Require Import Base Units Contents Container Plate Dilute Solve Heap.
Require Import Lia.

Definition agree (n : nat) (h h' : heap) : Prop := forall a, (a < n)%nat -> nth_error h' a = nth_error h a.
Definition safe {A} (base : nat) (m : M A) (Q : A -> Prop) : Prop :=
  forall h, (base <= length h)%nat ->
    agree base h (snd (m h)) /\ (length h <= length (snd (m h)))%nat /\ forall a, fst (m h) = Ok a -> Q a.

Lemma agree_refl n h : agree n h h. Proof. intros a _; reflexivity. Qed.
Lemma agree_trans n h1 h2 h3 : agree n h1 h2 -> agree n h2 h3 -> agree n h1 h3.
Proof. intros A B a Ha; rewrite (B a Ha); apply A; exact Ha. Qed.
Lemma agree_le n m h h' : (n <= m)%nat -> agree m h h' -> agree n h h'.
Proof. intros L A a Ha; apply A; lia. Qed.

Lemma set_nth_length {A} n (x : A) l : length (set_nth n x l) = length l.
Proof. revert n; induction l as [|y l IH]; intros [|n]; cbn; auto. Qed.
Lemma set_nth_other {A} n (x : A) l k : k <> n -> nth_error (set_nth n x l) k = nth_error l k.
Proof.
  revert n k; induction l as [|y l IH]; intros [|n] [|k] Hk; cbn; auto; try congruence; try (apply IH; congruence).
Qed.

Lemma safe_ret {A} base (a : A) (Q : A -> Prop) : Q a -> safe base (ret a) Q.
Proof. intros Hq h Hb; cbn; split; [apply agree_refl | split; [lia | intros ? [= <-]; exact Hq]]. Qed.
Lemma safe_raise {A} base e (Q : A -> Prop) : safe base (raise e) Q.
Proof. intros h Hb; cbn; split; [apply agree_refl | split; [lia | discriminate]]. Qed.
Lemma safe_lift {A} base (r : result A) : safe base (lift r) (fun _ => True).
Proof. intros h Hb; cbn; split; [apply agree_refl | split; [lia | auto]]. Qed.
Lemma safe_load base a : safe base (load a) (fun _ => True).
Proof. intros h Hb; cbn; split; [apply agree_refl | split; [lia | auto]]. Qed.
Lemma safe_alloc base c : safe base (alloc c) (fun a => (base <= a)%nat).
Proof.
  intros h Hb; cbn; split; [|split].
  - intros a Ha; rewrite nth_error_app1 by lia; reflexivity.
  - rewrite app_length; lia.
  - intros ? [= <-]; exact Hb.
Qed.
Lemma safe_store base a c : (base <= a)%nat -> safe base (store a c) (fun _ => True).
Proof.
  intros Ha h Hb; cbn; split; [|split].
  - intros b Hlt; apply set_nth_other; lia.
  - rewrite set_nth_length; lia.
  - auto.
Qed.
Lemma safe_bind {A B} base (m : M A) (k : A -> M B) (P : A -> Prop) (Q : B -> Prop) :
  safe base m P -> (forall a, P a -> safe base (k a) Q) -> safe base (mbind m k) Q.
Proof.
  intros Hm Hk h Hb; unfold mbind.
  destruct (Hm h Hb) as (A1 & L1 & Q1).
  destruct (m h) as [[a|e] h1] eqn:E; cbn in *.
  - destruct (Hk a (Q1 a eq_refl) h1 ltac:(lia)) as (A2 & L2 & Q2).
    split; [eapply agree_trans; eassumption | split; [lia | exact Q2]].
  - split; [exact A1 | split; [exact L1 | discriminate]].
Qed.
Lemma safe_weaken {A} base (m : M A) (P Q : A -> Prop) : safe base m P -> (forall a, P a -> Q a) -> safe base m Q.
Proof. intros Hm PQ h Hb; destruct (Hm h Hb) as (A1 & L1 & Q1); split; [exact A1 | split; [exact L1 | auto]]. Qed.
Lemma safe_true {A} base (m : M A) (P : A -> Prop) : safe base m P -> safe base m (fun _ => True).
Proof. intros H; eapply safe_weaken; [exact H | auto]. Qed.

(* bind where nothing is needed from the first result *)
Lemma safe_bind_any {A B} base (m : M A) (k : A -> M B) (P : A -> Prop) (Q : B -> Prop) :
  safe base m P -> (forall a, safe base (k a) Q) -> safe base (mbind m k) Q.
Proof. intros Hm Hk; eapply safe_bind; [exact Hm | intros a _; apply Hk]. Qed.

Lemma safe_load_cont base a : safe base (load_cont a) (fun _ => True).
Proof. unfold load_cont; eapply safe_bind_any; [apply safe_load|]; intros [ | | | ]; try apply safe_raise; apply safe_ret; exact I. Qed.
Lemma safe_load_arr base a : safe base (load_arr a) (fun _ => True).
Proof. unfold load_arr; eapply safe_bind_any; [apply safe_load|]; intros [ | | | ]; try apply safe_raise; apply safe_ret; exact I. Qed.
Lemma safe_load_plate base a : safe base (load_plate a) (fun _ => True).
Proof. unfold load_plate; eapply safe_bind_any; [apply safe_load|]; intros [ | | | ]; try apply safe_raise; apply safe_ret; exact I. Qed.
Lemma safe_load_slice base a : safe base (load_slice a) (fun _ => True).
Proof. unfold load_slice; eapply safe_bind_any; [apply safe_load|]; intros [ | | | ]; try apply safe_raise; apply safe_ret; exact I. Qed.

Definition fresh (base : nat) (a : addr) : Prop := (base <= a)%nat.

Lemma safe_mapM {A} base (f : A -> M addr) l :
  (forall x, safe base (f x) (fresh base)) -> safe base (mapM f l) (Forall (fresh base)).
Proof.
  intros Hf; induction l as [|x t IH]; cbn [mapM].
  - apply safe_ret; constructor.
  - eapply safe_bind; [apply Hf|]; intros y Hy.
    eapply safe_bind; [apply IH|]; intros ys Hys. apply safe_ret; constructor; assumption.
Qed.

Lemma safe_copy_cont base a : safe base (copy_cont a) (fresh base).
Proof. unfold copy_cont; eapply safe_bind_any; [apply safe_load_cont|]; intros ci; apply safe_alloc. Qed.
Definition fresh3 (base : nat) (r : addr * addr * nat) : Prop := fresh base (fst (fst r)) /\ fresh base (snd (fst r)).
Lemma safe_deepcopy_plate base p : safe base (deepcopy_plate p) (fresh3 base).
Proof.
  unfold deepcopy_plate; eapply safe_bind_any; [apply safe_load_plate|]; intros [[[nm nr] nc] arr].
  eapply safe_bind_any; [apply safe_load_arr|]; intros ws.
  eapply safe_bind_any; [apply safe_mapM; intros; apply safe_copy_cont|]; intros ws'.
  eapply safe_bind; [apply safe_alloc|]; intros arr' Harr'.
  eapply safe_bind; [apply safe_alloc|]; intros p' Hp'. apply safe_ret; split; assumption.
Qed.
Lemma safe_copy_slice base s : safe base (copy_slice s) (fresh base).
Proof. unfold copy_slice; eapply safe_bind_any; [apply safe_load_slice|]; intros sl; apply safe_alloc. Qed.
Definition fresh_ps (base : nat) (r : pslice) : Prop := fresh base (ps_plate r) /\ fresh base (ps_arr r) /\ fresh base (ps_slice r).
Lemma safe_private_slice base s : safe base (private_slice s) (fresh_ps base).
Proof.
  unfold private_slice; eapply safe_bind; [apply safe_copy_slice|]; intros s' Hs'.
  eapply safe_bind_any; [apply safe_load_slice|]; intros sl.
  eapply safe_bind; [apply safe_deepcopy_plate|]; intros pa [Hp Ha].
  eapply safe_bind_any; [apply safe_store; exact Hs'|]; intros _.
  apply safe_ret; split; [assumption | split; assumption].
Qed.
Lemma safe_getitem base p rg : safe base (h_getitem p rg) (fresh base).
Proof.
  unfold h_getitem; eapply safe_bind_any; [apply safe_load_plate|]; intros [[[nm nr] nc] arr].
  destruct (forallb _ _); [apply safe_alloc | apply safe_raise].
Qed.
Lemma safe_as_slice base a : safe base (as_slice a) (fun _ => True).
Proof.
  unfold as_slice; eapply safe_bind_any; [apply safe_load|]; intros [ | | | ]; try apply safe_raise.
  - eapply safe_true; apply safe_alloc.
  - apply safe_ret; exact I.
Qed.
Lemma safe_nonempty base l : safe base (nonempty l) (fun _ => True).
Proof. destruct l; [apply safe_raise | apply safe_ret; exact I]. Qed.

Section Ops.
Variable cf : cfg.

Lemma safe_transfer_cc base s d q :
  safe base (h_transfer_cc cf s d q) (fun r => fresh base (fst r) /\ fresh base (snd r)).
Proof.
  unfold h_transfer_cc.
  eapply safe_bind_any; [apply safe_load_cont|]; intros cs.
  eapply safe_bind_any; [apply safe_load_cont|]; intros cd.
  eapply safe_bind_any; [apply safe_lift|]; intros r.
  destruct (_ || _); [apply safe_raise|].
  eapply safe_bind; [apply safe_copy_cont|]; intros s' Hs'.
  eapply safe_bind; [apply safe_copy_cont|]; intros d' Hd'.
  eapply safe_bind_any; [apply safe_lift|]; intros sd.
  eapply safe_bind_any; [apply safe_store; exact Hs'|]; intros _.
  eapply safe_bind_any; [apply safe_store; exact Hd'|]; intros _.
  apply safe_ret; cbn; split; assumption.
Qed.

(* the loop over the addressed wells: the array written to is a new one, what is stored are new wells *)
Lemma safe_fold base (P : addr -> Prop) f arr idxs acc :
  (forall a w, P a -> safe base (f a w) (fun r => P (fst r) /\ fresh base (snd r))) ->
  fresh base arr -> P acc -> safe base (h_fold f arr idxs acc) P.
Proof.
  intros Hf Harr; revert acc; induction idxs as [|i t IH]; intros acc Hacc; cbn [h_fold].
  - apply safe_ret; exact Hacc.
  - eapply safe_bind_any; [apply safe_load_arr|]; intros ws.
    destruct (nth_error ws i) as [w|]; [|apply safe_raise].
    eapply safe_bind; [apply Hf; exact Hacc|]; intros r [Hr1 Hr2].
    eapply safe_bind_any; [apply safe_store; exact Harr|]; intros _.
    apply IH; exact Hr1.
Qed.
Lemma safe_apply base f arr idxs :
  (forall w, safe base (f w) (fresh base)) -> fresh base arr -> safe base (h_apply f arr idxs) (fun _ => True).
Proof.
  intros Hf Harr; unfold h_apply.
  eapply safe_bind_any; [|intros; apply safe_ret; exact I].
  apply (safe_fold base (fun _ => True)); auto.
  intros a w _. eapply safe_bind; [apply Hf|]; intros w' Hw'. apply safe_ret; cbn; auto.
Qed.
Lemma safe_bump base a : fresh base a -> safe base (bump a) (fun _ => True).
Proof. intros Ha; unfold bump; eapply safe_bind_any; [apply safe_load_cont|]; intros ci; apply safe_store; exact Ha. Qed.

Definition fresh2 (base : nat) (r : addr * addr) : Prop := fresh base (fst r) /\ fresh base (snd r).
Lemma safe_transfer_cc' base s d q : safe base (h_transfer_cc cf s d q) (fresh2 base).
Proof. exact (safe_transfer_cc base s d q). Qed.

Lemma safe_transfer_sc base src d q : safe base (h_transfer_sc cf src d q) (fresh2 base).
Proof.
  unfold h_transfer_sc.
  eapply safe_bind_any; [apply safe_as_slice|]; intros s0.
  eapply safe_bind; [apply safe_copy_cont|]; intros to Hto.
  eapply safe_bind; [apply safe_private_slice|]; intros sp (Hp & Ha & _).
  eapply safe_bind_any; [apply safe_nonempty|]; intros _.
  eapply safe_bind; [apply (safe_fold base (fresh base)); [|exact Ha|exact Hto]|].
  - intros a w _. eapply safe_bind; [apply safe_transfer_cc|]; intros r [H1 H2]. apply safe_ret; cbn; split; assumption.
  - intros to' Hto'. apply safe_ret; split; assumption.
Qed.
Lemma safe_fold_ne base (P : addr -> Prop) f arr i idxs acc :
  (forall a w, safe base (f a w) (fun r => P (fst r) /\ fresh base (snd r))) ->
  fresh base arr -> safe base (h_fold f arr (i :: idxs) acc) P.
Proof.
  intros Hf Harr; cbn [h_fold].
  eapply safe_bind_any; [apply safe_load_arr|]; intros ws.
  destruct (nth_error ws i) as [w|]; [|apply safe_raise].
  eapply safe_bind; [apply Hf|]; intros r [Hr1 Hr2].
  eapply safe_bind_any; [apply safe_store; exact Harr|]; intros _.
  apply safe_fold; auto.
Qed.
Lemma safe_transfer_cs base s dst q : safe base (h_transfer_cs cf s dst q) (fresh2 base).
Proof.
  unfold h_transfer_cs.
  eapply safe_bind_any; [apply safe_as_slice|]; intros t0.
  eapply safe_bind_any; [apply safe_load_cont|]; intros _.
  eapply safe_bind; [apply safe_private_slice|]; intros tp (Hp & Ha & _).
  destruct (region_idx (ps_nc tp) (ps_rg tp)) as [|i idxs]; cbn [nonempty].
  - eapply (safe_bind _ _ _ (fun _ => False)); [apply safe_raise | intros ? []].
  - eapply (safe_bind_any _ _ _ (fun _ => True)); [apply safe_ret; exact I|]; intros _.
    eapply safe_bind; [apply (safe_fold_ne base (fresh base)); [|exact Ha]|].
    + intros a w. apply safe_transfer_cc.
    + intros s' Hs'. apply safe_ret; split; assumption.
Qed.

Lemma safe_pairs base fa ta pairs q edit : fresh base fa -> fresh base ta -> safe base (h_pairs cf fa ta pairs q edit) (fun _ => True).
Proof.
  intros Hfa Hta; induction pairs as [|[i j] t IH]; cbn [h_pairs]; [apply safe_ret; exact I|].
  eapply safe_bind_any; [apply safe_load_arr|]; intros fs.
  eapply safe_bind_any; [apply safe_load_arr|]; intros ts.
  destruct (nth_error fs i) as [a|]; [|apply safe_raise].
  destruct (nth_error ts j) as [b|]; [|apply safe_raise].
  eapply safe_bind; [apply safe_transfer_cc|]; intros r [H1 H2].
  eapply safe_bind_any; [destruct edit; [apply safe_bump; exact H2 | apply safe_ret; exact I]|]; intros _.
  eapply safe_bind_any; [apply safe_store; exact Hfa|]; intros _.
  eapply safe_bind_any; [apply safe_load_arr|]; intros ts'.
  eapply safe_bind_any; [apply safe_store; exact Hta|]; intros _.
  exact IH.
Qed.

Lemma safe_transfer_ss base src dst q : safe base (h_transfer_ss cf src dst q) (fresh2 base).
Proof.
  unfold h_transfer_ss.
  eapply safe_bind_any; [apply safe_as_slice|]; intros t0.
  eapply safe_bind_any; [apply safe_as_slice|]; intros f0.
  eapply safe_bind; [apply safe_copy_slice|]; intros t' Ht'.
  eapply safe_bind; [apply safe_copy_slice|]; intros f' Hf'.
  eapply safe_bind_any; [apply safe_load_slice|]; intros tsl.
  eapply safe_bind_any; [apply safe_load_slice|]; intros fsl.
  eapply (safe_bind _ _ _ (fun pp => fresh3 base (fst pp) /\ fresh3 base (snd pp))).
  { destruct (negb _).
    - eapply safe_bind; [apply safe_deepcopy_plate|]; intros tp Htp.
      eapply safe_bind; [apply safe_deepcopy_plate|]; intros fp Hfp. apply safe_ret; split; assumption.
    - eapply safe_bind; [apply safe_deepcopy_plate|]; intros p Hp. apply safe_ret; split; assumption. }
  intros [[[fp fa] fnc] [[tp ta] tnc]] [[Hfp Hfa] [Htp Hta]]; cbn in Hfp, Hfa, Htp, Hta; cbn [fst snd].
  eapply safe_bind_any; [apply safe_store; exact Ht'|]; intros _.
  eapply safe_bind_any; [apply safe_store; exact Hf'|]; intros _.
  destruct (_ && _); [apply safe_raise|].
  destruct (region_idx fnc (snd fsl)) as [|s0 si]; [apply safe_raise|].
  destruct (region_idx tnc (snd tsl)) as [|d0 di]; [apply safe_raise|].
  eapply safe_bind_any; [apply safe_lift|]; intros [ | | ].
  - eapply safe_bind_any; [apply safe_load_arr|]; intros fs.
    destruct (nth_error fs s0) as [a|]; [|apply safe_raise].
    eapply safe_bind_any; [apply (safe_fold base (fun _ => True)); [|exact Hta|exact I]|].
    + intros a0 w _. eapply safe_bind; [apply safe_transfer_cc|]; intros r [H1 H2].
      eapply safe_bind_any; [destruct (negb _); [apply safe_bump; exact H2 | apply safe_ret; exact I]|]; intros _.
      apply safe_ret; split; auto.
    + intros a'. eapply safe_bind_any; [apply safe_load_arr|]; intros fs'.
      eapply safe_bind_any; [apply safe_store; exact Hfa|]; intros _. apply safe_ret; split; assumption.
  - eapply safe_bind_any; [apply safe_load_arr|]; intros ts.
    destruct (nth_error ts d0) as [b|]; [|apply safe_raise].
    eapply safe_bind_any; [apply (safe_fold base (fun _ => True)); [|exact Hfa|exact I]|].
    + intros a0 w _. eapply safe_bind; [apply safe_transfer_cc|]; intros r [H1 H2].
      eapply safe_bind_any; [apply safe_bump; exact H1|]; intros _.
      apply safe_ret; split; auto.
    + intros b'. eapply safe_bind_any; [apply safe_load_arr|]; intros ts'.
      eapply safe_bind_any; [apply safe_store; exact Hta|]; intros _. apply safe_ret; split; assumption.
  - eapply safe_bind_any; [apply safe_pairs; assumption|]; intros _. apply safe_ret; split; assumption.
Qed.

Lemma safe_remove_c base a w : safe base (h_remove_c cf a w) (fresh base).
Proof.
  unfold h_remove_c. eapply safe_bind_any; [apply safe_load_cont|]; intros ci.
  eapply safe_bind; [apply safe_copy_cont|]; intros a' Ha'.
  eapply safe_bind_any; [apply safe_store; exact Ha'|]; intros _. apply safe_ret; exact Ha'.
Qed.
Lemma safe_fill_c base a s q : safe base (h_fill_c cf a s q) (fresh base).
Proof.
  unfold h_fill_c. eapply safe_bind_any; [apply safe_load_cont|]; intros ci.
  eapply safe_bind_any; [apply safe_lift|]; intros c'.
  eapply safe_bind; [apply safe_copy_cont|]; intros a' Ha'.
  eapply safe_bind_any; [apply safe_store; exact Ha'|]; intros _. apply safe_ret; exact Ha'.
Qed.
Lemma safe_dilute base a s t sv : safe base (h_dilute cf a s t sv) (fresh base).
Proof.
  unfold h_dilute. eapply safe_bind_any; [apply safe_load_cont|]; intros ci.
  eapply safe_bind_any; [apply safe_lift|]; intros c'.
  eapply safe_bind; [apply safe_copy_cont|]; intros a' Ha'.
  eapply safe_bind_any; [apply safe_store; exact Ha'|]; intros _. apply safe_ret; exact Ha'.
Qed.
Lemma safe_remove_s base t w : safe base (h_remove_s cf t w) (fresh base).
Proof.
  unfold h_remove_s. eapply safe_bind_any; [apply safe_as_slice|]; intros s0.
  eapply safe_bind; [apply safe_private_slice|]; intros sp (Hp & Ha & _).
  eapply safe_bind_any; [apply safe_nonempty|]; intros _.
  eapply safe_bind_any; [apply safe_apply; [intros; apply safe_remove_c | exact Ha]|]; intros _.
  apply safe_ret; exact Hp.
Qed.
Lemma safe_fill_s base t s q : safe base (h_fill_s cf t s q) (fresh base).
Proof.
  unfold h_fill_s. eapply safe_bind_any; [apply safe_as_slice|]; intros s0.
  eapply safe_bind; [apply safe_private_slice|]; intros sp (Hp & Ha & _).
  eapply safe_bind_any; [apply safe_nonempty|]; intros _.
  eapply safe_bind_any; [apply safe_apply; [intros; apply safe_fill_c | exact Ha]|]; intros _.
  apply safe_ret; exact Hp.
Qed.
Lemma safe_newc base n mx init : safe base (h_newc cf n mx init) (fresh base).
Proof. unfold h_newc. eapply safe_bind_any; [apply safe_lift|]; intros c. apply safe_alloc. Qed.
Lemma safe_newp base n r c mx : safe base (h_newp cf n r c mx) (fresh base).
Proof.
  unfold h_newp. eapply safe_bind_any; [apply safe_lift|]; intros p.
  eapply safe_bind_any; [apply safe_mapM; intros; apply safe_alloc|]; intros ws.
  eapply safe_bind_any; [apply safe_alloc|]; intros arr. apply safe_alloc.
Qed.
Lemma safe_solution_c base n sol sv m : safe base (h_solution_c cf n sol sv m) (fresh2 base).
Proof.
  unfold h_solution_c. eapply safe_bind_any; [apply safe_load_cont|]; intros k.
  eapply safe_bind_any; [apply safe_lift|]; intros r.
  eapply safe_bind; [apply safe_alloc|]; intros a Ha.
  eapply safe_bind; [apply safe_alloc|]; intros b Hb. apply safe_ret; split; assumption.
Qed.
Lemma safe_solfrom base src s c sv q n : safe base (h_solfrom cf src s c sv q n) (fresh2 base).
Proof.
  unfold h_solfrom. eapply safe_bind_any; [apply safe_load_cont|]; intros k.
  eapply safe_bind_any; [apply safe_lift|]; intros r.
  eapply safe_bind; [apply safe_alloc|]; intros a Ha.
  eapply safe_bind; [apply safe_alloc|]; intros b Hb. apply safe_ret; split; assumption.
Qed.
Lemma safe_uses base a : safe base (h_uses a) (fresh base).
Proof.
  unfold h_uses. eapply safe_bind_any; [apply safe_load|]; intros [ | | | ]; try apply safe_raise.
  - apply safe_copy_cont.
  - eapply safe_bind; [apply safe_deepcopy_plate|]; intros r [Hp _]. apply safe_ret; exact Hp.
Qed.
Lemma safe_var base vars v : safe base (var vars v) (fun _ => True).
Proof. unfold var; destruct (nth_error vars v); [apply safe_ret; exact I | apply safe_raise]. Qed.
End Ops.

(* ---- recipes ---- *)
Lemma Forall_set_nth_fresh base n a (l : list addr) : Forall (fresh base) l -> fresh base a -> Forall (fresh base) (set_nth n a l).
Proof.
  revert n; induction l as [|x l IH]; intros [|n] Hl Ha; simpl; auto; inversion Hl; subst; constructor; auto.
Qed.
Section RecipeOps.
Variable cf : cfg.
Lemma safe_res_get base res n : Forall (fresh base) res -> safe base (res_get res n) (fresh base).
Proof.
  intros H. unfold res_get. destruct (nth_error res n) as [a|] eqn:E; [|apply safe_raise].
  apply safe_ret. eapply Forall_forall; [exact H | eapply nth_error_In; exact E].
Qed.
Lemma safe_resolve base vars res r : Forall (fresh base) res -> safe base (resolve vars res r) (fresh base).
Proof.
  intros H. destruct r as [n|v n]; cbn [resolve]; [apply safe_res_get; exact H|].
  eapply safe_bind_any; [apply safe_var|]; intros sl.
  eapply safe_bind; [apply safe_private_slice|]; intros sp (_ & _ & Hs).
  eapply safe_bind_any; [apply safe_res_get; exact H|]; intros p.
  eapply safe_bind_any; [apply safe_store; exact Hs|]; intros _.
  apply safe_ret; exact Hs.
Qed.
Lemma safe_transfer_any base sa da q : safe base (h_transfer_any cf sa da q) (fresh2 base).
Proof.
  unfold h_transfer_any.
  eapply safe_bind_any; [apply safe_load|]; intros sc.
  eapply safe_bind_any; [apply safe_load|]; intros dc.
  destruct dc, sc; try apply safe_raise;
    try (destruct (Nat.eqb sa da); [apply safe_raise|]);
    first [apply safe_transfer_cc' | apply safe_transfer_sc | apply safe_transfer_ss | apply safe_transfer_cs].
Qed.
Lemma safe_remove_any base ta w : safe base (h_remove_any cf ta w) (fresh base).
Proof.
  unfold h_remove_any. eapply safe_bind_any; [apply safe_load|]; intros [ | | | ]; try apply safe_raise;
    first [apply safe_remove_c | apply safe_remove_s].
Qed.
Lemma safe_fill_any base ta s q : safe base (h_fill_any cf ta s q) (fresh base).
Proof.
  unfold h_fill_any. eapply safe_bind_any; [apply safe_load|]; intros [ | | | ]; try apply safe_raise;
    first [apply safe_fill_c | apply safe_fill_s].
Qed.
Lemma safe_rstep base vars res st : Forall (fresh base) res -> safe base (h_rstep cf vars res st) (Forall (fresh base)).
Proof.
  intros H. destruct st; cbn [h_rstep].
  - eapply safe_bind_any; [apply safe_resolve; exact H|]; intros sa.
    eapply safe_bind_any; [apply safe_resolve; exact H|]; intros da.
    eapply safe_bind; [apply safe_transfer_any|]; intros r [H1 H2].
    apply safe_ret. apply Forall_set_nth_fresh; [apply Forall_set_nth_fresh|]; assumption.
  - eapply safe_bind_any; [apply safe_resolve; exact H|]; intros ta.
    eapply safe_bind; [apply safe_remove_any|]; intros a Ha. apply safe_ret. apply Forall_set_nth_fresh; assumption.
  - eapply safe_bind_any; [apply safe_res_get; exact H|]; intros ta.
    eapply safe_bind; [apply safe_fill_any|]; intros a Ha. apply safe_ret. apply Forall_set_nth_fresh; assumption.
  - eapply safe_bind_any; [apply safe_res_get; exact H|]; intros ta.
    eapply safe_bind; [apply safe_dilute|]; intros a Ha. apply safe_ret. apply Forall_set_nth_fresh; assumption.
Qed.
Lemma safe_rsteps base vars steps : forall res, Forall (fresh base) res -> safe base (h_rsteps cf vars res steps) (Forall (fresh base)).
Proof.
  induction steps as [|st t IH]; intros res H; cbn [h_rsteps]; [apply safe_ret; exact H|].
  eapply safe_bind; [apply safe_rstep; exact H|]; intros res' H'. apply IH; exact H'.
Qed.
Lemma safe_recipe base vars uses steps : safe base (h_recipe cf vars uses steps) (Forall (fresh base)).
Proof.
  unfold h_recipe. eapply safe_bind; [apply safe_mapM; intros v; eapply safe_bind_any; [apply safe_var|]; intros a; apply safe_uses|].
  intros res H. apply safe_rsteps; exact H.
Qed.
End RecipeOps.

(* ---- every operation of the program DSL *)
Theorem hstep_safe cf base vars o : safe base (hstep cf vars o) (Forall (fresh base)).
Proof.
  assert (P2 : forall (m : M (addr * addr)), safe base m (fresh2 base) ->
               safe base (mdo r <- m; ret (pair_list r)) (Forall (fresh base))).
  { intros m Hm; eapply safe_bind; [exact Hm|]; intros r [H1 H2]; apply safe_ret; repeat constructor; assumption. }
  assert (P1 : forall (m : M addr), safe base m (fresh base) ->
               safe base (mdo a <- m; ret [a]) (Forall (fresh base))).
  { intros m Hm; eapply safe_bind; [exact Hm|]; intros a Ha; apply safe_ret; repeat constructor; assumption. }
  destruct o; cbn [hstep].
  - apply P1, safe_newc.
  - apply P1, safe_newp.
  - eapply safe_bind_any; [apply safe_var|]; intros pa. apply P1, safe_getitem.
  - eapply safe_bind_any; [apply safe_var|]; intros sa.
    eapply safe_bind_any; [apply safe_var|]; intros da.
    eapply safe_bind_any; [apply safe_load|]; intros sc.
    eapply safe_bind_any; [apply safe_load|]; intros dc.
    destruct dc, sc; try apply safe_raise;
      try (destruct (Nat.eqb sa da); [apply safe_raise|]);
      apply P2; first [apply safe_transfer_cc' | apply safe_transfer_sc | apply safe_transfer_ss | apply safe_transfer_cs].
  - eapply safe_bind_any; [apply safe_var|]; intros ta.
    eapply safe_bind_any; [apply safe_load|]; intros [ | | | ]; try apply safe_raise; apply P1;
      first [apply safe_remove_c | apply safe_remove_s].
  - eapply safe_bind_any; [apply safe_var|]; intros ta.
    eapply safe_bind_any; [apply safe_load|]; intros [ | | | ]; try apply safe_raise; apply P1;
      first [apply safe_fill_c | apply safe_fill_s].
  - eapply safe_bind_any; [apply safe_var|]; intros a. apply P1, safe_dilute.
  - eapply safe_bind_any; [apply safe_var|]; intros a. apply P2, safe_solution_c.
  - eapply safe_bind_any; [apply safe_var|]; intros a. apply P2, safe_solfrom.
  - eapply safe_bind_any; [apply safe_var|]; intros a. apply P1, safe_uses.
  - apply safe_recipe.
Qed.

(* the statement without the Hoare wrapper: a call started in heap h -- returning or raising -- leaves every
   cell of h as it was, and every object it returns is a new one *)
Theorem hstep_frame cf vars o h :
  agree (length h) h (snd (hstep cf vars o h)) /\ (length h <= length (snd (hstep cf vars o h)))%nat /\
  forall l, fst (hstep cf vars o h) = Ok l -> Forall (fun a => (length h <= a)%nat) l.
Proof. exact (hstep_safe cf (length h) vars o h (le_n _)). Qed.

(* what a user can see of an object is determined by cells that exist when it is observable *)
Lemma nth_error_lt {A} (l : list A) n x : nth_error l n = Some x -> (n < length l)%nat.
Proof. intros H; apply nth_error_Some; congruence. Qed.
Lemma view_cont_stable h h' a v : agree (length h) h h' -> view_cont h a = Some v -> view_cont h' a = Some v.
Proof.
  intros A; unfold view_cont. destruct (nth_error h a) eqn:E; [|discriminate].
  rewrite (A a (nth_error_lt _ _ _ E)), E; auto.
Qed.
Lemma all_some_stable h h' ws l : agree (length h) h h' ->
  all_some (map (view_cont h) ws) = Some l -> all_some (map (view_cont h') ws) = Some l.
Proof.
  intros A; revert l; induction ws as [|w ws IH]; intros l; cbn; auto.
  destruct (view_cont h w) eqn:E; [|discriminate].
  rewrite (view_cont_stable _ _ _ _ A E).
  destruct (all_some (map (view_cont h) ws)) eqn:E2; [|discriminate].
  rewrite (IH _ eq_refl); auto.
Qed.
Lemma view_plate_stable h h' a v : agree (length h) h h' -> view_plate h a = Some v -> view_plate h' a = Some v.
Proof.
  intros A; unfold view_plate. destruct (nth_error h a) as [c|] eqn:E; [|discriminate].
  rewrite (A a (nth_error_lt _ _ _ E)), E. destruct c; try discriminate.
  destruct (nth_error h arr) as [c|] eqn:E2; [|discriminate].
  rewrite (A arr (nth_error_lt _ _ _ E2)), E2. destruct c; try discriminate.
  destruct (all_some (map (view_cont h) ws)) eqn:E3; [|discriminate].
  rewrite (all_some_stable _ _ _ _ A E3); auto.
Qed.
Theorem observe_stable h h' a v : agree (length h) h h' -> observe h a = Some v -> observe h' a = Some v.
Proof.
  intros A; unfold observe. destruct (nth_error h a) as [c|] eqn:E; [|discriminate].
  rewrite (A a (nth_error_lt _ _ _ E)), E. destruct c; auto.
  - apply view_plate_stable; exact A.
  - destruct (view_plate h pl) eqn:E2; [|discriminate]. rewrite (view_plate_stable _ _ _ _ A E2); auto.
Qed.

(* C04, one call: whatever could be observed before the call -- the arguments, and every other object -- is
   observed unchanged after it, whether the call returned or raised (also part-way through a plate) *)
Theorem call_leaves_everything_unchanged cf vars o h a v :
  observe h a = Some v -> observe (snd (hstep cf vars o h)) a = Some v.
Proof. apply observe_stable, hstep_frame. Qed.

(* C04, histories: nothing that exists at some point of a history is changed by the rest of it *)
Lemma agree_grow h1 h2 h3 : agree (length h1) h1 h2 -> (length h1 <= length h2)%nat -> agree (length h2) h2 h3 -> agree (length h1) h1 h3.
Proof. intros A L B; eapply agree_trans; [exact A | eapply agree_le; [exact L | exact B]]. Qed.
Theorem hrun_frame cf ops : forall vars h,
  agree (length h) h (snd (hrun cf vars h ops)) /\ (length h <= length (snd (hrun cf vars h ops)))%nat.
Proof.
  induction ops as [|o t IH]; intros vars h; cbn [hrun].
  - cbn; split; [apply agree_refl | lia].
  - destruct (hstep_frame cf vars o h) as (A & L & _).
    destruct (hstep cf vars o h) as [r h'] eqn:E; cbn [fst snd] in *.
    match goal with |- context [hrun cf ?v h' t] => destruct (IH v h') as (A2 & L2); destruct (hrun cf v h' t) as [[rs vf] hf] end.
    cbn [snd] in *. split; [eapply agree_grow; eassumption | lia].
Qed.
Theorem history_leaves_everything_unchanged cf ops1 ops2 vars h a v :
  let '(_, v1, h1) := hrun cf vars h ops1 in
  observe h1 a = Some v -> observe (snd (hrun cf v1 h1 ops2)) a = Some v.
Proof.
  destruct (hrun cf vars h ops1) as [[rs v1] h1]. intros H.
  eapply observe_stable; [apply hrun_frame | exact H].
Qed.
(* results are new objects, for every call of every history *)
Theorem results_are_new cf vars o h l :
  fst (hstep cf vars o h) = Ok l -> Forall (fun a => observe h a = None) l.
Proof.
  intros H. destruct (hstep_frame cf vars o h) as (_ & _ & F). specialize (F l H).
  eapply Forall_impl; [|exact F]. intros a Ha. unfold observe.
  destruct (nth_error h a) eqn:E; auto. apply nth_error_lt in E. cbn beta in Ha. lia.
Qed.
