(* SizeThm.v -- sizes of aliquots (C02): the destination gains exactly what the source loses, in every unit;
   a container dispensing into n wells loses n*q and one collecting from n wells gains n*q. *)
Require Import Base Units UnitsThm Contents Container ContainerThm ContainerThm2 Plate PlateThm.

(* a per-substance measure that is linear in the amount *)
Record linear (f : substance -> Q -> Q) : Prop := {
  lin_proper : forall s x y, x == y -> f s x == f s y;
  lin_add : forall s x y, f s (x + y) == f s x + f s y;
  lin_scale : forall s x r, f s (x * r) == f s x * r;
  lin_zero : forall s, f s 0 == 0
}.

Lemma sum_by_move f r src : linear f -> forall dst, wfc dst ->
  sum_by f (move_into r src dst) == sum_by f dst + sum_by f src * r.
Proof.
  intros L. induction src as [|[s a] t IH]; intros dst Hwf.
  - unfold move_into; simpl. unfold sum_by at 3. simpl. ring.
  - rewrite move_into_cons, IH by (apply wfc_upd; exact Hwf).
    rewrite (sum_by_upd f s _ dst Hwf (lin_zero f L s)). rewrite sum_by_cons.
    rewrite (lin_proper f L s _ _ (rnd_eq _)), (lin_add f L), (lin_scale f L). ring.
Qed.

Lemma linear_conv cf u : linear (fun s a => conv_stored cf s a u).
Proof.
  constructor; intros.
  - rewrite H. reflexivity.
  - apply conv_stored_add.
  - apply conv_stored_scale.
  - apply conv_stored_zero.
Qed.
Lemma linear_mol : linear (fun s a => if is_enzyme s then 0 else a).
Proof. constructor; intros; destruct (is_enzyme s); try ring; try reflexivity; assumption. Qed.
Lemma linear_act : linear (fun s a => if is_enzyme s then a else 0).
Proof. constructor; intros; destruct (is_enzyme s); try ring; try reflexivity; assumption. Qed.

Lemma measure_move cf b r src dst : wfc dst ->
  measure cf b (move_into r src dst) == measure cf b dst + measure cf b src * r.
Proof.
  intros Hwf. destruct b; simpl; unfold volume_of, total_in, total_mol, total_act.
  - rewrite (sum_by_move _ r src linear_act dst Hwf). ring.
  - rewrite (sum_by_move _ r src (linear_conv cf (vol_unit cf)) dst Hwf). ring.
  - rewrite (sum_by_move _ r src (linear_conv cf (P0, BG)) dst Hwf). ring.
  - rewrite (sum_by_move _ r src linear_mol dst Hwf). ring.
Qed.

(* C02: the destination gains exactly q, measured in the unit of q *)
Theorem transfer_size_dst cf src dst q s' d' :
  Inv cf src -> Inv cf dst -> transfer cf src dst q = Ok (s', d') ->
  measure cf (qbase q) (cont d') - measure cf (qbase q) (cont dst) == qv q.
Proof.
  intros Is Id H. pose proof H as H'. apply transfer_ok in H'. destruct H' as (r & Hr & _ & _ & _ & Hd & _). subst d'. simpl.
  rewrite measure_move by apply (inv_wf _ _ Id).
  rewrite <- (ratio_size cf src q r (inv_vol _ _ Is) Hr). ring.
Qed.

(* C02 / C10: the cached volume follows: the source's volume drops and the destination's rises by the aliquot's volume *)
Theorem transfer_volume cf src dst q s' d' :
  Inv cf src -> Inv cf dst -> transfer cf src dst q = Ok (s', d') ->
  vol s' + vol d' == vol src + vol dst.
Proof.
  intros Is Id H. destruct (transfer_inv cf src dst q s' d' Is Id H) as [Is' Id'].
  rewrite (inv_vol _ _ Is'), (inv_vol _ _ Id'), (inv_vol _ _ Is), (inv_vol _ _ Id).
  apply transfer_ok in H. destruct H as (r & _ & _ & _ & Hs & Hd & _). subst s' d'. simpl.
  unfold volume_of. rewrite total_in_take.
  unfold total_in. rewrite (sum_by_move _ r (cont src) (linear_conv cf (vol_unit cf)) (cont dst) (inv_wf _ _ Id)). ring.
Qed.

(* accumulators: a quantity that changes by d at every step changes by n*d over n addressed wells *)
Lemma fold_wells_count {A} (f : A -> container -> result (A * container)) (Pa : A -> Prop) (P : container -> Prop)
      (ga : A -> Q) (d : Q) :
  (forall a w a' w', Pa a -> P w -> f a w = Ok (a', w') -> Pa a' /\ P w' /\ ga a' == ga a + d) ->
  forall idxs a ws a' ws', Pa a -> Forall P ws -> fold_wells f idxs a ws = Ok (a', ws') ->
    ga a' == ga a + inject_Z (Z.of_nat (length idxs)) * d.
Proof.
  intros Hstep. induction idxs as [|i t IH]; intros a ws a' ws' Ha Hws H.
  - simpl in H. inversion H; subst. simpl. ring.
  - rewrite fold_wells_cons in H. destruct (nth_error ws i) as [w|] eqn:E; [|discriminate].
    unfold bind in H. destruct (f a w) as [[a1 w1]|] eqn:Ef; [|discriminate]. simpl in H.
    destruct (Hstep _ _ _ _ Ha (Forall_nth_error _ _ _ _ Hws E) Ef) as (Ha1 & Hw1 & Hd).
    apply IH in H; [|exact Ha1|apply Forall_set_nth; assumption].
    rewrite H, Hd. change (length (i :: t)) with (S (length t)). rewrite Nat2Z.inj_succ. unfold Z.succ.
    rewrite inject_Z_plus. change (inject_Z 1) with 1. ring.
Qed.

(* a container dispensing q into each of n wells loses n*q *)
Theorem c_to_p_size cf c p r q c' p' :
  Inv cf c -> PInv cf p -> c_to_p cf c p r q = Ok (c', p') ->
  measure cf (qbase q) (cont c) - measure cf (qbase q) (cont c') ==
  inject_Z (Z.of_nat (length (region_idx (ncols p) r))) * qv q.
Proof.
  unfold c_to_p, PInv. intros Ic Ip H. apply nonempty_ok in H. destruct H as [H _]. unfold bind in H.
  destruct (fold_wells _ _ c (wells p)) as [[c1 ws]|] eqn:E; [|discriminate]. inversion H; subst; simpl. clear H.
  set (f := fun src w : container => transfer cf src w q) in *.
  pose proof (fold_wells_count f (Inv cf) (Inv cf) (fun a => measure cf (qbase q) (cont a)) (- qv q)) as L.
  rewrite (L) with (idxs := region_idx (ncols p) r) (a := c) (ws := wells p) (a' := c') (ws' := ws); auto; [ring|].
  intros a w a' w' Ha Hw Hf. unfold f in Hf. destruct (transfer_inv cf a w q a' w' Ha Hw Hf) as [Ia Iw].
  split; [exact Ia|]. split; [exact Iw|].
  pose proof (transfer_size cf a w q a' w' (inv_vol _ _ Ha) Hf). lra.
Qed.

(* a container collecting q from each of n wells gains n*q *)
Theorem p_to_c_size cf p r c q p' c' :
  Inv cf c -> PInv cf p -> p_to_c cf p r c q = Ok (p', c') ->
  measure cf (qbase q) (cont c') - measure cf (qbase q) (cont c) ==
  inject_Z (Z.of_nat (length (region_idx (ncols p) r))) * qv q.
Proof.
  unfold p_to_c, PInv. intros Ic Ip H. apply nonempty_ok in H. destruct H as [H _]. unfold bind in H.
  destruct (fold_wells _ _ c (wells p)) as [[c1 ws]|] eqn:E; [|discriminate]. inversion H; subst; simpl. clear H.
  set (f := fun dst w : container => match transfer cf w dst q with Ok sd => Ok (snd sd, fst sd) | Err e => Err e end) in *.
  assert (Hf' : forall a w a' w', f a w = Ok (a', w') -> transfer cf w a q = Ok (w', a')).
  { intros a w a' w' Hf. unfold f in Hf. destruct (transfer cf w a q) as [[x y]|]; [|discriminate]. simpl in Hf. inversion Hf; reflexivity. }
  pose proof (fold_wells_count f (Inv cf) (Inv cf) (fun a => measure cf (qbase q) (cont a)) (qv q)) as L.
  rewrite (L) with (idxs := region_idx (ncols p) r) (a := c) (ws := wells p) (a' := c') (ws' := ws); auto; [ring|].
  intros a w a' w' Ha Hw Hf. apply Hf' in Hf. destruct (transfer_inv cf w a q w' a' Hw Ha Hf) as [Iw Ia].
  split; [exact Ia|]. split; [exact Iw|].
  pose proof (transfer_size_dst cf w a q w' a' Hw Ha Hf). lra.
Qed.

(* chains: after any number of successive withdrawals the source still has its original composition (no drift) *)
Fixpoint withdraw (cf : cfg) (src : container) (dsts : list (container * qty)) : result container :=
  match dsts with
  | [] => Ok src
  | (d, q) :: t => do sd <- transfer cf src d q; withdraw cf (fst sd) t
  end.
Theorem chain_no_drift cf dsts : forall src src',
  Inv cf src -> withdraw cf src dsts = Ok src' ->
  exists f, 0 <= f /\ f <= 1 /\ forall k, cget k src' == cget k src * f.
Proof.
  induction dsts as [|[d q] t IH]; intros src src' I H.
  - simpl in H. inversion H; subst. exists 1. repeat split; try lra. intros k. ring.
  - simpl in H. unfold bind in H. destruct (transfer cf src d q) as [[s1 d1]|] eqn:E; [|discriminate]. simpl in H.
    destruct (transfer_uniform cf src d q s1 d1 (inv_wf _ _ I) E) as (r & H0 & H1 & Hu).
    assert (I1 : Inv cf s1).
    { pose proof E as E'. apply transfer_ok in E'. destruct E' as (r' & _ & R0 & R1 & Hs & _ & _). subst s1.
      destruct I as [w ss n v cp]. constructor; simpl.
      - unfold wfc, take_from. rewrite keys_mapv. exact w.
      - apply all_subst_mapv. exact ss.
      - apply nonneg_take; assumption.
      - apply rnd_eq.
      - destruct (maxv src) as [m|]; [|exact I]. rewrite rnd_eq. unfold volume_of. rewrite total_in_take.
        unfold volume_of in v. rewrite <- v.
        assert (0 <= vol src) by (rewrite v; apply total_in_nonneg; assumption). nra. }
    destruct (IH s1 src' I1 H) as (f & F0 & F1 & Hf).
    exists ((1 - r) * f). repeat split; try nra.
    intros k. rewrite Hf. unfold cget. destruct (Hu k) as [Hk _]. rewrite Hk. ring.
Qed.
