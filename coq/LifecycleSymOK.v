(* LifecycleSymOK.v -- the guard table obtained on every run by calling each Recipe method of /repo in each lifecycle state
   (gen/LifecycleSym.v, translator/symex.py) equals the table the automaton implements. *)
Require Import Base GenBase Lifecycle LifecycleThm LifecycleSym.
From Coq Require Import String.

Theorem sym_guards_eq_model : sym_lifecycle_guards = model_guards.
Proof. reflexivity. Qed.
