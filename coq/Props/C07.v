(* C07 -- Plate operations act well-by-well on exactly the addressed wells. *)
Require Import Base Units Contents Container ContainerThm ContainerThm2 Plate PlateThm.

Theorem C07_remove_wellwise : forall cf p r w p',
  premove cf p r w = Ok p' ->
  pname p' = pname p /\ nrows p' = nrows p /\ ncols p' = ncols p /\ length (wells p') = length (wells p) /\
  (forall j, ~ In j (region_idx (ncols p) r) -> nth_error (wells p') j = nth_error (wells p) j) /\
  (NoDup (region_idx (ncols p) r) -> forall i, In i (region_idx (ncols p) r) ->
     exists c, nth_error (wells p) i = Some c /\ nth_error (wells p') i = Some (remove cf c w)).
Proof. exact premove_wellwise. Qed.
Print Assumptions C07_remove_wellwise.

Theorem C07_fill_to_wellwise : forall cf p r s q p',
  pfill_to cf p r s q = Ok p' ->
  pname p' = pname p /\ nrows p' = nrows p /\ ncols p' = ncols p /\ length (wells p') = length (wells p) /\
  (forall j, ~ In j (region_idx (ncols p) r) -> nth_error (wells p') j = nth_error (wells p) j) /\
  (NoDup (region_idx (ncols p) r) -> forall i, In i (region_idx (ncols p) r) ->
     exists c c', nth_error (wells p) i = Some c /\ fill_to cf c s q = Ok c' /\ nth_error (wells p') i = Some c').
Proof. exact pfill_wellwise. Qed.
Print Assumptions C07_fill_to_wellwise.

Theorem C07_transfer_in_wellwise : forall cf c p r q c' p',
  Inv cf c -> PInv cf p -> c_to_p cf c p r q = Ok (c', p') ->
  (forall j, ~ In j (region_idx (ncols p) r) -> nth_error (wells p') j = nth_error (wells p) j) /\
  (NoDup (region_idx (ncols p) r) -> forall i, In i (region_idx (ncols p) r) ->
     exists w src src' w', nth_error (wells p) i = Some w /\ transfer cf src w q = Ok (src', w') /\ nth_error (wells p') i = Some w').
Proof. intros cf c p r q c' p' Ic Ip H. destruct (c_to_p_spec cf c p r q c' p' Ic Ip H) as (_ & F & _ & _ & _ & _ & _ & W). exact (conj F W). Qed.
Print Assumptions C07_transfer_in_wellwise.

Theorem C07_transfer_out_wellwise : forall cf p r c q p' c',
  Inv cf c -> PInv cf p -> p_to_c cf p r c q = Ok (p', c') ->
  (forall j, ~ In j (region_idx (ncols p) r) -> nth_error (wells p') j = nth_error (wells p) j) /\
  (NoDup (region_idx (ncols p) r) -> forall i, In i (region_idx (ncols p) r) ->
     exists w dst dst' w', nth_error (wells p) i = Some w /\ transfer cf w dst q = Ok (w', dst') /\ nth_error (wells p') i = Some w').
Proof. intros cf p r c q p' c' Ic Ip H. destruct (p_to_c_spec cf p r c q p' c' Ic Ip H) as (_ & F & _ & _ & _ & _ & _ & W). exact (conj F W). Qed.
Print Assumptions C07_transfer_out_wellwise.

(* plate -> plate: only addressed wells change (both plates / the one plate) *)
Theorem C07_plate_to_plate_frame : forall cf ps rs pd rd q ps' pd',
  PInv cf ps -> PInv cf pd -> p_to_p cf ps rs pd rd q = Ok (ps', pd') ->
  (forall j, ~ In j (region_idx (ncols ps) rs) -> nth_error (wells ps') j = nth_error (wells ps) j) /\
  (forall j, ~ In j (region_idx (ncols pd) rd) -> nth_error (wells pd') j = nth_error (wells pd) j).
Proof. intros cf ps rs pd rd q ps' pd' Is Id H. destruct (p_to_p_spec cf ps rs pd rd q ps' pd' Is Id H) as (_ & B & C & _). exact (conj B C). Qed.
Print Assumptions C07_plate_to_plate_frame.

(* pairing: one-to-many, many-to-one, or element-wise for equal shapes; everything else is rejected *)
Theorem C07_other_shapes_rejected : forall rs rd ns nd,
  ns <> 1%nat -> nd <> 1%nat -> shape_eqb (region_shape rs) (region_shape rd) = false -> dispatch rs rd ns nd = Err EValue.
Proof. exact dispatch_rejects. Qed.
Print Assumptions C07_other_shapes_rejected.
Theorem C07_accepted_pairings : forall rs rd ns nd pg,
  dispatch rs rd ns nd = Ok pg ->
  match pg with
  | POneToMany => ns = 1%nat
  | PManyToOne => nd = 1%nat /\ ns <> 1%nat
  | PElementwise => ns = nd /\ shape_eqb (region_shape rs) (region_shape rd) = true
  end.
Proof. exact dispatch_accepts. Qed.
Print Assumptions C07_accepted_pairings.
