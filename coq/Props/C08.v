(* C08 -- Baking a recipe equals performing its steps eagerly, in order. *)
Require Import Base Units Contents Container Dilute Solve Plate Prog Recipe RecipeThm.

(* bake is the eager fold over the current table -- for programs of any length, any interleaving over shared objects.
   The one departure of the implementation (fill_to on a plate region, known finding D13) is excluded by the guard and
   shown to be a real difference by C08_fill_slice_refuted *)
Theorem C08_bake_eq_eager : forall cf objs steps,
  forallb no_plate_fill steps = true -> bake cf objs steps = eager cf objs steps.
Proof. exact bake_eq_eager. Qed.
Print Assumptions C08_bake_eq_eager.
Theorem C08_fill_slice_refuted :
  let w := {| sid := 1; knd := Liquid; mw := 18; dens := 1; act := 1 |} in
  let p := {| pname := 1; nrows := 1; ncols := 2; wells := [ {| cname := 0; cont := []; vol := 0; maxv := Some 100 |};
                                                           {| cname := 1; cont := []; vol := 0; maxv := Some 100 |} ] |} in
  let st := SFill (RP 1 (RRect [0%nat] [0%nat])) w {| qval := 20; qpfx := Pu; qbase := BL |} in
  exists eb ee tb te, bake default_cfg [(1%nat, OP p)] [st] = Ok (eb, tb) /\ eager default_cfg [(1%nat, OP p)] [st] = Ok (ee, te) /\ eb <> ee.
Proof. exact bake_fill_slice_refuted. Qed.
Print Assumptions C08_fill_slice_refuted.

(* each step sees the effects of all earlier steps *)
Theorem C08_sequential : forall cf d13 s1 s2 e e' tr,
  bake_steps cf d13 e (s1 ++ s2) = Ok (e', tr) ->
  exists e1 tr1 tr2, bake_steps cf d13 e s1 = Ok (e1, tr1) /\ bake_steps cf d13 e1 s2 = Ok (e', tr2) /\ tr = tr1 ++ tr2.
Proof. exact bake_sequential. Qed.
Print Assumptions C08_sequential.

(* a step changes only the objects it names; everything else in the table is untouched *)
Theorem C08_step_frame : forall cf d13 e st e' k, bake_step cf d13 e st = Ok (e', k) -> frame_ok e e' k.
Proof. exact bake_step_frame. Qed.
Print Assumptions C08_step_frame.

(* steps have no effect before bake; the returned dictionary has exactly the declared and recipe-created names *)
Theorem C08_declare_no_effect : forall steps objs n o, rget n objs = Some o -> rget n (declare_steps objs steps) = Some o.
Proof. exact declare_no_effect. Qed.
Print Assumptions C08_declare_no_effect.
Theorem C08_bake_keys : forall cf objs steps e' tr,
  bake cf objs steps = Ok (e', tr) -> map fst e' = map fst objs ++ created_names steps.
Proof. exact bake_keys. Qed.
Print Assumptions C08_bake_keys.
