Require Import Base Recipe.
