(* C11 -- dilute and fill_to reach their target by adding only solvent. *)
Require Import Base Units UnitsThm Contents Container ContainerThm ContainerThm2 Dilute DiluteThm Plate PlateThm PlateFill.

(* dilute: whenever solvent is added, the solute's concentration measured in the unit requested equals the target; only the
   solvent increased; name, capacity kept; the invariant (volume within capacity) holds.  For every mixture (binary or not,
   enzymes as bystanders), every non-enzyme solvent, every numerator / denominator base-unit pair *)
Theorem C11_dilute_post : forall cf c solute t solvent c',
  Inv cf c -> wf_subst solvent -> dilute cf c solute t solvent = Ok c' -> c' <> c ->
  conv_stored cf solute (get solute (cont c')) (P0, cnum t) == cval t * total_in cf (cont c') (P0, cden t) /\
  (forall k, k <> solvent -> get k (cont c') = get k (cont c)) /\ get solvent (cont c) <= get solvent (cont c') /\
  cname c' = cname c /\ maxv c' = maxv c /\ Inv cf c'.
Proof. exact dilute_post. Qed.
Print Assumptions C11_dilute_post.
(* the only other successful outcome is the unchanged container, when the required amount of solvent rounds to zero *)
Theorem C11_dilute_outcomes : forall cf c solute t solvent c',
  dilute cf c solute t solvent = Ok c' ->
  has solute (cont c) = true /\ cden t <> BU /\ is_enzyme solvent = false /\ solvent <> solute /\ 0 < cval t /\
  0 <= rnd (to_storage_mol cf (dilute_required cf c solute t solvent) Pu) /\
  (rnd (to_storage_mol cf (dilute_required cf c solute t solvent) Pu) == 0 /\ c' = c \/
   ~ rnd (to_storage_mol cf (dilute_required cf c solute t solvent) Pu) == 0 /\
   self_add cf c solvent {| qval := dilute_required cf c solute t solvent; qpfx := Pu; qbase := BMol |} = Ok c').
Proof. exact dilute_ok. Qed.
Print Assumptions C11_dilute_outcomes.
Theorem C11_dilute_higher_refused : forall cf c solute t solvent,
  0 < total_in cf (cont c) (P0, cden t) ->
  conv_stored cf solute (get solute (cont c)) (P0, cnum t) < cval t * total_in cf (cont c) (P0, cden t) ->
  wf_subst solvent -> is_enzyme solvent = false -> cden t <> BU ->
  exists e, dilute cf c solute t solvent = Err e.
Proof. exact dilute_higher_refused. Qed.
Print Assumptions C11_dilute_higher_refused.
Theorem C11_dilute_error_class : forall cf c solute t solvent e, dilute cf c solute t solvent = Err e -> e = EValue \/ e = EType.
Proof. exact dilute_err_class. Qed.
Print Assumptions C11_dilute_error_class.

(* fill_to: the total in the unit of the request equals the target; only the solvent increased *)
Theorem C11_fill_to_post : forall cf c solvent q c',
  Inv cf c -> wf_subst solvent -> is_enzyme solvent = false -> fill_to cf c solvent q = Ok c' ->
  total_in cf (cont c') (P0, qbase q) == qv q /\
  (forall k, k <> solvent -> get k (cont c') = get k (cont c)) /\ get solvent (cont c) <= get solvent (cont c') /\
  cname c' = cname c /\ maxv c' = maxv c /\ Inv cf c'.
Proof. exact fill_to_post. Qed.
Print Assumptions C11_fill_to_post.
Theorem C11_fill_below_refused : forall cf c solvent q,
  total_in cf (cont c) (P0, qbase q) > qv q -> fill_to cf c solvent q = Err EValue.
Proof. exact fill_below_refused. Qed.
Print Assumptions C11_fill_below_refused.

(* fill_to on a region of a plate: an accepted call leaves every addressed well at the target, having added only solvent ... *)
Theorem C11_region_fill_post : forall cf p r s q p',
  PInv cf p -> wf_subst s -> is_enzyme s = false -> NoDup (region_idx (ncols p) r) -> pfill_to cf p r s q = Ok p' ->
  forall i, In i (region_idx (ncols p) r) ->
    exists c c', nth_error (wells p) i = Some c /\ nth_error (wells p') i = Some c' /\
      total_in cf (cont c') (P0, qbase q) == qv q /\
      (forall k, k <> s -> get k (cont c') = get k (cont c)) /\ get s (cont c) <= get s (cont c') /\ maxv c' = maxv c.
Proof. exact pfill_post. Qed.
Print Assumptions C11_region_fill_post.
(* ... and a single addressed well that cannot be filled refuses the whole call (nothing is silently left as it was) *)
Theorem C11_region_fill_all_or_nothing : forall cf p r s q i w e,
  NoDup (region_idx (ncols p) r) -> In i (region_idx (ncols p) r) -> nth_error (wells p) i = Some w ->
  fill_to cf w s q = Err e -> exists e', pfill_to cf p r s q = Err e'.
Proof. exact pfill_all_or_nothing. Qed.
Print Assumptions C11_region_fill_all_or_nothing.
Theorem C11_region_fill_below_one_well_refused : forall cf p r s q i w,
  NoDup (region_idx (ncols p) r) -> In i (region_idx (ncols p) r) -> nth_error (wells p) i = Some w ->
  total_in cf (cont w) (P0, qbase q) > qv q -> exists e', pfill_to cf p r s q = Err e'.
Proof. exact pfill_below_one_well_refused. Qed.
Print Assumptions C11_region_fill_below_one_well_refused.

(* the hypotheses are met: a 1 x 2 plate of 200 uL wells holding 60 uL and 10 uL of water is filled to 100 uL (accepted, both wells at
   100 uL) and refused as a whole for 50 uL (the first well holds more) *)
Example C11_region_fill_nonvacuous :
  let w := {| sid := 1; knd := Liquid; mw := 18; dens := 1; act := 1 |} in
  let well := fun (i : nat) (ul : Q) => {| cname := i; cont := [(w, ul * 1000 / 18)]; vol := ul; maxv := Some 200 |} in
  let pl := {| pname := 1; nrows := 1; ncols := 2; wells := [well 0%nat 60; well 1%nat 10] |} in
  let r := RRect [0%nat] [0%nat; 1%nat] in
  NoDup (region_idx (ncols pl) r) /\
  (exists p', pfill_to default_cfg pl r w {| qval := 100; qpfx := Pu; qbase := BL |} = Ok p' /\ map vol (wells p') = [100; 100]) /\
  (exists e, pfill_to default_cfg pl r w {| qval := 50; qpfx := Pu; qbase := BL |} = Err e).
Proof.
  cbv zeta. split; [|split].
  - simpl. repeat constructor; simpl; intuition discriminate.
  - eexists. split; vm_compute; reflexivity.
  - eexists. vm_compute. reflexivity.
Qed.
Print Assumptions C11_region_fill_nonvacuous.

Example C11_nonvacuous :
  let w := {| sid := 1; knd := Liquid; mw := 18; dens := 1; act := 1 |} in
  let s := {| sid := 2; knd := Solid; mw := 58; dens := 1; act := 1 |} in
  let c := {| cname := 1; cont := [(w, 1000000 # 18); (s, 1000)]; vol := 1058; maxv := None |} in
  exists c', dilute default_cfg c s {| cval := 1 # 2; cnum := BMol; cden := BL |} w = Ok c' /\ c' <> c.
Proof. simpl. eexists. split; [vm_compute; reflexivity | discriminate]. Qed.
Print Assumptions C11_nonvacuous.
