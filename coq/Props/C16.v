(* C16 -- Recipe lifecycle discipline is enforced.  All theorems quantify over every lifecycle state / call sequence. *)
Require Import Base GenBase Lifecycle LifecycleThm LifecycleTie.

(* tie: the guards the source has now are the guards of the model *)
Theorem C16_source_guards_equal_model : tie_lifecycle_guards = model_guards.
Proof. exact tie_guards_eq_model. Qed.
Print Assumptions C16_source_guards_equal_model.

(* after a successful bake every declaring, step-adding or stage call, and a second bake, raises RuntimeError and nothing changes *)
Theorem C16_locked_forever : forall s c, locked s = true -> step_api s c = (s, Raise ERuntime).
Proof. exact locked_forever. Qed.
Print Assumptions C16_locked_forever.
Theorem C16_locked_absorbing : forall cs s, locked s = true ->
  fst (run_calls s cs) = s /\ Forall (fun o => o = Raise ERuntime) (snd (run_calls s cs)).
Proof. exact locked_absorbing. Qed.
Print Assumptions C16_locked_absorbing.
Theorem C16_bake_locks : forall s s', step_api s CBake = (s', Accepted) -> locked s' = true /\ cur s' = O.
Proof. exact bake_locks. Qed.
Print Assumptions C16_bake_locks.
Theorem C16_second_bake_raises : forall s s', step_api s CBake = (s', Accepted) -> step_api s' CBake = (s', Raise ERuntime).
Proof. exact second_bake_raises. Qed.
Print Assumptions C16_second_bake_raises.
Theorem C16_bake_closes_stage : forall s s', step_api s CBake = (s', Accepted) -> cur s <> O ->
  In (cur s, (stage_start s, List.length (steps s))) (stages s').
Proof. exact bake_closes_stage. Qed.
Print Assumptions C16_bake_closes_stage.

(* only declared objects; no second object with an existing name *)
Theorem C16_undeclared_rejected : forall s x, locked s = false -> mem x (declared s) = false ->
  (forall d, step_api s (CTransfer x d) = (s, Raise EValue)) /\
  (forall y, mem y (declared s) = true -> step_api s (CTransfer y x) = (s, Raise EValue)) /\
  step_api s (CRemove x) = (s, Raise EValue) /\ step_api s (CDilute x) = (s, Raise EValue) /\
  step_api s (CFillTo x) = (s, Raise EValue) /\
  (forall n, step_api s (CCreateSolutionFrom x n) = (s, Raise EValue)) /\
  (forall n, step_api s (CCreateSolution n (Some x)) = (s, Raise EValue)).
Proof. exact undeclared_rejected. Qed.
Print Assumptions C16_undeclared_rejected.
Theorem C16_duplicate_name_rejected : forall s n, locked s = false -> mem n (declared s) = true ->
  step_api s (CCreateContainer n) = (s, Raise EValue) /\
  step_api s (CCreateSolution n None) = (s, Raise EValue) /\
  (forall v, mem v (declared s) = true -> step_api s (CCreateSolution n (Some v)) = (s, Raise EValue)) /\
  (forall src, mem src (declared s) = true -> step_api s (CCreateSolutionFrom src n) = (s, Raise EValue)) /\
  snd (step_api s (CUses [n])) = Raise EValue /\ declared (fst (step_api s (CUses [n]))) = declared s.
Proof. exact duplicate_name_rejected. Qed.
Print Assumptions C16_duplicate_name_rejected.

(* bake is refused while a declared object is unused, for every state reachable by any call sequence *)
Theorem C16_reachable_states_wellformed : forall cs, wf (fst (run_calls init cs)).
Proof. intros cs. apply reachable_wf. apply wf_init. Qed.
Print Assumptions C16_reachable_states_wellformed.
Theorem C16_unused_blocks_bake : forall s d, wf s -> locked s = false ->
  In d (declared s) -> ~ In d (used s) -> ~ In d (step_names s) ->
  snd (step_api s CBake) = Raise EValue /\ locked (fst (step_api s CBake)) = false.
Proof. exact unused_blocks_bake. Qed.
Print Assumptions C16_unused_blocks_bake.
Theorem C16_all_used_bake_accepted : forall s, wf s -> locked s = false ->
  (forall d, In d (declared s) -> In d (used s) \/ In d (step_names s)) -> snd (step_api s CBake) = Accepted.
Proof. exact all_used_bake_accepted. Qed.
Print Assumptions C16_all_used_bake_accepted.

(* one open stage at a time, unique names, 'all' reserved; a stage covers exactly the steps between start and end *)
Theorem C16_one_open_stage : forall s n, locked s = false -> cur s <> O -> step_api s (CStartStage n) = (s, Raise EValue).
Proof. exact one_open_stage. Qed.
Print Assumptions C16_one_open_stage.
Theorem C16_stage_names_unique : forall s n, locked s = false -> stage_known s n = true -> step_api s (CStartStage n) = (s, Raise EValue).
Proof. exact stage_names_unique. Qed.
Print Assumptions C16_stage_names_unique.
Theorem C16_all_is_reserved : forall s, locked s = false ->
  step_api s (CStartStage 0) = (s, Raise EValue) /\ step_api s (CEndStage 0) = (s, Raise EValue).
Proof. exact all_is_reserved. Qed.
Print Assumptions C16_all_is_reserved.
Theorem C16_end_requires_open : forall s n, locked s = false -> cur s <> n -> step_api s (CEndStage n) = (s, Raise EValue).
Proof. exact end_requires_open. Qed.
Print Assumptions C16_end_requires_open.
Theorem C16_stage_covers_its_steps : forall s n s',
  (step_api s (CStartStage n) = (s', Accepted) -> cur s' = n /\ stage_start s' = List.length (steps s) /\ steps s' = steps s /\ n <> O) /\
  (step_api s (CEndStage n) = (s', Accepted) -> In (n, (stage_start s, List.length (steps s))) (stages s') /\ cur s' = O /\ steps s' = steps s /\ cur s = n).
Proof. intros s n s'. split; [apply start_stage_marks | apply end_stage_records]. Qed.
Print Assumptions C16_stage_covers_its_steps.
Theorem C16_other_calls_keep_stage : forall s c, is_stage_call c = false ->
  cur (fst (step_api s c)) = cur s /\ stage_start (fst (step_api s c)) = stage_start s /\ stages (fst (step_api s c)) = stages s /\
  (snd (step_api s c) <> Accepted -> steps (fst (step_api s c)) = steps s).
Proof. exact other_calls_keep_stage. Qed.
Print Assumptions C16_other_calls_keep_stage.

(* the premises are satisfiable: a full life cycle *)
Example C16_nonvacuous :
  snd (run_calls init [CUses [1%nat; 2%nat]; CStartStage 1; CTransfer 1 2; CBake; CTransfer 1 2; CBake]) =
  [Accepted; Accepted; Accepted; Accepted; Raise ERuntime; Raise ERuntime].
Proof. vm_compute. reflexivity. Qed.
Print Assumptions C16_nonvacuous.

(* refused calls: only a successful bake changes the lock; a refused call other than uses / bake changes nothing at all; a refused
   bake leaves the recipe unlocked with its declarations and steps *)
Theorem C16_only_accepted_bake_locks : forall s c s' o, step_api s c = (s', o) -> locked s' <> locked s -> c = CBake /\ o = Accepted.
Proof. exact only_accepted_bake_locks. Qed.
Print Assumptions C16_only_accepted_bake_locks.
Theorem C16_refused_call_changes_nothing : forall s c s' e,
  (forall l, c <> CUses l) -> c <> CBake -> step_api s c = (s', Raise e) -> s' = s.
Proof. exact refused_call_changes_nothing. Qed.
Print Assumptions C16_refused_call_changes_nothing.
Theorem C16_refused_bake_does_not_lock : forall s s' e, locked s = false -> step_api s CBake = (s', Raise e) ->
  locked s' = false /\ declared s' = declared s /\ steps s' = steps s.
Proof. exact refused_bake_does_not_lock. Qed.
Print Assumptions C16_refused_bake_does_not_lock.
