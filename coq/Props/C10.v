(* C10 -- Reported volume, amounts and concentrations always agree with contents. *)
Require Import Base Units Contents Container ContainerThm ContainerThm2 Dilute Solve Plate PlateThm SizeThm Prog HistoryThm PlateObs PlateVol.

(* after any history the cached volume is the sum of the volumes of the contents (part of the invariant) *)
Theorem C10_volume_is_sum_after_any_history : forall cf ops, Forall wf_op ops ->
  Forall (fun r => match r with
                   | Ok l => Forall (fun p => match snd p with
                                              | OC c => vol c == volume_of cf (cont c)
                                              | OP pl => Forall (fun c => vol c == volume_of cf (cont c)) (wells pl)
                                              end) l
                   | Err _ => True end) (run cf [] ops).
Proof.
  intros cf ops H. pose proof (reachable_inv cf ops [] (empty_env_inv cf) H) as R.
  eapply Forall_impl; [|exact R]. intros [l|e] Hr; [|exact I].
  eapply Forall_impl; [|exact Hr]. intros [v [c|pl]] Ho; simpl in *.
  - apply (inv_vol _ _ Ho).
  - eapply Forall_impl; [|exact Ho]. intros c Hc. apply (inv_vol _ _ Hc).
Qed.
Print Assumptions C10_volume_is_sum_after_any_history.

Theorem C10_get_volume : forall cf c p, Inv cf c -> get_volume cf c p == total_in cf (cont c) (p, BL).
Proof. exact get_volume_def. Qed.
Print Assumptions C10_get_volume.

Theorem C10_get_concentration : forall cf c s mult nb db,
  Inv cf c -> ~ conv_stored cf s (get s (cont c)) (P0, nb) == 0 ->
  get_concentration cf c s mult nb db == conv_stored cf s (get s (cont c)) (P0, nb) / total_in cf (cont c) (P0, db) / mult.
Proof. exact get_concentration_def. Qed.
Print Assumptions C10_get_concentration.
Theorem C10_get_concentration_absent : forall cf c s mult nb db,
  conv_stored cf s (get s (cont c)) (P0, nb) == 0 -> get_concentration cf c s mult nb db = 0.
Proof. exact get_concentration_absent. Qed.
Print Assumptions C10_get_concentration_absent.

(* volumes are additive over a transfer: nothing is gained or lost in the cached volumes *)
Theorem C10_volume_additive : forall cf src dst q s' d',
  Inv cf src -> Inv cf dst -> transfer cf src dst q = Ok (s', d') -> vol s' + vol d' == vol src + vol dst.
Proof. exact transfer_volume. Qed.
Print Assumptions C10_volume_additive.

(* the array observers of a plate (Plate.get_volumes, a slice's get_volumes, Plate.get_volume): after any history every
   plate reports, well by well, the volume of that well's contents in the unit asked for, and as its total their sum *)
Theorem C10_plate_volumes_after_any_history : forall cf ops pr, Forall wf_op ops ->
  Forall (fun r => match r with
                   | Ok l => Forall (fun p => match snd p with
                                              | OC _ => True
                                              | OP pl => Forall2 (fun v c => v == total_in cf (cont c) (pr, BL)) (plate_volumes cf pl pr) (wells pl)
                                                         /\ plate_get_volume cf pl pr == Qsum (map (fun c => total_in cf (cont c) (pr, BL)) (wells pl))
                                              end) l
                   | Err _ => True end) (run cf [] ops).
Proof. exact plate_volumes_after_any_history. Qed.
Print Assumptions C10_plate_volumes_after_any_history.
(* with a substance named, an entry is that substance's amount in that well and nothing else; several substances add up *)
Theorem C10_plate_amounts_of_one : forall cf p s u,
  Forall2 (fun v c => v == conv_stored cf s (get s (cont c)) u) (plate_amounts_of cf p [s] u) (wells p).
Proof. exact plate_amounts_of_one. Qed.
Print Assumptions C10_plate_amounts_of_one.
Theorem C10_plate_amounts_of_app : forall cf p ss1 ss2 u,
  Forall2 (fun v ab => v == fst ab + snd ab) (plate_amounts_of cf p (ss1 ++ ss2) u)
          (combine (plate_amounts_of cf p ss1 u) (plate_amounts_of cf p ss2 u)).
Proof. exact plate_amounts_of_app. Qed.
Print Assumptions C10_plate_amounts_of_app.
(* read through a slice: one entry per addressed well in the region's order, each the volume of that well's contents;
   the entries do not depend on wells outside the region *)
Theorem C10_slice_volumes_wellwise : forall cf p r pr, PInv cf p ->
  Forall2 (fun v i => forall c, nth_error (wells p) i = Some c -> v == total_in cf (cont c) (pr, BL))
          (slice_volumes cf p r pr) (region_idx (ncols p) r).
Proof. exact slice_volumes_wellwise. Qed.
Print Assumptions C10_slice_volumes_wellwise.
Theorem C10_slice_volumes_frame : forall cf p ws' r pr,
  (forall i, In i (region_idx (ncols p) r) -> nth_error ws' i = nth_error (wells p) i) ->
  slice_volumes cf (with_wells p ws') r pr = slice_volumes cf p r pr.
Proof. exact slice_volumes_frame. Qed.
Print Assumptions C10_slice_volumes_frame.

(* what the container reports plus what the plate reports as its total is the same before and after a dispense into a
   region and a collection from a region, in any unit *)
Theorem C10_container_to_region_reported_volume : forall cf c p r q c' p' pr,
  Inv cf c -> PInv cf p -> c_to_p cf c p r q = Ok (c', p') ->
  get_volume cf c' pr + plate_get_volume cf p' pr == get_volume cf c pr + plate_get_volume cf p pr.
Proof. exact c_to_p_reported_volume. Qed.
Print Assumptions C10_container_to_region_reported_volume.
Theorem C10_region_to_container_reported_volume : forall cf p r c q p' c' pr,
  Inv cf c -> PInv cf p -> p_to_c cf p r c q = Ok (p', c') ->
  get_volume cf c' pr + plate_get_volume cf p' pr == get_volume cf c pr + plate_get_volume cf p pr.
Proof. exact p_to_c_reported_volume. Qed.
Print Assumptions C10_region_to_container_reported_volume.
Theorem C10_plate_to_plate_reported_volume : forall cf ps rs pd rd q ps' pd' pr,
  PInv cf ps -> PInv cf pd -> p_to_p cf ps rs pd rd q = Ok (ps', pd') ->
  plate_get_volume cf ps' pr + plate_get_volume cf pd' pr == plate_get_volume cf ps pr + plate_get_volume cf pd pr.
Proof. exact p_to_p_reported_volume. Qed.
Print Assumptions C10_plate_to_plate_reported_volume.
(* source and destination on the same plate: the plate reports the same total afterwards *)
Theorem C10_same_plate_reported_volume : forall cf p rs rd q p' pr,
  PInv cf p -> p_to_p_same cf p rs rd q = Ok p' -> plate_get_volume cf p' pr == plate_get_volume cf p pr.
Proof. exact p_to_p_same_reported_volume. Qed.
Print Assumptions C10_same_plate_reported_volume.
