(* C15 -- Container flows and amount remaining balance with the recipe's state. *)
Require Import Base Units Contents Container Dilute Solve Plate Prog Recipe RecipeThm FlowsThm.

(* amount remaining = the object's own state in the table at the start / at the end of the timeframe
   (for any timeframe: [steps] is the timeframe's slice of the program, [e] the table when it starts) *)
Theorem C15_remaining_before : forall cf d13 steps e e' tr u n l,
  bake_steps cf d13 e steps = Ok (e', tr) -> remaining cf u n false tr = Some l ->
  exists o, rget n e = Some o /\ l = totals cf u o.
Proof. exact remaining_before_is_start_state. Qed.
Print Assumptions C15_remaining_before.
Theorem C15_remaining_after : forall cf d13 steps e e' tr u n l,
  bake_steps cf d13 e steps = Ok (e', tr) -> remaining cf u n true tr = Some l ->
  exists o, rget n e' = Some o /\ l = totals cf u o.
Proof. exact remaining_after_is_end_state. Qed.
Print Assumptions C15_remaining_after.

(* flows: never negative; inflow - outflow = total at the end - total at the start, per well *)
Theorem C15_flows_nonneg : forall cf u n w tr j,
  0 <= nth j (fst (flows cf u n w tr)) 0 /\ 0 <= nth j (snd (flows cf u n w tr)) 0.
Proof. exact flows_nonneg. Qed.
Print Assumptions C15_flows_nonneg.
Theorem C15_flows_balance : forall cf d13 steps e e' tr u n w o o' j,
  bake_steps cf d13 e steps = Ok (e', tr) -> rget n e = Some o -> rget n e' = Some o' -> widths_ok cf u n w e tr ->
  (j < w)%nat ->
  nth j (fst (flows cf u n w tr)) 0 - nth j (snd (flows cf u n w tr)) 0 == nth j (totals cf u o') 0 - nth j (totals cf u o) 0.
Proof. exact flows_balance. Qed.
Print Assumptions C15_flows_balance.
(* a pure withdrawal never counts as inflow: if no step of the timeframe increases the object's total, inflow is zero *)
Theorem C15_withdrawal_not_inflow : forall cf u n w tr j,
  (forall k ch, In k tr -> step_change cf u n k = Some ch -> nth j ch 0 <= 0) -> nth j (fst (flows cf u n w tr)) 0 == 0.
Proof. exact withdrawal_not_inflow. Qed.
Print Assumptions C15_withdrawal_not_inflow.
