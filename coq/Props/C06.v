(* C06 -- Unit conversions follow molar mass, density and specific activity.
   Only statements, each closed by [exact]; proofs live in UnitsThm.v / UnitsGenOK.v / UnitsSymOK.v;
   gen/UnitsTie.v (written on every run) names the extraction(s) of the source that tie_run stands for. *)
Require Import Base Units UnitsThm GenBase UnitsTie.

(* tie: what the source says now equals the model *)
Theorem C06_source_equals_model : forall s q fu tu, optQeq (tie_run s q fu tu) (conv s q fu tu).
Proof. exact tie_run_eq_model. Qed.
Print Assumptions C06_source_equals_model.

Theorem C06_prefix_table : map fst tie_prefix_table = map pname all_prefixes /\
  forall p, exists v, assoc (pname p) tie_prefix_table = Some v /\ v == pmult p.
Proof. exact tie_prefix_table_eq_model. Qed.
Print Assumptions C06_prefix_table.

(* convert_to_storage / convert_from_storage as executed on the source under every storage configuration equal the model
   (gen/UnitsTie.v spells the statement out; it is [True] only on a run where the source could not be executed symbolically) *)
Theorem C06_source_storage_equals_model : tie_storage_statement.
Proof. exact tie_storage_proof. Qed.
Print Assumptions C06_source_storage_equals_model.

(* exactly the factor implied by molecular weight, density and specific activity, any prefixes *)
Theorem C06_factor : forall s q p1 b1 p2 b2 f, wf_subst s -> factor s b1 b2 = Some f ->
  exists r, conv s q (p1, b1) (p2, b2) = Some r /\ r == q * pmult p1 * f / pmult p2.
Proof. exact conv_factor. Qed.
Print Assumptions C06_factor.

Theorem C06_factor_positive : forall s a b f, wf_subst s -> factor s a b = Some f -> 0 < f.
Proof. exact factor_nonzero. Qed.
Print Assumptions C06_factor_positive.

Theorem C06_zero_cells : forall s q p1 b1 p2 b2, factor s b1 b2 = None -> (b1 = BU -> is_enzyme s = true) ->
  exists r, conv s q (p1, b1) (p2, b2) = Some r /\ r == 0.
Proof. exact conv_zero_cells. Qed.
Print Assumptions C06_zero_cells.

Theorem C06_activity_of_non_enzyme_rejected : forall s q p1 tu, is_enzyme s = false -> conv s q (p1, BU) tu = None.
Proof. exact conv_U_rejected. Qed.
Print Assumptions C06_activity_of_non_enzyme_rejected.

Theorem C06_linear : forall s a q1 q2 fu tu r1 r2,
  conv s q1 fu tu = Some r1 -> conv s q2 fu tu = Some r2 ->
  exists r, conv s (a * q1 + q2) fu tu = Some r /\ r == a * r1 + r2.
Proof. exact conv_linear. Qed.
Print Assumptions C06_linear.

Theorem C06_compose : forall s q u1 u2 u3 f12 f23 r12,
  wf_subst s -> factor s (snd u1) (snd u2) = Some f12 -> factor s (snd u2) (snd u3) = Some f23 ->
  conv s q u1 u2 = Some r12 -> optQeq (conv s r12 u2 u3) (conv s q u1 u3).
Proof. exact conv_compose. Qed.
Print Assumptions C06_compose.

Theorem C06_roundtrip : forall s q u1 u2 f r12,
  wf_subst s -> factor s (snd u1) (snd u2) = Some f ->
  conv s q u1 u2 = Some r12 -> optQeq (conv s r12 u2 u1) (Some q).
Proof. exact conv_roundtrip. Qed.
Print Assumptions C06_roundtrip.

Theorem C06_factor_consistent : forall s a b c fab fbc,
  wf_subst s -> factor s a b = Some fab -> factor s b c = Some fbc ->
  exists fac, factor s a c = Some fac /\ fac == fab * fbc.
Proof. exact factor_consistent. Qed.
Print Assumptions C06_factor_consistent.

Theorem C06_storage_vol_inverse : forall c v p, from_storage_vol c (to_storage_vol c v p) p == v.
Proof. exact storage_vol_inverse. Qed.
Print Assumptions C06_storage_vol_inverse.
Theorem C06_storage_mol_inverse : forall c v p, from_storage_mol c (to_storage_mol c v p) p == v.
Proof. exact storage_mol_inverse. Qed.
Print Assumptions C06_storage_mol_inverse.
Theorem C06_storage_is_prefix_ratio : forall c v p,
  to_storage_vol c v p == v * pmult p / pmult (vol_pfx c) /\ from_storage_vol c v p == v * pmult (vol_pfx c) / pmult p /\
  to_storage_mol c v p == v * pmult p / pmult (mol_pfx c) /\ from_storage_mol c v p == v * pmult (mol_pfx c) / pmult p.
Proof.
  exact (fun c v p => conj (to_storage_vol_spec c v p) (conj (from_storage_vol_spec c v p)
          (conj (to_storage_mol_spec c v p) (from_storage_mol_spec c v p)))).
Qed.
Print Assumptions C06_storage_is_prefix_ratio.
