(* C02 -- A transfer moves exactly the requested amount as a uniform aliquot. *)
Require Import Base Units Contents Container ContainerThm ContainerThm2 Plate PlateThm SizeThm.

(* the same fraction of every substance leaves the source and exactly that arrives in the destination *)
Theorem C02_uniform_aliquot : forall cf src dst q s' d',
  wfc (cont src) -> transfer cf src dst q = Ok (s', d') ->
  exists r, 0 <= r /\ r <= 1 /\
    forall k, get k (cont s') == get k (cont src) * (1 - r) /\ get k (cont d') == get k (cont dst) + get k (cont src) * r.
Proof. exact transfer_uniform. Qed.
Print Assumptions C02_uniform_aliquot.

(* the aliquot's size is q in the unit of q: volume (L), mass (g), non-enzyme moles (mol), enzyme activity (U) *)
Theorem C02_source_loses_q : forall cf src dst q s' d',
  vol src == volume_of cf (cont src) -> transfer cf src dst q = Ok (s', d') ->
  measure cf (qbase q) (cont src) - measure cf (qbase q) (cont s') == qv q.
Proof. exact transfer_size. Qed.
Print Assumptions C02_source_loses_q.

Theorem C02_destination_gains_q : forall cf src dst q s' d',
  Inv cf src -> Inv cf dst -> transfer cf src dst q = Ok (s', d') ->
  measure cf (qbase q) (cont d') - measure cf (qbase q) (cont dst) == qv q.
Proof. exact transfer_size_dst. Qed.
Print Assumptions C02_destination_gains_q.

(* what [measure] is: the definitions the statement refers to *)
Theorem C02_measure_is_total : forall cf c,
  measure cf BL c == volume_of cf c * pmult (vol_pfx cf) /\ measure cf BG c = total_in cf c (P0, BG) /\
  measure cf BMol c == total_mol c * pmult (mol_pfx cf) /\ measure cf BU c = total_act c.
Proof. intros; repeat split; reflexivity. Qed.
Print Assumptions C02_measure_is_total.

(* a container dispensing into n wells loses n*q; a container collecting from n wells gains n*q *)
Theorem C02_dispense_n : forall cf c p r q c' p',
  Inv cf c -> PInv cf p -> c_to_p cf c p r q = Ok (c', p') ->
  measure cf (qbase q) (cont c) - measure cf (qbase q) (cont c') ==
  inject_Z (Z.of_nat (length (region_idx (ncols p) r))) * qv q.
Proof. exact c_to_p_size. Qed.
Print Assumptions C02_dispense_n.
Theorem C02_collect_n : forall cf p r c q p' c',
  Inv cf c -> PInv cf p -> p_to_c cf p r c q = Ok (p', c') ->
  measure cf (qbase q) (cont c') - measure cf (qbase q) (cont c) ==
  inject_Z (Z.of_nat (length (region_idx (ncols p) r))) * qv q.
Proof. exact p_to_c_size. Qed.
Print Assumptions C02_collect_n.

(* every addressed well receives a stand-alone transfer's aliquot (so the statements above apply well by well) *)
Theorem C02_each_well_is_a_transfer : forall cf c p r q c' p',
  Inv cf c -> PInv cf p -> c_to_p cf c p r q = Ok (c', p') ->
  NoDup (region_idx (ncols p) r) -> forall i, In i (region_idx (ncols p) r) ->
  exists w src src' w', nth_error (wells p) i = Some w /\ transfer cf src w q = Ok (src', w') /\ nth_error (wells p') i = Some w'.
Proof. intros cf c p r q c' p' Ic Ip H. destruct (c_to_p_spec cf c p r q c' p' Ic Ip H) as (_ & _ & _ & _ & _ & _ & _ & W). exact W. Qed.
Print Assumptions C02_each_well_is_a_transfer.

(* chains of successive withdrawals: the source keeps its composition exactly, however long the chain *)
Theorem C02_chain_no_drift : forall cf dsts src src',
  Inv cf src -> withdraw cf src dsts = Ok src' ->
  exists f, 0 <= f /\ f <= 1 /\ forall k, cget k src' == cget k src * f.
Proof. exact chain_no_drift. Qed.
Print Assumptions C02_chain_no_drift.
