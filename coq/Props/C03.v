(* C03 -- Impossible states are never produced; infeasible requests are refused. *)
Require Import Base Units Contents Container ContainerThm ContainerThm2 Dilute Solve Plate PlateThm Prog HistoryThm.

(* every value produced by every history of public operations: no negative amount, no negative volume, volume within
   capacity, volume bookkeeping exact *)
Theorem C03_every_history : forall cf ops, Forall wf_op ops ->
  Forall (fun r => match r with Ok l => Forall (fun p => obj_inv cf (snd p)) l | Err _ => True end) (run cf [] ops).
Proof. intros cf ops H. apply reachable_inv; [apply empty_env_inv | exact H]. Qed.
Print Assumptions C03_every_history.
Theorem C03_invariant_meaning : forall cf c, Inv cf c ->
  (forall k, 0 <= get k (cont c)) /\ 0 <= vol c /\ (forall m, maxv c = Some m -> vol c <= m) /\ vol c == volume_of cf (cont c).
Proof. exact inv_meaning. Qed.
Print Assumptions C03_invariant_meaning.

(* refusals *)
Theorem C03_overdraw_refused : forall cf src dst q,
  Inv cf src -> measure cf (qbase q) (cont src) < qv q -> transfer cf src dst q = Err EValue.
Proof. exact transfer_overdraw_refused. Qed.
Print Assumptions C03_overdraw_refused.
Theorem C03_negative_refused : forall cf src dst q, Inv cf src -> qv q < 0 -> transfer cf src dst q = Err EValue.
Proof. exact transfer_negative_refused. Qed.
Print Assumptions C03_negative_refused.
Theorem C03_over_capacity_refused : forall cf c s q vta ata m,
  conv s (qv q) (P0, qbase q) (vol_unit cf) = Some vta -> conv s (qv q) (P0, qbase q) (stored_unit cf s) = Some ata ->
  maxv c = Some m -> m < vol c + vta -> self_add cf c s q = Err EValue.
Proof. exact self_add_over_capacity_refused. Qed.
Print Assumptions C03_over_capacity_refused.
Theorem C03_fill_below_refused : forall cf c solvent q,
  total_in cf (cont c) (P0, qbase q) > qv q -> fill_to cf c solvent q = Err EValue.
Proof. exact fill_below_refused. Qed.
Print Assumptions C03_fill_below_refused.
(* every refusal of these operations is a ValueError *)
Theorem C03_refusals_are_ValueError : forall cf,
  (forall src dst q e, transfer cf src dst q = Err e -> e = EValue) /\
  (forall c s q e, self_add cf c s q = Err e -> e = EValue) /\
  (forall c s q e, fill_to cf c s q = Err e -> e = EValue).
Proof. intros cf. repeat split; [apply transfer_err_is_value | apply self_add_err_is_value | apply fill_to_err_is_value]. Qed.
Print Assumptions C03_refusals_are_ValueError.

(* acceptance: filling a vessel exactly to its capacity is on the accepting side *)
Theorem C03_exact_capacity_accepted : forall cf c s q vta ata m,
  conv s (qv q) (P0, qbase q) (vol_unit cf) = Some vta -> conv s (qv q) (P0, qbase q) (stored_unit cf s) = Some ata ->
  0 <= ata -> 0 <= vta -> maxv c = Some m -> vol c + vta <= m -> exists c', self_add cf c s q = Ok c'.
Proof. exact self_add_exact_capacity_accepted. Qed.
Print Assumptions C03_exact_capacity_accepted.
