(* C17 -- remove deletes exactly the selected substances. *)
Require Import Base Units Contents Container ContainerThm ContainerThm2 Plate PlateThm.

Theorem C17_remove_post : forall cf c w,
  (forall s, selected w s = true -> get s (cont (remove cf c w)) = 0 /\ ~ In s (keys (cont (remove cf c w)))) /\
  (forall s, selected w s = false -> get s (cont (remove cf c w)) = get s (cont c)) /\
  cname (remove cf c w) = cname c /\ maxv (remove cf c w) = maxv c.
Proof. exact remove_post. Qed.
Print Assumptions C17_remove_post.

Theorem C17_remove_volume : forall cf c w, Inv cf c ->
  vol (remove cf c w) == vol c - volume_of cf (filter (fun p => selected w (fst p)) (cont c)).
Proof. exact remove_volume. Qed.
Print Assumptions C17_remove_volume.

Theorem C17_selection : forall s s' k,
  (selected (WSubst s') s = true <-> s' = s) /\ (selected (WKind k) s = true <-> k = knd s).
Proof.
  intros s s' k. split; simpl.
  - apply seqb_eq.
  - destruct k, (knd s); simpl; split; intros H; try reflexivity; try discriminate.
Qed.
Print Assumptions C17_selection.

Theorem C17_remove_keeps_invariant : forall cf c w, Inv cf c -> Inv cf (remove cf c w).
Proof. exact remove_inv. Qed.
Print Assumptions C17_remove_keeps_invariant.

(* plates and slices: Container.remove on each addressed well, every other well identical *)
Theorem C17_plate_remove : forall cf p r w p',
  premove cf p r w = Ok p' ->
  pname p' = pname p /\ nrows p' = nrows p /\ ncols p' = ncols p /\ length (wells p') = length (wells p) /\
  (forall j, ~ In j (region_idx (ncols p) r) -> nth_error (wells p') j = nth_error (wells p) j) /\
  (NoDup (region_idx (ncols p) r) -> forall i, In i (region_idx (ncols p) r) ->
     exists c, nth_error (wells p) i = Some c /\ nth_error (wells p') i = Some (remove cf c w)).
Proof. exact premove_wellwise. Qed.
Print Assumptions C17_plate_remove.

(* in a recipe, the amounts removed are what usage tracking counts as discarded: the trash recorded by a remove step is, for every
   substance, exactly the amount that left the step's target (container, whole plate or slice; sum over all wells) *)
Require Import Dilute Solve Plate Prog HistoryThm Recipe RecipeThm C09Thm.
Theorem C17_recipe_discarded_is_removed : forall cf d13 s e t w e' k,
  renv_inv cf e -> bake_step cf d13 e (SRemove t w) = Ok (e', k) ->
  get s (s_trash k) == amount_in_obj s (s_to0 k) - amount_in_obj s (s_to1 k).
Proof. exact remove_trash_is_loss. Qed.
Print Assumptions C17_recipe_discarded_is_removed.
