(* C14 -- Quantity and concentration strings mean what SI says. *)
Require Import Base Units UnitsThm GenBase UnitsTie Parse ParseThm.
From Coq Require Import String Ascii.

(* tie: the prefix table of the source (regenerated every run) is the model's, and the model's is SI *)
Theorem C14_source_prefix_table : map fst tie_prefix_table = map pname all_prefixes /\
  forall p, exists v, assoc (pname p) tie_prefix_table = Some v /\ v == pmult p.
Proof. exact tie_prefix_table_eq_model. Qed.
Print Assumptions C14_source_prefix_table.
Theorem C14_prefix_table_SI :
  pmult Pn == 1 / 10^9 /\ pmult Pu == 1 / 10^6 /\ pmult Pmu == 1 / 10^6 /\ pmult Pm == 1 / 10^3 /\ pmult Pc == 1 / 10^2 /\
  pmult Pd == 1 / 10 /\ pmult P0 == 1 /\ pmult Pda == 10 /\ pmult Pk == 10^3 /\ pmult PM == 10^6.
Proof. exact prefix_table_SI. Qed.
Print Assumptions C14_prefix_table_SI.

(* 'v pU' denotes v times the SI factor of p in base unit U: every prefix x base unit (finite domain, whole table), every value *)
Theorem C14_quantity_value : forall v p b, parse_quantity v (pname p ++ qname b) = Ok (v * pmult p, b).
Proof. exact parse_quantity_value. Qed.
Print Assumptions C14_quantity_value.
(* and nothing else is a unit: an accepted token IS a prefix followed by a base unit; every other token is rejected (ValueError) *)
Theorem C14_unit_token_sound : forall tok p b, split_unit tok = Ok (p, b) -> tok = (pname p ++ qname b)%string.
Proof. exact split_unit_sound. Qed.
Print Assumptions C14_unit_token_sound.
Theorem C14_non_units_rejected : forall tok, (forall p b, tok <> (pname p ++ qname b)%string) -> split_unit tok = Err EValue.
Proof. intros tok H. destruct (split_unit_rejects tok H) as [e He]. rewrite He. f_equal. eapply split_unit_err_is_value; eassumption. Qed.
Print Assumptions C14_non_units_rejected.

(* concentrations: the same ratio however it is spelled *)
Theorem C14_conc_ratio : forall v pn nb pd db,
  exists x, parse_concentration ("g", "mL")%string (CSlash v (pname pn ++ bname nb) None (pname pd ++ bname db)) = Ok (x, nb, db) /\
            x == v * pmult pn / pmult pd.
Proof. exact conc_slash_value. Qed.
Print Assumptions C14_conc_ratio.
Theorem C14_conc_ratio_with_denominator_value : forall v w pn nb pd db, ~ w == 0 ->
  exists x, parse_concentration ("g", "mL")%string (CSlash v (pname pn ++ bname nb) (Some w) (pname pd ++ bname db)) = Ok (x, nb, db) /\
            x == v / w * pmult pn / pmult pd.
Proof. exact conc_slash_value_den. Qed.
Print Assumptions C14_conc_ratio_with_denominator_value.
Theorem C14_molar_is_mol_per_L : forall v p,
  parse_concentration ("g", "mL")%string (CShort v (pname p ++ "M")) = parse_concentration ("g", "mL")%string (CSlash v (pname p ++ "mol") None "L").
Proof. exact conc_molar. Qed.
Print Assumptions C14_molar_is_mol_per_L.
Theorem C14_molal_is_mol_per_kg : forall v p,
  parse_concentration ("g", "mL")%string (CShort v (pname p ++ "m")) = parse_concentration ("g", "mL")%string (CSlash v (pname p ++ "mol") None "kg").
Proof. exact conc_molal. Qed.
Print Assumptions C14_molal_is_mol_per_kg.
Theorem C14_percent_is_per_hundred : forall v,
  (exists x, parse_concentration ("g", "mL")%string (CPercent v PctWW) = Ok (x, BG, BG) /\ x == v / 100) /\
  (exists x, parse_concentration ("g", "mL")%string (CPercent v PctVV) = Ok (x, BL, BL) /\ x == v / 100) /\
  (exists x, parse_concentration ("g", "mL")%string (CPercent v PctWV) = Ok (x, BG, BL) /\ x == v / 100 * 1000).
Proof. exact conc_percent. Qed.
Print Assumptions C14_percent_is_per_hundred.
Theorem C14_equivalent_spellings : forall v,
  exists x y z, parse_concentration ("g", "mL")%string (CShort v "M") = Ok (x, BMol, BL) /\
                parse_concentration ("g", "mL")%string (CSlash v "mmol" None "mL") = Ok (y, BMol, BL) /\
                parse_concentration ("g", "mL")%string (CSlash (v / 100) "mmol" (Some 10) "uL") = Ok (z, BMol, BL) /\
                x == v /\ y == v /\ z == v.
Proof. exact equivalent_spellings. Qed.
Print Assumptions C14_equivalent_spellings.

(* strings that are not of these forms are rejected *)
Theorem C14_conc_malformed_rejected : forall wv,
  parse_concentration wv CNoUnit = Err EValue /\ parse_concentration wv CTwoSlashes = Err EValue /\
  (forall v tok, last_char tok <> Some "m"%char -> last_char tok <> Some "M"%char -> parse_concentration wv (CShort v tok) = Err EValue).
Proof. exact conc_malformed_rejected. Qed.
Print Assumptions C14_conc_malformed_rejected.
Theorem C14_conc_unit_token_sound : forall tok m t b,
  rewrite_tok tok concentration_bases = Ok (m, t) -> base_of_tok t = Some b ->
  exists p, tok = (chars (pname p) ++ chars (bname b))%list.
Proof. exact conc_token_sound. Qed.
Print Assumptions C14_conc_unit_token_sound.
