(* C19 -- Instructions and human-readable quantities state the true amounts. *)
Require Import Base Units UnitsThm Contents Container Instr.

(* rescaling a value to a human-readable prefix never changes the physical amount it denotes: all magnitudes, all incoming prefixes *)
Theorem C19_human_readable_preserves : forall v p, ~ v == 0 ->
  denotes (human_readable v p) == Qabs v * pmult p /\ (1 <= fst (human_readable v p) \/ snd (human_readable v p) = Pu).
Proof. exact human_readable_preserves. Qed.
Print Assumptions C19_human_readable_preserves.
Theorem C19_human_readable_zero : forall p, human_readable 0 p = (0, p).
Proof. exact human_readable_zero. Qed.
Print Assumptions C19_human_readable_zero.
Theorem C19_human_readable_range : forall v p, ~ v == 0 -> (1 # 1000000) <= Qabs v * pmult p -> Qabs v * pmult p < 1 ->
  1 <= fst (human_readable v p) /\ fst (human_readable v p) < 1000.
Proof. exact human_readable_range. Qed.
Print Assumptions C19_human_readable_range.

(* the amounts named in 'Add ... of X' instructions: the stored amount in grams (solids), litres (liquids), activity units (enzymes) *)
Theorem C19_standard_format_preserves : forall cf s stored, wf_subst s ->
  let '(v, p, b) := standard_format cf s stored in v * pmult p == conv_stored cf s stored (P0, b).
Proof. exact standard_format_preserves. Qed.
Print Assumptions C19_standard_format_preserves.
Theorem C19_container_volume_preserved : forall cf v,
  fst (standard_format_container cf v) * pmult (snd (standard_format_container cf v)) == v * pmult (vol_pfx cf).
Proof. exact standard_format_container_preserves. Qed.
Print Assumptions C19_container_volume_preserved.

(* ---- the amounts stated by the instruction lines of transfer, fill_to and dilute (Instr2.v) are the amounts moved / added ---- *)
Require Import ContainerThm Dilute Instr2.
Theorem C19_transfer_instruction : forall cf src dst q s' d', Inv cf src ->
  transfer cf src dst q = Ok (s', d') ->
  exists r, transfer_ratio cf src q = Ok r /\
    let a := transfer_instr cf src r in
    (has_liquid src = true -> ~ r * vol src == 0 ->
       snd a = BL /\ denotes3 a == total_in cf (cont src) (P0, BL) - total_in cf (cont s') (P0, BL)) /\
    (has_liquid src = false -> ~ total_in cf (cont src) (Pm, BG) * r == 0 ->
       snd a = BG /\ denotes3 a == total_in cf (cont src) (P0, BG) - total_in cf (cont s') (P0, BG)).
Proof. exact transfer_instr_true. Qed.
Print Assumptions C19_transfer_instruction.
Theorem C19_fill_instruction : forall cf c solvent q c', wf_subst solvent -> is_enzyme solvent = false ->
  fill_to cf c solvent q = Ok c' ->
  let a := fill_instr cf c solvent q in
  ~ solvent_volume solvent (Qmax0 (qv q - total_in cf (cont c) (P0, qbase q))) (P0, qbase q) == 0 ->
  snd a = BL /\ denotes3 a == conv_stored cf solvent (get solvent (cont c') - get solvent (cont c)) (P0, BL).
Proof. exact fill_instr_true. Qed.
Print Assumptions C19_fill_instruction.
Theorem C19_dilute_instruction : forall cf c solute t solvent c', wf_subst solvent ->
  dilute cf c solute t solvent = Ok c' ->
  let a := dilute_instr cf c solute t solvent in
  ~ solvent_volume solvent (dilute_required cf c solute t solvent) (Pu, BMol) == 0 ->
  Qeqb (rnd (to_storage_mol cf (dilute_required cf c solute t solvent) Pu)) 0 = false ->
  snd a = BL /\ denotes3 a == conv_stored cf solvent (get solvent (cont c') - get solvent (cont c)) (P0, BL).
Proof. exact dilute_instr_true. Qed.
Print Assumptions C19_dilute_instruction.

(* create_solution with a container as the solvent: "... to V unit of <container>" states the volume that container loses *)
Require Import Solve InstrSol.
Theorem C19_create_solution_container_instruction : forall cf name solutes k m k' c, Inv cf k ->
  create_solution_c cf name solutes k m = Ok (k', c) ->
  exists fs xs, fake_solvent cf k = Ok fs /\ solve_solution solutes fs m = Ok xs /\
    let a := solution_c_instr cf fs xs in
    ~ solvent_volume fs (last xs 0) (P0, BMol) == 0 ->
    snd a = BL /\ denotes3 a == total_in cf (cont k) (P0, BL) - total_in cf (cont k') (P0, BL).
Proof. exact solution_c_instr_true. Qed.
Print Assumptions C19_create_solution_container_instruction.

(* create_solution_from with a pure solvent: "Add y mL of <solvent> to x mL of <source>." -- the source loses x mL, and the new
   solution holds y mL of solvent beyond the share f of the source's own solvent that came with the aliquot *)
Require Import CsfInstr.
Theorem C19_create_solution_from_instruction : forall cf src solute solvent c q name src' new,
  Inv cf src -> wf_subst solvent -> is_enzyme solvent = false ->
  create_solution_from cf src solute c solvent q name = Ok (src', new) ->
  exists mx x y, mix_of cf src solute = Ok mx /\
    csf_solve mx {| m_d := dens solvent; m_mw := mw solvent; m_m := 0 |} solute c q = Ok (x, y) /\
    total_in cf (cont src) (P0, BL) - total_in cf (cont src') (P0, BL) == x * (1 # 1000) /\
    exists f, (forall k, get k (cont src') == get k (cont src) * (1 - f)) /\
      conv_stored cf solvent (get solvent (cont new) - get solvent (cont src) * f) (P0, BL) == y * (1 # 1000).
Proof. exact csf_instr_true. Qed.
Print Assumptions C19_create_solution_from_instruction.
