(* C19 -- Instructions and human-readable quantities state the true amounts. *)
Require Import Base Units UnitsThm Contents Container Instr.

(* rescaling a value to a human-readable prefix never changes the physical amount it denotes: all magnitudes, all incoming prefixes *)
Theorem C19_human_readable_preserves : forall v p, ~ v == 0 ->
  denotes (human_readable v p) == Qabs v * pmult p /\ (1 <= fst (human_readable v p) \/ snd (human_readable v p) = Pu).
Proof. exact human_readable_preserves. Qed.
Print Assumptions C19_human_readable_preserves.
Theorem C19_human_readable_zero : forall p, human_readable 0 p = (0, p).
Proof. exact human_readable_zero. Qed.
Print Assumptions C19_human_readable_zero.
Theorem C19_human_readable_range : forall v p, ~ v == 0 -> (1 # 1000000) <= Qabs v * pmult p -> Qabs v * pmult p < 1 ->
  1 <= fst (human_readable v p) /\ fst (human_readable v p) < 1000.
Proof. exact human_readable_range. Qed.
Print Assumptions C19_human_readable_range.

(* the amounts named in 'Add ... of X' instructions: the stored amount in grams (solids), litres (liquids), activity units (enzymes) *)
Theorem C19_standard_format_preserves : forall cf s stored, wf_subst s ->
  let '(v, p, b) := standard_format cf s stored in v * pmult p == conv_stored cf s stored (P0, b).
Proof. exact standard_format_preserves. Qed.
Print Assumptions C19_standard_format_preserves.
Theorem C19_container_volume_preserved : forall cf v,
  fst (standard_format_container cf v) * pmult (snd (standard_format_container cf v)) == v * pmult (vol_pfx cf).
Proof. exact standard_format_container_preserves. Qed.
Print Assumptions C19_container_volume_preserved.
