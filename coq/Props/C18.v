Require Import Base Units.
