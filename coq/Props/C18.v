(* C18 -- Answers in user units do not depend on the internal storage configuration. *)
Require Import Base Units UnitsThm Contents Container ContainerThm ContainerThm2 Plate ConfigThm.

(* any two configurations (any supported prefix, or none, for the moles and the volume storage unit): every script of container
   operations takes the same accept / refuse decisions, with the same error class, and ends in related states *)
Theorem C18_scripts_respect_configuration : forall cf cf' ops e e', Forall2 (R cf cf') e e' ->
  snd (crun cf e ops) = snd (crun cf' e' ops) /\ Forall2 (R cf cf') (fst (crun cf e ops)) (fst (crun cf' e' ops)).
Proof. exact crun_R. Qed.
Print Assumptions C18_scripts_respect_configuration.
Theorem C18_from_nothing : forall cf cf' ops,
  snd (crun cf [] ops) = snd (crun cf' [] ops) /\ Forall2 (R cf cf') (fst (crun cf [] ops)) (fst (crun cf' [] ops)).
Proof. intros. apply crun_R. constructor. Qed.
Print Assumptions C18_from_nothing.

(* on related states every observer returns the same answer in every user unit *)
Theorem C18_observers_agree : forall cf cf' c c', R cf cf' c c' ->
  (forall p, get_volume cf c p == get_volume cf' c' p) /\
  (forall s mult nb db, get_concentration cf c s mult nb db == get_concentration cf' c' s mult nb db) /\
  (forall s u, conv_stored cf s (get s (cont c)) u == conv_stored cf' s (get s (cont c')) u) /\
  (forall u, total_in cf (cont c) u == total_in cf' (cont c') u) /\
  keys (cont c) = keys (cont c').
Proof.
  intros cf cf' c c' HR. split; [intros; apply get_volume_R; exact HR|]. split; [intros; apply get_concentration_R; exact HR|].
  split; [intros; apply amounts_in_user_units_R; exact HR|]. split; [intros; apply totals_in_user_units_R; exact HR|].
  apply (Rc_keys cf cf'). apply (R_cont _ _ _ _ HR).
Qed.
Print Assumptions C18_observers_agree.

(* the single operations *)
Theorem C18_construct : forall cf cf' name mx init, Rres (R cf cf') (make_container cf name mx init) (make_container cf' name mx init).
Proof. exact make_container_R. Qed.
Print Assumptions C18_construct.
Theorem C18_transfer : forall cf cf' src src' dst dst' q, R cf cf' src src' -> R cf cf' dst dst' ->
  Rres (R2 cf cf') (transfer cf src dst q) (transfer cf' src' dst' q).
Proof. exact transfer_R. Qed.
Print Assumptions C18_transfer.
Theorem C18_remove : forall cf cf' c c' w, R cf cf' c c' -> R cf cf' (remove cf c w) (remove cf' c' w).
Proof. exact remove_R. Qed.
Print Assumptions C18_remove.
Theorem C18_fill_to : forall cf cf' c c' s q, R cf cf' c c' -> Rres (R cf cf') (fill_to cf c s q) (fill_to cf' c' s q).
Proof. exact fill_to_R. Qed.
Print Assumptions C18_fill_to.
(* storage conversions are mutually inverse whatever the storage prefix (the repaired defect D25 was here) *)
Theorem C18_storage_roundtrip : forall c v p,
  from_storage_vol c (to_storage_vol c v p) p == v /\ from_storage_mol c (to_storage_mol c v p) p == v.
Proof. intros. split; [apply storage_vol_inverse | apply storage_mol_inverse]. Qed.
Print Assumptions C18_storage_roundtrip.

(* ---- the simulation for whole programs (ConfigThm2.v): plates in every transfer form, remove and fill_to on regions, dilute,
   create_solution with a pure solvent.  Under any two storage configurations every operation of a history is accepted or refused
   alike (same error class) and returns related values; on related values all observers agree (theorems above, well by well). *)
Require Import PlateThm Dilute Solve Prog ConfigThm2.
Theorem C18_programs_respect_configuration : forall cf cf' ops e e',
  Renv cf cf' e e' -> Forall plain_op ops ->
  Forall2 (Rres (Forall2 (Rbind cf cf'))) (run cf e ops) (run cf' e' ops).
Proof. exact run_R. Qed.
Print Assumptions C18_programs_respect_configuration.
Theorem C18_plate_transfer : forall cf cf' ps ps' rs pd pd' rd q, RPl cf cf' ps ps' -> RPl cf cf' pd pd' ->
  Rres (Rpp cf cf') (p_to_p cf ps rs pd rd q) (p_to_p cf' ps' rs pd' rd q).
Proof. exact p_to_p_R. Qed.
Print Assumptions C18_plate_transfer.
Theorem C18_dilute : forall cf cf' c c' solute t solvent, R cf cf' c c' ->
  Rres (R cf cf') (dilute cf c solute t solvent) (dilute cf' c' solute t solvent).
Proof. exact dilute_R. Qed.
Print Assumptions C18_dilute.

(* ---- recipes and the tracking queries (ConfigThm3.v): baking the same recipe under two configurations takes the same decision and
   gives related tables and snapshots; the three queries return the same answers in user units, for every timeframe (slice) ---- *)
Require Import Recipe RecipeThm ConfigThm3.
Theorem C18_bake : forall cf cf' objs objs' steps, Renv cf cf' objs objs' -> Forall plain_rstep steps ->
  Rres (fun x y => Renv cf cf' (fst x) (fst y) /\ Forall2 (Rsnap cf cf') (snd x) (snd y)) (bake cf objs steps) (bake cf' objs' steps).
Proof. exact bake_R. Qed.
Print Assumptions C18_bake.
Theorem C18_timeframe : forall cf cf' (tr tr' : list snap) st, Forall2 (Rsnap cf cf') tr tr' ->
  Forall2 (Rsnap cf cf') (slice_of tr st) (slice_of tr' st).
Proof. exact slice_of_R. Qed.
Print Assumptions C18_timeframe.
Theorem C18_get_substance_used : forall cf cf' s dests tr tr' u, Forall2 (Rsnap cf cf') tr tr' ->
  Rres Qeq (substance_used cf s dests tr u) (substance_used cf' s dests tr' u).
Proof. exact substance_used_R. Qed.
Print Assumptions C18_get_substance_used.
Theorem C18_get_container_flows : forall cf cf' u n w tr tr', Forall2 (Rsnap cf cf') tr tr' ->
  Racc (flows cf u n w tr) (flows cf' u n w tr').
Proof. exact flows_R. Qed.
Print Assumptions C18_get_container_flows.
Theorem C18_get_amount_remaining : forall cf cf' u n after tr tr', Forall2 (Rsnap cf cf') tr tr' ->
  Ropt (remaining cf u n after tr) (remaining cf' u n after tr').
Proof. exact remaining_R. Qed.
Print Assumptions C18_get_amount_remaining.
