(* C04 -- Values are immutable: operations never modify their arguments, even on failure.
   Objects are cells of a heap (Heap.v); [observe h a] is everything a user can see through the object at a
   (a container: name, contents, volume, capacity, instruction revision; a plate: name, shape, every well; a slice:
   the plate it points at with every well, and its region). *)
Require Import Base Units Contents Container Plate Dilute Solve Heap HeapThm.

(* one call of any operation, on any heap, any arguments: every cell that existed is left as it was -- whether the
   call returns or raises, at any point (e.g. at a later well of a plate transfer) -- and everything returned is new *)
Theorem C04_call_writes_only_new_objects : forall cf vars o h,
  agree (length h) h (snd (hstep cf vars o h)) /\ (length h <= length (snd (hstep cf vars o h)))%nat /\
  forall l, fst (hstep cf vars o h) = Ok l -> Forall (fun a => (length h <= a)%nat) l.
Proof. exact hstep_frame. Qed.
Print Assumptions C04_call_writes_only_new_objects.

Theorem C04_arguments_unchanged : forall cf vars o h a v,
  observe h a = Some v -> observe (snd (hstep cf vars o h)) a = Some v.
Proof. exact call_leaves_everything_unchanged. Qed.
Print Assumptions C04_arguments_unchanged.

Theorem C04_results_are_new : forall cf vars o h l,
  fst (hstep cf vars o h) = Ok l -> Forall (fun a => observe h a = None) l.
Proof. exact results_are_new. Qed.
Print Assumptions C04_results_are_new.

(* histories in which results are reused as inputs: whatever is observable after a prefix of the history is
   observed unchanged after any continuation (later operations never alter objects returned earlier) *)
Theorem C04_history : forall cf ops1 ops2 vars h a v,
  let '(_, v1, h1) := hrun cf vars h ops1 in
  observe h1 a = Some v -> observe (snd (hrun cf v1 h1 ops2)) a = Some v.
Proof. exact history_leaves_everything_unchanged. Qed.
Print Assumptions C04_history.

(* not vacuous: a container dispenses into a list slice whose last well is nearly full; the call raises after two
   wells were served, and the slice, its plate and the container are observed as before; the same slice is then reused *)
Definition water := {| sid := 1; knd := Liquid; mw := 18; dens := 1; act := 1 |}.
Definition uL (v : Q) := {| qval := v; qpfx := Pu; qbase := BL |}.
Definition demo : list hop :=
  [HNewC 1 None [(water, uL 5000)]; HNewP 2 1 3 (uL 100);
   HSlice 1 (RList [(0, 2)]%nat); HTransfer 0 2 (uL 80);                 (* vars 3 (container), 4 (plate): A3 holds 80 *)
   HSlice 4 (RList [(0, 0); (0, 1); (0, 2)]%nat);                        (* var 5 *)
   HTransfer 3 5 (uL 50)].                                               (* overflows at A3 after A1, A2 *)
Example C04_demo_partway :
  let '(rs, vars, h) := hrun default_cfg [] [] demo in
  nth 5 rs (Ok []) = Err EValue /\
  (exists v, observe h (nth 5 vars 0%nat) = Some v /\
             observe (snd (hrun default_cfg [] [] (firstn 5 demo))) (nth 5 vars 0%nat) = Some v) /\
  match hrun default_cfg vars h [HTransfer 3 5 (uL 10)] with (r :: _, _, _) => exists l, r = Ok l | _ => False end.
Proof. vm_compute. split; [reflexivity|]. split; [eexists; split; reflexivity | eexists; reflexivity]. Qed.
Print Assumptions C04_demo_partway.

(* ---- the object-level model computes the values of the value-level model (HeapRefine.v): on a heap in which the operands are
   represented ([cont_at], [plate_at]; a slice cell pointing at the plate), each operation returns -- at new addresses -- objects
   representing exactly the results of Container.transfer / Plate.c_to_p / p_to_c / p_to_p / p_to_p_same / premove / pfill_to /
   remove / fill_to / dilute, and fails with the same error otherwise.  So Heap.v is a refinement of the model the other
   properties are proved about, not a second transcription of the library. ---- *)
Require Import HeapRefine.
Theorem C04_refines_container_transfer : forall cf h s d q cs cd, cont_at h s cs -> cont_at h d cd ->
  match transfer cf cs cd q with
  | Ok (x, y) => exists a b h', h_transfer_cc cf s d q h = (Ok (a, b), h') /\ ext_ex [] h h' /\ cont_at h' a x /\ cont_at h' b y /\
                              (length h <= a)%nat /\ (length h <= b)%nat /\ a <> b
  | Err e => exists h', h_transfer_cc cf s d q h = (Err e, h') /\ ext_ex [] h h'
  end.
Proof. exact h_transfer_cc_refines. Qed.
Print Assumptions C04_refines_container_transfer.
Theorem C04_refines_container_to_slice : forall cf h s dst q cs p rg pl,
  cont_at h s cs -> nth_error h dst = Some (CSlice p rg) -> plate_at h p pl ->
  match c_to_p cf cs pl rg q with
  | Ok (c', pl') => exists a b h', h_transfer_cs cf s dst q h = (Ok (a, b), h') /\ ext_ex [] h h' /\ cont_at h' a c' /\ plate_at h' b pl' /\
                                   (length h <= b)%nat
  | Err e => exists h', h_transfer_cs cf s dst q h = (Err e, h') /\ ext_ex [] h h'
  end.
Proof. exact h_transfer_cs_refines. Qed.
Print Assumptions C04_refines_container_to_slice.
Theorem C04_refines_slice_to_container : forall cf h src d q cd p rg pl,
  nth_error h src = Some (CSlice p rg) -> plate_at h p pl -> cont_at h d cd ->
  match p_to_c cf pl rg cd q with
  | Ok (pl', c') => exists a b h', h_transfer_sc cf src d q h = (Ok (a, b), h') /\ ext_ex [] h h' /\ plate_at h' a pl' /\ cont_at h' b c' /\
                                   (length h <= a)%nat
  | Err e => exists h', h_transfer_sc cf src d q h = (Err e, h') /\ ext_ex [] h h'
  end.
Proof. exact h_transfer_sc_refines. Qed.
Print Assumptions C04_refines_slice_to_container.
Theorem C04_refines_slice_to_slice_two_plates : forall cf h src dst q pf rs plf pt rd plt,
  nth_error h src = Some (CSlice pf rs) -> plate_at h pf plf ->
  nth_error h dst = Some (CSlice pt rd) -> plate_at h pt plt -> pf <> pt ->
  match p_to_p cf plf rs plt rd q with
  | Ok (plf', plt') => exists a b h', h_transfer_ss cf src dst q h = (Ok (a, b), h') /\ ext_ex [] h h' /\ plate_at h' a plf' /\ plate_at h' b plt' /\
                                      (length h <= a)%nat /\ (length h <= b)%nat
  | Err e => exists h', h_transfer_ss cf src dst q h = (Err e, h') /\ ext_ex [] h h'
  end.
Proof. exact h_transfer_ss_refines_two_plates. Qed.
Print Assumptions C04_refines_slice_to_slice_two_plates.
Theorem C04_refines_slice_to_slice_same_plate : forall cf h src dst q p rs rd pl,
  nth_error h src = Some (CSlice p rs) -> nth_error h dst = Some (CSlice p rd) -> plate_at h p pl ->
  match p_to_p_same cf pl rs rd q with
  | Ok pl' => exists a h', h_transfer_ss cf src dst q h = (Ok (a, a), h') /\ ext_ex [] h h' /\ plate_at h' a pl' /\ (length h <= a)%nat
  | Err e => exists h', h_transfer_ss cf src dst q h = (Err e, h') /\ ext_ex [] h h'
  end.
Proof. exact h_transfer_ss_refines_same_plate. Qed.
Print Assumptions C04_refines_slice_to_slice_same_plate.
Theorem C04_refines_slice_remove : forall cf h t w p rg pl, nth_error h t = Some (CSlice p rg) -> plate_at h p pl ->
  match premove cf pl rg w with
  | Ok pl' => exists a h', h_remove_s cf t w h = (Ok a, h') /\ ext_ex [] h h' /\ plate_at h' a pl' /\ (length h <= a)%nat
  | Err e => exists h', h_remove_s cf t w h = (Err e, h') /\ ext_ex [] h h'
  end.
Proof. exact h_remove_s_refines. Qed.
Print Assumptions C04_refines_slice_remove.
Theorem C04_refines_slice_fill_to : forall cf h t s q p rg pl, nth_error h t = Some (CSlice p rg) -> plate_at h p pl ->
  match pfill_to cf pl rg s q with
  | Ok pl' => exists a h', h_fill_s cf t s q h = (Ok a, h') /\ ext_ex [] h h' /\ plate_at h' a pl' /\ (length h <= a)%nat
  | Err e => exists h', h_fill_s cf t s q h = (Err e, h') /\ ext_ex [] h h'
  end.
Proof. exact h_fill_s_refines. Qed.
Print Assumptions C04_refines_slice_fill_to.
Theorem C04_refines_container_ops : forall cf,
  (forall w, sim1 (fun a => h_remove_c cf a w) (fun c => Ok (remove cf c w))) /\
  (forall s q, sim1 (fun a => h_fill_c cf a s q) (fun c => fill_to cf c s q)) /\
  (forall solute t solvent, sim1 (fun a => h_dilute cf a solute t solvent) (fun c => dilute cf c solute t solvent)).
Proof. intros cf. split; [exact (sim_remove cf) | split; [exact (sim_fill cf) | exact (sim_dilute cf)]]. Qed.
Print Assumptions C04_refines_container_ops.
