(* C04 -- Values are immutable: operations never modify their arguments, even on failure.
   Objects are cells of a heap (Heap.v); [observe h a] is everything a user can see through the object at a
   (a container: name, contents, volume, capacity, instruction revision; a plate: name, shape, every well; a slice:
   the plate it points at with every well, and its region). *)
Require Import Base Units Contents Container Plate Dilute Solve Heap HeapThm.

(* one call of any operation, on any heap, any arguments: every cell that existed is left as it was -- whether the
   call returns or raises, at any point (e.g. at a later well of a plate transfer) -- and everything returned is new *)
Theorem C04_call_writes_only_new_objects : forall cf vars o h,
  agree (length h) h (snd (hstep cf vars o h)) /\ (length h <= length (snd (hstep cf vars o h)))%nat /\
  forall l, fst (hstep cf vars o h) = Ok l -> Forall (fun a => (length h <= a)%nat) l.
Proof. exact hstep_frame. Qed.
Print Assumptions C04_call_writes_only_new_objects.

Theorem C04_arguments_unchanged : forall cf vars o h a v,
  observe h a = Some v -> observe (snd (hstep cf vars o h)) a = Some v.
Proof. exact call_leaves_everything_unchanged. Qed.
Print Assumptions C04_arguments_unchanged.

Theorem C04_results_are_new : forall cf vars o h l,
  fst (hstep cf vars o h) = Ok l -> Forall (fun a => observe h a = None) l.
Proof. exact results_are_new. Qed.
Print Assumptions C04_results_are_new.

(* histories in which results are reused as inputs: whatever is observable after a prefix of the history is
   observed unchanged after any continuation (later operations never alter objects returned earlier) *)
Theorem C04_history : forall cf ops1 ops2 vars h a v,
  let '(_, v1, h1) := hrun cf vars h ops1 in
  observe h1 a = Some v -> observe (snd (hrun cf v1 h1 ops2)) a = Some v.
Proof. exact history_leaves_everything_unchanged. Qed.
Print Assumptions C04_history.

(* not vacuous: a container dispenses into a list slice whose last well is nearly full; the call raises after two
   wells were served, and the slice, its plate and the container are observed as before; the same slice is then reused *)
Definition water := {| sid := 1; knd := Liquid; mw := 18; dens := 1; act := 1 |}.
Definition uL (v : Q) := {| qval := v; qpfx := Pu; qbase := BL |}.
Definition demo : list hop :=
  [HNewC 1 None [(water, uL 5000)]; HNewP 2 1 3 (uL 100);
   HSlice 1 (RList [(0, 2)]%nat); HTransfer 0 2 (uL 80);                 (* vars 3 (container), 4 (plate): A3 holds 80 *)
   HSlice 4 (RList [(0, 0); (0, 1); (0, 2)]%nat);                        (* var 5 *)
   HTransfer 3 5 (uL 50)].                                               (* overflows at A3 after A1, A2 *)
Example C04_demo_partway :
  let '(rs, vars, h) := hrun default_cfg [] [] demo in
  nth 5 rs (Ok []) = Err EValue /\
  (exists v, observe h (nth 5 vars 0%nat) = Some v /\
             observe (snd (hrun default_cfg [] [] (firstn 5 demo))) (nth 5 vars 0%nat) = Some v) /\
  match hrun default_cfg vars h [HTransfer 3 5 (uL 10)] with (r :: _, _, _) => exists l, r = Ok l | _ => False end.
Proof. vm_compute. split; [reflexivity|]. split; [eexists; split; reflexivity | eexists; reflexivity]. Qed.
Print Assumptions C04_demo_partway.
