(* C05 -- create_solution meets every stated constraint or refuses. *)
Require Import Base Units UnitsThm Contents Container ContainerThm ContainerThm2 Dilute Solve SolveThm HistoryThm.

(* the exact solver is sound: whatever it returns satisfies every row it was given *)
Theorem C05_solver_sound : forall n (rows : list row) (xs : vec),
  (forall r, In r rows -> length (fst r) = n) -> gauss n rows = Some xs ->
  length xs = n /\ forall r, In r rows -> dot (fst r) xs == snd r.
Proof. exact gauss_sound. Qed.
Print Assumptions C05_solver_sound.

(* the rows mean what the chemistry says: residual zero <=> the stated value holds for the mixture with amounts xs *)
Theorem C05_rows_meaning : forall subs xs, length xs = length subs ->
  (forall i s c, (i < length subs)%nat ->
     dot (fst (conc_row subs i s c)) xs - snd (conc_row subs i s c) == cval c * mix_total subs xs (cden c) - cone s (cnum c) * nth i xs 0) /\
  (forall i s q, (i < length subs)%nat ->
     dot (fst (qty_row subs i s q)) xs - snd (qty_row subs i s q) == cone s (qbase q) * nth i xs 0 - qv q) /\
  (forall q, dot (fst (total_row subs q)) xs - snd (total_row subs q) == mix_total subs xs (qbase q) - qv q).
Proof.
  intros subs xs L. split; [intros; apply conc_row_meaning; assumption|]. split; [intros; apply qty_row_meaning; assumption | intros; apply total_row_meaning].
Qed.
Print Assumptions C05_rows_meaning.

(* every accepted request: strictly positive amounts, the rows of the solve exact, every row within the residual tolerance *)
Theorem C05_accepted_meets_rows : forall solutes solvent m xs,
  solve_solution solutes solvent m = Ok xs ->
  exists rows, system solutes solvent m = Ok rows /\ length xs = S (length solutes) /\
    (forall x, In x xs -> 0 < x) /\
    (forall r, In r (firstn (S (length solutes)) rows) -> dot (fst r) xs == snd r) /\
    (forall r, In r rows -> Qabs (dot (fst r) xs - snd r) <= (1 # 1000000) * (dot_abs (fst r) xs + Qabs (snd r))).
Proof. exact solve_solution_sound. Qed.
Print Assumptions C05_accepted_meets_rows.

(* concentration + total: the returned container contains exactly solutes + solvent, all positive, every stated concentration
   holds in its own unit as read back from the contents, and the total quantity holds -- any number of solutes, any kinds,
   any unit pairs *)
Theorem C05_conc_total : forall cf name solutes solvent cs t c,
  NoDup (solutes ++ [solvent]) -> Forall wf_subst (solutes ++ [solvent]) ->
  create_solution cf name solutes solvent (MConcTotal cs t) = Ok c ->
  keys (cont c) = solutes ++ [solvent] /\ (forall i s, nth_error (solutes ++ [solvent]) i = Some s -> 0 < get s (cont c)) /\
  (forall i s ci, nth_error solutes i = Some s -> nth_error cs i = Some ci ->
     conv_stored cf s (get s (cont c)) (P0, cnum ci) == cval ci * total_in cf (cont c) (P0, cden ci)) /\
  total_in cf (cont c) (P0, qbase t) == qv t.
Proof. intros cf name solutes solvent cs t c Hnd Hwf. exact (create_solution_conc_total cf name solutes solvent Hnd Hwf cs t c). Qed.
Print Assumptions C05_conc_total.
Theorem C05_qty_total : forall cf name solutes solvent qs t c,
  NoDup (solutes ++ [solvent]) -> Forall wf_subst (solutes ++ [solvent]) ->
  create_solution cf name solutes solvent (MQtyTotal qs t) = Ok c ->
  keys (cont c) = solutes ++ [solvent] /\ (forall i s, nth_error (solutes ++ [solvent]) i = Some s -> 0 < get s (cont c)) /\
  (forall i s qi, nth_error solutes i = Some s -> nth_error qs i = Some qi -> conv_stored cf s (get s (cont c)) (P0, qbase qi) == qv qi) /\
  total_in cf (cont c) (P0, qbase t) == qv t.
Proof. intros cf name solutes solvent qs t c Hnd Hwf. exact (create_solution_qty_total cf name solutes solvent Hnd Hwf qs t c). Qed.
Print Assumptions C05_qty_total.
(* concentration + solute quantity: all concentrations and the first quantity exactly; the remaining quantities only within the
   tolerance of the residual test (C05_accepted_meets_rows) -- the full statement for them is not proved: partial *)
Theorem C05_conc_qty_partial : forall cf name solutes solvent cs qs c,
  NoDup (solutes ++ [solvent]) -> Forall wf_subst (solutes ++ [solvent]) ->
  create_solution cf name solutes solvent (MConcQty cs qs) = Ok c ->
  keys (cont c) = solutes ++ [solvent] /\ (forall i s, nth_error (solutes ++ [solvent]) i = Some s -> 0 < get s (cont c)) /\
  (forall i s ci, nth_error solutes i = Some s -> nth_error cs i = Some ci ->
     conv_stored cf s (get s (cont c)) (P0, cnum ci) == cval ci * total_in cf (cont c) (P0, cden ci)) /\
  (forall s q0, nth_error solutes 0 = Some s -> nth_error qs 0 = Some q0 -> conv_stored cf s (get s (cont c)) (P0, qbase q0) == qv q0).
Proof. intros cf name solutes solvent cs qs c Hnd Hwf. exact (create_solution_conc_qty_partial cf name solutes solvent Hnd Hwf cs qs c). Qed.
Print Assumptions C05_conc_qty_partial.

(* container solvent: the depleted container and the solution both satisfy the invariant (nothing negative), and the solvent portion
   is a transfer out of it, so C01 / C02 apply: nothing lost, uniform aliquot *)
Theorem C05_container_solvent : forall cf name solutes k m k' c,
  Forall wf_subst solutes -> Inv cf k -> create_solution_c cf name solutes k m = Ok (k', c) -> Inv cf k' /\ Inv cf c.
Proof. exact create_solution_c_inv. Qed.
Print Assumptions C05_container_solvent.
Theorem C05_container_solvent_is_transfer : forall cf name solutes k m k' c,
  create_solution_c cf name solutes k m = Ok (k', c) ->
  exists fs xs res, fake_solvent cf k = Ok fs /\ solve_solution solutes fs m = Ok xs /\
    make_container cf name None (map2 (fun s x => (s, amount_qty s x)) solutes xs) = Ok res /\
    transfer cf k res {| qval := last xs 0; qpfx := P0; qbase := BMol |} = Ok (k', c).
Proof.
  intros cf name solutes k m k' c. unfold create_solution_c, bind.
  destruct (fake_solvent cf k) as [fs|] eqn:E1; [|discriminate]. destruct (solve_solution solutes fs m) as [xs|] eqn:E2; [|discriminate].
  destruct (make_container cf name None (map2 (fun s x => (s, amount_qty s x)) solutes xs)) as [res|] eqn:E3; [|discriminate].
  intros H. exists fs, xs, res. split; [reflexivity|]. split; [exact E2|]. split; [exact E3 | exact H].
Qed.
Print Assumptions C05_container_solvent_is_transfer.
