Require Import Base Solve.
