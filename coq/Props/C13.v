(* C13 -- Every documented way of addressing wells selects the documented wells. *)
Require Import Base Plate Slicer SlicerThm.
From Coq Require Import String.

(* integer indices are 1-based, labels and integers are interchangeable *)
Theorem C13_position : forall L x, res_lab L x = match pos_of L x with Some i => Ok i | None => Err EValue end.
Proof. exact res_lab_pos. Qed.
Print Assumptions C13_position.
Theorem C13_label_int_interchangeable : forall L l i,
  index_of l L = Some i -> res_lab L (LStr l) = res_lab L (LInt (Z.of_nat i + 1)).
Proof. exact label_int_interchangeable. Qed.
Print Assumptions C13_label_int_interchangeable.

(* 'A:1', ('A','1'), (1,1), mixed forms and one-element lists denote the same well *)
Theorem C13_same_well : forall R C r c i j,
  index_of r R = Some i -> index_of c C = Some j ->
  resolve R C (SelSingle r c) = Ok (RRect [i] [j]) /\
  resolve R C (SelPair (LStr r) (LStr c)) = Ok (RRect [i] [j]) /\
  resolve R C (SelPair (LInt (Z.of_nat i + 1)) (LInt (Z.of_nat j + 1))) = Ok (RRect [i] [j]) /\
  resolve R C (SelPair (LStr r) (LInt (Z.of_nat j + 1))) = Ok (RRect [i] [j]) /\
  resolve R C (SelList [EStr r c]) = Ok (RList [(i, j)]) /\
  resolve R C (SelList [ETuple (LInt (Z.of_nat i + 1)) (LStr c)]) = Ok (RList [(i, j)]).
Proof. exact same_well. Qed.
Print Assumptions C13_same_well.

(* slices include both end points, open ends run to the plate edge, a positive step k takes every k-th:
   the iteration the code performs equals the documented comprehension, for every plate size and labeling *)
Theorem C13_slice_meaning : forall L s idx, spec_slice L s = Some idx -> axis L s = Ok idx.
Proof. exact axis_spec. Qed.
Print Assumptions C13_slice_meaning.
Theorem C13_comprehension : forall n lo hi k,
  NoDup (spec_axis n lo hi k) /\
  forall x, In x (spec_axis n lo hi k) <-> ((lo <= x <= hi)%nat /\ (x < n)%nat /\ ((x - lo) mod k = 0)%nat).
Proof. exact spec_axis_sorted. Qed.
Print Assumptions C13_comprehension.
Theorem C13_two_slices : forall R C a b rs cs,
  spec_slice R a = Some rs -> spec_slice C b = Some cs ->
  resolve R C (SelSS a b) = Ok (RRect rs cs) /\ resolve R C (SelSlice a) = Ok (RRect rs (full (List.length C))).
Proof. exact resolve_slices. Qed.
Print Assumptions C13_two_slices.
Theorem C13_slice_and_label : forall R C a b rs j,
  spec_slice R a = Some rs -> res_lab C b = Ok j -> resolve R C (SelSL a b) = Ok (RRect rs [j]).
Proof. exact resolve_slice_label. Qed.
Print Assumptions C13_slice_and_label.
Theorem C13_label_and_slice : forall R C a b i cs,
  res_lab R a = Ok i -> spec_slice C b = Some cs -> resolve R C (SelLS a b) = Ok (RRect [i] cs).
Proof. exact resolve_label_slice. Qed.
Print Assumptions C13_label_and_slice.
Theorem C13_whole_row : forall R C x i, res_lab R x = Ok i ->
  match x with LInt z => resolve R C (SelInt z) | LStr s => resolve R C (SelRowLabel s) end = Ok (RRect [i] (full (List.length C))).
Proof. exact row_selector. Qed.
Print Assumptions C13_whole_row.
(* a list selects its wells in the order given *)
Theorem C13_list_order : forall R C l xs,
  res_elems R C l = Ok xs -> resolve R C (SelList l) = Ok (RList xs) /\ List.length xs = List.length l.
Proof. exact resolve_list_order. Qed.
Print Assumptions C13_list_order.

(* nothing outside the plate is selected; indices or labels outside the plate and malformed selectors are rejected *)
Theorem C13_in_range : forall R C s r, resolve R C s = Ok r ->
  forall p, In p (region_cells r) -> (fst p < List.length R)%nat /\ (snd p < List.length C)%nat.
Proof. exact resolve_in_range. Qed.
Print Assumptions C13_in_range.
Theorem C13_int_out_of_range_rejected : forall L z,
  (z < 1 \/ Z.of_nat (List.length L) < z)%Z -> res_lab L (LInt z) = Err EValue.
Proof. exact int_out_of_range_rejected. Qed.
Print Assumptions C13_int_out_of_range_rejected.
Theorem C13_unknown_label_rejected : forall L s, ~ In s L -> res_lab L (LStr s) = Err EValue.
Proof. intros L s H. apply unknown_label_rejected. apply index_of_none. exact H. Qed.
Print Assumptions C13_unknown_label_rejected.
Theorem C13_slice_end_off_plate_rejected : forall L x sp step,
  pos_of L x = None -> axis L {| s_start := Some x; s_stop := sp; s_step := step |} = Err EValue.
Proof. exact axis_rejects_start. Qed.
Print Assumptions C13_slice_end_off_plate_rejected.
Theorem C13_malformed_rejected : forall R C,
  resolve R C SelStrBad = Err EType /\ resolve R C SelTuple1 = Err EType /\ resolve R C SelBad = Err EType /\
  (forall b, resolve R C (SelBadStep b) = Err EType) /\
  resolve R C (SelList [EStrBad]) = Err EType /\ resolve R C (SelList [ETuple3]) = Err EValue /\ resolve R C (SelList [EOtherElem]) = Err EType.
Proof. exact malformed_rejected. Qed.
Print Assumptions C13_malformed_rejected.

(* default labels: A..Z, AA, AB, ...; bounded statement (complete enumeration up to 1000 rows): every default row label
   addresses its own row *)
Theorem C13_default_rows_start : default_rows 28 =
  ["A";"B";"C";"D";"E";"F";"G";"H";"I";"J";"K";"L";"M";"N";"O";"P";"Q";"R";"S";"T";"U";"V";"W";"X";"Y";"Z";"AA";"AB"]%string.
Proof. exact default_rows_start. Qed.
Print Assumptions C13_default_rows_start.
Theorem C13_default_label_resolves_upto_1000 : forall n i, (n <= 1000)%nat -> (i < n)%nat ->
  res_lab (default_rows n) (LStr (row_name i)) = Ok i.
Proof. exact default_label_resolves. Qed.
Print Assumptions C13_default_label_resolves_upto_1000.
