(* C09 -- get_substance_used reports the net gain of the destinations over the timeframe.
   Model: Recipe.bake_steps (the trace of per-step snapshots), Recipe.used_raw / substance_used (the query, with its
   substances_used filter and its double reading of a step whose source and destination are the same plate).
   [dest_total s dests e] = amount of s inside the destinations in table e; [trash_total s t] = what the remove steps of t
   discarded of s; [steps_ok]: substances are well formed and a created name still holds its empty placeholder when
   its creating step runs (the API hands the name out when the step is added). *)
Require Import Base Units Contents Container ContainerThm ContainerThm2 Dilute Solve Plate PlateThm Prog HistoryThm Recipe RecipeThm C09Thm.

(* whole recipe, any destination set without repetitions, any substance (also one never used) *)
Theorem C09_used_is_net_gain_plus_discarded : forall cf d13 s dests steps e e' tr,
  NoDup dests -> renv_inv cf e -> steps_ok cf d13 e steps -> bake_steps cf d13 e steps = Ok (e', tr) ->
  renv_inv cf e' /\
  used_raw s dests tr == dest_total s dests e' - dest_total s dests e + trash_total s tr.
Proof. exact used_raw_is_net_gain. Qed.
Print Assumptions C09_used_is_net_gain_plus_discarded.

(* a named stage = the steps s2 of s1 ++ s2 ++ s3: exactly the steps of the timeframe count, measured between the table
   before its first and after its last step *)
Theorem C09_timeframe : forall cf d13 s dests s1 s2 s3 e e' tr,
  NoDup dests -> renv_inv cf e -> steps_ok cf d13 e (s1 ++ s2 ++ s3) -> bake_steps cf d13 e (s1 ++ s2 ++ s3) = Ok (e', tr) ->
  exists e1 e2 t1 t2 t3,
    bake_steps cf d13 e s1 = Ok (e1, t1) /\ bake_steps cf d13 e1 s2 = Ok (e2, t2) /\ bake_steps cf d13 e2 s3 = Ok (e', t3) /\
    slice_of tr (length s1, (length s1 + length s2)%nat) = t2 /\
    used_raw s dests (slice_of tr (length s1, (length s1 + length s2)%nat)) ==
      dest_total s dests e2 - dest_total s dests e1 + trash_total s t2.
Proof. exact used_over_timeframe. Qed.
Print Assumptions C09_timeframe.

Theorem C09_consecutive_stages_add_up : forall s dests (tr : list snap) i j k, (i <= j)%nat -> (j <= k)%nat ->
  used_raw s dests (slice_of tr (i, k)) == used_raw s dests (slice_of tr (i, j)) + used_raw s dests (slice_of tr (j, k)).
Proof. exact used_additive. Qed.
Print Assumptions C09_consecutive_stages_add_up.

(* the requested unit; a net decrease raises ValueError *)
Theorem C09_unit_and_refusal : forall cf s dests tr u,
  (used_raw s dests tr < 0 -> substance_used cf s dests tr u = Err EValue) /\
  (0 <= used_raw s dests tr -> substance_used cf s dests tr u = Ok (conv_stored cf s (used_raw s dests tr) u)).
Proof. exact substance_used_outcome. Qed.
Print Assumptions C09_unit_and_refusal.

(* the filter on substances_used never hides a change, and a transfer inside one plate nets to zero *)
Theorem C09_step_facts : forall cf d13 s e st e' k,
  renv_inv cf e -> wf_rstep st -> step_fresh e st -> bake_step cf d13 e st = Ok (e', k) -> facts cf s e' k.
Proof. exact bake_step_facts. Qed.
Print Assumptions C09_step_facts.

(* "plus whatever of it remove steps discarded": the trash of a remove step is exactly what left its target *)
Theorem C09_discarded_is_what_remove_took : forall cf d13 s e t w e' k,
  renv_inv cf e -> bake_step cf d13 e (SRemove t w) = Ok (e', k) ->
  get s (s_trash k) == amount_in_obj s (s_to0 k) - amount_in_obj s (s_to1 k).
Proof. exact remove_trash_is_loss. Qed.
Print Assumptions C09_discarded_is_what_remove_took.

(* Recipe.bake itself, with hypotheses on the shape of the recipe only: distinct names (C16 enforces them), well-formed substances,
   no step mentions a name that a later step creates (the API returns a created name only when its step is added) *)
Theorem C09_bake : forall cf s dests objs steps e' tr,
  NoDup dests -> renv_inv cf objs -> Forall wf_rstep steps -> NoDup (map fst objs ++ created_names steps) -> no_early_use steps ->
  bake cf objs steps = Ok (e', tr) ->
  used_raw s dests tr == dest_total s dests e' - dest_total s dests objs + trash_total s tr.
Proof. exact bake_used_is_net_gain. Qed.
Print Assumptions C09_bake.

(* not vacuous: a salt stock is made inside the recipe, dispensed into two wells, one well is emptied again, and the
   plate is topped up; the hypotheses hold and the query over the plate is the salt still there plus the salt discarded *)
Definition water := {| sid := 1; knd := Liquid; mw := 18; dens := 1; act := 1 |}.
Definition salt := {| sid := 4; knd := Solid; mw := 58; dens := 1; act := 1 |}.
Definition qy (v : Q) (p : Units.prefix) (b : base) := {| qval := v; qpfx := p; qbase := b |}.
Definition demo_objs : renv :=
  match new_plate default_cfg 2 1 2 (qy 500 Pu BL) with Ok p => [(2%nat, OP p)] | Err _ => [] end.
Definition demo_steps : list rstep :=
  [SCreate 1 None [(water, qy 10 Pm BL); (salt, qy 580 Pm BG)];
   STransfer (RC 1) (RP 2 (RRect [0%nat] [0%nat; 1%nat])) (qy 100 Pu BL);
   SRemove (RP 2 (RList [(0%nat, 1%nat)])) (WKind Solid);
   SFill (RP 2 (RRect [0%nat] [0%nat; 1%nat])) water (qy 200 Pu BL)].
Example C09_nonvacuous :
  let e := declare_steps demo_objs demo_steps in
  NoDup [2%nat] /\ renv_inv default_cfg e /\ steps_ok default_cfg true e demo_steps /\
  exists e' tr, bake_steps default_cfg true e demo_steps = Ok (e', tr) /\
     0 < trash_total salt tr /\ 0 < dest_total salt [2%nat] e' /\
     used_raw salt [2%nat] tr == dest_total salt [2%nat] e' + trash_total salt tr /\
     used_raw salt [2%nat] (slice_of tr (1%nat, 2%nat)) + used_raw salt [2%nat] (slice_of tr (2%nat, 4%nat))
       == used_raw salt [2%nat] (slice_of tr (1%nat, 4%nat)).
Proof.
  cbv zeta. split; [repeat constructor; simpl; tauto|]. split.
  - intros n o H. unfold declare_steps, demo_objs in H. simpl in H.
    destruct n as [|[|[|n]]]; simpl in H; try discriminate; inversion H; subst; clear H.
    + apply (make_container_inv default_cfg 1 None [] _ (Forall_nil _)). reflexivity.
    + apply (new_plate_inv default_cfg 2 1 2 (qy 500 Pu BL)). reflexivity.
  - split.
    + vm_compute. repeat split; try reflexivity; try (repeat constructor; fail).
    + eexists. eexists. split; [vm_compute; reflexivity|]. vm_compute. repeat split; reflexivity.
Qed.
Print Assumptions C09_nonvacuous.
