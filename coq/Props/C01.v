(* C01 -- Transfers conserve every substance.  Statements only; proofs in ContainerThm.v / PlateThm.v. *)
Require Import Base Units Contents Container ContainerThm Plate PlateThm.

(* container -> container, all four unit branches at once *)
Theorem C01_transfer_conserves : forall cf src dst q s' d',
  wfc (cont src) -> transfer cf src dst q = Ok (s', d') ->
  forall k, get k (cont s') + get k (cont d') == get k (cont src) + get k (cont dst).
Proof. exact transfer_conserves. Qed.
Print Assumptions C01_transfer_conserves.

(* container -> n wells: conservation over the container and ALL wells, untouched wells identical *)
Theorem C01_container_to_wells : forall cf c p r q c' p',
  Inv cf c -> PInv cf p -> c_to_p cf c p r q = Ok (c', p') ->
  (forall k, cget k c' + wsum (cget k) (wells p') == cget k c + wsum (cget k) (wells p)) /\
  (forall j, ~ In j (region_idx (ncols p) r) -> nth_error (wells p') j = nth_error (wells p) j) /\
  length (wells p') = length (wells p).
Proof. intros cf c p r q c' p' Ic Ip H. destruct (c_to_p_spec cf c p r q c' p' Ic Ip H) as (A & B & C & _). exact (conj A (conj B C)). Qed.
Print Assumptions C01_container_to_wells.

(* n wells -> container *)
Theorem C01_wells_to_container : forall cf p r c q p' c',
  Inv cf c -> PInv cf p -> p_to_c cf p r c q = Ok (p', c') ->
  (forall k, cget k c' + wsum (cget k) (wells p') == cget k c + wsum (cget k) (wells p)) /\
  (forall j, ~ In j (region_idx (ncols p) r) -> nth_error (wells p') j = nth_error (wells p) j) /\
  length (wells p') = length (wells p).
Proof. intros cf p r c q p' c' Ic Ip H. destruct (p_to_c_spec cf p r c q p' c' Ic Ip H) as (A & B & C & _). exact (conj A (conj B C)). Qed.
Print Assumptions C01_wells_to_container.

(* plate -> plate (one-to-many, many-to-one, element-wise), two plates *)
Theorem C01_plate_to_plate : forall cf ps rs pd rd q ps' pd',
  PInv cf ps -> PInv cf pd -> p_to_p cf ps rs pd rd q = Ok (ps', pd') ->
  (forall k, wsum (cget k) (wells ps') + wsum (cget k) (wells pd') == wsum (cget k) (wells ps) + wsum (cget k) (wells pd)) /\
  (forall j, ~ In j (region_idx (ncols ps) rs) -> nth_error (wells ps') j = nth_error (wells ps) j) /\
  (forall j, ~ In j (region_idx (ncols pd) rd) -> nth_error (wells pd') j = nth_error (wells pd) j).
Proof. intros cf ps rs pd rd q ps' pd' Is Id H. destruct (p_to_p_spec cf ps rs pd rd q ps' pd' Is Id H) as (A & B & C & _). exact (conj A (conj B C)). Qed.
Print Assumptions C01_plate_to_plate.

(* source and destination regions on the same plate: the plate-wide total of every substance is unchanged *)
Theorem C01_same_plate : forall cf p rs rd q p',
  PInv cf p -> p_to_p_same cf p rs rd q = Ok p' ->
  (forall k, wsum (cget k) (wells p') == wsum (cget k) (wells p)) /\
  (forall j, ~ In j (region_idx (ncols p) rs) -> ~ In j (region_idx (ncols p) rd) -> nth_error (wells p') j = nth_error (wells p) j).
Proof. intros cf p rs rd q p' Ip H. destruct (p_to_p_same_spec cf p rs rd q p' Ip H) as (A & B & _). exact (conj A B). Qed.
Print Assumptions C01_same_plate.

(* overlapping regions of one plate are refused (they would create material) *)
Theorem C01_overlap_refused : forall cf p rs rd q,
  overlaps (region_idx (ncols p) rs) (region_idx (ncols p) rd) = true -> p_to_p_same cf p rs rd q = Err EValue.
Proof. intros cf p rs rd q H. unfold p_to_p_same. rewrite H. reflexivity. Qed.
Print Assumptions C01_overlap_refused.

(* the premises are satisfiable: a concrete two-substance transfer *)
Example C01_nonvacuous :
  let w := {| sid := 1; knd := Liquid; mw := 18; dens := 1; act := 1 |} in
  let s := {| sid := 2; knd := Solid; mw := 58; dens := 1; act := 1 |} in
  let src := {| cname := 1; cont := [(w, 1000); (s, 10)]; vol := 18580 # 1000; maxv := None |} in
  let dst := {| cname := 2; cont := []; vol := 0; maxv := None |} in
  exists r, transfer default_cfg src dst {| qval := 5; qpfx := Pu; qbase := BL |} = Ok r /\ wfc (cont src).
Proof.
  simpl. eexists. split; [vm_compute; reflexivity|]. repeat constructor; simpl; intuition discriminate.
Qed.
Print Assumptions C01_nonvacuous.

(* regions written as lists may name a well more than once (it then gives, or receives, as often as it is named): the theorems above
   carry no distinctness hypothesis.  A concrete instance -- the very call on which the implementation used to create material (D42):
   well 0 of the first plate listed twice as the source, wells 0 and 1 of the second plate as destinations, 10 uL each *)
Example C01_repeated_well :
  let w := {| sid := 1; knd := Liquid; mw := 18; dens := 1; act := 1 |} in
  let well v := {| cname := 0; cont := [(w, v)]; vol := v * 18 / 1000; maxv := Some 1000 |} in
  let p1 := {| pname := 1; nrows := 1; ncols := 2; wells := [well 5000; well 5000] |} in
  let p2 := {| pname := 2; nrows := 1; ncols := 2; wells := [well 0; well 0] |} in
  exists a b, p_to_p default_cfg p1 (RList [(0, 0); (0, 0)]%nat) p2 (RList [(0, 0); (0, 1)]%nat) {| qval := 10; qpfx := Pu; qbase := BL |} = Ok (a, b) /\
    wsum (cget w) (wells a) + wsum (cget w) (wells b) == wsum (cget w) (wells p1) + wsum (cget w) (wells p2) /\
    cget w (nth 0%nat (wells a) (well 0)) == cget w (well 5000) - 2 * (10 * 1000 / 18).
Proof.
  cbv zeta. eexists. eexists. split; [vm_compute; reflexivity|]. split; vm_compute; reflexivity.
Qed.
Print Assumptions C01_repeated_well.
