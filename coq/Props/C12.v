(* C12 -- create_solution_from dilutes a stock as requested and conserves material. *)
Require Import Base Units UnitsThm Contents Container ContainerThm ContainerThm2 Dilute Solve SolveThm CsfThm HistoryThm.

(* pure solvent: for every multi-component stock satisfying the invariant (enzymes as bystanders included), every non-enzyme solute
   and solvent, every numerator / denominator / quantity base unit: *)
Theorem C12_sound : forall cf src solute solvent c q name src' new,
  Inv cf src -> wf_subst solvent -> is_enzyme solvent = false -> wf_subst solute -> is_enzyme solute = false ->
  0 < total_in cf (cont src) (P0, BG) ->
  create_solution_from cf src solute c solvent q name = Ok (src', new) ->
  total_in cf (cont new) (P0, qbase q) == qv q /\
  conv_stored cf solute (get solute (cont new)) (P0, cnum c) == cval c * total_in cf (cont new) (P0, cden c) /\
  (forall k, k <> solvent -> get k (cont src') + get k (cont new) == get k (cont src)) /\
  get solvent (cont src) <= get solvent (cont src') + get solvent (cont new) /\
  (exists f, 0 <= f /\ f <= 1 /\ forall k, get k (cont src') == get k (cont src) * (1 - f)) /\
  Inv cf src' /\ Inv cf new.
Proof. exact csf_sound. Qed.
Print Assumptions C12_sound.

(* the linear system the code solves, by unit *)
Theorem C12_system : forall mx my s c q rows, csf_system mx my s c q = Ok rows ->
  exists t b, top_of mx my s (cnum c) = Some t /\ bot_of mx my (cden c) = Some b /\
    rows = [([cval c * fst b - fst t; cval c * snd b - snd t], 0);
            (match bot_of mx my (qbase q) with Some r => [fst r; snd r] | None => [0; 0] end, qv q)].
Proof. exact csf_system_spec. Qed.
Print Assumptions C12_system.

(* a transfer by volume moves the same fraction of everything (aliquots keep intensive quantities) *)
Theorem C12_aliquot : forall cf src dst q s' d',
  qbase q = BL -> Inv cf src -> Inv cf dst -> transfer cf src dst q = Ok (s', d') ->
  exists r, 0 <= r /\ r <= 1 /\ r * (vol src * pmult (vol_pfx cf)) == qv q /\
    (forall u, total_in cf (cont d') u == total_in cf (cont dst) u + total_in cf (cont src) u * r) /\
    (forall k, get k (cont d') == get k (cont dst) + get k (cont src) * r) /\
    (forall k, get k (cont s') == get k (cont src) * (1 - r)).
Proof. exact transfer_by_volume. Qed.
Print Assumptions C12_aliquot.

(* container solvent: all three outputs satisfy the invariant (nothing negative, volumes consistent); conservation follows from
   C01 applied to the two transfers the result is built from *)
Theorem C12_container_solvent_inv : forall cf src solute t k q name s' k' c,
  Inv cf src -> Inv cf k -> create_solution_from_c cf src solute t k q name = Ok ((s', k'), c) -> Inv cf s' /\ Inv cf k' /\ Inv cf c.
Proof. exact create_solution_from_c_inv. Qed.
Print Assumptions C12_container_solvent_inv.

(* refusals: a solved amount of stock or of solvent that is negative (a target above the stock) is refused *)
Theorem C12_negative_solution_refused : forall mx my s c q rows x y,
  csf_system mx my s c q = Ok rows -> gauss 2 rows = Some [x; y] -> (x < 0 \/ y < 0) -> csf_solve mx my s c q = Err EValue.
Proof.
  intros mx my s c q rows x y Hs Hg Hneg. unfold csf_solve, bind. rewrite Hs, Hg.
  destruct Hneg as [Hx|Hy].
  - apply Qltb_lt in Hx. rewrite Hx. reflexivity.
  - apply Qltb_lt in Hy. rewrite Hy. rewrite orb_true_r. reflexivity.
Qed.
Print Assumptions C12_negative_solution_refused.

(* ---- the solvent is a CONTAINER (it may itself hold some of the solute): the new solution is an aliquot of the source plus an
   aliquot of the solvent container; requested total and concentration, conservation of every substance over the three outputs,
   uniform aliquots, invariants *)
Require Import CsfThm2.
Theorem C12_container_solvent_sound : forall cf src solute svt c q name src' svt' new,
  Inv cf src -> Inv cf svt -> wf_subst solute -> is_enzyme solute = false ->
  0 < total_in cf (cont src) (P0, BG) -> 0 < total_in cf (cont svt) (P0, BG) ->
  create_solution_from_c cf src solute c svt q name = Ok ((src', svt'), new) ->
  total_in cf (cont new) (P0, qbase q) == qv q /\
  conv_stored cf solute (get solute (cont new)) (P0, cnum c) == cval c * total_in cf (cont new) (P0, cden c) /\
  (forall k, get k (cont src') + get k (cont svt') + get k (cont new) == get k (cont src) + get k (cont svt)) /\
  (exists f, 0 <= f /\ f <= 1 /\ forall k, get k (cont src') == get k (cont src) * (1 - f)) /\
  (exists g, 0 <= g /\ g <= 1 /\ forall k, get k (cont svt') == get k (cont svt) * (1 - g)) /\
  Inv cf src' /\ Inv cf svt' /\ Inv cf new.
Proof. exact csf_c_sound. Qed.
Print Assumptions C12_container_solvent_sound.
