(* Instr.v -- the numeric content of instructions (C19): Unit.get_human_readable_unit and
   Unit.convert_from_storage_to_standard_format as functions on numbers, and the theorems that rescaling to a readable
   prefix never changes the physical amount. *)
Require Import Base Units UnitsThm Contents Container.

(* get_human_readable_unit(value, prefix+base): the new value and prefix (the base unit is kept) *)
Definition human_readable (v : Q) (p : prefix) : Q * prefix :=
  if Qeqb v 0 then (v, p)
  else let a := Qabs v * pmult p in
       if Qle_bool 1 a then (a, P0)
       else if Qle_bool 1 (a * 1000) then (a * 1000, Pm)
       else (a * 1000 * 1000, Pu).

(* the amount in base units that (value, prefix) denotes *)
Definition denotes (vp : Q * prefix) : Q := fst vp * pmult (snd vp).

Theorem human_readable_preserves v p : ~ v == 0 ->
  denotes (human_readable v p) == Qabs v * pmult p /\
  (1 <= fst (human_readable v p) \/ snd (human_readable v p) = Pu).
Proof.
  intros Hv. unfold human_readable, denotes. apply Qeqb_neq in Hv. rewrite Hv.
  destruct (Qle_bool 1 (Qabs v * pmult p)) eqn:E1; simpl.
  - apply Qle_bool_iff in E1. split; [change (pmult P0) with 1; ring | left; exact E1].
  - destruct (Qle_bool 1 (Qabs v * pmult p * 1000)) eqn:E2; simpl.
    + apply Qle_bool_iff in E2. split; [change (pmult Pm) with (1 # 1000); field | left; exact E2].
    + split; [change (pmult Pu) with (1 # 1000000); field | right; reflexivity].
Qed.
Theorem human_readable_zero p : human_readable 0 p = (0, p).
Proof. reflexivity. Qed.
(* the readable value is at least 1 whenever the amount is at least a millionth of the base unit, and never 1000 or more when the
   amount is below 1 base unit *)
Theorem human_readable_range v p : ~ v == 0 -> (1 # 1000000) <= Qabs v * pmult p -> Qabs v * pmult p < 1 ->
  1 <= fst (human_readable v p) /\ fst (human_readable v p) < 1000.
Proof.
  intros Hv Hlo Hhi. unfold human_readable. apply Qeqb_neq in Hv. rewrite Hv.
  destruct (Qle_bool 1 (Qabs v * pmult p)) eqn:E1; simpl.
  - apply Qle_bool_iff in E1. lra.
  - destruct (Qle_bool 1 (Qabs v * pmult p * 1000)) eqn:E2; simpl.
    + apply Qle_bool_iff in E2. lra.
    + assert (~ 1 <= Qabs v * pmult p * 1000) by (intro Hx; apply Qle_bool_iff in Hx; congruence). lra.
Qed.

(* convert_from_storage_to_standard_format on a substance: grams for solids, litres for liquids, activity units for enzymes *)
Definition standard_base (s : substance) : base := match knd s with Enzyme => BU | Solid => BG | Liquid => BL end.
Definition rescale (a : Q) : Q * prefix :=
  if Qle_bool 1 a then (a, P0) else if Qle_bool 1 (a * 1000) then (a * 1000, Pm) else (a * 1000 * 1000, Pu).
Definition standard_format (cf : cfg) (s : substance) (stored : Q) : Q * prefix * base :=
  let a := match knd s with
           | Enzyme => stored
           | Solid => stored * pmult (mol_pfx cf) * mw s
           | Liquid => stored * (pmult (mol_pfx cf) * mw s / dens s / 1000)
           end in
  (rnd (fst (rescale a)), snd (rescale a), standard_base s).
Definition standard_format_container (cf : cfg) (volume : Q) : Q * prefix :=
  let r := rescale (volume * pmult (vol_pfx cf)) in (rnd (fst r), snd r).

Lemma rescale_preserves a : fst (rescale a) * pmult (snd (rescale a)) == a.
Proof.
  unfold rescale. destruct (Qle_bool 1 a); simpl; [change (pmult P0) with 1; ring|].
  destruct (Qle_bool 1 (a * 1000)); simpl; [change (pmult Pm) with (1 # 1000); field | change (pmult Pu) with (1 # 1000000); field].
Qed.
(* the stated amount is the stored amount, measured in the substance's standard unit *)
Theorem standard_format_preserves cf s stored : wf_subst s ->
  let '(v, p, b) := standard_format cf s stored in v * pmult p == conv_stored cf s stored (P0, b).
Proof.
  intros (Hm & Hd & Ha). unfold standard_format, standard_base. rewrite rnd_eq, rescale_preserves.
  unfold conv_stored, stored_unit, mol_unit, conv, conv_base, is_enzyme. destruct s as [i k m d ac]; simpl in *.
  destruct k; simpl; change (pmult P0) with 1; field; lra.
Qed.
Theorem standard_format_container_preserves cf v :
  fst (standard_format_container cf v) * pmult (snd (standard_format_container cf v)) == v * pmult (vol_pfx cf).
Proof. unfold standard_format_container. simpl. rewrite rnd_eq. apply rescale_preserves. Qed.

Definition prefix_code (p : prefix) : Z :=
  match p with Pn => 1 | Pu => 2 | Pmu => 3 | Pm => 4 | Pc => 5 | Pd => 6 | P0 => 7 | Pda => 8 | Pk => 9 | PM => 10 end%Z.
Definition showHR (r : Q * prefix) : list Z := prefix_code (snd r) :: showQ (fst r).
Definition showSF (r : Q * prefix * base) : list Z := prefix_code (snd (fst r)) :: showQ (fst (fst r)).
