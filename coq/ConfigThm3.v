(* ConfigThm3.v -- C18 for recipes and the tracking queries: baking the same recipe under two storage configurations gives related
   tables and related per-step snapshots (bake_steps_R), and get_substance_used / get_container_flows / get_amount_remaining
   return the same answers in user units.  Steps that build a solution from a container stay with the correspondence. *)
Require Import Base Units UnitsThm Contents Container ContainerThm ContainerThm2 Plate PlateThm Dilute Solve Prog Recipe RecipeThm ConfigThm ConfigThm2.
Require Import Lia.

Section TwoConfigs.
Variables cf cf' : cfg.
Notation Rk := (R cf cf').
Notation Ro := (Robj cf cf').
Notation RE := (Renv cf cf').

Lemma rget_R n : forall e e', RE e e' ->
  match rget n e, rget n e' with Some o, Some o' => Ro o o' | None, None => True | _, _ => False end.
Proof.
  induction 1 as [|[k o] [k' o'] e e' [Hk Ho] _ IH]; simpl; [exact I|]. simpl in Hk. subst k'.
  destruct (Nat.eqb k n); [exact Ho | exact IH].
Qed.
Lemma rset_R n o o' : Ro o o' -> forall e e', RE e e' -> RE (rset n o e) (rset n o' e').
Proof.
  intros Ho. induction 1 as [|[k x] [k' x'] e e' [Hk Hx] He IH]; simpl.
  - constructor; [split; [reflexivity | exact Ho] | constructor].
  - simpl in Hk. subst k'. destruct (Nat.eqb k n).
    + constructor; [split; [reflexivity | exact Ho] | exact He].
    + constructor; [split; [reflexivity | exact Hx] | exact IH].
Qed.
Lemma getc_R e e' n : RE e e' -> Rres Rk (getc e n) (getc e' n).
Proof.
  intros H. unfold getc. pose proof (rget_R n e e' H) as L.
  destruct (rget n e) as [[c|p]|]; destruct (rget n e') as [[c'|p']|]; simpl in *; try contradiction; auto.
Qed.
Lemma getp_R e e' n : RE e e' -> Rres (RPl cf cf') (getp e n) (getp e' n).
Proof.
  intros H. unfold getp. pose proof (rget_R n e e' H) as L.
  destruct (rget n e) as [[c|p]|]; destruct (rget n e') as [[c'|p']|]; simpl in *; try contradiction; auto.
Qed.
Lemma geto_R e e' n : RE e e' -> Rres Ro (geto e n) (geto e' n).
Proof.
  intros H. unfold geto. pose proof (rget_R n e e' H) as L.
  destruct (rget n e); destruct (rget n e'); simpl in *; try contradiction; auto.
Qed.

(* keys *)
Lemma wells_keys ws ws' : Forall2 Rk ws ws' -> map (fun w => keys (cont w)) ws = map (fun w => keys (cont w)) ws'.
Proof. induction 1 as [|w w' ws ws' H _ IH]; simpl; [reflexivity|]. rewrite (Rc_keys cf cf' _ _ (R_cont _ _ _ _ H)), IH. reflexivity. Qed.
Lemma region_keys_R p p' r : RPl cf cf' p p' -> region_keys p r = region_keys p' r.
Proof.
  intros HP. unfold region_keys. rewrite <- (RP_cols _ _ _ _ HP). induction (region_idx (ncols p) r) as [|i t IH]; simpl; [reflexivity|].
  rewrite IH. f_equal. pose proof (Forall2_nth_error _ _ _ i (RP_wells _ _ _ _ HP)) as Hi.
  destruct (nth_error (wells p) i); destruct (nth_error (wells p') i); try contradiction; [|reflexivity].
  apply (Rc_keys cf cf'). apply (R_cont _ _ _ _ Hi).
Qed.

(* trash *)
Lemma trash_inner_R a a' : Rk a a' -> forall cb cb', Rc cf cf' cb cb' -> forall t t', Rc cf cf' t t' ->
  Rc cf cf' (fold_left (fun t0 sa => if has (fst sa) (cont a) then t0 else upd (fst sa) (get (fst sa) t0 + snd sa) t0) cb t)
            (fold_left (fun t0 sa => if has (fst sa) (cont a') then t0 else upd (fst sa) (get (fst sa) t0 + snd sa) t0) cb' t').
Proof.
  intros Ha. induction 1 as [|[k v] [k' v'] cb cb' [Hk Hv] _ IH]; intros t t' Ht; simpl; [exact Ht|]. simpl in Hk, Hv. subst k'.
  apply IH. rewrite <- (has_R cf cf' _ _ k (R_cont _ _ _ _ Ha)). destruct (has k (cont a)); [exact Ht|].
  apply Rc_upd; [exact Ht|]. pose proof (Rc_get cf cf' _ _ Ht k) as Hg.
  setoid_replace ((get k t + v) * msc cf k) with (get k t * msc cf k + v * msc cf k) by ring. rewrite Hg, Hv. ring.
Qed.
Lemma trash_of_R bs bs' as_ as_' : Forall2 Rk bs bs' -> Forall2 Rk as_ as_' -> Rc cf cf' (trash_of bs as_) (trash_of bs' as_').
Proof.
  intros Hb Ha. unfold trash_of.
  assert (G : forall t t', Rc cf cf' t t' ->
     Rc cf cf' (fold_left (fun t p => fold_left (fun t' sa => if has (fst sa) (cont (snd p)) then t' else upd (fst sa) (get (fst sa) t' + snd sa) t')
                                                  (cont (fst p)) t) (combine bs as_) t)
               (fold_left (fun t p => fold_left (fun t' sa => if has (fst sa) (cont (snd p)) then t' else upd (fst sa) (get (fst sa) t' + snd sa) t')
                                                  (cont (fst p)) t) (combine bs' as_') t')).
  { revert as_ as_' Ha. induction Hb as [|b b' bs bs' Hbb _ IH]; intros as_ as_' Ha t t' Ht; simpl; [exact Ht|].
    destruct Ha as [|a a' as_ as_' Haa Ha]; simpl; [exact Ht|].
    apply IH; [exact Ha|]. apply trash_inner_R; [exact Haa | apply (R_cont _ _ _ _ Hbb) | exact Ht]. }
  apply G. constructor.
Qed.

(* related snapshots *)
Definition Rfrm (f f' : option (nat * obj * obj)) : Prop :=
  match f, f' with
  | Some (n, a, b), Some (n', a', b') => n = n' /\ Ro a a' /\ Ro b b'
  | None, None => True
  | _, _ => False
  end.
Record Rsnap (k k' : snap) : Prop := {
  RS_objs : s_objs k = s_objs k'; RS_to : s_to k = s_to k';
  RS_to0 : Ro (s_to0 k) (s_to0 k'); RS_to1 : Ro (s_to1 k) (s_to1 k');
  RS_frm : Rfrm (s_frm k) (s_frm k'); RS_trash : Rc cf cf' (s_trash k) (s_trash k'); RS_subs : s_subs k = s_subs k'
}.
Definition Rstep (x y : renv * snap) : Prop := RE (fst x) (fst y) /\ Rsnap (snd x) (snd y).

Definition plain_rstep (st : rstep) : Prop :=
  match st with SSolutionC _ _ _ _ | SSolutionFrom _ _ _ _ _ _ => False | _ => True end.

Lemma Rc_nil : Rc cf cf' [] []. Proof. constructor. Qed.
Lemma Rk_keys c c' : Rk c c' -> keys (cont c) = keys (cont c').
Proof. intros H. apply (Rc_keys cf cf'). apply (R_cont _ _ _ _ H). Qed.

Theorem bake_step_R d13 e e' st : RE e e' -> plain_rstep st -> Rres Rstep (bake_step cf d13 e st) (bake_step cf' d13 e' st).
Proof.
  intros HE Hp. destruct st; simpl in Hp; try contradiction; simpl; unfold bind.
  - pose proof (geto_R e e' name HE) as H0. destruct (geto e name) as [o0|]; destruct (geto e' name) as [o0'|]; simpl in H0; try contradiction; [|exact H0].
    pose proof (make_container_R cf cf' name mx init) as H.
    destruct (make_container cf name mx init) as [c|]; destruct (make_container cf' name mx init) as [c'|]; simpl in H; try contradiction; [|exact H].
    split; simpl; [apply rset_R; assumption|]. constructor; simpl; auto; [apply Rc_nil | apply Rk_keys; exact H].
  - pose proof (geto_R e e' name HE) as H0. destruct (geto e name) as [o0|]; destruct (geto e' name) as [o0'|]; simpl in H0; try contradiction; [|exact H0].
    pose proof (create_solution_R cf cf' name solutes solvent m) as H.
    destruct (create_solution cf name solutes solvent m) as [c|]; destruct (create_solution cf' name solutes solvent m) as [c'|]; simpl in H; try contradiction; [|exact H].
    split; simpl; [apply rset_R; assumption|]. constructor; simpl; auto; [apply Rc_nil | apply Rk_keys; exact H].
  - destruct src as [a|a ra], dst as [b|b rb].
    + destruct (Nat.eqb a b); [reflexivity|].
      pose proof (getc_R e e' a HE) as H1. destruct (getc e a) as [ca|]; destruct (getc e' a) as [ca'|]; simpl in H1; try contradiction; [|exact H1].
      pose proof (getc_R e e' b HE) as H2. destruct (getc e b) as [cb|]; destruct (getc e' b) as [cb'|]; simpl in H2; try contradiction; [|exact H2].
      pose proof (transfer_R cf cf' _ _ _ _ q H1 H2) as H.
      destruct (transfer cf ca cb q) as [[x y]|]; destruct (transfer cf' ca' cb' q) as [[x' y']|]; simpl in H; try contradiction; [|exact H].
      destruct H as [Hx Hy]. split; simpl; [apply rset_R; [exact Hy | apply rset_R; [exact Hx | exact HE]]|].
      constructor; simpl; auto; [apply Rc_nil | apply Rk_keys; exact H1].
    + pose proof (getc_R e e' a HE) as H1. destruct (getc e a) as [ca|]; destruct (getc e' a) as [ca'|]; simpl in H1; try contradiction; [|exact H1].
      pose proof (getp_R e e' b HE) as H2. destruct (getp e b) as [pb|]; destruct (getp e' b) as [pb'|]; simpl in H2; try contradiction; [|exact H2].
      pose proof (c_to_p_R cf cf' _ _ _ _ rb q H1 H2) as H.
      destruct (c_to_p cf ca pb rb q) as [[x y]|]; destruct (c_to_p cf' ca' pb' rb q) as [[x' y']|]; simpl in H; try contradiction; [|exact H].
      destruct H as [Hx Hy]. split; simpl; [apply rset_R; [exact Hy | apply rset_R; [exact Hx | exact HE]]|].
      constructor; simpl; auto; [apply Rc_nil | apply Rk_keys; exact H1].
    + pose proof (getp_R e e' a HE) as H1. destruct (getp e a) as [pa|]; destruct (getp e' a) as [pa'|]; simpl in H1; try contradiction; [|exact H1].
      pose proof (getc_R e e' b HE) as H2. destruct (getc e b) as [cb|]; destruct (getc e' b) as [cb'|]; simpl in H2; try contradiction; [|exact H2].
      pose proof (p_to_c_R cf cf' _ _ ra _ _ q H1 H2) as H.
      destruct (p_to_c cf pa ra cb q) as [[x y]|]; destruct (p_to_c cf' pa' ra cb' q) as [[x' y']|]; simpl in H; try contradiction; [|exact H].
      destruct H as [Hx Hy]. split; simpl; [apply rset_R; [exact Hy | apply rset_R; [exact Hx | exact HE]]|].
      constructor; simpl; auto; [apply Rc_nil | apply region_keys_R; exact H1].
    + destruct (Nat.eqb a b).
      * pose proof (getp_R e e' a HE) as H1. destruct (getp e a) as [pa|]; destruct (getp e' a) as [pa'|]; simpl in H1; try contradiction; [|exact H1].
        pose proof (p_to_p_same_R cf cf' _ _ ra rb q H1) as H.
        destruct (p_to_p_same cf pa ra rb q) as [x|]; destruct (p_to_p_same cf' pa' ra rb q) as [x'|]; simpl in H; try contradiction; [|exact H].
        split; simpl; [apply rset_R; assumption|]. constructor; simpl; auto; [apply Rc_nil | apply region_keys_R; exact H1].
      * pose proof (getp_R e e' a HE) as H1. destruct (getp e a) as [pa|]; destruct (getp e' a) as [pa'|]; simpl in H1; try contradiction; [|exact H1].
        pose proof (getp_R e e' b HE) as H2. destruct (getp e b) as [pb|]; destruct (getp e' b) as [pb'|]; simpl in H2; try contradiction; [|exact H2].
        pose proof (p_to_p_R cf cf' _ _ ra _ _ rb q H1 H2) as H.
        destruct (p_to_p cf pa ra pb rb q) as [[x y]|]; destruct (p_to_p cf' pa' ra pb' rb q) as [[x' y']|]; simpl in H; try contradiction; [|exact H].
        destruct H as [Hx Hy]. split; simpl; [apply rset_R; [exact Hy | apply rset_R; [exact Hx | exact HE]]|].
        constructor; simpl; auto; [apply Rc_nil | apply region_keys_R; exact H1].
  - destruct t as [n|n r].
    + pose proof (getc_R e e' n HE) as H1. destruct (getc e n) as [c|]; destruct (getc e' n) as [c'|]; simpl in H1; try contradiction; [|exact H1].
      pose proof (remove_R cf cf' c c' w H1) as Hr.
      assert (Ht : Rc cf cf' (trash_of [c] [remove cf c w]) (trash_of [c'] [remove cf' c' w])).
      { apply trash_of_R; constructor; auto. }
      split; simpl; [apply rset_R; assumption|]. constructor; simpl; auto. apply (Rc_keys cf cf'). exact Ht.
    + pose proof (getp_R e e' n HE) as H1. destruct (getp e n) as [p|]; destruct (getp e' n) as [p'|]; simpl in H1; try contradiction; [|exact H1].
      pose proof (premove_R cf cf' _ _ r w H1) as H.
      destruct (premove cf p r w) as [x|]; destruct (premove cf' p' r w) as [x'|]; simpl in H; try contradiction; [|exact H].
      assert (Ht : Rc cf cf' (trash_of (wells p) (wells x)) (trash_of (wells p') (wells x'))).
      { apply trash_of_R; [apply (RP_wells _ _ _ _ H1) | apply (RP_wells _ _ _ _ H)]. }
      split; simpl; [apply rset_R; assumption|]. constructor; simpl; auto. apply (Rc_keys cf cf'). exact Ht.
  - pose proof (getc_R e e' name HE) as H1. destruct (getc e name) as [k|]; destruct (getc e' name) as [k'|]; simpl in H1; try contradiction; [|exact H1].
    pose proof (dilute_R cf cf' _ _ solute c solvent H1) as H.
    destruct (dilute cf k solute c solvent) as [x|]; destruct (dilute cf' k' solute c solvent) as [x'|]; simpl in H; try contradiction; [|exact H].
    split; simpl; [apply rset_R; assumption|]. constructor; simpl; auto. apply Rc_nil.
  - destruct t as [n|n r].
    + pose proof (getc_R e e' n HE) as H1. destruct (getc e n) as [c|]; destruct (getc e' n) as [c'|]; simpl in H1; try contradiction; [|exact H1].
      pose proof (fill_to_R cf cf' _ _ solvent q H1) as H.
      destruct (fill_to cf c solvent q) as [x|]; destruct (fill_to cf' c' solvent q) as [x'|]; simpl in H; try contradiction; [|exact H].
      split; simpl; [apply rset_R; assumption|]. constructor; simpl; auto. apply Rc_nil.
    + pose proof (getp_R e e' n HE) as H1. destruct (getp e n) as [p|]; destruct (getp e' n) as [p'|]; simpl in H1; try contradiction; [|exact H1].
      assert (H : Rres (RPl cf cf') (if d13 then pfill_to cf p (whole p) solvent q else pfill_to cf p r solvent q)
                                     (if d13 then pfill_to cf' p' (whole p') solvent q else pfill_to cf' p' r solvent q)).
      { destruct d13; [|apply pfill_R; exact H1]. unfold whole. rewrite <- (RP_rows _ _ _ _ H1), <- (RP_cols _ _ _ _ H1). apply pfill_R; exact H1. }
      destruct (if d13 then pfill_to cf p (whole p) solvent q else pfill_to cf p r solvent q) as [x|];
      destruct (if d13 then pfill_to cf' p' (whole p') solvent q else pfill_to cf' p' r solvent q) as [x'|]; simpl in H; try contradiction; [|exact H].
      split; simpl; [apply rset_R; assumption|]. constructor; simpl; auto. apply Rc_nil.
Qed.
End TwoConfigs.

Section Queries.
Variables cf cf' : cfg.
Notation RE := (Renv cf cf').
Notation Ro := (Robj cf cf').

Theorem bake_steps_R d13 steps : forall e e', RE e e' -> Forall plain_rstep steps ->
  Rres (fun x y => RE (fst x) (fst y) /\ Forall2 (Rsnap cf cf') (snd x) (snd y)) (bake_steps cf d13 e steps) (bake_steps cf' d13 e' steps).
Proof.
  induction steps as [|st t IH]; intros e e' HE Hp; simpl; [split; [exact HE | constructor]|].
  inversion Hp; subst. unfold bind. pose proof (bake_step_R cf cf' d13 e e' st HE H1) as Hs.
  destruct (bake_step cf d13 e st) as [[e1 k]|]; destruct (bake_step cf' d13 e' st) as [[e1' k']|]; simpl in Hs; try contradiction; [|exact Hs].
  destruct Hs as [HE1 Hk]. simpl in *. pose proof (IH e1 e1' HE1 H2) as Hr.
  destruct (bake_steps cf d13 e1 t) as [[e2 tr]|]; destruct (bake_steps cf' d13 e1' t) as [[e2' tr']|]; simpl in Hr; try contradiction; [|exact Hr].
  destruct Hr as [HE2 Htr]. simpl. split; [exact HE2 | constructor; assumption].
Qed.
Lemma declare_steps_R steps : forall e e', RE e e' -> RE (declare_steps e steps) (declare_steps e' steps).
Proof.
  unfold declare_steps. induction steps as [|st t IH]; intros e e' HE; simpl; [exact HE|].
  apply IH. destruct (step_declares st) as [n|]; [|exact HE].
  apply Forall2_app; [exact HE|]. constructor; [|constructor]. split; [reflexivity|]. simpl.
  constructor; simpl; auto; [constructor | ring].
Qed.
(* Recipe.bake under the two configurations: the same decision, related results and snapshots *)
Theorem bake_R objs objs' steps : RE objs objs' -> Forall plain_rstep steps ->
  Rres (fun x y => RE (fst x) (fst y) /\ Forall2 (Rsnap cf cf') (snd x) (snd y)) (bake cf objs steps) (bake cf' objs' steps).
Proof. intros HE Hp. unfold bake. apply bake_steps_R; [apply declare_steps_R; exact HE | exact Hp]. Qed.

(* ---- get_substance_used ---- *)
Lemma amount_in_obj_R s o o' : Ro o o' -> amount_in_obj s o * msc cf s == amount_in_obj s o' * msc cf' s.
Proof.
  unfold amount_in_obj. destruct o as [c|p], o' as [c'|p']; simpl; try contradiction.
  - intros H. pose proof (Rc_get cf cf' _ _ (R_cont _ _ _ _ H) s). lra.
  - intros H. induction (RP_wells _ _ _ _ H) as [|w w' ws ws' Hw _ IH]; simpl; [ring|].
    pose proof (Rc_get cf cf' _ _ (R_cont _ _ _ _ Hw) s). lra.
Qed.
Lemma step_delta_R s dests k k' : Rsnap cf cf' k k' -> step_delta s dests k * msc cf s == step_delta s dests k' * msc cf' s.
Proof.
  intros [Ho Ht H0 H1 Hf Htr Hs]. unfold step_delta. rewrite <- Hs, <- Ht.
  destruct (negb (has_subst s (s_subs k))); [ring|].
  pose proof (amount_in_obj_R s _ _ H0) as A0. pose proof (amount_in_obj_R s _ _ H1) as A1.
  pose proof (Rc_get cf cf' _ _ Htr s) as T.
  assert (F : (match s_frm k with Some (n, o0, o1) => if in_list n dests then amount_in_obj s o1 - amount_in_obj s o0 else 0 | None => 0 end) * msc cf s ==
              (match s_frm k' with Some (n, o0, o1) => if in_list n dests then amount_in_obj s o1 - amount_in_obj s o0 else 0 | None => 0 end) * msc cf' s).
  { unfold Rfrm in Hf. destruct (s_frm k) as [[[n a] b]|]; destruct (s_frm k') as [[[n' a'] b']|]; try contradiction; [|ring].
    destruct Hf as (-> & Ha & Hb). pose proof (amount_in_obj_R s _ _ Ha). pose proof (amount_in_obj_R s _ _ Hb).
    destruct (in_list n' dests); lra. }
  destruct (in_list (s_to k) dests); lra.
Qed.
Lemma used_raw_R s dests tr tr' : Forall2 (Rsnap cf cf') tr tr' -> used_raw s dests tr * msc cf s == used_raw s dests tr' * msc cf' s.
Proof.
  unfold used_raw. induction 1 as [|k k' tr tr' Hk _ IH]; simpl; [ring|]. pose proof (step_delta_R s dests k k' Hk). lra.
Qed.
(* the answer of get_substance_used -- value or ValueError -- does not depend on the configuration *)
Theorem substance_used_R s dests tr tr' u : Forall2 (Rsnap cf cf') tr tr' ->
  Rres Qeq (substance_used cf s dests tr u) (substance_used cf' s dests tr' u).
Proof.
  intros H. unfold substance_used. cbv zeta. pose proof (used_raw_R s dests tr tr' H) as E.
  rewrite (scaled_Qltb _ 0 _ 0 _ _ (msc_pos cf s) (msc_pos cf' s) E ltac:(ring)).
  destruct (Qltb (used_raw s dests tr') 0); [reflexivity|]. simpl. apply conv_stored_R. exact E.
Qed.

(* ---- get_container_flows / get_amount_remaining: totals of related objects coincide in every user unit ---- *)
Lemma totals_R u o o' : Ro o o' -> Forall2 Qeq (totals cf u o) (totals cf' u o').
Proof.
  unfold totals. destruct o as [c|p], o' as [c'|p']; simpl; try contradiction.
  - intros H. constructor; [apply total_in_R; apply (R_cont _ _ _ _ H) | constructor].
  - intros H. induction (RP_wells _ _ _ _ H) as [|w w' ws ws' Hw _ IH]; simpl; constructor; [apply total_in_R; apply (R_cont _ _ _ _ Hw) | exact IH].
Qed.
Lemma vsub_R a a' b b' : Forall2 Qeq a a' -> Forall2 Qeq b b' -> Forall2 Qeq (vsub a b) (vsub a' b').
Proof.
  unfold vsub. intros Ha. revert b b'. induction Ha as [|x x' a a' Hx _ IH]; intros b b' Hb; simpl; [constructor|].
  destruct Hb as [|y y' b b' Hy Hb]; simpl; constructor; [simpl; rewrite Hx, Hy; reflexivity | apply IH; exact Hb].
Qed.
Lemma vadd_R a a' b b' : Forall2 Qeq a a' -> Forall2 Qeq b b' -> Forall2 Qeq (vadd a b) (vadd a' b').
Proof.
  unfold vadd. intros Ha. revert b b'. induction Ha as [|x x' a a' Hx _ IH]; intros b b' Hb; simpl; [constructor|].
  destruct Hb as [|y y' b b' Hy Hb]; simpl; constructor; [simpl; rewrite Hx, Hy; reflexivity | apply IH; exact Hb].
Qed.
Lemma Qpos_proper x y : x == y -> Qpos x == Qpos y.
Proof. intros H. unfold Qpos. rewrite (Qltb_proper x 0 y 0 H ltac:(reflexivity)). destruct (Qltb y 0); [reflexivity | exact H]. Qed.
Lemma map_Qpos_R l l' : Forall2 Qeq l l' -> Forall2 Qeq (map Qpos l) (map Qpos l').
Proof. induction 1; simpl; constructor; [apply Qpos_proper; assumption | assumption]. Qed.
Lemma map_Qneg_R l l' : Forall2 Qeq l l' -> Forall2 Qeq (map (fun x => Qpos (- x)) l) (map (fun x => Qpos (- x)) l').
Proof. induction 1 as [|x y l l' H _ IH]; simpl; constructor; [apply Qpos_proper; rewrite H; reflexivity | exact IH]. Qed.

Definition Ropt (a b : option (list Q)) : Prop :=
  match a, b with Some x, Some y => Forall2 Qeq x y | None, None => True | _, _ => False end.
Lemma step_change_R u n k k' : Rsnap cf cf' k k' -> Ropt (step_change cf u n k) (step_change cf' u n k').
Proof.
  intros [Ho Ht H0 H1 Hf Htr Hs]. unfold step_change. rewrite <- Ho, <- Ht.
  destruct (negb (in_list n (s_objs k))); [exact I|].
  destruct (Nat.eqb (s_to k) n); [simpl; apply vsub_R; apply totals_R; assumption|].
  unfold Rfrm in Hf. destruct (s_frm k) as [[[m a] b]|]; destruct (s_frm k') as [[[m' a'] b']|]; try contradiction; [|exact I].
  destruct Hf as (-> & Ha & Hb). destruct (Nat.eqb m' n); [simpl; apply vsub_R; apply totals_R; assumption | exact I].
Qed.
Definition Racc (a b : list Q * list Q) : Prop := Forall2 Qeq (fst a) (fst b) /\ Forall2 Qeq (snd a) (snd b).
Lemma flows_fold_R u n : forall tr tr', Forall2 (Rsnap cf cf') tr tr' -> forall acc acc', Racc acc acc' ->
  Racc (fold_left (fun acc k => match step_change cf u n k with
                                | Some ch => (vadd (fst acc) (map Qpos ch), vadd (snd acc) (map (fun x => Qpos (- x)) ch))
                                | None => acc end) tr acc)
       (fold_left (fun acc k => match step_change cf' u n k with
                                | Some ch => (vadd (fst acc) (map Qpos ch), vadd (snd acc) (map (fun x => Qpos (- x)) ch))
                                | None => acc end) tr' acc').
Proof.
  induction 1 as [|k k' tr tr' Hk _ IH]; intros acc acc' Ha; simpl; [exact Ha|].
  apply IH. pose proof (step_change_R u n k k' Hk) as Hc.
  destruct (step_change cf u n k) as [ch|]; destruct (step_change cf' u n k') as [ch'|]; simpl in Hc; try contradiction; [|exact Ha].
  destruct Ha as [A B]. split; simpl; apply vadd_R; auto; [apply map_Qpos_R | apply map_Qneg_R]; exact Hc.
Qed.
Lemma repeat_Qeq w : Forall2 Qeq (repeat 0 w) (repeat 0 w).
Proof. induction w; simpl; constructor; [reflexivity | assumption]. Qed.
(* get_container_flows: the same per-well inflows and outflows in every user unit *)
Theorem flows_R u n w tr tr' : Forall2 (Rsnap cf cf') tr tr' -> Racc (flows cf u n w tr) (flows cf' u n w tr').
Proof. intros H. unfold flows. apply flows_fold_R; [exact H|]. split; apply repeat_Qeq. Qed.

Lemma snap_state_R u n after k k' : Rsnap cf cf' k k' -> Ropt (snap_state cf u n after k) (snap_state cf' u n after k').
Proof.
  intros [Ho Ht H0 H1 Hf Htr Hs]. unfold snap_state. rewrite <- Ho, <- Ht.
  destruct (negb (in_list n (s_objs k))); [exact I|].
  destruct (Nat.eqb (s_to k) n); [simpl; destruct after; apply totals_R; assumption|].
  unfold Rfrm in Hf. destruct (s_frm k) as [[[m a] b]|]; destruct (s_frm k') as [[[m' a'] b']|]; try contradiction; [|simpl; constructor].
  destruct Hf as (-> & Ha & Hb). simpl. destruct after; apply totals_R; assumption.
Qed.
Lemma first_some_R (f f' : snap -> option (list Q)) : (forall k k', Rsnap cf cf' k k' -> Ropt (f k) (f' k')) ->
  forall tr tr', Forall2 (Rsnap cf cf') tr tr' -> Ropt (first_some f tr) (first_some f' tr').
Proof.
  intros Hf. induction 1 as [|k k' tr tr' Hk _ IH]; simpl; [exact I|].
  pose proof (Hf k k' Hk) as H. destruct (f k); destruct (f' k'); simpl in H; try contradiction; [exact H | exact IH].
Qed.
Lemma Forall2_rev {A} (P : A -> A -> Prop) l l' : Forall2 P l l' -> Forall2 P (rev l) (rev l').
Proof. induction 1; simpl; [constructor|]. apply Forall2_app; [assumption | constructor; [assumption | constructor]]. Qed.
(* get_amount_remaining *)
Theorem remaining_R u n after tr tr' : Forall2 (Rsnap cf cf') tr tr' -> Ropt (remaining cf u n after tr) (remaining cf' u n after tr').
Proof.
  intros H. unfold remaining. apply first_some_R; [intros k k' Hk; apply snap_state_R; exact Hk|].
  destruct after; [apply Forall2_rev; exact H | exact H].
Qed.
(* timeframes are slices of the trace *)
Lemma slice_of_R (tr tr' : list snap) st : Forall2 (Rsnap cf cf') tr tr' -> Forall2 (Rsnap cf cf') (slice_of tr st) (slice_of tr' st).
Proof.
  intros H. unfold slice_of. generalize (snd st - fst st)%nat as m. generalize (fst st) as k.
  intros k. revert tr tr' H. induction k as [|k IH]; intros tr tr' H m; simpl.
  - revert m. induction H as [|x y tr tr' Hxy _ IH2]; intros [|m]; simpl; constructor; auto.
  - destruct H; simpl; [destruct m; constructor | apply IH; assumption].
Qed.
End Queries.
