(* Units.v -- hand-written model of pyplate.Unit: prefix table, convert_from,
   convert_to_storage / convert_from_storage, and the chemistry specification
   [factor] the conversion table is proved against (written from molar mass,
   density and specific activity, not from the code). *)
Require Import Base.
From Coq Require Import String.

Inductive kind := Solid | Liquid | Enzyme.
Record substance := { sid : nat; knd : kind; mw : Q; dens : Q; act : Q }.
Definition is_enzyme (s : substance) : bool := match knd s with Enzyme => true | _ => false end.
Definition is_liquid (s : substance) : bool := match knd s with Liquid => true | _ => false end.
Definition is_solid (s : substance) : bool := match knd s with Solid => true | _ => false end.
Definition kind_code (k : kind) : Z := match k with Solid => 1 | Liquid => 2 | Enzyme => 3 end%Z.

(* positivity of the physical parameters: guaranteed by Substance.solid/liquid/enzyme *)
Definition wf_subst (s : substance) : Prop := 0 < mw s /\ 0 < dens s /\ 0 < act s.

Inductive base := BU | BL | BG | BMol.
Definition base_eqb (a b : base) : bool :=
  match a, b with BU, BU | BL, BL | BG, BG | BMol, BMol => true | _, _ => false end.

Inductive prefix := Pn | Pu | Pmu | Pm | Pc | Pd | P0 | Pda | Pk | PM.
Definition all_prefixes := [Pn; Pu; Pmu; Pm; Pc; Pd; P0; Pda; Pk; PM].
Definition pmult (p : prefix) : Q :=
  match p with
  | Pn => 1 # 1000000000 | Pu => 1 # 1000000 | Pmu => 1 # 1000000 | Pm => 1 # 1000
  | Pc => 1 # 100 | Pd => 1 # 10 | P0 => 1 | Pda => 10 | Pk => 1000 | PM => 1000000
  end.
Definition pname (p : prefix) : string :=
  match p with
  | Pn => "n" | Pu => "u" | Pmu => "µ" | Pm => "m" | Pc => "c" | Pd => "d" | P0 => "" | Pda => "da" | Pk => "k" | PM => "M"
  end%string.
Definition bname (b : base) : string := match b with BU => "U" | BL => "L" | BG => "g" | BMol => "mol" end%string.
Lemma pmult_pos p : 0 < pmult p.
Proof. destruct p; reflexivity. Qed.
Lemma pmult_nz p : ~ pmult p == 0.
Proof. pose proof (pmult_pos p). lra. Qed.

Definition unit_ := (prefix * base)%type.

(* convert_from on base units, before the division by the target prefix.
   None = the call raises ValueError (activity units of a non-enzyme). *)
Definition conv_base (s : substance) (q : Q) (fb tb : base) : option Q :=
  if base_eqb fb BU && negb (is_enzyme s) then None else
  Some
  match tb with
  | BU => if negb (is_enzyme s) then 0 else
          match fb with BMol => 0 | BL => q * 1000 * dens s | BG => q * act s | BU => q end
  | BL => match fb with
          | BL => q
          | BMol => if is_enzyme s then 0 else q * mw s / dens s / 1000
          | BG => if is_enzyme s then q * act s / dens s / 1000 else q / dens s / 1000
          | BU => if negb (is_enzyme s) then 0 else q / dens s / 1000
          end
  | BMol => if is_enzyme s then 0 else
          match fb with BU => 0 | BL => q * 1000 * dens s / mw s | BMol => q | BG => q / mw s end
  | BG => match fb with
          | BU => if negb (is_enzyme s) then 0 else q / act s
          | BL => if is_enzyme s then q * 1000 * dens s / act s else q * 1000 * dens s
          | BMol => if is_enzyme s then 0 else q * mw s
          | BG => q
          end
  end.

Definition conv (s : substance) (q : Q) (fu tu : unit_) : option Q :=
  match conv_base s (q * pmult (fst fu)) (snd fu) (snd tu) with
  | Some r => Some (r / pmult (fst tu))
  | None => None
  end.

(* ---- specification: grams per one unit of each base, from chemistry ---- *)
Definition gper (s : substance) (b : base) : option Q :=
  if is_enzyme s then
    match b with BG => Some 1 | BU => Some (1 / act s) | BL => Some (1000 * dens s / act s) | BMol => None end
  else
    match b with BG => Some 1 | BMol => Some (mw s) | BL => Some (1000 * dens s) | BU => None end.

(* factor s a b = how many b-units one a-unit is; None where the quantity does not exist *)
Definition factor (s : substance) (a b : base) : option Q :=
  match gper s a, gper s b with Some x, Some y => Some (x / y) | _, _ => None end.

(* ---- storage configuration ---- *)
Record cfg := { mol_pfx : prefix; vol_pfx : prefix }.
Definition default_cfg := {| mol_pfx := Pu; vol_pfx := Pu |}.
Definition mol_unit (c : cfg) : unit_ := (mol_pfx c, BMol).
Definition vol_unit (c : cfg) : unit_ := (vol_pfx c, BL).
(* the unit a substance is stored in *)
Definition stored_unit (c : cfg) (s : substance) : unit_ := if is_enzyme s then (P0, BU) else mol_unit c.

(* convert_to_storage(value, unit) for unit = volume or moles (same base as storage) *)
Definition to_storage_vol (c : cfg) (v : Q) (p : prefix) : Q := rnd (v * pmult p / pmult (vol_pfx c)).
Definition to_storage_mol (c : cfg) (v : Q) (p : prefix) : Q := rnd (v * pmult p / pmult (mol_pfx c)).
Definition from_storage_vol (c : cfg) (v : Q) (p : prefix) : Q := rnd (v * pmult (vol_pfx c) / pmult p).
Definition from_storage_mol (c : cfg) (v : Q) (p : prefix) : Q := rnd (v * pmult (mol_pfx c) / pmult p).

(* total functions used by the container model: conversion of a stored amount;
   stored amounts of non-enzymes are never in activity units so the reject case
   cannot arise (proved: conv_stored_some). *)
Definition conv_stored (c : cfg) (s : substance) (a : Q) (tu : unit_) : Q :=
  match conv s a (stored_unit c s) tu with Some r => r | None => 0 end.

Definition showKindOpt (o : option Q) : list Z := match o with None => [0%Z] | Some q => 1%Z :: showQ q end.
