(* Array observers of a plate (Plate.get_volumes / PlateSlicer.get_volumes / Plate.get_volume), C10.
   The code maps `elem.get_volume(unit)` over the wells when no substance is named, and sums
   `convert_from(subs, contents.get(subs, 0), storage unit, unit)` over the named substances otherwise;
   `Plate.get_volume` is the sum of the array.  The model says the same with lists for arrays
   (row-major order, the order of `wells`); display rounding is erased as everywhere (section 1.2). *)
Require Import Base Units Contents Container ContainerThm ContainerThm2 Plate PlateThm Prog HistoryThm.

Definition plate_volumes (cf : cfg) (p : plate) (pr : prefix) : list Q :=
  map (fun c => get_volume cf c pr) (wells p).
Definition plate_amounts_of (cf : cfg) (p : plate) (ss : list substance) (u : unit_) : list Q :=
  map (fun c => Qsum (map (fun s => conv_stored cf s (get s (cont c)) u) ss)) (wells p).
Definition plate_get_volume (cf : cfg) (p : plate) (pr : prefix) : Q := Qsum (plate_volumes cf p pr).

(* one entry per well, in the order of the wells *)
Lemma plate_volumes_length cf p pr : length (plate_volumes cf p pr) = length (wells p).
Proof. unfold plate_volumes. apply map_length. Qed.
Lemma plate_amounts_of_length cf p ss u : length (plate_amounts_of cf p ss u) = length (wells p).
Proof. unfold plate_amounts_of. apply map_length. Qed.

(* every entry is the volume of that well's contents, in the unit asked for *)
Theorem plate_volumes_wellwise cf p pr : PInv cf p ->
  Forall2 (fun v c => v == total_in cf (cont c) (pr, BL)) (plate_volumes cf p pr) (wells p).
Proof.
  unfold PInv, plate_volumes. induction (wells p) as [|c t IH]; intros H; simpl; [constructor|].
  inversion H as [|? ? Hc Ht]; subst. constructor; [apply get_volume_def; exact Hc | apply IH; exact Ht].
Qed.

(* the total the plate reports is the sum over the wells of the volume of their contents *)
Theorem plate_get_volume_is_sum cf p pr : PInv cf p ->
  plate_get_volume cf p pr == Qsum (map (fun c => total_in cf (cont c) (pr, BL)) (wells p)).
Proof.
  unfold PInv, plate_get_volume, plate_volumes. induction (wells p) as [|c t IH]; intros H; simpl; [reflexivity|].
  inversion H as [|? ? Hc Ht]; subst. rewrite (get_volume_def cf c pr Hc), (IH Ht). reflexivity.
Qed.

(* with one substance named, every entry is that substance's amount in that well and nothing else *)
Theorem plate_amounts_of_one cf p s u :
  Forall2 (fun v c => v == conv_stored cf s (get s (cont c)) u) (plate_amounts_of cf p [s] u) (wells p).
Proof.
  unfold plate_amounts_of. induction (wells p) as [|c t IH]; simpl; [constructor|].
  constructor; [ring | exact IH].
Qed.

(* naming several substances adds their arrays entry by entry *)
Theorem plate_amounts_of_app cf p ss1 ss2 u :
  Forall2 (fun v ab => v == fst ab + snd ab) (plate_amounts_of cf p (ss1 ++ ss2) u)
          (combine (plate_amounts_of cf p ss1 u) (plate_amounts_of cf p ss2 u)).
Proof.
  unfold plate_amounts_of. induction (wells p) as [|c t IH]; simpl; [constructor|].
  constructor; [simpl; rewrite map_app; apply Qsum_app | exact IH].
Qed.

(* the same read through a slice (`plate[r].get_volumes(unit)`): one entry per addressed well, in the order the region lists them
   (a well listed twice is reported twice), each the volume of that well's contents; wells outside the region are not read *)
Definition slice_volumes (cf : cfg) (p : plate) (r : region) (pr : prefix) : list Q :=
  map (fun i => match nth_error (wells p) i with Some c => get_volume cf c pr | None => 0 end) (region_idx (ncols p) r).
Lemma slice_volumes_length cf p r pr : length (slice_volumes cf p r pr) = length (region_idx (ncols p) r).
Proof. unfold slice_volumes. apply map_length. Qed.
Theorem slice_volumes_wellwise cf p r pr : PInv cf p ->
  Forall2 (fun v i => forall c, nth_error (wells p) i = Some c -> v == total_in cf (cont c) (pr, BL))
          (slice_volumes cf p r pr) (region_idx (ncols p) r).
Proof.
  unfold PInv, slice_volumes. intros H. induction (region_idx (ncols p) r) as [|i t IH]; simpl; [constructor|].
  constructor; [|exact IH]. intros c Hc. rewrite Hc. apply get_volume_def.
  rewrite Forall_forall in H. apply H. eapply nth_error_In. exact Hc.
Qed.
(* a slice's entries do not depend on the wells it does not address *)
Theorem slice_volumes_frame cf p ws' r pr :
  (forall i, In i (region_idx (ncols p) r) -> nth_error ws' i = nth_error (wells p) i) ->
  slice_volumes cf (with_wells p ws') r pr = slice_volumes cf p r pr.
Proof.
  intros H. unfold slice_volumes. replace (ncols (with_wells p ws')) with (ncols p) by reflexivity.
  apply map_ext_in. intros i Hi. replace (wells (with_wells p ws')) with ws' by reflexivity. rewrite (H i Hi). reflexivity.
Qed.

(* after any history of the program language, every plate any operation returns reports, well by well, the
   volume of that well's contents, and as its total the sum of those *)
Theorem plate_volumes_after_any_history cf ops pr : Forall wf_op ops ->
  Forall (fun r => match r with
                   | Ok l => Forall (fun p => match snd p with
                                              | OC _ => True
                                              | OP pl => Forall2 (fun v c => v == total_in cf (cont c) (pr, BL)) (plate_volumes cf pl pr) (wells pl)
                                                         /\ plate_get_volume cf pl pr == Qsum (map (fun c => total_in cf (cont c) (pr, BL)) (wells pl))
                                              end) l
                   | Err _ => True end) (run cf [] ops).
Proof.
  intros H. pose proof (reachable_inv cf ops [] (empty_env_inv cf) H) as R.
  eapply Forall_impl; [|exact R]. intros [l|e] Hr; [|exact I].
  eapply Forall_impl; [|exact Hr]. intros [v [c|pl]] Ho; simpl in *; [exact I|].
  split; [apply plate_volumes_wellwise | apply plate_get_volume_is_sum]; exact Ho.
Qed.

(* the definitions compute: a 1 x 2 plate of 200 uL wells holding 60 uL and 10 uL of water reports [60; 10] uL,
   [0.06; 0.01] mL and 70 uL in all; asked for water alone it reports the same, asked for a salt it reports zeros *)
Example plate_obs_computes :
  let w := {| sid := 1; knd := Liquid; mw := 18; dens := 1; act := 1 |} in
  let s := {| sid := 2; knd := Solid; mw := 58; dens := 1; act := 1 |} in
  let well := fun (i : nat) (ul : Q) => {| cname := i; cont := [(w, ul * 1000 / 18)]; vol := ul; maxv := Some 200 |} in
  let pl := {| pname := 1; nrows := 1; ncols := 2; wells := [well 0%nat 60; well 1%nat 10] |} in
  map Qred (plate_volumes default_cfg pl Pu) = [60; 10] /\
  map Qred (plate_volumes default_cfg pl Pm) = [3 # 50; 1 # 100] /\
  Qred (plate_get_volume default_cfg pl Pu) = 70 /\
  map Qred (plate_amounts_of default_cfg pl [w] (Pu, BL)) = [60; 10] /\
  map Qred (plate_amounts_of default_cfg pl [s] (Pu, BL)) = [0; 0].
Proof. cbv zeta. repeat split; vm_compute; reflexivity. Qed.

(* ---- executable read-outs for the correspondence run (harness/props/C10.py: plate_observer_tie): for every plate every step
   returns, its variable, the number of wells, the volume array in uL and in mL, the plate's total in mL, and the first row's
   array in mL (`plate[1, :]`), exactly the definitions the theorems above are about *)
Definition showPlateObs (cf : cfg) (v : nat) (p : plate) : list Z :=
  Z.of_nat v :: Z.of_nat (length (wells p))
  :: flat_map showQ (plate_volumes cf p Pu) ++ flat_map showQ (plate_volumes cf p Pm)
  ++ showQ (plate_get_volume cf p Pm)
  ++ Z.of_nat (ncols p) :: flat_map showQ (slice_volumes cf p (RRect [0%nat] (seq 0 (ncols p))) Pm).
Definition showRunPlateObs (cf : cfg) (ops : list op) : list Z :=
  flat_map (fun r => match r with
                     | Ok l => flat_map (fun x => match snd x with OP pl => showPlateObs cf (fst x) pl | OC _ => [] end) l
                     | Err _ => [] end) (run cf [] ops).
