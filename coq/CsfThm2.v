(* CsfThm2.v -- create_solution_from with a CONTAINER as solvent (C12): the new solution is an aliquot of the source plus an aliquot
   of the solvent container (which may itself hold some of the solute); it has the requested total and concentration, every
   substance is conserved over the three outputs, and all outputs satisfy the invariant. *)
Require Import Base Units UnitsThm Contents Container ContainerThm ContainerThm2 Plate PlateThm SizeThm Dilute Solve SolveThm CsfThm.

Theorem csf_c_sound cf src solute svt c q name src' svt' new :
  Inv cf src -> Inv cf svt -> wf_subst solute -> is_enzyme solute = false ->
  0 < total_in cf (cont src) (P0, BG) -> 0 < total_in cf (cont svt) (P0, BG) ->
  create_solution_from_c cf src solute c svt q name = Ok ((src', svt'), new) ->
  total_in cf (cont new) (P0, qbase q) == qv q /\
  conv_stored cf solute (get solute (cont new)) (P0, cnum c) == cval c * total_in cf (cont new) (P0, cden c) /\
  (forall k, get k (cont src') + get k (cont svt') + get k (cont new) == get k (cont src) + get k (cont svt)) /\
  (exists f, 0 <= f /\ f <= 1 /\ forall k, get k (cont src') == get k (cont src) * (1 - f)) /\
  (exists g, 0 <= g /\ g <= 1 /\ forall k, get k (cont svt') == get k (cont svt) * (1 - g)) /\
  Inv cf src' /\ Inv cf svt' /\ Inv cf new.
Proof.
  intros Isrc Isvt Hws Hes Hmass1 Hmass2 H. unfold create_solution_from_c in H.
  destruct (Qle_bool (qv q) 0) eqn:Eq; [discriminate|].
  destruct (has solute (cont src)); simpl in H; [|discriminate].
  unfold bind in H. unfold mix_of in H.
  set (V1 := from_storage_vol cf (vol src) Pm) in *. set (M1 := total_in cf (cont src) (P0, BG)) in *.
  set (N1 := total_in cf (cont src) (P0, BMol)) in *. set (S1 := from_storage_mol cf (get solute (cont src)) P0) in *.
  destruct (Qeqb V1 0 || Qeqb N1 0) eqn:Ez1; [discriminate|]. apply orb_false_iff in Ez1. destruct Ez1 as [EV1 EN1].
  apply Qeqb_neq in EV1, EN1.
  set (V2 := from_storage_vol cf (vol svt) Pm) in *. set (M2 := total_in cf (cont svt) (P0, BG)) in *.
  set (N2 := total_in cf (cont svt) (P0, BMol)) in *. set (S2 := from_storage_mol cf (get solute (cont svt)) P0) in *.
  destruct (Qeqb V2 0 || Qeqb N2 0) eqn:Ez2; [discriminate|]. apply orb_false_iff in Ez2. destruct Ez2 as [EV2 EN2].
  apply Qeqb_neq in EV2, EN2.
  set (mx := {| m_d := M1 / V1; m_mw := M1 / N1; m_m := S1 / (V1 / 1000) |}) in *.
  set (my := {| m_d := M2 / V2; m_mw := M2 / N2; m_m := S2 / (V2 / 1000) |}) in *.
  unfold csf_solve, bind in H.
  destruct (csf_system mx my solute c q) as [rows|] eqn:Esys; [|discriminate].
  destruct (csf_system_spec _ _ _ _ _ _ Esys) as ([t1 t2] & [b1 b2] & Etop & Ebot & Erows). simpl in Erows.
  destruct (gauss 2 rows) as [[|x [|y [|z zs]]]|] eqn:Eg; try discriminate.
  destruct (Qltb x 0 || Qltb y 0) eqn:Exy; [discriminate|]. simpl in H.
  assert (Hrows : forall r, In r rows -> length (fst r) = 2%nat).
  { subst rows. intros r [<-|[<-|[]]]; simpl; [reflexivity|]. destruct (bot_of mx my (qbase q)); reflexivity. }
  destruct (gauss_sound 2 rows [x; y] Hrows Eg) as [_ Hsat].
  assert (R0 : (cval c * b1 - t1) * x + (cval c * b2 - t2) * y == 0).
  { assert (Hin0 : In ([cval c * b1 - t1; cval c * b2 - t2], 0) rows) by (rewrite Erows; left; reflexivity).
    pose proof (Hsat _ Hin0) as Hz. simpl in Hz. lra. }
  assert (R1 : exists r1 r2, bot_of mx my (qbase q) = Some (r1, r2) /\ r1 * x + r2 * y == qv q).
  { assert (Hin : In (match bot_of mx my (qbase q) with Some r => [fst r; snd r] | None => [0; 0] end, qv q) rows) by (rewrite Erows; right; left; reflexivity).
    pose proof (Hsat _ Hin) as Hz. simpl in Hz.
    assert (Hq : 0 < qv q). { apply Qnot_le_lt. intro Hle. apply Qle_bool_iff in Hle. congruence. }
    destruct (bot_of mx my (qbase q)) as [[r1 r2]|]; simpl in Hz; [exists r1, r2; split; [reflexivity | lra] | lra]. }
  (* the empty container the two aliquots are poured into *)
  set (new0 := {| cname := name; cont := []; vol := 0; maxv := None |}) in *.
  assert (In0 : Inv cf new0) by (apply (make_container_inv cf name None [] new0 (Forall_nil _)); reflexivity).
  (* aliquot of the source *)
  destruct (if Qeqb x 0 then Ok (src, new0) else transfer cf src new0 (mL x)) as [[s1 n1]|] eqn:E1; [|discriminate]. simpl in H.
  assert (P1 : exists r, 0 <= r /\ r <= 1 /\ r * V1 == x /\
            (forall u, total_in cf (cont n1) u == total_in cf (cont src) u * r) /\
            (forall k, get k (cont n1) == get k (cont src) * r) /\
            (forall k, get k (cont s1) == get k (cont src) * (1 - r)) /\ Inv cf s1 /\ Inv cf n1).
  { destruct (Qeqb x 0) eqn:Ex0.
    - apply Qeqb_eq in Ex0. inversion E1; subst s1 n1; clear E1. exists 0.
      split; [lra|]. split; [lra|]. split; [rewrite Ex0; ring|]. split; [intros u; unfold total_in, sum_by; simpl; ring|].
      split; [intros k; simpl; ring|]. split; [intros k; ring|]. split; [exact Isrc | exact In0].
    - destruct (transfer_by_volume cf src new0 (mL x) s1 n1 eq_refl Isrc In0 E1) as (r & Hr0 & Hr1 & Hrv & Ht & Hg & Hs).
      destruct (transfer_inv cf src new0 (mL x) s1 n1 Isrc In0 E1) as [Is' In'].
      exists r. split; [exact Hr0|]. split; [exact Hr1|]. split; [|split; [|split; [|split; [exact Hs | split; [exact Is' | exact In']]]]].
      + unfold V1. rewrite from_storage_vol_spec. unfold qv, mL in Hrv. simpl in Hrv. change (pmult Pm) with (1 # 1000) in *.
        setoid_replace (r * (vol src * pmult (vol_pfx cf) / (1 # 1000))) with (r * (vol src * pmult (vol_pfx cf)) * 1000) by (field).
        rewrite Hrv. field.
      + intros u. rewrite Ht. unfold total_in at 1, sum_by. simpl. ring.
      + intros k. rewrite Hg. simpl. ring. }
  destruct P1 as (r1 & Hr10 & Hr11 & Hr1V & Tn1 & Gn1 & Gs1 & Is1 & In1).
  (* aliquot of the solvent container *)
  destruct (if Qeqb y 0 then Ok (svt, n1) else transfer cf svt n1 (mL y)) as [[v1 n2]|] eqn:E2; [|discriminate]. simpl in H.
  inversion H; subst src' svt' new; clear H.
  assert (P2 : exists r, 0 <= r /\ r <= 1 /\ r * V2 == y /\
            (forall u, total_in cf (cont n2) u == total_in cf (cont n1) u + total_in cf (cont svt) u * r) /\
            (forall k, get k (cont n2) == get k (cont n1) + get k (cont svt) * r) /\
            (forall k, get k (cont v1) == get k (cont svt) * (1 - r)) /\ Inv cf v1 /\ Inv cf n2).
  { destruct (Qeqb y 0) eqn:Ey0.
    - apply Qeqb_eq in Ey0. inversion E2; subst v1 n2; clear E2. exists 0.
      split; [lra|]. split; [lra|]. split; [rewrite Ey0; ring|]. split; [intros u; ring|]. split; [intros k; ring|].
      split; [intros k; ring|]. split; [exact Isvt | exact In1].
    - destruct (transfer_by_volume cf svt n1 (mL y) v1 n2 eq_refl Isvt In1 E2) as (r & Hr0 & Hr1 & Hrv & Ht & Hg & Hs).
      destruct (transfer_inv cf svt n1 (mL y) v1 n2 Isvt In1 E2) as [Is' In'].
      exists r. split; [exact Hr0|]. split; [exact Hr1|]. split; [|split; [exact Ht|]; split; [exact Hg|]; split; [exact Hs|]; split; [exact Is' | exact In']].
      unfold V2. rewrite from_storage_vol_spec. unfold qv, mL in Hrv. simpl in Hrv. change (pmult Pm) with (1 # 1000) in *.
      setoid_replace (r * (vol svt * pmult (vol_pfx cf) / (1 # 1000))) with (r * (vol svt * pmult (vol_pfx cf)) * 1000) by (field).
      rewrite Hrv. field. }
  destruct P2 as (r2 & Hr20 & Hr21 & Hr2V & Tn2 & Gn2 & Gv1 & Iv1 & In2).
  assert (TL1 : total_in cf (cont src) (P0, BL) == V1 * (1 # 1000)) by (apply total_in_L_of_vol; exact Isrc).
  assert (TL2 : total_in cf (cont svt) (P0, BL) == V2 * (1 # 1000)) by (apply total_in_L_of_vol; exact Isvt).
  assert (HM1 : ~ M1 == 0) by lra. assert (HM2 : ~ M2 == 0) by lra.
  assert (Hbot : forall u b1' b2', bot_of mx my u = Some (b1', b2') -> b1' * x + b2' * y == total_in cf (cont n2) (P0, u)).
  { intros u b1' b2' Eb. rewrite Tn2, Tn1.
    destruct u; simpl in Eb; inversion Eb; subst; clear Eb; simpl; rewrite <- Hr1V, <- Hr2V.
    - rewrite TL1, TL2. field.
    - fold M1 M2. field. split; assumption.
    - fold N1 N2. field. repeat split; assumption. }
  split; [|split; [|split; [|split; [|split; [|split; [exact Is1 | split; [exact Iv1 | exact In2]]]]]]].
  - destruct R1 as (q1 & q2 & Er & Hr). rewrite <- (Hbot _ _ _ Er). exact Hr.
  - rewrite <- (Hbot _ _ _ Ebot).
    assert (Htop : t1 * x + t2 * y == conv_stored cf solute (get solute (cont n2)) (P0, cnum c)).
    { rewrite Gn2, Gn1.
      rewrite conv_stored_add, !conv_stored_scale.
      destruct (conv_stored_solute_units cf solute (get solute (cont src)) Hws Hes) as (Cm1 & Cg1 & Cl1). fold S1 in Cm1, Cg1, Cl1.
      destruct (conv_stored_solute_units cf solute (get solute (cont svt)) Hws Hes) as (Cm2 & Cg2 & Cl2). fold S2 in Cm2, Cg2, Cl2.
      destruct Hws as (Hm & Hd & Ha).
      destruct (cnum c); simpl in Etop; inversion Etop; subst; clear Etop; simpl; rewrite <- Hr1V, <- Hr2V.
      - rewrite Cl1, Cl2. field. repeat split; try assumption; lra.
      - rewrite Cg1, Cg2. field. split; assumption.
      - rewrite Cm1, Cm2. field. split; assumption. }
    rewrite <- Htop. lra.
  - intros k. rewrite Gs1, Gv1, Gn2, Gn1. ring.
  - exists r1. split; [exact Hr10|]. split; [exact Hr11 | exact Gs1].
  - exists r2. split; [exact Hr20|]. split; [exact Hr21 | exact Gv1].
Qed.
