(* PlateThm.v -- theorems about plate operations: frame (only addressed wells change), well-wise
   action, conservation over every pairing form, invariants (C01, C02, C03, C07, C17). *)
Require Import Base Units UnitsThm Contents Container ContainerThm ContainerThm2 Plate.

Definition wsum (g : container -> Q) (ws : list container) : Q := Qsum (map g ws).

(* ---------- set_nth ---------- *)
Lemma set_nth_length {A} i (x : A) l : length (set_nth i x l) = length l.
Proof. revert i; induction l as [|h t IH]; intros [|i]; simpl; auto. Qed.
Lemma nth_error_set_nth_same {A} i (x : A) l : (i < length l)%nat -> nth_error (set_nth i x l) i = Some x.
Proof. revert i; induction l as [|h t IH]; intros [|i] H; simpl in *; try lia; auto. apply IH. lia. Qed.
Lemma nth_error_set_nth_other {A} i j (x : A) l : i <> j -> nth_error (set_nth i x l) j = nth_error l j.
Proof. revert i j; induction l as [|h t IH]; intros [|i] [|j] H; simpl; auto; try congruence. Qed.
Lemma nth_error_lt {A} (l : list A) i x : nth_error l i = Some x -> (i < length l)%nat.
Proof. intros H. apply nth_error_Some. congruence. Qed.

Lemma wsum_set_nth g i w w' ws :
  nth_error ws i = Some w -> wsum g (set_nth i w' ws) == wsum g ws - g w + g w'.
Proof.
  unfold wsum. revert i; induction ws as [|h t IH]; intros [|i] H; simpl in *; try discriminate.
  - inversion H; subst. ring.
  - rewrite (IH i H). ring.
Qed.
Lemma Forall_set_nth {A} (P : A -> Prop) i x l : Forall P l -> P x -> Forall P (set_nth i x l).
Proof.
  revert i; induction l as [|h t IH]; intros [|i] Hl Hx; simpl; auto; inversion Hl; subst; constructor; auto.
Qed.
Lemma Forall_nth_error {A} (P : A -> Prop) l i x : Forall P l -> nth_error l i = Some x -> P x.
Proof. intros H E. rewrite Forall_forall in H. apply H. eapply nth_error_In; eassumption. Qed.

(* ---------- fold_wells ---------- *)
Section Fold.
Context {A : Type} (f : A -> container -> result (A * container)).

Lemma fold_wells_cons i t a ws :
  fold_wells f (i :: t) a ws =
  match nth_error ws i with
  | None => Err EOther
  | Some w => do aw <- f a w; fold_wells f t (fst aw) (set_nth i (snd aw) ws)
  end.
Proof. reflexivity. Qed.

(* frame: wells that are not addressed are untouched; the number of wells is kept *)
Lemma fold_wells_frame idxs : forall a ws a' ws',
  fold_wells f idxs a ws = Ok (a', ws') ->
  length ws' = length ws /\ forall j, ~ In j idxs -> nth_error ws' j = nth_error ws j.
Proof.
  induction idxs as [|i t IH]; intros a ws a' ws' H.
  - simpl in H. inversion H; subst. auto.
  - rewrite fold_wells_cons in H. destruct (nth_error ws i) as [w|] eqn:E; [|discriminate].
    unfold bind in H. destruct (f a w) as [[a1 w1]|] eqn:Ef; [|discriminate]. simpl in H.
    apply IH in H. destruct H as [Hl Hf]. split.
    + rewrite Hl. apply set_nth_length.
    + intros j Hj. rewrite Hf by (intro; apply Hj; right; assumption).
      apply nth_error_set_nth_other. intro; subst; apply Hj; left; reflexivity.
Qed.

(* an additive quantity conserved by every single step (under an invariant the steps keep) is conserved by the whole call *)
Lemma fold_wells_conserve (Pa : A -> Prop) (P : container -> Prop) (ga : A -> Q) (g : container -> Q) :
  (forall a w a' w', Pa a -> P w -> f a w = Ok (a', w') -> Pa a' /\ P w' /\ ga a' + g w' == ga a + g w) ->
  forall idxs a ws a' ws', Pa a -> Forall P ws ->
    fold_wells f idxs a ws = Ok (a', ws') -> ga a' + wsum g ws' == ga a + wsum g ws.
Proof.
  intros Hstep. induction idxs as [|i t IH]; intros a ws a' ws' Ha Hws H.
  - simpl in H. inversion H; subst. reflexivity.
  - rewrite fold_wells_cons in H. destruct (nth_error ws i) as [w|] eqn:E; [|discriminate].
    unfold bind in H. destruct (f a w) as [[a1 w1]|] eqn:Ef; [|discriminate]. simpl in H.
    destruct (Hstep _ _ _ _ Ha (Forall_nth_error _ _ _ _ Hws E) Ef) as (Ha1 & Hw1 & Hc).
    apply IH in H; [|exact Ha1|apply Forall_set_nth; assumption].
    rewrite H. rewrite (wsum_set_nth g i w w1 ws E). lra.
Qed.

(* a property kept by every single step holds for every well and the accumulator afterwards *)
Lemma fold_wells_pres (Pa : A -> Prop) (P : container -> Prop) :
  (forall a w a' w', Pa a -> P w -> f a w = Ok (a', w') -> Pa a' /\ P w') ->
  forall idxs a ws a' ws', Pa a -> Forall P ws -> fold_wells f idxs a ws = Ok (a', ws') -> Pa a' /\ Forall P ws'.
Proof.
  intros Hstep. induction idxs as [|i t IH]; intros a ws a' ws' Ha Hws H.
  - simpl in H. inversion H; subst. auto.
  - rewrite fold_wells_cons in H. destruct (nth_error ws i) as [w|] eqn:E; [|discriminate].
    unfold bind in H. destruct (f a w) as [[a1 w1]|] eqn:Ef; [|discriminate]. simpl in H.
    destruct (Hstep _ _ _ _ Ha (Forall_nth_error _ _ _ _ Hws E) Ef) as [Ha1 Hw1].
    simpl in *. apply (IH a1 (set_nth i w1 ws) a' ws'); [exact Ha1 | apply Forall_set_nth; assumption | exact H].
Qed.

(* well-wise action: with distinct addresses, each addressed well ends as the result of ONE step applied to
   its ORIGINAL content (and the accumulator of that moment) *)
Lemma fold_wells_wellwise idxs : forall a ws a' ws',
  NoDup idxs -> fold_wells f idxs a ws = Ok (a', ws') ->
  forall i, In i idxs -> exists w ai ao w', nth_error ws i = Some w /\ f ai w = Ok (ao, w') /\ nth_error ws' i = Some w'.
Proof.
  induction idxs as [|i0 t IH]; intros a ws a' ws' Hnd H i Hin; [contradiction|].
  rewrite fold_wells_cons in H. destruct (nth_error ws i0) as [w|] eqn:E; [|discriminate].
  unfold bind in H. destruct (f a w) as [[a1 w1]|] eqn:Ef; [|discriminate]. simpl in H.
  inversion Hnd as [|x l Hni Hnd']; subst.
  destruct Hin as [->|Hin].
  - exists w, a, a1, w1. repeat split; auto.
    destruct (fold_wells_frame _ _ _ _ _ H) as [_ Hf]. rewrite (Hf i Hni).
    apply nth_error_set_nth_same. eapply nth_error_lt; eassumption.
  - destruct (IH _ _ _ _ Hnd' H i Hin) as (w2 & ai & ao & w' & E2 & Ef2 & E3).
    exists w2, ai, ao, w'. repeat split; auto.
    rewrite nth_error_set_nth_other in E2; [exact E2|]. intro; subst. contradiction.
Qed.

(* the accumulator's trajectory: every step succeeded *)
Lemma fold_wells_ok_steps idxs : forall a ws a' ws',
  fold_wells f idxs a ws = Ok (a', ws') -> length idxs = O \/ exists w a1 w1, f a w = Ok (a1, w1).
Proof.
  destruct idxs as [|i t]; intros a ws a' ws' H; [left; reflexivity|]. right.
  rewrite fold_wells_cons in H. destruct (nth_error ws i) as [w|]; [|discriminate].
  unfold bind in H. destruct (f a w) as [[a1 w1]|] eqn:Ef; [|discriminate]. eauto.
Qed.
End Fold.

(* ---------- apply (remove, fill_to) ---------- *)
Lemma apply_wells_spec f idxs ws ws' :
  apply_wells f idxs ws = Ok ws' ->
  length ws' = length ws /\ (forall j, ~ In j idxs -> nth_error ws' j = nth_error ws j) /\
  (NoDup idxs -> forall i, In i idxs -> exists w w', nth_error ws i = Some w /\ f w = Ok w' /\ nth_error ws' i = Some w').
Proof.
  unfold apply_wells, bind.
  destruct (fold_wells _ idxs tt ws) as [[u ws1]|] eqn:E; [|discriminate]. simpl. intros H; inversion H; subst.
  destruct (fold_wells_frame _ _ _ _ _ _ E) as [Hl Hf]. split; [exact Hl|]. split; [exact Hf|].
  intros Hnd i Hin. destruct (fold_wells_wellwise _ _ _ _ _ _ Hnd E i Hin) as (w & ai & ao & w' & E1 & E2 & E3).
  exists w, w'. split; [exact E1|]. split; [|exact E3].
  destruct (f w) as [x|]; simpl in E2; [inversion E2; reflexivity | discriminate].
Qed.
Lemma apply_wells_pres f (P : container -> Prop) idxs ws ws' :
  (forall w w', P w -> f w = Ok w' -> P w') -> Forall P ws -> apply_wells f idxs ws = Ok ws' -> Forall P ws'.
Proof.
  intros Hstep Hws. unfold apply_wells, bind.
  destruct (fold_wells _ idxs tt ws) as [[u ws1]|] eqn:E; [|discriminate]. simpl. intros H; inversion H; subst.
  eapply fold_wells_pres with (Pa := fun _ : unit => True) (P := P) in E; [destruct E as [_ E]; exact E | | exact I | exact Hws].
  intros a w a' w' _ Hw Hf. split; [exact I|]. destruct (f w) as [x|] eqn:Ex; simpl in Hf; [|discriminate].
  inversion Hf; subst. eapply Hstep; eassumption.
Qed.

Definition cget (k : substance) (c : container) : Q := get k (cont c).
Definition PInv (cf : cfg) (p : plate) : Prop := Forall (Inv cf) (wells p).

Lemma nonempty_ok {A} idxs (k : result A) r : nonempty_or_err idxs k = Ok r -> k = Ok r /\ idxs <> [].
Proof. destruct idxs; simpl; [discriminate | intros H; split; [exact H | discriminate]]. Qed.

(* C07 / C17: remove on a region acts on each addressed well as Container.remove and nowhere else *)
Theorem premove_wellwise cf p r w p' :
  premove cf p r w = Ok p' ->
  pname p' = pname p /\ nrows p' = nrows p /\ ncols p' = ncols p /\ length (wells p') = length (wells p) /\
  (forall j, ~ In j (region_idx (ncols p) r) -> nth_error (wells p') j = nth_error (wells p) j) /\
  (NoDup (region_idx (ncols p) r) -> forall i, In i (region_idx (ncols p) r) ->
     exists c, nth_error (wells p) i = Some c /\ nth_error (wells p') i = Some (remove cf c w)).
Proof.
  unfold premove. intros H. apply nonempty_ok in H. destruct H as [H _]. unfold bind in H.
  destruct (apply_wells _ _ (wells p)) as [ws|] eqn:E; [|discriminate]. inversion H; subst; simpl.
  destruct (apply_wells_spec _ _ _ _ E) as (Hl & Hf & Hw). repeat split; auto.
  intros Hnd i Hin. destruct (Hw Hnd i Hin) as (c & c' & E1 & E2 & E3). inversion E2; subst. eauto.
Qed.
Theorem pfill_wellwise cf p r s q p' :
  pfill_to cf p r s q = Ok p' ->
  pname p' = pname p /\ nrows p' = nrows p /\ ncols p' = ncols p /\ length (wells p') = length (wells p) /\
  (forall j, ~ In j (region_idx (ncols p) r) -> nth_error (wells p') j = nth_error (wells p) j) /\
  (NoDup (region_idx (ncols p) r) -> forall i, In i (region_idx (ncols p) r) ->
     exists c c', nth_error (wells p) i = Some c /\ fill_to cf c s q = Ok c' /\ nth_error (wells p') i = Some c').
Proof.
  unfold pfill_to. intros H. apply nonempty_ok in H. destruct H as [H _]. unfold bind in H.
  destruct (apply_wells _ _ (wells p)) as [ws|] eqn:E; [|discriminate]. inversion H; subst; simpl.
  destruct (apply_wells_spec _ _ _ _ E) as (Hl & Hf & Hw). repeat split; auto.
Qed.
Theorem premove_inv cf p r w p' : PInv cf p -> premove cf p r w = Ok p' -> PInv cf p'.
Proof.
  unfold premove, PInv. intros I H. apply nonempty_ok in H. destruct H as [H _]. unfold bind in H.
  destruct (apply_wells _ _ (wells p)) as [ws|] eqn:E; [|discriminate]. inversion H; subst; simpl.
  eapply apply_wells_pres; [|exact I|exact E]. intros c c' Hc Hf. inversion Hf; subst. apply remove_inv. exact Hc.
Qed.
Theorem pfill_inv cf p r s q p' : wf_subst s -> PInv cf p -> pfill_to cf p r s q = Ok p' -> PInv cf p'.
Proof.
  unfold pfill_to, PInv. intros Hs I H. apply nonempty_ok in H. destruct H as [H _]. unfold bind in H.
  destruct (apply_wells _ _ (wells p)) as [ws|] eqn:E; [|discriminate]. inversion H; subst; simpl.
  eapply apply_wells_pres; [|exact I|exact E]. intros c c' Hc Hf.
  apply fill_to_ok in Hf. destruct Hf as (_ & _ & _ & Hadd). eapply self_add_inv; eassumption.
Qed.

(* ---------- container -> n wells ---------- *)
Theorem c_to_p_spec cf c p r q c' p' :
  Inv cf c -> PInv cf p -> c_to_p cf c p r q = Ok (c', p') ->
  (* conservation of every substance over the container and all wells *)
  (forall k, cget k c' + wsum (cget k) (wells p') == cget k c + wsum (cget k) (wells p)) /\
  (* frame *)
  (forall j, ~ In j (region_idx (ncols p) r) -> nth_error (wells p') j = nth_error (wells p) j) /\
  length (wells p') = length (wells p) /\ ncols p' = ncols p /\ nrows p' = nrows p /\
  (* invariants *)
  Inv cf c' /\ PInv cf p' /\
  (* well-wise: each addressed well is the result of a stand-alone transfer into its original content *)
  (NoDup (region_idx (ncols p) r) -> forall i, In i (region_idx (ncols p) r) ->
     exists w src src' w', nth_error (wells p) i = Some w /\ transfer cf src w q = Ok (src', w') /\ nth_error (wells p') i = Some w').
Proof.
  unfold c_to_p, PInv. intros Ic Ip H. apply nonempty_ok in H. destruct H as [H _]. unfold bind in H.
  destruct (fold_wells _ _ c (wells p)) as [[c1 ws]|] eqn:E; [|discriminate]. inversion H; subst; simpl. clear H.
  set (f := fun src w : container => transfer cf src w q) in *.
  assert (Hstep : forall a w a' w', Inv cf a -> Inv cf w -> f a w = Ok (a', w') -> Inv cf a' /\ Inv cf w').
  { intros a w a' w' Ha Hw Hf. unfold f in Hf. exact (transfer_inv cf a w q a' w' Ha Hw Hf). }
  destruct (fold_wells_pres f (Inv cf) (Inv cf) Hstep _ _ _ _ _ Ic Ip E) as [Ic' Ip'].
  destruct (fold_wells_frame f _ _ _ _ _ E) as [Hl Hfr].
  split; [|split; [|split; [|split; [|split; [|split; [|split]]]]]]; auto.
  - intros k. apply (fold_wells_conserve f (Inv cf) (Inv cf) (cget k) (cget k)) with (idxs := region_idx (ncols p) r); auto.
    intros a w a' w' Ha Hw Hf. destruct (Hstep _ _ _ _ Ha Hw Hf) as [Ia Iw]. split; [exact Ia|]. split; [exact Iw|].
    unfold cget. apply (transfer_conserves cf a w q a' w'); [apply (inv_wf _ _ Ha) | exact Hf].
  - intros Hnd i Hin. destruct (fold_wells_wellwise f _ _ _ _ _ Hnd E i Hin) as (w & ai & ao & w' & E1 & E2 & E3). eauto 8.
Qed.

(* ---------- n wells -> container ---------- *)
Theorem p_to_c_spec cf p r c q p' c' :
  Inv cf c -> PInv cf p -> p_to_c cf p r c q = Ok (p', c') ->
  (forall k, cget k c' + wsum (cget k) (wells p') == cget k c + wsum (cget k) (wells p)) /\
  (forall j, ~ In j (region_idx (ncols p) r) -> nth_error (wells p') j = nth_error (wells p) j) /\
  length (wells p') = length (wells p) /\ ncols p' = ncols p /\ nrows p' = nrows p /\
  Inv cf c' /\ PInv cf p' /\
  (NoDup (region_idx (ncols p) r) -> forall i, In i (region_idx (ncols p) r) ->
     exists w dst dst' w', nth_error (wells p) i = Some w /\ transfer cf w dst q = Ok (w', dst') /\ nth_error (wells p') i = Some w').
Proof.
  unfold p_to_c, PInv. intros Ic Ip H. apply nonempty_ok in H. destruct H as [H _]. unfold bind in H.
  destruct (fold_wells _ _ c (wells p)) as [[c1 ws]|] eqn:E; [|discriminate]. inversion H; subst; simpl. clear H.
  set (f := fun dst w : container => match transfer cf w dst q with Ok sd => Ok (snd sd, fst sd) | Err e => Err e end) in *.
  assert (Hf' : forall a w a' w', f a w = Ok (a', w') -> transfer cf w a q = Ok (w', a')).
  { intros a w a' w' Hf. unfold f in Hf. destruct (transfer cf w a q) as [[x y]|]; [|discriminate]. simpl in Hf. inversion Hf; reflexivity. }
  assert (Hstep : forall a w a' w', Inv cf a -> Inv cf w -> f a w = Ok (a', w') -> Inv cf a' /\ Inv cf w').
  { intros a w a' w' Ha Hw Hf. apply Hf' in Hf. destruct (transfer_inv cf w a q w' a' Hw Ha Hf). auto. }
  destruct (fold_wells_pres f (Inv cf) (Inv cf) Hstep _ _ _ _ _ Ic Ip E) as [Ic' Ip'].
  destruct (fold_wells_frame f _ _ _ _ _ E) as [Hl Hfr].
  split; [|split; [|split; [|split; [|split; [|split; [|split]]]]]]; auto.
  - intros k. apply (fold_wells_conserve f (Inv cf) (Inv cf) (cget k) (cget k)) with (idxs := region_idx (ncols p) r); auto.
    intros a w a' w' Ha Hw Hf. destruct (Hstep _ _ _ _ Ha Hw Hf) as [Ia Iw]. split; [exact Ia|]. split; [exact Iw|].
    apply Hf' in Hf. unfold cget. pose proof (transfer_conserves cf w a q w' a' (inv_wf _ _ Hw) Hf k). lra.
  - intros Hnd i Hin. destruct (fold_wells_wellwise f _ _ _ _ _ Hnd E i Hin) as (w & ai & ao & w' & E1 & E2 & E3).
    apply Hf' in E2. eauto 8.
Qed.

(* ---------- element-wise pairing ---------- *)
Lemma pair_wells_spec cf q pairs : forall ss ds ss' ds',
  Forall (Inv cf) ss -> Forall (Inv cf) ds -> pair_wells cf q pairs ss ds = Ok (ss', ds') ->
  (forall k, wsum (cget k) ss' + wsum (cget k) ds' == wsum (cget k) ss + wsum (cget k) ds) /\
  (forall j, ~ In j (map fst pairs) -> nth_error ss' j = nth_error ss j) /\
  (forall j, ~ In j (map snd pairs) -> nth_error ds' j = nth_error ds j) /\
  length ss' = length ss /\ length ds' = length ds /\ Forall (Inv cf) ss' /\ Forall (Inv cf) ds'.
Proof.
  induction pairs as [|[i j] t IH]; intros ss ds ss' ds' Is Id H.
  - simpl in H. inversion H; subst. repeat split; auto; reflexivity.
  - simpl in H. destruct (nth_error ss i) as [s|] eqn:Es; [|discriminate].
    destruct (nth_error ds j) as [d|] eqn:Ed; [|discriminate]. unfold bind in H.
    destruct (transfer cf s d q) as [[s1 d1]|] eqn:Et; [|discriminate]. simpl in H.
    pose proof (Forall_nth_error _ _ _ _ Is Es) as Hs. pose proof (Forall_nth_error _ _ _ _ Id Ed) as Hd.
    destruct (transfer_inv cf s d q s1 d1 Hs Hd Et) as [Hs1 Hd1].
    apply IH in H; [|apply Forall_set_nth; assumption|apply Forall_set_nth; assumption].
    destruct H as (Hc & Hfs & Hfd & Hls & Hld & Iss & Ids).
    split; [|split; [|split; [|split; [|split; [|split]]]]]; auto.
    + intros k. rewrite Hc. rewrite (wsum_set_nth (cget k) i s s1 ss Es), (wsum_set_nth (cget k) j d d1 ds Ed).
      pose proof (transfer_conserves cf s d q s1 d1 (inv_wf _ _ Hs) Et k). unfold cget. lra.
    + intros x Hx. simpl in Hx. rewrite Hfs by tauto. apply nth_error_set_nth_other. intro; subst; tauto.
    + intros x Hx. simpl in Hx. rewrite Hfd by tauto. apply nth_error_set_nth_other. intro; subst; tauto.
    + rewrite Hls. apply set_nth_length.
    + rewrite Hld. apply set_nth_length.
Qed.

Lemma pair_wells_same_spec cf q pairs : forall ws ws',
  (forall i j, In (i, j) pairs -> i <> j) ->
  Forall (Inv cf) ws -> pair_wells_same cf q pairs ws = Ok ws' ->
  (forall k, wsum (cget k) ws' == wsum (cget k) ws) /\
  (forall x, ~ In x (map fst pairs) -> ~ In x (map snd pairs) -> nth_error ws' x = nth_error ws x) /\
  length ws' = length ws /\ Forall (Inv cf) ws'.
Proof.
  induction pairs as [|[i j] t IH]; intros ws ws' Hne Iw H.
  - simpl in H. inversion H; subst. repeat split; auto; reflexivity.
  - simpl in H. destruct (nth_error ws i) as [s|] eqn:Es; [|discriminate].
    destruct (nth_error ws j) as [d|] eqn:Ed; [|discriminate]. unfold bind in H.
    destruct (transfer cf s d q) as [[s1 d1]|] eqn:Et; [|discriminate]. simpl in H.
    pose proof (Forall_nth_error _ _ _ _ Iw Es) as Hs. pose proof (Forall_nth_error _ _ _ _ Iw Ed) as Hd.
    destruct (transfer_inv cf s d q s1 d1 Hs Hd Et) as [Hs1 Hd1].
    assert (Hij : i <> j) by (apply Hne; left; reflexivity).
    apply IH in H; [| intros; apply Hne; right; assumption | apply Forall_set_nth; [apply Forall_set_nth|]; assumption].
    destruct H as (Hc & Hf & Hl & Iw').
    split; [|split; [|split]]; auto.
    + intros k. rewrite Hc.
      assert (Ed' : nth_error (set_nth i s1 ws) j = Some d) by (rewrite nth_error_set_nth_other; assumption).
      rewrite (wsum_set_nth (cget k) j d d1 _ Ed'), (wsum_set_nth (cget k) i s s1 ws Es).
      pose proof (transfer_conserves cf s d q s1 d1 (inv_wf _ _ Hs) Et k). unfold cget. lra.
    + intros x Hx1 Hx2. simpl in Hx1, Hx2. rewrite Hf by tauto.
      rewrite nth_error_set_nth_other by (intro; subst; tauto).
      apply nth_error_set_nth_other. intro; subst; tauto.
    + rewrite Hl, !set_nth_length. reflexivity.
Qed.

Lemma overlaps_false a b : overlaps a b = false -> forall i j, In i a -> In j b -> i <> j.
Proof.
  unfold overlaps. intros H i j Hi Hj E. subst j.
  assert (existsb (fun i0 => existsb (Nat.eqb i0) b) a = true); [|congruence].
  apply existsb_exists. exists i. split; [exact Hi|]. apply existsb_exists. exists i. split; [exact Hj | apply Nat.eqb_refl].
Qed.
Lemma in_combine_both {A B} (a : list A) (b : list B) x y : In (x, y) (combine a b) -> In x a /\ In y b.
Proof. intros H. split; [eapply in_combine_l | eapply in_combine_r]; eassumption. Qed.

(* ---------- plate -> plate, two different plates: every pairing form conserves, frames and keeps the invariants ---------- *)
Theorem p_to_p_spec cf ps rs pd rd q ps' pd' :
  PInv cf ps -> PInv cf pd -> p_to_p cf ps rs pd rd q = Ok (ps', pd') ->
  (forall k, wsum (cget k) (wells ps') + wsum (cget k) (wells pd') == wsum (cget k) (wells ps) + wsum (cget k) (wells pd)) /\
  (forall j, ~ In j (region_idx (ncols ps) rs) -> nth_error (wells ps') j = nth_error (wells ps) j) /\
  (forall j, ~ In j (region_idx (ncols pd) rd) -> nth_error (wells pd') j = nth_error (wells pd) j) /\
  PInv cf ps' /\ PInv cf pd'.
Proof.
  unfold p_to_p, PInv. intros Is Id H.
  destruct (region_idx (ncols ps) rs) as [|s0 st] eqn:Esi; [discriminate|].
  destruct (region_idx (ncols pd) rd) as [|d0 dt] eqn:Edi; [discriminate|].
  unfold bind in H. destruct (dispatch rs rd _ _) as [pg|] eqn:Edis; [|discriminate].
  destruct pg.
  - (* one to many *)
    destruct (nth_error (wells ps) s0) as [src|] eqn:Esrc; [|discriminate].
    destruct (fold_wells _ (d0 :: dt) src (wells pd)) as [[src' ws]|] eqn:E; [|discriminate]. inversion H; subst; simpl; clear H.
    set (f := fun s w : container => transfer cf s w q) in *.
    assert (Hstep : forall a w a' w', Inv cf a -> Inv cf w -> f a w = Ok (a', w') -> Inv cf a' /\ Inv cf w').
    { intros a w a' w' Ha Hw Hf. unfold f in Hf. exact (transfer_inv cf a w q a' w' Ha Hw Hf). }
    pose proof (Forall_nth_error _ _ _ _ Is Esrc) as Isrc.
    destruct (fold_wells_pres f (Inv cf) (Inv cf) Hstep _ _ _ _ _ Isrc Id E) as [Isrc' Id'].
    destruct (fold_wells_frame f _ _ _ _ _ E) as [Hl Hfr].
    split; [|split; [|split; [|split]]]; auto.
    + intros k. rewrite (wsum_set_nth (cget k) s0 src src' _ Esrc).
      assert (C : cget k src' + wsum (cget k) ws == cget k src + wsum (cget k) (wells pd)).
      { apply (fold_wells_conserve f (Inv cf) (Inv cf) (cget k) (cget k)) with (idxs := d0 :: dt); auto.
        intros a w a' w' Ha Hw Hf. destruct (Hstep _ _ _ _ Ha Hw Hf) as [Ia Iw]. split; [exact Ia|]. split; [exact Iw|].
        unfold cget. apply (transfer_conserves cf a w q a' w'); [apply (inv_wf _ _ Ha) | exact Hf]. }
      lra.
    + intros j Hj. apply nth_error_set_nth_other. intro; subst. apply Hj. left. reflexivity.
    + apply Forall_set_nth; assumption.
  - (* many to one *)
    destruct (nth_error (wells pd) d0) as [dst|] eqn:Edst; [|discriminate].
    destruct (fold_wells _ (s0 :: st) dst (wells ps)) as [[dst' ws]|] eqn:E; [|discriminate]. inversion H; subst; simpl; clear H.
    set (f := fun d w : container => match transfer cf w d q with Ok sd => Ok (snd sd, fst sd) | Err e => Err e end) in *.
    assert (Hf' : forall a w a' w', f a w = Ok (a', w') -> transfer cf w a q = Ok (w', a')).
    { intros a w a' w' Hf. unfold f in Hf. destruct (transfer cf w a q) as [[x y]|]; [|discriminate]. simpl in Hf. inversion Hf; reflexivity. }
    assert (Hstep : forall a w a' w', Inv cf a -> Inv cf w -> f a w = Ok (a', w') -> Inv cf a' /\ Inv cf w').
    { intros a w a' w' Ha Hw Hf. apply Hf' in Hf. destruct (transfer_inv cf w a q w' a' Hw Ha Hf). auto. }
    pose proof (Forall_nth_error _ _ _ _ Id Edst) as Idst.
    destruct (fold_wells_pres f (Inv cf) (Inv cf) Hstep _ _ _ _ _ Idst Is E) as [Idst' Is'].
    destruct (fold_wells_frame f _ _ _ _ _ E) as [Hl Hfr].
    split; [|split; [|split; [|split]]]; auto.
    + intros k. rewrite (wsum_set_nth (cget k) d0 dst dst' _ Edst).
      assert (C : cget k dst' + wsum (cget k) ws == cget k dst + wsum (cget k) (wells ps)).
      { apply (fold_wells_conserve f (Inv cf) (Inv cf) (cget k) (cget k)) with (idxs := s0 :: st); auto.
        intros a w a' w' Ha Hw Hf. destruct (Hstep _ _ _ _ Ha Hw Hf) as [Ia Iw]. split; [exact Ia|]. split; [exact Iw|].
        apply Hf' in Hf. unfold cget. pose proof (transfer_conserves cf w a q w' a' (inv_wf _ _ Hw) Hf k). lra. }
      lra.
    + intros j Hj. apply nth_error_set_nth_other. intro; subst. apply Hj. left. reflexivity.
    + apply Forall_set_nth; assumption.
  - (* element-wise *)
    destruct (pair_wells cf q _ (wells ps) (wells pd)) as [[ss' ds']|] eqn:E; [|discriminate]. inversion H; subst; simpl; clear H.
    destruct (pair_wells_spec cf q _ _ _ _ _ Is Id E) as (Hc & Hfs & Hfd & _ & _ & Iss & Ids).
    split; [|split; [|split; [|split]]]; auto.
    + intros j Hj. apply Hfs. intro Hin. apply Hj. apply in_map_iff in Hin. destruct Hin as [[a b] [Ea Hin]]. simpl in Ea; subst.
      apply in_combine_both in Hin. tauto.
    + intros j Hj. apply Hfd. intro Hin. apply Hj. apply in_map_iff in Hin. destruct Hin as [[a b] [Ea Hin]]. simpl in Ea; subst.
      apply in_combine_both in Hin. tauto.
Qed.

(* ---------- plate -> plate within one plate (disjoint regions) ---------- *)
Theorem p_to_p_same_spec cf p rs rd q p' :
  PInv cf p -> p_to_p_same cf p rs rd q = Ok p' ->
  (forall k, wsum (cget k) (wells p') == wsum (cget k) (wells p)) /\
  (forall j, ~ In j (region_idx (ncols p) rs) -> ~ In j (region_idx (ncols p) rd) -> nth_error (wells p') j = nth_error (wells p) j) /\
  PInv cf p'.
Proof.
  unfold p_to_p_same, PInv. intros Ip H.
  destruct (overlaps _ _) eqn:Eov; [discriminate|]. pose proof (overlaps_false _ _ Eov) as Hdis.
  destruct (region_idx (ncols p) rs) as [|s0 st] eqn:Esi; [discriminate|].
  destruct (region_idx (ncols p) rd) as [|d0 dt] eqn:Edi; [discriminate|].
  unfold bind in H. destruct (dispatch rs rd _ _) as [pg|] eqn:Edis; [|discriminate].
  destruct pg.
  - destruct (nth_error (wells p) s0) as [src|] eqn:Esrc; [|discriminate].
    destruct (fold_wells _ (d0 :: dt) src (wells p)) as [[src' ws]|] eqn:E; [|discriminate]. inversion H; subst; simpl; clear H.
    set (f := fun s w : container => transfer cf s w q) in *.
    assert (Hstep : forall a w a' w', Inv cf a -> Inv cf w -> f a w = Ok (a', w') -> Inv cf a' /\ Inv cf w').
    { intros a w a' w' Ha Hw Hf. unfold f in Hf. exact (transfer_inv cf a w q a' w' Ha Hw Hf). }
    pose proof (Forall_nth_error _ _ _ _ Ip Esrc) as Isrc.
    destruct (fold_wells_pres f (Inv cf) (Inv cf) Hstep _ _ _ _ _ Isrc Ip E) as [Isrc' Ip'].
    destruct (fold_wells_frame f _ _ _ _ _ E) as [Hl Hfr].
    assert (Hs0 : ~ In s0 (d0 :: dt)) by (intro Hin; apply (Hdis s0 s0); [left; reflexivity | exact Hin | reflexivity]).
    assert (Esrc' : nth_error ws s0 = Some src) by (rewrite Hfr; assumption).
    split; [|split].
    + intros k. rewrite (wsum_set_nth (cget k) s0 src src' _ Esrc').
      assert (C : cget k src' + wsum (cget k) ws == cget k src + wsum (cget k) (wells p)).
      { apply (fold_wells_conserve f (Inv cf) (Inv cf) (cget k) (cget k)) with (idxs := d0 :: dt); auto.
        intros a w a' w' Ha Hw Hf. destruct (Hstep _ _ _ _ Ha Hw Hf) as [Ia Iw]. split; [exact Ia|]. split; [exact Iw|].
        unfold cget. apply (transfer_conserves cf a w q a' w'); [apply (inv_wf _ _ Ha) | exact Hf]. }
      lra.
    + intros j Hj1 Hj2. rewrite nth_error_set_nth_other by (intro; subst; apply Hj1; left; reflexivity). apply Hfr. exact Hj2.
    + apply Forall_set_nth; assumption.
  - destruct (nth_error (wells p) d0) as [dst|] eqn:Edst; [|discriminate].
    destruct (fold_wells _ (s0 :: st) dst (wells p)) as [[dst' ws]|] eqn:E; [|discriminate]. inversion H; subst; simpl; clear H.
    set (f := fun d w : container => match transfer cf w d q with Ok sd => Ok (snd sd, fst sd) | Err e => Err e end) in *.
    assert (Hf' : forall a w a' w', f a w = Ok (a', w') -> transfer cf w a q = Ok (w', a')).
    { intros a w a' w' Hf. unfold f in Hf. destruct (transfer cf w a q) as [[x y]|]; [|discriminate]. simpl in Hf. inversion Hf; reflexivity. }
    assert (Hstep : forall a w a' w', Inv cf a -> Inv cf w -> f a w = Ok (a', w') -> Inv cf a' /\ Inv cf w').
    { intros a w a' w' Ha Hw Hf. apply Hf' in Hf. destruct (transfer_inv cf w a q w' a' Hw Ha Hf). auto. }
    pose proof (Forall_nth_error _ _ _ _ Ip Edst) as Idst.
    destruct (fold_wells_pres f (Inv cf) (Inv cf) Hstep _ _ _ _ _ Idst Ip E) as [Idst' Ip'].
    destruct (fold_wells_frame f _ _ _ _ _ E) as [Hl Hfr].
    assert (Hd0 : ~ In d0 (s0 :: st)) by (intro Hin; apply (Hdis d0 d0); [exact Hin | left; reflexivity | reflexivity]).
    assert (Edst' : nth_error ws d0 = Some dst) by (rewrite Hfr; assumption).
    split; [|split].
    + intros k. rewrite (wsum_set_nth (cget k) d0 dst dst' _ Edst').
      assert (C : cget k dst' + wsum (cget k) ws == cget k dst + wsum (cget k) (wells p)).
      { apply (fold_wells_conserve f (Inv cf) (Inv cf) (cget k) (cget k)) with (idxs := s0 :: st); auto.
        intros a w a' w' Ha Hw Hf. destruct (Hstep _ _ _ _ Ha Hw Hf) as [Ia Iw]. split; [exact Ia|]. split; [exact Iw|].
        apply Hf' in Hf. unfold cget. pose proof (transfer_conserves cf w a q w' a' (inv_wf _ _ Hw) Hf k). lra. }
      lra.
    + intros j Hj1 Hj2. rewrite nth_error_set_nth_other by (intro; subst; apply Hj2; left; reflexivity). apply Hfr. exact Hj1.
    + apply Forall_set_nth; assumption.
  - destruct (pair_wells_same cf q _ (wells p)) as [ws|] eqn:E; [|discriminate]. inversion H; subst; simpl; clear H.
    assert (Hne : forall i j, In (i, j) (combine (s0 :: st) (d0 :: dt)) -> i <> j).
    { intros i j Hin. apply in_combine_both in Hin. apply Hdis; tauto. }
    destruct (pair_wells_same_spec cf q _ _ _ Hne Ip E) as (Hc & Hf & _ & Iw).
    split; [|split]; auto.
    intros j Hj1 Hj2. apply Hf.
    + intro Hin. apply Hj1. apply in_map_iff in Hin. destruct Hin as [[a b] [Ea Hin]]. simpl in Ea; subst. apply in_combine_both in Hin. tauto.
    + intro Hin. apply Hj2. apply in_map_iff in Hin. destruct Hin as [[a b] [Ea Hin]]. simpl in Ea; subst. apply in_combine_both in Hin. tauto.
Qed.

(* ---------- shape dispatch (C07): anything but one-to-many, many-to-one or equal shapes is rejected ---------- *)
Theorem dispatch_rejects rs rd ns nd :
  ns <> 1%nat -> nd <> 1%nat -> shape_eqb (region_shape rs) (region_shape rd) = false -> dispatch rs rd ns nd = Err EValue.
Proof.
  intros H1 H2 Hs. unfold dispatch.
  destruct (Nat.eqb ns 1) eqn:E1; [apply Nat.eqb_eq in E1; contradiction|].
  destruct (Nat.eqb nd 1) eqn:E2; [apply Nat.eqb_eq in E2; contradiction|].
  rewrite Hs. rewrite andb_false_r. reflexivity.
Qed.
Theorem dispatch_accepts rs rd ns nd pg :
  dispatch rs rd ns nd = Ok pg ->
  match pg with
  | POneToMany => ns = 1%nat
  | PManyToOne => nd = 1%nat /\ ns <> 1%nat
  | PElementwise => ns = nd /\ shape_eqb (region_shape rs) (region_shape rd) = true
  end.
Proof.
  unfold dispatch. destruct (Nat.eqb ns 1) eqn:E1.
  - destruct (shape_eqb _ _); intros H; inversion H; subst. apply Nat.eqb_eq. exact E1.
  - destruct (Nat.eqb nd 1) eqn:E2.
    + destruct (shape_eqb _ _); intros H; inversion H; subst. split; [apply Nat.eqb_eq; exact E2 | apply Nat.eqb_neq; exact E1].
    + destruct (Nat.eqb ns nd && shape_eqb _ _) eqn:E3; intros H; inversion H; subst.
      apply andb_true_iff in E3. destruct E3 as [Ea Eb]. split; [apply Nat.eqb_eq; exact Ea | exact Eb].
Qed.
