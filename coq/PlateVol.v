(* Volumes reported by a container and a plate add up to the same before and after a dispense into / a collection from a region (C10). *)
Require Import Base Units UnitsThm Contents Container ContainerThm ContainerThm2 Plate PlateThm SizeThm PlateObs.

(* the cached volumes of a container and a plate are additive over a dispense into a region ... *)
Theorem c_to_p_volume cf c p r q c' p' :
  Inv cf c -> PInv cf p -> c_to_p cf c p r q = Ok (c', p') ->
  vol c' + wsum vol (wells p') == vol c + wsum vol (wells p).
Proof.
  unfold c_to_p, PInv. intros Ic Ip H. apply nonempty_ok in H. destruct H as [H _]. unfold bind in H.
  destruct (fold_wells _ _ c (wells p)) as [[c1 ws]|] eqn:E; [|discriminate]. inversion H; subst; simpl. clear H.
  set (f := fun src w : container => transfer cf src w q) in *.
  apply (fold_wells_conserve f (Inv cf) (Inv cf) vol vol) with (idxs := region_idx (ncols p) r); auto.
  intros a w a' w' Ha Hw Hf. destruct (transfer_inv cf a w q a' w' Ha Hw Hf) as [Ia Iw]. split; [exact Ia|]. split; [exact Iw|].
  apply (transfer_volume cf a w q a' w' Ha Hw Hf).
Qed.
(* ... and over a collection from a region *)
Theorem p_to_c_volume cf p r c q p' c' :
  Inv cf c -> PInv cf p -> p_to_c cf p r c q = Ok (p', c') ->
  vol c' + wsum vol (wells p') == vol c + wsum vol (wells p).
Proof.
  unfold p_to_c, PInv. intros Ic Ip H. apply nonempty_ok in H. destruct H as [H _]. unfold bind in H.
  destruct (fold_wells _ _ c (wells p)) as [[c1 ws]|] eqn:E; [|discriminate]. inversion H; subst; simpl. clear H.
  set (f := fun dst w : container => match transfer cf w dst q with Ok sd => Ok (snd sd, fst sd) | Err e => Err e end) in *.
  apply (fold_wells_conserve f (Inv cf) (Inv cf) vol vol) with (idxs := region_idx (ncols p) r); auto.
  intros a w a' w' Ha Hw Hf. unfold f in Hf. destruct (transfer cf w a q) as [[s1 d1]|e] eqn:Et; [|discriminate].
  simpl in Hf. assert (a' = d1 /\ w' = s1) as [-> ->] by (inversion Hf; auto). destruct (transfer_inv cf w a q s1 d1 Hw Ha Et) as [Is Id]. split; [exact Id|]. split; [exact Is|].
  pose proof (transfer_volume cf w a q s1 d1 Hw Ha Et). lra.
Qed.

(* what the plate reports as its total is its wells' cached volumes in the unit asked for *)
Lemma plate_get_volume_scale cf p pr : plate_get_volume cf p pr == wsum vol (wells p) * pmult (vol_pfx cf) / pmult pr.
Proof.
  unfold plate_get_volume, plate_volumes, wsum. induction (wells p) as [|c t IH]; simpl.
  - field. apply pmult_nz.
  - rewrite IH. unfold get_volume. rewrite from_storage_vol_spec. field. apply pmult_nz.
Qed.

(* in reported units: what the container reports and what the plate reports add up to the same before and after *)
Theorem c_to_p_reported_volume cf c p r q c' p' pr :
  Inv cf c -> PInv cf p -> c_to_p cf c p r q = Ok (c', p') ->
  get_volume cf c' pr + plate_get_volume cf p' pr == get_volume cf c pr + plate_get_volume cf p pr.
Proof.
  intros Ic Ip H. pose proof (c_to_p_volume cf c p r q c' p' Ic Ip H) as V.
  rewrite !plate_get_volume_scale. unfold get_volume. rewrite !from_storage_vol_spec.
  assert (E : (vol c' + wsum vol (wells p')) * pmult (vol_pfx cf) / pmult pr == (vol c + wsum vol (wells p)) * pmult (vol_pfx cf) / pmult pr)
    by (rewrite V; reflexivity).
  revert E. generalize (wsum vol (wells p')) (wsum vol (wells p)). intros x y E.
  assert (N : ~ pmult pr == 0) by apply pmult_nz.
  setoid_replace (vol c' * pmult (vol_pfx cf) / pmult pr + x * pmult (vol_pfx cf) / pmult pr) with ((vol c' + x) * pmult (vol_pfx cf) / pmult pr) by (field; exact N).
  setoid_replace (vol c * pmult (vol_pfx cf) / pmult pr + y * pmult (vol_pfx cf) / pmult pr) with ((vol c + y) * pmult (vol_pfx cf) / pmult pr) by (field; exact N).
  exact E.
Qed.
Theorem p_to_c_reported_volume cf p r c q p' c' pr :
  Inv cf c -> PInv cf p -> p_to_c cf p r c q = Ok (p', c') ->
  get_volume cf c' pr + plate_get_volume cf p' pr == get_volume cf c pr + plate_get_volume cf p pr.
Proof.
  intros Ic Ip H. pose proof (p_to_c_volume cf p r c q p' c' Ic Ip H) as V.
  rewrite !plate_get_volume_scale. unfold get_volume. rewrite !from_storage_vol_spec.
  assert (E : (vol c' + wsum vol (wells p')) * pmult (vol_pfx cf) / pmult pr == (vol c + wsum vol (wells p)) * pmult (vol_pfx cf) / pmult pr)
    by (rewrite V; reflexivity).
  revert E. generalize (wsum vol (wells p')) (wsum vol (wells p)). intros x y E.
  assert (N : ~ pmult pr == 0) by apply pmult_nz.
  setoid_replace (vol c' * pmult (vol_pfx cf) / pmult pr + x * pmult (vol_pfx cf) / pmult pr) with ((vol c' + x) * pmult (vol_pfx cf) / pmult pr) by (field; exact N).
  setoid_replace (vol c * pmult (vol_pfx cf) / pmult pr + y * pmult (vol_pfx cf) / pmult pr) with ((vol c + y) * pmult (vol_pfx cf) / pmult pr) by (field; exact N).
  exact E.
Qed.
