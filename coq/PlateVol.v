(* Volumes reported by a container and a plate add up to the same before and after a dispense into / a collection from a region (C10). *)
Require Import Base Units UnitsThm Contents Container ContainerThm ContainerThm2 Plate PlateThm SizeThm PlateObs.

(* the cached volumes of a container and a plate are additive over a dispense into a region ... *)
Theorem c_to_p_volume cf c p r q c' p' :
  Inv cf c -> PInv cf p -> c_to_p cf c p r q = Ok (c', p') ->
  vol c' + wsum vol (wells p') == vol c + wsum vol (wells p).
Proof.
  unfold c_to_p, PInv. intros Ic Ip H. apply nonempty_ok in H. destruct H as [H _]. unfold bind in H.
  destruct (fold_wells _ _ c (wells p)) as [[c1 ws]|] eqn:E; [|discriminate]. inversion H; subst; simpl. clear H.
  set (f := fun src w : container => transfer cf src w q) in *.
  apply (fold_wells_conserve f (Inv cf) (Inv cf) vol vol) with (idxs := region_idx (ncols p) r); auto.
  intros a w a' w' Ha Hw Hf. destruct (transfer_inv cf a w q a' w' Ha Hw Hf) as [Ia Iw]. split; [exact Ia|]. split; [exact Iw|].
  apply (transfer_volume cf a w q a' w' Ha Hw Hf).
Qed.
(* ... and over a collection from a region *)
Theorem p_to_c_volume cf p r c q p' c' :
  Inv cf c -> PInv cf p -> p_to_c cf p r c q = Ok (p', c') ->
  vol c' + wsum vol (wells p') == vol c + wsum vol (wells p).
Proof.
  unfold p_to_c, PInv. intros Ic Ip H. apply nonempty_ok in H. destruct H as [H _]. unfold bind in H.
  destruct (fold_wells _ _ c (wells p)) as [[c1 ws]|] eqn:E; [|discriminate]. inversion H; subst; simpl. clear H.
  set (f := fun dst w : container => match transfer cf w dst q with Ok sd => Ok (snd sd, fst sd) | Err e => Err e end) in *.
  apply (fold_wells_conserve f (Inv cf) (Inv cf) vol vol) with (idxs := region_idx (ncols p) r); auto.
  intros a w a' w' Ha Hw Hf. unfold f in Hf. destruct (transfer cf w a q) as [[s1 d1]|e] eqn:Et; [|discriminate].
  simpl in Hf. assert (a' = d1 /\ w' = s1) as [-> ->] by (inversion Hf; auto). destruct (transfer_inv cf w a q s1 d1 Hw Ha Et) as [Is Id]. split; [exact Id|]. split; [exact Is|].
  pose proof (transfer_volume cf w a q s1 d1 Hw Ha Et). lra.
Qed.

(* what the plate reports as its total is its wells' cached volumes in the unit asked for *)
Lemma plate_get_volume_scale cf p pr : plate_get_volume cf p pr == wsum vol (wells p) * pmult (vol_pfx cf) / pmult pr.
Proof.
  unfold plate_get_volume, plate_volumes, wsum. induction (wells p) as [|c t IH]; simpl.
  - field. apply pmult_nz.
  - rewrite IH. unfold get_volume. rewrite from_storage_vol_spec. field. apply pmult_nz.
Qed.

(* in reported units: what the container reports and what the plate reports add up to the same before and after *)
Theorem c_to_p_reported_volume cf c p r q c' p' pr :
  Inv cf c -> PInv cf p -> c_to_p cf c p r q = Ok (c', p') ->
  get_volume cf c' pr + plate_get_volume cf p' pr == get_volume cf c pr + plate_get_volume cf p pr.
Proof.
  intros Ic Ip H. pose proof (c_to_p_volume cf c p r q c' p' Ic Ip H) as V.
  rewrite !plate_get_volume_scale. unfold get_volume. rewrite !from_storage_vol_spec.
  assert (E : (vol c' + wsum vol (wells p')) * pmult (vol_pfx cf) / pmult pr == (vol c + wsum vol (wells p)) * pmult (vol_pfx cf) / pmult pr)
    by (rewrite V; reflexivity).
  revert E. generalize (wsum vol (wells p')) (wsum vol (wells p)). intros x y E.
  assert (N : ~ pmult pr == 0) by apply pmult_nz.
  setoid_replace (vol c' * pmult (vol_pfx cf) / pmult pr + x * pmult (vol_pfx cf) / pmult pr) with ((vol c' + x) * pmult (vol_pfx cf) / pmult pr) by (field; exact N).
  setoid_replace (vol c * pmult (vol_pfx cf) / pmult pr + y * pmult (vol_pfx cf) / pmult pr) with ((vol c + y) * pmult (vol_pfx cf) / pmult pr) by (field; exact N).
  exact E.
Qed.
Theorem p_to_c_reported_volume cf p r c q p' c' pr :
  Inv cf c -> PInv cf p -> p_to_c cf p r c q = Ok (p', c') ->
  get_volume cf c' pr + plate_get_volume cf p' pr == get_volume cf c pr + plate_get_volume cf p pr.
Proof.
  intros Ic Ip H. pose proof (p_to_c_volume cf p r c q p' c' Ic Ip H) as V.
  rewrite !plate_get_volume_scale. unfold get_volume. rewrite !from_storage_vol_spec.
  assert (E : (vol c' + wsum vol (wells p')) * pmult (vol_pfx cf) / pmult pr == (vol c + wsum vol (wells p)) * pmult (vol_pfx cf) / pmult pr)
    by (rewrite V; reflexivity).
  revert E. generalize (wsum vol (wells p')) (wsum vol (wells p)). intros x y E.
  assert (N : ~ pmult pr == 0) by apply pmult_nz.
  setoid_replace (vol c' * pmult (vol_pfx cf) / pmult pr + x * pmult (vol_pfx cf) / pmult pr) with ((vol c' + x) * pmult (vol_pfx cf) / pmult pr) by (field; exact N).
  setoid_replace (vol c * pmult (vol_pfx cf) / pmult pr + y * pmult (vol_pfx cf) / pmult pr) with ((vol c + y) * pmult (vol_pfx cf) / pmult pr) by (field; exact N).
  exact E.
Qed.

Lemma pair_wells_volume cf q pairs : forall ss ds ss' ds',
  Forall (Inv cf) ss -> Forall (Inv cf) ds -> pair_wells cf q pairs ss ds = Ok (ss', ds') ->
  wsum vol ss' + wsum vol ds' == wsum vol ss + wsum vol ds.
Proof.
  induction pairs as [|[i j] t IH]; intros ss ds ss' ds' Is Id H.
  - simpl in H. inversion H; subst. reflexivity.
  - simpl in H. destruct (nth_error ss i) as [s|] eqn:Es; [|discriminate].
    destruct (nth_error ds j) as [d|] eqn:Ed; [|discriminate]. unfold bind in H.
    destruct (transfer cf s d q) as [[s1 d1]|] eqn:Et; [|discriminate]. simpl in H.
    pose proof (Forall_nth_error _ _ _ _ Is Es) as Hs. pose proof (Forall_nth_error _ _ _ _ Id Ed) as Hd.
    destruct (transfer_inv cf s d q s1 d1 Hs Hd Et) as [Hs1 Hd1].
    apply IH in H; [|apply Forall_set_nth; assumption|apply Forall_set_nth; assumption].
    rewrite H. rewrite (wsum_set_nth vol i s s1 ss Es), (wsum_set_nth vol j d d1 ds Ed).
    pose proof (transfer_volume cf s d q s1 d1 Hs Hd Et). lra.
Qed.

(* two plates: the wells' cached volumes of both plates together are unchanged by a transfer between regions
   (one to many, many to one, element-wise) *)
Theorem p_to_p_volume cf ps rs pd rd q ps' pd' :
  PInv cf ps -> PInv cf pd -> p_to_p cf ps rs pd rd q = Ok (ps', pd') ->
  wsum vol (wells ps') + wsum vol (wells pd') == wsum vol (wells ps) + wsum vol (wells pd).
Proof.
  unfold p_to_p, PInv. intros Is Id H.
  destruct (region_idx (ncols ps) rs) as [|s0 st] eqn:Esi; [discriminate|].
  destruct (region_idx (ncols pd) rd) as [|d0 dt] eqn:Edi; [discriminate|].
  unfold bind in H. destruct (dispatch rs rd _ _) as [pg|] eqn:Edis; [|discriminate].
  destruct pg.
  - destruct (nth_error (wells ps) s0) as [src|] eqn:Esrc; [|discriminate].
    destruct (fold_wells _ (d0 :: dt) src (wells pd)) as [[src' ws]|] eqn:E; [|discriminate]. inversion H; subst; simpl; clear H.
    set (f := fun s w : container => transfer cf s w q) in *.
    pose proof (Forall_nth_error _ _ _ _ Is Esrc) as Isrc.
    rewrite (wsum_set_nth vol s0 src src' _ Esrc).
    assert (C : vol src' + wsum vol ws == vol src + wsum vol (wells pd)).
    { apply (fold_wells_conserve f (Inv cf) (Inv cf) vol vol) with (idxs := d0 :: dt); auto.
      intros a w a' w' Ha Hw Hf. destruct (transfer_inv cf a w q a' w' Ha Hw Hf) as [Ia Iw]. split; [exact Ia|]. split; [exact Iw|].
      apply (transfer_volume cf a w q a' w' Ha Hw Hf). }
    lra.
  - destruct (nth_error (wells pd) d0) as [dst|] eqn:Edst; [|discriminate].
    destruct (fold_wells _ (s0 :: st) dst (wells ps)) as [[dst' ws]|] eqn:E; [|discriminate]. inversion H; subst; simpl; clear H.
    set (f := fun d w : container => match transfer cf w d q with Ok sd => Ok (snd sd, fst sd) | Err e => Err e end) in *.
    assert (Hf' : forall a w a' w', f a w = Ok (a', w') -> transfer cf w a q = Ok (w', a')).
    { intros a w a' w' Hf. unfold f in Hf. destruct (transfer cf w a q) as [[x y]|]; [|discriminate]. simpl in Hf. inversion Hf; reflexivity. }
    pose proof (Forall_nth_error _ _ _ _ Id Edst) as Idst.
    rewrite (wsum_set_nth vol d0 dst dst' _ Edst).
    assert (C : vol dst' + wsum vol ws == vol dst + wsum vol (wells ps)).
    { apply (fold_wells_conserve f (Inv cf) (Inv cf) vol vol) with (idxs := s0 :: st); auto.
      intros a w a' w' Ha Hw Hf. apply Hf' in Hf. destruct (transfer_inv cf w a q w' a' Hw Ha Hf) as [Iw Ia]. split; [exact Ia|]. split; [exact Iw|].
      pose proof (transfer_volume cf w a q w' a' Hw Ha Hf). lra. }
    lra.
  - destruct (pair_wells cf q _ (wells ps) (wells pd)) as [[ss' ds']|] eqn:E; [|discriminate]. inversion H; subst; simpl; clear H.
    apply (pair_wells_volume cf q _ _ _ _ _ Is Id E).
Qed.
Theorem p_to_p_reported_volume cf ps rs pd rd q ps' pd' pr :
  PInv cf ps -> PInv cf pd -> p_to_p cf ps rs pd rd q = Ok (ps', pd') ->
  plate_get_volume cf ps' pr + plate_get_volume cf pd' pr == plate_get_volume cf ps pr + plate_get_volume cf pd pr.
Proof.
  intros Is Id H. pose proof (p_to_p_volume cf ps rs pd rd q ps' pd' Is Id H) as V.
  rewrite !plate_get_volume_scale.
  assert (E : (wsum vol (wells ps') + wsum vol (wells pd')) * pmult (vol_pfx cf) / pmult pr == (wsum vol (wells ps) + wsum vol (wells pd)) * pmult (vol_pfx cf) / pmult pr)
    by (rewrite V; reflexivity).
  revert E. generalize (wsum vol (wells ps')) (wsum vol (wells pd')) (wsum vol (wells ps)) (wsum vol (wells pd)). intros a b c d E.
  assert (N : ~ pmult pr == 0) by apply pmult_nz.
  setoid_replace (a * pmult (vol_pfx cf) / pmult pr + b * pmult (vol_pfx cf) / pmult pr) with ((a + b) * pmult (vol_pfx cf) / pmult pr) by (field; exact N).
  setoid_replace (c * pmult (vol_pfx cf) / pmult pr + d * pmult (vol_pfx cf) / pmult pr) with ((c + d) * pmult (vol_pfx cf) / pmult pr) by (field; exact N).
  exact E.
Qed.

Lemma pair_wells_same_volume cf q pairs : forall ws ws',
  (forall i j, In (i, j) pairs -> i <> j) ->
  Forall (Inv cf) ws -> pair_wells_same cf q pairs ws = Ok ws' -> wsum vol ws' == wsum vol ws.
Proof.
  induction pairs as [|[i j] t IH]; intros ws ws' Hne Iw H.
  - simpl in H. inversion H; subst. reflexivity.
  - simpl in H. destruct (nth_error ws i) as [s|] eqn:Es; [|discriminate].
    destruct (nth_error ws j) as [d|] eqn:Ed; [|discriminate]. unfold bind in H.
    destruct (transfer cf s d q) as [[s1 d1]|] eqn:Et; [|discriminate]. simpl in H.
    pose proof (Forall_nth_error _ _ _ _ Iw Es) as Hs. pose proof (Forall_nth_error _ _ _ _ Iw Ed) as Hd.
    destruct (transfer_inv cf s d q s1 d1 Hs Hd Et) as [Hs1 Hd1].
    assert (Hij : i <> j) by (apply Hne; left; reflexivity).
    apply IH in H; [| intros; apply Hne; right; assumption | apply Forall_set_nth; [apply Forall_set_nth|]; assumption].
    rewrite H.
    assert (Ed' : nth_error (set_nth i s1 ws) j = Some d) by (rewrite nth_error_set_nth_other; assumption).
    rewrite (wsum_set_nth vol j d d1 _ Ed'), (wsum_set_nth vol i s s1 ws Es).
    pose proof (transfer_volume cf s d q s1 d1 Hs Hd Et). lra.
Qed.

(* source and destination regions on one plate: the plate's wells hold the same volume in all afterwards *)
Theorem p_to_p_same_volume cf p rs rd q p' :
  PInv cf p -> p_to_p_same cf p rs rd q = Ok p' -> wsum vol (wells p') == wsum vol (wells p).
Proof.
  unfold p_to_p_same, PInv. intros Ip H.
  destruct (overlaps _ _) eqn:Eov; [discriminate|]. pose proof (overlaps_false _ _ Eov) as Hdis.
  destruct (region_idx (ncols p) rs) as [|s0 st] eqn:Esi; [discriminate|].
  destruct (region_idx (ncols p) rd) as [|d0 dt] eqn:Edi; [discriminate|].
  unfold bind in H. destruct (dispatch rs rd _ _) as [pg|] eqn:Edis; [|discriminate].
  destruct pg.
  - destruct (nth_error (wells p) s0) as [src|] eqn:Esrc; [|discriminate].
    destruct (fold_wells _ (d0 :: dt) src (wells p)) as [[src' ws]|] eqn:E; [|discriminate]. inversion H; subst; simpl; clear H.
    set (f := fun s w : container => transfer cf s w q) in *.
    pose proof (Forall_nth_error _ _ _ _ Ip Esrc) as Isrc.
    destruct (fold_wells_frame f _ _ _ _ _ E) as [Hl Hfr].
    assert (Hs0 : ~ In s0 (d0 :: dt)) by (intro Hin; apply (Hdis s0 s0); [left; reflexivity | exact Hin | reflexivity]).
    assert (Esrc' : nth_error ws s0 = Some src) by (rewrite Hfr; assumption).
    rewrite (wsum_set_nth vol s0 src src' _ Esrc').
    assert (C : vol src' + wsum vol ws == vol src + wsum vol (wells p)).
    { apply (fold_wells_conserve f (Inv cf) (Inv cf) vol vol) with (idxs := d0 :: dt); auto.
      intros a w a' w' Ha Hw Hf. destruct (transfer_inv cf a w q a' w' Ha Hw Hf) as [Ia Iw]. split; [exact Ia|]. split; [exact Iw|].
      apply (transfer_volume cf a w q a' w' Ha Hw Hf). }
    lra.
  - destruct (nth_error (wells p) d0) as [dst|] eqn:Edst; [|discriminate].
    destruct (fold_wells _ (s0 :: st) dst (wells p)) as [[dst' ws]|] eqn:E; [|discriminate]. inversion H; subst; simpl; clear H.
    set (f := fun d w : container => match transfer cf w d q with Ok sd => Ok (snd sd, fst sd) | Err e => Err e end) in *.
    assert (Hf' : forall a w a' w', f a w = Ok (a', w') -> transfer cf w a q = Ok (w', a')).
    { intros a w a' w' Hf. unfold f in Hf. destruct (transfer cf w a q) as [[x y]|]; [|discriminate]. simpl in Hf. inversion Hf; reflexivity. }
    pose proof (Forall_nth_error _ _ _ _ Ip Edst) as Idst.
    destruct (fold_wells_frame f _ _ _ _ _ E) as [Hl Hfr].
    assert (Hd0 : ~ In d0 (s0 :: st)) by (intro Hin; apply (Hdis d0 d0); [exact Hin | left; reflexivity | reflexivity]).
    assert (Edst' : nth_error ws d0 = Some dst) by (rewrite Hfr; assumption).
    rewrite (wsum_set_nth vol d0 dst dst' _ Edst').
    assert (C : vol dst' + wsum vol ws == vol dst + wsum vol (wells p)).
    { apply (fold_wells_conserve f (Inv cf) (Inv cf) vol vol) with (idxs := s0 :: st); auto.
      intros a w a' w' Ha Hw Hf. apply Hf' in Hf. destruct (transfer_inv cf w a q w' a' Hw Ha Hf) as [Iw Ia]. split; [exact Ia|]. split; [exact Iw|].
      pose proof (transfer_volume cf w a q w' a' Hw Ha Hf). lra. }
    lra.
  - destruct (pair_wells_same cf q _ (wells p)) as [ws|] eqn:E; [|discriminate]. inversion H; subst; simpl; clear H.
    assert (Hne : forall i j, In (i, j) (combine (s0 :: st) (d0 :: dt)) -> i <> j).
    { intros i j Hin. apply in_combine_both in Hin. apply Hdis; tauto. }
    apply (pair_wells_same_volume cf q _ _ _ Hne Ip E).
Qed.
(* so the plate reports the same total, in any unit *)
Theorem p_to_p_same_reported_volume cf p rs rd q p' pr :
  PInv cf p -> p_to_p_same cf p rs rd q = Ok p' -> plate_get_volume cf p' pr == plate_get_volume cf p pr.
Proof.
  intros Ip H. rewrite !plate_get_volume_scale. rewrite (p_to_p_same_volume cf p rs rd q p' Ip H). reflexivity.
Qed.
