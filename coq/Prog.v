(* Prog.v -- the program DSL of the correspondence check: a history of public operations over named
   values.  The same program is executed on the implementation by harness/executor.py and on the model by
   [run]; both print one observation per operation.  Not used by any theorem except the history
   invariants of Props (which quantify over [list op]). *)
Require Import Base Units Contents Container Plate Dilute Solve.

Inductive obj := OC (c : container) | OP (p : plate).
Definition env := list (nat * obj).
Fixpoint lookup (v : nat) (e : env) : option obj :=
  match e with [] => None | (k, o) :: t => if Nat.eqb k v then Some o else lookup v t end.
Definition bindv (v : nat) (o : obj) (e : env) : env := (v, o) :: e.

(* an operand: a container variable, or a region of a plate variable *)
Inductive ref := RefC (v : nat) | RefP (v : nat) (r : region).

Inductive op :=
| ONewC (out name : nat) (mx : option qty) (init : list (substance * qty))
| ONewP (out name rows cols : nat) (mx : qty)
| OTransfer (src dst : ref) (q : qty) (osrc odst : nat)
| ORemove (t : ref) (w : what) (out : nat)
| OFill (t : ref) (solvent : substance) (q : qty) (out : nat)
| ODilute (v : nat) (solute : substance) (c : conc) (solvent : substance) (out : nat)
| OSolution (out name : nat) (solutes : list substance) (solvent : substance) (m : sol_mode)
| OSolutionC (out name : nat) (solutes : list substance) (solventv : nat) (m : sol_mode) (osolv : nat)
| OSolutionFrom (src : nat) (solute : substance) (c : conc) (solvent : substance) (q : qty) (name osrc out : nat)
| OSolutionFromC (src : nat) (solute : substance) (c : conc) (solventv : nat) (q : qty) (name osrc osolv out : nat).

Definition getC (e : env) (v : nat) : result container :=
  match lookup v e with Some (OC c) => Ok c | _ => Err EType end.
Definition getP (e : env) (v : nat) : result plate :=
  match lookup v e with Some (OP p) => Ok p | _ => Err EType end.

(* one operation: the list of (variable, new value) it returns *)
Definition step (cf : cfg) (e : env) (o : op) : result (list (nat * obj)) :=
  match o with
  | ONewC out name mx init => do c <- make_container cf name mx init; Ok [(out, OC c)]
  | ONewP out name rows cols mx => do p <- new_plate cf name rows cols mx; Ok [(out, OP p)]
  | OTransfer (RefC s) (RefC d) q os od =>
      if Nat.eqb s d then Err EValue else
      do cs <- getC e s; do cd <- getC e d; do r <- transfer cf cs cd q; Ok [(os, OC (fst r)); (od, OC (snd r))]
  | OTransfer (RefC s) (RefP d rd) q os od =>
      do cs <- getC e s; do pd <- getP e d; do r <- c_to_p cf cs pd rd q; Ok [(os, OC (fst r)); (od, OP (snd r))]
  | OTransfer (RefP s rs) (RefC d) q os od =>
      do ps <- getP e s; do cd <- getC e d; do r <- p_to_c cf ps rs cd q; Ok [(os, OP (fst r)); (od, OC (snd r))]
  | OTransfer (RefP s rs) (RefP d rd) q os od =>
      if Nat.eqb s d then do p <- getP e s; do p' <- p_to_p_same cf p rs rd q; Ok [(os, OP p'); (od, OP p')]
      else do ps <- getP e s; do pd <- getP e d; do r <- p_to_p cf ps rs pd rd q; Ok [(os, OP (fst r)); (od, OP (snd r))]
  | ORemove (RefC v) w out => do c <- getC e v; Ok [(out, OC (remove cf c w))]
  | ORemove (RefP v r) w out => do p <- getP e v; do p' <- premove cf p r w; Ok [(out, OP p')]
  | OFill (RefC v) s q out => do c <- getC e v; do c' <- fill_to cf c s q; Ok [(out, OC c')]
  | OFill (RefP v r) s q out => do p <- getP e v; do p' <- pfill_to cf p r s q; Ok [(out, OP p')]
  | ODilute v solute c solvent out => do k <- getC e v; do k' <- dilute cf k solute c solvent; Ok [(out, OC k')]
  | OSolution out name solutes solvent m => do c <- create_solution cf name solutes solvent m; Ok [(out, OC c)]
  | OSolutionC out name solutes sv m osolv =>
      do k <- getC e sv; do r <- create_solution_c cf name solutes k m; Ok [(osolv, OC (fst r)); (out, OC (snd r))]
  | OSolutionFrom src solute c solvent q name osrc out =>
      do k <- getC e src; do r <- create_solution_from cf k solute c solvent q name; Ok [(osrc, OC (fst r)); (out, OC (snd r))]
  | OSolutionFromC src solute c sv q name osrc osolv out =>
      if Nat.eqb src sv then Err EValue else
      do k <- getC e src; do ks <- getC e sv; do r <- create_solution_from_c cf k solute c ks q name;
      Ok [(osrc, OC (fst (fst r))); (osolv, OC (snd (fst r))); (out, OC (snd r))]
  end.

Definition assign (e : env) (l : list (nat * obj)) : env := fold_left (fun e' p => bindv (fst p) (snd p) e') l e.

(* a failed operation leaves the environment unchanged and the history continues *)
Fixpoint run (cf : cfg) (e : env) (ops : list op) : list (result (list (nat * obj))) :=
  match ops with
  | [] => []
  | o :: t => let r := step cf e o in
              r :: run cf (match r with Ok l => assign e l | Err _ => e end) t
  end.

Definition showObj (o : obj) : list Z := match o with OC c => 1%Z :: showContainer c | OP p => 2%Z :: showPlate p end.
Definition showStep (r : result (list (nat * obj))) : list Z :=
  match r with
  | Err er => [0%Z; err_code er]
  | Ok l => 1%Z :: Z.of_nat (length l) :: flat_map (fun p => Z.of_nat (fst p) :: showObj (snd p)) l
  end.
Definition showRun (cf : cfg) (ops : list op) : list Z := flat_map showStep (run cf [] ops).
