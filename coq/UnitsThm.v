(* UnitsThm.v -- theorems about the hand-written unit model (C06, used by everything else). *)
Require Import Base Units.

Definition optQeq (a b : option Q) : Prop :=
  match a, b with Some x, Some y => x == y | None, None => True | _, _ => False end.

Ltac units_cases s fb tb :=
  destruct s as [i k m d a]; unfold wf_subst in *; simpl in *;
  destruct k, fb, tb; simpl in *.

(* the conversion table multiplies by exactly the chemistry factor *)
Theorem conv_factor s q p1 b1 p2 b2 f :
  wf_subst s -> factor s b1 b2 = Some f ->
  exists r, conv s q (p1, b1) (p2, b2) = Some r /\ r == q * pmult p1 * f / pmult p2.
Proof.
  intros Hwf Hf. pose proof (pmult_pos p1) as H1. pose proof (pmult_pos p2) as H2.
  unfold conv, conv_base, factor, gper, is_enzyme in *.
  destruct s as [i k m d a]; unfold wf_subst in Hwf; simpl in *. destruct Hwf as (Hm & Hd & Ha).
  destruct k, b1, b2; simpl in *; inversion Hf; subst; clear Hf;
    (eexists; split; [reflexivity | field; repeat split; lra]).
Qed.

(* enzymes carry no moles, non-enzymes no activity: those conversions yield zero *)
Theorem conv_zero_cells s q p1 b1 p2 b2 :
  factor s b1 b2 = None -> (b1 = BU -> is_enzyme s = true) ->
  exists r, conv s q (p1, b1) (p2, b2) = Some r /\ r == 0.
Proof.
  intros Hf Hu. pose proof (pmult_pos p2) as H2.
  unfold conv, conv_base, factor, gper, is_enzyme in *.
  destruct s as [i k m d a]; simpl in *.
  destruct k, b1, b2; simpl in *; try discriminate Hf;
    try (specialize (Hu eq_refl); discriminate Hu);
    (eexists; split; [reflexivity | field; lra]).
Qed.

(* measuring a non-enzyme in activity units is rejected *)
Theorem conv_U_rejected s q p1 tu : is_enzyme s = false -> conv s q (p1, BU) tu = None.
Proof.
  intros He. unfold conv, conv_base. simpl. rewrite He. reflexivity.
Qed.
Theorem conv_accepts s q fu tu : (snd fu = BU -> is_enzyme s = true) -> exists r, conv s q fu tu = Some r.
Proof.
  intros H. unfold conv, conv_base. destruct fu as [p b]; simpl in *.
  destruct b; simpl; try (eexists; reflexivity).
  rewrite (H eq_refl). simpl. eexists; reflexivity.
Qed.

(* linearity in the amount *)
Theorem conv_linear s a q1 q2 fu tu r1 r2 :
  conv s q1 fu tu = Some r1 -> conv s q2 fu tu = Some r2 ->
  exists r, conv s (a * q1 + q2) fu tu = Some r /\ r == a * r1 + r2.
Proof.
  destruct fu as [p1 b1], tu as [p2 b2]. pose proof (pmult_pos p2) as H2.
  unfold conv, conv_base, is_enzyme; simpl.
  destruct s as [i k m d ac]; simpl.
  destruct k, b1, b2; simpl; intros E1 E2; inversion E1; inversion E2; subst;
    (eexists; split; [reflexivity | unfold Qdiv; ring]).
Qed.

(* composition a -> b -> c equals a -> c wherever the factors are finite and non-zero *)
Theorem conv_compose s q u1 u2 u3 f12 f23 r12 :
  wf_subst s -> factor s (snd u1) (snd u2) = Some f12 -> factor s (snd u2) (snd u3) = Some f23 ->
  conv s q u1 u2 = Some r12 ->
  optQeq (conv s r12 u2 u3) (conv s q u1 u3).
Proof.
  destruct u1 as [p1 b1], u2 as [p2 b2], u3 as [p3 b3]. simpl.
  intros Hwf F12 F23.
  pose proof (pmult_pos p1) as H1. pose proof (pmult_pos p2) as H2. pose proof (pmult_pos p3) as H3.
  unfold conv, conv_base, factor, gper, is_enzyme in *.
  destruct s as [i k m d a]; unfold wf_subst in Hwf; simpl in *. destruct Hwf as (Hm & Hd & Ha).
  destruct k, b1, b2; simpl in *; try discriminate F12; intros E; inversion E; subst; clear E;
    destruct b3; simpl in *; try discriminate F23; unfold optQeq; field; repeat split; lra.
Qed.

Theorem conv_roundtrip s q u1 u2 f r12 :
  wf_subst s -> factor s (snd u1) (snd u2) = Some f ->
  conv s q u1 u2 = Some r12 -> optQeq (conv s r12 u2 u1) (Some q).
Proof.
  destruct u1 as [p1 b1], u2 as [p2 b2]. simpl. intros Hwf F12.
  pose proof (pmult_pos p1) as H1. pose proof (pmult_pos p2) as H2.
  unfold conv, conv_base, factor, gper, is_enzyme in *.
  destruct s as [i k m d a]; unfold wf_subst in Hwf; simpl in *. destruct Hwf as (Hm & Hd & Ha).
  destruct k, b1, b2; simpl in *; try discriminate F12; intros E; inversion E; subst; clear E;
    unfold optQeq; field; repeat split; lra.
Qed.

Theorem factor_consistent s a b c fab fbc :
  wf_subst s -> factor s a b = Some fab -> factor s b c = Some fbc ->
  exists fac, factor s a c = Some fac /\ fac == fab * fbc.
Proof.
  intros Hwf. unfold factor, gper, is_enzyme.
  destruct s as [i k m d ac]; unfold wf_subst in Hwf; simpl in *. destruct Hwf as (Hm & Hd & Ha).
  destruct k, a, b; simpl; intros E1; try discriminate E1; inversion E1; subst; clear E1;
    destruct c; simpl; intros E2; try discriminate E2; inversion E2; subst; clear E2;
    (eexists; split; [reflexivity | field; repeat split; lra]).
Qed.

Theorem factor_nonzero s a b f : wf_subst s -> factor s a b = Some f -> 0 < f.
Proof.
  intros Hwf. unfold factor, gper, is_enzyme.
  destruct s as [i k m d ac]; unfold wf_subst in Hwf; simpl in *. destruct Hwf as (Hm & Hd & Ha).
  assert (Hi: forall x, 0 < x -> 0 < / x) by (intros; apply Qinv_lt_0_compat; assumption).
  destruct k, a, b; simpl; intros E; try discriminate E; inversion E; subst; clear E; unfold Qdiv;
    repeat (apply Qmult_lt_0_compat || apply Hi); try lra.
Qed.

(* storage conversions are mutually inverse and equal the ratio of the prefix multipliers *)
Theorem to_storage_vol_spec c v p : to_storage_vol c v p == v * pmult p / pmult (vol_pfx c).
Proof. unfold to_storage_vol. apply rnd_eq. Qed.
Theorem from_storage_vol_spec c v p : from_storage_vol c v p == v * pmult (vol_pfx c) / pmult p.
Proof. unfold from_storage_vol. apply rnd_eq. Qed.
Theorem to_storage_mol_spec c v p : to_storage_mol c v p == v * pmult p / pmult (mol_pfx c).
Proof. unfold to_storage_mol. apply rnd_eq. Qed.
Theorem from_storage_mol_spec c v p : from_storage_mol c v p == v * pmult (mol_pfx c) / pmult p.
Proof. unfold from_storage_mol. apply rnd_eq. Qed.
Theorem storage_vol_inverse c v p : from_storage_vol c (to_storage_vol c v p) p == v.
Proof.
  rewrite from_storage_vol_spec, to_storage_vol_spec.
  pose proof (pmult_pos p). pose proof (pmult_pos (vol_pfx c)). field. split; lra.
Qed.
Theorem storage_mol_inverse c v p : from_storage_mol c (to_storage_mol c v p) p == v.
Proof.
  rewrite from_storage_mol_spec, to_storage_mol_spec.
  pose proof (pmult_pos p). pose proof (pmult_pos (mol_pfx c)). field. split; lra.
Qed.
(* storage conversion agrees with convert_from between the same base unit *)
Theorem storage_vol_is_conv c s v p : optQeq (conv s v (p, BL) (vol_unit c)) (Some (to_storage_vol c v p)).
Proof.
  unfold conv, conv_base, vol_unit; simpl. rewrite to_storage_vol_spec. reflexivity.
Qed.

(* stored amounts always convert (no reject) *)
Lemma conv_stored_some c s a tu : exists r, conv s a (stored_unit c s) tu = Some r /\ conv_stored c s a tu = r.
Proof.
  unfold conv_stored, stored_unit. destruct (is_enzyme s) eqn:E.
  - destruct (conv_accepts s a (P0, BU) tu) as [r Hr]; [intros _; exact E|]. exists r. rewrite Hr. auto.
  - destruct (conv_accepts s a (mol_unit c) tu) as [r Hr]; [unfold mol_unit; simpl; discriminate|].
    exists r. rewrite Hr. auto.
Qed.

(* non-vacuity: a concrete well-formed substance of each kind and a non-trivial conversion *)
Example water := {| sid := 1; knd := Liquid; mw := 18 # 1; dens := 1; act := 1 |}.
Example conv_example : conv water (25 # 10) (Pm, BL) (Pu, BMol) = Some ((25 # 10) * (1 # 1000) * 1000 * 1 / (18 # 1) / (1 # 1000000)).
Proof. reflexivity. Qed.
Example water_wf : wf_subst water. Proof. unfold wf_subst; simpl; repeat split; reflexivity. Qed.
