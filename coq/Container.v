(* Container.v -- executable model of pyplate.Container (definitions only; proofs in ContainerThm.v).
   Mirrors /repo/pyplate/pyplate.py: __init__, _self_add, _add, _transfer, remove, fill_to and the
   observers get_volume / get_concentration.  Amounts are in storage units (moles prefix of the
   configuration; activity units for enzymes), volumes in the storage volume unit. *)
Require Import Base Units Contents.

(* a parsed quantity string 'v pU': value, prefix, base unit *)
Record qty := { qval : Q; qpfx : prefix; qbase : base }.
(* Unit.parse_quantity: the value in the unprefixed base unit *)
Definition qv (q : qty) : Q := qval q * pmult (qpfx q).

Record container := { cname : nat; cont : contents; vol : Q; maxv : option Q }.

Definition over (v : Q) (m : option Q) : bool := match m with None => false | Some mx => Qgtb v mx end.

(* total of the contents measured in unit u (enzymes through activity, others through moles) *)
Definition total_in (cf : cfg) (c : contents) (u : unit_) : Q := sum_by (fun s a => conv_stored cf s a u) c.
Definition volume_of (cf : cfg) (c : contents) : Q := total_in cf c (vol_unit cf).
Definition total_mol (c : contents) : Q := sum_by (fun s a => if is_enzyme s then 0 else a) c.
Definition total_act (c : contents) : Q := sum_by (fun s a => if is_enzyme s then a else 0) c.

(* Container(name, max_volume): the unit of max_volume is ignored by the code (value * prefix, read as litres) *)
Definition new_container (cf : cfg) (name : nat) (mx : option qty) : result container :=
  match mx with
  | None => Ok {| cname := name; cont := []; vol := 0; maxv := None |}
  | Some q => if Qle_bool (qv q) 0 then Err EValue
              else Ok {| cname := name; cont := []; vol := 0; maxv := Some (to_storage_vol cf (qv q) P0) |}
  end.

(* Container._self_add *)
Definition self_add (cf : cfg) (c : container) (s : substance) (q : qty) : result container :=
  match conv s (qv q) (P0, qbase q) (vol_unit cf), conv s (qv q) (P0, qbase q) (stored_unit cf s) with
  | Some vta, Some ata =>
      if Qltb (rnd ata) 0 || Qltb (rnd vta) 0 then Err EValue
      else if over (rnd (vol c + vta)) (maxv c) then Err EValue
      else Ok {| cname := cname c; cont := upd s (rnd (get s (cont c) + ata)) (cont c);
                 vol := rnd (vol c + vta); maxv := maxv c |}
  | _, _ => Err EValue
  end.

Fixpoint add_all (cf : cfg) (c : container) (l : list (substance * qty)) : result container :=
  match l with
  | [] => Ok c
  | (s, q) :: t => do c' <- self_add cf c s q; add_all cf c' t
  end.

(* Container(name, max_volume, initial_contents) *)
Definition make_container (cf : cfg) (name : nat) (mx : option qty) (init : list (substance * qty)) : result container :=
  do c <- new_container cf name mx; add_all cf c init.

(* ratio_of helper of _transfer: an empty source can only give nothing *)
Definition ratio_of (req tot : Q) : result Q :=
  if Qeqb tot 0 then (if Qeqb (rnd req) 0 then Ok 0 else Err EValue) else Ok (req / tot).

Definition transfer_ratio (cf : cfg) (src : container) (q : qty) : result Q :=
  match qbase q with
  | BL => let v := rnd (to_storage_vol cf (qv q) P0) in
          if Qgtb v (vol src) then Err EValue else ratio_of v (vol src)
  | BG => ratio_of (rnd (qv q)) (total_in cf (cont src) (P0, BG))
  | BMol => ratio_of (to_storage_mol cf (qv q) P0) (total_mol (cont src))
  | BU => let t := total_act (cont src) in if Qeqb t 0 then Err EValue else Ok (qv q / t)
  end.

(* the per-substance move: every source key is created in the destination *)
Definition move_into (r : Q) (src dst : contents) : contents :=
  fold_left (fun d p => upd (fst p) (rnd (get (fst p) d + snd p * r)) d) src dst.
Definition take_from (r : Q) (src : contents) : contents := mapv (fun _ a => rnd (a - a * r)) src.

(* Container._transfer (source and destination are different objects; identity is checked by the caller) *)
Definition transfer (cf : cfg) (src dst : container) (q : qty) : result (container * container) :=
  do r <- transfer_ratio cf src q;
  if Qltb (rnd r) 0 then Err EValue
  else if Qgtb (rnd r) 1 then Err EValue
  else
    let dc := move_into r (cont src) (cont dst) in
    let sc := take_from r (cont src) in
    let dv := rnd (volume_of cf dc) in
    if over dv (maxv dst) then Err EValue
    else Ok ({| cname := cname src; cont := sc; vol := rnd (volume_of cf sc); maxv := maxv src |},
             {| cname := cname dst; cont := dc; vol := dv; maxv := maxv dst |}).

(* Container.remove(what): what is a substance or a class of substances *)
Inductive what := WSubst (s : substance) | WKind (k : kind).
Definition kind_eqb (a b : kind) : bool :=
  match a, b with Solid, Solid | Liquid, Liquid | Enzyme, Enzyme => true | _, _ => false end.
Definition selected (w : what) (s : substance) : bool :=
  match w with WSubst s' => seqb s' s | WKind k => kind_eqb k (knd s) end.
Definition remove (cf : cfg) (c : container) (w : what) : container :=
  let nc := filter (fun p => negb (selected w (fst p))) (cont c) in
  {| cname := cname c; cont := nc; vol := volume_of cf nc; maxv := maxv c |}.

(* Container.fill_to(solvent, quantity) *)
Definition Qmax0 (x : Q) : Q := if Qltb x 0 then 0 else x.
Definition fill_to (cf : cfg) (c : container) (solvent : substance) (q : qty) : result container :=
  if Qle_bool (qv q) 0 then Err EValue
  else match qbase q with
  | BU => Err EValue
  | b => let current := total_in cf (cont c) (P0, b) in
         let required := qv q - current in
         if Qltb (rnd required) 0 then Err EValue
         else self_add cf c solvent {| qval := Qmax0 required; qpfx := P0; qbase := b |}
  end.

(* observers *)
Definition get_volume (cf : cfg) (c : container) (p : prefix) : Q := from_storage_vol cf (vol c) p.
(* get_concentration(solute, units) after parse_concentration('1 ' + units) = (mult, num, den) *)
Definition get_concentration (cf : cfg) (c : container) (s : substance) (mult : Q) (nb db : base) : Q :=
  let numerator := conv_stored cf s (get s (cont c)) (P0, nb) in
  if Qeqb numerator 0 then 0
  else let denominator := match db with BL => from_storage_vol cf (vol c) P0 | _ => total_in cf (cont c) (P0, db) end in
       rnd (numerator / denominator / mult).
Definition has_liquid (c : container) : bool := existsb (fun p => is_liquid (fst p)) (cont c).

Definition showOptQ (o : option Q) : list Z := match o with None => [0%Z] | Some q => 1%Z :: showQ q end.
Definition showContainer (c : container) : list Z :=
  Z.of_nat (cname c) :: showContents (cont c) ++ showQ (vol c) ++ showOptQ (maxv c).
