(* UnitsSymOK.v -- the table obtained on every run by executing /repo's Unit.convert_from on symbolic operands
   (gen/UnitsSym.v, translator/symex.py: one outcome per kind x prefix x base x prefix x base) is proved equal to the
   hand-written model of Units.v for every cell, and the prefix table likewise.  This tie does not depend on how the
   source is written, only on what it computes. *)
Require Import Base Units UnitsThm GenBase UnitsSym.
From Coq Require Import String.
Open Scope string_scope.

Definition eval_cell (c : cell) (s : substance) (q : Q) : option Q :=
  match c with
  | CRaise => None
  | CVal k a b c d => Some (k * q ^ a * mw s ^ b * dens s ^ c * act s ^ d)
  end.

(* the model's table written as monomials (proved equal to conv below, for every prefix) *)
Definition base_cell (k : kind) (fb tb : base) : cell :=
  let enz := match k with Enzyme => true | _ => false end in
  if base_eqb fb BU && negb enz then CRaise else
  match tb, fb with
  | BU, _ => if negb enz then CVal 0 0 0 0 0 else
             match fb with BMol => CVal 0 0 0 0 0 | BL => CVal 1000 1 0 1 0 | BG => CVal 1 1 0 0 1 | BU => CVal 1 1 0 0 0 end
  | BL, BL => CVal 1 1 0 0 0
  | BL, BMol => if enz then CVal 0 0 0 0 0 else CVal (1 # 1000) 1 1 (-1) 0
  | BL, BG => if enz then CVal (1 # 1000) 1 0 (-1) 1 else CVal (1 # 1000) 1 0 (-1) 0
  | BL, BU => if negb enz then CVal 0 0 0 0 0 else CVal (1 # 1000) 1 0 (-1) 0
  | BMol, _ => if enz then CVal 0 0 0 0 0 else
             match fb with BU => CVal 0 0 0 0 0 | BL => CVal 1000 1 (-1) 1 0 | BMol => CVal 1 1 0 0 0 | BG => CVal 1 1 (-1) 0 0 end
  | BG, BU => if negb enz then CVal 0 0 0 0 0 else CVal 1 1 0 0 (-1)
  | BG, BL => if enz then CVal 1000 1 0 1 (-1) else CVal 1000 1 0 1 0
  | BG, BMol => if enz then CVal 0 0 0 0 0 else CVal 1 1 1 0 0
  | BG, BG => CVal 1 1 0 0 0
  end.
Definition scale (x : Q) (c : cell) : cell :=
  match c with CRaise => CRaise | CVal k a b c d => CVal (x * k) a b c d end.
Definition key := (kind * Units.prefix * base * Units.prefix * base)%type.
Definition model_cell (x : key) : cell :=
  match x with (k, p1, b1, p2, b2) => scale (pmult p1 / pmult p2) (base_cell k b1 b2) end.

Lemma model_cell_sound s q p1 b1 p2 b2 :
  optQeq (eval_cell (model_cell (knd s, p1, b1, p2, b2)) s q) (conv s q (p1, b1) (p2, b2)).
Proof.
  pose proof (pmult_pos p2) as H2.
  unfold model_cell, base_cell, conv, conv_base, is_enzyme. cbn [fst snd].
  destruct s as [i k m d a]; cbn [knd mw dens act].
  destruct k, b1, b2; cbn -[pmult Qmult Qdiv Qplus]; unfold optQeq; try exact I;
    unfold Qdiv; generalize (/ m) (/ d) (/ a); intros; field; lra.
Qed.

(* ---- deciding equality of cells ---- *)
Definition cell_eqb (x y : cell) : bool :=
  match x, y with
  | CRaise, CRaise => true
  | CVal k a b c d, CVal k' a' b' c' d' =>
      Qeq_bool k k' && (Qeq_bool k 0 || (Z.eqb a a' && Z.eqb b b' && Z.eqb c c' && Z.eqb d d'))
  | _, _ => false
  end.
Lemma cell_eqb_sound x y s q : cell_eqb x y = true -> optQeq (eval_cell x s q) (eval_cell y s q).
Proof.
  destruct x as [|k a b c d], y as [|k' a' b' c' d']; cbn [cell_eqb eval_cell optQeq]; try discriminate; [trivial|].
  intros H. apply andb_true_iff in H. destruct H as [Hk H]. apply Qeq_bool_iff in Hk.
  apply orb_true_iff in H. destruct H as [H0 | He].
  - apply Qeq_bool_iff in H0. rewrite <- Hk, H0. ring.
  - repeat (apply andb_true_iff in He; destruct He as [He ?]).
    repeat match goal with E : Z.eqb _ _ = true |- _ => apply Z.eqb_eq in E; subst end.
    rewrite Hk. reflexivity.
Qed.

Definition kind_eqb (a b : kind) : bool := match a, b with Solid, Solid | Liquid, Liquid | Enzyme, Enzyme => true | _, _ => false end.
Definition prefix_eqb (a b : Units.prefix) : bool :=
  match a, b with Pn, Pn | Pu, Pu | Pmu, Pmu | Pm, Pm | Pc, Pc | Pd, Pd | P0, P0 | Pda, Pda | Pk, Pk | PM, PM => true | _, _ => false end.
Definition key_eqb (x y : key) : bool :=
  match x, y with (k, p1, b1, p2, b2), (k', p1', b1', p2', b2') =>
    kind_eqb k k' && prefix_eqb p1 p1' && base_eqb b1 b1' && prefix_eqb p2 p2' && base_eqb b2 b2' end.
Fixpoint lookup (x : key) (l : list (key * cell)) : option cell :=
  match l with [] => None | (y, c) :: t => if key_eqb x y then Some c else lookup x t end.

Definition all_kinds := [Solid; Liquid; Enzyme].
Definition all_bases := [BU; BL; BG; BMol].
Definition all_keys : list key :=
  list_prod (list_prod (list_prod (list_prod all_kinds all_prefixes) all_bases) all_prefixes) all_bases.
Lemma all_keys_complete x : In x all_keys.
Proof.
  destruct x as [[[[k p1] b1] p2] b2]. unfold all_keys. repeat apply in_prod.
  - destruct k; cbn; tauto.
  - destruct p1; cbn; tauto.
  - destruct b1; cbn; tauto.
  - destruct p2; cbn; tauto.
  - destruct b2; cbn; tauto.
Qed.

(* every one of the 3 x 10 x 4 x 10 x 4 cells executed on the source has the model's outcome *)
Definition cell_ok (x : key) : bool := match lookup x sym_cells with Some c => cell_eqb c (model_cell x) | None => false end.
Lemma sym_table_ok : forallb cell_ok all_keys = true.
Proof. vm_cast_no_check (eq_refl true). Qed.

(* what the source computes, read off the executed table *)
Definition sym_run (s : substance) (q : Q) (fu tu : unit_) : option Q :=
  match lookup (knd s, fst fu, snd fu, fst tu, snd tu) sym_cells with
  | Some c => eval_cell c s q
  | None => None
  end.

Lemma lookup_ok x : exists c, lookup x sym_cells = Some c /\ cell_eqb c (model_cell x) = true.
Proof.
  pose proof (proj1 (forallb_forall cell_ok all_keys) sym_table_ok x (all_keys_complete x)) as H. unfold cell_ok in H.
  destruct (lookup x sym_cells) as [c|]; [exists c; split; [reflexivity | exact H] | discriminate].
Qed.
Lemma optQeq_trans a b c : optQeq a b -> optQeq b c -> optQeq a c.
Proof. destruct a, b, c; cbn; try tauto. intros E1 E2. rewrite E1. exact E2. Qed.

Theorem sym_conv_eq_model s q fu tu : optQeq (sym_run s q fu tu) (conv s q fu tu).
Proof.
  destruct fu as [p1 b1], tu as [p2 b2]. unfold sym_run. cbn [fst snd].
  destruct (lookup_ok (knd s, p1, b1, p2, b2)) as (c & E & H). rewrite E.
  exact (optQeq_trans _ _ _ (cell_eqb_sound _ _ s q H) (model_cell_sound s q p1 b1 p2 b2)).
Qed.


(* the strings the source accepts as prefixes (among every string of length <= 2 over the probing alphabet) are exactly
   the model's, with the model's multipliers *)
Theorem sym_prefix_table_eq_model :
  map fst sym_prefix_table = map pname all_prefixes /\
  forall p, exists v, assoc (pname p) sym_prefix_table = Some v /\ v == pmult p.
Proof.
  split; [reflexivity|].
  intros p; destruct p; (eexists; split; [reflexivity | reflexivity]).
Qed.

(* ---- convert_to_storage / convert_from_storage, executed under every storage configuration ---- *)
Definition skey := (bool * Units.prefix * Units.prefix * base)%type.
Definition skey_eqb (x y : skey) : bool :=
  match x, y with (t, c, p, b), (t', c', p', b') => Bool.eqb t t' && prefix_eqb c c' && prefix_eqb p p' && base_eqb b b' end.
Fixpoint slookup (x : skey) (l : list (skey * cell)) : option cell :=
  match l with [] => None | (y, c) :: t => if skey_eqb x y then Some c else slookup x t end.
Definition model_storage_cell (x : skey) : cell :=
  match x with (to, c, p, _) => if to then CVal (pmult p / pmult c) 1 0 0 0 else CVal (pmult c / pmult p) 1 0 0 0 end.
Definition all_skeys : list skey := list_prod (list_prod (list_prod [true; false] all_prefixes) all_prefixes) [BL; BMol].
Definition scell_ok (x : skey) : bool :=
  match slookup x sym_storage with Some c => cell_eqb c (model_storage_cell x) | None => false end.
Lemma sym_storage_ok : forallb scell_ok all_skeys = true.
Proof. vm_cast_no_check (eq_refl true). Qed.
Lemma all_skeys_complete to c p b : b = BL \/ b = BMol -> In (to, c, p, b) all_skeys.
Proof.
  intros Hb. unfold all_skeys. repeat apply in_prod.
  - destruct to; cbn; tauto.
  - destruct c; cbn; tauto.
  - destruct p; cbn; tauto.
  - destruct Hb; subst; cbn; tauto.
Qed.
Lemma slookup_ok x : In x all_skeys -> exists c, slookup x sym_storage = Some c /\ cell_eqb c (model_storage_cell x) = true.
Proof.
  intros Hx. pose proof (proj1 (forallb_forall scell_ok all_skeys) sym_storage_ok x Hx) as H. unfold scell_ok in H.
  destruct (slookup x sym_storage) as [c|]; [exists c; split; [reflexivity | exact H] | discriminate].
Qed.

(* what the source computes for a stored volume / amount of moles, read off the executed table; s is any substance (unused) *)
Definition sym_storage_run (to : bool) (cf : cfg) (vol : bool) (v : Q) (p : Units.prefix) (s : substance) : option Q :=
  match slookup (to, (if vol then vol_pfx cf else mol_pfx cf), p, (if vol then BL else BMol)) sym_storage with
  | Some c => eval_cell c s v
  | None => None
  end.
Theorem sym_storage_eq_model cf v p s :
  optQeq (sym_storage_run true cf true v p s) (Some (to_storage_vol cf v p)) /\
  optQeq (sym_storage_run true cf false v p s) (Some (to_storage_mol cf v p)) /\
  optQeq (sym_storage_run false cf true v p s) (Some (from_storage_vol cf v p)) /\
  optQeq (sym_storage_run false cf false v p s) (Some (from_storage_mol cf v p)).
Proof.
  assert (X : forall to c b, b = BL \/ b = BMol ->
            optQeq (match slookup (to, c, p, b) sym_storage with Some k => eval_cell k s v | None => None end)
                   (Some (if to then v * pmult p / pmult c else v * pmult c / pmult p))).
  { intros to c b Hb. destruct (slookup_ok _ (all_skeys_complete to c p b Hb)) as (k & E & H). rewrite E.
    refine (optQeq_trans _ _ _ (cell_eqb_sound _ _ s v H) _).
    pose proof (pmult_pos c). pose proof (pmult_pos p).
    unfold model_storage_cell. destruct to; cbn -[pmult Qmult Qdiv]; field; lra. }
  unfold sym_storage_run, to_storage_vol, to_storage_mol, from_storage_vol, from_storage_mol.
  repeat split; cbn [andb]; (eapply optQeq_trans; [apply X; auto | cbn; rewrite rnd_eq; reflexivity]).
Qed.
