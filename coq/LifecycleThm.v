(* LifecycleThm.v -- theorems about the recipe lifecycle automaton (C16), for all call sequences. *)
Require Import Base Lifecycle.

Lemma mem_In x l : mem x l = true <-> In x l.
Proof.
  unfold mem. rewrite existsb_exists. split.
  - intros [y [Hy E]]. apply Nat.eqb_eq in E. subst. exact Hy.
  - intros H. exists x. split; [exact H | apply Nat.eqb_refl].
Qed.
Lemma mem_false x l : mem x l = false <-> ~ In x l.
Proof.
  rewrite <- mem_In. destruct (mem x l).
  - split; [discriminate | intros H; exfalso; apply H; reflexivity].
  - split; [intros _ H; discriminate | reflexivity].
Qed.

(* ---------- after a successful bake ---------- *)
Theorem locked_forever s c : locked s = true -> step_api s c = (s, Raise ERuntime).
Proof.
  intros H. destruct c; simpl; unfold do_uses, end_stage; rewrite H; reflexivity.
Qed.
Theorem locked_absorbing cs : forall s, locked s = true ->
  fst (run_calls s cs) = s /\ Forall (fun o => o = Raise ERuntime) (snd (run_calls s cs)).
Proof.
  induction cs as [|c t IH]; intros s H; simpl; [split; [reflexivity | constructor]|].
  rewrite (locked_forever s c H). destruct (IH s H) as [H1 H2].
  destruct (run_calls s t) as [s2 os]. simpl in *. split; [exact H1 | constructor; [reflexivity | exact H2]].
Qed.
Theorem bake_locks s s' : step_api s CBake = (s', Accepted) -> locked s' = true /\ cur s' = O.
Proof.
  simpl. destruct (locked s) eqn:L; [discriminate|].
  destruct (negb (Nat.eqb _ _)); [discriminate|]. intros H; inversion H; subst; simpl. split; [reflexivity|].
  destruct (Nat.eqb (cur s) 0) eqn:E; [apply Nat.eqb_eq in E; exact E|].
  unfold end_stage. rewrite L, E, Nat.eqb_refl. reflexivity.
Qed.
Theorem second_bake_raises s s' : step_api s CBake = (s', Accepted) -> step_api s' CBake = (s', Raise ERuntime).
Proof. intros H. apply locked_forever. apply (bake_locks s s' H). Qed.
(* bake closes an open stage and records it *)
Theorem bake_closes_stage s s' : step_api s CBake = (s', Accepted) -> cur s <> O ->
  In (cur s, (stage_start s, length (steps s))) (stages s').
Proof.
  simpl. destruct (locked s) eqn:L; [discriminate|].
  destruct (negb (Nat.eqb _ _)); [discriminate|]. intros H Hc; inversion H; subst; simpl.
  destruct (Nat.eqb (cur s) 0) eqn:E; [apply Nat.eqb_eq in E; contradiction|].
  unfold end_stage. rewrite L, E, Nat.eqb_refl. simpl. left. reflexivity.
Qed.

(* ---------- only declared objects ---------- *)
Theorem undeclared_rejected s x : locked s = false -> mem x (declared s) = false ->
  (forall d, step_api s (CTransfer x d) = (s, Raise EValue)) /\
  (forall y, mem y (declared s) = true -> step_api s (CTransfer y x) = (s, Raise EValue)) /\
  step_api s (CRemove x) = (s, Raise EValue) /\ step_api s (CDilute x) = (s, Raise EValue) /\
  step_api s (CFillTo x) = (s, Raise EValue) /\
  (forall n, step_api s (CCreateSolutionFrom x n) = (s, Raise EValue)) /\
  (forall n, step_api s (CCreateSolution n (Some x)) = (s, Raise EValue)).
Proof.
  intros L H. simpl. rewrite L, H. simpl. repeat split; try reflexivity.
  intros y Hy. rewrite Hy. reflexivity.
Qed.
(* no second object with an existing name *)
Theorem duplicate_name_rejected s n : locked s = false -> mem n (declared s) = true ->
  step_api s (CCreateContainer n) = (s, Raise EValue) /\
  step_api s (CCreateSolution n None) = (s, Raise EValue) /\
  (forall v, mem v (declared s) = true -> step_api s (CCreateSolution n (Some v)) = (s, Raise EValue)) /\
  (forall src, mem src (declared s) = true -> step_api s (CCreateSolutionFrom src n) = (s, Raise EValue)) /\
  snd (step_api s (CUses [n])) = Raise EValue /\ declared (fst (step_api s (CUses [n]))) = declared s.
Proof.
  intros L H. simpl. unfold do_uses. rewrite L. simpl. rewrite H. repeat split; try reflexivity.
  - intros v Hv. rewrite Hv. reflexivity.
  - intros src Hs. rewrite Hs. reflexivity.
Qed.

(* ---------- stages ---------- *)
Theorem one_open_stage s n : locked s = false -> cur s <> O -> step_api s (CStartStage n) = (s, Raise EValue).
Proof.
  intros L H. simpl. rewrite L. destruct (stage_known s n); [reflexivity|].
  destruct (Nat.eqb (cur s) 0) eqn:E; [apply Nat.eqb_eq in E; contradiction | reflexivity].
Qed.
Theorem stage_names_unique s n : locked s = false -> stage_known s n = true -> step_api s (CStartStage n) = (s, Raise EValue).
Proof. intros L H. simpl. rewrite L, H. reflexivity. Qed.
Theorem all_is_reserved s : locked s = false ->
  step_api s (CStartStage 0) = (s, Raise EValue) /\ step_api s (CEndStage 0) = (s, Raise EValue).
Proof. intros L. simpl. unfold end_stage, stage_known. rewrite L. split; reflexivity. Qed.
Theorem end_requires_open s n : locked s = false -> cur s <> n -> step_api s (CEndStage n) = (s, Raise EValue).
Proof.
  intros L H. simpl. unfold end_stage. rewrite L. destruct (Nat.eqb n 0); [reflexivity|].
  destruct (Nat.eqb (cur s) n) eqn:E; [apply Nat.eqb_eq in E; contradiction | reflexivity].
Qed.
(* a stage covers exactly the steps added between its start and its end *)
Theorem start_stage_marks s n s' : step_api s (CStartStage n) = (s', Accepted) ->
  cur s' = n /\ stage_start s' = length (steps s) /\ steps s' = steps s /\ n <> O.
Proof.
  simpl. destruct (locked s); [discriminate|]. destruct (stage_known s n) eqn:K; [discriminate|].
  destruct (negb (Nat.eqb (cur s) 0)); [discriminate|]. intros H; inversion H; subst; simpl. repeat split; auto.
  intro; subst. unfold stage_known in K. simpl in K. discriminate.
Qed.
Theorem end_stage_records s n s' : step_api s (CEndStage n) = (s', Accepted) ->
  In (n, (stage_start s, length (steps s))) (stages s') /\ cur s' = O /\ steps s' = steps s /\ cur s = n.
Proof.
  simpl. unfold end_stage. destruct (locked s); [discriminate|]. destruct (Nat.eqb n 0); [discriminate|].
  destruct (Nat.eqb (cur s) n) eqn:E; [|discriminate]. simpl. intros H; inversion H; subst; simpl.
  apply Nat.eqb_eq in E. repeat split; auto.
Qed.
Definition is_stage_call (c : call) : bool := match c with CStartStage _ | CEndStage _ | CBake => true | _ => false end.
Theorem other_calls_keep_stage s c : is_stage_call c = false ->
  cur (fst (step_api s c)) = cur s /\ stage_start (fst (step_api s c)) = stage_start s /\ stages (fst (step_api s c)) = stages s /\
  (snd (step_api s c) <> Accepted -> steps (fst (step_api s c)) = steps s).
Proof.
  destruct c; simpl; try discriminate; intros _; unfold do_uses;
    repeat match goal with
    | |- context [if ?b then _ else _] => destruct b; simpl
    | |- context [let (_, _) := ?x in _] => destruct x; simpl
    end; repeat split; auto; intros H; try reflexivity; try (exfalso; apply H; reflexivity).
Qed.

(* ---------- well-formedness of reachable states, and the unused-object rule ---------- *)
Definition step_names (s : rstate) : list nat := concat (steps s).
Record wf (s : rstate) : Prop := {
  wf_nodup : NoDup (declared s);
  wf_used : forall n, In n (used s) -> In n (declared s);
  wf_steps : forall n, In n (step_names s) -> In n (declared s)
}.
Lemma wf_init : wf init.
Proof. constructor; simpl; [constructor | tauto | tauto]. Qed.

Lemma NoDup_app_snoc (l : list nat) x : NoDup l -> ~ In x l -> NoDup (l ++ [x]).
Proof.
  induction l as [|y l IH]; simpl; intros Hnd Hn; [constructor; [intros []|constructor]|].
  inversion Hnd; subst. constructor.
  - rewrite in_app_iff. intros [H|[H|[]]]; [contradiction | subst; apply Hn; left; reflexivity].
  - apply IH; [assumption | intro; apply Hn; right; assumption].
Qed.
Lemma uses_loop_spec names : forall d d' o, uses_loop d names = (d', o) ->
  NoDup d -> NoDup d' /\ (forall n, In n d -> In n d').
Proof.
  induction names as [|n t IH]; intros d d' o H Hnd; simpl in H.
  - inversion H; subst. auto.
  - destruct (mem n d) eqn:E; [inversion H; subst; auto|].
    apply IH in H.
    + destruct H as [H1 H2]. split; [exact H1|]. intros x Hx. apply H2. apply in_or_app. left. exact Hx.
    + apply mem_false in E. apply NoDup_app_snoc; assumption.
Qed.

Lemma step_names_add s names : step_names (add_step s names) = step_names s ++ names.
Proof. unfold step_names, add_step. simpl. rewrite concat_app. simpl. rewrite app_nil_r. reflexivity. Qed.

Lemma fold_add_set_in names : forall acc n, In n (fold_left (fun a x => add_set x a) names acc) <-> In n acc \/ In n names.
Proof.
  induction names as [|x t IH]; intros acc n; simpl; [tauto|].
  rewrite IH. unfold add_set. destruct (mem x acc) eqn:E.
  - apply mem_In in E. split; [intros [H|H]; auto | intros [H|[H|H]]; subst; auto].
  - rewrite in_app_iff. simpl. tauto.
Qed.
Lemma fold_steps_in sts : forall acc n,
  In n (fold_left (fun acc names => fold_left (fun a x => add_set x a) names acc) sts acc) <-> In n acc \/ In n (concat sts).
Proof.
  induction sts as [|x t IH]; intros acc n; simpl; [tauto|].
  rewrite IH, fold_add_set_in, in_app_iff. tauto.
Qed.

Theorem step_wf s c : wf s -> wf (fst (step_api s c)).
Proof.
  intros [Hn Hu Hs].
  assert (Hadd : forall d names, NoDup d -> (forall n, In n (declared s) -> In n d) -> (forall n, In n names -> In n d) ->
            wf (add_step (set_declared s d) names)).
  { intros d names Hd Hin Hnames. constructor; simpl; [exact Hd | intros n H; apply Hin; apply Hu; exact H |].
    intros n H. unfold step_names in H. simpl in H. rewrite concat_app in H. simpl in H. rewrite app_nil_r in H.
    apply in_app_or in H. destruct H as [H|H]; [apply Hin; apply Hs; exact H | apply Hnames; exact H]. }
  assert (Hsame : forall names, (forall n, In n names -> In n (declared s)) -> wf (add_step s names)).
  { intros names Hnames. constructor; simpl; [exact Hn | exact Hu |].
    intros n H. rewrite step_names_add in H. apply in_app_or in H. destruct H; auto. }
  destruct c; simpl.
  - unfold do_uses. destruct (locked s); [constructor; assumption|].
    destruct (uses_loop (declared s) names) as [d o] eqn:E. destruct (uses_loop_spec _ _ _ _ E Hn) as [H1 H2].
    constructor; simpl; auto.
  - destruct (locked s); [constructor; assumption|]. destruct (mem name (declared s)) eqn:E; [constructor; assumption|].
    apply mem_false in E. apply Hadd.
    + apply NoDup_app_snoc; assumption.
    + intros n H. apply in_or_app. left. exact H.
    + intros n [<-|[]]. apply in_or_app. right. left. reflexivity.
  - destruct (locked s); [constructor; assumption|].
    destruct (match solvent with Some v => negb (mem v (declared s)) | None => false end) eqn:Ev; [constructor; assumption|].
    destruct (mem name (declared s)) eqn:E; [constructor; assumption|].
    apply mem_false in E. apply Hadd.
    + apply NoDup_app_snoc; assumption.
    + intros n H. apply in_or_app. left. exact H.
    + intros n [<-|H]; [apply in_or_app; right; left; reflexivity|].
      destruct solvent as [v|]; [|destruct H]. destruct H as [<-|[]].
      apply negb_false_iff in Ev. apply mem_In in Ev. apply in_or_app. left. exact Ev.
  - destruct (locked s); [constructor; assumption|].
    destruct (mem src (declared s)) eqn:Es; simpl; [|constructor; assumption].
    destruct (mem name (declared s)) eqn:E; [constructor; assumption|].
    apply mem_false in E. apply mem_In in Es. apply Hadd.
    + apply NoDup_app_snoc; assumption.
    + intros n H. apply in_or_app. left. exact H.
    + intros n [<-|[<-|[]]]; apply in_or_app; [left; exact Es | right; left; reflexivity].
  - destruct (locked s); [constructor; assumption|].
    destruct (mem src (declared s)) eqn:Es; simpl; [|constructor; assumption].
    destruct (mem dst (declared s)) eqn:Ed; simpl; [|constructor; assumption].
    apply mem_In in Es, Ed. apply Hsame. intros n [<-|[<-|[]]]; assumption.
  - destruct (locked s); [constructor; assumption|].
    destruct (mem dst (declared s)) eqn:Ed; simpl; [|constructor; assumption].
    apply mem_In in Ed. apply Hsame. intros n [<-|[]]; assumption.
  - destruct (locked s); [constructor; assumption|].
    destruct (mem dst (declared s)) eqn:Ed; simpl; [|constructor; assumption].
    apply mem_In in Ed. apply Hsame. intros n [<-|[]]; assumption.
  - destruct (locked s); [constructor; assumption|].
    destruct (mem dst (declared s)) eqn:Ed; simpl; [|constructor; assumption].
    apply mem_In in Ed. apply Hsame. intros n [<-|[]]; assumption.
  - destruct (locked s); [constructor; assumption|]. destruct (stage_known s n); [constructor; assumption|].
    destruct (negb (Nat.eqb (cur s) 0)); constructor; assumption.
  - unfold end_stage. destruct (locked s); [constructor; assumption|]. destruct (Nat.eqb n 0); [constructor; assumption|].
    destruct (negb (Nat.eqb (cur s) n)); constructor; assumption.
  - destruct (locked s); [constructor; assumption|].
    set (s1 := if Nat.eqb (cur s) 0 then s else fst (end_stage s (cur s))).
    assert (D1 : declared s1 = declared s /\ used s1 = used s /\ steps s1 = steps s).
    { unfold s1, end_stage. destruct (Nat.eqb (cur s) 0); [auto|]. destruct (locked s); [auto|].
      destruct (negb (Nat.eqb (cur s) (cur s))); simpl; auto. }
    destruct D1 as (D1 & D2 & D3).
    assert (Hu' : forall n, In n (fold_left (fun acc names => fold_left (fun a x => add_set x a) names acc) (steps s1) (used s1)) -> In n (declared s)).
    { intros n H. apply fold_steps_in in H. rewrite D2, D3 in H. destruct H; [apply Hu | apply Hs]; assumption. }
    destruct (negb (Nat.eqb _ _)); constructor; simpl; rewrite ?D1; auto; intros n H; apply Hs; unfold step_names in *; simpl; rewrite <- D3; exact H.
Qed.
Theorem reachable_wf cs : forall s, wf s -> wf (fst (run_calls s cs)).
Proof.
  induction cs as [|c t IH]; intros s H; simpl; [exact H|].
  pose proof (step_wf s c H) as H1. destruct (step_api s c) as [s1 o]. simpl in H1.
  specialize (IH s1 H1). destruct (run_calls s1 t). exact IH.
Qed.

(* bake refuses while a declared object is unused (neither touched by a step nor marked used) *)
Theorem unused_blocks_bake s d : wf s -> locked s = false ->
  In d (declared s) -> ~ In d (used s) -> ~ In d (step_names s) ->
  snd (step_api s CBake) = Raise EValue /\ locked (fst (step_api s CBake)) = false.
Proof.
  intros [Hn Hu Hs] L Hd Hnu Hns. simpl. rewrite L.
  set (s1 := if Nat.eqb (cur s) 0 then s else fst (end_stage s (cur s))).
  assert (D1 : declared s1 = declared s /\ used s1 = used s /\ steps s1 = steps s).
  { unfold s1, end_stage. destruct (Nat.eqb (cur s) 0); [auto|]. rewrite L.
    destruct (negb (Nat.eqb (cur s) (cur s))); simpl; auto. }
  destruct D1 as (D1 & D2 & D3).
  set (u := fold_left (fun acc names => fold_left (fun a x => add_set x a) names acc) (steps s1) (used s1)).
  assert (Hsub : forall n, In n u -> In n (declared s)).
  { intros n H. apply fold_steps_in in H. rewrite D2, D3 in H. destruct H; [apply Hu | apply Hs]; assumption. }
  assert (Hdu : ~ In d u).
  { intro H. apply fold_steps_in in H. rewrite D2, D3 in H. destruct H; contradiction. }
  assert (Hlt : (set_size u < length (declared s1))%nat).
  { unfold set_size. rewrite D1.
    assert (Hnd : NoDup (d :: nodup Nat.eq_dec u)) by (constructor; [rewrite nodup_In; exact Hdu | apply NoDup_nodup]).
    assert (Hincl : incl (d :: nodup Nat.eq_dec u) (declared s)).
    { intros x [<-|Hx]; [exact Hd | apply Hsub; rewrite nodup_In in Hx; exact Hx]. }
    pose proof (NoDup_incl_length Hnd Hincl) as Hlen. simpl in Hlen. lia. }
  destruct (Nat.eqb (set_size u) (length (declared s1))) eqn:E; [apply Nat.eqb_eq in E; lia|].
  simpl. split; reflexivity.
Qed.
(* and accepts when every declared object is used *)
Theorem all_used_bake_accepted s : wf s -> locked s = false ->
  (forall d, In d (declared s) -> In d (used s) \/ In d (step_names s)) -> snd (step_api s CBake) = Accepted.
Proof.
  intros [Hn Hu Hs] L Hall. simpl. rewrite L.
  set (s1 := if Nat.eqb (cur s) 0 then s else fst (end_stage s (cur s))).
  assert (D1 : declared s1 = declared s /\ used s1 = used s /\ steps s1 = steps s).
  { unfold s1, end_stage. destruct (Nat.eqb (cur s) 0); [auto|]. rewrite L.
    destruct (negb (Nat.eqb (cur s) (cur s))); simpl; auto. }
  destruct D1 as (D1 & D2 & D3).
  set (u := fold_left (fun acc names => fold_left (fun a x => add_set x a) names acc) (steps s1) (used s1)).
  assert (Hsub : forall n, In n u -> In n (declared s)).
  { intros n H. apply fold_steps_in in H. rewrite D2, D3 in H. destruct H; [apply Hu | apply Hs]; assumption. }
  assert (Hsup : forall n, In n (declared s) -> In n u).
  { intros n H. apply fold_steps_in. rewrite D2, D3. apply Hall. exact H. }
  assert (Heq : set_size u = length (declared s1)).
  { unfold set_size. rewrite D1. apply Nat.le_antisymm.
    - apply NoDup_incl_length; [apply NoDup_nodup | intros x Hx; apply Hsub; rewrite nodup_In in Hx; exact Hx].
    - apply NoDup_incl_length; [exact Hn | intros x Hx; rewrite nodup_In; apply Hsup; exact Hx]. }
  rewrite Heq, Nat.eqb_refl. reflexivity.
Qed.

(* ---- refused calls ---- *)
Lemma uses_loop_locked_irrelevant s names : locked (set_declared s (fst (uses_loop (declared s) names))) = locked s.
Proof. reflexivity. Qed.

(* only a successful bake locks a recipe: no other call, and no refused call, changes the lock *)
Theorem only_accepted_bake_locks s c s' o : step_api s c = (s', o) -> locked s' <> locked s -> c = CBake /\ o = Accepted.
Proof.
  intros H Hl. destruct c; cbn [step_api] in H.
  - unfold do_uses in H. destruct (locked s) eqn:E; [inversion H; subst; congruence|].
    destruct (uses_loop (declared s) names) as [d o']. inversion H; subst. cbn in Hl. congruence.
  - destruct (locked s) eqn:E; [inversion H; subst; congruence|]. destruct (mem name (declared s)); inversion H; subst; cbn in Hl; congruence.
  - destruct (locked s) eqn:E; [inversion H; subst; congruence|].
    destruct (match solvent with Some v => negb (mem v (declared s)) | None => false end); [inversion H; subst; congruence|].
    destruct (mem name (declared s)); inversion H; subst; cbn in Hl; congruence.
  - destruct (locked s) eqn:E; [inversion H; subst; congruence|]. destruct (negb (mem src (declared s))); [inversion H; subst; congruence|].
    destruct (mem name (declared s)); inversion H; subst; cbn in Hl; congruence.
  - destruct (locked s) eqn:E; [inversion H; subst; congruence|]. destruct (negb (mem src (declared s))); [inversion H; subst; congruence|].
    destruct (negb (mem dst (declared s))); inversion H; subst; cbn in Hl; congruence.
  - destruct (locked s) eqn:E; [inversion H; subst; congruence|]. destruct (negb (mem dst (declared s))); inversion H; subst; cbn in Hl; congruence.
  - destruct (locked s) eqn:E; [inversion H; subst; congruence|]. destruct (negb (mem dst (declared s))); inversion H; subst; cbn in Hl; congruence.
  - destruct (locked s) eqn:E; [inversion H; subst; congruence|]. destruct (negb (mem dst (declared s))); inversion H; subst; cbn in Hl; congruence.
  - destruct (locked s) eqn:E; [inversion H; subst; congruence|]. destruct (stage_known s n); [inversion H; subst; congruence|].
    destruct (negb (Nat.eqb (cur s) 0)); inversion H; subst; cbn in Hl; congruence.
  - unfold end_stage in H. destruct (locked s) eqn:E; [inversion H; subst; congruence|]. destruct (Nat.eqb n 0); [inversion H; subst; congruence|].
    destruct (negb (Nat.eqb (cur s) n)); inversion H; subst; cbn in Hl; congruence.
  - destruct (locked s) eqn:E; [inversion H; subst; congruence|].
    destruct (negb (Nat.eqb (set_size _) _)); inversion H; subst; cbn in Hl; [congruence | split; reflexivity].
Qed.

(* a refused call other than uses (which declares its arguments one by one) and bake (which closes the open stage and marks the
   used objects before it looks for unused declarations) leaves the recipe exactly as it was *)
Theorem refused_call_changes_nothing s c s' e :
  (forall l, c <> CUses l) -> c <> CBake -> step_api s c = (s', Raise e) -> s' = s.
Proof.
  intros Hu Hb H. destruct c; cbn [step_api] in H; try (exfalso; apply (Hu names); reflexivity); try congruence.
  - destruct (locked s); [congruence|]. destruct (mem name (declared s)); congruence.
  - destruct (locked s); [congruence|]. destruct (match solvent with Some v => negb (mem v (declared s)) | None => false end); [congruence|].
    destruct (mem name (declared s)); congruence.
  - destruct (locked s); [congruence|]. destruct (negb (mem src (declared s))); [congruence|]. destruct (mem name (declared s)); congruence.
  - destruct (locked s); [congruence|]. destruct (negb (mem src (declared s))); [congruence|]. destruct (negb (mem dst (declared s))); congruence.
  - destruct (locked s); [congruence|]. destruct (negb (mem dst (declared s))); congruence.
  - destruct (locked s); [congruence|]. destruct (negb (mem dst (declared s))); congruence.
  - destruct (locked s); [congruence|]. destruct (negb (mem dst (declared s))); congruence.
  - destruct (locked s); [congruence|]. destruct (stage_known s n); [congruence|]. destruct (negb (Nat.eqb (cur s) 0)); congruence.
  - unfold end_stage in H. destruct (locked s); [congruence|]. destruct (Nat.eqb n 0); [congruence|]. destruct (negb (Nat.eqb (cur s) n)); congruence.
Qed.
(* a refused bake leaves the recipe unlocked, with the same declarations and steps *)
Theorem refused_bake_does_not_lock s s' e : locked s = false -> step_api s CBake = (s', Raise e) ->
  locked s' = false /\ declared s' = declared s /\ steps s' = steps s.
Proof.
  intros Hl H. cbn [step_api] in H. rewrite Hl in H.
  assert (X : declared (if Nat.eqb (cur s) 0 then s else fst (end_stage s (cur s))) = declared s /\
              steps (if Nat.eqb (cur s) 0 then s else fst (end_stage s (cur s))) = steps s).
  { destruct (Nat.eqb (cur s) 0) eqn:E0; [split; reflexivity|]. unfold end_stage. rewrite Hl, E0.
    rewrite Nat.eqb_refl. cbn. split; reflexivity. }
  destruct X as [Xd Xs].
  destruct (negb (Nat.eqb (set_size _) _)); inversion H; subst; cbn [locked declared steps]; auto.
Qed.
