(* Solve.v -- executable model of Container.create_solution and Container.create_solution_from:
   assembly of the linear system, an exact solver (Gaussian elimination over Q, first non-zero pivot),
   the positivity and residual tests, and construction of the result through the container operations. *)
Require Import Base Units Contents Container Dilute.

Definition vec := list Q.
Fixpoint dot (a b : vec) : Q :=
  match a, b with x :: a', y :: b' => x * y + dot a' b' | _, _ => 0 end.
Fixpoint dot_abs (a b : vec) : Q :=
  match a, b with x :: a', y :: b' => Qabs (x * y) + dot_abs a' b' | _, _ => 0 end.
Fixpoint map2 {A B C} (f : A -> B -> C) (a : list A) (b : list B) : list C :=
  match a, b with x :: a', y :: b' => f x y :: map2 f a' b' | _, _ => [] end.

Definition row := (vec * Q)%type.   (* coefficients, right-hand side *)

Fixpoint find_pivot (rows : list row) : option (row * list row) :=
  match rows with
  | [] => None
  | r :: t =>
      match fst r with
      | a :: _ => if Qeqb a 0
                  then match find_pivot t with Some (p, rest) => Some (p, r :: rest) | None => None end
                  else Some (r, t)
      | [] => None
      end
  end.
Definition elim (p r : row) : row :=
  match fst p, fst r with
  | a :: pa, b :: ra => let f := b / a in (map2 (fun x y => y - f * x) pa ra, snd r - f * snd p)
  | _, _ => ([], 0)
  end.
(* numpy.linalg.solve on an n x n system; None = singular (LinAlgError) *)
Fixpoint gauss (n : nat) (rows : list row) : option vec :=
  match n with
  | O => match rows with [] => Some [] | _ => None end
  | S n' =>
      match find_pivot rows with
      | None => None
      | Some (p, rest) =>
          match gauss n' (map (elim p) rest) with
          | None => None
          | Some xs => match fst p with
                       | a :: pa => Some (rnd ((snd p - dot pa xs) / a) :: xs)
                       | [] => None
                       end
          end
      end
  end.

(* convert_one: one mole (or one activity unit of an enzyme) in base unit u *)
Definition cone (s : substance) (u : base) : Q :=
  match conv s 1 (P0, if is_enzyme s then BU else BMol) (P0, u) with Some x => x | None => 0 end.

Fixpoint unit_vec (n i : nat) : vec :=
  match n with O => [] | S n' => (match i with O => 1 | _ => 0 end) :: unit_vec n' (pred i) end.
Definition unit_at (n i : nat) : vec := map (fun j => if Nat.eqb j i then 1 else 0) (seq 0 n).

Inductive sol_mode :=
| MConcTotal (cs : list conc) (total : qty)
| MConcQty (cs : list conc) (qs : list qty)
| MQtyTotal (qs : list qty) (total : qty).

Section CreateSolution.
Variable cf : cfg.

Definition conc_row (subs : list substance) (i : nat) (s : substance) (c : conc) : row :=
  let bottom := map (fun x => cone x (cden c)) subs in
  (map2 (fun b e => cval c * b - e * cone s (cnum c)) bottom (unit_at (length subs) i), 0).
Definition qty_row (subs : list substance) (i : nat) (s : substance) (q : qty) : row :=
  (map (fun e => e * cone s (qbase q)) (unit_at (length subs) i), qv q).
Definition total_row (subs : list substance) (q : qty) : row :=
  (map (fun x => cone x (qbase q)) subs, qv q).
Definition zero_row (subs : list substance) : row := (map (fun _ => 0) subs, 0).

Fixpoint rows_from {A} (f : nat -> substance -> A -> row) (i : nat) (ss : list substance) (xs : list A) : list row :=
  match ss, xs with s :: ss', x :: xs' => f i s x :: rows_from f (S i) ss' xs' | _, _ => [] end.

(* the 2n rows of the system over solutes ++ [solvent] *)
Definition system (solutes : list substance) (solvent : substance) (m : sol_mode) : result (list row) :=
  let subs := solutes ++ [solvent] in
  let n := length solutes in
  let pad l := l ++ repeat (zero_row subs) (2 * n - length l) in
  match m with
  | MConcTotal cs t =>
      if negb (Nat.eqb (length cs) n) then Err EValue
      else Ok (pad (rows_from (conc_row subs) 0 solutes cs ++ [total_row subs t]))
  | MConcQty cs qs =>
      if negb (Nat.eqb (length cs) n) || negb (Nat.eqb (length qs) n) then Err EValue
      else Ok (rows_from (conc_row subs) 0 solutes cs ++ rows_from (qty_row subs) 0 solutes qs)
  | MQtyTotal qs t =>
      if negb (Nat.eqb (length qs) n) then Err EValue
      else Ok (pad (rows_from (qty_row subs) 0 solutes qs ++ [total_row subs t]))
  end.

Definition residual_ok (xs : vec) (r : row) : bool :=
  Qle_bool (Qabs (dot (fst r) xs - snd r)) ((1 # 1000000) * (dot_abs (fst r) xs + Qabs (snd r))).

(* the amounts (moles, or activity units for enzymes) of solutes ++ [solvent] *)
Definition solve_solution (solutes : list substance) (solvent : substance) (m : sol_mode) : result vec :=
  match solutes with
  | [] => Err EOther
  | _ =>
    do rows <- system solutes solvent m;
    let n := length solutes in
    match gauss (S n) (firstn (S n) rows) with
    | None => Err EValue
    | Some xs =>
        if existsb (fun x => Qle_bool x 0) xs then Err EValue
        else if forallb (residual_ok xs) rows then Ok xs else Err EValue
    end
  end.

Definition amount_qty (s : substance) (x : Q) : qty :=
  {| qval := x; qpfx := P0; qbase := if is_enzyme s then BU else BMol |}.

(* Container.create_solution with a pure solvent *)
Definition create_solution (name : nat) (solutes : list substance) (solvent : substance) (m : sol_mode) : result container :=
  do xs <- solve_solution solutes solvent m;
  make_container cf name None (map2 (fun s x => (s, amount_qty s x)) (solutes ++ [solvent]) xs).

(* the fake solvent standing for a container: effective molar mass and density *)
Definition fake_solvent (k : container) : result substance :=
  let total_mass := total_in cf (cont k) (P0, BG) in
  let total_moles := from_storage_mol cf (total_mol (cont k)) P0 in
  let total_volume := from_storage_vol cf (vol k) Pm in
  if Qeqb total_moles 0 || Qeqb total_volume 0 then Err EValue
  else Ok {| sid := 0; knd := Liquid; mw := total_mass / total_moles; dens := total_mass / total_volume; act := 0 |}.

(* Container.create_solution with a container solvent: (depleted solvent container, solution) *)
Definition create_solution_c (name : nat) (solutes : list substance) (k : container) (m : sol_mode)
  : result (container * container) :=
  do fs <- fake_solvent k;
  do xs <- solve_solution solutes fs m;
  do res <- make_container cf name None (map2 (fun s x => (s, amount_qty s x)) solutes xs);
  transfer cf k res {| qval := last xs 0; qpfx := P0; qbase := BMol |}.

(* ---- create_solution_from ---- *)
Record mix := { m_d : Q; m_mw : Q; m_m : Q }.   (* density g/mL, molar mass g/mol, molarity of the solute mol/L *)
Definition mix_of (k : container) (solute : substance) : result mix :=
  let mass := total_in cf (cont k) (P0, BG) in
  let moles := total_in cf (cont k) (P0, BMol) in
  let volume := from_storage_vol cf (vol k) Pm in
  if Qeqb volume 0 || Qeqb moles 0 then Err EOther
  else Ok {| m_d := mass / volume; m_mw := mass / moles;
             m_m := from_storage_mol cf (get solute (cont k)) P0 / (volume / 1000) |}.

Definition csf_system (x y : mix) (solute : substance) (c : conc) (q : qty) : result (list row) :=
  do top <- match cnum c with
            | BMol => Ok [m_m x / 1000; m_m y / 1000]
            | BG => Ok [m_m x * mw solute / 1000; m_m y * mw solute / 1000]
            | BL => Ok [m_m x * mw solute / (dens solute * 1000000); m_m y * mw solute / (dens solute * 1000000)]
            | BU => Err EValue
            end;
  do bottom <- match cden c with
               | BMol => Ok [m_d x / m_mw x; m_d y / m_mw y]
               | BG => Ok [m_d x; m_d y]
               | BL => Ok [1 # 1000; 1 # 1000]
               | BU => Err EValue
               end;
  let r1 := match qbase q with
            | BG => [m_d x; m_d y]
            | BL => [1 # 1000; 1 # 1000]
            | BMol => [m_d x / m_mw x; m_d y / m_mw y]
            | BU => [0; 0]
            end in
  Ok [(map2 (fun b t => cval c * b - t) bottom top, 0); (r1, qv q)].

Definition csf_solve (x y : mix) (solute : substance) (c : conc) (q : qty) : result (Q * Q) :=
  do rows <- csf_system x y solute c q;
  match gauss 2 rows with
  | Some [a; b] => if Qltb a 0 || Qltb b 0 then Err EValue else Ok (a, b)
  | _ => Err EValue
  end.

Definition mL (v : Q) : qty := {| qval := v; qpfx := Pm; qbase := BL |}.

(* pure solvent: (residual source, new solution) *)
Definition create_solution_from (source : container) (solute : substance) (c : conc) (solvent : substance)
           (q : qty) (name : nat) : result (container * container) :=
  if Qle_bool (qv q) 0 then Err EValue
  else if negb (has solute (cont source)) then Err EValue
  else if seqb solvent solute then Err EValue
  else
    do mx <- mix_of source solute;
    do xy <- csf_solve mx {| m_d := dens solvent; m_mw := mw solvent; m_m := 0 |} solute c q;
    do new <- (if Qeqb (snd xy) 0 then make_container cf name None []
               else make_container cf name None [(solvent, mL (snd xy))]);
    if Qeqb (fst xy) 0 then Ok (source, new) else transfer cf source new (mL (fst xy)).

(* container solvent: ((residual source, residual solvent container), new solution) *)
Definition create_solution_from_c (source : container) (solute : substance) (c : conc) (solvent : container)
           (q : qty) (name : nat) : result ((container * container) * container) :=
  if Qle_bool (qv q) 0 then Err EValue
  else if negb (has solute (cont source)) then Err EValue
  else
    do mx <- mix_of source solute;
    do my <- mix_of solvent solute;
    do xy <- csf_solve mx my solute c q;
    do new <- make_container cf name None [];
    do sn <- (if Qeqb (fst xy) 0 then Ok (source, new) else transfer cf source new (mL (fst xy)));
    do vn <- (if Qeqb (snd xy) 0 then Ok (solvent, snd sn) else transfer cf solvent (snd sn) (mL (snd xy)));
    Ok ((fst sn, fst vn), snd vn).
End CreateSolution.
