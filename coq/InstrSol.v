(* InstrSol.v -- C19, create_solution with a container as the solvent: the volume the instruction line states
   ("... to V unit of <solvent container>") is the volume drawn from that container.  The code computes V from the fake solvent
   standing for the container (effective molar mass = mass / moles, effective density = mass / volume) and the solved number of
   moles; the container loses the fraction moles / total moles of its volume. *)
Require Import Base Units UnitsThm Contents Container ContainerThm ContainerThm2 Dilute Instr Instr2 Solve.

(* a container that holds moles holds mass *)
Lemma mass_of_moles cf c : all_subst wf_subst c -> nonneg c -> 0 < total_mol c -> 0 < total_in cf c (P0, BG).
Proof.
  unfold total_mol, total_in. induction c as [|[s a] t IH]; intros Hs Hn Hm.
  - unfold sum_by in Hm. simpl in Hm. lra.
  - inversion Hs as [|? ? Hs1 Hs2]; subst. inversion Hn as [|? ? Hn1 Hn2]; subst. cbn [fst snd] in *.
    rewrite sum_by_cons in *.
    pose proof (total_in_nonneg cf t (P0, BG) Hs2 Hn2) as Ht. unfold total_in in Ht.
    pose proof (total_mol_nonneg t Hn2) as Hmt. unfold total_mol in Hmt.
    pose proof (conv_stored_nonneg cf s a (P0, BG) Hs1 Hn1) as Hc.
    destruct (is_enzyme s) eqn:Ee.
    + assert (0 < sum_by (fun s0 a0 => if is_enzyme s0 then 0 else a0) t) by lra. specialize (IH Hs2 Hn2 H). lra.
    + destruct (Qlt_le_dec 0 a) as [Ha | Ha].
      * assert (0 < conv_stored cf s a (P0, BG)).
        { rewrite conv_stored_coef. change (pmult P0) with 1. destruct Hs1 as (Hmw & Hd & Hac).
          pose proof (pmult_pos (mol_pfx cf)) as Hp.
          unfold coef. rewrite Ee. assert (0 < pmult (mol_pfx cf) * mw s) by nra.
          assert (0 < a * (pmult (mol_pfx cf) * mw s)) by nra.
          setoid_replace (a * (pmult (mol_pfx cf) * mw s) / 1) with (a * (pmult (mol_pfx cf) * mw s)) by field. assumption. }
        lra.
      * assert (a == 0) by lra. assert (0 < sum_by (fun s0 a0 => if is_enzyme s0 then 0 else a0) t) by lra.
        specialize (IH Hs2 Hn2 H0). lra.
Qed.

Definition solution_c_instr (cf : cfg) (fs : substance) (xs : vec) : amount3 :=
  let hr := human_readable (solvent_volume fs (last xs 0) (P0, BMol)) P0 in (fst hr, snd hr, BL).

Theorem solution_c_instr_true cf name solutes k m k' c : Inv cf k ->
  create_solution_c cf name solutes k m = Ok (k', c) ->
  exists fs xs, fake_solvent cf k = Ok fs /\ solve_solution solutes fs m = Ok xs /\
    let a := solution_c_instr cf fs xs in
    ~ solvent_volume fs (last xs 0) (P0, BMol) == 0 ->
    snd a = BL /\ denotes3 a == total_in cf (cont k) (P0, BL) - total_in cf (cont k') (P0, BL).
Proof.
  intros I H. unfold create_solution_c, bind in H.
  destruct (fake_solvent cf k) as [fs|] eqn:E1; [|discriminate].
  destruct (solve_solution solutes fs m) as [xs|] eqn:E2; [|discriminate].
  destruct (make_container cf name None _) as [res|] eqn:E3; [|discriminate].
  exists fs, xs. split; [reflexivity|]. split; [exact E2|]. cbv zeta. intros Hnz.
  apply transfer_ok in H. destruct H as (r & Hr & H0 & H1 & Hs & _ & _).
  unfold solution_c_instr, denotes3. cbn [fst snd]. split; [reflexivity|].
  destruct (human_readable_preserves _ P0 Hnz) as [Hd _]. unfold denotes in Hd. rewrite Hd. change (pmult P0) with 1.
  subst k'. cbn [cont]. rewrite total_in_take.
  (* the fake solvent *)
  unfold fake_solvent in E1.
  set (M := total_in cf (cont k) (P0, BG)) in *.
  set (N := from_storage_mol cf (total_mol (cont k)) P0) in *.
  set (V := from_storage_vol cf (vol k) Pm) in *.
  destruct (Qeqb N 0 || Qeqb V 0) eqn:Ez; [discriminate|]. apply Bool.orb_false_iff in Ez. destruct Ez as [EN EV].
  apply Qeqb_neq in EN. apply Qeqb_neq in EV. inversion E1; subst fs; clear E1 E2 Hd.
  unfold solvent_volume, conv, conv_base, is_enzyme in *. cbn [knd mw dens fst snd base_eqb andb negb] in *.
  change (pmult P0) with 1 in *.
  pose proof (pmult_pos (mol_pfx cf)) as Hpm. pose proof (pmult_pos (vol_pfx cf)) as Hpv.
  assert (EqN : N == total_mol (cont k) * pmult (mol_pfx cf)).
  { unfold N. rewrite from_storage_mol_spec. change (pmult P0) with 1. field. }
  assert (EqV : V == vol k * pmult (vol_pfx cf) * 1000).
  { unfold V. rewrite from_storage_vol_spec. change (pmult Pm) with (1 # 1000). field. }
  assert (Htm : ~ total_mol (cont k) == 0). { intro E. apply EN. rewrite EqN, E. ring. }
  assert (Hvk : ~ vol k == 0). { intro E. apply EV. rewrite EqV, E. ring. }
  assert (Hmass : ~ M == 0).
  { pose proof (total_mol_nonneg _ (inv_nonneg _ _ I)) as Hn0.
    assert (Hpos : 0 < total_mol (cont k)) by (destruct (Qlt_le_dec 0 (total_mol (cont k))); [assumption | exfalso; apply Htm; lra]).
    pose proof (mass_of_moles cf (cont k) (inv_subst _ _ I) (inv_nonneg _ _ I) Hpos). unfold M. lra. }
  (* the ratio *)
  unfold transfer_ratio in Hr. cbn [qbase] in Hr. apply ratio_of_ok in Hr.
  destruct Hr as [(Ht & _) | (_ & Er)]; [contradiction|].
  assert (Er' : r == last xs 0 / pmult (mol_pfx cf) / total_mol (cont k)).
  { rewrite Er, to_storage_mol_spec. unfold qv. cbn [qval qpfx]. change (pmult P0) with 1. field. split; [lra | exact Htm]. }
  clear Er. set (x := last xs 0) in *.
  (* volume of k in litres *)
  pose proof (inv_vol _ _ I) as Ev. unfold volume_of, vol_unit in Ev. rewrite (total_in_prefix cf (cont k) (vol_pfx cf) BL) in Ev.
  assert (EL : total_in cf (cont k) (P0, BL) == vol k * pmult (vol_pfx cf)). { rewrite Ev. field. lra. }
  assert (Estated : x * 1 * (M / N) / (M / V) / 1000 / 1 == r * (vol k * pmult (vol_pfx cf))).
  { rewrite Er'. generalize EqN EqV EN EV. generalize N V. intros n v En Evv Hn Hv. rewrite En, Evv.
    field. repeat split; try lra; try assumption. }
  rewrite Estated, EL.
  pose proof (Inv_vol_nonneg _ _ I) as Hvn.
  rewrite Qabs_pos by (apply Qmult_le_0_compat; [exact H0 | nra]). ring.
Qed.

(* ---- printing for the correspondence: Instr2's printer extended by the create_solution line ---- *)
Require Import Plate Prog.
Definition instr_of_step2 (cf : cfg) (e : env) (o : op) : list Z :=
  match o with
  | OSolutionC _ _ solutes sv m _ =>
      match getC e sv with
      | Ok k => match fake_solvent cf k with
                | Ok fs => match solve_solution solutes fs m with
                           | Ok xs => 1%Z :: showA3 (solution_c_instr cf fs xs)
                           | Err _ => [0%Z]
                           end
                | Err _ => [0%Z]
                end
      | Err _ => [0%Z]
      end
  | _ => instr_of_step cf e o
  end.
Fixpoint showInstr2 (cf : cfg) (e : env) (ops : list op) : list Z :=
  match ops with
  | [] => []
  | o :: t => instr_of_step2 cf e o ++ showInstr2 cf (match step cf e o with Ok l => assign e l | Err _ => e end) t
  end.
Definition showInstrRun2 (cf : cfg) (ops : list op) : list Z := showInstr2 cf [] ops.
