(* Slicer.v -- executable model of pyplate.slicer.Slicer.__init__ / parse_single / parse_tuple / parse_slice /
   resolve_labels and of numpy basic slicing on the resulting (slice, slice), and the documented meaning
   [spec_select] written independently as a comprehension.  Definitions only. *)
Require Import Base Plate.
From Coq Require Import String.

(* an index: a 1-based integer (Python int, bool included) or a label *)
Inductive lab := LInt (z : Z) | LStr (s : string).
(* a Python slice object with int / label / None ends and an int / None step *)
Record sl := { s_start : option lab; s_stop : option lab; s_step : option Z }.
(* element of a list selector *)
Inductive elem :=
| ETuple (a b : lab)            (* (1, 1), ('A', '1'), ... *)
| EStr (r c : string)           (* 'A:1' *)
| EStrBad                       (* a string without ':' or with more than one ':' *)
| ETuple1 (a : lab) | ETuple3  (* tuples of other lengths *)
| EOtherElem.                   (* anything else *)
Inductive selector :=
| SelSingle (r c : string)      (* 'A:1' *)
| SelStrBad                     (* 'A:1:2' -- more than one ':' *)
| SelRowLabel (s : string)      (* 'A' *)
| SelList (l : list elem)
| SelInt (z : Z)
| SelSlice (s : sl)
| SelTuple1                     (* a 1-tuple *)
| SelPair (a b : lab)
| SelSS (a b : sl) | SelSL (a : sl) (b : lab) | SelLS (a : lab) (b : sl)
| SelBadStep (inner : bool)     (* a slice whose step is not None or an int *)
| SelBad.                       (* any other type (float, None, dict, 3-tuple, ...) *)

Fixpoint index_of (s : string) (l : list string) : option nat :=
  match l with
  | [] => None
  | x :: t => if String.eqb x s then Some O else match index_of s t with Some i => Some (S i) | None => None end
  end.

(* Slicer.resolve_labels on an int or a label: zero-based position *)
Definition res_lab (labels : list string) (x : lab) : result nat :=
  match x with
  | LInt z => if (1 <=? z)%Z && (z <=? Z.of_nat (List.length labels))%Z then Ok (Z.to_nat (z - 1)) else Err EValue
  | LStr s => match index_of s labels with Some i => Ok i | None => Err EValue end
  end.

(* Slicer.parse_slice: (start, stop, step) with zero-based inclusive start and exclusive stop, None kept *)
Definition parse_slice (labels : list string) (s : sl) : result (option nat * option nat * option Z) :=
  do st <- match s_start s with
           | None => Ok None
           | Some x => do i <- res_lab labels x; Ok (Some i)
           end;
  do sp <- match s_stop s with
           | None => Ok None
           | Some x => do i <- res_lab labels x; Ok (Some (S i))
           end;
  Ok (st, sp, s_step s).

(* range(start, stop, step) for a positive step, by iteration *)
Fixpoint range_up (fuel i stop step : nat) : list nat :=
  match fuel with
  | O => []
  | S f => if Nat.ltb i stop then i :: range_up f (i + step) stop step else []
  end.
(* range going down: i, i-step, ... while i > stop (stop = None means down to index 0 inclusive) *)
Fixpoint range_down (fuel i : nat) (stop : option nat) (step : nat) : list nat :=
  match fuel with
  | O => []
  | S f => let go := match stop with None => true | Some e => Nat.ltb e i end in
           if go then i :: (if Nat.ltb i step then [] else
                            if Nat.eqb step 0 then [] else range_down f (i - step) stop step) else []
  end.

(* numpy: the indices a[slice(start, stop, step)] visits on an axis of List.length n; step 0 raises ValueError *)
Definition np_indices (n : nat) (t : option nat * option nat * option Z) : result (list nat) :=
  let '(st, sp, step) := t in
  match step with
  | Some 0%Z => Err EValue
  | Some (Zneg k) =>
      let lo := match st with Some i => i | None => (n - 1)%nat end in
      if Nat.eqb n 0 then Ok [] else Ok (range_down (S n) (Nat.min lo (n - 1)) sp (Pos.to_nat k))
  | _ =>
      let k := match step with Some (Zpos k) => Pos.to_nat k | _ => 1%nat end in
      let lo := match st with Some i => i | None => O end in
      let hi := match sp with Some e => Nat.min e n | None => n end in
      Ok (range_up (S n) lo hi k)
  end.

Definition axis (labels : list string) (s : sl) : result (list nat) :=
  do t <- parse_slice labels s; np_indices (List.length labels) t.
Definition full (n : nat) : list nat := seq 0 n.

Definition res_elem (R C : list string) (e : elem) : result (nat * nat) :=
  match e with
  | ETuple a b => do r <- res_lab R a; do c <- res_lab C b; Ok (r, c)
  | EStr r c => do i <- res_lab R (LStr r); do j <- res_lab C (LStr c); Ok (i, j)
  | EStrBad => Err EType
  | ETuple1 _ => Err EType
  | ETuple3 => Err EValue
  | EOtherElem => Err EType
  end.
Fixpoint res_elems (R C : list string) (l : list elem) : result (list (nat * nat)) :=
  match l with
  | [] => Ok []
  | e :: t => do x <- res_elem R C e; do xs <- res_elems R C t; Ok (x :: xs)
  end.

(* Slicer.__init__ followed by get(): the wells selected, as a region *)
Definition resolve (R C : list string) (s : selector) : result region :=
  match s with
  | SelSingle r c => do i <- res_lab R (LStr r); do j <- res_lab C (LStr c); Ok (RRect [i] [j])
  | SelStrBad => Err EType
  | SelRowLabel l => do i <- res_lab R (LStr l); Ok (RRect [i] (full (List.length C)))
  | SelList l => do xs <- res_elems R C l; Ok (RList xs)
  | SelInt z => do i <- res_lab R (LInt z); Ok (RRect [i] (full (List.length C)))
  | SelSlice a => do rs <- axis R a; Ok (RRect rs (full (List.length C)))
  | SelTuple1 => Err EType
  | SelPair a b => do i <- res_lab R a; do j <- res_lab C b; Ok (RRect [i] [j])
  | SelSS a b => do rs <- axis R a; do cs <- axis C b; Ok (RRect rs cs)
  | SelSL a b => do j <- res_lab C b; do rs <- axis R a; Ok (RRect rs [j])
  | SelLS a b => do i <- res_lab R a; do cs <- axis C b; Ok (RRect [i] cs)
  | SelBadStep _ => Err EType
  | SelBad => Err EType
  end.

(* ---------- the documented meaning, written independently ---------- *)
(* one-based inclusive bounds lo..hi, every k-th; as a comprehension over all positions of the axis *)
Definition spec_axis (n lo hi k : nat) : list nat :=
  filter (fun r => Nat.leb lo r && Nat.leb r hi && Nat.eqb ((r - lo) mod k) 0) (seq 0 n).
(* position (zero-based) denoted by an int or label, if it is one *)
Definition pos_of (labels : list string) (x : lab) : option nat :=
  match x with
  | LInt z => if (1 <=? z)%Z && (z <=? Z.of_nat (List.length labels))%Z then Some (Z.to_nat z - 1)%nat else None
  | LStr s => index_of s labels
  end.
Definition spec_slice (labels : list string) (s : sl) : option (list nat) :=
  let n := List.length labels in
  match (match s_start s with None => Some O | Some x => pos_of labels x end),
        (match s_stop s with None => Some (n - 1)%nat | Some x => pos_of labels x end),
        (match s_step s with None => Some 1%nat | Some (Zpos k) => Some (Pos.to_nat k) | _ => None end) with
  | Some lo, Some hi, Some k => Some (spec_axis n lo hi k)
  | _, _, _ => None
  end.

(* default labels of a plate: rows in bijective base 26 (A..Z, AA, AB, ...), columns decimal *)
Definition letter (d : nat) : string := String (Ascii.ascii_of_nat (65 + d)) EmptyString.
Fixpoint row_name_aux (fuel n : nat) (acc : string) : string :=
  match fuel with
  | O => acc
  | S f => match n with
           | O => acc
           | S m => row_name_aux f (m / 26) (append (letter (m mod 26)) acc)
           end
  end.
Definition row_name (i : nat) : string := row_name_aux (S i) (S i) EmptyString.   (* i is zero-based *)
Definition default_rows (n : nat) : list string := map row_name (seq 0 n).
Definition digit (d : nat) : string := String (Ascii.ascii_of_nat (48 + d)) EmptyString.
Fixpoint dec_aux (fuel n : nat) (acc : string) : string :=
  match fuel with
  | O => acc
  | S f => let acc' := (append (digit (n mod 10)) acc) in if Nat.ltb n 10 then acc' else dec_aux f (n / 10) acc'
  end.
Definition dec_string (n : nat) : string := dec_aux (S n) n EmptyString.
Definition default_cols (n : nat) : list string := map (fun i => dec_string (S i)) (seq 0 n).

(* output for the runner *)
Definition showRegion (r : region) : list Z :=
  match r with
  | RRect rs cs => 1%Z :: Z.of_nat (List.length rs) :: Z.of_nat (List.length cs) ::
                   flat_map (fun i => flat_map (fun j => [Z.of_nat i; Z.of_nat j]) cs) rs
  | RList l => 2%Z :: Z.of_nat (List.length l) :: flat_map (fun p => [Z.of_nat (fst p); Z.of_nat (snd p)]) l
  end.
Definition showResolve (R C : list string) (s : selector) : list Z :=
  match resolve R C s with Ok r => 1%Z :: showRegion r | Err e => [0%Z; err_code e] end.
