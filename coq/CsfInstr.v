(* CsfInstr.v -- C19, create_solution_from with a pure solvent: the line "Add y mL of <solvent> to x mL of <source>." states the
   volume the source loses and the volume of pure solvent the new solution holds beyond the source's share. *)
Require Import Base Units UnitsThm Contents Container ContainerThm ContainerThm2 Plate PlateThm SizeThm Dilute Solve SolveThm CsfThm.

(* what the fresh container of y mL of solvent holds under the solvent's own key *)
Lemma solvent_container_get cf name solvent y c :
  wf_subst solvent -> is_enzyme solvent = false -> make_container cf name None [(solvent, mL y)] = Ok c ->
  conv_stored cf solvent (get solvent (cont c)) (P0, BL) == y * (1 # 1000).
Proof.
  intros Hw He H. unfold make_container, bind in H. simpl in H.
  destruct (self_add cf _ solvent (mL y)) as [c1|] eqn:E; [|discriminate]. inversion H; subst c1; clear H.
  apply self_add_ok in E. destruct E as (vta & ata & Ev & Ea & Ha & Hv & Hov & ->). cbn [cont].
  rewrite get_upd, seqb_refl, rnd_eq. cbn [get].
  destruct Hw as (Hm & Hd & Hac). pose proof (pmult_pos (mol_pfx cf)) as Hpm.
  unfold qv, mL in Ea. simpl in Ea.
  unfold conv_stored, stored_unit, mol_unit, conv, conv_base, is_enzyme in *.
  destruct solvent as [i k m d ac]; simpl in *.
  destruct k; try discriminate; simpl in *; inversion Ea; subst; clear Ea; change (pmult P0) with 1; change (pmult Pm) with (1 # 1000);
    field; repeat split; lra.
Qed.

Theorem csf_instr_true cf src solute solvent c q name src' new :
  Inv cf src -> wf_subst solvent -> is_enzyme solvent = false ->
  create_solution_from cf src solute c solvent q name = Ok (src', new) ->
  exists mx x y, mix_of cf src solute = Ok mx /\
    csf_solve mx {| m_d := dens solvent; m_mw := mw solvent; m_m := 0 |} solute c q = Ok (x, y) /\
    (* "... to x mL of <source>" *)
    total_in cf (cont src) (P0, BL) - total_in cf (cont src') (P0, BL) == x * (1 # 1000) /\
    (* "Add y mL of <solvent>": the source gives the fraction f of everything it holds; the rest of the solvent in the new
       solution is the y mL that were added pure *)
    exists f, (forall k, get k (cont src') == get k (cont src) * (1 - f)) /\
      conv_stored cf solvent (get solvent (cont new) - get solvent (cont src) * f) (P0, BL) == y * (1 # 1000).
Proof.
  intros Isrc Hwv Hev H. unfold create_solution_from in H.
  destruct (Qle_bool (qv q) 0); [discriminate|].
  destruct (negb (has solute (cont src))); [discriminate|].
  destruct (seqb solvent solute); [discriminate|].
  unfold bind in H.
  destruct (mix_of cf src solute) as [mx|] eqn:Emx; [|discriminate].
  destruct (csf_solve mx _ solute c q) as [[x y]|] eqn:Es; [|discriminate]. cbn [fst snd] in H.
  exists mx, x, y. split; [reflexivity|]. split; [exact Es|].
  destruct (if Qeqb y 0 then make_container cf name None [] else make_container cf name None [(solvent, mL y)]) as [new0|] eqn:Emk; [|discriminate].
  (* the fresh container *)
  assert (P1 : conv_stored cf solvent (get solvent (cont new0)) (P0, BL) == y * (1 # 1000) /\ Inv cf new0).
  { destruct (Qeqb y 0) eqn:Ey0.
    - apply Qeqb_eq in Ey0. inversion Emk; subst new0; clear Emk. cbn [cont get]. split.
      + rewrite conv_stored_coef, Ey0. change (pmult P0) with 1. field.
      + apply (make_container_inv cf name None [] _ (Forall_nil _) eq_refl).
    - split; [exact (solvent_container_get cf name solvent y new0 Hwv Hev Emk)|].
      apply (make_container_inv cf name None [(solvent, mL y)] new0); [constructor; [exact Hwv | constructor] | exact Emk]. }
  destruct P1 as [Gy In0].
  pose proof (pmult_pos (vol_pfx cf)) as Hpv.
  pose proof (inv_vol _ _ Isrc) as Ev. unfold volume_of, vol_unit in Ev. rewrite (total_in_prefix cf (cont src) (vol_pfx cf) BL) in Ev.
  assert (EL : total_in cf (cont src) (P0, BL) == vol src * pmult (vol_pfx cf)). { rewrite Ev. field. lra. }
  destruct (Qeqb x 0) eqn:Ex0.
  - apply Qeqb_eq in Ex0. inversion H; subst src' new; clear H. split; [rewrite Ex0; ring|].
    exists 0. split; [intros k; ring|].
    setoid_replace (get solvent (cont new0) - get solvent (cont src) * 0) with (get solvent (cont new0)) by ring. exact Gy.
  - apply transfer_ok in H. destruct H as (r & Hr & H0 & H1 & Hs & Hd & _).
    pose proof (ratio_size cf src (mL x) r (inv_vol _ _ Isrc) Hr) as Hsz. cbn [qbase mL] in Hsz. unfold measure in Hsz.
    unfold qv in Hsz. cbn [qval qpfx] in Hsz. change (pmult Pm) with (1 # 1000) in Hsz.
    rewrite <- (inv_vol _ _ Isrc) in Hsz.
    subst src' new. cbn [cont]. split.
    + rewrite total_in_take, EL. rewrite <- Hsz. ring.
    + exists r. split; [intros k; rewrite get_take; ring|].
      rewrite !conv_stored_coef. rewrite conv_stored_coef in Gy. rewrite (get_move solvent r (cont src) (cont new0) (inv_wf _ _ Isrc)).
      setoid_replace (get solvent (cont new0) + get solvent (cont src) * r - get solvent (cont src) * r) with (get solvent (cont new0)) by ring.
      exact Gy.
Qed.
