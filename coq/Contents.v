(* Contents.v -- the `contents` dictionary of a Container: an association list in insertion
   order, keyed by the substance identifier. *)
Require Import Base Units.

Definition contents := list (substance * Q).

(* dictionary keys are substances compared by value (Python: Substance.__eq__ / __hash__) *)
Definition subst_eq_dec (a b : substance) : {a = b} + {a <> b}.
Proof. repeat decide equality. Defined.
Definition seqb (a b : substance) : bool := if subst_eq_dec a b then true else false.
Lemma seqb_eq a b : seqb a b = true <-> a = b.
Proof. unfold seqb. destruct (subst_eq_dec a b); split; intros; auto; discriminate. Qed.
Lemma seqb_neq a b : seqb a b = false <-> a <> b.
Proof. unfold seqb. destruct (subst_eq_dec a b); split; intros; auto; try discriminate; contradiction. Qed.
Lemma seqb_refl a : seqb a a = true.
Proof. apply seqb_eq. reflexivity. Qed.
Lemma seqb_sym a b : seqb a b = seqb b a.
Proof. destruct (seqb a b) eqn:E.
  - apply seqb_eq in E. subst. symmetry. apply seqb_refl.
  - destruct (seqb b a) eqn:E2; auto. apply seqb_eq in E2. subst. rewrite seqb_refl in E. discriminate.
Qed.

Fixpoint get (k : substance) (c : contents) : Q :=
  match c with
  | [] => 0
  | (s, a) :: t => if seqb s k then a else get k t
  end.

Fixpoint has (k : substance) (c : contents) : bool :=
  match c with
  | [] => false
  | (s, _) :: t => if seqb s k then true else has k t
  end.

(* dict assignment: replace the value of an existing key in place, else append *)
Fixpoint upd (s : substance) (v : Q) (c : contents) : contents :=
  match c with
  | [] => [(s, v)]
  | (s', a) :: t => if seqb s' s then (s', v) :: t else (s', a) :: upd s v t
  end.

Definition keys (c : contents) : list substance := map fst c.
Definition wfc (c : contents) : Prop := NoDup (keys c).

Lemma get_upd k s v c : get k (upd s v c) = if seqb s k then v else get k c.
Proof.
  induction c as [|[s' a] t IH]; simpl.
  - reflexivity.
  - destruct (seqb s' s) eqn:E; simpl.
    + apply seqb_eq in E. subst s'. destruct (seqb s k); reflexivity.
    + destruct (seqb s' k) eqn:E2.
      * apply seqb_eq in E2. subst k. rewrite seqb_sym, E. reflexivity.
      * exact IH.
Qed.

Lemma keys_upd_in s v c : In s (keys c) -> keys (upd s v c) = keys c.
Proof.
  induction c as [|[s' a] t IH]; simpl; intros H; [contradiction|].
  destruct (seqb s' s) eqn:E; simpl; [reflexivity|].
  f_equal. apply IH. destruct H as [H|H]; [apply seqb_neq in E; contradiction | exact H].
Qed.
Lemma keys_upd_notin s v c : ~ In s (keys c) -> keys (upd s v c) = keys c ++ [s].
Proof.
  induction c as [|[s' a] t IH]; simpl; intros H; [reflexivity|].
  destruct (seqb s' s) eqn:E; simpl.
  - apply seqb_eq in E. exfalso. apply H. left. exact E.
  - f_equal. apply IH. intro. apply H. right. assumption.
Qed.
Lemma NoDup_snoc (l : list substance) x : NoDup l -> ~ In x l -> NoDup (l ++ [x]).
Proof.
  induction l as [|y l IH]; simpl; intros Hnd Hn; [constructor; [intros []|constructor]|].
  inversion Hnd; subst. constructor.
  - rewrite in_app_iff. intros [H|[H|[]]]; [contradiction | subst; apply Hn; left; reflexivity].
  - apply IH; [assumption | intro; apply Hn; right; assumption].
Qed.
Lemma wfc_upd s v c : wfc c -> wfc (upd s v c).
Proof.
  unfold wfc. intros H. destruct (in_dec subst_eq_dec s (keys c)) as [Hin|Hn].
  - rewrite keys_upd_in; assumption.
  - rewrite keys_upd_notin by assumption. apply NoDup_snoc; assumption.
Qed.
Lemma has_in k c : has k c = true <-> In k (keys c).
Proof.
  induction c as [|[s a] t IH]; simpl; [split; [discriminate | contradiction]|].
  destruct (seqb s k) eqn:E.
  - apply seqb_eq in E. split; auto.
  - apply seqb_neq in E. rewrite IH. split; [auto | intros [H|H]; [contradiction | exact H]].
Qed.
Lemma get_notin k c : ~ In k (keys c) -> get k c = 0.
Proof.
  induction c as [|[s a] t IH]; simpl; intros H; [reflexivity|].
  destruct (seqb s k) eqn:E.
  - apply seqb_eq in E. exfalso. apply H. left. exact E.
  - apply IH. intro. apply H. right. assumption.
Qed.
Lemma get_in k c : wfc c -> forall a, In (k, a) c -> get k c = a.
Proof.
  induction c as [|[s a0] t IH]; simpl; intros Hwf a H; [contradiction|].
  inversion Hwf as [|x l Hn Hnd]; subst.
  destruct H as [H|H].
  - inversion H; subst. rewrite seqb_refl. reflexivity.
  - destruct (seqb s k) eqn:E.
    + apply seqb_eq in E. subst. exfalso. apply Hn. apply (in_map fst) in H. exact H.
    + apply IH; assumption.
Qed.

(* pointwise map over the amounts keeps keys and commutes with get *)
Definition mapv (f : substance -> Q -> Q) (c : contents) : contents := map (fun p => (fst p, f (fst p) (snd p))) c.
Lemma keys_mapv f c : keys (mapv f c) = keys c.
Proof. unfold keys, mapv. rewrite map_map. reflexivity. Qed.
Lemma get_mapv_lin k r c : get k (mapv (fun _ a => rnd (a - a * r)) c) == get k c - get k c * r.
Proof.
  induction c as [|[s a] t IH]; simpl; [ring|].
  destruct (seqb s k); [apply rnd_eq | exact IH].
Qed.

(* sum of f over all entries *)
Definition sum_by (f : substance -> Q -> Q) (c : contents) : Q := Qsum (map (fun p => f (fst p) (snd p)) c).
Lemma sum_by_nil f : sum_by f [] = 0. Proof. reflexivity. Qed.
Lemma sum_by_cons f s a t : sum_by f ((s, a) :: t) = f s a + sum_by f t. Proof. reflexivity. Qed.
Lemma sum_by_app f a b : sum_by f (a ++ b) == sum_by f a + sum_by f b.
Proof. unfold sum_by. rewrite map_app. apply Qsum_app. Qed.
Lemma sum_by_ext f g c : (forall s a, In (s, a) c -> f s a == g s a) -> sum_by f c == sum_by g c.
Proof.
  induction c as [|[s a] t IH]; intros H; [reflexivity|].
  rewrite !sum_by_cons. rewrite (H s a) by (left; reflexivity). rewrite IH; [reflexivity|].
  intros. apply H. right. assumption.
Qed.
Lemma sum_by_nonneg f c : (forall s a, In (s, a) c -> 0 <= f s a) -> 0 <= sum_by f c.
Proof.
  induction c as [|[s a] t IH]; intros H; [unfold sum_by; simpl; lra|].
  rewrite sum_by_cons. pose proof (H s a (or_introl eq_refl)).
  assert (0 <= sum_by f t) by (apply IH; intros; apply H; right; assumption). lra.
Qed.
Lemma sum_by_mapv f g c : sum_by f (mapv g c) = sum_by (fun s a => f s (g s a)) c.
Proof. unfold sum_by, mapv. rewrite map_map. reflexivity. Qed.
Lemma sum_by_scale f r c : sum_by (fun s a => f s a * r) c == sum_by f c * r.
Proof.
  induction c as [|[s a] t IH]; [unfold sum_by; simpl; ring|].
  rewrite !sum_by_cons, IH. ring.
Qed.
Lemma sum_by_plus f g c : sum_by (fun s a => f s a + g s a) c == sum_by f c + sum_by g c.
Proof.
  induction c as [|[s a] t IH]; [unfold sum_by; simpl; ring|].
  rewrite !sum_by_cons, IH. ring.
Qed.

(* updating one entry changes an additive sum by the difference, provided f s 0 == 0 *)
Lemma sum_by_upd f s v c :
  wfc c -> f s 0 == 0 -> sum_by f (upd s v c) == sum_by f c - f s (get s c) + f s v.
Proof.
  intros Hwf Hz. induction c as [|[s' a] t IH]; simpl.
  - unfold sum_by; simpl. rewrite Hz. ring.
  - inversion Hwf as [|x l Hnin Hnd]; subst.
    destruct (seqb s' s) eqn:E.
    + apply seqb_eq in E. subst s'. rewrite !sum_by_cons. ring.
    + rewrite !sum_by_cons. rewrite IH; [ring | exact Hnd].
Qed.

(* filtering on the key *)
Lemma get_filter k P c : get k (filter (fun p => P (fst p)) c) = if P k then get k c else 0.
Proof.
  induction c as [|[s a] t IH]; simpl; [destruct (P k); reflexivity|].
  destruct (P s) eqn:EP; simpl.
  - destruct (seqb s k) eqn:E; [apply seqb_eq in E; subst; rewrite EP; reflexivity | exact IH].
  - destruct (seqb s k) eqn:E; [apply seqb_eq in E; subst; rewrite EP in *; exact IH | exact IH].
Qed.
Lemma wfc_filter P c : wfc c -> wfc (filter P c).
Proof.
  unfold wfc, keys. induction c as [|[s a] t IH]; simpl; intros H; [constructor|].
  inversion H as [|x l Hn Hnd]; subst. destruct (P (s, a)); simpl; [|auto].
  constructor; [|auto]. intro Hin. apply Hn. apply in_map_iff in Hin. destruct Hin as [[s' a'] [E Hin]].
  simpl in E. subst. apply filter_In in Hin. destruct Hin as [Hin _]. apply (in_map fst) in Hin. exact Hin.
Qed.

(* all substances satisfy a predicate / all amounts non-negative *)
Definition all_subst (P : substance -> Prop) (c : contents) : Prop := Forall (fun p => P (fst p)) c.
Definition nonneg (c : contents) : Prop := Forall (fun p => 0 <= snd p) c.

Lemma nonneg_get k c : nonneg c -> 0 <= get k c.
Proof.
  induction c as [|[s a] t IH]; simpl; intros H; [lra|].
  inversion H; subst. simpl in *. destruct (seqb s k); auto.
Qed.
Lemma nonneg_upd s v c : nonneg c -> 0 <= v -> nonneg (upd s v c).
Proof.
  induction c as [|[s' a] t IH]; simpl; intros H Hv.
  - constructor; [exact Hv | constructor].
  - inversion H as [|x l Hx Hl]; subst. destruct (seqb s' s).
    + constructor; [exact Hv | exact Hl].
    + constructor; [exact Hx | apply IH; assumption].
Qed.
Lemma all_subst_upd P s v c : all_subst P c -> P s -> all_subst P (upd s v c).
Proof.
  induction c as [|[s' a] t IH]; simpl; intros H Hs.
  - constructor; [exact Hs | constructor].
  - inversion H as [|x l Hx Hl]; subst. destruct (seqb s' s).
    + constructor; [exact Hx | exact Hl].
    + constructor; [exact Hx | apply IH; assumption].
Qed.
Lemma all_subst_mapv P f c : all_subst P c -> all_subst P (mapv f c).
Proof. unfold all_subst, mapv. rewrite Forall_map. simpl. auto. Qed.
Lemma all_subst_in P c s a : all_subst P c -> In (s, a) c -> P s.
Proof. unfold all_subst. rewrite Forall_forall. intros H Hin. apply (H (s, a) Hin). Qed.
Lemma nonneg_in c s a : nonneg c -> In (s, a) c -> 0 <= a.
Proof. unfold nonneg. rewrite Forall_forall. intros H Hin. apply (H (s, a) Hin). Qed.

Definition showContents (c : contents) : list Z :=
  Z.of_nat (length c) :: flat_map (fun p => Z.of_nat (sid (fst p)) :: showQ (snd p)) c.
