(* SlicerThm.v -- theorems about the selector model (C13): resolution equals the documented meaning, stays on the
   plate, rejects what is off the plate or malformed; labels and integers are interchangeable. *)
Require Import Base Plate Slicer.
From Coq Require Import String.

Definition P (lo k r : nat) : bool := Nat.leb lo r && Nat.eqb ((r - lo) mod k) 0.

Lemma filter_false {A} (f : A -> bool) l : (forall x, In x l -> f x = false) -> filter f l = [].
Proof.
  induction l as [|h t IH]; intros H; simpl; [reflexivity|].
  rewrite (H h (or_introl eq_refl)). apply IH. intros x Hx. apply H. right. exact Hx.
Qed.

Lemma filter_skip (f : nat -> bool) : forall n a j,
  (forall r, (a <= r < a + j)%nat -> f r = false) -> filter f (seq a n) = filter f (seq (a + j) (n - j)).
Proof.
  induction n as [|n IH]; intros a j H; simpl; [reflexivity|].
  destruct j as [|j].
  - rewrite Nat.add_0_r. reflexivity.
  - rewrite (H a) by lia. replace (a + S j)%nat with (S a + j)%nat by lia. apply IH. intros r Hr. apply H. lia.
Qed.

Lemma range_up_filter k : (1 <= k)%nat -> forall fuel i stop, (stop - i <= fuel)%nat ->
  range_up fuel i stop k = filter (P i k) (seq i (stop - i)).
Proof.
  intros Hk. induction fuel as [|f IH]; intros i stop Hf.
  - simpl. replace (stop - i)%nat with O by lia. reflexivity.
  - simpl. destruct (Nat.ltb i stop) eqn:E.
    + apply Nat.ltb_lt in E. destruct (stop - i)%nat as [|m] eqn:Em; [lia|]. simpl.
      assert (Pi : P i k i = true).
      { unfold P. rewrite Nat.leb_refl, Nat.sub_diag. rewrite Nat.mod_0_l by lia. reflexivity. }
      rewrite Pi. f_equal. rewrite IH by lia.
      rewrite (filter_skip (P i k) m (S i) (k - 1)).
      * replace (S i + (k - 1))%nat with (i + k)%nat by lia. replace (stop - (i + k))%nat with (m - (k - 1))%nat by lia.
        apply filter_ext_in. intros r Hr. apply in_seq in Hr. unfold P.
        replace (Nat.leb i r) with true by (symmetry; apply Nat.leb_le; lia).
        replace (Nat.leb (i + k) r) with true by (symmetry; apply Nat.leb_le; lia).
        replace (r - i)%nat with ((r - (i + k)) + 1 * k)%nat by lia. rewrite Nat.mod_add by lia. reflexivity.
      * intros r Hr. unfold P. replace (Nat.leb i r) with true by (symmetry; apply Nat.leb_le; lia). simpl.
        apply Nat.eqb_neq. rewrite Nat.mod_small by lia. lia.
    + apply Nat.ltb_ge in E. replace (stop - i)%nat with O by lia. reflexivity.
Qed.

Lemma seq_split3 n lo hi : (lo <= S hi)%nat -> (S hi <= n)%nat ->
  seq 0 n = seq 0 lo ++ seq lo (S hi - lo) ++ seq (S hi) (n - S hi).
Proof.
  intros H1 H2.
  replace (seq (S hi) (n - S hi)) with (seq (lo + (S hi - lo)) (n - S hi)) by (f_equal; lia).
  rewrite <- seq_app.
  replace (seq lo (S hi - lo + (n - S hi))) with (seq (0 + lo) (S hi - lo + (n - S hi))) by reflexivity.
  rewrite <- seq_app. f_equal. lia.
Qed.

(* iteration over range(lo, hi+1, k) selects exactly the documented comprehension *)
Theorem range_is_spec n lo hi k : (1 <= k)%nat -> (hi < n)%nat ->
  range_up (S n) lo (S hi) k = spec_axis n lo hi k.
Proof.
  intros Hk Hhi. rewrite (range_up_filter k Hk) by lia. unfold spec_axis.
  destruct (Nat.leb lo hi) eqn:E.
  - apply Nat.leb_le in E.
    rewrite (seq_split3 n lo hi) by lia. rewrite !filter_app.
    rewrite (filter_false _ (seq 0 lo)), (filter_false _ (seq (S hi) _)).
    + cbn [app]. rewrite app_nil_r. apply filter_ext_in. intros r Hr. apply in_seq in Hr. unfold P.
      replace (Nat.leb r hi) with true by (symmetry; apply Nat.leb_le; lia). rewrite andb_true_r. reflexivity.
    + intros r Hr. apply in_seq in Hr. replace (Nat.leb r hi) with false by (symmetry; apply Nat.leb_gt; lia).
      rewrite andb_false_r. reflexivity.
    + intros r Hr. apply in_seq in Hr. replace (Nat.leb lo r) with false by (symmetry; apply Nat.leb_gt; lia). reflexivity.
  - apply Nat.leb_gt in E. replace (S hi - lo)%nat with O by lia. simpl. symmetry. apply filter_false.
    intros r Hr. destruct (Nat.leb lo r) eqn:E1; [|reflexivity]. apply Nat.leb_le in E1.
    replace (Nat.leb r hi) with false by (symmetry; apply Nat.leb_gt; lia). reflexivity.
Qed.

(* ---------- labels and integers ---------- *)
Lemma index_of_lt s l i : index_of s l = Some i -> (i < List.length l)%nat.
Proof.
  revert i; induction l as [|x t IH]; intros i H; simpl in *; [discriminate|].
  destruct (String.eqb x s); [inversion H; lia|]. destruct (index_of s t); [|discriminate]. inversion H; subst.
  specialize (IH n eq_refl). lia.
Qed.
Lemma index_of_nth s l i : index_of s l = Some i -> nth_error l i = Some s.
Proof.
  revert i; induction l as [|x t IH]; intros i H; simpl in *; [discriminate|].
  destruct (String.eqb x s) eqn:E; [apply String.eqb_eq in E; inversion H; subst; reflexivity|].
  destruct (index_of s t); [|discriminate]. inversion H; subst. simpl. apply IH. reflexivity.
Qed.

Theorem res_lab_in_range L x i : res_lab L x = Ok i -> (i < List.length L)%nat.
Proof.
  destruct x as [z|s]; simpl.
  - destruct ((1 <=? z)%Z && (z <=? Z.of_nat (List.length L))%Z) eqn:E; [|discriminate].
    apply andb_true_iff in E. destruct E as [E1 E2]. apply Z.leb_le in E1, E2. intros H; inversion H; subst. lia.
  - destruct (index_of s L) eqn:E; [|discriminate]. intros H; inversion H; subst. eapply index_of_lt; eassumption.
Qed.
(* res_lab is the documented position *)
Theorem res_lab_pos L x : res_lab L x = match pos_of L x with Some i => Ok i | None => Err EValue end.
Proof.
  destruct x as [z|s]; simpl.
  - destruct ((1 <=? z)%Z && (z <=? Z.of_nat (List.length L))%Z) eqn:E; [|reflexivity].
    apply andb_true_iff in E. destruct E as [E1 E2]. apply Z.leb_le in E1, E2. f_equal. lia.
  - destruct (index_of s L); reflexivity.
Qed.
(* a label and its 1-based position are interchangeable *)
Theorem label_int_interchangeable L l i : index_of l L = Some i -> res_lab L (LStr l) = res_lab L (LInt (Z.of_nat i + 1)).
Proof.
  intros H. simpl. rewrite H. pose proof (index_of_lt _ _ _ H) as Hlt.
  replace ((1 <=? Z.of_nat i + 1)%Z && (Z.of_nat i + 1 <=? Z.of_nat (List.length L))%Z) with true.
  - f_equal. lia.
  - symmetry. apply andb_true_iff. split; apply Z.leb_le; lia.
Qed.
Theorem int_out_of_range_rejected L z : (z < 1 \/ Z.of_nat (List.length L) < z)%Z -> res_lab L (LInt z) = Err EValue.
Proof.
  intros H. simpl. destruct ((1 <=? z)%Z && (z <=? Z.of_nat (List.length L))%Z) eqn:E; [|reflexivity].
  apply andb_true_iff in E. destruct E as [E1 E2]. apply Z.leb_le in E1, E2. lia.
Qed.
Theorem unknown_label_rejected L s : index_of s L = None -> res_lab L (LStr s) = Err EValue.
Proof. intros H. simpl. rewrite H. reflexivity. Qed.
Lemma index_of_none s L : ~ In s L -> index_of s L = None.
Proof.
  induction L as [|x t IH]; intros H; simpl; [reflexivity|].
  destruct (String.eqb x s) eqn:E; [apply String.eqb_eq in E; subst; exfalso; apply H; left; reflexivity|].
  rewrite IH; [reflexivity | intro; apply H; right; assumption].
Qed.

(* ---------- slices with a positive step ---------- *)
Theorem axis_spec L s idx : spec_slice L s = Some idx -> axis L s = Ok idx.
Proof.
  unfold spec_slice, axis, parse_slice, bind. destruct s as [st sp step]; simpl.
  intros H.
  destruct (match st with None => Some O | Some x => pos_of L x end) as [lo|] eqn:Elo; [|discriminate].
  destruct (match sp with None => Some (List.length L - 1)%nat | Some x => pos_of L x end) as [hi|] eqn:Ehi; [|discriminate].
  destruct (match step with None => Some 1%nat | Some (Zpos k) => Some (Pos.to_nat k) | _ => None end) as [k|] eqn:Ek; [|discriminate].
  inversion H; subst; clear H.
  assert (Hk : (1 <= k)%nat).
  { destruct step as [[|p|p]|]; inversion Ek; subst; [pose proof (Pos2Nat.is_pos p); lia | lia]. }
  (* start *)
  assert (Est : (match st with None => Ok None | Some x => match res_lab L x with Ok i => Ok (Some i) | Err e => Err e end end)
                = Ok (match st with None => None | Some _ => Some lo end)).
  { destruct st as [x|]; [|reflexivity]. rewrite res_lab_pos, Elo. reflexivity. }
  rewrite Est.
  destruct sp as [x|].
  - rewrite res_lab_pos, Ehi. simpl.
    assert (Hhi : (hi < List.length L)%nat).
    { pose proof (res_lab_in_range L x hi). rewrite res_lab_pos, Ehi in H. auto. }
    replace (match step with Some 0%Z => Err EValue | Some (Z.neg k0) => _ | _ => _ end)
      with (Ok (range_up (S (List.length L)) (match st with None => O | Some _ => lo end) (Nat.min (S hi) (List.length L)) k) : result (list nat)).
    + f_equal. rewrite Nat.min_l by lia.
      replace (match st with None => O | Some _ => lo end) with lo by (destruct st; [reflexivity | inversion Elo; reflexivity]).
      apply range_is_spec; assumption.
    + destruct step as [[|p|p]|]; inversion Ek; subst; destruct st; reflexivity.
  - simpl. inversion Ehi; subst.
    replace (match step with Some 0%Z => Err EValue | Some (Z.neg k0) => _ | _ => _ end)
      with (Ok (range_up (S (List.length L)) (match st with None => O | Some _ => lo end) (List.length L) k) : result (list nat)).
    + f_equal.
      replace (match st with None => O | Some _ => lo end) with lo by (destruct st; [reflexivity | inversion Elo; reflexivity]).
      destruct (List.length L) as [|n] eqn:En.
      * simpl. unfold spec_axis. simpl. destruct (Nat.ltb lo 0) eqn:E; [apply Nat.ltb_lt in E; lia | reflexivity].
      * replace (S n - 1)%nat with n by lia. apply range_is_spec; [assumption | lia].
    + destruct step as [[|p|p]|]; inversion Ek; subst; destruct st; reflexivity.
Qed.

(* a slice end that is not on the plate is rejected *)
Theorem axis_rejects_start L x sp step : pos_of L x = None -> axis L {| s_start := Some x; s_stop := sp; s_step := step |} = Err EValue.
Proof. intros H. unfold axis, parse_slice, bind. simpl. rewrite res_lab_pos, H. reflexivity. Qed.
Theorem axis_rejects_stop L st x step : pos_of L x = None ->
  (match st with None => True | Some y => pos_of L y <> None end) ->
  axis L {| s_start := st; s_stop := Some x; s_step := step |} = Err EValue.
Proof.
  intros H Hst. unfold axis, parse_slice, bind. simpl. destruct st as [y|].
  - rewrite res_lab_pos. destruct (pos_of L y); [|contradiction]. rewrite res_lab_pos, H. reflexivity.
  - rewrite res_lab_pos, H. reflexivity.
Qed.

(* every index an accepted slice selects is on the axis *)
Lemma range_up_lt fuel : forall i stop k x, In x (range_up fuel i stop k) -> (x < stop)%nat.
Proof.
  induction fuel as [|f IH]; intros i stop k x H; simpl in H; [contradiction|].
  destruct (Nat.ltb i stop) eqn:E; [|contradiction]. apply Nat.ltb_lt in E.
  destruct H as [<-|H]; [exact E | eapply IH; eassumption].
Qed.
Lemma range_down_le fuel : forall i stop k x, In x (range_down fuel i stop k) -> (x <= i)%nat.
Proof.
  induction fuel as [|f IH]; intros i stop k x H; simpl in H; [contradiction|].
  destruct (match stop with None => true | Some e => Nat.ltb e i end); [|contradiction].
  destruct H as [<-|H]; [lia|]. destruct (Nat.ltb i k); [contradiction|]. destruct (Nat.eqb k 0); [contradiction|].
  apply IH in H. lia.
Qed.
Local Opaque range_up range_down.
Theorem axis_in_range L s idx : axis L s = Ok idx -> forall x, In x idx -> (x < List.length L)%nat.
Proof.
  unfold axis, bind. destruct (parse_slice L s) as [[[st sp] step]|]; [|discriminate]. unfold np_indices.
  destruct step as [[|p|p]|].
  - discriminate.
  - intros H; inversion H; subst. intros x Hx. apply range_up_lt in Hx. destruct sp; lia.
  - destruct (Nat.eqb (List.length L) 0) eqn:E; intros H; inversion H; subst; intros x Hx; [contradiction|].
    apply Nat.eqb_neq in E. apply range_down_le in Hx. lia.
  - intros H; inversion H; subst. intros x Hx. apply range_up_lt in Hx. destruct sp; lia.
Qed.

Local Transparent range_up range_down.
(* ---------- whole selectors ---------- *)
Definition region_cells (r : region) : list (nat * nat) :=
  match r with RRect rs cs => flat_map (fun i => map (fun j => (i, j)) cs) rs | RList l => l end.

Local Opaque res_lab.
Lemma res_elems_in_range R C l xs : res_elems R C l = Ok xs ->
  forall p, In p xs -> (fst p < List.length R)%nat /\ (snd p < List.length C)%nat.
Proof.
  revert xs; induction l as [|e t IH]; intros xs H; simpl in H.
  - inversion H; subst. intros p [].
  - unfold bind in H. destruct (res_elem R C e) as [[r c]|] eqn:Ee; [|discriminate].
    destruct (res_elems R C t) as [ys|]; [|discriminate]. inversion H; subst.
    intros p [<-|Hp]; [|apply (IH ys eq_refl p Hp)]. simpl.
    destruct e; simpl in Ee; unfold bind in Ee; try discriminate.
    + destruct (res_lab R a) eqn:E1; [|discriminate]. destruct (res_lab C b) eqn:E2; [|discriminate]. inversion Ee; subst.
      split; eapply res_lab_in_range; eassumption.
    + destruct (res_lab R (LStr r0)) eqn:E1; [|discriminate]. destruct (res_lab C (LStr c0)) eqn:E2; [|discriminate]. inversion Ee; subst.
      split; eapply res_lab_in_range; eassumption.
Qed.

(* nothing outside the plate is ever selected *)
Theorem resolve_in_range R C s r : resolve R C s = Ok r ->
  forall p, In p (region_cells r) -> (fst p < List.length R)%nat /\ (snd p < List.length C)%nat.
Proof.
  assert (Hfull : forall n x, In x (full n) -> (x < n)%nat) by (intros n x Hx; apply in_seq in Hx; lia).
  assert (Hrect : forall rs cs, (forall x, In x rs -> (x < List.length R)%nat) -> (forall x, In x cs -> (x < List.length C)%nat) ->
            forall p, In p (region_cells (RRect rs cs)) -> (fst p < List.length R)%nat /\ (snd p < List.length C)%nat).
  { intros rs cs Hr Hc p Hp. simpl in Hp. apply in_flat_map in Hp. destruct Hp as [i [Hi Hp]].
    apply in_map_iff in Hp. destruct Hp as [j [<- Hj]]. simpl. auto. }
  assert (Hone : forall i n, (i < n)%nat -> forall x, In x [i] -> (x < n)%nat) by (intros i n Hi x [<-|[]]; exact Hi).
  destruct s; simpl; unfold bind; try discriminate.
  - destruct (res_lab R (LStr r0)) eqn:E1; [|discriminate]. destruct (res_lab C (LStr c)) eqn:E2; [|discriminate].
    intros H; inversion H; subst. apply Hrect; eapply Hone; eapply res_lab_in_range; eassumption.
  - destruct (res_lab R (LStr s)) eqn:E1; [|discriminate]. intros H; inversion H; subst.
    apply Hrect; [eapply Hone; eapply res_lab_in_range; eassumption | apply Hfull].
  - destruct (res_elems R C l) eqn:E; [|discriminate]. intros H; inversion H; subst. simpl. eapply res_elems_in_range; eassumption.
  - destruct (res_lab R (LInt z)) eqn:E1; [|discriminate]. intros H; inversion H; subst.
    apply Hrect; [eapply Hone; eapply res_lab_in_range; eassumption | apply Hfull].
  - destruct (axis R s) eqn:E1; [|discriminate]. intros H; inversion H; subst.
    apply Hrect; [eapply axis_in_range; eassumption | apply Hfull].
  - destruct (res_lab R a) eqn:E1; [|discriminate]. destruct (res_lab C b) eqn:E2; [|discriminate].
    intros H; inversion H; subst. apply Hrect; eapply Hone; eapply res_lab_in_range; eassumption.
  - destruct (axis R a) eqn:E1; [|discriminate]. destruct (axis C b) eqn:E2; [|discriminate].
    intros H; inversion H; subst. apply Hrect; eapply axis_in_range; eassumption.
  - destruct (res_lab C b) eqn:E2; [|discriminate]. destruct (axis R a) eqn:E1; [|discriminate].
    intros H; inversion H; subst. apply Hrect; [eapply axis_in_range; eassumption | eapply Hone; eapply res_lab_in_range; eassumption].
  - destruct (res_lab R a) eqn:E1; [|discriminate]. destruct (axis C b) eqn:E2; [|discriminate].
    intros H; inversion H; subst. apply Hrect; [eapply Hone; eapply res_lab_in_range; eassumption | eapply axis_in_range; eassumption].
Qed.

Local Transparent res_lab.
(* 'A:1', ('A','1') and (i, j) with i, j the 1-based positions of the labels denote the same well *)
Theorem same_well R C r c i j :
  index_of r R = Some i -> index_of c C = Some j ->
  resolve R C (SelSingle r c) = Ok (RRect [i] [j]) /\
  resolve R C (SelPair (LStr r) (LStr c)) = Ok (RRect [i] [j]) /\
  resolve R C (SelPair (LInt (Z.of_nat i + 1)) (LInt (Z.of_nat j + 1))) = Ok (RRect [i] [j]) /\
  resolve R C (SelPair (LStr r) (LInt (Z.of_nat j + 1))) = Ok (RRect [i] [j]) /\
  resolve R C (SelList [EStr r c]) = Ok (RList [(i, j)]) /\
  resolve R C (SelList [ETuple (LInt (Z.of_nat i + 1)) (LStr c)]) = Ok (RList [(i, j)]).
Proof.
  intros Hr Hc.
  pose proof (label_int_interchangeable R r i Hr) as Er. pose proof (label_int_interchangeable C c j Hc) as Ec.
  assert (E1 : res_lab R (LStr r) = Ok i) by (simpl; rewrite Hr; reflexivity).
  assert (E2 : res_lab C (LStr c) = Ok j) by (simpl; rewrite Hc; reflexivity).
  unfold resolve, res_elems, res_elem, bind. rewrite <- Er, <- Ec, E1, E2. repeat split; reflexivity.
Qed.

(* whole rows: a label or integer alone selects that row across every column *)
Theorem row_selector R C x i : res_lab R x = Ok i ->
  match x with LInt z => resolve R C (SelInt z) | LStr s => resolve R C (SelRowLabel s) end = Ok (RRect [i] (full (List.length C))).
Proof. intros H. destruct x; simpl in *; unfold bind; rewrite H; reflexivity. Qed.

(* slices: both end points included, open ends run to the edge, a positive step k takes every k-th *)
Theorem resolve_slices R C a b rs cs :
  spec_slice R a = Some rs -> spec_slice C b = Some cs ->
  resolve R C (SelSS a b) = Ok (RRect rs cs) /\ resolve R C (SelSlice a) = Ok (RRect rs (full (List.length C))).
Proof.
  intros Ha Hb. simpl. unfold bind. rewrite (axis_spec R a rs Ha), (axis_spec C b cs Hb). split; reflexivity.
Qed.
Theorem resolve_slice_label R C a b rs j :
  spec_slice R a = Some rs -> res_lab C b = Ok j -> resolve R C (SelSL a b) = Ok (RRect rs [j]).
Proof. intros Ha Hb. simpl. unfold bind. rewrite Hb, (axis_spec R a rs Ha). reflexivity. Qed.
Theorem resolve_label_slice R C a b i cs :
  res_lab R a = Ok i -> spec_slice C b = Some cs -> resolve R C (SelLS a b) = Ok (RRect [i] cs).
Proof. intros Ha Hb. simpl. unfold bind. rewrite Ha, (axis_spec C b cs Hb). reflexivity. Qed.

(* a list selects its wells in the order given *)
Theorem resolve_list_order R C l xs : res_elems R C l = Ok xs -> resolve R C (SelList l) = Ok (RList xs) /\ List.length xs = List.length l.
Proof.
  intros H. simpl. unfold bind. rewrite H. split; [reflexivity|].
  revert xs H. induction l as [|e t IH]; intros xs H; simpl in H.
  - inversion H; reflexivity.
  - unfold bind in H. destruct (res_elem R C e); [|discriminate]. destruct (res_elems R C t) as [ys|]; [|discriminate].
    inversion H; subst. simpl. f_equal. apply IH. reflexivity.
Qed.

(* the comprehension is sorted and duplicate free: row-major order *)
Theorem spec_axis_sorted n lo hi k : NoDup (spec_axis n lo hi k) /\
  forall x, In x (spec_axis n lo hi k) <-> ((lo <= x <= hi)%nat /\ (x < n)%nat /\ ((x - lo) mod k = 0)%nat).
Proof.
  unfold spec_axis. split.
  - apply NoDup_filter. apply seq_NoDup.
  - intros x. rewrite filter_In, in_seq, !andb_true_iff, !Nat.leb_le, Nat.eqb_eq. lia.
Qed.

(* malformed selectors are rejected *)
Theorem malformed_rejected R C :
  resolve R C SelStrBad = Err EType /\ resolve R C SelTuple1 = Err EType /\ resolve R C SelBad = Err EType /\
  (forall b, resolve R C (SelBadStep b) = Err EType) /\
  resolve R C (SelList [EStrBad]) = Err EType /\ resolve R C (SelList [ETuple3]) = Err EValue /\ resolve R C (SelList [EOtherElem]) = Err EType.
Proof. repeat split; reflexivity. Qed.

(* ---------- default labels ---------- *)
Fixpoint mem_str (s : string) (l : list string) : bool :=
  match l with [] => false | x :: t => String.eqb x s || mem_str s t end.
Fixpoint nodupb (l : list string) : bool :=
  match l with [] => true | x :: t => negb (mem_str x t) && nodupb t end.
Lemma mem_str_in s l : mem_str s l = false -> ~ In s l.
Proof.
  induction l as [|x t IH]; simpl; intros H; [tauto|]. apply orb_false_iff in H. destruct H as [H1 H2].
  intros [E|E]; [subst; rewrite String.eqb_refl in H1; discriminate | apply (IH H2 E)].
Qed.
Lemma nodupb_NoDup l : nodupb l = true -> NoDup l.
Proof.
  induction l as [|x t IH]; simpl; intros H; [constructor|]. apply andb_true_iff in H. destruct H as [H1 H2].
  constructor; [apply mem_str_in; apply negb_true_iff; exact H1 | apply IH; exact H2].
Qed.
Theorem default_rows_start : default_rows 28 =
  ["A";"B";"C";"D";"E";"F";"G";"H";"I";"J";"K";"L";"M";"N";"O";"P";"Q";"R";"S";"T";"U";"V";"W";"X";"Y";"Z";"AA";"AB"]%string.
Proof. vm_compute. reflexivity. Qed.
(* bounded: the first 1000 default row labels (rows beyond Z included: AA .. ALL) are pairwise distinct *)
Theorem default_rows_distinct_1000 : NoDup (default_rows 1000).
Proof. apply nodupb_NoDup. vm_compute. reflexivity. Qed.
Theorem default_cols_distinct_1000 : NoDup (default_cols 1000).
Proof. apply nodupb_NoDup. vm_compute. reflexivity. Qed.
(* a default row label resolves to its own row: for every plate with up to 1000 rows *)
Lemma index_of_nodup l : NoDup l -> forall i s, nth_error l i = Some s -> index_of s l = Some i.
Proof.
  induction l as [|x t IH]; intros Hnd i s H; [destruct i; discriminate|].
  inversion Hnd; subst. destruct i as [|i]; simpl in *.
  - inversion H; subst. rewrite String.eqb_refl. reflexivity.
  - destruct (String.eqb x s) eqn:E.
    + apply String.eqb_eq in E. subst. exfalso. apply H2. eapply nth_error_In; eassumption.
    + rewrite (IH H3 i s H). reflexivity.
Qed.
Lemma default_rows_prefix n m : (n <= m)%nat -> default_rows n = firstn n (default_rows m).
Proof.
  intros H. unfold default_rows. rewrite firstn_map. f_equal.
  replace m with (n + (m - n))%nat by lia. rewrite seq_app, firstn_app, seq_length, Nat.sub_diag. simpl.
  rewrite app_nil_r. rewrite firstn_all2; [reflexivity | rewrite seq_length; lia].
Qed.
Lemma In_firstn {A} n (l : list A) x : In x (firstn n l) -> In x l.
Proof.
  revert n; induction l as [|y t IH]; intros [|n] H; simpl in *; try contradiction.
  destruct H as [H|H]; [left; exact H | right; eapply IH; exact H].
Qed.
Lemma NoDup_firstn {A} n (l : list A) : NoDup l -> NoDup (firstn n l).
Proof.
  revert n; induction l as [|x t IH]; intros [|n] H; simpl; try constructor; inversion H; subst.
  - intro Hin. apply H2. eapply In_firstn; eassumption.
  - apply IH. assumption.
Qed.
Theorem default_label_resolves n i : (n <= 1000)%nat -> (i < n)%nat ->
  res_lab (default_rows n) (LStr (row_name i)) = Ok i.
Proof.
  intros Hn Hi. simpl.
  assert (Hnd : NoDup (default_rows n)).
  { rewrite (default_rows_prefix n 1000 Hn). apply NoDup_firstn. apply default_rows_distinct_1000. }
  rewrite (index_of_nodup _ Hnd i (row_name i)); [reflexivity|].
  unfold default_rows. rewrite nth_error_map. rewrite (nth_error_nth' _ 0%nat) by (rewrite seq_length; exact Hi).
  rewrite seq_nth by exact Hi. reflexivity.
Qed.
