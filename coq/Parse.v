(* Parse.v -- executable model of Unit.parse_quantity and Unit.parse_concentration on the token level.
   A quantity string is "value unit"; a concentration string is "v nu/du", "v nu/w du", "v tokM", "v tokm" or
   "v %w/w" / "%v/v" / "%w/v".  The numeric literal (Python float()) and the splitting on blanks and '/' are glue of
   the harness; the model starts from the value and the unit tokens.  Definitions only. *)
Require Import Base Units.
From Coq Require Import String Ascii.

Definition chars (s : string) : list ascii := list_ascii_of_string s.
Fixpoint strip_prefix (p l : list ascii) : option (list ascii) :=
  match p, l with
  | [], _ => Some l
  | a :: p', b :: l' => if Ascii.eqb a b then strip_prefix p' l' else None
  | _ :: _, [] => None
  end.
(* s.endswith(suf): the part before the suffix *)
Definition strip_suffix (suf s : list ascii) : option (list ascii) :=
  match strip_prefix (rev suf) (rev s) with Some r => Some (rev r) | None => None end.

Definition list_eqb (a b : list ascii) : bool := if list_eq_dec ascii_dec a b then true else false.
(* Unit.convert_prefix_to_multiplier *)
Fixpoint find_prefix (tok : list ascii) (ps : list Units.prefix) : option Units.prefix :=
  match ps with
  | [] => None
  | p :: t => if list_eqb tok (chars (pname p)) then Some p else find_prefix tok t
  end.
Definition prefix_of (tok : list ascii) : option Units.prefix := find_prefix tok all_prefixes.

(* base units of parse_quantity, in the order the code tries them *)
Inductive qbase5 := QMol | QG | QL | QM | QU.
Definition qname (b : qbase5) : string := match b with QMol => "mol" | QG => "g" | QL => "L" | QM => "M" | QU => "U" end%string.
Definition quantity_bases := [QMol; QG; QL; QM; QU].

Fixpoint try_bases (tok : list ascii) (bs : list qbase5) : result (Units.prefix * qbase5) :=
  match bs with
  | [] => Err EValue
  | b :: t => match strip_suffix (chars (qname b)) tok with
              | Some pre => match prefix_of pre with Some p => Ok (p, b) | None => Err EValue end   (* invalid prefix: ValueError *)
              | None => try_bases tok t
              end
  end.
(* the unit token of a quantity: (prefix, base) *)
Definition split_unit (tok : string) : result (Units.prefix * qbase5) :=
  if String.eqb tok "U" then Ok (P0, QU) else try_bases (chars tok) quantity_bases.
(* Unit.parse_quantity on "v tok" *)
Definition parse_quantity (v : Q) (tok : string) : result (Q * qbase5) :=
  do pb <- split_unit tok; Ok (v * pmult (fst pb), snd pb).

(* ---- concentrations ---- *)
Inductive pct := PctVV | PctWW | PctWV.
Inductive conc_doc :=
| CSlash (v : Q) (nu : string) (dv : option Q) (du : string)   (* "v nu/du" or "v nu/w du" *)
| CShort (v : Q) (tok : string)                                 (* "v tok" without '/': tok must end in m or M *)
| CPercent (v : Q) (k : pct)
| CNoUnit                                                       (* fewer than two tokens before '/', or none after *)
| CTwoSlashes.

Definition concentration_bases := [BMol; BL; BG; BU].
(* the sequential rewriting loop: for unit in (mol, L, g, U): if tok.endswith(unit): scale, tok = unit *)
Fixpoint rewrite_tok (tok : list ascii) (bs : list base) : result (Q * list ascii) :=
  match bs with
  | [] => Ok (1, tok)
  | b :: t => match strip_suffix (chars (bname b)) tok with
              | Some pre => match prefix_of pre with
                            | Some p => do r <- rewrite_tok (chars (bname b)) t; Ok (pmult p * fst r, snd r)
                            | None => Err EValue
                            end
              | None => rewrite_tok tok t
              end
  end.
Definition base_of_tok (tok : list ascii) : option base :=
  if list_eqb tok (chars "U") then Some BU else if list_eqb tok (chars "mol") then Some BMol
  else if list_eqb tok (chars "L") then Some BL else if list_eqb tok (chars "g") then Some BG else None.

(* the implementation interleaves the two tokens inside one loop; the scalings commute, so the model treats them one after the other
   except for which error surfaces first, which is always ValueError *)
Definition parse_slash (v : Q) (nu : string) (dv : option Q) (du : string) : result (Q * base * base) :=
  match dv with
  | Some w => if Qeqb w 0 then Err EOther else      (* ZeroDivisionError escapes *)
      do n <- rewrite_tok (chars nu) concentration_bases; do d <- rewrite_tok (chars du) concentration_bases;
      match base_of_tok (snd n), base_of_tok (snd d) with
      | Some nb, Some db => Ok (rnd (v / w * fst n / fst d), nb, db)
      | _, _ => Err EValue
      end
  | None =>
      do n <- rewrite_tok (chars nu) concentration_bases; do d <- rewrite_tok (chars du) concentration_bases;
      match base_of_tok (snd n), base_of_tok (snd d) with
      | Some nb, Some db => Ok (rnd (v * fst n / fst d), nb, db)
      | _, _ => Err EValue
      end
  end.

Definition last_char (s : string) : option ascii := match rev (chars s) with a :: _ => Some a | [] => None end.
Definition drop_last (s : string) : string := string_of_list_ascii (rev (tl (rev (chars s)))).

(* w/v units are configurable (default g/mL) *)
Definition parse_concentration (wv : string * string) (c : conc_doc) : result (Q * base * base) :=
  match c with
  | CSlash v nu dv du => parse_slash v nu dv du
  | CShort v tok =>
      match last_char tok with
      | Some "m"%char => parse_slash v (drop_last tok ++ "mol") None "kg"
      | Some "M"%char => parse_slash v (drop_last tok ++ "mol") None "L"
      | _ => Err EValue
      end
  | CPercent v PctVV => parse_slash (v / 100) "L" None "L"
  | CPercent v PctWW => parse_slash (v / 100) "g" None "g"
  | CPercent v PctWV => parse_slash (v / 100) (fst wv) None (snd wv)
  | CNoUnit => Err EValue
  | CTwoSlashes => Err EValue
  end.

Definition qbase_code (b : qbase5) : Z := match b with QMol => 4 | QG => 3 | QL => 2 | QM => 5 | QU => 1 end%Z.
Definition base_code (b : base) : Z := match b with BU => 1 | BL => 2 | BG => 3 | BMol => 4 end%Z.
Definition showPQ (r : result (Q * qbase5)) : list Z :=
  match r with Ok (v, b) => 1%Z :: qbase_code b :: showQ v | Err e => [0%Z; err_code e] end.
Definition showPC (r : result (Q * base * base)) : list Z :=
  match r with Ok (v, n, d) => 1%Z :: base_code n :: base_code d :: showQ v | Err e => [0%Z; err_code e] end.
