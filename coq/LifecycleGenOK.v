(* LifecycleGenOK.v -- the guard table extracted from /repo's Recipe methods on every run (gen/LifecycleGen.v)
   equals the table the automaton implements; the automaton honours every entry of that table. *)
Require Import Base GenBase Lifecycle LifecycleThm LifecycleGen.
From Coq Require Import String.

Theorem gen_guards_eq_model : gen_lifecycle_guards = model_guards.
Proof. reflexivity. Qed.

(* what an entry (locked guard = true, RuntimeError) means for the automaton: every call of that method on a locked recipe *)
Theorem model_guards_honoured : forall s c, locked s = true -> step_api s c = (s, Raise ERuntime).
Proof. exact locked_forever. Qed.
