(* DiluteThm.v -- dilute reaches its target by adding only solvent (C11). *)
Require Import Base Units UnitsThm Contents Container ContainerThm ContainerThm2 Dilute.

(* x micromoles of a non-enzyme solvent, stored and measured again in base unit b, are x * 1e-6 * (one mole in b) *)
Lemma conv_stored_of_umol cf s x b ata :
  wf_subst s -> is_enzyme s = false -> b <> BU ->
  conv s (x * pmult Pu) (P0, BMol) (stored_unit cf s) = Some ata ->
  conv_stored cf s ata (P0, b) == x * pmult Pu * per_mole s b.
Proof.
  intros (Hm & Hd & Ha) He Hb. pose proof (pmult_pos (mol_pfx cf)) as Hpm.
  unfold conv_stored, stored_unit, mol_unit, per_mole, conv, conv_base, is_enzyme in *.
  destruct s as [i k m d ac]; simpl in *.
  destruct k, b; simpl; try discriminate; try congruence; intros E; inversion E; subst; clear E;
    change (pmult P0) with 1; field; repeat split; lra.
Qed.
Lemma per_mole_pos s b : wf_subst s -> is_enzyme s = false -> b <> BU -> 0 < per_mole s b.
Proof.
  intros (Hm & Hd & Ha) He Hb. unfold per_mole, conv, conv_base, is_enzyme in *. destruct s as [i k m d ac]; simpl in *.
  destruct k, b; simpl; try discriminate; try congruence; change (pmult P0) with 1; unfold Qdiv;
    repeat apply Qmult_lt_0_compat; try lra; try reflexivity; try (apply Qinv_lt_0_compat; first [lra | reflexivity]).
Qed.

(* decomposition of a successful, non-trivial dilution *)
Lemma dilute_ok cf c solute t solvent c' :
  dilute cf c solute t solvent = Ok c' ->
  has solute (cont c) = true /\ cden t <> BU /\ is_enzyme solvent = false /\ solvent <> solute /\ 0 < cval t /\
  0 <= rnd (to_storage_mol cf (dilute_required cf c solute t solvent) Pu) /\
  (rnd (to_storage_mol cf (dilute_required cf c solute t solvent) Pu) == 0 /\ c' = c \/
   ~ rnd (to_storage_mol cf (dilute_required cf c solute t solvent) Pu) == 0 /\
   self_add cf c solvent {| qval := dilute_required cf c solute t solvent; qpfx := Pu; qbase := BMol |} = Ok c').
Proof.
  unfold dilute.
  destruct (has solute (cont c)) eqn:Eh; simpl; [|discriminate].
  destruct (base_eqb (cnum t) BU && negb (is_enzyme solute)); [discriminate|].
  destruct (base_eqb (cden t) BU || is_enzyme solvent) eqn:Ed; [discriminate|]. apply orb_false_iff in Ed. destruct Ed as [Ed Ee].
  destruct (seqb solvent solute) eqn:Es; [discriminate|]. apply seqb_neq in Es.
  destruct (Qle_bool (cval t) 0) eqn:Ec; [discriminate|].
  assert (0 < cval t). { apply Qnot_le_lt. intro Hle. apply Qle_bool_iff in Hle. congruence. }
  cbv zeta.
  destruct (Qltb _ 0) eqn:E1; [discriminate|]. apply Qltb_ge in E1.
  assert (Hden : cden t <> BU) by (intro Hx; rewrite Hx in Ed; discriminate).
  destruct (Qeqb _ 0) eqn:E2.
  - apply Qeqb_eq in E2. intros H0; inversion H0; subst. repeat split; auto.
  - apply Qeqb_neq in E2.
    repeat match goal with
    | |- context [match ?x with Some _ => _ | None => Err EValue end] => destruct x; [|discriminate]
    | |- context [if ?b then Err EValue else _] => destruct b; [discriminate|]
    end.
    intros H0. repeat split; auto.
Qed.

(* C11: whenever dilute adds solvent, the solute's concentration in the requested units equals the target, nothing but the
   solvent changed, and the invariant (capacity included) holds for the result *)
Theorem dilute_post cf c solute t solvent c' :
  Inv cf c -> wf_subst solvent -> dilute cf c solute t solvent = Ok c' -> c' <> c ->
  conv_stored cf solute (get solute (cont c')) (P0, cnum t) == cval t * total_in cf (cont c') (P0, cden t) /\
  (forall k, k <> solvent -> get k (cont c') = get k (cont c)) /\ get solvent (cont c) <= get solvent (cont c') /\
  cname c' = cname c /\ maxv c' = maxv c /\ Inv cf c'.
Proof.
  intros I Hs H Hne. apply dilute_ok in H. destruct H as (Hh & Hden & He & Hss & Hc & Hr0 & [[_ ->]|[Hrn Hadd]]); [contradiction|].
  pose proof (self_add_contents _ _ _ _ _ Hadd) as (Hk & Hge & Hn & Hm).
  split; [|repeat split; auto; eapply self_add_inv; eassumption].
  pose proof Hadd as Hadd'. apply self_add_ok in Hadd'. destruct Hadd' as (vta & ata & Ev & Ea & Ha & Hv & Hov & ->). simpl in *.
  rewrite get_upd. destruct (seqb solvent solute) eqn:Es; [apply seqb_eq in Es; contradiction|].
  rewrite total_in_upd by apply (inv_wf _ _ I). rewrite rnd_eq, conv_stored_add.
  unfold qv in Ea. simpl in Ea.
  rewrite (conv_stored_of_umol cf solvent _ (cden t) ata Hs He Hden Ea).
  unfold dilute_required. pose proof (per_mole_pos solvent (cden t) Hs He Hden) as Hp.
  set (sa := conv_stored cf solute (get solute (cont c)) (P0, cnum t)). set (tot := total_in cf (cont c) (P0, cden t)).
  set (pm := per_mole solvent (cden t)) in *. change (pmult Pu) with (1 # 1000000). field. split; lra.
Qed.

(* a target above the current concentration is refused *)
Theorem dilute_higher_refused cf c solute t solvent :
  0 < total_in cf (cont c) (P0, cden t) ->
  conv_stored cf solute (get solute (cont c)) (P0, cnum t) < cval t * total_in cf (cont c) (P0, cden t) ->
  wf_subst solvent -> is_enzyme solvent = false -> cden t <> BU ->
  exists e, dilute cf c solute t solvent = Err e.
Proof.
  intros Ht Hlt Hs He Hden. destruct (dilute cf c solute t solvent) as [c'|e] eqn:E; [|eauto]. exfalso.
  apply dilute_ok in E. destruct E as (_ & _ & _ & _ & Hc & Hr0 & _).
  rewrite rnd_eq, to_storage_mol_spec in Hr0. unfold dilute_required in Hr0.
  pose proof (per_mole_pos solvent (cden t) Hs He Hden) as Hp. pose proof (pmult_pos (mol_pfx cf)) as Hpm.
  set (sa := conv_stored cf solute (get solute (cont c)) (P0, cnum t)) in *. set (tot := total_in cf (cont c) (P0, cden t)) in *.
  set (pm := per_mole solvent (cden t)) in *.
  assert (HX : sa / cval t - tot < 0).
  { assert (sa / cval t < tot) by (apply Qlt_shift_div_r; [exact Hc | lra]). lra. }
  assert (E : (sa / cval t - tot) / pm * 1000000 * pmult Pu / pmult (mol_pfx cf) == (sa / cval t - tot) * / pm * / pmult (mol_pfx cf)).
  { change (pmult Pu) with (1 # 1000000). field. repeat split; lra. }
  rewrite E in Hr0.
  assert (Hi1 : 0 < / pm) by (apply Qinv_lt_0_compat; exact Hp). assert (Hi2 : 0 < / pmult (mol_pfx cf)) by (apply Qinv_lt_0_compat; exact Hpm).
  assert (H1 : (sa / cval t - tot) * / pm < 0) by nra.
  assert (H2 : (sa / cval t - tot) * / pm * / pmult (mol_pfx cf) < 0) by nra. lra.
Qed.
Theorem dilute_err_class cf c solute t solvent e : dilute cf c solute t solvent = Err e -> e = EValue \/ e = EType.
Proof.
  unfold dilute. cbv zeta.
  repeat match goal with
  | |- (if ?b then Err _ else _) = _ -> _ => destruct b; [intros Hx; inversion Hx; subst; auto|]
  | |- (if ?b then Ok _ else _) = _ -> _ => destruct b; [discriminate|]
  | |- (match ?x with Some _ => _ | None => Err _ end) = _ -> _ => destruct x; [|intros Hx; inversion Hx; subst; auto]
  end.
  intros Hx. left. eapply self_add_err_is_value; eassumption.
Qed.
