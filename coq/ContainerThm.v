(* ContainerThm.v -- theorems about the container model: conservation, uniform aliquots, sizes,
   invariants (no negative amounts, volume bookkeeping, capacity), refusal / acceptance. *)
Require Import Base Units UnitsThm Contents Container.

(* ---------- conv_stored as a linear map: amount * coefficient / prefix ---------- *)
Definition coef (cf : cfg) (s : substance) (b : base) : Q :=
  if is_enzyme s then match b with BU => 1 | BL => / dens s / 1000 | BMol => 0 | BG => / act s end
  else pmult (mol_pfx cf) * match b with BU => 0 | BL => mw s / dens s / 1000 | BMol => 1 | BG => mw s end.

Lemma conv_stored_coef cf s a p b : conv_stored cf s a (p, b) == a * coef cf s b / pmult p.
Proof.
  unfold conv_stored, stored_unit, conv, conv_base, coef, mol_unit, is_enzyme.
  destruct s as [i k m d ac]; simpl. destruct k; simpl; destruct b; simpl; unfold Qdiv; ring.
Qed.
Lemma conv_stored_scale cf s a r u : conv_stored cf s (a * r) u == conv_stored cf s a u * r.
Proof. destruct u as [p b]. rewrite !conv_stored_coef. unfold Qdiv. ring. Qed.
Lemma conv_stored_add cf s a b u : conv_stored cf s (a + b) u == conv_stored cf s a u + conv_stored cf s b u.
Proof. destruct u as [p b']. rewrite !conv_stored_coef. unfold Qdiv. ring. Qed.
Lemma conv_stored_sub cf s a b u : conv_stored cf s (a - b) u == conv_stored cf s a u - conv_stored cf s b u.
Proof. destruct u as [p b']. rewrite !conv_stored_coef. unfold Qdiv. ring. Qed.
Lemma conv_stored_zero cf s u : conv_stored cf s 0 u == 0.
Proof. destruct u as [p b]. rewrite conv_stored_coef. unfold Qdiv. ring. Qed.
Global Instance conv_stored_proper cf s : Proper (Qeq ==> eq ==> Qeq) (conv_stored cf s).
Proof. intros a b H u v E. subst v. destruct u as [p b']. rewrite !conv_stored_coef. rewrite H. reflexivity. Qed.

Lemma Qinv_pos x : 0 < x -> 0 < / x.
Proof. apply Qinv_lt_0_compat. Qed.
Lemma coef_nonneg cf s b : wf_subst s -> 0 <= coef cf s b.
Proof.
  intros (Hm & Hd & Ha). unfold coef. pose proof (pmult_pos (mol_pfx cf)) as Hp.
  pose proof (Qinv_pos _ Hd) as Hid. pose proof (Qinv_pos _ Ha) as Hia.
  destruct (is_enzyme s); destruct b; unfold Qdiv; try lra; try nra.
  - assert (0 < / dens s * / 1000) by (apply Qmult_lt_0_compat; [assumption | reflexivity]). lra.
  - assert (0 < mw s * / dens s) by (apply Qmult_lt_0_compat; assumption).
    assert (0 < mw s * / dens s * / 1000) by (apply Qmult_lt_0_compat; [assumption | reflexivity]). nra.
Qed.
Lemma conv_stored_nonneg cf s a u : wf_subst s -> 0 <= a -> 0 <= conv_stored cf s a u.
Proof.
  intros Hwf Ha. destruct u as [p b]. rewrite conv_stored_coef.
  pose proof (coef_nonneg cf s b Hwf). pose proof (Qinv_pos _ (pmult_pos p)).
  unfold Qdiv. assert (0 <= a * coef cf s b) by nra. nra.
Qed.

(* ---------- totals ---------- *)
Lemma total_in_take cf r c u : total_in cf (take_from r c) u == total_in cf c u * (1 - r).
Proof.
  unfold total_in, take_from. rewrite sum_by_mapv.
  rewrite <- sum_by_scale. apply sum_by_ext. intros s a _.
  rewrite rnd_eq. setoid_replace (a - a * r) with (a * (1 - r)) by ring. apply conv_stored_scale.
Qed.
Lemma total_mol_take r c : total_mol (take_from r c) == total_mol c * (1 - r).
Proof.
  unfold total_mol, take_from. rewrite sum_by_mapv. rewrite <- sum_by_scale. apply sum_by_ext.
  intros s a _. destruct (is_enzyme s); [ring | rewrite rnd_eq; ring].
Qed.
Lemma total_act_take r c : total_act (take_from r c) == total_act c * (1 - r).
Proof.
  unfold total_act, take_from. rewrite sum_by_mapv. rewrite <- sum_by_scale. apply sum_by_ext.
  intros s a _. destruct (is_enzyme s); [rewrite rnd_eq; ring | ring].
Qed.
Lemma total_in_nonneg cf c u : all_subst wf_subst c -> nonneg c -> 0 <= total_in cf c u.
Proof.
  intros Hs Hn. apply sum_by_nonneg. intros s a Hin. apply conv_stored_nonneg.
  - eapply all_subst_in; eassumption.
  - eapply nonneg_in; eassumption.
Qed.
Lemma total_mol_nonneg c : nonneg c -> 0 <= total_mol c.
Proof.
  intros Hn. apply sum_by_nonneg. intros s a Hin. destruct (is_enzyme s); [lra | eapply nonneg_in; eassumption].
Qed.
Lemma total_act_nonneg c : nonneg c -> 0 <= total_act c.
Proof.
  intros Hn. apply sum_by_nonneg. intros s a Hin. destruct (is_enzyme s); [eapply nonneg_in; eassumption | lra].
Qed.
Lemma total_in_prefix cf c p b : total_in cf c (p, b) == total_in cf c (P0, b) / pmult p.
Proof.
  unfold total_in. induction c as [|[s a] t IH]; [unfold sum_by; simpl; unfold Qdiv; ring|].
  rewrite !sum_by_cons, IH, !conv_stored_coef. change (pmult P0) with 1. field. apply pmult_nz.
Qed.

(* ---------- the per-substance move ---------- *)
Lemma get_take k r c : get k (take_from r c) == get k c - get k c * r.
Proof. apply get_mapv_lin. Qed.

Lemma move_into_cons r s a t d :
  move_into r ((s, a) :: t) d = move_into r t (upd s (rnd (get s d + a * r)) d).
Proof. reflexivity. Qed.

Lemma get_move k r src : forall dst, wfc src -> get k (move_into r src dst) == get k dst + get k src * r.
Proof.
  induction src as [|[s a] t IH]; intros dst Hwf.
  - unfold move_into; simpl. ring.
  - rewrite move_into_cons. inversion Hwf as [|x l Hn Hnd]; subst.
    rewrite IH by exact Hnd. rewrite get_upd. simpl.
    destruct (seqb s k) eqn:E.
    + apply seqb_eq in E. subst k. rewrite (get_notin s t Hn). rewrite rnd_eq. ring.
    + reflexivity.
Qed.

Lemma wfc_move r src : forall dst, wfc dst -> wfc (move_into r src dst).
Proof.
  induction src as [|[s a] t IH]; intros dst H; [exact H|].
  rewrite move_into_cons. apply IH. apply wfc_upd. exact H.
Qed.
Lemma nonneg_move r src : forall dst, 0 <= r -> nonneg src -> nonneg dst -> nonneg (move_into r src dst).
Proof.
  induction src as [|[s a] t IH]; intros dst Hr Hs Hd; [exact Hd|].
  rewrite move_into_cons. inversion Hs as [|x l Hx Hl]; subst. simpl in Hx.
  apply IH; [exact Hr | exact Hl |]. apply nonneg_upd; [exact Hd|].
  rewrite rnd_eq. pose proof (nonneg_get s dst Hd). nra.
Qed.
Lemma all_subst_move P r src : forall dst, all_subst P src -> all_subst P dst -> all_subst P (move_into r src dst).
Proof.
  induction src as [|[s a] t IH]; intros dst Hs Hd; [exact Hd|].
  rewrite move_into_cons. inversion Hs as [|x l Hx Hl]; subst. simpl in Hx.
  apply IH; [exact Hl|]. apply all_subst_upd; assumption.
Qed.
Lemma nonneg_take r c : 0 <= r -> r <= 1 -> nonneg c -> nonneg (take_from r c).
Proof.
  intros H0 H1. unfold nonneg, take_from, mapv. rewrite Forall_map. apply Forall_impl.
  intros [s a]; simpl. intros Ha. rewrite rnd_eq. nra.
Qed.

(* ---------- invariant ---------- *)
Record Inv (cf : cfg) (c : container) : Prop := {
  inv_wf : wfc (cont c);
  inv_subst : all_subst wf_subst (cont c);
  inv_nonneg : nonneg (cont c);
  inv_vol : vol c == volume_of cf (cont c);
  inv_cap : match maxv c with None => True | Some m => vol c <= m end
}.
Lemma Inv_vol_nonneg cf c : Inv cf c -> 0 <= vol c.
Proof. intros H. rewrite (inv_vol _ _ H). apply total_in_nonneg; [apply (inv_subst _ _ H) | apply (inv_nonneg _ _ H)]. Qed.

Lemma over_false v m : over v m = false -> match m with None => True | Some mx => v <= mx end.
Proof. destruct m; simpl; [|auto]. unfold Qgtb. rewrite Qltb_ge. auto. Qed.
Lemma over_true v m : over v m = true -> exists mx, m = Some mx /\ mx < v.
Proof. destruct m; simpl; [|discriminate]. unfold Qgtb. rewrite Qltb_lt. eauto. Qed.

(* ---------- decomposition of a successful transfer ---------- *)
Lemma transfer_ok cf src dst q s' d' :
  transfer cf src dst q = Ok (s', d') ->
  exists r, transfer_ratio cf src q = Ok r /\ 0 <= r /\ r <= 1 /\
    s' = {| cname := cname src; cont := take_from r (cont src);
            vol := rnd (volume_of cf (take_from r (cont src))); maxv := maxv src |} /\
    d' = {| cname := cname dst; cont := move_into r (cont src) (cont dst);
            vol := rnd (volume_of cf (move_into r (cont src) (cont dst))); maxv := maxv dst |} /\
    over (vol d') (maxv dst) = false.
Proof.
  unfold transfer, bind. destruct (transfer_ratio cf src q) as [r|e]; [|discriminate].
  destruct (Qltb (rnd r) 0) eqn:E0; [discriminate|].
  destruct (Qgtb (rnd r) 1) eqn:E1; [discriminate|].
  destruct (over _ (maxv dst)) eqn:E2; [discriminate|].
  intros H. inversion H; subst; clear H. exists r.
  apply Qltb_ge in E0. unfold Qgtb in E1. apply Qltb_ge in E1. rewrite rnd_eq in E0, E1.
  repeat split; auto.
Qed.

(* C01: every substance is conserved over source + destination *)
Theorem transfer_conserves cf src dst q s' d' :
  wfc (cont src) -> transfer cf src dst q = Ok (s', d') ->
  forall k, get k (cont s') + get k (cont d') == get k (cont src) + get k (cont dst).
Proof.
  intros Hwf H k. apply transfer_ok in H. destruct H as (r & _ & _ & _ & Hs & Hd & _). subst s' d'. simpl.
  rewrite get_take, get_move by exact Hwf. ring.
Qed.

(* C02: the same fraction of every substance leaves the source and arrives in the destination *)
Theorem transfer_uniform cf src dst q s' d' :
  wfc (cont src) -> transfer cf src dst q = Ok (s', d') ->
  exists r, 0 <= r /\ r <= 1 /\
    forall k, get k (cont s') == get k (cont src) * (1 - r) /\ get k (cont d') == get k (cont dst) + get k (cont src) * r.
Proof.
  intros Hwf H. apply transfer_ok in H. destruct H as (r & _ & H0 & H1 & Hs & Hd & _). subst s' d'.
  exists r. repeat split; auto; simpl.
  - rewrite get_take. ring.
  - apply get_move. exact Hwf.
Qed.

(* keys: names and capacities are kept; the source keeps exactly its keys *)
Theorem transfer_keeps cf src dst q s' d' :
  transfer cf src dst q = Ok (s', d') ->
  cname s' = cname src /\ maxv s' = maxv src /\ cname d' = cname dst /\ maxv d' = maxv dst /\ keys (cont s') = keys (cont src).
Proof.
  intros H. apply transfer_ok in H. destruct H as (r & _ & _ & _ & Hs & Hd & _). subst s' d'. simpl.
  repeat split; auto. apply keys_mapv.
Qed.

(* C03/C10: the invariant is preserved by a successful transfer, for both results *)
Theorem transfer_inv cf src dst q s' d' :
  Inv cf src -> Inv cf dst -> transfer cf src dst q = Ok (s', d') -> Inv cf s' /\ Inv cf d'.
Proof.
  intros Is Id H. apply transfer_ok in H. destruct H as (r & _ & H0 & H1 & Hs & Hd & Hov). subst s' d'.
  destruct Is as [sw ss sn sv sc]. destruct Id as [dw ds dn dv dc]. split; constructor; simpl in *.
  - unfold wfc. unfold take_from. rewrite keys_mapv. exact sw.
  - apply all_subst_mapv. exact ss.
  - apply nonneg_take; assumption.
  - apply rnd_eq.
  - destruct (maxv src) as [m|]; [|exact I]. rewrite rnd_eq. unfold volume_of. rewrite total_in_take.
    unfold volume_of in sv. rewrite <- sv.
    assert (0 <= vol src) by (rewrite sv; apply total_in_nonneg; assumption). nra.
  - apply wfc_move. exact dw.
  - apply all_subst_move; assumption.
  - apply nonneg_move; assumption.
  - apply rnd_eq.
  - apply over_false in Hov. exact Hov.
Qed.

(* ---------- the ratio: what each unit branch computes ---------- *)
Lemma ratio_of_ok req tot r : ratio_of req tot = Ok r ->
  (tot == 0 /\ req == 0 /\ r = 0) \/ (~ tot == 0 /\ r = req / tot).
Proof.
  unfold ratio_of. destruct (Qeqb tot 0) eqn:E.
  - apply Qeqb_eq in E. destruct (Qeqb (rnd req) 0) eqn:E2; [|discriminate].
    apply Qeqb_eq in E2. rewrite rnd_eq in E2. intros H; inversion H. left. auto.
  - apply Qeqb_neq in E. intros H; inversion H. right. auto.
Qed.

(* measure of a container in the unit branch of q (in the base unit, unprefixed) *)
Definition measure (cf : cfg) (b : base) (c : contents) : Q :=
  match b with
  | BL => volume_of cf c * pmult (vol_pfx cf)
  | BG => total_in cf c (P0, BG)
  | BMol => total_mol c * pmult (mol_pfx cf)
  | BU => total_act c
  end.
Lemma measure_take cf b r c : measure cf b (take_from r c) == measure cf b c * (1 - r).
Proof.
  destruct b; simpl; unfold volume_of; rewrite ?total_in_take, ?total_mol_take, ?total_act_take; ring.
Qed.
Lemma measure_nonneg cf b c : all_subst wf_subst c -> nonneg c -> 0 <= measure cf b c.
Proof.
  intros Hs Hn. destruct b; simpl.
  - apply total_act_nonneg; assumption.
  - pose proof (total_in_nonneg cf c (vol_unit cf) Hs Hn). pose proof (pmult_pos (vol_pfx cf)). unfold volume_of. nra.
  - apply total_in_nonneg; assumption.
  - pose proof (total_mol_nonneg c Hn). pose proof (pmult_pos (mol_pfx cf)). nra.
Qed.

(* the ratio times the measure of the source is the requested amount *)
Lemma ratio_size cf src q r :
  vol src == volume_of cf (cont src) -> transfer_ratio cf src q = Ok r ->
  r * measure cf (qbase q) (cont src) == qv q.
Proof.
  intros Hv. unfold transfer_ratio, measure.
  pose proof (pmult_pos (vol_pfx cf)) as Hpv. pose proof (pmult_pos (mol_pfx cf)) as Hpm.
  destruct (qbase q).
  - destruct (Qeqb (total_act (cont src)) 0) eqn:E; [discriminate|]. apply Qeqb_neq in E.
    intros H; inversion H. field. exact E.
  - destruct (Qgtb _ (vol src)); [discriminate|]. intros H. apply ratio_of_ok in H.
    rewrite <- Hv.
    destruct H as [(Ht & Hr & ->) | (Ht & ->)].
    + rewrite rnd_eq, to_storage_vol_spec in Hr. change (pmult P0) with 1 in Hr. rewrite Ht.
      assert (qv q == 0). { field_simplify_eq in Hr; [|lra]. lra. } lra.
    + rewrite rnd_eq, to_storage_vol_spec. change (pmult P0) with 1. field. repeat split; try exact Ht; lra.
  - intros H. apply ratio_of_ok in H.
    destruct H as [(Ht & Hr & ->) | (Ht & ->)]; [rewrite rnd_eq in Hr; rewrite Ht; lra | rewrite rnd_eq; field; exact Ht].
  - intros H. apply ratio_of_ok in H.
    destruct H as [(Ht & Hr & ->) | (Ht & ->)].
    + rewrite to_storage_mol_spec in Hr. change (pmult P0) with 1 in Hr. rewrite Ht.
      assert (qv q == 0). { field_simplify_eq in Hr; [|lra]. lra. } lra.
    + rewrite to_storage_mol_spec. change (pmult P0) with 1. field. repeat split; try exact Ht; lra.
Qed.

(* C02: the aliquot has size q in the unit of q -- the source loses exactly q *)
Theorem transfer_size cf src dst q s' d' :
  vol src == volume_of cf (cont src) -> transfer cf src dst q = Ok (s', d') ->
  measure cf (qbase q) (cont src) - measure cf (qbase q) (cont s') == qv q.
Proof.
  intros Hv H. apply transfer_ok in H. destruct H as (r & Hr & _ & _ & Hs & _ & _). subst s'. simpl.
  rewrite measure_take. rewrite <- (ratio_size cf src q r Hv Hr). ring.
Qed.

(* C03: taking more than the source holds is refused, in every unit *)
Theorem transfer_overdraw_refused cf src dst q :
  Inv cf src -> measure cf (qbase q) (cont src) < qv q -> transfer cf src dst q = Err EValue.
Proof.
  intros I Hlt. destruct (transfer cf src dst q) as [[s' d']|e] eqn:E.
  - exfalso. pose proof E as E'. apply transfer_ok in E'. destruct E' as (r & Hr & H0 & H1 & _).
    pose proof (ratio_size cf src q r (inv_vol _ _ I) Hr) as Hsz.
    pose proof (measure_nonneg cf (qbase q) (cont src) (inv_subst _ _ I) (inv_nonneg _ _ I)). nra.
  - unfold transfer, bind in E. destruct (transfer_ratio cf src q) as [r|e'] eqn:Er.
    + destruct (Qltb (rnd r) 0); [inversion E; reflexivity|]. destruct (Qgtb (rnd r) 1); [inversion E; reflexivity|].
      destruct (over _ _); [inversion E; reflexivity | discriminate].
    + unfold transfer_ratio in Er. destruct (qbase q).
      * destruct (Qeqb _ 0); inversion Er; inversion E; subst; reflexivity.
      * destruct (Qgtb _ _); [inversion Er; inversion E; subst; reflexivity|].
        unfold ratio_of in Er. destruct (Qeqb _ 0); [destruct (Qeqb _ 0)|]; inversion Er; inversion E; subst; reflexivity.
      * unfold ratio_of in Er. destruct (Qeqb _ 0); [destruct (Qeqb _ 0)|]; inversion Er; inversion E; subst; reflexivity.
      * unfold ratio_of in Er. destruct (Qeqb _ 0); [destruct (Qeqb _ 0)|]; inversion Er; inversion E; subst; reflexivity.
Qed.

(* every refusal of transfer is a ValueError *)
Theorem transfer_err_is_value cf src dst q e : transfer cf src dst q = Err e -> e = EValue.
Proof.
  unfold transfer, bind. destruct (transfer_ratio cf src q) as [r|e'] eqn:Er.
  - destruct (Qltb (rnd r) 0); [intros H; inversion H; reflexivity|].
    destruct (Qgtb (rnd r) 1); [intros H; inversion H; reflexivity|].
    destruct (over _ _); [intros H; inversion H; reflexivity | discriminate].
  - intros H; inversion H; subst. unfold transfer_ratio in Er. destruct (qbase q).
    + destruct (Qeqb _ 0); inversion Er; reflexivity.
    + destruct (Qgtb _ _); [inversion Er; reflexivity|].
      unfold ratio_of in Er. destruct (Qeqb _ 0); [destruct (Qeqb _ 0)|]; inversion Er; reflexivity.
    + unfold ratio_of in Er. destruct (Qeqb _ 0); [destruct (Qeqb _ 0)|]; inversion Er; reflexivity.
    + unfold ratio_of in Er. destruct (Qeqb _ 0); [destruct (Qeqb _ 0)|]; inversion Er; reflexivity.
Qed.

(* C03: a negative quantity is refused *)
Theorem transfer_negative_refused cf src dst q :
  Inv cf src -> qv q < 0 -> transfer cf src dst q = Err EValue.
Proof.
  intros I Hneg. destruct (transfer cf src dst q) as [[s' d']|e] eqn:E.
  - exfalso. pose proof E as E'. apply transfer_ok in E'. destruct E' as (r & Hr & H0 & H1 & _).
    pose proof (ratio_size cf src q r (inv_vol _ _ I) Hr) as Hsz.
    pose proof (measure_nonneg cf (qbase q) (cont src) (inv_subst _ _ I) (inv_nonneg _ _ I)). nra.
  - apply transfer_err_is_value in E. subst. reflexivity.
Qed.
