(* RecipeThm.v -- theorems about the recipe model: bake is the eager fold (C08), the snapshots are faithful to the
   name -> object table and steps touch only their own objects (frame: the basis of C09 / C15). *)
Require Import Base Units Contents Container Dilute Solve Plate Prog Recipe.

(* ---------- the table ---------- *)
Lemma rget_rset_same n o e : rget n (rset n o e) = Some o.
Proof.
  induction e as [|[k x] t IH]; simpl; [rewrite Nat.eqb_refl; reflexivity|].
  destruct (Nat.eqb k n) eqn:E; simpl; rewrite ?E; [reflexivity | exact IH].
Qed.
Lemma rget_rset_other n m o e : n <> m -> rget m (rset n o e) = rget m e.
Proof.
  intros H. induction e as [|[k x] t IH]; simpl.
  - destruct (Nat.eqb n m) eqn:E; [apply Nat.eqb_eq in E; contradiction | reflexivity].
  - destruct (Nat.eqb k n) eqn:E; simpl.
    + apply Nat.eqb_eq in E. subst k. destruct (Nat.eqb n m) eqn:E2; [apply Nat.eqb_eq in E2; contradiction | reflexivity].
    + destruct (Nat.eqb k m); [reflexivity | exact IH].
Qed.
Lemma rset_keys n o e : rget n e <> None -> map fst (rset n o e) = map fst e.
Proof.
  induction e as [|[k x] t IH]; simpl; intros H; [contradiction|].
  destruct (Nat.eqb k n) eqn:E; simpl; [apply Nat.eqb_eq in E; subst; reflexivity|].
  f_equal. apply IH. exact H.
Qed.
Lemma getc_some e n c : getc e n = Ok c -> rget n e = Some (OC c).
Proof. unfold getc. destruct (rget n e) as [[x|x]|]; intros H; inversion H; reflexivity. Qed.
Lemma getp_some e n p : getp e n = Ok p -> rget n e = Some (OP p).
Proof. unfold getp. destruct (rget n e) as [[x|x]|]; intros H; inversion H; reflexivity. Qed.
Lemma geto_some e n o : geto e n = Ok o -> rget n e = Some o.
Proof. unfold geto. destruct (rget n e); intros H; inversion H; reflexivity. Qed.

(* ---------- frame and faithfulness of one baked step ---------- *)
Definition frm_name (k : snap) : option nat := match s_frm k with Some (n, _, _) => Some n | None => None end.

Definition frame_ok (e e' : renv) (k : snap) : Prop :=
  rget (s_to k) e = Some (s_to0 k) /\ rget (s_to k) e' = Some (s_to1 k) /\
  (forall n o0 o1, s_frm k = Some (n, o0, o1) -> rget n e = Some o0 /\ rget n e' = Some o1) /\
  (forall m, m <> s_to k -> frm_name k <> Some m -> rget m e' = rget m e) /\
  map fst e' = map fst e /\
  (forall m, In m (s_objs k) <-> (m = s_to k \/ frm_name k = Some m)).

Lemma frame_single e n o0 o1 tr subs : rget n e = Some o0 ->
  frame_ok e (rset n o1 e) {| s_objs := [n]; s_to := n; s_to0 := o0; s_to1 := o1; s_frm := None; s_trash := tr; s_subs := subs |}.
Proof.
  intros H. unfold frame_ok, frm_name; simpl. split; [exact H|]. split; [apply rget_rset_same|].
  split; [intros ? ? ? Hx; discriminate Hx|]. split; [intros m Hm _; apply rget_rset_other; auto|].
  split; [apply rset_keys; congruence|]. intros m. split.
  - intros [Hm|[]]. subst. left. reflexivity.
  - intros [Hm|Hx]; [subst; left; reflexivity | discriminate Hx].
Qed.
Lemma frame_same e a o0 o1 tr subs : rget a e = Some o0 ->
  frame_ok e (rset a o1 e) {| s_objs := [a]; s_to := a; s_to0 := o0; s_to1 := o1; s_frm := Some (a, o0, o1); s_trash := tr; s_subs := subs |}.
Proof.
  intros H. unfold frame_ok, frm_name; simpl. split; [exact H|]. split; [apply rget_rset_same|].
  split; [intros ? ? ? Hx; inversion Hx; subst; split; [exact H | apply rget_rset_same]|].
  split; [intros m Hm _; apply rget_rset_other; auto|].
  split; [apply rset_keys; congruence|]. intros m. split.
  - intros [Hm|[]]. subst. left. reflexivity.
  - intros [Hm|Hx]; [subst; left; reflexivity | inversion Hx; left; reflexivity].
Qed.
Lemma frame_pair e a b oa0 oa1 ob0 ob1 tr subs objs : a <> b -> rget a e = Some oa0 -> rget b e = Some ob0 ->
  (forall m, In m objs <-> (m = a \/ m = b)) ->
  frame_ok e (rset b ob1 (rset a oa1 e))
    {| s_objs := objs; s_to := b; s_to0 := ob0; s_to1 := ob1; s_frm := Some (a, oa0, oa1); s_trash := tr; s_subs := subs |}.
Proof.
  intros Hab Ha Hb Hobjs. unfold frame_ok, frm_name; simpl. split; [exact Hb|]. split; [apply rget_rset_same|].
  split; [intros ? ? ? Hx; inversion Hx; subst; split; [exact Ha | rewrite rget_rset_other by auto; apply rget_rset_same]|].
  split; [intros m Hm Hf; rewrite !rget_rset_other; auto; intro; subst; apply Hf; reflexivity|].
  split; [rewrite !rset_keys; try congruence; rewrite rget_rset_other by auto; congruence|].
  intros m. rewrite Hobjs. split.
  - intros [Hm|Hm]; subst; [right; reflexivity | left; reflexivity].
  - intros [Hm|Hx]; [subst; right; reflexivity | inversion Hx; left; reflexivity].
Qed.

Theorem bake_step_frame cf d13 e st e' k : bake_step cf d13 e st = Ok (e', k) -> frame_ok e e' k.
Proof.
  assert (P2 : forall a b : nat, forall m, In m [a; b] <-> (m = a \/ m = b)) by (intros a b m; simpl; intuition).
  assert (P2' : forall a b : nat, forall m, In m [b; a] <-> (m = a \/ m = b)) by (intros a b m; simpl; intuition).
  destruct st; simpl; unfold bind.
  - destruct (geto e name) as [o0|] eqn:E0; [|discriminate]. destruct (make_container _ _ _ _) as [c|]; [|discriminate].
    intros H; inversion H; subst; clear H. apply frame_single. apply geto_some. exact E0.
  - destruct (geto e name) as [o0|] eqn:E0; [|discriminate]. destruct (create_solution _ _ _ _ _) as [c|]; [|discriminate].
    intros H; inversion H; subst; clear H. apply frame_single. apply geto_some. exact E0.
  - destruct (Nat.eqb name solvent) eqn:En; [discriminate|]. apply Nat.eqb_neq in En.
    destruct (geto e name) as [o0|] eqn:E0; [|discriminate]. destruct (getc e solvent) as [kc|] eqn:E1; [|discriminate].
    destruct (create_solution_c _ _ _ _ _) as [[a b]|]; [|discriminate]. intros H; inversion H; subst; clear H. simpl.
    apply frame_pair; auto; [apply getc_some; exact E1 | apply geto_some; exact E0].
  - destruct (Nat.eqb src name) eqn:En; [discriminate|]. apply Nat.eqb_neq in En.
    destruct (geto e name) as [o0|] eqn:E0; [|discriminate]. destruct (getc e src) as [kc|] eqn:E1; [|discriminate].
    destruct (create_solution_from _ _ _ _ _ _ _) as [[a b]|]; [|discriminate]. intros H; inversion H; subst; clear H. simpl.
    apply frame_pair; auto; [apply getc_some; exact E1 | apply geto_some; exact E0].
  - destruct src as [a|a ra], dst as [b|b rb].
    + destruct (Nat.eqb a b) eqn:En; [discriminate|]. apply Nat.eqb_neq in En.
      destruct (getc e a) as [ca|] eqn:E1; [|discriminate]. destruct (getc e b) as [cb|] eqn:E2; [|discriminate].
      destruct (transfer cf ca cb q) as [[x y]|]; [|discriminate]. intros H; inversion H; subst; clear H. simpl.
      apply frame_pair; auto; apply getc_some; assumption.
    + destruct (getc e a) as [ca|] eqn:E1; [|discriminate]. destruct (getp e b) as [pb|] eqn:E2; [|discriminate].
      destruct (c_to_p cf ca pb rb q) as [[x y]|]; [|discriminate]. intros H; inversion H; subst; clear H. simpl.
      apply getc_some in E1. apply getp_some in E2.
      apply frame_pair; auto. intro; subst. rewrite E1 in E2. discriminate.
    + destruct (getp e a) as [pa|] eqn:E1; [|discriminate]. destruct (getc e b) as [cb|] eqn:E2; [|discriminate].
      destruct (p_to_c cf pa ra cb q) as [[x y]|]; [|discriminate]. intros H; inversion H; subst; clear H. simpl.
      apply getp_some in E1. apply getc_some in E2.
      apply frame_pair; auto. intro; subst. rewrite E1 in E2. discriminate.
    + destruct (Nat.eqb a b) eqn:En.
      * destruct (getp e a) as [pa|] eqn:E1; [|discriminate]. destruct (p_to_p_same cf pa ra rb q) as [p'|]; [|discriminate].
        intros H; inversion H; subst; clear H. apply frame_same. apply getp_some. exact E1.
      * apply Nat.eqb_neq in En.
        destruct (getp e a) as [pa|] eqn:E1; [|discriminate]. destruct (getp e b) as [pb|] eqn:E2; [|discriminate].
        destruct (p_to_p cf pa ra pb rb q) as [[x y]|]; [|discriminate]. intros H; inversion H; subst; clear H. simpl.
        apply frame_pair; auto; apply getp_some; assumption.
  - destruct t as [n|n r].
    + destruct (getc e n) as [c|] eqn:E1; [|discriminate]. intros H; inversion H; subst; clear H.
      apply frame_single. apply getc_some. exact E1.
    + destruct (getp e n) as [p|] eqn:E1; [|discriminate]. destruct (premove cf p r w) as [p'|]; [|discriminate].
      intros H; inversion H; subst; clear H. apply frame_single. apply getp_some. exact E1.
  - destruct (getc e name) as [c0|] eqn:E1; [|discriminate]. destruct (dilute _ _ _ _ _) as [c'|]; [|discriminate].
    intros H; inversion H; subst; clear H. apply frame_single. apply getc_some. exact E1.
  - destruct t as [n|n r].
    + destruct (getc e n) as [c|] eqn:E1; [|discriminate]. destruct (fill_to cf c solvent q) as [c'|]; [|discriminate].
      intros H; inversion H; subst; clear H. apply frame_single. apply getc_some. exact E1.
    + destruct (getp e n) as [p|] eqn:E1; [|discriminate].
      destruct (if d13 then _ else _) as [p'|]; [|discriminate].
      intros H; inversion H; subst; clear H. apply frame_single. apply getp_some. exact E1.
Qed.

(* ---------- bake over lists of steps ---------- *)
Lemma bake_steps_app cf d13 s1 : forall s2 e e' tr,
  bake_steps cf d13 e (s1 ++ s2) = Ok (e', tr) ->
  exists e1 tr1 tr2, bake_steps cf d13 e s1 = Ok (e1, tr1) /\ bake_steps cf d13 e1 s2 = Ok (e', tr2) /\ tr = tr1 ++ tr2 /\
                     length tr1 = length s1.
Proof.
  induction s1 as [|s t IH]; intros s2 e e' tr H; simpl in *.
  - exists e, [], tr. repeat split; auto.
  - unfold bind in *. destruct (bake_step cf d13 e s) as [[e0 k]|] eqn:E; [|discriminate]. simpl in H.
    destruct (bake_steps cf d13 e0 (t ++ s2)) as [[e2 tr2]|] eqn:E2; [|discriminate]. simpl in H. inversion H; subst; clear H.
    destruct (IH _ _ _ _ E2) as (e1 & tr1 & tr3 & H1 & H2 & H3 & H4). subst.
    exists e1, (k :: tr1), tr3. simpl. rewrite H1. simpl. repeat split; auto.
Qed.
Lemma bake_steps_length cf d13 steps : forall e e' tr, bake_steps cf d13 e steps = Ok (e', tr) -> length tr = length steps.
Proof.
  induction steps as [|s t IH]; intros e e' tr H; simpl in *; [inversion H; reflexivity|].
  unfold bind in H. destruct (bake_step cf d13 e s) as [[e0 k]|]; [|discriminate]. simpl in H.
  destruct (bake_steps cf d13 e0 t) as [[e2 tr2]|] eqn:E2; [|discriminate]. simpl in H. inversion H; subst. simpl. f_equal. eapply IH; eassumption.
Qed.

(* C08: the names of the result are exactly the declared and recipe-created names, in order *)
Theorem bake_steps_keys cf d13 steps : forall e e' tr, bake_steps cf d13 e steps = Ok (e', tr) -> map fst e' = map fst e.
Proof.
  induction steps as [|s t IH]; intros e e' tr H; simpl in *; [inversion H; reflexivity|].
  unfold bind in H. destruct (bake_step cf d13 e s) as [[e0 k]|] eqn:E; [|discriminate]. simpl in H.
  destruct (bake_steps cf d13 e0 t) as [[e2 tr2]|] eqn:E2; [|discriminate]. simpl in H. inversion H; subst.
  rewrite (IH _ _ _ E2). destruct (bake_step_frame _ _ _ _ _ _ E) as (_ & _ & _ & _ & Hk & _). exact Hk.
Qed.
Definition created_names (steps : list rstep) : list nat :=
  flat_map (fun s => match step_declares s with Some n => [n] | None => [] end) steps.
Lemma declare_steps_keys steps : forall e, map fst (declare_steps e steps) = map fst e ++ created_names steps.
Proof.
  unfold declare_steps. induction steps as [|s t IH]; intros e; simpl; [rewrite app_nil_r; reflexivity|].
  rewrite IH. destruct (step_declares s); simpl; [rewrite map_app, <- app_assoc; reflexivity | reflexivity].
Qed.
Theorem bake_keys cf objs steps e' tr : bake cf objs steps = Ok (e', tr) -> map fst e' = map fst objs ++ created_names steps.
Proof. unfold bake. intros H. rewrite (bake_steps_keys _ _ _ _ _ _ H). apply declare_steps_keys. Qed.

(* C08: steps have no effect before bake: declaring only appends empty placeholders; every declared object is found unchanged *)
Lemma rget_app_l n e1 e2 o : rget n e1 = Some o -> rget n (e1 ++ e2) = Some o.
Proof.
  induction e1 as [|[k x] t IH]; simpl; intros H; [discriminate|]. destruct (Nat.eqb k n); [exact H | apply IH; exact H].
Qed.
Theorem declare_no_effect steps : forall objs n o, rget n objs = Some o -> rget n (declare_steps objs steps) = Some o.
Proof.
  unfold declare_steps. induction steps as [|s t IH]; intros objs n o H; simpl; [exact H|].
  apply IH. destruct (step_declares s); [apply rget_app_l; exact H | exact H].
Qed.

(* C08: bake is the eager fold.  The only place where the implementation's bake departs from the eager meaning is fill_to on a
   plate region (known finding D13: the whole plate is filled first); without such steps the two are the same function *)
Definition no_plate_fill (s : rstep) : bool := match s with SFill (RP _ _) _ _ => false | _ => true end.
Lemma bake_step_eq_eager cf e s : no_plate_fill s = true -> bake_step cf true e s = bake_step cf false e s.
Proof. destruct s; simpl; try reflexivity. destruct t; [reflexivity | discriminate]. Qed.
Theorem bake_eq_eager cf objs steps : forallb no_plate_fill steps = true -> bake cf objs steps = eager cf objs steps.
Proof.
  unfold bake, eager. generalize (declare_steps objs steps). induction steps as [|s t IH]; intros e H; simpl; [reflexivity|].
  simpl in H. apply andb_true_iff in H. destruct H as [H1 H2]. rewrite (bake_step_eq_eager cf e s H1).
  unfold bind. destruct (bake_step cf false e s) as [[e0 k]|]; [|reflexivity]. simpl. rewrite (IH e0 H2). reflexivity.
Qed.
(* D13 as a theorem about the faithful model: a slice fill in bake changes wells outside the slice *)
Theorem bake_fill_slice_refuted :
  let w := {| sid := 1; knd := Liquid; mw := 18; dens := 1; act := 1 |} in
  let p := {| pname := 1; nrows := 1; ncols := 2; wells := [ {| cname := 0; cont := []; vol := 0; maxv := Some 100 |};
                                                           {| cname := 1; cont := []; vol := 0; maxv := Some 100 |} ] |} in
  let st := SFill (RP 1 (RRect [0%nat] [0%nat])) w {| qval := 20; qpfx := Pu; qbase := BL |} in
  exists eb ee tb te, bake default_cfg [(1%nat, OP p)] [st] = Ok (eb, tb) /\ eager default_cfg [(1%nat, OP p)] [st] = Ok (ee, te) /\ eb <> ee.
Proof.
  simpl. do 4 eexists. split; [vm_compute; reflexivity|]. split; [vm_compute; reflexivity|]. discriminate.
Qed.

(* each step sees the effects of all earlier steps: baking s1 ++ s2 is baking s2 in the table produced by s1 *)
Theorem bake_sequential cf d13 s1 s2 e e' tr :
  bake_steps cf d13 e (s1 ++ s2) = Ok (e', tr) ->
  exists e1 tr1 tr2, bake_steps cf d13 e s1 = Ok (e1, tr1) /\ bake_steps cf d13 e1 s2 = Ok (e', tr2) /\ tr = tr1 ++ tr2.
Proof. intros H. destruct (bake_steps_app _ _ _ _ _ _ _ H) as (e1 & tr1 & tr2 & A & B & C & _). eauto 6. Qed.

(* ---------- the tracking queries read the table's own states (C15) ---------- *)
Lemma bake_steps_untouched cf d13 steps : forall e e' tr n,
  bake_steps cf d13 e steps = Ok (e', tr) -> (forall k, In k tr -> ~ In n (s_objs k)) -> rget n e' = rget n e.
Proof.
  induction steps as [|s t IH]; intros e e' tr n H Hn; simpl in *; [inversion H; reflexivity|].
  unfold bind in H. destruct (bake_step cf d13 e s) as [[e0 k]|] eqn:E; [|discriminate]. simpl in H.
  destruct (bake_steps cf d13 e0 t) as [[e2 tr2]|] eqn:E2; [|discriminate]. simpl in H. inversion H; subst; clear H.
  rewrite (IH _ _ _ n E2) by (intros k' Hk'; apply Hn; right; exact Hk').
  destruct (bake_step_frame _ _ _ _ _ _ E) as (_ & _ & _ & Hf & _ & Hobjs).
  apply Hf; intro Hx; apply (Hn k (or_introl eq_refl)); apply Hobjs; [left; exact Hx | right; exact Hx].
Qed.

Lemma snap_state_before cf d13 e st e' k u n l :
  bake_step cf d13 e st = Ok (e', k) -> snap_state cf u n false k = Some l -> exists o, rget n e = Some o /\ l = totals cf u o.
Proof.
  intros E H. destruct (bake_step_frame _ _ _ _ _ _ E) as (H0 & _ & Hfrm & _ & _ & Hobjs).
  unfold snap_state in H. destruct (in_list n (s_objs k)) eqn:Ein; simpl in H; [|discriminate].
  destruct (Nat.eqb (s_to k) n) eqn:Et.
  - apply Nat.eqb_eq in Et. subst n. inversion H; subst. eauto.
  - apply Nat.eqb_neq in Et. unfold in_list in Ein. apply existsb_exists in Ein. destruct Ein as [m [Hm Em]]. apply Nat.eqb_eq in Em. subst m.
    apply Hobjs in Hm. destruct Hm as [Hm|Hm]; [congruence|]. unfold frm_name in Hm.
    destruct (s_frm k) as [[[m o0] o1]|] eqn:Ef; [|discriminate]. inversion Hm; subst m. inversion H; subst.
    destruct (Hfrm _ _ _ eq_refl) as [Ha _]. eauto.
Qed.
Lemma snap_state_after cf d13 e st e' k u n l :
  bake_step cf d13 e st = Ok (e', k) -> snap_state cf u n true k = Some l -> exists o, rget n e' = Some o /\ l = totals cf u o.
Proof.
  intros E H. destruct (bake_step_frame _ _ _ _ _ _ E) as (_ & H1 & Hfrm & _ & _ & Hobjs).
  unfold snap_state in H. destruct (in_list n (s_objs k)) eqn:Ein; simpl in H; [|discriminate].
  destruct (Nat.eqb (s_to k) n) eqn:Et.
  - apply Nat.eqb_eq in Et. subst n. inversion H; subst. eauto.
  - apply Nat.eqb_neq in Et. unfold in_list in Ein. apply existsb_exists in Ein. destruct Ein as [m [Hm Em]]. apply Nat.eqb_eq in Em. subst m.
    apply Hobjs in Hm. destruct Hm as [Hm|Hm]; [congruence|]. unfold frm_name in Hm.
    destruct (s_frm k) as [[[m o0] o1]|] eqn:Ef; [|discriminate]. inversion Hm; subst m. inversion H; subst.
    destruct (Hfrm _ _ _ eq_refl) as [_ Hb]. eauto.
Qed.
Lemma snap_state_none cf u n a k : snap_state cf u n a k = None -> ~ In n (s_objs k).
Proof.
  unfold snap_state. destruct (in_list n (s_objs k)) eqn:E; simpl.
  - destruct (Nat.eqb (s_to k) n); [discriminate|]. destruct (s_frm k) as [[[m o0] o1]|]; discriminate.
  - intros _ Hin. unfold in_list in E. assert (existsb (Nat.eqb n) (s_objs k) = true); [|congruence].
    apply existsb_exists. exists n. split; [exact Hin | apply Nat.eqb_refl].
Qed.

(* amount remaining, mode 'before' = the object's state in the table at the START of the timeframe *)
Theorem remaining_before_is_start_state cf d13 steps : forall e e' tr u n l,
  bake_steps cf d13 e steps = Ok (e', tr) -> remaining cf u n false tr = Some l ->
  exists o, rget n e = Some o /\ l = totals cf u o.
Proof.
  unfold remaining. induction steps as [|s t IH]; intros e e' tr u n l H Hr; simpl in *; [inversion H; subst; discriminate|].
  unfold bind in H. destruct (bake_step cf d13 e s) as [[e0 k]|] eqn:E; [|discriminate]. simpl in H.
  destruct (bake_steps cf d13 e0 t) as [[e2 tr2]|] eqn:E2; [|discriminate]. simpl in H. inversion H; subst; clear H.
  simpl in Hr. destruct (snap_state cf u n false k) as [l0|] eqn:Es.
  - inversion Hr; subst. eapply snap_state_before; eassumption.
  - destruct (IH _ _ _ _ _ _ E2 Hr) as (o & Ho & Hl). exists o. split; [|exact Hl].
    destruct (bake_step_frame _ _ _ _ _ _ E) as (_ & _ & _ & Hf & _ & Hobjs).
    pose proof (snap_state_none _ _ _ _ _ Es) as Hn. rewrite <- Ho. symmetry.
    apply Hf; intro Hx; apply Hn; apply Hobjs; [left; exact Hx | right; exact Hx].
Qed.

Lemma first_some_app {A B} (f : A -> option B) l1 l2 :
  first_some f (l1 ++ l2) = match first_some f l1 with Some y => Some y | None => first_some f l2 end.
Proof. induction l1 as [|x t IH]; simpl; [reflexivity|]. destruct (f x); [reflexivity | exact IH]. Qed.
Lemma first_some_none {A B} (f : A -> option B) l : first_some f l = None -> forall x, In x l -> f x = None.
Proof.
  induction l as [|y t IH]; simpl; intros H x Hx; [contradiction|]. destruct (f y) eqn:E; [discriminate|].
  destruct Hx as [<-|Hx]; [exact E | apply IH; assumption].
Qed.

(* amount remaining, mode 'after' = the object's state in the table at the END of the timeframe *)
Theorem remaining_after_is_end_state cf d13 steps : forall e e' tr u n l,
  bake_steps cf d13 e steps = Ok (e', tr) -> remaining cf u n true tr = Some l ->
  exists o, rget n e' = Some o /\ l = totals cf u o.
Proof.
  unfold remaining. induction steps as [|s t IH]; intros e e' tr u n l H Hr; simpl in *; [inversion H; subst; discriminate|].
  unfold bind in H. destruct (bake_step cf d13 e s) as [[e0 k]|] eqn:E; [|discriminate]. simpl in H.
  destruct (bake_steps cf d13 e0 t) as [[e2 tr2]|] eqn:E2; [|discriminate]. simpl in H. inversion H; subst; clear H.
  simpl in Hr. rewrite first_some_app in Hr.
  destruct (first_some (snap_state cf u n true) (rev tr2)) as [l0|] eqn:Er.
  - inversion Hr; subst. eapply IH; eassumption.
  - simpl in Hr. destruct (snap_state cf u n true k) as [l0|] eqn:Es; [|discriminate]. inversion Hr; subst.
    destruct (snap_state_after _ _ _ _ _ _ _ _ _ E Es) as (o & Ho & Hl). exists o. split; [|exact Hl].
    rewrite <- Ho. eapply bake_steps_untouched; [exact E2|].
    intros k' Hk'. apply (snap_state_none cf u n true). apply (first_some_none _ _ Er). apply in_rev in Hk'. exact Hk'.
Qed.
