(* HistoryThm.v -- the invariant (no negative amounts, volume bookkeeping, capacity) holds for every value produced
   by every history of public operations (C03, C10): induction over the operation list of Prog.v. *)
Require Import Base Units UnitsThm Contents Container ContainerThm ContainerThm2 Dilute Solve Plate PlateThm Prog.

Theorem dilute_inv cf c solute t solvent c' : Inv cf c -> wf_subst solvent -> dilute cf c solute t solvent = Ok c' -> Inv cf c'.
Proof.
  intros I Hs. unfold dilute. cbv zeta.
  repeat match goal with
  | |- context [if ?b then Err _ else _] => destruct b; [discriminate|]
  | |- context [if ?b then Ok c else _] => destruct b; [intros H; inversion H; subst; exact I|]
  | |- context [match ?x with Some _ => _ | None => Err _ end] => destruct x; [|discriminate]
  end.
  intros H. eapply self_add_inv; eassumption.
Qed.

Lemma map2_subst_wf (ss : list substance) (xs : vec) :
  Forall wf_subst ss -> Forall (fun p : substance * qty => wf_subst (fst p)) (map2 (fun s x => (s, amount_qty s x)) ss xs).
Proof.
  revert xs. induction ss as [|s t IH]; intros [|x xs] H; simpl; try constructor; inversion H; subst; auto.
Qed.

Theorem create_solution_inv cf name solutes solvent m c :
  Forall wf_subst solutes -> wf_subst solvent -> create_solution cf name solutes solvent m = Ok c -> Inv cf c.
Proof.
  intros Hs Hv. unfold create_solution, bind. destruct (solve_solution _ _ _) as [xs|]; [|discriminate].
  apply make_container_inv. apply map2_subst_wf. apply Forall_app. split; [exact Hs | constructor; [exact Hv | constructor]].
Qed.
Theorem create_solution_c_inv cf name solutes k m k' c :
  Forall wf_subst solutes -> Inv cf k -> create_solution_c cf name solutes k m = Ok (k', c) -> Inv cf k' /\ Inv cf c.
Proof.
  intros Hs Ik. unfold create_solution_c, bind. destruct (fake_solvent cf k) as [fs|]; [|discriminate].
  destruct (solve_solution _ _ _) as [xs|]; [|discriminate].
  destruct (make_container _ _ _ _) as [res|] eqn:E; [|discriminate].
  intros H. eapply transfer_inv; [exact Ik | | exact H].
  eapply make_container_inv; [|exact E]. apply map2_subst_wf. exact Hs.
Qed.
Theorem create_solution_from_inv cf src solute t solvent q name s' c :
  Inv cf src -> wf_subst solvent -> create_solution_from cf src solute t solvent q name = Ok (s', c) -> Inv cf s' /\ Inv cf c.
Proof.
  intros I Hv. unfold create_solution_from.
  repeat (match goal with |- context [if ?b then _ else _] => destruct b; [discriminate|] end).
  unfold bind. destruct (mix_of cf src solute); [|discriminate]. destruct (csf_solve _ _ _ _ _) as [[x y]|]; [|discriminate]. simpl.
  assert (Hnew : forall new, (if Qeqb y 0 then make_container cf name None [] else make_container cf name None [(solvent, mL y)]) = Ok new -> Inv cf new).
  { intros new. destruct (Qeqb y 0); intros E; (eapply make_container_inv; [|exact E]); [constructor | constructor; [exact Hv | constructor]]. }
  destruct (if Qeqb y 0 then _ else _) as [new|]; [|discriminate]. specialize (Hnew new eq_refl).
  destruct (Qeqb x 0); [intros H; inversion H; subst; auto|].
  intros H. exact (transfer_inv _ _ _ _ _ _ I Hnew H).
Qed.
Theorem create_solution_from_c_inv cf src solute t k q name s' k' c :
  Inv cf src -> Inv cf k -> create_solution_from_c cf src solute t k q name = Ok ((s', k'), c) -> Inv cf s' /\ Inv cf k' /\ Inv cf c.
Proof.
  intros I Ik. unfold create_solution_from_c.
  repeat (match goal with |- context [if ?b then _ else _] => destruct b; [discriminate|] end).
  unfold bind. destruct (mix_of cf src solute); [|discriminate]. destruct (mix_of cf k solute); [|discriminate].
  destruct (csf_solve _ _ _ _ _) as [[x y]|]; [|discriminate]. simpl.
  set (new := {| cname := name; cont := []; vol := 0; maxv := None |}).
  assert (Inew : Inv cf new) by (apply (make_container_inv cf name None [] new); [constructor | reflexivity]).
  assert (H1 : forall sn, (if Qeqb x 0 then Ok (src, new) else transfer cf src new (mL x)) = Ok sn -> Inv cf (fst sn) /\ Inv cf (snd sn)).
  { intros [sa sb]. destruct (Qeqb x 0); intros E; [inversion E; subst; auto | simpl; exact (transfer_inv _ _ _ _ _ _ I Inew E)]. }
  destruct (if Qeqb x 0 then _ else _) as [[s1 n1]|]; [|intros H; discriminate H]. destruct (H1 _ eq_refl) as [Is1 In1]. simpl in *.
  destruct (Qeqb y 0).
  - intros H; inversion H; subst. auto.
  - destruct (transfer cf k n1 (mL y)) as [[k1 n2]|] eqn:E2; [|discriminate]. simpl. intros H; inversion H; subst.
    destruct (transfer_inv _ _ _ _ _ _ Ik In1 E2). auto.
Qed.

Lemma new_plate_inv cf name rows cols mx p : new_plate cf name rows cols mx = Ok p -> PInv cf p.
Proof.
  unfold new_plate. destruct (Qle_bool (qv mx) 0) eqn:E; [discriminate|]. destruct (_ || _); [discriminate|].
  intros H; inversion H; subst. unfold PInv; simpl. apply Forall_forall. intros c Hc. apply in_map_iff in Hc.
  destruct Hc as [i [<- _]]. constructor; simpl.
  - constructor.
  - constructor.
  - constructor.
  - unfold volume_of, total_in, sum_by. simpl. reflexivity.
  - unfold to_storage_vol. rewrite rnd_eq. change (pmult P0) with 1.
    assert (0 < qv mx). { apply Qnot_le_lt. intro Hle. apply Qle_bool_iff in Hle. congruence. }
    pose proof (pmult_pos (vol_pfx cf)) as Hp. pose proof (Qinv_pos _ Hp). unfold Qdiv. nra.
Qed.

Definition obj_inv (cf : cfg) (o : obj) : Prop := match o with OC c => Inv cf c | OP p => PInv cf p end.
Definition env_inv (cf : cfg) (e : env) : Prop := forall v o, lookup v e = Some o -> obj_inv cf o.

(* the substances an operation introduces are well formed (positive molar mass, density, specific activity) *)
Definition wf_op (o : op) : Prop :=
  match o with
  | ONewC _ _ _ init => Forall (fun p => wf_subst (fst p)) init
  | OFill _ s _ _ => wf_subst s
  | ODilute _ _ _ s _ => wf_subst s
  | OSolution _ _ ss s _ => Forall wf_subst ss /\ wf_subst s
  | OSolutionC _ _ ss _ _ _ => Forall wf_subst ss
  | OSolutionFrom _ _ _ s _ _ _ _ => wf_subst s
  | _ => True
  end.

Lemma getC_inv cf e v c : env_inv cf e -> getC e v = Ok c -> Inv cf c.
Proof. unfold getC. intros He. destruct (lookup v e) as [[c0|p0]|] eqn:E; intros H; inversion H; subst. apply (He v _ E). Qed.
Lemma getP_inv cf e v p : env_inv cf e -> getP e v = Ok p -> PInv cf p.
Proof. unfold getP. intros He. destruct (lookup v e) as [[c0|p0]|] eqn:E; intros H; inversion H; subst. apply (He v _ E). Qed.

Ltac fl := repeat (apply Forall_cons || apply Forall_nil).
Theorem step_inv cf e o l : env_inv cf e -> wf_op o -> step cf e o = Ok l -> Forall (fun p => obj_inv cf (snd p)) l.
Proof.
  intros He Hw. destruct o; simpl in *.
  - unfold bind. destruct (make_container _ _ _ _) eqn:E; [|discriminate]. intros H; inversion H; subst.
    fl. simpl. eapply make_container_inv; eassumption.
  - unfold bind. destruct (new_plate _ _ _ _ _) eqn:E; [|discriminate]. intros H; inversion H; subst.
    fl. simpl. eapply new_plate_inv; eassumption.
  - destruct src as [s|s rs], dst as [d|d rd].
    + destruct (Nat.eqb s d); [discriminate|]. unfold bind.
      destruct (getC e s) as [cs|] eqn:E1; [|discriminate]. destruct (getC e d) as [cd|] eqn:E2; [|discriminate].
      destruct (transfer cf cs cd q) as [[a b]|] eqn:E3; [|discriminate]. intros H; inversion H; subst.
      destruct (transfer_inv _ _ _ _ _ _ (getC_inv _ _ _ _ He E1) (getC_inv _ _ _ _ He E2) E3). fl; simpl; assumption.
    + unfold bind. destruct (getC e s) as [cs|] eqn:E1; [|discriminate]. destruct (getP e d) as [pd|] eqn:E2; [|discriminate].
      destruct (c_to_p cf cs pd rd q) as [[a b]|] eqn:E3; [|discriminate]. intros H; inversion H; subst.
      destruct (c_to_p_spec _ _ _ _ _ _ _ (getC_inv _ _ _ _ He E1) (getP_inv _ _ _ _ He E2) E3) as (_ & _ & _ & _ & _ & Ia & Ib & _).
      fl; simpl; assumption.
    + unfold bind. destruct (getP e s) as [ps|] eqn:E1; [|discriminate]. destruct (getC e d) as [cd|] eqn:E2; [|discriminate].
      destruct (p_to_c cf ps rs cd q) as [[a b]|] eqn:E3; [|discriminate]. intros H; inversion H; subst.
      destruct (p_to_c_spec _ _ _ _ _ _ _ (getC_inv _ _ _ _ He E2) (getP_inv _ _ _ _ He E1) E3) as (_ & _ & _ & _ & _ & Ia & Ib & _).
      fl; simpl; assumption.
    + destruct (Nat.eqb s d).
      * unfold bind. destruct (getP e s) as [ps|] eqn:E1; [|discriminate].
        destruct (p_to_p_same cf ps rs rd q) as [p'|] eqn:E3; [|discriminate]. intros H; inversion H; subst.
        destruct (p_to_p_same_spec _ _ _ _ _ _ (getP_inv _ _ _ _ He E1) E3) as (_ & _ & Ip). fl; simpl; assumption.
      * unfold bind. destruct (getP e s) as [ps|] eqn:E1; [|discriminate]. destruct (getP e d) as [pd|] eqn:E2; [|discriminate].
        destruct (p_to_p cf ps rs pd rd q) as [[a b]|] eqn:E3; [|discriminate]. intros H; inversion H; subst.
        destruct (p_to_p_spec _ _ _ _ _ _ _ _ (getP_inv _ _ _ _ He E1) (getP_inv _ _ _ _ He E2) E3) as (_ & _ & _ & Ia & Ib).
        fl; simpl; assumption.
  - destruct t as [v|v r]; unfold bind.
    + destruct (getC e v) as [c|] eqn:E1; [|discriminate]. intros H; inversion H; subst. fl. simpl.
      apply remove_inv. eapply getC_inv; eassumption.
    + destruct (getP e v) as [p|] eqn:E1; [|discriminate]. destruct (premove cf p r w) as [p'|] eqn:E2; [|discriminate].
      intros H; inversion H; subst. fl. simpl. eapply premove_inv; [eapply getP_inv; eassumption | exact E2].
  - destruct t as [v|v r]; unfold bind.
    + destruct (getC e v) as [c|] eqn:E1; [|discriminate]. destruct (fill_to cf c solvent q) as [c'|] eqn:E2; [|discriminate].
      intros H; inversion H; subst. fl. simpl.
      apply fill_to_ok in E2. destruct E2 as (_ & _ & _ & Hadd). eapply self_add_inv; [eapply getC_inv; eassumption | exact Hw | exact Hadd].
    + destruct (getP e v) as [p|] eqn:E1; [|discriminate]. destruct (pfill_to cf p r solvent q) as [p'|] eqn:E2; [|discriminate].
      intros H; inversion H; subst. fl. simpl. eapply pfill_inv; [exact Hw | eapply getP_inv; eassumption | exact E2].
  - unfold bind. destruct (getC e v) as [k|] eqn:E1; [|discriminate]. destruct (dilute cf k solute c solvent) as [k'|] eqn:E2; [|discriminate].
    intros H; inversion H; subst. fl. simpl. eapply dilute_inv; [eapply getC_inv; eassumption | exact Hw | exact E2].
  - unfold bind. destruct (create_solution _ _ _ _ _) as [c|] eqn:E; [|discriminate]. intros H; inversion H; subst.
    fl. simpl. destruct Hw. eapply create_solution_inv; eassumption.
  - unfold bind. destruct (getC e solventv) as [k|] eqn:E1; [|discriminate].
    destruct (create_solution_c _ _ _ _ _) as [[a b]|] eqn:E; [|discriminate]. intros H; inversion H; subst.
    destruct (create_solution_c_inv _ _ _ _ _ _ _ Hw (getC_inv _ _ _ _ He E1) E). fl; simpl; assumption.
  - unfold bind. destruct (getC e src) as [k|] eqn:E1; [|discriminate].
    destruct (create_solution_from _ _ _ _ _ _ _) as [[a b]|] eqn:E; [|discriminate]. intros H; inversion H; subst.
    destruct (create_solution_from_inv _ _ _ _ _ _ _ _ _ (getC_inv _ _ _ _ He E1) Hw E). fl; simpl; assumption.
  - destruct (Nat.eqb src solventv); [discriminate|]. unfold bind.
    destruct (getC e src) as [k|] eqn:E1; [|discriminate]. destruct (getC e solventv) as [ks|] eqn:E2; [|discriminate].
    destruct (create_solution_from_c _ _ _ _ _ _ _) as [[[a b] d]|] eqn:E; [|discriminate]. intros H; inversion H; subst.
    destruct (create_solution_from_c_inv _ _ _ _ _ _ _ _ _ _ (getC_inv _ _ _ _ He E1) (getC_inv _ _ _ _ He E2) E) as (Ia & Ib & Id).
    fl; simpl; assumption.
Qed.

Lemma assign_inv cf l : forall e, env_inv cf e -> Forall (fun p => obj_inv cf (snd p)) l -> env_inv cf (assign e l).
Proof.
  unfold assign. induction l as [|[v o] t IH]; intros e He Hl; simpl; [exact He|].
  inversion Hl; subst. apply IH; [|assumption].
  intros v' o' H. unfold bindv in H. simpl in H. destruct (Nat.eqb v v'); [inversion H; subst; assumption | apply (He v' o' H)].
Qed.

(* every value produced by every history satisfies the invariant *)
Theorem reachable_inv cf ops : forall e, env_inv cf e -> Forall wf_op ops ->
  Forall (fun r => match r with Ok l => Forall (fun p => obj_inv cf (snd p)) l | Err _ => True end) (run cf e ops).
Proof.
  induction ops as [|o t IH]; intros e He Hw; simpl; [constructor|].
  inversion Hw; subst. constructor.
  - destruct (step cf e o) eqn:E; [eapply step_inv; eassumption | exact I].
  - destruct (step cf e o) eqn:E; apply IH; auto. apply assign_inv; [exact He | eapply step_inv; eassumption].
Qed.
Lemma empty_env_inv cf : env_inv cf [].
Proof. intros v o H. discriminate. Qed.

(* what the invariant says about a value: nothing negative, volume within capacity (C03) *)
Theorem inv_meaning cf c : Inv cf c ->
  (forall k, 0 <= get k (cont c)) /\ 0 <= vol c /\ (forall m, maxv c = Some m -> vol c <= m) /\ vol c == volume_of cf (cont c).
Proof.
  intros I. repeat split.
  - intros k. apply nonneg_get. apply (inv_nonneg _ _ I).
  - eapply Inv_vol_nonneg; eassumption.
  - intros m Hm. pose proof (inv_cap _ _ I) as H. rewrite Hm in H. exact H.
  - apply (inv_vol _ _ I).
Qed.
