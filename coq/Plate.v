(* Plate.v -- executable model of pyplate.Plate / PlateSlicer operations (definitions only).
   A plate is a row-major list of wells; a region is what a selector resolves to (Slicer.v):
   either a rectangle (numpy basic slices: a list of rows x a list of columns, row-major) or a
   list of single wells.  Mirrors PlateSlicer._transfer, Container._transfer_slice,
   PlateSlicer.remove / fill_to and Slicer.apply / get / set. *)
Require Import Base Units Contents Container.

Record plate := { pname : nat; nrows : nat; ncols : nat; wells : list container }.

Inductive region := RRect (rs cs : list nat) | RList (l : list (nat * nat)).

Definition region_idx (nc : nat) (r : region) : list nat :=
  match r with
  | RRect rs cs => flat_map (fun i => map (fun j => i * nc + j)%nat cs) rs
  | RList l => map (fun p => (fst p * nc + snd p)%nat) l
  end.
(* numpy shape of Slicer.get(): 2-D for basic slices, 1-D for a list of wells *)
Inductive shape := Sh2 (a b : nat) | Sh1 (k : nat).
Definition region_shape (r : region) : shape :=
  match r with RRect rs cs => Sh2 (length rs) (length cs) | RList l => Sh1 (length l) end.
Definition shape_eqb (a b : shape) : bool :=
  match a, b with
  | Sh2 x y, Sh2 x' y' => Nat.eqb x x' && Nat.eqb y y'
  | Sh1 k, Sh1 k' => Nat.eqb k k'
  | _, _ => false
  end.
Definition is_list_region (r : region) : bool := match r with RList _ => true | _ => false end.

Fixpoint set_nth {A} (n : nat) (x : A) (l : list A) : list A :=
  match l, n with
  | [], _ => []
  | _ :: t, O => x :: t
  | h :: t, S n' => h :: set_nth n' x t
  end.

(* Plate(name, max_volume_per_well, rows, columns): empty wells of equal capacity *)
Definition new_plate (cf : cfg) (name rows cols : nat) (mx : qty) : result plate :=
  if Qle_bool (qv mx) 0 then Err EValue
  else if (Nat.eqb rows 0 || Nat.eqb cols 0)%bool then Err EValue
  else Ok {| pname := name; nrows := rows; ncols := cols;
             wells := map (fun i => {| cname := i; cont := []; vol := 0; maxv := Some (to_storage_vol cf (qv mx) P0) |})
                          (seq 0 (rows * cols)) |}.

(* Slicer.apply with a function that threads an accumulator (the container on the other side of a
   transfer); wells are visited in the order of the region; an exception aborts the whole call *)
Fixpoint fold_wells {A} (f : A -> container -> result (A * container)) (idxs : list nat) (a : A)
         (ws : list container) : result (A * list container) :=
  match idxs with
  | [] => Ok (a, ws)
  | i :: t => match nth_error ws i with
              | None => Err EOther
              | Some w => do aw <- f a w; fold_wells f t (fst aw) (set_nth i (snd aw) ws)
              end
  end.

Definition apply_wells (f : container -> result container) (idxs : list nat) (ws : list container)
  : result (list container) :=
  do r <- fold_wells (fun (_ : unit) w => do w' <- f w; Ok (tt, w')) idxs tt ws; Ok (snd r).

Definition with_wells (p : plate) (ws : list container) : plate :=
  {| pname := pname p; nrows := nrows p; ncols := ncols p; wells := ws |}.

(* numpy.vectorize refuses size-0 input: ValueError *)
Definition nonempty_or_err {A} (idxs : list nat) (k : result A) : result A :=
  match idxs with [] => Err EValue | _ => k end.

(* PlateSlicer.remove / fill_to *)
Definition premove (cf : cfg) (p : plate) (r : region) (w : what) : result plate :=
  let idxs := region_idx (ncols p) r in
  nonempty_or_err idxs (do ws <- apply_wells (fun c => Ok (remove cf c w)) idxs (wells p); Ok (with_wells p ws)).
Definition pfill_to (cf : cfg) (p : plate) (r : region) (solvent : substance) (q : qty) : result plate :=
  let idxs := region_idx (ncols p) r in
  nonempty_or_err idxs (do ws <- apply_wells (fun c => fill_to cf c solvent q) idxs (wells p); Ok (with_wells p ws)).

(* Container -> slice: the container dispenses into each addressed well in turn *)
Definition c_to_p (cf : cfg) (c : container) (p : plate) (r : region) (q : qty) : result (container * plate) :=
  let idxs := region_idx (ncols p) r in
  nonempty_or_err idxs
   (do res <- fold_wells (fun src w => transfer cf src w q) idxs c (wells p);
    Ok (fst res, with_wells p (snd res))).

(* slice -> Container (Container._transfer_slice): the container collects from each addressed well in turn *)
Definition p_to_c (cf : cfg) (p : plate) (r : region) (c : container) (q : qty) : result (plate * container) :=
  let idxs := region_idx (ncols p) r in
  nonempty_or_err idxs
   (do res <- fold_wells (fun dst w => do sd <- transfer cf w dst q; Ok (snd sd, fst sd)) idxs c (wells p);
    Ok (with_wells p (snd res), fst res)).

(* element-wise pairing on two well lists *)
Fixpoint pair_wells (cf : cfg) (q : qty) (pairs : list (nat * nat)) (ss ds : list container)
  : result (list container * list container) :=
  match pairs with
  | [] => Ok (ss, ds)
  | (i, j) :: t =>
      match nth_error ss i, nth_error ds j with
      | Some s, Some d => do sd <- transfer cf s d q; pair_wells cf q t (set_nth i (fst sd) ss) (set_nth j (snd sd) ds)
      | _, _ => Err EOther
      end
  end.
(* the same on one well list (source and destination regions of one plate, disjoint) *)
Fixpoint pair_wells_same (cf : cfg) (q : qty) (pairs : list (nat * nat)) (ws : list container) : result (list container) :=
  match pairs with
  | [] => Ok ws
  | (i, j) :: t =>
      match nth_error ws i, nth_error ws j with
      | Some s, Some d => do sd <- transfer cf s d q; pair_wells_same cf q t (set_nth j (snd sd) (set_nth i (fst sd) ws))
      | _, _ => Err EOther
      end
  end.

Definition overlaps (a b : list nat) : bool := existsb (fun i => existsb (Nat.eqb i) b) a.

Inductive pairing := POneToMany | PManyToOne | PElementwise.
(* shape dispatch of PlateSlicer._transfer for plate -> plate *)
Definition dispatch (rs rd : region) (ns nd : nat) : result pairing :=
  if Nat.eqb ns 1 then (if shape_eqb (region_shape rs) (Sh2 1 1) then Ok POneToMany else Err ERuntime)
  else if Nat.eqb nd 1 then (if shape_eqb (region_shape rd) (Sh2 1 1) then Ok PManyToOne else Err ERuntime)
  else if Nat.eqb ns nd && shape_eqb (region_shape rs) (region_shape rd) then Ok PElementwise
  else Err EValue.

(* plate -> plate, two different plates *)
Definition p_to_p (cf : cfg) (ps : plate) (rs : region) (pd : plate) (rd : region) (q : qty) : result (plate * plate) :=
  let si := region_idx (ncols ps) rs in
  let di := region_idx (ncols pd) rd in
  match si, di with
  | [], _ | _, [] => Err EValue
  | s0 :: _, d0 :: _ =>
    do pg <- dispatch rs rd (length si) (length di);
    match pg with
    | POneToMany =>
        match nth_error (wells ps) s0 with
        | None => Err EOther
        | Some src =>
            do res <- fold_wells (fun s w => transfer cf s w q) di src (wells pd);
            Ok (with_wells ps (set_nth s0 (fst res) (wells ps)), with_wells pd (snd res))
        end
    | PManyToOne =>
        match nth_error (wells pd) d0 with
        | None => Err EOther
        | Some dst =>
            do res <- fold_wells (fun d w => do sd <- transfer cf w d q; Ok (snd sd, fst sd)) si dst (wells ps);
            Ok (with_wells ps (snd res), with_wells pd (set_nth d0 (fst res) (wells pd)))
        end
    | PElementwise =>
        do res <- pair_wells cf q (combine si di) (wells ps) (wells pd);
        Ok (with_wells ps (fst res), with_wells pd (snd res))
    end
  end.

(* plate -> plate, source and destination regions on the same plate *)
Definition p_to_p_same (cf : cfg) (p : plate) (rs rd : region) (q : qty) : result plate :=
  let si := region_idx (ncols p) rs in
  let di := region_idx (ncols p) rd in
  if overlaps si di then Err EValue else
  match si, di with
  | [], _ | _, [] => Err EValue
  | s0 :: _, d0 :: _ =>
    do pg <- dispatch rs rd (length si) (length di);
    match pg with
    | POneToMany =>
        match nth_error (wells p) s0 with
        | None => Err EOther
        | Some src =>
            do res <- fold_wells (fun s w => transfer cf s w q) di src (wells p);
            Ok (with_wells p (set_nth s0 (fst res) (snd res)))
        end
    | PManyToOne =>
        match nth_error (wells p) d0 with
        | None => Err EOther
        | Some dst =>
            do res <- fold_wells (fun d w => do sd <- transfer cf w d q; Ok (snd sd, fst sd)) si dst (wells p);
            Ok (with_wells p (set_nth d0 (fst res) (snd res)))
        end
    | PElementwise =>
        do ws <- pair_wells_same cf q (combine si di) (wells p); Ok (with_wells p ws)
    end
  end.

(* observers *)
Definition plate_total (f : container -> Q) (p : plate) : Q := Qsum (map f (wells p)).
Definition showPlate (p : plate) : list Z :=
  Z.of_nat (pname p) :: Z.of_nat (nrows p) :: Z.of_nat (ncols p) :: flat_map showContainer (wells p).
