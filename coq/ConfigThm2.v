(* ConfigThm2.v -- the simulation between storage configurations (ConfigThm.v) extended from container scripts to the program
   language of Prog.v: plates (every transfer form, remove, fill_to on regions), dilute and create_solution with a pure solvent.
   Solutions built from a container (the solver works on the container's effective molar mass and density, which are related
   by == only) stay with the multi-process correspondence. *)
Require Import Base Units UnitsThm Contents Container ContainerThm ContainerThm2 Plate PlateThm Dilute Solve Prog ConfigThm.
Require Import Lia.

Section TwoConfigs.
Variables cf cf' : cfg.
Notation Rk := (R cf cf').

Record RPl (p p' : plate) : Prop := {
  RP_name : pname p = pname p';
  RP_rows : nrows p = nrows p';
  RP_cols : ncols p = ncols p';
  RP_wells : Forall2 Rk (wells p) (wells p')
}.
Definition Robj (o o' : obj) : Prop :=
  match o, o' with OC c, OC c' => Rk c c' | OP p, OP p' => RPl p p' | _, _ => False end.

(* loops over wells: related step functions give related results *)
Lemma fold_wells_R {A} (RA : A -> A -> Prop) (f f' : A -> container -> result (A * container)) :
  (forall a a' w w', RA a a' -> Rk w w' ->
     Rres (fun x y => RA (fst x) (fst y) /\ Rk (snd x) (snd y)) (f a w) (f' a' w')) ->
  forall idxs a a' ws ws', RA a a' -> Forall2 Rk ws ws' ->
    Rres (fun x y => RA (fst x) (fst y) /\ Forall2 Rk (snd x) (snd y)) (fold_wells f idxs a ws) (fold_wells f' idxs a' ws').
Proof.
  intros Hf. induction idxs as [|i t IH]; intros a a' ws ws' Ha Hw; simpl; [split; assumption|].
  pose proof (Forall2_nth_error _ _ _ i Hw) as Hi.
  destruct (nth_error ws i) as [w|]; destruct (nth_error ws' i) as [w'|]; try contradiction; [|reflexivity].
  unfold bind. pose proof (Hf a a' w w' Ha Hi) as Hs.
  destruct (f a w) as [[a1 w1]|]; destruct (f' a' w') as [[a1' w1']|]; simpl in Hs; try contradiction; [|exact Hs].
  destruct Hs as [H1 H2]. simpl. apply IH; [exact H1 | apply Forall2_set_nth; assumption].
Qed.
Lemma apply_wells_R (f f' : container -> result container) :
  (forall w w', Rk w w' -> Rres Rk (f w) (f' w')) ->
  forall idxs ws ws', Forall2 Rk ws ws' -> Rres (Forall2 Rk) (apply_wells f idxs ws) (apply_wells f' idxs ws').
Proof.
  intros Hf idxs ws ws' Hw. unfold apply_wells, bind.
  pose proof (fold_wells_R (fun _ _ : unit => True) (fun _ w => do w' <- f w; Ok (tt, w')) (fun _ w => do w' <- f' w; Ok (tt, w'))) as F.
  assert (Hstep : forall (a a' : unit) w w', True -> Rk w w' ->
     Rres (fun x y : unit * container => True /\ Rk (snd x) (snd y)) (do w1 <- f w; Ok (tt, w1)) (do w1 <- f' w'; Ok (tt, w1))).
  { intros a a' w w' _ Hww. unfold bind. pose proof (Hf w w' Hww) as H.
    destruct (f w); destruct (f' w'); simpl in *; try contradiction; auto. }
  specialize (F Hstep idxs tt tt ws ws' I Hw).
  destruct (fold_wells _ idxs tt ws) as [[u r]|]; destruct (fold_wells _ idxs tt ws') as [[u' r']|]; simpl in *; try contradiction; [apply F | exact F].
Qed.

Lemma with_wells_R p p' ws ws' : RPl p p' -> Forall2 Rk ws ws' -> RPl (with_wells p ws) (with_wells p' ws').
Proof. intros [A B C D] H. constructor; simpl; auto. Qed.
Lemma nonempty_R {A} (rel : A -> A -> Prop) idxs (k k' : result A) : Rres rel k k' -> Rres rel (nonempty_or_err idxs k) (nonempty_or_err idxs k').
Proof. destruct idxs; simpl; auto. Qed.

Theorem premove_R p p' r w : RPl p p' -> Rres RPl (premove cf p r w) (premove cf' p' r w).
Proof.
  intros HP. unfold premove. rewrite <- (RP_cols _ _ HP). apply nonempty_R. unfold bind.
  pose proof (apply_wells_R (fun c => Ok (remove cf c w)) (fun c => Ok (remove cf' c w))
               (fun a b H => remove_R cf cf' a b w H) (region_idx (ncols p) r) _ _ (RP_wells _ _ HP)) as H.
  destruct (apply_wells _ _ (wells p)); destruct (apply_wells _ _ (wells p')); simpl in *; try contradiction; [|exact H].
  apply with_wells_R; assumption.
Qed.
Theorem pfill_R p p' r s q : RPl p p' -> Rres RPl (pfill_to cf p r s q) (pfill_to cf' p' r s q).
Proof.
  intros HP. unfold pfill_to. rewrite <- (RP_cols _ _ HP). apply nonempty_R. unfold bind.
  pose proof (apply_wells_R (fun c => fill_to cf c s q) (fun c => fill_to cf' c s q)
               (fun a b H => fill_to_R cf cf' a b s q H) (region_idx (ncols p) r) _ _ (RP_wells _ _ HP)) as H.
  destruct (apply_wells _ _ (wells p)); destruct (apply_wells _ _ (wells p')); simpl in *; try contradiction; [|exact H].
  apply with_wells_R; assumption.
Qed.

(* the two accumulator-threading step functions *)
Lemma step_src_R q a a' w w' : Rk a a' -> Rk w w' ->
  Rres (fun x y => Rk (fst x) (fst y) /\ Rk (snd x) (snd y)) (transfer cf a w q) (transfer cf' a' w' q).
Proof. intros Ha Hw. exact (transfer_R cf cf' a a' w w' q Ha Hw). Qed.
Lemma step_dst_R q d d' w w' : Rk d d' -> Rk w w' ->
  Rres (fun x y => Rk (fst x) (fst y) /\ Rk (snd x) (snd y))
       (do sd <- transfer cf w d q; Ok (snd sd, fst sd)) (do sd <- transfer cf' w' d' q; Ok (snd sd, fst sd)).
Proof.
  intros Hd Hw. unfold bind. pose proof (transfer_R cf cf' w w' d d' q Hw Hd) as H.
  destruct (transfer cf w d q) as [[x y]|]; destruct (transfer cf' w' d' q) as [[x' y']|]; simpl in *; try contradiction; [|exact H].
  destruct H; split; assumption.
Qed.

Definition Rcp (x y : container * plate) : Prop := Rk (fst x) (fst y) /\ RPl (snd x) (snd y).
Definition Rpc (x y : plate * container) : Prop := RPl (fst x) (fst y) /\ Rk (snd x) (snd y).
Definition Rpp (x y : plate * plate) : Prop := RPl (fst x) (fst y) /\ RPl (snd x) (snd y).

Theorem c_to_p_R c c' p p' r q : Rk c c' -> RPl p p' -> Rres Rcp (c_to_p cf c p r q) (c_to_p cf' c' p' r q).
Proof.
  intros HC HP. unfold c_to_p. rewrite <- (RP_cols _ _ HP). apply nonempty_R. unfold bind.
  pose proof (fold_wells_R Rk _ _ (step_src_R q) (region_idx (ncols p) r) c c' _ _ HC (RP_wells _ _ HP)) as H.
  destruct (fold_wells _ _ c (wells p)) as [[a ws]|]; destruct (fold_wells _ _ c' (wells p')) as [[a' ws']|]; simpl in *; try contradiction; [|exact H].
  destruct H. split; simpl; [assumption | apply with_wells_R; assumption].
Qed.
Theorem p_to_c_R p p' r c c' q : RPl p p' -> Rk c c' -> Rres Rpc (p_to_c cf p r c q) (p_to_c cf' p' r c' q).
Proof.
  intros HP HC. unfold p_to_c. rewrite <- (RP_cols _ _ HP). apply nonempty_R. unfold bind.
  pose proof (fold_wells_R Rk _ _ (step_dst_R q) (region_idx (ncols p) r) c c' _ _ HC (RP_wells _ _ HP)) as H.
  destruct (fold_wells _ _ c (wells p)) as [[a ws]|]; destruct (fold_wells _ _ c' (wells p')) as [[a' ws']|]; simpl in *; try contradiction; [|exact H].
  destruct H. split; simpl; [apply with_wells_R; assumption | assumption].
Qed.

Lemma pair_wells_R q : forall pairs ss ss' ds ds', Forall2 Rk ss ss' -> Forall2 Rk ds ds' ->
  Rres (fun x y => Forall2 Rk (fst x) (fst y) /\ Forall2 Rk (snd x) (snd y)) (pair_wells cf q pairs ss ds) (pair_wells cf' q pairs ss' ds').
Proof.
  induction pairs as [|[i j] t IH]; intros ss ss' ds ds' Hs Hd; simpl; [split; assumption|].
  pose proof (Forall2_nth_error _ _ _ i Hs) as Hi. pose proof (Forall2_nth_error _ _ _ j Hd) as Hj.
  destruct (nth_error ss i) as [a|]; destruct (nth_error ss' i) as [a'|]; try contradiction;
  destruct (nth_error ds j) as [b|]; destruct (nth_error ds' j) as [b'|]; try contradiction; try reflexivity.
  unfold bind. pose proof (transfer_R cf cf' a a' b b' q Hi Hj) as H.
  destruct (transfer cf a b q) as [[x y]|]; destruct (transfer cf' a' b' q) as [[x' y']|]; simpl in *; try contradiction; [|exact H].
  destruct H. apply IH; apply Forall2_set_nth; assumption.
Qed.
Lemma pair_wells_same_R q : forall pairs ws ws', Forall2 Rk ws ws' ->
  Rres (Forall2 Rk) (pair_wells_same cf q pairs ws) (pair_wells_same cf' q pairs ws').
Proof.
  induction pairs as [|[i j] t IH]; intros ws ws' Hw; simpl; [assumption|].
  pose proof (Forall2_nth_error _ _ _ i Hw) as Hi. pose proof (Forall2_nth_error _ _ _ j Hw) as Hj.
  destruct (nth_error ws i) as [a|]; destruct (nth_error ws' i) as [a'|]; try contradiction;
  destruct (nth_error ws j) as [b|]; destruct (nth_error ws' j) as [b'|]; try contradiction; try reflexivity.
  unfold bind. pose proof (transfer_R cf cf' a a' b b' q Hi Hj) as H.
  destruct (transfer cf a b q) as [[x y]|]; destruct (transfer cf' a' b' q) as [[x' y']|]; simpl in *; try contradiction; [|exact H].
  destruct H. apply IH. apply Forall2_set_nth; [apply Forall2_set_nth|]; assumption.
Qed.
Lemma Forall2_length {A} (P : A -> A -> Prop) l l' : Forall2 P l l' -> length l = length l'.
Proof. induction 1; simpl; congruence. Qed.

Theorem p_to_p_R ps ps' rs pd pd' rd q : RPl ps ps' -> RPl pd pd' -> Rres Rpp (p_to_p cf ps rs pd rd q) (p_to_p cf' ps' rs pd' rd q).
Proof.
  intros HS HD. unfold p_to_p. rewrite <- (RP_cols _ _ HS), <- (RP_cols _ _ HD).
  destruct (region_idx (ncols ps) rs) as [|s0 st]; [reflexivity|].
  destruct (region_idx (ncols pd) rd) as [|d0 dt]; [reflexivity|].
  unfold bind. destruct (dispatch rs rd _ _) as [pg|]; [|reflexivity]. destruct pg.
  - pose proof (Forall2_nth_error _ _ _ s0 (RP_wells _ _ HS)) as Hi.
    destruct (nth_error (wells ps) s0) as [a|]; destruct (nth_error (wells ps') s0) as [a'|]; try contradiction; [|reflexivity].
    pose proof (fold_wells_R Rk _ _ (step_src_R q) (d0 :: dt) a a' _ _ Hi (RP_wells _ _ HD)) as H.
    destruct (fold_wells _ _ a (wells pd)) as [[x ws]|]; destruct (fold_wells _ _ a' (wells pd')) as [[x' ws']|]; simpl in *; try contradiction; [|exact H].
    destruct H. split; simpl; apply with_wells_R; auto. apply Forall2_set_nth; [apply (RP_wells _ _ HS) | assumption].
  - pose proof (Forall2_nth_error _ _ _ d0 (RP_wells _ _ HD)) as Hi.
    destruct (nth_error (wells pd) d0) as [b|]; destruct (nth_error (wells pd') d0) as [b'|]; try contradiction; [|reflexivity].
    pose proof (fold_wells_R Rk _ _ (step_dst_R q) (s0 :: st) b b' _ _ Hi (RP_wells _ _ HS)) as H.
    destruct (fold_wells _ _ b (wells ps)) as [[x ws]|]; destruct (fold_wells _ _ b' (wells ps')) as [[x' ws']|]; simpl in *; try contradiction; [|exact H].
    destruct H. split; simpl; apply with_wells_R; auto. apply Forall2_set_nth; [apply (RP_wells _ _ HD) | assumption].
  - pose proof (pair_wells_R q (combine (s0 :: st) (d0 :: dt)) _ _ _ _ (RP_wells _ _ HS) (RP_wells _ _ HD)) as H.
    destruct (pair_wells cf q _ (wells ps) (wells pd)) as [[x y]|]; destruct (pair_wells cf' q _ (wells ps') (wells pd')) as [[x' y']|]; simpl in *; try contradiction; [|exact H].
    destruct H. split; simpl; apply with_wells_R; assumption.
Qed.
Theorem p_to_p_same_R p p' rs rd q : RPl p p' -> Rres RPl (p_to_p_same cf p rs rd q) (p_to_p_same cf' p' rs rd q).
Proof.
  intros HP. unfold p_to_p_same. rewrite <- (RP_cols _ _ HP).
  destruct (overlaps _ _); [reflexivity|].
  destruct (region_idx (ncols p) rs) as [|s0 st]; [reflexivity|].
  destruct (region_idx (ncols p) rd) as [|d0 dt]; [reflexivity|].
  unfold bind. destruct (dispatch rs rd _ _) as [pg|]; [|reflexivity]. destruct pg.
  - pose proof (Forall2_nth_error _ _ _ s0 (RP_wells _ _ HP)) as Hi.
    destruct (nth_error (wells p) s0) as [a|]; destruct (nth_error (wells p') s0) as [a'|]; try contradiction; [|reflexivity].
    pose proof (fold_wells_R Rk _ _ (step_src_R q) (d0 :: dt) a a' _ _ Hi (RP_wells _ _ HP)) as H.
    destruct (fold_wells _ _ a (wells p)) as [[x ws]|]; destruct (fold_wells _ _ a' (wells p')) as [[x' ws']|]; simpl in *; try contradiction; [|exact H].
    destruct H. apply with_wells_R; auto. apply Forall2_set_nth; assumption.
  - pose proof (Forall2_nth_error _ _ _ d0 (RP_wells _ _ HP)) as Hi.
    destruct (nth_error (wells p) d0) as [b|]; destruct (nth_error (wells p') d0) as [b'|]; try contradiction; [|reflexivity].
    pose proof (fold_wells_R Rk _ _ (step_dst_R q) (s0 :: st) b b' _ _ Hi (RP_wells _ _ HP)) as H.
    destruct (fold_wells _ _ b (wells p)) as [[x ws]|]; destruct (fold_wells _ _ b' (wells p')) as [[x' ws']|]; simpl in *; try contradiction; [|exact H].
    destruct H. apply with_wells_R; auto. apply Forall2_set_nth; assumption.
  - pose proof (pair_wells_same_R q (combine (s0 :: st) (d0 :: dt)) _ _ (RP_wells _ _ HP)) as H.
    destruct (pair_wells_same cf q _ (wells p)); destruct (pair_wells_same cf' q _ (wells p')); simpl in *; try contradiction; [|exact H].
    apply with_wells_R; assumption.
Qed.

(* ---------- construction of plates ---------- *)
Theorem new_plate_R name rows cols mx : Rres RPl (new_plate cf name rows cols mx) (new_plate cf' name rows cols mx).
Proof.
  unfold new_plate. destruct (Qle_bool (qv mx) 0); [reflexivity|]. destruct (_ || _); [reflexivity|].
  constructor; simpl; auto. induction (seq 0 (rows * cols)) as [|i t IH]; simpl; constructor; auto.
  constructor; simpl; auto; [constructor | ring|].
  rewrite !to_storage_vol_spec. field. split; apply pmult_nz.
Qed.

(* ---------- dilute ---------- *)
Lemma has_R x y k : Rc cf cf' x y -> has k x = has k y.
Proof.
  intros H. pose proof (Rc_keys cf cf' x y H) as E. destruct (has k x) eqn:A; destruct (has k y) eqn:B; auto.
  - apply has_in in A. rewrite E in A. apply has_in in A. congruence.
  - apply has_in in B. rewrite <- E in B. apply has_in in B. congruence.
Qed.
Lemma dilute_required_R c c' solute t solvent : Rk c c' ->
  dilute_required cf c solute t solvent == dilute_required cf' c' solute t solvent.
Proof.
  intros HR. unfold dilute_required. cbv zeta.
  rewrite (conv_stored_R cf cf' solute (get solute (cont c)) (get solute (cont c')) (P0, cnum t) (Rc_get cf cf' _ _ (R_cont _ _ _ _ HR) solute)).
  rewrite (total_in_R cf cf' (cont c) (cont c') (P0, cden t) (R_cont _ _ _ _ HR)). reflexivity.
Qed.

Theorem dilute_R c c' solute t solvent : Rk c c' -> Rres Rk (dilute cf c solute t solvent) (dilute cf' c' solute t solvent).
Proof.
  intros HR. unfold dilute. rewrite <- (has_R _ _ solute (R_cont _ _ _ _ HR)).
  destruct (negb (has solute (cont c))); [reflexivity|].
  destruct (base_eqb (cnum t) BU && negb (is_enzyme solute)); [reflexivity|].
  destruct (base_eqb (cden t) BU || is_enzyme solvent) eqn:Esv; [reflexivity|].
  destruct (seqb solvent solute); [reflexivity|]. destruct (Qle_bool (cval t) 0); [reflexivity|]. cbv zeta.
  pose proof (dilute_required_R c c' solute t solvent HR) as Hreq.
  set (req := dilute_required cf c solute t solvent) in *. set (req' := dilute_required cf' c' solute t solvent) in *.
  pose proof (pmult_nz (mol_pfx cf)) as N1. pose proof (pmult_nz (mol_pfx cf')) as N2.
  pose proof (pmult_pos (mol_pfx cf)) as P1. pose proof (pmult_pos (mol_pfx cf')) as P2.
  assert (Hrs : rnd (to_storage_mol cf req Pu) * pmult (mol_pfx cf) == rnd (to_storage_mol cf' req' Pu) * pmult (mol_pfx cf')).
  { rewrite !rnd_eq, !to_storage_mol_spec, Hreq. field. split; assumption. }
  rewrite (scaled_Qltb _ 0 _ 0 _ _ P1 P2 Hrs ltac:(ring)).
  destruct (Qltb (rnd (to_storage_mol cf' req' Pu)) 0); [reflexivity|].
  rewrite (scaled_Qeqb0 _ _ _ _ P1 P2 Hrs).
  destruct (Qeqb (rnd (to_storage_mol cf' req' Pu)) 0); [exact HR|].
  apply Bool.orb_false_iff in Esv. destruct Esv as [_ Eenz].
  unfold conv, conv_base, vol_unit. cbn [fst snd base_eqb andb]. rewrite Eenz. cbn [negb andb].
  pose proof (pmult_nz (vol_pfx cf)) as V1. pose proof (pmult_nz (vol_pfx cf')) as V2.
  assert (Hov : (vol c + req * pmult Pu * mw solvent / dens solvent / 1000 / pmult (vol_pfx cf)) * pmult (vol_pfx cf) ==
                (vol c' + req' * pmult Pu * mw solvent / dens solvent / 1000 / pmult (vol_pfx cf')) * pmult (vol_pfx cf')).
  { pose proof (R_vol _ _ _ _ HR) as Hv. rewrite Hreq.
    set (K := req' * pmult Pu * mw solvent / dens solvent / 1000).
    setoid_replace ((vol c + K / pmult (vol_pfx cf)) * pmult (vol_pfx cf)) with (vol c * pmult (vol_pfx cf) + K) by (field; exact V1).
    setoid_replace ((vol c' + K / pmult (vol_pfx cf')) * pmult (vol_pfx cf')) with (vol c' * pmult (vol_pfx cf') + K) by (field; exact V2).
    rewrite Hv. reflexivity. }
  rewrite (over_R cf cf' _ _ _ _ Hov (R_max _ _ _ _ HR)).
  destruct (over _ (maxv c')); [reflexivity|].
  apply self_add_R_gen; [exact HR | reflexivity|]. unfold qv; simpl. rewrite Hreq. reflexivity.
Qed.

(* ---------- create_solution with a pure solvent: the solve does not involve the configuration ---------- *)
Theorem create_solution_R name solutes solvent m :
  Rres Rk (create_solution cf name solutes solvent m) (create_solution cf' name solutes solvent m).
Proof.
  unfold create_solution, bind. destruct (solve_solution solutes solvent m) as [xs|]; [|reflexivity].
  apply make_container_R.
Qed.
End TwoConfigs.

(* ---------- programs (Prog.v) ---------- *)
Section Programs.
Variables cf cf' : cfg.
Definition Rbind (x y : nat * obj) : Prop := fst x = fst y /\ Robj cf cf' (snd x) (snd y).
Definition Renv (e e' : env) : Prop := Forall2 Rbind e e'.

Lemma lookup_R v : forall e e', Renv e e' ->
  match lookup v e, lookup v e' with Some o, Some o' => Robj cf cf' o o' | None, None => True | _, _ => False end.
Proof.
  induction 1 as [|[k o] [k' o'] e e' [Hk Ho] _ IH]; simpl; [exact I|]. simpl in Hk. subst k'.
  destruct (Nat.eqb k v); [exact Ho | exact IH].
Qed.
Lemma getC_R e e' v : Renv e e' -> Rres (R cf cf') (getC e v) (getC e' v).
Proof.
  intros H. unfold getC. pose proof (lookup_R v e e' H) as L.
  destruct (lookup v e) as [[c|p]|]; destruct (lookup v e') as [[c'|p']|]; simpl in *; try contradiction; auto.
Qed.
Lemma getP_R e e' v : Renv e e' -> Rres (RPl cf cf') (getP e v) (getP e' v).
Proof.
  intros H. unfold getP. pose proof (lookup_R v e e' H) as L.
  destruct (lookup v e) as [[c|p]|]; destruct (lookup v e') as [[c'|p']|]; simpl in *; try contradiction; auto.
Qed.

(* operations whose model involves the solver on a container-derived pseudo-substance are left to the correspondence *)
Definition plain_op (o : op) : Prop :=
  match o with OSolutionC _ _ _ _ _ _ | OSolutionFrom _ _ _ _ _ _ _ _ | OSolutionFromC _ _ _ _ _ _ _ _ _ => False | _ => True end.

Ltac one H := constructor; [split; [reflexivity | exact H] | constructor].
Ltac two Ha Hb := constructor; [split; [reflexivity | exact Ha] | constructor; [split; [reflexivity | exact Hb] | constructor]].

Theorem step_R e e' o : Renv e e' -> plain_op o -> Rres (Forall2 Rbind) (step cf e o) (step cf' e' o).
Proof.
  intros HE Hp. destruct o; simpl in Hp; try contradiction; simpl; unfold bind.
  - pose proof (make_container_R cf cf' name mx init) as H.
    destruct (make_container cf name mx init); destruct (make_container cf' name mx init); simpl in *; try contradiction; [|exact H].
    constructor; [split; [reflexivity | exact H] | constructor].
  - pose proof (new_plate_R cf cf' name rows cols mx) as H.
    destruct (new_plate cf name rows cols mx); destruct (new_plate cf' name rows cols mx); simpl in *; try contradiction; [|exact H].
    constructor; [split; [reflexivity | exact H] | constructor].
  - destruct src as [s|s rs], dst as [d|d rd].
    + destruct (Nat.eqb s d); [reflexivity|].
      pose proof (getC_R e e' s HE) as H1. destruct (getC e s) as [cs|]; destruct (getC e' s) as [cs'|]; simpl in H1; try contradiction; [|exact H1].
      pose proof (getC_R e e' d HE) as H2. destruct (getC e d) as [cd|]; destruct (getC e' d) as [cd'|]; simpl in H2; try contradiction; [|exact H2].
      pose proof (transfer_R cf cf' _ _ _ _ q H1 H2) as H.
      destruct (transfer cf cs cd q) as [[x y]|]; destruct (transfer cf' cs' cd' q) as [[x' y']|]; simpl in *; try contradiction; [|exact H].
      destruct H as [Ha Hb]. two Ha Hb.
    + pose proof (getC_R e e' s HE) as H1. destruct (getC e s) as [cs|]; destruct (getC e' s) as [cs'|]; simpl in H1; try contradiction; [|exact H1].
      pose proof (getP_R e e' d HE) as H2. destruct (getP e d) as [pd|]; destruct (getP e' d) as [pd'|]; simpl in H2; try contradiction; [|exact H2].
      pose proof (c_to_p_R cf cf' _ _ _ _ rd q H1 H2) as H.
      destruct (c_to_p cf cs pd rd q) as [[x y]|]; destruct (c_to_p cf' cs' pd' rd q) as [[x' y']|]; simpl in *; try contradiction; [|exact H].
      destruct H as [Ha Hb]. two Ha Hb.
    + pose proof (getP_R e e' s HE) as H1. destruct (getP e s) as [ps|]; destruct (getP e' s) as [ps'|]; simpl in H1; try contradiction; [|exact H1].
      pose proof (getC_R e e' d HE) as H2. destruct (getC e d) as [cd|]; destruct (getC e' d) as [cd'|]; simpl in H2; try contradiction; [|exact H2].
      pose proof (p_to_c_R cf cf' _ _ rs _ _ q H1 H2) as H.
      destruct (p_to_c cf ps rs cd q) as [[x y]|]; destruct (p_to_c cf' ps' rs cd' q) as [[x' y']|]; simpl in *; try contradiction; [|exact H].
      destruct H as [Ha Hb]. two Ha Hb.
    + destruct (Nat.eqb s d).
      * pose proof (getP_R e e' s HE) as H1. destruct (getP e s) as [ps|]; destruct (getP e' s) as [ps'|]; simpl in H1; try contradiction; [|exact H1].
        pose proof (p_to_p_same_R cf cf' _ _ rs rd q H1) as H.
        destruct (p_to_p_same cf ps rs rd q); destruct (p_to_p_same cf' ps' rs rd q); simpl in *; try contradiction; [|exact H].
        two H H.
      * pose proof (getP_R e e' s HE) as H1. destruct (getP e s) as [ps|]; destruct (getP e' s) as [ps'|]; simpl in H1; try contradiction; [|exact H1].
        pose proof (getP_R e e' d HE) as H2. destruct (getP e d) as [pd|]; destruct (getP e' d) as [pd'|]; simpl in H2; try contradiction; [|exact H2].
        pose proof (p_to_p_R cf cf' _ _ rs _ _ rd q H1 H2) as H.
        destruct (p_to_p cf ps rs pd rd q) as [[x y]|]; destruct (p_to_p cf' ps' rs pd' rd q) as [[x' y']|]; simpl in *; try contradiction; [|exact H].
        destruct H as [Ha Hb]. two Ha Hb.
  - destruct t as [v|v r].
    + pose proof (getC_R e e' v HE) as H1. destruct (getC e v) as [c|]; destruct (getC e' v) as [c'|]; simpl in H1; try contradiction; [|exact H1].
      one (remove_R cf cf' _ _ w H1).
    + pose proof (getP_R e e' v HE) as H1. destruct (getP e v) as [p|]; destruct (getP e' v) as [p'|]; simpl in H1; try contradiction; [|exact H1].
      pose proof (premove_R cf cf' _ _ r w H1) as H.
      destruct (premove cf p r w); destruct (premove cf' p' r w); simpl in *; try contradiction; [|exact H]. one H.
  - destruct t as [v|v r].
    + pose proof (getC_R e e' v HE) as H1. destruct (getC e v) as [c|]; destruct (getC e' v) as [c'|]; simpl in H1; try contradiction; [|exact H1].
      pose proof (fill_to_R cf cf' _ _ solvent q H1) as H.
      destruct (fill_to cf c solvent q); destruct (fill_to cf' c' solvent q); simpl in *; try contradiction; [|exact H]. one H.
    + pose proof (getP_R e e' v HE) as H1. destruct (getP e v) as [p|]; destruct (getP e' v) as [p'|]; simpl in H1; try contradiction; [|exact H1].
      pose proof (pfill_R cf cf' _ _ r solvent q H1) as H.
      destruct (pfill_to cf p r solvent q); destruct (pfill_to cf' p' r solvent q); simpl in *; try contradiction; [|exact H]. one H.
  - pose proof (getC_R e e' v HE) as H1. destruct (getC e v) as [k|]; destruct (getC e' v) as [k'|]; simpl in H1; try contradiction; [|exact H1].
    pose proof (dilute_R cf cf' _ _ solute c solvent H1) as H.
    destruct (dilute cf k solute c solvent); destruct (dilute cf' k' solute c solvent); simpl in *; try contradiction; [|exact H]. one H.
  - pose proof (create_solution_R cf cf' name solutes solvent m) as H.
    destruct (create_solution cf name solutes solvent m); destruct (create_solution cf' name solutes solvent m); simpl in *; try contradiction; [|exact H].
    one H.
Qed.

Lemma assign_R l l' : Forall2 Rbind l l' -> forall e e', Renv e e' -> Renv (assign e l) (assign e' l').
Proof.
  unfold assign. induction 1 as [|x y l l' Hxy _ IH]; intros e e' HE; simpl; [exact HE|].
  apply IH. unfold bindv. constructor; [exact Hxy | exact HE].
Qed.

(* C18 for whole programs: under any two storage configurations every operation of a history is accepted or refused alike
   (same error class) and returns related values; the environments stay related *)
Theorem run_R ops : forall e e', Renv e e' -> Forall plain_op ops ->
  Forall2 (Rres (Forall2 Rbind)) (run cf e ops) (run cf' e' ops).
Proof.
  induction ops as [|o t IH]; intros e e' HE Hp; simpl; [constructor|].
  inversion Hp; subst. pose proof (step_R e e' o HE H1) as Hs. constructor; [exact Hs|].
  destruct (step cf e o) as [l|]; destruct (step cf' e' o) as [l'|]; simpl in Hs; try contradiction.
  - apply IH; [apply assign_R; assumption | assumption].
  - apply IH; assumption.
Qed.
End Programs.
