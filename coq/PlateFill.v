(* region fills: all-or-nothing, and the target is reached in every addressed well *)
Require Import Base Units UnitsThm Contents Container ContainerThm ContainerThm2 Plate PlateThm.

(* a region fill in which one addressed well cannot be filled (target above its capacity, below what it holds, unit U) is refused
   as a whole: no plate is returned in which that well was silently left as it was *)
Theorem pfill_all_or_nothing cf p r s q i w e :
  NoDup (region_idx (ncols p) r) -> In i (region_idx (ncols p) r) -> nth_error (wells p) i = Some w ->
  fill_to cf w s q = Err e -> exists e', pfill_to cf p r s q = Err e'.
Proof.
  intros Hnd Hin Ew Hf. destruct (pfill_to cf p r s q) as [p'|e'] eqn:E; [|eauto].
  destruct (pfill_wellwise _ _ _ _ _ _ E) as (_ & _ & _ & _ & _ & Hw).
  destruct (Hw Hnd i Hin) as (c & c' & Ec & Efc & _). rewrite Ew in Ec. inversion Ec; subst c. rewrite Hf in Efc. discriminate.
Qed.

(* an accepted region fill leaves every addressed well at the target (in the unit of the request), having added only solvent *)
Theorem pfill_post cf p r s q p' :
  PInv cf p -> wf_subst s -> is_enzyme s = false -> NoDup (region_idx (ncols p) r) -> pfill_to cf p r s q = Ok p' ->
  forall i, In i (region_idx (ncols p) r) ->
    exists c c', nth_error (wells p) i = Some c /\ nth_error (wells p') i = Some c' /\
      total_in cf (cont c') (P0, qbase q) == qv q /\
      (forall k, k <> s -> get k (cont c') = get k (cont c)) /\ get s (cont c) <= get s (cont c') /\ maxv c' = maxv c.
Proof.
  intros I Hs He Hnd E i Hin.
  destruct (pfill_wellwise _ _ _ _ _ _ E) as (_ & _ & _ & _ & _ & Hw).
  destruct (Hw Hnd i Hin) as (c & c' & Ec & Efc & Ec').
  exists c, c'. split; [exact Ec|]. split; [exact Ec'|].
  assert (Ic : Inv cf c). { unfold PInv in I. rewrite Forall_forall in I. apply I. eapply nth_error_In; eassumption. }
  destruct (fill_to_post _ _ _ _ _ Ic Hs He Efc) as (Ht & Hk & Hge & _ & Hm & _). auto.
Qed.

(* a well that already holds more than the target makes the whole region fill a ValueError *)
Corollary pfill_below_one_well_refused cf p r s q i w :
  NoDup (region_idx (ncols p) r) -> In i (region_idx (ncols p) r) -> nth_error (wells p) i = Some w ->
  total_in cf (cont w) (P0, qbase q) > qv q -> exists e', pfill_to cf p r s q = Err e'.
Proof. intros Hnd Hin Ew Hgt. eapply pfill_all_or_nothing; eauto. apply fill_below_refused. exact Hgt. Qed.
