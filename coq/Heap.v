(* Heap.v -- object-level model of the public operations: WHICH OBJECT is read, allocated and written.
   The value-level models (Container.v, Plate.v, Dilute.v, Solve.v) say what the numbers are; this file says
   where they live.  A Python object with identity and mutable state is a cell of an append-only heap:
     Container  -> CCont   (name, contents dict, volume, capacity; the instruction text as a revision counter)
     numpy object array Plate.wells -> CArr (the addresses of the wells, row-major)
     Plate      -> CPlate  (name, shape, address of its array)
     PlateSlicer-> CSlice  (address of its plate, the resolved region)
   deepcopy(x) allocates fresh cells for everything reachable from x, copy(slice) allocates one cell that
   points at the same plate, attribute / item assignment is [store].  Every operation is transcribed with the
   copies and the assignments the source performs (pyplate.py: Container._transfer, _transfer_slice,
   PlateSlicer._transfer / remove / fill_to, Container.remove / fill_to / dilute, Plate.__getitem__).
   An exception leaves the heap as it is at the raise.  Definitions only; theorems in HeapThm.v. *)
Require Import Base Units Contents Container Plate Dilute Solve.

Definition addr := nat.
Inductive cell :=
| CCont (c : container) (ins : nat)
| CArr (ws : list addr)
| CPlate (nm nr nc : nat) (arr : addr)
| CSlice (pl : addr) (rg : region).
Definition heap := list cell.

Definition M (A : Type) := heap -> result A * heap.
Definition ret {A} (a : A) : M A := fun h => (Ok a, h).
Definition raise {A} (e : err) : M A := fun h => (Err e, h).
Definition mbind {A B} (m : M A) (k : A -> M B) : M B :=
  fun h => match m h with (Ok a, h') => k a h' | (Err e, h') => (Err e, h') end.
Notation "'mdo' x <- m ; k" := (mbind m (fun x => k)) (at level 200, x pattern, m at level 100, k at level 200).
Definition lift {A} (r : result A) : M A := fun h => (r, h).

Definition alloc (c : cell) : M addr := fun h => (Ok (length h), h ++ [c]).
Definition load (a : addr) : M cell :=
  fun h => (match nth_error h a with Some c => Ok c | None => Err EOther end, h).
Definition store (a : addr) (c : cell) : M unit := fun h => (Ok tt, set_nth a c h).

Definition load_cont (a : addr) : M (container * nat) :=
  mdo c <- load a; match c with CCont k i => ret (k, i) | _ => raise EType end.
Definition load_arr (a : addr) : M (list addr) :=
  mdo c <- load a; match c with CArr ws => ret ws | _ => raise EType end.
Definition load_plate (a : addr) : M (nat * nat * nat * addr) :=
  mdo c <- load a; match c with CPlate nm nr nc arr => ret (nm, nr, nc, arr) | _ => raise EType end.
Definition load_slice (a : addr) : M (addr * region) :=
  mdo c <- load a; match c with CSlice p r => ret (p, r) | _ => raise EType end.

Fixpoint mapM {A B} (f : A -> M B) (l : list A) : M (list B) :=
  match l with
  | [] => ret []
  | x :: t => mdo y <- f x; mdo ys <- mapM f t; ret (y :: ys)
  end.

(* deepcopy of a container / of a plate (every well, the array, the plate); copy of a slice *)
Definition copy_cont (a : addr) : M addr := mdo ci <- load_cont a; alloc (CCont (fst ci) (snd ci)).
(* returns the new plate together with its (new) well array and its number of columns *)
Definition deepcopy_plate (p : addr) : M (addr * addr * nat) :=
  mdo pl <- load_plate p;
  let '(nm, nr, nc, arr) := pl in
  mdo ws <- load_arr arr; mdo ws' <- mapM copy_cont ws; mdo arr' <- alloc (CArr ws');
  mdo p' <- alloc (CPlate nm nr nc arr'); ret (p', arr', nc).
Definition copy_slice (s : addr) : M addr := mdo sl <- load_slice s; alloc (CSlice (fst sl) (snd sl)).
(* slice' = copy(slice); slice'.plate = deepcopy(slice.plate): the pattern of every slice operation *)
Record pslice := { ps_slice : addr; ps_plate : addr; ps_arr : addr; ps_nc : nat; ps_rg : region }.
Definition private_slice (s : addr) : M pslice :=
  mdo s' <- copy_slice s;
  mdo sl <- load_slice s';
  mdo pa <- deepcopy_plate (fst sl);
  mdo _ <- store s' (CSlice (fst (fst pa)) (snd sl));
  ret {| ps_slice := s'; ps_plate := fst (fst pa); ps_arr := snd (fst pa); ps_nc := snd pa; ps_rg := snd sl |}.

Definition whole (nr nc : nat) : region := RRect (seq 0 nr) (seq 0 nc).
(* Plate.__getitem__: a new slicer object pointing at the plate itself *)
Definition h_getitem (p : addr) (rg : region) : M addr :=
  mdo pl <- load_plate p;
  let '(nm, nr, nc, arr) := pl in
  if forallb (fun i => Nat.ltb i (nr * nc)) (region_idx nc rg) then alloc (CSlice p rg) else raise EValue.
(* an operand that may be a plate or a slice: plates are wrapped as plate[:] *)
Definition as_slice (a : addr) : M addr :=
  mdo c <- load a;
  match c with
  | CPlate nm nr nc arr => alloc (CSlice a (whole nr nc))
  | CSlice _ _ => ret a
  | _ => raise EType
  end.

Section Ops.
Variable cf : cfg.

(* Container._transfer: the ratio is validated, then both containers are deep-copied, the copies are
   rewritten, and an overflow of the destination is detected on the copy *)
Definition h_transfer_cc (s d : addr) (q : qty) : M (addr * addr) :=
  mdo cs <- load_cont s; mdo cd <- load_cont d;
  mdo r <- lift (transfer_ratio cf (fst cs) q);
  if Qltb (rnd r) 0 || Qgtb (rnd r) 1 then raise EValue else
  mdo s' <- copy_cont s; mdo d' <- copy_cont d;
  mdo sd <- lift (transfer cf (fst cs) (fst cd) q);
  mdo _ <- store s' (CCont (fst sd) (snd cs));
  mdo _ <- store d' (CCont (snd sd) (S (snd cd)));
  ret (s', d').

(* Slicer.apply with an accumulator held in a Python list cell: wells are replaced in the array [arr] *)
Fixpoint h_fold (f : addr -> addr -> M (addr * addr)) (arr : addr) (idxs : list nat) (acc : addr) : M addr :=
  match idxs with
  | [] => ret acc
  | i :: t =>
      mdo ws <- load_arr arr;
      match nth_error ws i with
      | None => raise EOther
      | Some w => mdo r <- f acc w;
                  mdo _ <- store arr (CArr (set_nth i (snd r) ws));
                  h_fold f arr t (fst r)
      end
  end.
Definition h_apply (f : addr -> M addr) (arr : addr) (idxs : list nat) : M unit :=
  mdo z <- h_fold (fun acc w => mdo w' <- f w; ret (acc, w')) arr idxs 0%nat; ret tt.

Definition nonempty (idxs : list nat) : M unit := match idxs with [] => raise EValue | _ => ret tt end.

(* Container._transfer_slice(source_slice, quantity): slice or plate -> container *)
Definition h_transfer_sc (src d : addr) (q : qty) : M (addr * addr) :=
  mdo s0 <- as_slice src;
  mdo to <- copy_cont d;
  mdo sp <- private_slice s0;
  let idxs := region_idx (ps_nc sp) (ps_rg sp) in
  mdo _ <- nonempty idxs;
  mdo to' <- h_fold (fun acc w => mdo r <- h_transfer_cc w acc q; ret (snd r, fst r)) (ps_arr sp) idxs to;
  ret (ps_plate sp, to').

Definition bump (a : addr) : M unit := mdo ci <- load_cont a; store a (CCont (fst ci) (S (snd ci))).

(* PlateSlicer._transfer(frm, to, quantity) with a container source *)
Definition h_transfer_cs (s dst : addr) (q : qty) : M (addr * addr) :=
  mdo t0 <- as_slice dst;
  mdo _ <- load_cont s;
  mdo tp <- private_slice t0;
  let idxs := region_idx (ps_nc tp) (ps_rg tp) in
  mdo _ <- nonempty idxs;
  mdo s' <- h_fold (fun acc w => h_transfer_cc acc w q) (ps_arr tp) idxs s;
  ret (s', ps_plate tp).

(* element-wise pairing: numpy.frompyfunc over both selections, then frm.set / to.set *)
Fixpoint h_pairs (fa ta : addr) (pairs : list (nat * nat)) (q : qty) (edit : bool) : M unit :=
  match pairs with
  | [] => ret tt
  | (i, j) :: t =>
      mdo fs <- load_arr fa; mdo ts <- load_arr ta;
      match nth_error fs i, nth_error ts j with
      | Some a, Some b =>
          mdo r <- h_transfer_cc a b q;
          mdo _ <- (if edit then bump (snd r) else ret tt);
          mdo _ <- store fa (CArr (set_nth i (fst r) fs));
          mdo ts' <- load_arr ta;
          mdo _ <- store ta (CArr (set_nth j (snd r) ts'));
          h_pairs fa ta t q edit
      | _, _ => raise EOther
      end
  end.

(* PlateSlicer._transfer(frm, to, quantity) with a plate / slice source *)
Definition h_transfer_ss (src dst : addr) (q : qty) : M (addr * addr) :=
  mdo t0 <- as_slice dst;
  mdo f0 <- as_slice src;
  mdo t' <- copy_slice t0; mdo f' <- copy_slice f0;
  mdo tsl <- load_slice t'; mdo fsl <- load_slice f';
  let different := negb (Nat.eqb (fst tsl) (fst fsl)) in
  mdo pp <- (if different
             then mdo tp <- deepcopy_plate (fst tsl); mdo fp <- deepcopy_plate (fst fsl); ret (fp, tp)
             else mdo p <- deepcopy_plate (fst tsl); ret (p, p));
  let fp := fst (fst (fst pp)) in let tp := fst (fst (snd pp)) in
  let fna := (snd (fst pp), snd (fst (fst pp))) in let tna := (snd (snd pp), snd (fst (snd pp))) in
  mdo _ <- store t' (CSlice tp (snd tsl));
  mdo _ <- store f' (CSlice fp (snd fsl));
  let si := region_idx (fst fna) (snd fsl) in
  let di := region_idx (fst tna) (snd tsl) in
  if negb different && overlaps si di then raise EValue else
  match si, di with
  | [], _ | _, [] => raise EValue
  | s0 :: _, d0 :: _ =>
      mdo pg <- lift (dispatch (snd fsl) (snd tsl) (length si) (length di));
      match pg with
      | POneToMany =>
          mdo fs <- load_arr (snd fna);
          match nth_error fs s0 with
          | None => raise EOther
          | Some a =>
              mdo a' <- h_fold (fun acc w => mdo r <- h_transfer_cc acc w q;
                                              mdo _ <- (if different then bump (snd r) else ret tt); ret r)
                               (snd tna) di a;
              mdo fs' <- load_arr (snd fna);
              mdo _ <- store (snd fna) (CArr (set_nth s0 a' fs'));
              ret (fp, tp)
          end
      | PManyToOne =>
          mdo ts <- load_arr (snd tna);
          match nth_error ts d0 with
          | None => raise EOther
          | Some b =>
              mdo b' <- h_fold (fun acc w => mdo r <- h_transfer_cc w acc q; mdo _ <- bump (fst r); ret (snd r, fst r))
                               (snd fna) si b;
              mdo ts' <- load_arr (snd tna);
              mdo _ <- store (snd tna) (CArr (set_nth d0 b' ts'));
              ret (fp, tp)
          end
      | PElementwise =>
          mdo _ <- h_pairs (snd fna) (snd tna) (combine si di) q different; ret (fp, tp)
      end
  end.

(* Container.remove / fill_to / dilute: deepcopy(self), the copy is rewritten *)
Definition h_remove_c (a : addr) (w : what) : M addr :=
  mdo ci <- load_cont a; mdo a' <- copy_cont a;
  mdo _ <- store a' (CCont (remove cf (fst ci) w) (S (snd ci))); ret a'.
Definition h_fill_c (a : addr) (solvent : substance) (q : qty) : M addr :=
  mdo ci <- load_cont a;
  mdo c' <- lift (fill_to cf (fst ci) solvent q);
  mdo a' <- copy_cont a;
  mdo _ <- store a' (CCont c' (S (snd ci))); ret a'.
Definition h_dilute (a : addr) (solute : substance) (t : conc) (solvent : substance) : M addr :=
  mdo ci <- load_cont a;
  mdo c' <- lift (dilute cf (fst ci) solute t solvent);
  mdo a' <- copy_cont a;
  mdo _ <- store a' (CCont c' (S (snd ci))); ret a'.

(* PlateSlicer.remove / fill_to (Plate.remove / fill_to go through plate[:]) *)
Definition h_remove_s (t : addr) (w : what) : M addr :=
  mdo s0 <- as_slice t;
  mdo sp <- private_slice s0;
  let idxs := region_idx (ps_nc sp) (ps_rg sp) in
  mdo _ <- nonempty idxs;
  mdo _ <- h_apply (fun w0 => h_remove_c w0 w) (ps_arr sp) idxs;
  ret (ps_plate sp).
Definition h_fill_s (t : addr) (solvent : substance) (q : qty) : M addr :=
  mdo s0 <- as_slice t;
  mdo sp <- private_slice s0;
  let idxs := region_idx (ps_nc sp) (ps_rg sp) in
  mdo _ <- nonempty idxs;
  mdo _ <- h_apply (fun w0 => h_fill_c w0 solvent q) (ps_arr sp) idxs;
  ret (ps_plate sp).

(* constructors *)
Definition h_newc (name : nat) (mx : option qty) (init : list (substance * qty)) : M addr :=
  mdo c <- lift (make_container cf name mx init); alloc (CCont c 1).
Definition h_newp (name rows cols : nat) (mx : qty) : M addr :=
  mdo p <- lift (new_plate cf name rows cols mx);
  mdo ws <- mapM (fun c => alloc (CCont c 0)) (wells p);
  mdo arr <- alloc (CArr ws); alloc (CPlate name rows cols arr).

(* solutions built from containers: all results are new objects (the numbers are those of Solve.v) *)
Definition h_solution_c (name : nat) (solutes : list substance) (sv : addr) (m : sol_mode) : M (addr * addr) :=
  mdo k <- load_cont sv;
  mdo r <- lift (create_solution_c cf name solutes (fst k) m);
  mdo a <- alloc (CCont (fst r) (S (snd k))); mdo b <- alloc (CCont (snd r) 1); ret (a, b).
Definition h_solfrom (src : addr) (solute : substance) (c : conc) (solvent : substance) (q : qty) (name : nat) : M (addr * addr) :=
  mdo k <- load_cont src;
  mdo r <- lift (create_solution_from cf (fst k) solute c solvent q name);
  mdo a <- alloc (CCont (fst r) (snd k)); mdo b <- alloc (CCont (snd r) 1); ret (a, b).

(* Recipe.uses: the recipe keeps deep copies *)
Definition h_uses (a : addr) : M addr :=
  mdo c <- load a;
  match c with CCont _ _ => copy_cont a | CPlate _ _ _ _ => mdo r <- deepcopy_plate a; ret (fst (fst r)) | _ => raise EType end.

(* ---- recipes: Recipe.uses keeps deep copies; Recipe.bake runs the steps on the recipe's own objects.  A step refers to a declared
   object by its position in the uses list, or -- as the user wrote it -- to a slice object of the user's (a variable) whose plate carries
   the name of a declared plate.  bake: `x = deepcopy(slice); x.plate = self.results[name]` makes a new slice object pointing at the
   recipe's current plate; the user's slice is only read. *)
Definition var (vars : list addr) (v : nat) : M addr :=
  match nth_error vars v with Some a => ret a | None => raise EOther end.
Inductive hrref := HRC (n : nat) | HRS (slv : nat) (n : nat).
Definition hr_name (r : hrref) : nat := match r with HRC n => n | HRS _ n => n end.
Inductive hrstep :=
| RTransfer (src dst : hrref) (q : qty)
| RRemove (t : hrref) (w : what)
| RFill (t : hrref) (solvent : substance) (q : qty)
| RDilute (n : nat) (solute : substance) (c : conc) (solvent : substance).

Definition res_get (res : list addr) (n : nat) : M addr :=
  match nth_error res n with Some a => ret a | None => raise EOther end.
Definition resolve (vars res : list addr) (r : hrref) : M addr :=
  match r with
  | HRC n => res_get res n
  | HRS v n => mdo sl <- var vars v; mdo sp <- private_slice sl; mdo p <- res_get res n;
               mdo _ <- store (ps_slice sp) (CSlice p (ps_rg sp)); ret (ps_slice sp)
  end.

Definition h_transfer_any (sa da : addr) (q : qty) : M (addr * addr) :=
  mdo sc <- load sa; mdo dc <- load da;
  match dc, sc with
  | CCont _ _, CCont _ _ => if Nat.eqb sa da then raise EValue else h_transfer_cc sa da q
  | CCont _ _, (CPlate _ _ _ _ | CSlice _ _) => h_transfer_sc sa da q
  | (CPlate _ _ _ _ | CSlice _ _), CCont _ _ => h_transfer_cs sa da q
  | (CPlate _ _ _ _ | CSlice _ _), (CPlate _ _ _ _ | CSlice _ _) => h_transfer_ss sa da q
  | _, _ => raise EType
  end.
Definition h_remove_any (ta : addr) (w : what) : M addr :=
  mdo c <- load ta;
  match c with CCont _ _ => h_remove_c ta w | CPlate _ _ _ _ | CSlice _ _ => h_remove_s ta w | _ => raise EType end.
Definition h_fill_any (ta : addr) (s : substance) (q : qty) : M addr :=
  mdo c <- load ta;
  match c with CCont _ _ => h_fill_c ta s q | CPlate _ _ _ _ | CSlice _ _ => h_fill_s ta s q | _ => raise EType end.

Definition h_rstep (vars res : list addr) (st : hrstep) : M (list addr) :=
  match st with
  | RTransfer a b q =>
      mdo sa <- resolve vars res a; mdo da <- resolve vars res b;
      mdo r <- h_transfer_any sa da q;
      ret (set_nth (hr_name b) (snd r) (set_nth (hr_name a) (fst r) res))
  | RRemove t w => mdo ta <- resolve vars res t; mdo a <- h_remove_any ta w; ret (set_nth (hr_name t) a res)
  | RFill t s q =>      (* bake fills step.to[0], the recipe's whole object, also when a slice was given (known finding D13) *)
      mdo ta <- res_get res (hr_name t); mdo a <- h_fill_any ta s q; ret (set_nth (hr_name t) a res)
  | RDilute n solute c solvent => mdo ta <- res_get res n; mdo a <- h_dilute ta solute c solvent; ret (set_nth n a res)
  end.
Fixpoint h_rsteps (vars res : list addr) (steps : list hrstep) : M (list addr) :=
  match steps with
  | [] => ret res
  | st :: t => mdo res' <- h_rstep vars res st; h_rsteps vars res' t
  end.
(* r = Recipe(); r.uses(objects...); the steps; r.bake() gives the objects of the recipe in declaration order *)
Definition h_recipe (vars : list addr) (uses : list nat) (steps : list hrstep) : M (list addr) :=
  mdo res <- mapM (fun v => mdo a <- var vars v; h_uses a) uses; h_rsteps vars res steps.

(* ---- programs over object variables: variable k is the k-th object returned so far *)
Inductive hop :=
| HNewC (name : nat) (mx : option qty) (init : list (substance * qty))
| HNewP (name rows cols : nat) (mx : qty)
| HSlice (p : nat) (rg : region)
| HTransfer (src dst : nat) (q : qty)
| HRemove (t : nat) (w : what)
| HFill (t : nat) (solvent : substance) (q : qty)
| HDilute (v : nat) (solute : substance) (c : conc) (solvent : substance)
| HSolutionC (name : nat) (solutes : list substance) (sv : nat) (m : sol_mode)
| HSolFrom (src : nat) (solute : substance) (c : conc) (solvent : substance) (q : qty) (name : nat)
| HUses (v : nat)
| HRecipe (uses : list nat) (steps : list hrstep).

Definition pair_list (p : addr * addr) : list addr := [fst p; snd p].

Definition hstep (vars : list addr) (o : hop) : M (list addr) :=
  match o with
  | HNewC name mx init => mdo a <- h_newc name mx init; ret [a]
  | HNewP name rows cols mx => mdo a <- h_newp name rows cols mx; ret [a]
  | HSlice p rg => mdo pa <- var vars p; mdo a <- h_getitem pa rg; ret [a]
  | HTransfer s d q =>
      mdo sa <- var vars s; mdo da <- var vars d;
      mdo sc <- load sa; mdo dc <- load da;
      match dc, sc with
      | CCont _ _, CCont _ _ => if Nat.eqb sa da then raise EValue else mdo r <- h_transfer_cc sa da q; ret (pair_list r)
      | CCont _ _, (CPlate _ _ _ _ | CSlice _ _) => mdo r <- h_transfer_sc sa da q; ret (pair_list r)
      | (CPlate _ _ _ _ | CSlice _ _), CCont _ _ => mdo r <- h_transfer_cs sa da q; ret (pair_list r)
      | (CPlate _ _ _ _ | CSlice _ _), (CPlate _ _ _ _ | CSlice _ _) => mdo r <- h_transfer_ss sa da q; ret (pair_list r)
      | _, _ => raise EType
      end
  | HRemove t w =>
      mdo ta <- var vars t; mdo c <- load ta;
      match c with
      | CCont _ _ => mdo a <- h_remove_c ta w; ret [a]
      | CPlate _ _ _ _ | CSlice _ _ => mdo a <- h_remove_s ta w; ret [a]
      | _ => raise EType
      end
  | HFill t s q =>
      mdo ta <- var vars t; mdo c <- load ta;
      match c with
      | CCont _ _ => mdo a <- h_fill_c ta s q; ret [a]
      | CPlate _ _ _ _ | CSlice _ _ => mdo a <- h_fill_s ta s q; ret [a]
      | _ => raise EType
      end
  | HDilute v solute c solvent => mdo a <- var vars v; mdo a' <- h_dilute a solute c solvent; ret [a']
  | HSolutionC name solutes sv m => mdo a <- var vars sv; mdo r <- h_solution_c name solutes a m; ret (pair_list r)
  | HSolFrom src solute c solvent q name => mdo a <- var vars src; mdo r <- h_solfrom a solute c solvent q name; ret (pair_list r)
  | HUses v => mdo a <- var vars v; mdo a' <- h_uses a; ret [a']
  | HRecipe uses steps => h_recipe vars uses steps
  end.

(* a history: failed calls return nothing; the heap continues from where the exception left it *)
Fixpoint hrun (vars : list addr) (h : heap) (ops : list hop) : list (result (list addr)) * list addr * heap :=
  match ops with
  | [] => ([], vars, h)
  | o :: t =>
      let '(r, h') := hstep vars o h in
      let vars' := match r with Ok l => vars ++ l | Err _ => vars end in
      let '(rs, vf, hf) := hrun vars' h' t in (r :: rs, vf, hf)
  end.
End Ops.

(* ---- reading an object off the heap: everything a user can observe through it *)
Inductive view :=
| VCont (c : container) (ins : nat)
| VPlate (nm nr nc : nat) (ws : list (container * nat))
| VSlice (p : view) (rg : region).

Definition view_cont (h : heap) (a : addr) : option (container * nat) :=
  match nth_error h a with Some (CCont c i) => Some (c, i) | _ => None end.
Fixpoint all_some {A} (l : list (option A)) : option (list A) :=
  match l with
  | [] => Some []
  | Some x :: t => match all_some t with Some r => Some (x :: r) | None => None end
  | None :: _ => None
  end.
Definition view_plate (h : heap) (a : addr) : option view :=
  match nth_error h a with
  | Some (CPlate nm nr nc arr) =>
      match nth_error h arr with
      | Some (CArr ws) => match all_some (map (view_cont h) ws) with Some l => Some (VPlate nm nr nc l) | None => None end
      | _ => None
      end
  | _ => None
  end.
Definition observe (h : heap) (a : addr) : option view :=
  match nth_error h a with
  | Some (CCont c i) => Some (VCont c i)
  | Some (CPlate _ _ _ _) => view_plate h a
  | Some (CSlice p rg) => match view_plate h p with Some v => Some (VSlice v rg) | None => None end
  | _ => None
  end.

(* ---- printing for the correspondence check: per call the outcome and the values returned, at the end the
   identity structure of everything reachable from the variables (first-visit numbering, depth first) *)
Definition showView (v : view) : list Z :=
  match v with
  | VCont c _ => 1%Z :: showContainer c
  | VPlate nm nr nc ws => 2%Z :: showPlate {| pname := nm; nrows := nr; ncols := nc; wells := map fst ws |}
  | VSlice _ rg => [3%Z]
  end.
Definition showRes (h : heap) (r : result (list addr)) : list Z :=
  match r with
  | Err e => [0%Z; err_code e]
  | Ok l => 1%Z :: Z.of_nat (length l) ::
            flat_map (fun a => match observe h a with Some v => showView v | None => [(-1)%Z] end) l
  end.
Definition children (h : heap) (a : addr) : list addr :=
  match nth_error h a with
  | Some (CPlate _ _ _ arr) => [arr]
  | Some (CArr ws) => ws
  | Some (CSlice p _) => [p]
  | _ => []
  end.
(* depth-first numbering; [seen] is the list of addresses in order of first visit *)
Fixpoint visit (fuel : nat) (h : heap) (a : addr) (st : list addr * list Z) : list addr * list Z :=
  let '(seen, out) := st in
  match find (fun p => Nat.eqb (fst p) a) (combine seen (seq 0 (length seen))) with
  | Some (_, k) => (seen, Z.of_nat k :: out)
  | None =>
      let st' := (seen ++ [a], Z.of_nat (length seen) :: out) in
      match fuel with
      | O => st'
      | S f => fold_left (fun s c => visit f h c s) (children h a) st'
      end
  end.
Definition showGraph (h : heap) (vars : list addr) : list Z :=
  rev (snd (fold_left (fun s a => visit 4 h a s) vars ([], []))).

(* results are shown in the heap as it is right after the call *)
Fixpoint showSteps (cf : cfg) (vars : list addr) (h : heap) (ops : list hop) : list Z * list addr * heap :=
  match ops with
  | [] => ([], vars, h)
  | o :: t =>
      let '(r, h') := hstep cf vars o h in
      let vars' := match r with Ok l => vars ++ l | Err _ => vars end in
      let '(zs, vf, hf) := showSteps cf vars' h' t in (showRes h' r ++ zs, vf, hf)
  end.
Definition showHeapRun (cf : cfg) (ops : list hop) : list Z :=
  let '(zs, vf, hf) := showSteps cf [] [] ops in zs ++ [(-7)%Z] ++ showGraph hf vf.
