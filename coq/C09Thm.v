(* C09Thm.v -- get_substance_used = net gain of the destinations over the timeframe + what remove steps discarded.
   The query (Recipe.substance_used / used_raw) sums, over the snapshots of the timeframe, the before/after difference
   of the step's destination and source when they are among the requested destinations, plus the step's trash, and it
   SKIPS every step whose substances_used does not contain the substance.  The theorem relates that sum to the
   name -> object table before and after the timeframe.  Ingredients:
     A. frame (RecipeThm.bake_step_frame): a step changes only its own two objects -> telescoping over the table;
     B. the filter is sound: a step that does not list the substance does not change its amount anywhere;
     C. a transfer inside one plate (source = destination object, counted twice by the query) conserves the substance. *)
Require Import Base Units UnitsThm Contents Container ContainerThm ContainerThm2 Dilute Solve SolveThm Plate PlateThm Prog HistoryThm Recipe RecipeThm.
Require Import Lia.

(* ---------- amounts in the table ---------- *)
Definition amt (s : substance) (e : renv) (n : nat) : Q :=
  match rget n e with Some o => amount_in_obj s o | None => 0 end.
Definition dest_total (s : substance) (dests : list nat) (e : renv) : Q := Qsum (map (amt s e) dests).
Definition trash_total (s : substance) (tr : list snap) : Q := Qsum (map (fun k => get s (s_trash k)) tr).

(* the query without the substances_used filter *)
Definition delta0 (s : substance) (dests : list nat) (k : snap) : Q :=
  (if in_list (s_to k) dests then amount_in_obj s (s_to1 k) - amount_in_obj s (s_to0 k) else 0) +
  (match s_frm k with
   | Some (n, o0, o1) => if in_list n dests then amount_in_obj s o1 - amount_in_obj s o0 else 0
   | None => 0
   end) + get s (s_trash k).
Lemma step_delta_filter s dests k :
  step_delta s dests k = if has_subst s (s_subs k) then delta0 s dests k else 0.
Proof. unfold step_delta, delta0. destruct (has_subst s (s_subs k)); reflexivity. Qed.

(* ---------- sums of indicators over duplicate-free lists ---------- *)
Lemma in_list_In n l : in_list n l = true <-> In n l.
Proof.
  unfold in_list. rewrite existsb_exists. split.
  - intros [x [Hx E]]. apply Nat.eqb_eq in E. subst. exact Hx.
  - intros H. exists n. split; [exact H | apply Nat.eqb_refl].
Qed.
Lemma Qsum_indicator (a : nat) (x : Q) l : NoDup l ->
  Qsum (map (fun m => if Nat.eqb m a then x else 0) l) == if in_list a l then x else 0.
Proof.
  induction 1 as [|m l Hni Hnd IH]; simpl; [reflexivity|].
  rewrite IH. rewrite (Nat.eqb_sym a m). destruct (Nat.eqb m a) eqn:E; simpl.
  - apply Nat.eqb_eq in E. subst m. destruct (in_list a l) eqn:E2; [apply in_list_In in E2; contradiction | ring].
  - ring.
Qed.
Lemma Qsum_plus {A} (f g : A -> Q) l : Qsum (map (fun x => f x + g x) l) == Qsum (map f l) + Qsum (map g l).
Proof. induction l as [|x t IH]; simpl; [ring | rewrite IH; ring]. Qed.

(* ---------- A: one step, over the table ---------- *)
Lemma step_telescopes s dests e e' k :
  frame_ok e e' k -> NoDup dests ->
  (frm_name k = Some (s_to k) -> amount_in_obj s (s_to1 k) == amount_in_obj s (s_to0 k)) ->
  dest_total s dests e' - dest_total s dests e == delta0 s dests k - get s (s_trash k).
Proof.
  intros (Hto0 & Hto1 & Hfrm & Hother & _ & _) Hnd Hsame. unfold dest_total, delta0.
  set (X := amount_in_obj s (s_to1 k) - amount_in_obj s (s_to0 k)).
  destruct (s_frm k) as [[[n o0] o1]|] eqn:Ef.
  - destruct (Hfrm n o0 o1 eq_refl) as [Hn0 Hn1]. set (Y := amount_in_obj s o1 - amount_in_obj s o0).
    assert (Hpt : forall m, amt s e' m - amt s e m ==
                  (if Nat.eqb m (s_to k) then X else 0) + (if Nat.eqb m n then (if Nat.eqb n (s_to k) then 0 else Y) else 0)).
    { intros m. unfold amt. destruct (Nat.eqb m (s_to k)) eqn:E1.
      - apply Nat.eqb_eq in E1. subst m. rewrite Hto0, Hto1. destruct (Nat.eqb (s_to k) n) eqn:E2.
        + rewrite Nat.eqb_sym, E2. unfold X. ring.
        + unfold X. ring.
      - apply Nat.eqb_neq in E1. destruct (Nat.eqb m n) eqn:E2.
        + apply Nat.eqb_eq in E2. subst m. rewrite Hn0, Hn1.
          destruct (Nat.eqb n (s_to k)) eqn:E3; [apply Nat.eqb_eq in E3; contradiction|]. unfold Y. ring.
        + apply Nat.eqb_neq in E2. rewrite (Hother m E1); [destruct (rget m e); ring|].
          unfold frm_name. rewrite Ef. intros H; inversion H; subst; contradiction. }
    assert (Hs : Qsum (map (amt s e') dests) - Qsum (map (amt s e) dests) ==
                 Qsum (map (fun m => amt s e' m - amt s e m) dests)).
    { clear. induction dests as [|m t IH]; simpl; [ring|]. rewrite <- IH. ring. }
    rewrite Hs. rewrite (Qsum_ext _ _ _ (fun m _ => Hpt m)). rewrite Qsum_plus.
    rewrite (Qsum_indicator (s_to k) X dests Hnd).
    rewrite (Qsum_indicator n (if Nat.eqb n (s_to k) then 0 else Y) dests Hnd).
    destruct (Nat.eqb n (s_to k)) eqn:E3.
    + apply Nat.eqb_eq in E3. subst n. rewrite Hto0 in Hn0. rewrite Hto1 in Hn1. inversion Hn0; inversion Hn1; subst o0 o1.
      assert (X == 0). { unfold X. rewrite Hsame; [ring|]. unfold frm_name. rewrite Ef. reflexivity. }
      unfold X, Y in *. clear Hpt Hs Hsame. destruct (in_list (s_to k) dests); lra.
    + destruct (in_list (s_to k) dests), (in_list n dests); unfold Y; ring.
  - assert (Hpt : forall m, amt s e' m - amt s e m == (if Nat.eqb m (s_to k) then X else 0)).
    { intros m. unfold amt. destruct (Nat.eqb m (s_to k)) eqn:E1.
      - apply Nat.eqb_eq in E1. subst m. rewrite Hto0, Hto1. unfold X. ring.
      - apply Nat.eqb_neq in E1. rewrite (Hother m E1); [destruct (rget m e); ring|].
        unfold frm_name. rewrite Ef. discriminate. }
    assert (Hs : Qsum (map (amt s e') dests) - Qsum (map (amt s e) dests) ==
                 Qsum (map (fun m => amt s e' m - amt s e m) dests)).
    { clear. induction dests as [|m t IH]; simpl; [ring|]. rewrite <- IH. ring. }
    rewrite Hs. rewrite (Qsum_ext _ _ _ (fun m _ => Hpt m)).
    rewrite (Qsum_indicator (s_to k) X dests Hnd). destruct (in_list (s_to k) dests); ring.
Qed.

(* ---------- B, containers: a transfer does not touch a substance the source does not hold ---------- *)
Lemma In_keys_upd x s v c : In x (keys c) -> In x (keys (upd s v c)).
Proof.
  intros H. destruct (in_dec subst_eq_dec s (keys c)) as [Hs|Hs].
  - rewrite keys_upd_in by exact Hs. exact H.
  - rewrite keys_upd_notin by exact Hs. apply in_or_app. left. exact H.
Qed.
Lemma In_keys_upd_self s v c : In s (keys (upd s v c)).
Proof.
  destruct (in_dec subst_eq_dec s (keys c)) as [Hs|Hs].
  - rewrite keys_upd_in by exact Hs. exact Hs.
  - rewrite keys_upd_notin by exact Hs. apply in_or_app. right. left. reflexivity.
Qed.
Lemma keys_move_dst x r src : forall dst, In x (keys dst) -> In x (keys (move_into r src dst)).
Proof.
  unfold move_into. induction src as [|[s a] t IH]; intros dst H; simpl; [exact H|].
  apply IH. apply In_keys_upd. exact H.
Qed.
Lemma keys_move_src x r src : forall dst, In x (keys src) -> In x (keys (move_into r src dst)).
Proof.
  unfold move_into. induction src as [|[s a] t IH]; intros dst H; simpl in *; [contradiction|].
  destruct H as [<-|H].
  - apply (keys_move_dst _ r t). apply In_keys_upd_self.
  - apply IH. exact H.
Qed.

Definition absent (s : substance) (c : container) : Prop := get s (cont c) == 0.
Lemma notin_absent s c : ~ In s (keys (cont c)) -> absent s c.
Proof. intros H. unfold absent. rewrite get_notin by exact H. reflexivity. Qed.
Lemma has_subst_false s l : has_subst s l = false -> ~ In s l.
Proof.
  unfold has_subst. intros H Hin. assert (existsb (seqb s) l = true); [|congruence].
  apply existsb_exists. exists s. split; [exact Hin | apply seqb_refl].
Qed.

Lemma transfer_absent cf src dst q s' d' s :
  wfc (cont src) -> transfer cf src dst q = Ok (s', d') -> absent s src ->
  absent s s' /\ get s (cont d') == get s (cont dst).
Proof.
  intros Hwf H Ha. destruct (transfer_uniform cf src dst q s' d' Hwf H) as (r & _ & _ & Hk).
  destruct (Hk s) as [H1 H2]. unfold absent in *. rewrite H1, H2, Ha. split; ring.
Qed.
(* the destination lists every key of the source: a substance missing in the destination afterwards was not in the source *)
Lemma transfer_dst_keys cf src dst q s' d' s :
  transfer cf src dst q = Ok (s', d') -> ~ In s (keys (cont d')) -> ~ In s (keys (cont src)).
Proof.
  intros H Hn Hin. apply transfer_ok in H. destruct H as (r & _ & _ & _ & _ & -> & _). simpl in Hn.
  apply Hn. apply keys_move_src. exact Hin.
Qed.

(* ---------- B, plates ---------- *)
Section AbsentFolds.
Variable cf : cfg.
Variable q : qty.
Variable s : substance.
Let g := cget s.

(* the accumulator is the source (container -> wells, one well -> many wells): it never acquires the substance, and no well gains any *)
Lemma fold_src_acc idxs : forall src ws src' ws',
  Inv cf src -> Forall (Inv cf) ws -> g src == 0 ->
  fold_wells (fun a w => transfer cf a w q) idxs src ws = Ok (src', ws') ->
  g src' == 0 /\ wsum g ws' == wsum g ws.
Proof.
  intros src ws src' ws' Is Iw H0 H.
  pose proof (fold_wells_conserve (fun a w => transfer cf a w q) (fun a => Inv cf a /\ g a == 0) (Inv cf) (fun _ => 0) g) as C.
  pose proof (fold_wells_pres (fun a w => transfer cf a w q) (fun a => Inv cf a /\ g a == 0) (Inv cf)) as P.
  assert (Hstep : forall a w a' w', (Inv cf a /\ g a == 0) -> Inv cf w -> transfer cf a w q = Ok (a', w') ->
                  (Inv cf a' /\ g a' == 0) /\ Inv cf w' /\ g w' == g w).
  { intros a w a' w' [Ia Ha] Iw' Ht. destruct (transfer_inv _ _ _ _ _ _ Ia Iw' Ht) as [Ia' Iw''].
    destruct (transfer_absent cf a w q a' w' s (inv_wf _ _ Ia) Ht Ha) as [A1 A2]. split; [split; [exact Ia' | exact A1] | split; [exact Iw'' | exact A2]]. }
  assert (HP : forall a w a' w', (Inv cf a /\ g a == 0) -> Inv cf w -> transfer cf a w q = Ok (a', w') -> (Inv cf a' /\ g a' == 0) /\ Inv cf w').
  { intros a w a' w' Ha Hw Ht. destruct (Hstep _ _ _ _ Ha Hw Ht) as (X & Y & _). auto. }
  assert (HC : forall a w a' w', (Inv cf a /\ g a == 0) -> Inv cf w -> transfer cf a w q = Ok (a', w') ->
               (Inv cf a' /\ g a' == 0) /\ Inv cf w' /\ 0 + g w' == 0 + g w).
  { intros a w a' w' Ha Hw Ht. destruct (Hstep _ _ _ _ Ha Hw Ht) as (X & Y & Z). split; [exact X | split; [exact Y | lra]]. }
  destruct (P HP _ _ _ _ _ (conj Is H0) Iw H) as [[_ R] _].
  pose proof (C HC _ _ _ _ _ (conj Is H0) Iw H) as R2. cbv beta in R2. split; [exact R | lra].
Qed.

(* the visited wells are the sources (wells -> container, many wells -> one well): the accumulator gains nothing *)
Lemma fold_src_wells idxs0 : forall idxs dst ws dst' ws',
  (forall i, In i idxs -> In i idxs0) ->
  Inv cf dst -> Forall (Inv cf) ws -> (forall i w, In i idxs0 -> nth_error ws i = Some w -> g w == 0) ->
  fold_wells (fun d w => do sd <- transfer cf w d q; Ok (snd sd, fst sd)) idxs dst ws = Ok (dst', ws') ->
  g dst' == g dst.
Proof.
  induction idxs as [|i t IH]; intros dst ws dst' ws' Hsub Id Iw H0 H.
  - simpl in H. inversion H; subst. reflexivity.
  - rewrite fold_wells_cons in H. destruct (nth_error ws i) as [w|] eqn:E; [|discriminate].
    unfold bind in H. destruct (transfer cf w dst q) as [[w1 d1]|] eqn:Et; [|discriminate]. simpl in H.
    pose proof (Forall_nth_error _ _ _ _ Iw E) as Iw0.
    destruct (transfer_inv _ _ _ _ _ _ Iw0 Id Et) as [Iw1 Id1].
    assert (Hw0 : g w == 0) by (apply (H0 i w); [apply Hsub; left; reflexivity | exact E]).
    destruct (transfer_absent cf w dst q w1 d1 s (inv_wf _ _ Iw0) Et Hw0) as [A1 A2].
    apply IH in H; [| intros j Hj; apply Hsub; right; exact Hj | exact Id1 | apply Forall_set_nth; assumption |].
    + rewrite H. exact A2.
    + intros j w' Hj Ej. destruct (Nat.eq_dec i j) as [<-|Hne].
      * rewrite nth_error_set_nth_same in Ej by (eapply nth_error_lt; eassumption). inversion Ej; subst. exact A1.
      * rewrite nth_error_set_nth_other in Ej by exact Hne. eapply H0; eassumption.
Qed.

(* element-wise pairs: the wells on the source side lack the substance, so no destination well gains any *)
Lemma pair_wells_absent idxs0 : forall pairs ss ds ss' ds',
  (forall i, In i (map fst pairs) -> In i idxs0) ->
  Forall (Inv cf) ss -> Forall (Inv cf) ds -> (forall i w, In i idxs0 -> nth_error ss i = Some w -> g w == 0) ->
  pair_wells cf q pairs ss ds = Ok (ss', ds') -> wsum g ds' == wsum g ds.
Proof.
  induction pairs as [|[i j] t IH]; intros ss ds ss' ds' Hsub Is Id H0 H.
  - simpl in H. inversion H; subst. reflexivity.
  - simpl in H. destruct (nth_error ss i) as [a|] eqn:Ea; [|discriminate].
    destruct (nth_error ds j) as [b|] eqn:Eb; [|discriminate]. unfold bind in H.
    destruct (transfer cf a b q) as [[a1 b1]|] eqn:Et; [|discriminate]. simpl in H.
    pose proof (Forall_nth_error _ _ _ _ Is Ea) as Ia. pose proof (Forall_nth_error _ _ _ _ Id Eb) as Ib.
    destruct (transfer_inv _ _ _ _ _ _ Ia Ib Et) as [Ia1 Ib1].
    assert (Ha0 : g a == 0) by (apply (H0 i a); [apply Hsub; left; reflexivity | exact Ea]).
    destruct (transfer_absent cf a b q a1 b1 s (inv_wf _ _ Ia) Et Ha0) as [A1 A2].
    apply IH in H; [| intros x Hx; apply Hsub; right; exact Hx | apply Forall_set_nth; assumption | apply Forall_set_nth; assumption |].
    + rewrite H. rewrite (wsum_set_nth g j b b1 ds Eb). unfold g, cget in *. lra.
    + intros x w' Hx Ex. destruct (Nat.eq_dec i x) as [<-|Hne].
      * rewrite nth_error_set_nth_same in Ex by (eapply nth_error_lt; eassumption). inversion Ex; subst. exact A1.
      * rewrite nth_error_set_nth_other in Ex by exact Hne. eapply H0; eassumption.
Qed.
End AbsentFolds.

(* every well addressed by a region lacks a substance that is not among the region's keys *)
Lemma region_absent s p r : ~ In s (region_keys p r) ->
  forall i w, In i (region_idx (ncols p) r) -> nth_error (wells p) i = Some w -> cget s w == 0.
Proof.
  intros Hn i w Hi Ew. unfold cget. rewrite get_notin; [reflexivity|]. intros Hin. apply Hn. unfold region_keys.
  apply in_flat_map. exists i. split; [exact Hi|]. rewrite Ew. exact Hin.
Qed.

(* sums over two well lists that agree pointwise *)
Lemma wsum_pointwise g : forall ws ws' : list container, length ws' = length ws ->
  (forall j w w', nth_error ws j = Some w -> nth_error ws' j = Some w' -> g w' == g w) -> wsum g ws' == wsum g ws.
Proof.
  unfold wsum. induction ws as [|w t IH]; intros [|w' t'] Hl H; simpl in *; try discriminate; [reflexivity|].
  rewrite (H O w w' eq_refl eq_refl). rewrite (IH t'); [reflexivity | lia |].
  intros j a a' Ea Ea'. exact (H (S j) a a' Ea Ea').
Qed.

(* ---------- trash ---------- *)
Definition trash_inner (a : container) (cb : contents) (t : contents) : contents :=
  fold_left (fun t' sa => if has (fst sa) (cont a) then t' else upd (fst sa) (get (fst sa) t' + snd sa) t') cb t.
Lemma trash_of_unfold bs as_ :
  trash_of bs as_ = fold_left (fun t p => trash_inner (snd p) (cont (fst p)) t) (combine bs as_) [].
Proof. reflexivity. Qed.
Lemma trash_inner_mono x a cb : forall t, In x (keys t) -> In x (keys (trash_inner a cb t)).
Proof.
  unfold trash_inner. induction cb as [|[k v] cb IH]; intros t H; simpl; [exact H|].
  apply IH. destruct (has k (cont a)); [exact H | apply In_keys_upd; exact H].
Qed.
Lemma trash_inner_adds x a cb : has x (cont a) = false -> In x (keys cb) -> forall t, In x (keys (trash_inner a cb t)).
Proof.
  intros Ha. unfold trash_inner. induction cb as [|[k v] cb IH]; intros Hin t; simpl in *; [contradiction|].
  destruct Hin as [<-|Hin].
  - rewrite Ha. apply (trash_inner_mono _ a cb). apply In_keys_upd_self.
  - apply IH. exact Hin.
Qed.
Lemma trash_keys x bs as_ b a :
  In (b, a) (combine bs as_) -> In x (keys (cont b)) -> has x (cont a) = false -> In x (keys (trash_of bs as_)).
Proof.
  rewrite trash_of_unfold. generalize (@nil (substance * Q)) as t. induction (combine bs as_) as [|[b0 a0] l IH]; intros t Hin Hx Ha; [contradiction|].
  simpl. destruct Hin as [E|Hin].
  - inversion E; subst. clear IH.
    assert (H1 : In x (keys (trash_inner a (cont b) t))) by (apply trash_inner_adds; assumption).
    revert H1. generalize (trash_inner a (cont b) t). induction l as [|[b1 a1] l IH]; intros t1 H1; simpl; [exact H1|].
    apply IH. apply trash_inner_mono. exact H1.
  - apply IH; assumption.
Qed.
Lemma nth_error_combine {A B} (la : list A) (lb : list B) : forall j a b,
  nth_error la j = Some a -> nth_error lb j = Some b -> In (a, b) (combine la lb).
Proof.
  revert lb. induction la as [|x la IH]; intros [|y lb] [|j] a b Ha Hb; simpl in *; try discriminate.
  - inversion Ha; inversion Hb; subst. left. reflexivity.
  - right. eapply IH; eassumption.
Qed.

(* ---------- B for remove: a substance that is not in the step's trash kept its amount in every well ---------- *)
Lemma keys_filter_P (P : substance -> bool) x c : In x (keys (filter (fun p => P (fst p)) c)) -> P x = true.
Proof.
  unfold keys. rewrite in_map_iff. intros [[k v] [E Hin]]. simpl in E. subst k. apply filter_In in Hin. apply Hin.
Qed.
Lemma remove_selected_absent cf c w s : selected w s = true -> has s (cont (remove cf c w)) = false.
Proof.
  intros Hs. destruct (has s (cont (remove cf c w))) eqn:E; [|reflexivity]. apply has_in in E. simpl in E.
  apply (keys_filter_P (fun x => negb (selected w x))) in E. rewrite Hs in E. discriminate.
Qed.
Lemma remove_unselected cf c w s : selected w s = false -> get s (cont (remove cf c w)) = get s (cont c).
Proof. intros Hs. simpl. rewrite (get_filter s (fun x => negb (selected w x))). rewrite Hs. reflexivity. Qed.

Lemma remove_filter_sound_c cf c w s :
  ~ In s (keys (trash_of [c] [remove cf c w])) -> get s (cont (remove cf c w)) == get s (cont c).
Proof.
  intros Hn. destruct (selected w s) eqn:Hs.
  - assert (Ha : ~ In s (keys (cont c))).
    { intros Hin. apply Hn. apply (trash_keys s [c] [remove cf c w] c (remove cf c w)); [left; reflexivity | exact Hin|].
      apply remove_selected_absent. exact Hs. }
    rewrite (get_notin _ _ Ha). rewrite get_notin; [reflexivity|]. intros Hin. apply has_in in Hin.
    rewrite remove_selected_absent in Hin by exact Hs. discriminate.
  - rewrite remove_unselected by exact Hs. reflexivity.
Qed.

(* wells written by a loop end in a state every step's output has and every step keeps *)
Lemma fold_visited {A} (f : A -> container -> result (A * container)) (Pw : container -> Prop) :
  (forall a w a' w', f a w = Ok (a', w') -> Pw w') ->
  forall idxs a ws a' ws', fold_wells f idxs a ws = Ok (a', ws') ->
  forall i w', In i idxs -> nth_error ws' i = Some w' -> Pw w'.
Proof.
  intros Hf. induction idxs as [|i0 t IH]; intros a ws a' ws' H i w' Hin Ew; [contradiction|].
  rewrite fold_wells_cons in H. destruct (nth_error ws i0) as [w|] eqn:E; [|discriminate].
  unfold bind in H. destruct (f a w) as [[a1 w1]|] eqn:Ef; [|discriminate]. simpl in H.
  destruct (in_dec Nat.eq_dec i t) as [Hit|Hit].
  - eapply IH; eassumption.
  - destruct Hin as [<-|Hin]; [|contradiction].
    destruct (fold_wells_frame f _ _ _ _ _ H) as [_ Hfr]. rewrite (Hfr i0 Hit) in Ew.
    rewrite nth_error_set_nth_same in Ew by (eapply nth_error_lt; eassumption). inversion Ew; subst. eapply Hf; eassumption.
Qed.

Lemma premove_filter_sound cf p r w p' s :
  premove cf p r w = Ok p' -> ~ In s (keys (trash_of (wells p) (wells p'))) ->
  wsum (cget s) (wells p') == wsum (cget s) (wells p).
Proof.
  intros H Hn. pose proof H as H0. unfold premove in H. apply nonempty_ok in H. destruct H as [H _]. unfold bind in H.
  destruct (apply_wells _ _ (wells p)) as [ws|] eqn:E; [|discriminate]. inversion H; subst p'; simpl in *. clear H.
  destruct (apply_wells_spec _ _ _ _ E) as (Hl & Hfr & _).
  destruct (selected w s) eqn:Hs.
  - (* selected: every addressed well ends without s; had one held s before, it would be in the trash *)
    apply wsum_pointwise; [exact Hl|]. intros j b a Eb Ea.
    destruct (in_dec Nat.eq_dec j (region_idx (ncols p) r)) as [Hj|Hj].
    + assert (Pa : has s (cont a) = false).
      { unfold apply_wells, bind in E.
        destruct (fold_wells _ (region_idx (ncols p) r) tt (wells p)) as [[u ws1]|] eqn:E1; [|discriminate]. simpl in E. inversion E; subst ws1.
        eapply (fold_visited _ (fun x => has s (cont x) = false)); [| exact E1 | exact Hj | exact Ea].
        intros u0 w0 u1 w1 Hf. simpl in Hf. inversion Hf; subst. apply remove_selected_absent. exact Hs. }
      assert (Pb : ~ In s (keys (cont b))).
      { intros Hin. apply Hn. eapply trash_keys; [eapply nth_error_combine; eassumption | exact Hin | exact Pa]. }
      unfold cget. rewrite (get_notin _ _ Pb). rewrite get_notin; [reflexivity|]. intros Hin. apply has_in in Hin. congruence.
    + rewrite (Hfr j Hj) in Ea. rewrite Eb in Ea. inversion Ea; subst. reflexivity.
  - (* not selected: no remove touches it *)
    unfold apply_wells, bind in E.
    destruct (fold_wells _ (region_idx (ncols p) r) tt (wells p)) as [[u ws1]|] eqn:E1; [|discriminate]. simpl in E. inversion E; subst ws1.
    pose proof (fold_wells_conserve (fun (_ : unit) (w0 : container) => Ok (tt, remove cf w0 w)) (fun _ : unit => True) (fun _ => True) (fun _ => 0) (cget s)) as C.
    assert (HC : forall (a : unit) (w0 : container) (a' : unit) (w' : container), True -> True -> Ok (tt, remove cf w0 w) = Ok (a', w') ->
                 True /\ True /\ 0 + cget s w' == 0 + cget s w0).
    { intros u0 w0 u1 w1 _ _ Hf. inversion Hf; subst. split; [exact I|]. split; [exact I|].
      unfold cget. rewrite remove_unselected by exact Hs. reflexivity. }
    pose proof (C HC _ _ _ _ _ I (proj2 (Forall_forall _ _) (fun _ _ => I)) E1) as R. cbv beta in R. lra.
Qed.

(* ---------- B for fill_to / dilute: only the solvent changes ---------- *)
Lemma apply_wells_conserve f g idxs ws ws' :
  (forall w w', f w = Ok w' -> g w' == g w) -> apply_wells f idxs ws = Ok ws' -> wsum g ws' == wsum g ws.
Proof.
  intros Hf E. unfold apply_wells, bind in E.
  destruct (fold_wells _ idxs tt ws) as [[u ws1]|] eqn:E1; [|discriminate]. simpl in E. inversion E; subst ws1.
  pose proof (fold_wells_conserve (fun (_ : unit) (w : container) => do w' <- f w; Ok (tt, w')) (fun _ : unit => True) (fun _ => True) (fun _ => 0) g) as C.
  assert (HC : forall (a : unit) (w0 : container) (a' : unit) (w' : container), True -> True ->
               (do w1 <- f w0; Ok (tt, w1)) = Ok (a', w') -> True /\ True /\ 0 + g w' == 0 + g w0).
  { intros u0 w0 u1 w1 _ _ H. unfold bind in H. destruct (f w0) as [x|] eqn:Ex; [|discriminate]. inversion H; subst.
    split; [exact I|]. split; [exact I|]. rewrite (Hf _ _ Ex). reflexivity. }
  pose proof (C HC _ _ _ _ _ I (proj2 (Forall_forall _ _) (fun _ _ => I)) E1) as R. cbv beta in R. lra.
Qed.
Lemma fill_to_other cf c solvent q c' s : fill_to cf c solvent q = Ok c' -> s <> solvent -> get s (cont c') = get s (cont c).
Proof.
  intros H Hs. apply fill_to_ok in H. destruct H as (_ & _ & _ & Hadd).
  destruct (self_add_contents _ _ _ _ _ Hadd) as (Hk & _). apply Hk. exact Hs.
Qed.
Lemma dilute_other cf c solute t solvent c' s : dilute cf c solute t solvent = Ok c' -> s <> solvent -> get s (cont c') = get s (cont c).
Proof.
  unfold dilute. cbv zeta. intros H Hs. revert H.
  repeat match goal with
  | |- context [if ?b then Err _ else _] => destruct b; [discriminate|]
  | |- context [if ?b then Ok c else _] => destruct b; [intros H; inversion H; subst; reflexivity|]
  | |- context [match ?x with Some _ => _ | None => Err _ end] => destruct x; [|discriminate]
  end.
  intros Hadd. destruct (self_add_contents _ _ _ _ _ Hadd) as (Hk & _). apply Hk. exact Hs.
Qed.
Lemma pfill_other cf p r solvent q p' s : pfill_to cf p r solvent q = Ok p' -> s <> solvent ->
  wsum (cget s) (wells p') == wsum (cget s) (wells p).
Proof.
  intros H Hs. unfold pfill_to in H. apply nonempty_ok in H. destruct H as [H _]. unfold bind in H.
  destruct (apply_wells _ _ (wells p)) as [ws|] eqn:E; [|discriminate]. inversion H; subst p'; simpl.
  eapply apply_wells_conserve; [|exact E]. intros w w' Hf. unfold cget. rewrite (fill_to_other _ _ _ _ _ _ Hf Hs). reflexivity.
Qed.
Lemma has_subst_single s x : has_subst s [x] = false -> s <> x.
Proof. intros H E. subst. simpl in H. rewrite seqb_refl in H. discriminate. Qed.

(* ---------- the table's invariant ---------- *)
Definition renv_inv (cf : cfg) (e : renv) : Prop := forall n o, rget n e = Some o -> obj_inv cf o.
Lemma rset_inv cf e n o : renv_inv cf e -> obj_inv cf o -> renv_inv cf (rset n o e).
Proof.
  intros He Ho m x H. destruct (Nat.eq_dec n m) as [<-|Hne].
  - rewrite rget_rset_same in H. inversion H; subst. exact Ho.
  - rewrite rget_rset_other in H by exact Hne. eapply He; eassumption.
Qed.
Lemma getc_inv cf e n c : renv_inv cf e -> getc e n = Ok c -> Inv cf c.
Proof. intros He H. apply getc_some in H. exact (He _ _ H). Qed.
Lemma getp_inv cf e n p : renv_inv cf e -> getp e n = Ok p -> PInv cf p.
Proof. intros He H. apply getp_some in H. exact (He _ _ H). Qed.

Definition wf_rstep (st : rstep) : Prop :=
  match st with
  | SCreate _ _ init => Forall (fun p => wf_subst (fst p)) init
  | SSolution _ ss sv _ => Forall wf_subst ss /\ wf_subst sv
  | SSolutionC _ ss _ _ => Forall wf_subst ss
  | SSolutionFrom _ _ _ _ sv _ => wf_subst sv
  | SDilute _ _ _ sv => wf_subst sv
  | SFill _ sv _ => wf_subst sv
  | _ => True
  end.
(* the name a step creates still holds its empty placeholder when the step runs (the API hands the name out only
   when the step is added, so no earlier step can have used it) *)
Definition step_fresh (e : renv) (st : rstep) : Prop :=
  match step_declares st with Some n => rget n e = Some (placeholder n) | None => True end.

Lemma amount_c s c : amount_in_obj s (OC c) == get s (cont c).
Proof. unfold amount_in_obj. simpl. ring. Qed.
Lemma amount_p s p : amount_in_obj s (OP p) = wsum (cget s) (wells p).
Proof. reflexivity. Qed.
Lemma amount_placeholder s n : amount_in_obj s (placeholder n) == 0.
Proof. unfold amount_in_obj, placeholder. simpl. ring. Qed.

Definition unchanged (s : substance) (k : snap) : Prop :=
  amount_in_obj s (s_to1 k) == amount_in_obj s (s_to0 k) /\
  (forall n o0 o1, s_frm k = Some (n, o0, o1) -> amount_in_obj s o1 == amount_in_obj s o0) /\
  get s (s_trash k) == 0.

Definition facts (cf : cfg) (s : substance) (e' : renv) (k : snap) : Prop :=
  renv_inv cf e' /\
  (frm_name k = Some (s_to k) -> amount_in_obj s (s_to1 k) == amount_in_obj s (s_to0 k)) /\
  (has_subst s (s_subs k) = false -> unchanged s k).

Lemma get_nil s : get s [] == 0. Proof. reflexivity. Qed.

Theorem bake_step_facts cf d13 s e st e' k :
  renv_inv cf e -> wf_rstep st -> step_fresh e st -> bake_step cf d13 e st = Ok (e', k) -> facts cf s e' k.
Proof.
  intros He Hw Hfresh. unfold facts, unchanged.
  destruct st; simpl in Hw; unfold step_fresh in Hfresh; simpl in Hfresh; simpl; unfold bind.
  - (* create_container *)
    destruct (geto e name) as [o0|] eqn:E0; [|discriminate]. destruct (make_container _ _ _ _) as [c|] eqn:Ec; [|discriminate].
    intros H; inversion H; subst; clear H. cbn [s_to s_to0 s_to1 s_frm s_trash s_subs s_objs]. apply geto_some in E0. rewrite Hfresh in E0. inversion E0; subst o0.
    split; [apply rset_inv; [exact He | eapply make_container_inv; eassumption]|]. split; [discriminate|].
    intros Hs. apply has_subst_false in Hs. split; [|split; [discriminate | apply get_nil]].
    rewrite amount_c, amount_placeholder. rewrite get_notin by exact Hs. reflexivity.
  - (* create_solution, pure solvent *)
    destruct (geto e name) as [o0|] eqn:E0; [|discriminate]. destruct (create_solution _ _ _ _ _) as [c|] eqn:Ec; [|discriminate].
    intros H; inversion H; subst; clear H. cbn [s_to s_to0 s_to1 s_frm s_trash s_subs s_objs]. apply geto_some in E0. rewrite Hfresh in E0. inversion E0; subst o0.
    destruct Hw as [Hw1 Hw2].
    split; [apply rset_inv; [exact He | eapply create_solution_inv; eassumption]|]. split; [discriminate|].
    intros Hs. apply has_subst_false in Hs. split; [|split; [discriminate | apply get_nil]].
    rewrite amount_c, amount_placeholder. rewrite get_notin by exact Hs. reflexivity.
  - (* create_solution, container solvent *)
    destruct (Nat.eqb name solvent) eqn:En; [discriminate|]. apply Nat.eqb_neq in En.
    destruct (geto e name) as [o0|] eqn:E0; [|discriminate]. destruct (getc e solvent) as [kc|] eqn:E1; [|discriminate].
    destruct (create_solution_c _ _ _ _ _) as [[a b]|] eqn:Ec; [|discriminate]. intros H; inversion H; subst; clear H. cbn [s_to s_to0 s_to1 s_frm s_trash s_subs s_objs].
    apply geto_some in E0. rewrite Hfresh in E0. inversion E0; subst o0.
    pose proof (getc_inv _ _ _ _ He E1) as Ik.
    destruct (create_solution_c_inv _ _ _ _ _ _ _ Hw Ik Ec) as [Ia Ib].
    split; [apply rset_inv; [apply rset_inv; [exact He | exact Ia] | exact Ib]|].
    split; [unfold frm_name; simpl; intros H; inversion H; congruence|].
    intros Hs. apply has_subst_false in Hs.
    unfold create_solution_c, bind in Ec. destruct (fake_solvent cf kc); [|discriminate].
    destruct (solve_solution _ _ _); [|discriminate]. destruct (make_container _ _ _ _) as [res|]; [|discriminate].
    pose proof (transfer_dst_keys _ _ _ _ _ _ s Ec Hs) as Hk.
    destruct (transfer_absent _ _ _ _ _ _ s (inv_wf _ _ Ik) Ec (notin_absent _ _ Hk)) as [A1 _]. unfold absent in A1.
    split; [|split; [|apply get_nil]].
    + rewrite amount_c, amount_placeholder. rewrite get_notin by exact Hs. reflexivity.
    + intros n o0 o1 H; inversion H; subst. rewrite !amount_c. rewrite A1. rewrite (get_notin _ _ Hk). reflexivity.
  - (* create_solution_from *)
    destruct (Nat.eqb src name) eqn:En; [discriminate|]. apply Nat.eqb_neq in En.
    destruct (geto e name) as [o0|] eqn:E0; [|discriminate]. destruct (getc e src) as [kc|] eqn:E1; [|discriminate].
    destruct (create_solution_from _ _ _ _ _ _ _) as [[a b]|] eqn:Ec; [|discriminate]. intros H; inversion H; subst; clear H. cbn [s_to s_to0 s_to1 s_frm s_trash s_subs s_objs].
    apply geto_some in E0. rewrite Hfresh in E0. inversion E0; subst o0.
    pose proof (getc_inv _ _ _ _ He E1) as Ik.
    destruct (create_solution_from_inv _ _ _ _ _ _ _ _ _ Ik Hw Ec) as [Ia Ib].
    split; [apply rset_inv; [apply rset_inv; [exact He | exact Ia] | exact Ib]|].
    split; [unfold frm_name; simpl; intros H; inversion H; congruence|].
    intros Hs. apply has_subst_false in Hs.
    split; [|split; [|apply get_nil]].
    + rewrite amount_c, amount_placeholder. rewrite get_notin by exact Hs. reflexivity.
    + intros n o0 o1 H; inversion H; subst. rewrite !amount_c.
      revert Ec. unfold create_solution_from.
      repeat (match goal with |- context [if ?b then Err _ else _] => destruct b; [discriminate|] end).
      unfold bind. destruct (mix_of cf kc solute); [|discriminate]. destruct (csf_solve _ _ _ _ _) as [[x y]|]; [|discriminate]. simpl.
      destruct (if Qeqb y 0 then _ else _) as [new|]; [|discriminate].
      destruct (Qeqb x 0); [intros H0; inversion H0; subst; reflexivity|]. intros Ht.
      pose proof (transfer_dst_keys _ _ _ _ _ _ s Ht Hs) as Hk.
      destruct (transfer_absent _ _ _ _ _ _ s (inv_wf _ _ Ik) Ht (notin_absent _ _ Hk)) as [A1 _]. unfold absent in A1.
      rewrite A1. rewrite (get_notin _ _ Hk). reflexivity.
  - (* transfer *)
    destruct src as [a|a ra], dst as [b|b rb].
    + destruct (Nat.eqb a b) eqn:En; [discriminate|]. apply Nat.eqb_neq in En.
      destruct (getc e a) as [ca|] eqn:E1; [|discriminate]. destruct (getc e b) as [cb|] eqn:E2; [|discriminate].
      destruct (transfer cf ca cb q) as [[x y]|] eqn:Et; [|discriminate]. intros H; inversion H; subst; clear H. cbn [s_to s_to0 s_to1 s_frm s_trash s_subs s_objs].
      pose proof (getc_inv _ _ _ _ He E1) as Ia. pose proof (getc_inv _ _ _ _ He E2) as Ib.
      destruct (transfer_inv _ _ _ _ _ _ Ia Ib Et) as [Ix Iy].
      split; [apply rset_inv; [apply rset_inv; [exact He | exact Ix] | exact Iy]|].
      split; [unfold frm_name; simpl; intros H; inversion H; congruence|].
      intros Hs. apply has_subst_false in Hs.
      destruct (transfer_absent _ _ _ _ _ _ s (inv_wf _ _ Ia) Et (notin_absent _ _ Hs)) as [A1 A2]. unfold absent in A1.
      split; [|split; [|apply get_nil]].
      * rewrite !amount_c. exact A2.
      * intros n o0 o1 H; inversion H; subst. rewrite !amount_c. rewrite A1. rewrite (get_notin _ _ Hs). reflexivity.
    + destruct (getc e a) as [ca|] eqn:E1; [|discriminate]. destruct (getp e b) as [pb|] eqn:E2; [|discriminate].
      destruct (c_to_p cf ca pb rb q) as [[x y]|] eqn:Et; [|discriminate]. intros H; inversion H; subst; clear H. cbn [s_to s_to0 s_to1 s_frm s_trash s_subs s_objs].
      pose proof (getc_inv _ _ _ _ He E1) as Ia. pose proof (getp_inv _ _ _ _ He E2) as Ib.
      destruct (c_to_p_spec _ _ _ _ _ _ _ Ia Ib Et) as (_ & _ & _ & _ & _ & Ix & Iy & _).
      split; [apply rset_inv; [apply rset_inv; [exact He | exact Ix] | exact Iy]|].
      split. { unfold frm_name; simpl; intros H; inversion H; subst. apply getc_some in E1. apply getp_some in E2. congruence. }
      intros Hs. apply has_subst_false in Hs.
      unfold c_to_p in Et. apply nonempty_ok in Et. destruct Et as [Et _]. unfold bind in Et.
      destruct (fold_wells _ _ ca (wells pb)) as [[c1 ws]|] eqn:Ef; [|discriminate]. inversion Et; subst; clear Et.
      destruct (fold_src_acc cf q s _ _ _ _ _ Ia Ib (notin_absent _ _ Hs) Ef) as [B1 B2].
      split; [|split; [|apply get_nil]].
      * rewrite !amount_p. simpl. exact B2.
      * intros n o0 o1 H; inversion H; subst. rewrite !amount_c. unfold cget in B1. rewrite B1. rewrite (get_notin _ _ Hs). reflexivity.
    + destruct (getp e a) as [pa|] eqn:E1; [|discriminate]. destruct (getc e b) as [cb|] eqn:E2; [|discriminate].
      destruct (p_to_c cf pa ra cb q) as [[x y]|] eqn:Et; [|discriminate]. intros H; inversion H; subst; clear H. cbn [s_to s_to0 s_to1 s_frm s_trash s_subs s_objs].
      pose proof (getp_inv _ _ _ _ He E1) as Ia. pose proof (getc_inv _ _ _ _ He E2) as Ib.
      destruct (p_to_c_spec _ _ _ _ _ _ _ Ib Ia Et) as (Hcons & _ & _ & _ & _ & Iy & Ix & _).
      split; [apply rset_inv; [apply rset_inv; [exact He | exact Ix] | exact Iy]|].
      split. { unfold frm_name; simpl; intros H; inversion H; subst. apply getp_some in E1. apply getc_some in E2. congruence. }
      intros Hs. apply has_subst_false in Hs.
      assert (Hy : cget s y == cget s cb).
      { unfold p_to_c in Et. apply nonempty_ok in Et. destruct Et as [Et _]. unfold bind in Et.
        destruct (fold_wells _ _ cb (wells pa)) as [[c1 ws]|] eqn:Ef; [|discriminate]. inversion Et; subst; clear Et.
        eapply (fold_src_wells cf q s (region_idx (ncols pa) ra)); [| exact Ib | exact Ia | | exact Ef]; [auto|].
        apply region_absent. exact Hs. }
      split; [|split; [|apply get_nil]].
      * rewrite !amount_c. exact Hy.
      * intros n o0 o1 H; inversion H; subst. rewrite !amount_p. specialize (Hcons s). lra.
    + destruct (Nat.eqb a b) eqn:En.
      * destruct (getp e a) as [pa|] eqn:E1; [|discriminate]. destruct (p_to_p_same cf pa ra rb q) as [p'|] eqn:Et; [|discriminate].
        intros H; inversion H; subst; clear H. cbn [s_to s_to0 s_to1 s_frm s_trash s_subs s_objs].
        pose proof (getp_inv _ _ _ _ He E1) as Ia.
        destruct (p_to_p_same_spec _ _ _ _ _ _ Ia Et) as (Hcons & _ & Ip).
        split; [apply rset_inv; [exact He | exact Ip]|].
        split; [intros _; rewrite !amount_p; apply Hcons|].
        intros _. split; [rewrite !amount_p; apply Hcons|]. split; [|apply get_nil].
        intros n o0 o1 H; inversion H; subst. rewrite !amount_p; apply Hcons.
      * apply Nat.eqb_neq in En.
        destruct (getp e a) as [pa|] eqn:E1; [|discriminate]. destruct (getp e b) as [pb|] eqn:E2; [|discriminate].
        destruct (p_to_p cf pa ra pb rb q) as [[x y]|] eqn:Et; [|discriminate]. intros H; inversion H; subst; clear H. cbn [s_to s_to0 s_to1 s_frm s_trash s_subs s_objs].
        pose proof (getp_inv _ _ _ _ He E1) as Ia. pose proof (getp_inv _ _ _ _ He E2) as Ib.
        destruct (p_to_p_spec _ _ _ _ _ _ _ _ Ia Ib Et) as (Hcons & _ & _ & Ix & Iy).
        split; [apply rset_inv; [apply rset_inv; [exact He | exact Ix] | exact Iy]|].
        split; [unfold frm_name; simpl; intros H; inversion H; congruence|].
        intros Hs. apply has_subst_false in Hs. pose proof (region_absent _ _ _ Hs) as Habs.
        assert (Hy : wsum (cget s) (wells y) == wsum (cget s) (wells pb)).
        { unfold p_to_p in Et.
          destruct (region_idx (ncols pa) ra) as [|s0 st] eqn:Esi; [discriminate|].
          destruct (region_idx (ncols pb) rb) as [|d0 dt] eqn:Edi; [discriminate|].
          unfold bind in Et. destruct (dispatch ra rb _ _) as [pg|]; [|discriminate]. destruct pg.
          - destruct (nth_error (wells pa) s0) as [src|] eqn:Esrc; [|discriminate].
            destruct (fold_wells _ (d0 :: dt) src (wells pb)) as [[src' ws]|] eqn:Ef; [|discriminate]. inversion Et; subst; simpl; clear Et.
            eapply (fold_src_acc cf q s); [ | exact Ib | | exact Ef].
            + exact (Forall_nth_error _ _ _ _ Ia Esrc).
            + apply (Habs s0 src); [left; reflexivity | exact Esrc].
          - destruct (nth_error (wells pb) d0) as [dst|] eqn:Edst; [|discriminate].
            destruct (fold_wells _ (s0 :: st) dst (wells pa)) as [[dst' ws]|] eqn:Ef; [|discriminate]. inversion Et; subst; simpl; clear Et.
            rewrite (wsum_set_nth (cget s) d0 dst dst' _ Edst).
            assert (cget s dst' == cget s dst).
            { eapply (fold_src_wells cf q s (s0 :: st)); [| | exact Ia | exact Habs | exact Ef]; [auto|].
              exact (Forall_nth_error _ _ _ _ Ib Edst). }
            lra.
          - destruct (pair_wells cf q _ (wells pa) (wells pb)) as [[ss' ds']|] eqn:Ep; [|discriminate]. inversion Et; subst; simpl; clear Et.
            eapply (pair_wells_absent cf q s (s0 :: st)); [| exact Ia | exact Ib | exact Habs | exact Ep].
            intros i Hi. apply in_map_iff in Hi. destruct Hi as [[i' j'] [<- Hin]]. apply in_combine_both in Hin. apply Hin. }
        split; [|split; [|apply get_nil]].
        -- rewrite !amount_p. exact Hy.
        -- intros n o0 o1 H; inversion H; subst. rewrite !amount_p. specialize (Hcons s). lra.
  - (* remove *)
    destruct t as [n|n r].
    + destruct (getc e n) as [c|] eqn:E1; [|discriminate]. intros H; inversion H; subst; clear H. cbn [s_to s_to0 s_to1 s_frm s_trash s_subs s_objs].
      pose proof (getc_inv _ _ _ _ He E1) as Ic.
      split; [apply rset_inv; [exact He | apply remove_inv; exact Ic]|]. split; [discriminate|].
      intros Hs. apply has_subst_false in Hs. split; [|split; [discriminate | rewrite get_notin by exact Hs; reflexivity]].
      rewrite !amount_c. apply remove_filter_sound_c. exact Hs.
    + destruct (getp e n) as [p|] eqn:E1; [|discriminate]. destruct (premove cf p r w) as [p'|] eqn:Er; [|discriminate].
      intros H; inversion H; subst; clear H. cbn [s_to s_to0 s_to1 s_frm s_trash s_subs s_objs].
      pose proof (getp_inv _ _ _ _ He E1) as Ip.
      split; [apply rset_inv; [exact He | eapply premove_inv; eassumption]|]. split; [discriminate|].
      intros Hs. apply has_subst_false in Hs. split; [|split; [discriminate | rewrite get_notin by exact Hs; reflexivity]].
      rewrite !amount_p. eapply premove_filter_sound; eassumption.
  - (* dilute *)
    destruct (getc e name) as [c0|] eqn:E1; [|discriminate]. destruct (dilute _ _ _ _ _) as [c'|] eqn:Ed; [|discriminate].
    intros H; inversion H; subst; clear H. cbn [s_to s_to0 s_to1 s_frm s_trash s_subs s_objs].
    pose proof (getc_inv _ _ _ _ He E1) as Ic.
    split; [apply rset_inv; [exact He | eapply dilute_inv; eassumption]|]. split; [discriminate|].
    intros Hs. apply has_subst_single in Hs. split; [|split; [discriminate | apply get_nil]].
    rewrite !amount_c. rewrite (dilute_other _ _ _ _ _ _ _ Ed Hs). reflexivity.
  - (* fill_to *)
    destruct t as [n|n r].
    + destruct (getc e n) as [c|] eqn:E1; [|discriminate]. destruct (fill_to cf c solvent q) as [c'|] eqn:Ef; [|discriminate].
      intros H; inversion H; subst; clear H. cbn [s_to s_to0 s_to1 s_frm s_trash s_subs s_objs].
      pose proof (getc_inv _ _ _ _ He E1) as Ic.
      split. { apply rset_inv; [exact He|]. simpl. pose proof Ef as Ef'. apply fill_to_ok in Ef'. destruct Ef' as (_ & _ & _ & Hadd).
               eapply self_add_inv; eassumption. }
      split; [discriminate|].
      intros Hs. apply has_subst_single in Hs. split; [|split; [discriminate | apply get_nil]].
      rewrite !amount_c. rewrite (fill_to_other _ _ _ _ _ _ Ef Hs). reflexivity.
    + destruct (getp e n) as [p|] eqn:E1; [|discriminate].
      destruct (if d13 then pfill_to cf p (whole p) solvent q else pfill_to cf p r solvent q) as [p'|] eqn:Ef; [|discriminate].
      intros H; inversion H; subst; clear H. cbn [s_to s_to0 s_to1 s_frm s_trash s_subs s_objs].
      pose proof (getp_inv _ _ _ _ He E1) as Ip.
      assert (Ef' : exists r', pfill_to cf p r' solvent q = Ok p') by (destruct d13; eauto). destruct Ef' as [r' Ef'].
      split; [apply rset_inv; [exact He | eapply pfill_inv; eassumption]|]. split; [discriminate|].
      intros Hs. apply has_subst_single in Hs. split; [|split; [discriminate | apply get_nil]].
      rewrite !amount_p. eapply pfill_other; eassumption.
Qed.

(* ---------- the recipe: side conditions of each step in the table it runs in ---------- *)
Fixpoint steps_ok (cf : cfg) (d13 : bool) (e : renv) (steps : list rstep) : Prop :=
  match steps with
  | [] => True
  | st :: t => wf_rstep st /\ step_fresh e st /\
               match bake_step cf d13 e st with Ok (e', _) => steps_ok cf d13 e' t | Err _ => True end
  end.

Lemma used_raw_cons s dests k tr : used_raw s dests (k :: tr) = step_delta s dests k + used_raw s dests tr.
Proof. reflexivity. Qed.
Lemma trash_total_cons s k tr : trash_total s (k :: tr) = get s (s_trash k) + trash_total s tr.
Proof. reflexivity. Qed.

Lemma step_delta_is_gain cf d13 s dests e st e' k :
  NoDup dests -> renv_inv cf e -> wf_rstep st -> step_fresh e st -> bake_step cf d13 e st = Ok (e', k) ->
  renv_inv cf e' /\ step_delta s dests k == dest_total s dests e' - dest_total s dests e + get s (s_trash k).
Proof.
  intros Hnd He Hw Hf H. destruct (bake_step_facts cf d13 s e st e' k He Hw Hf H) as (He' & Hsame & Hflt).
  split; [exact He'|].
  pose proof (step_telescopes s dests e e' k (bake_step_frame _ _ _ _ _ _ H) Hnd Hsame) as T.
  rewrite step_delta_filter. destruct (has_subst s (s_subs k)) eqn:Eh; [lra|].
  destruct (Hflt eq_refl) as (U1 & U2 & U3). unfold delta0 in T.
  assert (Z1 : (if in_list (s_to k) dests then amount_in_obj s (s_to1 k) - amount_in_obj s (s_to0 k) else 0) == 0)
    by (destruct (in_list (s_to k) dests); lra).
  assert (Z2 : match s_frm k with Some (n, o0, o1) => if in_list n dests then amount_in_obj s o1 - amount_in_obj s o0 else 0 | None => 0 end == 0).
  { destruct (s_frm k) as [[[n o0] o1]|]; [|reflexivity]. specialize (U2 n o0 o1 eq_refl). destruct (in_list n dests); lra. }
  lra.
Qed.

(* C09, whole trace: what the query sums = net gain of the destinations over the baked steps + what was discarded *)
Theorem used_raw_is_net_gain cf d13 s dests steps : forall e e' tr,
  NoDup dests -> renv_inv cf e -> steps_ok cf d13 e steps -> bake_steps cf d13 e steps = Ok (e', tr) ->
  renv_inv cf e' /\
  used_raw s dests tr == dest_total s dests e' - dest_total s dests e + trash_total s tr.
Proof.
  induction steps as [|st t IH]; intros e e' tr Hnd He Hok H; simpl in H.
  - inversion H; subst. split; [exact He|]. unfold used_raw, trash_total. simpl. ring.
  - unfold bind in H. destruct (bake_step cf d13 e st) as [[e0 k]|] eqn:E; [|discriminate]. simpl in H.
    destruct (bake_steps cf d13 e0 t) as [[e2 tr2]|] eqn:E2; [|discriminate]. simpl in H. inversion H; subst; clear H.
    destruct Hok as (Hw & Hf & Hrest). rewrite E in Hrest.
    destruct (step_delta_is_gain cf d13 s dests e st e0 k Hnd He Hw Hf E) as [He0 Hk].
    destruct (IH e0 e' tr2 Hnd He0 Hrest E2) as [He' Hrec].
    split; [exact He'|]. rewrite used_raw_cons, trash_total_cons, Hk, Hrec. ring.
Qed.

Lemma steps_ok_app cf d13 s1 : forall s2 e e1 tr1,
  steps_ok cf d13 e (s1 ++ s2) -> bake_steps cf d13 e s1 = Ok (e1, tr1) -> steps_ok cf d13 e s1 /\ steps_ok cf d13 e1 s2.
Proof.
  induction s1 as [|st t IH]; intros s2 e e1 tr1 Hok H; simpl in *.
  - inversion H; subst. split; [exact I | exact Hok].
  - unfold bind in H. destruct (bake_step cf d13 e st) as [[e0 k]|] eqn:E; [|discriminate]. simpl in H.
    destruct (bake_steps cf d13 e0 t) as [[e2 tr2]|] eqn:E2; [|discriminate]. simpl in H. inversion H; subst; clear H.
    destruct Hok as (Hw & Hf & Hrest). destruct (IH s2 e0 e1 tr2 Hrest E2) as [A B].
    split; [|exact B]. split; [exact Hw|]. split; [exact Hf|]. exact A.
Qed.

(* slices of the trace *)
Lemma firstn_add {A} a b : forall m : list A, firstn (a + b) m = firstn a m ++ firstn b (skipn a m).
Proof. induction a as [|a IH]; intros [|x m]; simpl; auto; [destruct b; reflexivity | f_equal; apply IH]. Qed.
Lemma skipn_add {A} a b : forall m : list A, skipn (a + b) m = skipn b (skipn a m).
Proof. induction a as [|a IH]; intros [|x m]; simpl; auto. destruct b; reflexivity. Qed.
Lemma slice_of_app {A} (l : list A) i j k : (i <= j)%nat -> (j <= k)%nat ->
  slice_of l (i, k) = slice_of l (i, j) ++ slice_of l (j, k).
Proof.
  intros H1 H2. unfold slice_of; simpl.
  replace (k - i)%nat with ((j - i) + (k - j))%nat by lia. rewrite firstn_add.
  f_equal. f_equal. replace j with (i + (j - i))%nat at 2 by lia. rewrite skipn_add. reflexivity.
Qed.
Lemma slice_of_middle {A} (l1 l2 l3 : list A) :
  slice_of (l1 ++ l2 ++ l3) (length l1, (length l1 + length l2)%nat) = l2.
Proof.
  unfold slice_of; simpl. rewrite skipn_app, skipn_all, Nat.sub_diag. simpl.
  replace (length l1 + length l2 - length l1)%nat with (length l2) by lia.
  rewrite firstn_app, firstn_all, Nat.sub_diag. simpl. apply app_nil_r.
Qed.
Lemma used_raw_app s dests t1 t2 : used_raw s dests (t1 ++ t2) == used_raw s dests t1 + used_raw s dests t2.
Proof. unfold used_raw. rewrite map_app. apply Qsum_app. Qed.

(* C09, a timeframe: the steps of a stage are s2 in s1 ++ s2 ++ s3; the query over the stage's slice of the trace equals
   the gain of the destinations between the table before s2 and the table after s2, plus what s2's remove steps discarded *)
Theorem used_over_timeframe cf d13 s dests s1 s2 s3 e e' tr :
  NoDup dests -> renv_inv cf e -> steps_ok cf d13 e (s1 ++ s2 ++ s3) -> bake_steps cf d13 e (s1 ++ s2 ++ s3) = Ok (e', tr) ->
  exists e1 e2 t1 t2 t3,
    bake_steps cf d13 e s1 = Ok (e1, t1) /\ bake_steps cf d13 e1 s2 = Ok (e2, t2) /\ bake_steps cf d13 e2 s3 = Ok (e', t3) /\
    slice_of tr (length s1, (length s1 + length s2)%nat) = t2 /\
    used_raw s dests (slice_of tr (length s1, (length s1 + length s2)%nat)) ==
      dest_total s dests e2 - dest_total s dests e1 + trash_total s t2.
Proof.
  intros Hnd He Hok H.
  destruct (bake_steps_app _ _ _ _ _ _ _ H) as (e1 & t1 & t23 & B1 & B23 & -> & L1).
  destruct (bake_steps_app _ _ _ _ _ _ _ B23) as (e2 & t2 & t3 & B2 & B3 & -> & L2).
  destruct (steps_ok_app _ _ _ _ _ _ _ Hok B1) as [Ok1 Ok23].
  destruct (steps_ok_app _ _ _ _ _ _ _ Ok23 B2) as [Ok2 Ok3].
  destruct (used_raw_is_net_gain cf d13 s dests s1 e e1 t1 Hnd He Ok1 B1) as [He1 _].
  destruct (used_raw_is_net_gain cf d13 s dests s2 e1 e2 t2 Hnd He1 Ok2 B2) as [He2 R].
  exists e1, e2, t1, t2, t3. rewrite <- L1, <- L2. rewrite slice_of_middle. repeat split; auto.
Qed.

(* consecutive stages add up to their union *)
Theorem used_additive s dests (tr : list snap) i j k : (i <= j)%nat -> (j <= k)%nat ->
  used_raw s dests (slice_of tr (i, k)) == used_raw s dests (slice_of tr (i, j)) + used_raw s dests (slice_of tr (j, k)).
Proof. intros H1 H2. rewrite (slice_of_app tr i j k H1 H2). apply used_raw_app. Qed.

(* the answer in the requested unit; a net decrease is refused *)
Theorem substance_used_outcome cf s dests tr u :
  (used_raw s dests tr < 0 -> substance_used cf s dests tr u = Err EValue) /\
  (0 <= used_raw s dests tr -> substance_used cf s dests tr u = Ok (conv_stored cf s (used_raw s dests tr) u)).
Proof.
  unfold substance_used. split; intros H.
  - apply Qltb_lt in H. rewrite H. reflexivity.
  - destruct (Qltb (used_raw s dests tr) 0) eqn:E; [apply Qltb_lt in E; lra | reflexivity].
Qed.

(* ---------- the trash of a remove step is exactly what left the target ---------- *)
Lemma trash_inner_get s a : forall cb t, wfc cb ->
  get s (trash_inner a cb t) == get s t + (if has s (cont a) then 0 else get s cb).
Proof.
  unfold trash_inner. induction cb as [|[k v] cb IH]; intros t Hwf; simpl.
  - destruct (has s (cont a)); ring.
  - inversion Hwf as [|x l Hni Hwf']; subst. rewrite IH by exact Hwf'.
    destruct (has k (cont a)) eqn:Hk.
    + destruct (seqb k s) eqn:E; [apply seqb_eq in E; subst k; rewrite Hk; ring | reflexivity].
    + rewrite get_upd. destruct (seqb k s) eqn:E.
      * apply seqb_eq in E. subst k. rewrite Hk. rewrite (get_notin s cb) by exact Hni. ring.
      * destruct (has s (cont a)); ring.
Qed.
Lemma trash_of_get s : forall bs as_ t0, length as_ = length bs -> Forall (fun b => wfc (cont b)) bs ->
  get s (fold_left (fun t p => trash_inner (snd p) (cont (fst p)) t) (combine bs as_) t0) ==
  get s t0 + Qsum (map (fun p => if has s (cont (snd p)) then 0 else get s (cont (fst p))) (combine bs as_)).
Proof.
  induction bs as [|b bs IH]; intros [|a as_] t0 Hl Hwf; simpl in *; try discriminate; [ring|].
  inversion Hwf; subst. rewrite IH by (auto; lia). rewrite trash_inner_get by assumption. ring.
Qed.

Definition removed_rel (w : what) (b a : container) : Prop :=
  cont a = cont b \/ cont a = filter (fun p => negb (selected w (fst p))) (cont b).
Lemma filter_idem {A} (P : A -> bool) l : filter P (filter P l) = filter P l.
Proof. induction l as [|x l IH]; simpl; [reflexivity|]. destruct (P x) eqn:E; simpl; rewrite ?E, IH; reflexivity. Qed.

Lemma fold_wells_rel {A} (f : A -> container -> result (A * container)) (R : container -> container -> Prop) :
  (forall a w a' w' b, R b w -> f a w = Ok (a', w') -> R b w') ->
  forall idxs a ws a' ws' (ws0 : list container),
    (forall j b w, nth_error ws0 j = Some b -> nth_error ws j = Some w -> R b w) ->
    fold_wells f idxs a ws = Ok (a', ws') ->
    forall j b w, nth_error ws0 j = Some b -> nth_error ws' j = Some w -> R b w.
Proof.
  intros Hf. induction idxs as [|i t IH]; intros a ws a' ws' ws0 H0 H.
  - simpl in H. inversion H; subst. exact H0.
  - rewrite fold_wells_cons in H. destruct (nth_error ws i) as [w|] eqn:E; [|discriminate].
    unfold bind in H. destruct (f a w) as [[a1 w1]|] eqn:Ef; [|discriminate]. simpl in H.
    eapply IH; [|exact H]. intros j b x Eb Ex. destruct (Nat.eq_dec i j) as [<-|Hne].
    + rewrite nth_error_set_nth_same in Ex by (eapply nth_error_lt; eassumption). inversion Ex; subst.
      eapply Hf; [|exact Ef]. eapply H0; eassumption.
    + rewrite nth_error_set_nth_other in Ex by exact Hne. eapply H0; eassumption.
Qed.

Lemma removed_rel_loss w s b a : wfc (cont b) -> removed_rel w b a ->
  (if has s (cont a) then 0 else get s (cont b)) == get s (cont b) - get s (cont a).
Proof.
  intros Hwf [E|E]; rewrite E.
  - destruct (has s (cont b)) eqn:Hh; [ring|].
    assert (~ In s (keys (cont b))) by (intro Hin; apply has_in in Hin; congruence). rewrite get_notin by assumption. ring.
  - rewrite (get_filter s (fun x => negb (selected w x))).
    destruct (selected w s) eqn:Hs; simpl.
    + destruct (has s _) eqn:Hh; [|ring]. apply has_in in Hh. apply (keys_filter_P (fun x => negb (selected w x))) in Hh.
      rewrite Hs in Hh. discriminate.
    + destruct (has s _) eqn:Hh; [ring|].
      assert (Hn : ~ In s (keys (cont b))).
      { intro Hin. assert (has s (filter (fun p => negb (selected w (fst p))) (cont b)) = true); [|congruence].
        apply has_in. unfold keys in *. apply in_map_iff in Hin. destruct Hin as [[k v] [Ek Hin]]. simpl in Ek. subst k.
        apply in_map_iff. exists (s, v). split; [reflexivity|]. apply filter_In. split; [exact Hin|]. simpl. rewrite Hs. reflexivity. }
      rewrite get_notin by exact Hn. ring.
Qed.

Lemma Qsum_combine_loss w s : forall bs as_, length as_ = length bs -> Forall (fun b => wfc (cont b)) bs ->
  (forall j b a, nth_error bs j = Some b -> nth_error as_ j = Some a -> removed_rel w b a) ->
  Qsum (map (fun p => if has s (cont (snd p)) then 0 else get s (cont (fst p))) (combine bs as_)) ==
  wsum (cget s) bs - wsum (cget s) as_.
Proof.
  unfold wsum. induction bs as [|b bs IH]; intros [|a as_] Hl Hwf HR; simpl in *; try discriminate; [ring|].
  inversion Hwf; subst. rewrite IH; [| lia | assumption | intros j b' a' Eb Ea; exact (HR (S j) b' a' Eb Ea)].
  rewrite (removed_rel_loss w s b a); [unfold cget; ring | assumption | exact (HR O b a eq_refl eq_refl)].
Qed.

Theorem remove_trash_is_loss cf d13 s e t w e' k :
  renv_inv cf e -> bake_step cf d13 e (SRemove t w) = Ok (e', k) ->
  get s (s_trash k) == amount_in_obj s (s_to0 k) - amount_in_obj s (s_to1 k).
Proof.
  intros He. destruct t as [n|n r]; simpl; unfold bind.
  - destruct (getc e n) as [c|] eqn:E1; [|discriminate]. intros H; inversion H; subst; clear H. cbn [s_trash s_to0 s_to1].
    pose proof (getc_inv _ _ _ _ He E1) as Ic. rewrite !amount_c. rewrite trash_of_unfold.
    rewrite (trash_of_get s [c] [remove cf c w] []); [| reflexivity | constructor; [apply (inv_wf _ _ Ic) | constructor]].
    cbn [combine map Qsum fst snd get]. rewrite (removed_rel_loss w s c (remove cf c w)); [ring | apply (inv_wf _ _ Ic) | right; reflexivity].
  - destruct (getp e n) as [p|] eqn:E1; [|discriminate]. destruct (premove cf p r w) as [p'|] eqn:Er; [|discriminate].
    intros H; inversion H; subst; clear H. cbn [s_trash s_to0 s_to1].
    pose proof (getp_inv _ _ _ _ He E1) as Ip. rewrite !amount_p. rewrite trash_of_unfold.
    pose proof Er as Er0. unfold premove in Er. apply nonempty_ok in Er. destruct Er as [Er _]. unfold bind in Er.
    destruct (apply_wells _ _ (wells p)) as [ws|] eqn:E; [|discriminate]. inversion Er; subst p'; simpl. clear Er.
    destruct (apply_wells_spec _ _ _ _ E) as (Hl & _ & _).
    assert (Hwf : Forall (fun b => wfc (cont b)) (wells p)).
    { eapply Forall_impl; [|exact Ip]. intros b Ib. apply (inv_wf _ _ Ib). }
    assert (HR : forall j b a, nth_error (wells p) j = Some b -> nth_error ws j = Some a -> removed_rel w b a).
    { unfold apply_wells, bind in E.
      destruct (fold_wells _ (region_idx (ncols p) r) tt (wells p)) as [[u ws1]|] eqn:E2; [|discriminate]. simpl in E. inversion E; subst ws1.
      eapply (fold_wells_rel _ (removed_rel w)); [| | exact E2].
      - intros u0 x u1 x' b Rb Hf. simpl in Hf. inversion Hf; subst. destruct Rb as [Eq|Eq]; right; simpl; rewrite Eq; [reflexivity | apply filter_idem].
      - intros j b x Eb Ex. rewrite Eb in Ex. inversion Ex; subst. left. reflexivity. }
    rewrite (trash_of_get s (wells p) ws [] Hl Hwf). rewrite (Qsum_combine_loss w s _ _ Hl Hwf HR). simpl. ring.
Qed.

(* ---------- steps_ok from the shape of the recipe: no step mentions a name that a later step creates ---------- *)
Definition step_refs (st : rstep) : list nat :=
  match st with
  | SCreate _ _ _ | SSolution _ _ _ _ => []
  | SSolutionC _ _ v _ => [v]
  | SSolutionFrom src _ _ _ _ _ => [src]
  | STransfer a b _ => [rname a; rname b]
  | SRemove t _ | SFill t _ _ => [rname t]
  | SDilute n _ _ _ => [n]
  end.
Definition step_names (st : rstep) : list nat :=
  match step_declares st with Some n => n :: step_refs st | None => step_refs st end.

Lemma bake_step_names cf d13 e st e' k : bake_step cf d13 e st = Ok (e', k) ->
  In (s_to k) (step_names st) /\ (forall m, frm_name k = Some m -> In m (step_names st)).
Proof.
  unfold frm_name. destruct st; simpl; unfold bind, step_names; simpl.
  - destruct (geto e name); [|discriminate]. destruct (make_container _ _ _ _); [|discriminate].
    intros H; inversion H; subst; simpl. split; [auto | discriminate].
  - destruct (geto e name); [|discriminate]. destruct (create_solution _ _ _ _ _); [|discriminate].
    intros H; inversion H; subst; simpl. split; [auto | discriminate].
  - destruct (Nat.eqb name solvent); [discriminate|]. destruct (geto e name); [|discriminate]. destruct (getc e solvent); [|discriminate].
    destruct (create_solution_c _ _ _ _ _) as [[xa xb]|]; [|discriminate]. intros H; inversion H; subst; simpl.
    split; [auto | intros mm Hm; inversion Hm; auto].
  - destruct (Nat.eqb src name); [discriminate|]. destruct (geto e name); [|discriminate]. destruct (getc e src); [|discriminate].
    destruct (create_solution_from _ _ _ _ _ _ _) as [[xa xb]|]; [|discriminate]. intros H; inversion H; subst; simpl.
    split; [auto | intros mm Hm; inversion Hm; auto].
  - destruct src as [a|a ra], dst as [b|b rb]; simpl.
    + destruct (Nat.eqb a b); [discriminate|]. destruct (getc e a); [|discriminate]. destruct (getc e b); [|discriminate].
      destruct (transfer _ _ _ _) as [[x y]|]; [|discriminate]. intros H; inversion H; subst; simpl. split; [auto | intros mm Hm; inversion Hm; auto].
    + destruct (getc e a); [|discriminate]. destruct (getp e b); [|discriminate].
      destruct (c_to_p _ _ _ _ _) as [[x y]|]; [|discriminate]. intros H; inversion H; subst; simpl. split; [auto | intros mm Hm; inversion Hm; auto].
    + destruct (getp e a); [|discriminate]. destruct (getc e b); [|discriminate].
      destruct (p_to_c _ _ _ _ _) as [[x y]|]; [|discriminate]. intros H; inversion H; subst; simpl. split; [auto | intros mm Hm; inversion Hm; auto].
    + destruct (Nat.eqb a b).
      * destruct (getp e a); [|discriminate]. destruct (p_to_p_same _ _ _ _ _); [|discriminate].
        intros H; inversion H; subst; simpl. split; [auto | intros mm Hm; inversion Hm; auto].
      * destruct (getp e a); [|discriminate]. destruct (getp e b); [|discriminate].
        destruct (p_to_p _ _ _ _ _ _) as [[x y]|]; [|discriminate]. intros H; inversion H; subst; simpl. split; [auto | intros mm Hm; inversion Hm; auto].
  - destruct t as [n|n r]; simpl.
    + destruct (getc e n); [|discriminate]. intros H; inversion H; subst; simpl. split; [auto | discriminate].
    + destruct (getp e n); [|discriminate]. destruct (premove _ _ _ _); [|discriminate]. intros H; inversion H; subst; simpl. split; [auto | discriminate].
  - destruct (getc e name); [|discriminate]. destruct (dilute _ _ _ _ _); [|discriminate].
    intros H; inversion H; subst; simpl. split; [auto | discriminate].
  - destruct t as [n|n r]; simpl.
    + destruct (getc e n); [|discriminate]. destruct (fill_to _ _ _ _); [|discriminate]. intros H; inversion H; subst; simpl. split; [auto | discriminate].
    + destruct (getp e n); [|discriminate]. destruct (if d13 then _ else _); [|discriminate]. intros H; inversion H; subst; simpl. split; [auto | discriminate].
Qed.
Lemma bake_step_touches cf d13 e st e' k m : bake_step cf d13 e st = Ok (e', k) -> ~ In m (step_names st) -> rget m e' = rget m e.
Proof.
  intros H Hm. destruct (bake_step_names _ _ _ _ _ _ H) as [Hto Hfrm].
  destruct (bake_step_frame _ _ _ _ _ _ H) as (_ & _ & _ & Hother & _).
  apply Hother; [intro; subst; contradiction | intro Hx; apply Hm; apply Hfrm; exact Hx].
Qed.

Fixpoint no_early_use (steps : list rstep) : Prop :=
  match steps with
  | [] => True
  | st :: t => (forall n, In n (created_names t) -> ~ In n (step_names st)) /\ no_early_use t
  end.

Lemma steps_ok_from_shape cf d13 : forall steps e,
  Forall wf_rstep steps -> no_early_use steps ->
  (forall n, In n (created_names steps) -> rget n e = Some (placeholder n)) -> steps_ok cf d13 e steps.
Proof.
  induction steps as [|st t IH]; intros e Hw Hno Hph; simpl; [exact I|].
  inversion Hw; subst. destruct Hno as [Hst Hno]. split; [assumption|]. split.
  - unfold step_fresh. destruct (step_declares st) as [n|] eqn:Ed; [|exact I]. apply Hph. unfold created_names. simpl. rewrite Ed. left. reflexivity.
  - destruct (bake_step cf d13 e st) as [[e' k]|] eqn:E; [|exact I]. apply IH; auto.
    intros n Hn. rewrite (bake_step_touches _ _ _ _ _ _ n E (Hst n Hn)). apply Hph.
    unfold created_names in *. simpl. apply in_or_app. right. exact Hn.
Qed.

Lemma rget_app_r n e1 e2 : ~ In n (map fst e1) -> rget n (e1 ++ e2) = rget n e2.
Proof.
  induction e1 as [|[k x] t IH]; simpl; intros H; [reflexivity|].
  destruct (Nat.eqb k n) eqn:E; [apply Nat.eqb_eq in E; subst; exfalso; apply H; left; reflexivity | apply IH; intro; apply H; right; assumption].
Qed.
Lemma declare_steps_cons objs st t :
  declare_steps objs (st :: t) = declare_steps (match step_declares st with Some n => objs ++ [(n, placeholder n)] | None => objs end) t.
Proof. reflexivity. Qed.
Lemma declared_placeholder steps : forall objs n,
  NoDup (map fst objs ++ created_names steps) -> In n (created_names steps) -> rget n (declare_steps objs steps) = Some (placeholder n).
Proof.
  induction steps as [|st t IH]; intros objs n Hnd Hin; [contradiction|].
  rewrite declare_steps_cons. unfold created_names in Hnd, Hin. simpl in Hnd, Hin. fold (created_names t) in Hnd, Hin.
  destruct (step_declares st) as [m|] eqn:Ed; simpl in Hnd, Hin.
  - destruct Hin as [<-|Hin].
    + apply declare_no_effect. rewrite rget_app_r; [simpl; rewrite Nat.eqb_refl; reflexivity|].
      apply NoDup_remove_2 in Hnd. intro Hx. apply Hnd. apply in_or_app. left. exact Hx.
    + apply IH; [|exact Hin]. rewrite map_app. simpl. rewrite <- app_assoc. exact Hnd.
  - apply IH; assumption.
Qed.

(* for Recipe.bake: declared objects and created names are pairwise distinct (C16 enforces it), substances are well formed, and no
   step mentions a name that a later step creates (the API returns the name only when the creating step is added) *)
Theorem steps_ok_bake cf d13 objs steps :
  Forall wf_rstep steps -> NoDup (map fst objs ++ created_names steps) -> no_early_use steps ->
  steps_ok cf d13 (declare_steps objs steps) steps.
Proof.
  intros Hw Hnd Hno. apply steps_ok_from_shape; auto. intros n Hn. apply declared_placeholder; assumption.
Qed.

Lemma placeholder_inv cf n : obj_inv cf (placeholder n).
Proof. simpl. apply (make_container_inv cf n None [] _ (Forall_nil _)). reflexivity. Qed.
Lemma rget_snoc n e m o x : rget n (e ++ [(m, o)]) = Some x -> rget n e = Some x \/ (rget n e = None /\ x = o).
Proof.
  induction e as [|[k y] t IH]; simpl.
  - destruct (Nat.eqb m n); [intros H; inversion H; auto | discriminate].
  - destruct (Nat.eqb k n); [auto | exact IH].
Qed.
Lemma declare_steps_inv cf steps : forall objs, renv_inv cf objs -> renv_inv cf (declare_steps objs steps).
Proof.
  induction steps as [|st t IH]; intros objs He; [exact He|]. rewrite declare_steps_cons. apply IH.
  destruct (step_declares st) as [m|]; [|exact He]. intros n o H. apply rget_snoc in H. destruct H as [H|[_ ->]]; [eapply He; exact H | apply placeholder_inv].
Qed.
Lemma declare_steps_amt s steps : forall objs n, amt s (declare_steps objs steps) n == amt s objs n.
Proof.
  induction steps as [|st t IH]; intros objs n; [reflexivity|]. rewrite declare_steps_cons. rewrite IH.
  destruct (step_declares st) as [m|]; [|reflexivity]. unfold amt.
  destruct (rget n (objs ++ [(m, placeholder m)])) as [x|] eqn:E.
  - apply rget_snoc in E. destruct E as [E|[E ->]]; rewrite E; [reflexivity | apply amount_placeholder].
  - destruct (rget n objs) as [y|] eqn:E2; [|reflexivity]. rewrite (rget_app_l _ _ _ _ E2) in E. discriminate.
Qed.

(* C09 for Recipe.bake, hypotheses on the shape of the recipe only *)
Theorem bake_used_is_net_gain cf s dests objs steps e' tr :
  NoDup dests -> renv_inv cf objs -> Forall wf_rstep steps -> NoDup (map fst objs ++ created_names steps) -> no_early_use steps ->
  bake cf objs steps = Ok (e', tr) ->
  used_raw s dests tr == dest_total s dests e' - dest_total s dests objs + trash_total s tr.
Proof.
  intros Hnd He Hw Hnames Hno H. unfold bake in H.
  destruct (used_raw_is_net_gain cf true s dests steps _ e' tr Hnd (declare_steps_inv cf steps objs He)
             (steps_ok_bake cf true objs steps Hw Hnames Hno) H) as [_ R].
  rewrite R. assert (E : dest_total s dests (declare_steps objs steps) == dest_total s dests objs).
  { unfold dest_total. apply Qsum_ext. intros n _. apply declare_steps_amt. }
  rewrite E. reflexivity.
Qed.
