(* Base.v -- common definitions for the PyPlate model.
   Exact rational arithmetic; every round(x, internal_precision) of the Python
   code is the function [rnd] (= Qred, the identity up to ==), placed at the same
   program points. *)
From Coq Require Export QArith Qabs ZArith List Bool Lia Lqa Psatz Setoid Morphisms.
Export ListNotations.
Open Scope Q_scope.

Definition rnd (q : Q) : Q := Qred q.
Lemma rnd_eq q : rnd q == q.
Proof. apply Qred_correct. Qed.
Global Instance rnd_proper : Proper (Qeq ==> Qeq) rnd.
Proof. intros a b H. rewrite !rnd_eq. exact H. Qed.
Arguments rnd : simpl never.
Global Opaque rnd.

(* error classes of the Python exceptions the model distinguishes *)
Inductive err := EValue | EType | ERuntime | EOther.
Inductive result (A : Type) := Ok (a : A) | Err (e : err).
Arguments Ok {A} a.
Arguments Err {A} e.

Definition bind {A B} (r : result A) (f : A -> result B) : result B :=
  match r with Ok a => f a | Err e => Err e end.
Notation "'do' x <- r ; k" := (bind r (fun x => k)) (at level 200, x pattern, r at level 100, k at level 200).

Definition err_code (e : err) : Z :=
  match e with EValue => 1 | EType => 2 | ERuntime => 3 | EOther => 4 end%Z.

(* boolean comparisons on Q *)
Definition Qltb (a b : Q) : bool := negb (Qle_bool b a).
Definition Qgtb (a b : Q) : bool := Qltb b a.
Definition Qeqb (a b : Q) : bool := Qeq_bool a b.

Lemma Qltb_lt a b : Qltb a b = true <-> a < b.
Proof.
  unfold Qltb. rewrite negb_true_iff. split; intro H.
  - apply Qnot_le_lt. intro Hle. apply Qle_bool_iff in Hle. congruence.
  - destruct (Qle_bool b a) eqn:E; auto. apply Qle_bool_iff in E. apply Qle_not_lt in E. contradiction.
Qed.
Lemma Qltb_ge a b : Qltb a b = false <-> b <= a.
Proof.
  unfold Qltb. rewrite negb_false_iff. apply Qle_bool_iff.
Qed.
Lemma Qeqb_eq a b : Qeqb a b = true <-> a == b.
Proof. apply Qeq_bool_iff. Qed.
Lemma Qeqb_neq a b : Qeqb a b = false <-> ~ a == b.
Proof.
  unfold Qeqb. split; intro H.
  - intro E. apply Qeq_bool_iff in E. congruence.
  - destruct (Qeq_bool a b) eqn:E; auto. apply Qeq_bool_iff in E. contradiction.
Qed.

(* sums over lists *)
Fixpoint Qsum (l : list Q) : Q := match l with [] => 0 | x :: t => x + Qsum t end.
Lemma Qsum_app a b : Qsum (a ++ b) == Qsum a + Qsum b.
Proof. induction a; simpl; [ring | rewrite IHa; ring]. Qed.

(* output encoding helpers for the correspondence runner: a Q is two integers *)
Definition showQ (q : Q) : list Z := let r := Qred q in [Qnum r; Zpos (Qden r)].
Definition showN (n : nat) : list Z := [Z.of_nat n].
