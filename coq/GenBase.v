(* GenBase.v -- types shared by the generated files (coq/gen/*.v). *)
Require Import Base.
From Coq Require Export String.
(* leaf of a translated decision tree: `return e` | `result = e` | `raise` | fell through *)
Inductive leaf := Ret (q : Q) | Asg (q : Q) | Rej | Unset.
(* state guards at the head of Recipe methods *)
Inductive stage_guard := GStageExists | GStageOpen | GStageMismatch | GNameIsAll.
(* outcome of one cell of the symbolically executed conversion table (translator/symex.py):
   the call raises, or returns  coef * q^eq * mw^emw * dens^ed * act^ea *)
Inductive cell := CRaise | CVal (coef : Q) (eq emw ed ea : Z).
(* association list lookup used to state that a generated prefix table equals the model's *)
Fixpoint assoc (k : string) (l : list (string * Q)) : option Q :=
  match l with [] => None | (k', v) :: t => if String.eqb k k' then Some v else assoc k t end.
