(* GenBase.v -- types shared by the generated files (coq/gen/*.v). *)
Require Import Base.
From Coq Require Export String.
(* leaf of a translated decision tree: `return e` | `result = e` | `raise` | fell through *)
Inductive leaf := Ret (q : Q) | Asg (q : Q) | Rej | Unset.
(* state guards at the head of Recipe methods *)
Inductive stage_guard := GStageExists | GStageOpen | GStageMismatch | GNameIsAll.
