(* Dilute.v -- executable model of Container.dilute (definitions only).
   A parsed concentration (Unit.parse_concentration) is a value in numerator-base-unit per
   denominator-base-unit; the string level is Parse.v. *)
Require Import Base Units Contents Container.

Record conc := { cval : Q; cnum : base; cden : base }.

(* one mole of a (non-enzyme) solvent in base unit b *)
Definition per_mole (s : substance) (b : base) : Q :=
  match conv s 1 (P0, BMol) (P0, b) with Some x => x | None => 0 end.

(* moles of solvent (in umol) to add so that solute_amount / (total + n * per_mole) = target *)
Definition dilute_required (cf : cfg) (c : container) (solute : substance) (t : conc) (solvent : substance) : Q :=
  let solute_amount := conv_stored cf solute (get solute (cont c)) (P0, cnum t) in
  let total := total_in cf (cont c) (P0, cden t) in
  (solute_amount / cval t - total) / per_mole solvent (cden t) * 1000000.

Definition dilute (cf : cfg) (c : container) (solute : substance) (t : conc) (solvent : substance) : result container :=
  if negb (has solute (cont c)) then Err EValue
  else if base_eqb (cnum t) BU && negb (is_enzyme solute) then Err EType
  else if base_eqb (cden t) BU || is_enzyme solvent then Err EValue
  else if seqb solvent solute then Err EValue
  else if Qle_bool (cval t) 0 then Err EValue
  else
    let req := dilute_required cf c solute t solvent in
    let rs := rnd (to_storage_mol cf req Pu) in
    if Qltb rs 0 then Err EValue
    else if Qeqb rs 0 then Ok c
    else
      match conv solvent req (Pu, BMol) (vol_unit cf) with
      | None => Err EValue
      | Some dv =>
          if over (vol c + dv) (maxv c) then Err EValue
          else self_add cf c solvent {| qval := req; qpfx := Pu; qbase := BMol |}
      end.
