(* ContainerThm2.v -- invariants of construction, _self_add, remove, fill_to; post-conditions (C03, C10, C11, C17). *)
Require Import Base Units UnitsThm Contents Container ContainerThm.

(* what _self_add stores is what it adds to the volume: amount (storage) -> volume equals quantity -> volume *)
Lemma self_add_amounts cf s x b vta ata :
  wf_subst s ->
  conv s x (P0, b) (vol_unit cf) = Some vta -> conv s x (P0, b) (stored_unit cf s) = Some ata ->
  conv_stored cf s ata (vol_unit cf) == vta.
Proof.
  intros (Hm & Hd & Ha).
  pose proof (pmult_pos (vol_pfx cf)) as Hpv. pose proof (pmult_pos (mol_pfx cf)) as Hpm.
  unfold conv_stored, stored_unit, vol_unit, mol_unit, conv, conv_base, is_enzyme.
  destruct s as [i k m d ac]; simpl in *.
  destruct k, b; simpl; intros E1 E2; inversion E1; inversion E2; subst; clear E1 E2;
    change (pmult P0) with 1; field; repeat split; lra.
Qed.

Lemma volume_of_upd cf s v c :
  wfc c -> volume_of cf (upd s v c) == volume_of cf c - conv_stored cf s (get s c) (vol_unit cf) + conv_stored cf s v (vol_unit cf).
Proof.
  intros Hwf. unfold volume_of, total_in. apply (sum_by_upd (fun s a => conv_stored cf s a (vol_unit cf))); [exact Hwf|].
  apply conv_stored_zero.
Qed.
Lemma total_in_upd cf s v c u :
  wfc c -> total_in cf (upd s v c) u == total_in cf c u - conv_stored cf s (get s c) u + conv_stored cf s v u.
Proof.
  intros Hwf. unfold total_in. apply (sum_by_upd (fun s a => conv_stored cf s a u)); [exact Hwf|].
  apply conv_stored_zero.
Qed.

Lemma self_add_ok cf c s q c' :
  self_add cf c s q = Ok c' ->
  exists vta ata, conv s (qv q) (P0, qbase q) (vol_unit cf) = Some vta /\ conv s (qv q) (P0, qbase q) (stored_unit cf s) = Some ata /\
    0 <= ata /\ 0 <= vta /\ over (rnd (vol c + vta)) (maxv c) = false /\
    c' = {| cname := cname c; cont := upd s (rnd (get s (cont c) + ata)) (cont c); vol := rnd (vol c + vta); maxv := maxv c |}.
Proof.
  unfold self_add.
  destruct (conv s (qv q) (P0, qbase q) (vol_unit cf)) as [vta|]; [|discriminate].
  destruct (conv s (qv q) (P0, qbase q) (stored_unit cf s)) as [ata|]; [|discriminate].
  destruct (Qltb (rnd ata) 0) eqn:E1; [discriminate|]. destruct (Qltb (rnd vta) 0) eqn:E2; [discriminate|]. simpl.
  destruct (over _ _) eqn:E3; [discriminate|]. intros H; inversion H; subst; clear H.
  apply Qltb_ge in E1, E2. rewrite rnd_eq in E1, E2. exists vta, ata. repeat split; auto.
Qed.

(* C03/C10: adding a substance preserves the invariant *)
Theorem self_add_inv cf c s q c' : Inv cf c -> wf_subst s -> self_add cf c s q = Ok c' -> Inv cf c'.
Proof.
  intros [w ss n v cp] Hs H. apply self_add_ok in H. destruct H as (vta & ata & Ev & Ea & Ha & Hv & Hov & ->).
  constructor; simpl.
  - apply wfc_upd. exact w.
  - apply all_subst_upd; assumption.
  - apply nonneg_upd; [exact n|]. rewrite rnd_eq. pose proof (nonneg_get s _ n). lra.
  - rewrite rnd_eq, volume_of_upd by exact w. rewrite rnd_eq, conv_stored_add.
    rewrite (self_add_amounts cf s _ _ vta ata Hs Ev Ea). rewrite v. ring.
  - apply over_false in Hov. exact Hov.
Qed.

Theorem self_add_err_is_value cf c s q e : self_add cf c s q = Err e -> e = EValue.
Proof.
  unfold self_add. destruct (conv _ _ _ (vol_unit cf)); [|intros H; inversion H; reflexivity].
  destruct (conv _ _ _ (stored_unit cf s)); [|intros H; inversion H; reflexivity].
  destruct (_ || _); [intros H; inversion H; reflexivity|]. destruct (over _ _); [intros H; inversion H; reflexivity | discriminate].
Qed.

(* only the added substance changes, and it grows by exactly the converted amount *)
Theorem self_add_contents cf c s q c' :
  self_add cf c s q = Ok c' ->
  (forall k, k <> s -> get k (cont c') = get k (cont c)) /\ get s (cont c) <= get s (cont c') /\
  cname c' = cname c /\ maxv c' = maxv c.
Proof.
  intros H. apply self_add_ok in H. destruct H as (vta & ata & Ev & Ea & Ha & Hv & Hov & ->). simpl. repeat split.
  - intros k Hk. rewrite get_upd. destruct (seqb s k) eqn:E; [apply seqb_eq in E; congruence | reflexivity].
  - rewrite get_upd, seqb_refl, rnd_eq. lra.
Qed.

(* C03: the exact-capacity boundary is on the accepting side *)
Theorem self_add_exact_capacity_accepted cf c s q vta ata m :
  conv s (qv q) (P0, qbase q) (vol_unit cf) = Some vta -> conv s (qv q) (P0, qbase q) (stored_unit cf s) = Some ata ->
  0 <= ata -> 0 <= vta -> maxv c = Some m -> vol c + vta <= m -> exists c', self_add cf c s q = Ok c'.
Proof.
  intros Ev Ea Ha Hv Hm Hfit. unfold self_add. rewrite Ev, Ea.
  assert (E1 : Qltb (rnd ata) 0 = false) by (apply Qltb_ge; rewrite rnd_eq; exact Ha).
  assert (E2 : Qltb (rnd vta) 0 = false) by (apply Qltb_ge; rewrite rnd_eq; exact Hv).
  rewrite E1, E2. simpl. rewrite Hm. simpl. unfold Qgtb.
  assert (E3 : Qltb m (rnd (vol c + vta)) = false) by (apply Qltb_ge; rewrite rnd_eq; exact Hfit).
  rewrite E3. eexists; reflexivity.
Qed.
Theorem self_add_over_capacity_refused cf c s q vta ata m :
  conv s (qv q) (P0, qbase q) (vol_unit cf) = Some vta -> conv s (qv q) (P0, qbase q) (stored_unit cf s) = Some ata ->
  maxv c = Some m -> m < vol c + vta -> self_add cf c s q = Err EValue.
Proof.
  intros Ev Ea Hm Hover. unfold self_add. rewrite Ev, Ea.
  destruct (_ || _); [reflexivity|]. rewrite Hm. simpl. unfold Qgtb.
  assert (E3 : Qltb m (rnd (vol c + vta)) = true) by (apply Qltb_lt; rewrite rnd_eq; exact Hover).
  rewrite E3. reflexivity.
Qed.

(* construction *)
Lemma new_container_inv cf name mx c : new_container cf name mx = Ok c -> Inv cf c.
Proof.
  unfold new_container. destruct mx as [q|].
  - destruct (Qle_bool (qv q) 0) eqn:E; [discriminate|]. intros H; inversion H; subst.
    constructor; simpl.
    + constructor.
    + constructor.
    + constructor.
    + unfold volume_of, total_in, sum_by. simpl. reflexivity.
    + unfold to_storage_vol. rewrite rnd_eq. change (pmult P0) with 1.
      assert (0 < qv q). { apply Qnot_le_lt. intro Hle. apply Qle_bool_iff in Hle. congruence. }
      pose proof (pmult_pos (vol_pfx cf)) as Hp. pose proof (Qinv_pos _ Hp). unfold Qdiv. nra.
  - intros H; inversion H; subst. constructor; simpl.
    + constructor.
    + constructor.
    + constructor.
    + unfold volume_of, total_in, sum_by. simpl. reflexivity.
    + exact I.
Qed.
Lemma add_all_inv cf l : forall c c', Inv cf c -> Forall (fun p => wf_subst (fst p)) l -> add_all cf c l = Ok c' -> Inv cf c'.
Proof.
  induction l as [|[s q] t IH]; simpl; intros c c' I Hl H.
  - inversion H; subst; exact I.
  - inversion Hl as [|x y Hs Ht]; subst. simpl in Hs. unfold bind in H.
    destruct (self_add cf c s q) as [c1|] eqn:E; [|discriminate].
    eapply IH; [eapply self_add_inv; eassumption | exact Ht | exact H].
Qed.
Theorem make_container_inv cf name mx init c :
  Forall (fun p => wf_subst (fst p)) init -> make_container cf name mx init = Ok c -> Inv cf c.
Proof.
  unfold make_container, bind. destruct (new_container cf name mx) as [c0|] eqn:E; [|discriminate].
  intros Hl H. eapply add_all_inv; [eapply new_container_inv; eassumption | exact Hl | exact H].
Qed.

(* ---------- remove (C17) ---------- *)
Lemma sum_by_filter_le f (P : substance * Q -> bool) c :
  (forall s a, In (s, a) c -> 0 <= f s a) -> sum_by f (filter P c) <= sum_by f c.
Proof.
  induction c as [|[s a] t IH]; intros H; simpl; [unfold sum_by; simpl; lra|].
  assert (Ht : sum_by f (filter P t) <= sum_by f t) by (apply IH; intros; apply H; right; assumption).
  pose proof (H s a (or_introl eq_refl)).
  destruct (P (s, a)); rewrite ?sum_by_cons; lra.
Qed.
Lemma nonneg_filter P c : nonneg c -> nonneg (filter P c).
Proof.
  unfold nonneg. rewrite !Forall_forall. intros H x Hx. apply filter_In in Hx. apply H. tauto.
Qed.
Lemma all_subst_filter Q P c : all_subst Q c -> all_subst Q (filter P c).
Proof.
  unfold all_subst. rewrite !Forall_forall. intros H x Hx. apply filter_In in Hx. apply H. tauto.
Qed.

Theorem remove_inv cf c w : Inv cf c -> Inv cf (remove cf c w).
Proof.
  intros [wf ss n v cp]. unfold remove. constructor; simpl.
  - apply wfc_filter. exact wf.
  - apply all_subst_filter. exact ss.
  - apply nonneg_filter. exact n.
  - reflexivity.
  - destruct (maxv c) as [m|]; [|exact I].
    assert (volume_of cf (filter (fun p => negb (selected w (fst p))) (cont c)) <= volume_of cf (cont c)).
    { unfold volume_of, total_in. apply sum_by_filter_le. intros s a Hin. apply conv_stored_nonneg.
      - eapply all_subst_in; eassumption.
      - eapply nonneg_in; eassumption. }
    lra.
Qed.

(* C17: no selected substance remains, every other amount is unchanged, name and capacity are kept,
   and the volume is reduced by exactly the volume of what was removed *)
Theorem remove_post cf c w :
  (forall s, selected w s = true -> get s (cont (remove cf c w)) = 0 /\ ~ In s (keys (cont (remove cf c w)))) /\
  (forall s, selected w s = false -> get s (cont (remove cf c w)) = get s (cont c)) /\
  cname (remove cf c w) = cname c /\ maxv (remove cf c w) = maxv c.
Proof.
  unfold remove; simpl. repeat split.
  - rewrite (get_filter s (fun k => negb (selected w k))). rewrite H. reflexivity.
  - unfold keys. rewrite in_map_iff. intros [[s' a] [E Hin]]. simpl in E. subst s'.
    apply filter_In in Hin. destruct Hin as [_ Hs]. simpl in Hs. rewrite H in Hs. discriminate.
  - intros s H. rewrite (get_filter s (fun k => negb (selected w k))). rewrite H. reflexivity.
Qed.
Lemma sum_by_filter_split f (P : substance -> bool) c :
  sum_by f c == sum_by f (filter (fun p => P (fst p)) c) + sum_by f (filter (fun p => negb (P (fst p))) c).
Proof.
  induction c as [|[s a] t IH]; simpl; [unfold sum_by; simpl; ring|].
  destruct (P s); simpl; rewrite !sum_by_cons, IH; ring.
Qed.
Theorem remove_volume cf c w :
  Inv cf c ->
  vol (remove cf c w) == vol c - volume_of cf (filter (fun p => selected w (fst p)) (cont c)).
Proof.
  intros I. rewrite (inv_vol _ _ I). unfold remove; simpl. unfold volume_of, total_in.
  rewrite (sum_by_filter_split _ (selected w) (cont c)). ring.
Qed.

(* ---------- fill_to (C11) ---------- *)
Lemma conv_roundtrip_stored cf s x b ata :
  wf_subst s -> is_enzyme s = false -> b <> BU ->
  conv s x (P0, b) (stored_unit cf s) = Some ata -> conv_stored cf s ata (P0, b) == x.
Proof.
  intros (Hm & Hd & Ha) He Hb. pose proof (pmult_pos (mol_pfx cf)) as Hpm.
  unfold conv_stored, stored_unit, mol_unit, conv, conv_base, is_enzyme in *.
  destruct s as [i k m d ac]; simpl in *.
  destruct k, b; simpl; try discriminate; try congruence; intros E; inversion E; subst; clear E;
    change (pmult P0) with 1; field; repeat split; lra.
Qed.

Lemma Qmax0_spec x : 0 <= x -> Qmax0 x == x.
Proof. intros H. unfold Qmax0. destruct (Qltb x 0) eqn:E; [apply Qltb_lt in E; lra | reflexivity]. Qed.

Lemma fill_to_ok cf c solvent q c' :
  fill_to cf c solvent q = Ok c' ->
  0 < qv q /\ qbase q <> BU /\ 0 <= qv q - total_in cf (cont c) (P0, qbase q) /\
  self_add cf c solvent {| qval := Qmax0 (qv q - total_in cf (cont c) (P0, qbase q)); qpfx := P0; qbase := qbase q |} = Ok c'.
Proof.
  unfold fill_to. destruct (Qle_bool (qv q) 0) eqn:E0; [discriminate|].
  assert (0 < qv q). { apply Qnot_le_lt. intro Hle. apply Qle_bool_iff in Hle. congruence. }
  destruct (qbase q) eqn:Eb; [discriminate| | |];
    (destruct (Qltb (rnd _) 0) eqn:E1; [discriminate|]; apply Qltb_ge in E1; rewrite rnd_eq in E1;
     intros Hs; repeat split; auto; discriminate).
Qed.

(* fill_to reaches the target total in the unit of the request by adding only solvent *)
Theorem fill_to_post cf c solvent q c' :
  Inv cf c -> wf_subst solvent -> is_enzyme solvent = false -> fill_to cf c solvent q = Ok c' ->
  total_in cf (cont c') (P0, qbase q) == qv q /\
  (forall k, k <> solvent -> get k (cont c') = get k (cont c)) /\ get solvent (cont c) <= get solvent (cont c') /\
  cname c' = cname c /\ maxv c' = maxv c /\ Inv cf c'.
Proof.
  intros I Hs He H. apply fill_to_ok in H. destruct H as (Hq & Hb & Hreq & Hadd).
  pose proof (self_add_contents _ _ _ _ _ Hadd) as (Hk & Hge & Hn & Hm).
  split; [|repeat split; auto; eapply self_add_inv; eassumption].
  pose proof Hadd as Hadd'. apply self_add_ok in Hadd'. destruct Hadd' as (vta & ata & Ev & Ea & Ha & Hv & Hov & ->). simpl in *.
  rewrite total_in_upd by apply (inv_wf _ _ I). rewrite rnd_eq, conv_stored_add.
  pose proof (conv_roundtrip_stored cf solvent _ (qbase q) ata Hs He Hb Ea) as R.
  rewrite R. unfold qv at 1. simpl. change (pmult P0) with 1. rewrite Qmax0_spec by exact Hreq. ring.
Qed.

Theorem fill_below_refused cf c solvent q :
  total_in cf (cont c) (P0, qbase q) > qv q -> fill_to cf c solvent q = Err EValue.
Proof.
  intros H. unfold fill_to. destruct (Qle_bool (qv q) 0); [reflexivity|].
  destruct (qbase q); [reflexivity| | |];
    (match goal with |- context [Qltb (rnd ?x) 0] =>
       assert (E : Qltb (rnd x) 0 = true) by (apply Qltb_lt; rewrite rnd_eq; lra); rewrite E; reflexivity end).
Qed.
Theorem fill_to_err_is_value cf c solvent q e : fill_to cf c solvent q = Err e -> e = EValue.
Proof.
  unfold fill_to. destruct (Qle_bool _ 0); [intros H; inversion H; reflexivity|].
  destruct (qbase q); [intros H; inversion H; reflexivity| | |];
    (destruct (Qltb _ 0); [intros H; inversion H; reflexivity | apply self_add_err_is_value]).
Qed.

(* ---------- observers equal their definitions (C10) ---------- *)
Theorem get_volume_def cf c p : Inv cf c -> get_volume cf c p == total_in cf (cont c) (p, BL).
Proof.
  intros I. unfold get_volume. rewrite from_storage_vol_spec, (inv_vol _ _ I). unfold volume_of, vol_unit.
  rewrite (total_in_prefix cf (cont c) (vol_pfx cf) BL), (total_in_prefix cf (cont c) p BL).
  field. split; apply pmult_nz.
Qed.
Theorem get_concentration_def cf c s mult nb db :
  Inv cf c -> ~ conv_stored cf s (get s (cont c)) (P0, nb) == 0 ->
  get_concentration cf c s mult nb db == conv_stored cf s (get s (cont c)) (P0, nb) / total_in cf (cont c) (P0, db) / mult.
Proof.
  intros I Hnz. unfold get_concentration.
  destruct (Qeqb _ 0) eqn:E; [apply Qeqb_eq in E; contradiction|].
  rewrite rnd_eq. destruct db; try reflexivity.
  rewrite <- (get_volume_def cf c P0 I). reflexivity.
Qed.
Theorem get_concentration_absent cf c s mult nb db :
  conv_stored cf s (get s (cont c)) (P0, nb) == 0 -> get_concentration cf c s mult nb db = 0.
Proof.
  intros H. unfold get_concentration. apply Qeqb_eq in H. rewrite H. reflexivity.
Qed.
