(* FlowsThm.v -- get_container_flows over the snapshots (C15): non-negative, pure withdrawals are no inflow,
   inflow - outflow telescopes to the change of the object's own state in the table. *)
Require Import Base Units Contents Container Dilute Solve Plate Prog Recipe RecipeThm.

Lemma Qpos_nonneg x : 0 <= Qpos x.
Proof. unfold Qpos. destruct (Qltb x 0) eqn:E; [lra | apply Qltb_ge in E; exact E]. Qed.
Lemma Qpos_diff x : Qpos x - Qpos (- x) == x.
Proof.
  unfold Qpos. destruct (Qltb x 0) eqn:E1; destruct (Qltb (- x) 0) eqn:E2;
    try apply Qltb_lt in E1; try apply Qltb_lt in E2; try apply Qltb_ge in E1; try apply Qltb_ge in E2; lra.
Qed.
Lemma Qpos_nonpos x : x <= 0 -> Qpos x == 0.
Proof. intros H. unfold Qpos. destruct (Qltb x 0) eqn:E; [reflexivity | apply Qltb_ge in E; lra]. Qed.

Lemma vadd_length a b : length (vadd a b) = Nat.min (length a) (length b).
Proof. unfold vadd. rewrite map_length, combine_length. reflexivity. Qed.
Lemma vsub_length a b : length (vsub a b) = Nat.min (length a) (length b).
Proof. unfold vsub. rewrite map_length, combine_length. reflexivity. Qed.
Lemma nth_combine_map (f : Q * Q -> Q) : forall a b j, (j < length a)%nat -> (j < length b)%nat ->
  nth j (map f (combine a b)) 0 = f (nth j a 0, nth j b 0).
Proof.
  induction a as [|x a IH]; intros [|y b] [|j] Ha Hb; simpl in *; try lia; [reflexivity | apply IH; lia].
Qed.
Lemma nth_vadd a b j : (j < length a)%nat -> (j < length b)%nat -> nth j (vadd a b) 0 = nth j a 0 + nth j b 0.
Proof. intros. unfold vadd. rewrite nth_combine_map by assumption. reflexivity. Qed.
Lemma nth_vsub a b j : (j < length a)%nat -> (j < length b)%nat -> nth j (vsub a b) 0 = nth j a 0 - nth j b 0.
Proof. intros. unfold vsub. rewrite nth_combine_map by assumption. reflexivity. Qed.
Lemma nth_map_Qpos l j : nth j (map Qpos l) 0 = Qpos (nth j l 0).
Proof. change 0 with (Qpos 0) at 1. apply map_nth. Qed.
Lemma nth_map_Qneg l j : nth j (map (fun x => Qpos (- x)) l) 0 = Qpos (- nth j l 0).
Proof. change 0 with ((fun x => Qpos (- x)) 0) at 1. apply (map_nth (fun x => Qpos (- x))). Qed.
Lemma nth_nonneg l j : Forall (fun x => 0 <= x) l -> 0 <= nth j l 0.
Proof.
  revert j; induction l as [|x t IH]; intros [|j] H; simpl; try lra; inversion H; subst; auto.
Qed.
Lemma vadd_nonneg a b : Forall (fun x => 0 <= x) a -> Forall (fun x => 0 <= x) b -> Forall (fun x => 0 <= x) (vadd a b).
Proof.
  revert b; induction a as [|x a IH]; intros [|y b] Ha Hb; simpl; try constructor; inversion Ha; inversion Hb; subst; simpl; [lra | apply IH; assumption].
Qed.

Definition flow_step (cf : cfg) (u : unit_) (n : nat) (acc : list Q * list Q) (k : snap) : list Q * list Q :=
  match step_change cf u n k with
  | Some ch => (vadd (fst acc) (map Qpos ch), vadd (snd acc) (map (fun x => Qpos (- x)) ch))
  | None => acc
  end.
Lemma flows_unfold cf u n w tr : flows cf u n w tr = fold_left (flow_step cf u n) tr (repeat 0 w, repeat 0 w).
Proof. reflexivity. Qed.

Theorem flows_nonneg cf u n w tr j :
  0 <= nth j (fst (flows cf u n w tr)) 0 /\ 0 <= nth j (snd (flows cf u n w tr)) 0.
Proof.
  rewrite flows_unfold.
  assert (G : forall tr acc, Forall (fun x => 0 <= x) (fst acc) -> Forall (fun x => 0 <= x) (snd acc) ->
              Forall (fun x => 0 <= x) (fst (fold_left (flow_step cf u n) tr acc)) /\
              Forall (fun x => 0 <= x) (snd (fold_left (flow_step cf u n) tr acc))).
  { induction tr0 as [|k t IH]; intros acc H1 H2; simpl; [auto|]. apply IH; unfold flow_step; destruct (step_change cf u n k) as [ch|]; simpl; auto.
    - apply vadd_nonneg; [exact H1|]. apply Forall_forall. intros x Hx. apply in_map_iff in Hx. destruct Hx as [y [<- _]]. apply Qpos_nonneg.
    - apply vadd_nonneg; [exact H2|]. apply Forall_forall. intros x Hx. apply in_map_iff in Hx. destruct Hx as [y [<- _]]. apply Qpos_nonneg. }
  assert (Z : Forall (fun x => 0 <= x) (repeat 0 w)) by (apply Forall_forall; intros x Hx; apply repeat_spec in Hx; subst; lra).
  destruct (G tr (repeat 0 w, repeat 0 w) Z Z) as [A B]. split; apply nth_nonneg; assumption.
Qed.

Theorem withdrawal_not_inflow cf u n w tr j :
  (forall k ch, In k tr -> step_change cf u n k = Some ch -> nth j ch 0 <= 0) -> nth j (fst (flows cf u n w tr)) 0 == 0.
Proof.
  rewrite flows_unfold. intros H.
  assert (G : forall tr acc, (forall k ch, In k tr -> step_change cf u n k = Some ch -> nth j ch 0 <= 0) ->
              nth j (fst acc) 0 == 0 -> nth j (fst (fold_left (flow_step cf u n) tr acc)) 0 == 0).
  { induction tr0 as [|k t IH]; intros acc Hk H0; simpl; [exact H0|]. apply IH; [intros; eapply Hk; [right|]; eassumption|].
    unfold flow_step. destruct (step_change cf u n k) as [ch|] eqn:E; simpl; [|exact H0].
    destruct (Nat.lt_ge_cases j (length (fst acc))) as [L1|L1]; destruct (Nat.lt_ge_cases j (length (map Qpos ch))) as [L2|L2].
    - rewrite nth_vadd by assumption. rewrite nth_map_Qpos, H0, Qpos_nonpos; [lra|]. eapply Hk; [left; reflexivity | exact E].
    - rewrite nth_overflow; [reflexivity|]. rewrite vadd_length. lia.
    - rewrite nth_overflow; [reflexivity|]. rewrite vadd_length. lia.
    - rewrite nth_overflow; [reflexivity|]. rewrite vadd_length. lia. }
  apply G; [exact H|]. simpl. destruct (Nat.lt_ge_cases j w) as [L|L]; [rewrite nth_repeat; reflexivity | rewrite nth_overflow; [reflexivity | rewrite repeat_length; exact L]].
Qed.

(* every state the object [n] takes along the trace has the same number of entries (1 for a container, rows*cols for a plate) *)
Definition widths_ok (cf : cfg) (u : unit_) (n w : nat) (e : renv) (tr : list snap) : Prop :=
  (forall o, rget n e = Some o -> length (totals cf u o) = w) /\
  forall k, In k tr ->
    (s_to k = n -> length (totals cf u (s_to1 k)) = w) /\
    (forall o0 o1, s_frm k = Some (n, o0, o1) -> length (totals cf u o1) = w).

Lemma step_change_spec cf d13 e st e' k u n :
  bake_step cf d13 e st = Ok (e', k) ->
  match step_change cf u n k with
  | None => rget n e' = rget n e
  | Some ch => exists o0 o1, rget n e = Some o0 /\ rget n e' = Some o1 /\ ch = vsub (totals cf u o1) (totals cf u o0) /\
                             ((s_to k = n /\ o1 = s_to1 k) \/ (exists o0', s_frm k = Some (n, o0', o1)))
  end.
Proof.
  intros E. destruct (bake_step_frame _ _ _ _ _ _ E) as (H0 & H1 & Hfrm & Hf & _ & Hobjs).
  unfold step_change. destruct (in_list n (s_objs k)) eqn:Ein; simpl.
  - destruct (Nat.eqb (s_to k) n) eqn:Et.
    + apply Nat.eqb_eq in Et. subst n. exists (s_to0 k), (s_to1 k). repeat split; auto.
    + apply Nat.eqb_neq in Et. unfold in_list in Ein. apply existsb_exists in Ein. destruct Ein as [m [Hm Em]]. apply Nat.eqb_eq in Em. subst m.
      apply Hobjs in Hm. destruct Hm as [Hm|Hm]; [congruence|]. unfold frm_name in Hm.
      destruct (s_frm k) as [[[m o0] o1]|] eqn:Ef; [|discriminate]. inversion Hm; subst m. rewrite Nat.eqb_refl.
      destruct (Hfrm _ _ _ eq_refl) as [Ha Hb]. exists o0, o1. repeat split; auto. right. exists o0. reflexivity.
  - assert (Hn : ~ In n (s_objs k)).
    { intro Hin. unfold in_list in Ein. assert (existsb (Nat.eqb n) (s_objs k) = true); [|congruence].
      apply existsb_exists. exists n. split; [exact Hin | apply Nat.eqb_refl]. }
    apply Hf; intro Hx; apply Hn; apply Hobjs; [left; exact Hx | right; exact Hx].
Qed.

Lemma flows_gen cf d13 u n w j : (j < w)%nat -> forall steps e e' tr o o' acc,
  bake_steps cf d13 e steps = Ok (e', tr) -> rget n e = Some o -> rget n e' = Some o' -> widths_ok cf u n w e tr ->
  length (fst acc) = w -> length (snd acc) = w ->
  nth j (fst (fold_left (flow_step cf u n) tr acc)) 0 - nth j (snd (fold_left (flow_step cf u n) tr acc)) 0 ==
  nth j (fst acc) 0 - nth j (snd acc) 0 + (nth j (totals cf u o') 0 - nth j (totals cf u o) 0).
Proof.
  intros Hj. induction steps as [|s t IH]; intros e e' tr o o' acc H Ho Ho' Hw L1 L2; simpl in H.
  - injection H as He Htr. subst e' tr. simpl. rewrite Ho in Ho'. injection Ho' as Hoo. subst o'. ring.
  - unfold bind in H. destruct (bake_step cf d13 e s) as [[e0 k]|] eqn:E; [|discriminate]. simpl in H.
    destruct (bake_steps cf d13 e0 t) as [[e2 tr2]|] eqn:E2; [|discriminate]. simpl in H. injection H as He Htr. subst e' tr.
    simpl. destruct Hw as [Hw0 Hwk].
    pose proof (step_change_spec cf d13 e s e0 k u n E) as Hsc. unfold flow_step at 2 4.
    destruct (step_change cf u n k) as [ch|] eqn:Ech.
    + destruct Hsc as (o0 & o1 & Ha & Hb & Hch & Hwhich). rewrite Ho in Ha. inversion Ha; subst o0.
      assert (W0 : length (totals cf u o) = w) by (apply Hw0; exact Ho).
      assert (W1 : length (totals cf u o1) = w).
      { destruct (Hwk k (or_introl eq_refl)) as [Wt Wf]. destruct Hwhich as [[Ht ->]|[o0' Hf]]; [apply Wt; exact Ht | eapply Wf; exact Hf]. }
      assert (Lch : length ch = w) by (subst ch; rewrite vsub_length; lia).
      assert (Hw' : widths_ok cf u n w e0 tr2).
      { split; [intros o2 Ho2; rewrite Hb in Ho2; injection Ho2 as Ho2; subst o2; exact W1 | intros k' Hk'; apply Hwk; right; exact Hk']. }
      assert (L1' : length (vadd (fst acc) (map Qpos ch)) = w) by (rewrite vadd_length, map_length; lia).
      assert (L2' : length (vadd (snd acc) (map (fun x => Qpos (- x)) ch)) = w) by (rewrite vadd_length, map_length; lia).
      rewrite (IH e0 e2 tr2 o1 o' (vadd (fst acc) (map Qpos ch), vadd (snd acc) (map (fun x => Qpos (- x)) ch)) E2 Hb Ho' Hw' L1' L2').
      simpl. rewrite !nth_vadd by (rewrite ?map_length; lia). rewrite nth_map_Qpos, nth_map_Qneg.
      pose proof (Qpos_diff (nth j ch 0)) as Hd. rewrite Hch in Hd. rewrite Hch. rewrite nth_vsub in * by lia. lra.
    + assert (Ho0 : rget n e0 = Some o) by (rewrite Hsc; exact Ho).
      assert (Hw' : widths_ok cf u n w e0 tr2).
      { split; [intros o2 Ho2; apply Hw0; rewrite <- Hsc; exact Ho2 | intros k' Hk'; apply Hwk; right; exact Hk']. }
      rewrite (IH e0 e2 tr2 o o' acc E2 Ho0 Ho' Hw' L1 L2). reflexivity.
Qed.

(* inflow - outflow = the object's total at the end of the timeframe - its total at the start, per well *)
Theorem flows_balance cf d13 steps e e' tr u n w o o' j :
  bake_steps cf d13 e steps = Ok (e', tr) -> rget n e = Some o -> rget n e' = Some o' -> widths_ok cf u n w e tr ->
  (j < w)%nat ->
  nth j (fst (flows cf u n w tr)) 0 - nth j (snd (flows cf u n w tr)) 0 == nth j (totals cf u o') 0 - nth j (totals cf u o) 0.
Proof.
  intros H Ho Ho' Hw Hj. rewrite flows_unfold.
  rewrite (flows_gen cf d13 u n w j Hj steps e e' tr o o' (repeat 0 w, repeat 0 w) H Ho Ho' Hw); simpl; try apply repeat_length.
  rewrite nth_repeat. ring.
Qed.
