Base.vo Base.glob Base.v.beautified Base.required_vo: Base.v 
Base.vio: Base.v 
Base.vos Base.vok Base.required_vos: Base.v 
Units.vo Units.glob Units.v.beautified Units.required_vo: Units.v Base.vo
Units.vio: Units.v Base.vio
Units.vos Units.vok Units.required_vos: Units.v Base.vos
UnitsThm.vo UnitsThm.glob UnitsThm.v.beautified UnitsThm.required_vo: UnitsThm.v Base.vo Units.vo
UnitsThm.vio: UnitsThm.v Base.vio Units.vio
UnitsThm.vos UnitsThm.vok UnitsThm.required_vos: UnitsThm.v Base.vos Units.vos
GenBase.vo GenBase.glob GenBase.v.beautified GenBase.required_vo: GenBase.v Base.vo
GenBase.vio: GenBase.v Base.vio
GenBase.vos GenBase.vok GenBase.required_vos: GenBase.v Base.vos
gen/UnitsGen.vo gen/UnitsGen.glob gen/UnitsGen.v.beautified gen/UnitsGen.required_vo: gen/UnitsGen.v Base.vo Units.vo GenBase.vo
gen/UnitsGen.vio: gen/UnitsGen.v Base.vio Units.vio GenBase.vio
gen/UnitsGen.vos gen/UnitsGen.vok gen/UnitsGen.required_vos: gen/UnitsGen.v Base.vos Units.vos GenBase.vos
UnitsGenOK.vo UnitsGenOK.glob UnitsGenOK.v.beautified UnitsGenOK.required_vo: UnitsGenOK.v Base.vo Units.vo UnitsThm.vo GenBase.vo gen/UnitsGen.vo
UnitsGenOK.vio: UnitsGenOK.v Base.vio Units.vio UnitsThm.vio GenBase.vio gen/UnitsGen.vio
UnitsGenOK.vos UnitsGenOK.vok UnitsGenOK.required_vos: UnitsGenOK.v Base.vos Units.vos UnitsThm.vos GenBase.vos gen/UnitsGen.vos
Contents.vo Contents.glob Contents.v.beautified Contents.required_vo: Contents.v Base.vo Units.vo
Contents.vio: Contents.v Base.vio Units.vio
Contents.vos Contents.vok Contents.required_vos: Contents.v Base.vos Units.vos
Container.vo Container.glob Container.v.beautified Container.required_vo: Container.v Base.vo Units.vo Contents.vo
Container.vio: Container.v Base.vio Units.vio Contents.vio
Container.vos Container.vok Container.required_vos: Container.v Base.vos Units.vos Contents.vos
ContainerThm.vo ContainerThm.glob ContainerThm.v.beautified ContainerThm.required_vo: ContainerThm.v Base.vo Units.vo UnitsThm.vo Contents.vo Container.vo
ContainerThm.vio: ContainerThm.v Base.vio Units.vio UnitsThm.vio Contents.vio Container.vio
ContainerThm.vos ContainerThm.vok ContainerThm.required_vos: ContainerThm.v Base.vos Units.vos UnitsThm.vos Contents.vos Container.vos
Dilute.vo Dilute.glob Dilute.v.beautified Dilute.required_vo: Dilute.v Base.vo Units.vo Contents.vo Container.vo
Dilute.vio: Dilute.v Base.vio Units.vio Contents.vio Container.vio
Dilute.vos Dilute.vok Dilute.required_vos: Dilute.v Base.vos Units.vos Contents.vos Container.vos
Solve.vo Solve.glob Solve.v.beautified Solve.required_vo: Solve.v Base.vo Units.vo Contents.vo Container.vo Dilute.vo
Solve.vio: Solve.v Base.vio Units.vio Contents.vio Container.vio Dilute.vio
Solve.vos Solve.vok Solve.required_vos: Solve.v Base.vos Units.vos Contents.vos Container.vos Dilute.vos
Plate.vo Plate.glob Plate.v.beautified Plate.required_vo: Plate.v Base.vo Units.vo Contents.vo Container.vo
Plate.vio: Plate.v Base.vio Units.vio Contents.vio Container.vio
Plate.vos Plate.vok Plate.required_vos: Plate.v Base.vos Units.vos Contents.vos Container.vos
Prog.vo Prog.glob Prog.v.beautified Prog.required_vo: Prog.v Base.vo Units.vo Contents.vo Container.vo Plate.vo Dilute.vo Solve.vo
Prog.vio: Prog.v Base.vio Units.vio Contents.vio Container.vio Plate.vio Dilute.vio Solve.vio
Prog.vos Prog.vok Prog.required_vos: Prog.v Base.vos Units.vos Contents.vos Container.vos Plate.vos Dilute.vos Solve.vos
Props/C06.vo Props/C06.glob Props/C06.v.beautified Props/C06.required_vo: Props/C06.v Base.vo Units.vo UnitsThm.vo GenBase.vo gen/UnitsGen.vo UnitsGenOK.vo
Props/C06.vio: Props/C06.v Base.vio Units.vio UnitsThm.vio GenBase.vio gen/UnitsGen.vio UnitsGenOK.vio
Props/C06.vos Props/C06.vok Props/C06.required_vos: Props/C06.v Base.vos Units.vos UnitsThm.vos GenBase.vos gen/UnitsGen.vos UnitsGenOK.vos
