Base.vo Base.glob Base.v.beautified Base.required_vo: Base.v 
Base.vio: Base.v 
Base.vos Base.vok Base.required_vos: Base.v 
Units.vo Units.glob Units.v.beautified Units.required_vo: Units.v Base.vo
Units.vio: Units.v Base.vio
Units.vos Units.vok Units.required_vos: Units.v Base.vos
UnitsThm.vo UnitsThm.glob UnitsThm.v.beautified UnitsThm.required_vo: UnitsThm.v Base.vo Units.vo
UnitsThm.vio: UnitsThm.v Base.vio Units.vio
UnitsThm.vos UnitsThm.vok UnitsThm.required_vos: UnitsThm.v Base.vos Units.vos
GenBase.vo GenBase.glob GenBase.v.beautified GenBase.required_vo: GenBase.v Base.vo
GenBase.vio: GenBase.v Base.vio
GenBase.vos GenBase.vok GenBase.required_vos: GenBase.v Base.vos
gen/UnitsGen.vo gen/UnitsGen.glob gen/UnitsGen.v.beautified gen/UnitsGen.required_vo: gen/UnitsGen.v Base.vo Units.vo GenBase.vo
gen/UnitsGen.vio: gen/UnitsGen.v Base.vio Units.vio GenBase.vio
gen/UnitsGen.vos gen/UnitsGen.vok gen/UnitsGen.required_vos: gen/UnitsGen.v Base.vos Units.vos GenBase.vos
UnitsGenOK.vo UnitsGenOK.glob UnitsGenOK.v.beautified UnitsGenOK.required_vo: UnitsGenOK.v Base.vo Units.vo UnitsThm.vo GenBase.vo gen/UnitsGen.vo
UnitsGenOK.vio: UnitsGenOK.v Base.vio Units.vio UnitsThm.vio GenBase.vio gen/UnitsGen.vio
UnitsGenOK.vos UnitsGenOK.vok UnitsGenOK.required_vos: UnitsGenOK.v Base.vos Units.vos UnitsThm.vos GenBase.vos gen/UnitsGen.vos
Props/C06.vo Props/C06.glob Props/C06.v.beautified Props/C06.required_vo: Props/C06.v Base.vo Units.vo UnitsThm.vo GenBase.vo gen/UnitsGen.vo UnitsGenOK.vo
Props/C06.vio: Props/C06.v Base.vio Units.vio UnitsThm.vio GenBase.vio gen/UnitsGen.vio UnitsGenOK.vio
Props/C06.vos Props/C06.vok Props/C06.required_vos: Props/C06.v Base.vos Units.vos UnitsThm.vos GenBase.vos gen/UnitsGen.vos UnitsGenOK.vos
