Base.vo Base.glob Base.v.beautified Base.required_vo: Base.v 
Base.vio: Base.v 
Base.vos Base.vok Base.required_vos: Base.v 
Units.vo Units.glob Units.v.beautified Units.required_vo: Units.v Base.vo
Units.vio: Units.v Base.vio
Units.vos Units.vok Units.required_vos: Units.v Base.vos
UnitsThm.vo UnitsThm.glob UnitsThm.v.beautified UnitsThm.required_vo: UnitsThm.v Base.vo Units.vo
UnitsThm.vio: UnitsThm.v Base.vio Units.vio
UnitsThm.vos UnitsThm.vok UnitsThm.required_vos: UnitsThm.v Base.vos Units.vos
GenBase.vo GenBase.glob GenBase.v.beautified GenBase.required_vo: GenBase.v Base.vo
GenBase.vio: GenBase.v Base.vio
GenBase.vos GenBase.vok GenBase.required_vos: GenBase.v Base.vos
gen/UnitsGen.vo gen/UnitsGen.glob gen/UnitsGen.v.beautified gen/UnitsGen.required_vo: gen/UnitsGen.v Base.vo Units.vo GenBase.vo
gen/UnitsGen.vio: gen/UnitsGen.v Base.vio Units.vio GenBase.vio
gen/UnitsGen.vos gen/UnitsGen.vok gen/UnitsGen.required_vos: gen/UnitsGen.v Base.vos Units.vos GenBase.vos
UnitsGenOK.vo UnitsGenOK.glob UnitsGenOK.v.beautified UnitsGenOK.required_vo: UnitsGenOK.v Base.vo Units.vo UnitsThm.vo GenBase.vo gen/UnitsGen.vo
UnitsGenOK.vio: UnitsGenOK.v Base.vio Units.vio UnitsThm.vio GenBase.vio gen/UnitsGen.vio
UnitsGenOK.vos UnitsGenOK.vok UnitsGenOK.required_vos: UnitsGenOK.v Base.vos Units.vos UnitsThm.vos GenBase.vos gen/UnitsGen.vos
gen/UnitsSym.vo gen/UnitsSym.glob gen/UnitsSym.v.beautified gen/UnitsSym.required_vo: gen/UnitsSym.v Base.vo Units.vo GenBase.vo
gen/UnitsSym.vio: gen/UnitsSym.v Base.vio Units.vio GenBase.vio
gen/UnitsSym.vos gen/UnitsSym.vok gen/UnitsSym.required_vos: gen/UnitsSym.v Base.vos Units.vos GenBase.vos
UnitsSymOK.vo UnitsSymOK.glob UnitsSymOK.v.beautified UnitsSymOK.required_vo: UnitsSymOK.v Base.vo Units.vo UnitsThm.vo GenBase.vo gen/UnitsSym.vo
UnitsSymOK.vio: UnitsSymOK.v Base.vio Units.vio UnitsThm.vio GenBase.vio gen/UnitsSym.vio
UnitsSymOK.vos UnitsSymOK.vok UnitsSymOK.required_vos: UnitsSymOK.v Base.vos Units.vos UnitsThm.vos GenBase.vos gen/UnitsSym.vos
gen/UnitsTie.vo gen/UnitsTie.glob gen/UnitsTie.v.beautified gen/UnitsTie.required_vo: gen/UnitsTie.v Base.vo Units.vo UnitsThm.vo GenBase.vo gen/UnitsGen.vo UnitsGenOK.vo gen/UnitsSym.vo UnitsSymOK.vo
gen/UnitsTie.vio: gen/UnitsTie.v Base.vio Units.vio UnitsThm.vio GenBase.vio gen/UnitsGen.vio UnitsGenOK.vio gen/UnitsSym.vio UnitsSymOK.vio
gen/UnitsTie.vos gen/UnitsTie.vok gen/UnitsTie.required_vos: gen/UnitsTie.v Base.vos Units.vos UnitsThm.vos GenBase.vos gen/UnitsGen.vos UnitsGenOK.vos gen/UnitsSym.vos UnitsSymOK.vos
Contents.vo Contents.glob Contents.v.beautified Contents.required_vo: Contents.v Base.vo Units.vo
Contents.vio: Contents.v Base.vio Units.vio
Contents.vos Contents.vok Contents.required_vos: Contents.v Base.vos Units.vos
Container.vo Container.glob Container.v.beautified Container.required_vo: Container.v Base.vo Units.vo Contents.vo
Container.vio: Container.v Base.vio Units.vio Contents.vio
Container.vos Container.vok Container.required_vos: Container.v Base.vos Units.vos Contents.vos
ContainerThm.vo ContainerThm.glob ContainerThm.v.beautified ContainerThm.required_vo: ContainerThm.v Base.vo Units.vo UnitsThm.vo Contents.vo Container.vo
ContainerThm.vio: ContainerThm.v Base.vio Units.vio UnitsThm.vio Contents.vio Container.vio
ContainerThm.vos ContainerThm.vok ContainerThm.required_vos: ContainerThm.v Base.vos Units.vos UnitsThm.vos Contents.vos Container.vos
Dilute.vo Dilute.glob Dilute.v.beautified Dilute.required_vo: Dilute.v Base.vo Units.vo Contents.vo Container.vo
Dilute.vio: Dilute.v Base.vio Units.vio Contents.vio Container.vio
Dilute.vos Dilute.vok Dilute.required_vos: Dilute.v Base.vos Units.vos Contents.vos Container.vos
DiluteThm.vo DiluteThm.glob DiluteThm.v.beautified DiluteThm.required_vo: DiluteThm.v Base.vo Units.vo UnitsThm.vo Contents.vo Container.vo ContainerThm.vo ContainerThm2.vo Dilute.vo
DiluteThm.vio: DiluteThm.v Base.vio Units.vio UnitsThm.vio Contents.vio Container.vio ContainerThm.vio ContainerThm2.vio Dilute.vio
DiluteThm.vos DiluteThm.vok DiluteThm.required_vos: DiluteThm.v Base.vos Units.vos UnitsThm.vos Contents.vos Container.vos ContainerThm.vos ContainerThm2.vos Dilute.vos
Solve.vo Solve.glob Solve.v.beautified Solve.required_vo: Solve.v Base.vo Units.vo Contents.vo Container.vo Dilute.vo
Solve.vio: Solve.v Base.vio Units.vio Contents.vio Container.vio Dilute.vio
Solve.vos Solve.vok Solve.required_vos: Solve.v Base.vos Units.vos Contents.vos Container.vos Dilute.vos
SolveThm.vo SolveThm.glob SolveThm.v.beautified SolveThm.required_vo: SolveThm.v Base.vo Units.vo UnitsThm.vo Contents.vo Container.vo ContainerThm.vo ContainerThm2.vo Dilute.vo Solve.vo
SolveThm.vio: SolveThm.v Base.vio Units.vio UnitsThm.vio Contents.vio Container.vio ContainerThm.vio ContainerThm2.vio Dilute.vio Solve.vio
SolveThm.vos SolveThm.vok SolveThm.required_vos: SolveThm.v Base.vos Units.vos UnitsThm.vos Contents.vos Container.vos ContainerThm.vos ContainerThm2.vos Dilute.vos Solve.vos
Plate.vo Plate.glob Plate.v.beautified Plate.required_vo: Plate.v Base.vo Units.vo Contents.vo Container.vo
Plate.vio: Plate.v Base.vio Units.vio Contents.vio Container.vio
Plate.vos Plate.vok Plate.required_vos: Plate.v Base.vos Units.vos Contents.vos Container.vos
Prog.vo Prog.glob Prog.v.beautified Prog.required_vo: Prog.v Base.vo Units.vo Contents.vo Container.vo Plate.vo Dilute.vo Solve.vo
Prog.vio: Prog.v Base.vio Units.vio Contents.vio Container.vio Plate.vio Dilute.vio Solve.vio
Prog.vos Prog.vok Prog.required_vos: Prog.v Base.vos Units.vos Contents.vos Container.vos Plate.vos Dilute.vos Solve.vos
Instr.vo Instr.glob Instr.v.beautified Instr.required_vo: Instr.v Base.vo Units.vo UnitsThm.vo Contents.vo Container.vo
Instr.vio: Instr.v Base.vio Units.vio UnitsThm.vio Contents.vio Container.vio
Instr.vos Instr.vok Instr.required_vos: Instr.v Base.vos Units.vos UnitsThm.vos Contents.vos Container.vos
Heap.vo Heap.glob Heap.v.beautified Heap.required_vo: Heap.v Base.vo Units.vo Contents.vo Container.vo Plate.vo Dilute.vo Solve.vo
Heap.vio: Heap.v Base.vio Units.vio Contents.vio Container.vio Plate.vio Dilute.vio Solve.vio
Heap.vos Heap.vok Heap.required_vos: Heap.v Base.vos Units.vos Contents.vos Container.vos Plate.vos Dilute.vos Solve.vos
HeapThm.vo HeapThm.glob HeapThm.v.beautified HeapThm.required_vo: HeapThm.v Base.vo Units.vo Contents.vo Container.vo Plate.vo Dilute.vo Solve.vo Heap.vo
HeapThm.vio: HeapThm.v Base.vio Units.vio Contents.vio Container.vio Plate.vio Dilute.vio Solve.vio Heap.vio
HeapThm.vos HeapThm.vok HeapThm.required_vos: HeapThm.v Base.vos Units.vos Contents.vos Container.vos Plate.vos Dilute.vos Solve.vos Heap.vos
ConfigThm.vo ConfigThm.glob ConfigThm.v.beautified ConfigThm.required_vo: ConfigThm.v Base.vo Units.vo UnitsThm.vo Contents.vo Container.vo ContainerThm.vo ContainerThm2.vo Plate.vo
ConfigThm.vio: ConfigThm.v Base.vio Units.vio UnitsThm.vio Contents.vio Container.vio ContainerThm.vio ContainerThm2.vio Plate.vio
ConfigThm.vos ConfigThm.vok ConfigThm.required_vos: ConfigThm.v Base.vos Units.vos UnitsThm.vos Contents.vos Container.vos ContainerThm.vos ContainerThm2.vos Plate.vos
Parse.vo Parse.glob Parse.v.beautified Parse.required_vo: Parse.v Base.vo Units.vo
Parse.vio: Parse.v Base.vio Units.vio
Parse.vos Parse.vok Parse.required_vos: Parse.v Base.vos Units.vos
ParseThm.vo ParseThm.glob ParseThm.v.beautified ParseThm.required_vo: ParseThm.v Base.vo Units.vo Parse.vo
ParseThm.vio: ParseThm.v Base.vio Units.vio Parse.vio
ParseThm.vos ParseThm.vok ParseThm.required_vos: ParseThm.v Base.vos Units.vos Parse.vos
Slicer.vo Slicer.glob Slicer.v.beautified Slicer.required_vo: Slicer.v Base.vo Plate.vo
Slicer.vio: Slicer.v Base.vio Plate.vio
Slicer.vos Slicer.vok Slicer.required_vos: Slicer.v Base.vos Plate.vos
SlicerThm.vo SlicerThm.glob SlicerThm.v.beautified SlicerThm.required_vo: SlicerThm.v Base.vo Plate.vo Slicer.vo
SlicerThm.vio: SlicerThm.v Base.vio Plate.vio Slicer.vio
SlicerThm.vos SlicerThm.vok SlicerThm.required_vos: SlicerThm.v Base.vos Plate.vos Slicer.vos
Lifecycle.vo Lifecycle.glob Lifecycle.v.beautified Lifecycle.required_vo: Lifecycle.v Base.vo GenBase.vo
Lifecycle.vio: Lifecycle.v Base.vio GenBase.vio
Lifecycle.vos Lifecycle.vok Lifecycle.required_vos: Lifecycle.v Base.vos GenBase.vos
LifecycleThm.vo LifecycleThm.glob LifecycleThm.v.beautified LifecycleThm.required_vo: LifecycleThm.v Base.vo Lifecycle.vo
LifecycleThm.vio: LifecycleThm.v Base.vio Lifecycle.vio
LifecycleThm.vos LifecycleThm.vok LifecycleThm.required_vos: LifecycleThm.v Base.vos Lifecycle.vos
gen/LifecycleGen.vo gen/LifecycleGen.glob gen/LifecycleGen.v.beautified gen/LifecycleGen.required_vo: gen/LifecycleGen.v Base.vo GenBase.vo
gen/LifecycleGen.vio: gen/LifecycleGen.v Base.vio GenBase.vio
gen/LifecycleGen.vos gen/LifecycleGen.vok gen/LifecycleGen.required_vos: gen/LifecycleGen.v Base.vos GenBase.vos
LifecycleGenOK.vo LifecycleGenOK.glob LifecycleGenOK.v.beautified LifecycleGenOK.required_vo: LifecycleGenOK.v Base.vo GenBase.vo Lifecycle.vo LifecycleThm.vo gen/LifecycleGen.vo
LifecycleGenOK.vio: LifecycleGenOK.v Base.vio GenBase.vio Lifecycle.vio LifecycleThm.vio gen/LifecycleGen.vio
LifecycleGenOK.vos LifecycleGenOK.vok LifecycleGenOK.required_vos: LifecycleGenOK.v Base.vos GenBase.vos Lifecycle.vos LifecycleThm.vos gen/LifecycleGen.vos
gen/LifecycleSym.vo gen/LifecycleSym.glob gen/LifecycleSym.v.beautified gen/LifecycleSym.required_vo: gen/LifecycleSym.v Base.vo GenBase.vo
gen/LifecycleSym.vio: gen/LifecycleSym.v Base.vio GenBase.vio
gen/LifecycleSym.vos gen/LifecycleSym.vok gen/LifecycleSym.required_vos: gen/LifecycleSym.v Base.vos GenBase.vos
LifecycleSymOK.vo LifecycleSymOK.glob LifecycleSymOK.v.beautified LifecycleSymOK.required_vo: LifecycleSymOK.v Base.vo GenBase.vo Lifecycle.vo LifecycleThm.vo gen/LifecycleSym.vo
LifecycleSymOK.vio: LifecycleSymOK.v Base.vio GenBase.vio Lifecycle.vio LifecycleThm.vio gen/LifecycleSym.vio
LifecycleSymOK.vos LifecycleSymOK.vok LifecycleSymOK.required_vos: LifecycleSymOK.v Base.vos GenBase.vos Lifecycle.vos LifecycleThm.vos gen/LifecycleSym.vos
gen/LifecycleTie.vo gen/LifecycleTie.glob gen/LifecycleTie.v.beautified gen/LifecycleTie.required_vo: gen/LifecycleTie.v Base.vo GenBase.vo Lifecycle.vo LifecycleThm.vo gen/LifecycleGen.vo LifecycleGenOK.vo gen/LifecycleSym.vo LifecycleSymOK.vo
gen/LifecycleTie.vio: gen/LifecycleTie.v Base.vio GenBase.vio Lifecycle.vio LifecycleThm.vio gen/LifecycleGen.vio LifecycleGenOK.vio gen/LifecycleSym.vio LifecycleSymOK.vio
gen/LifecycleTie.vos gen/LifecycleTie.vok gen/LifecycleTie.required_vos: gen/LifecycleTie.v Base.vos GenBase.vos Lifecycle.vos LifecycleThm.vos gen/LifecycleGen.vos LifecycleGenOK.vos gen/LifecycleSym.vos LifecycleSymOK.vos
Recipe.vo Recipe.glob Recipe.v.beautified Recipe.required_vo: Recipe.v Base.vo Units.vo Contents.vo Container.vo Dilute.vo Solve.vo Plate.vo Prog.vo
Recipe.vio: Recipe.v Base.vio Units.vio Contents.vio Container.vio Dilute.vio Solve.vio Plate.vio Prog.vio
Recipe.vos Recipe.vok Recipe.required_vos: Recipe.v Base.vos Units.vos Contents.vos Container.vos Dilute.vos Solve.vos Plate.vos Prog.vos
RecipeThm.vo RecipeThm.glob RecipeThm.v.beautified RecipeThm.required_vo: RecipeThm.v Base.vo Units.vo Contents.vo Container.vo Dilute.vo Solve.vo Plate.vo Prog.vo Recipe.vo
RecipeThm.vio: RecipeThm.v Base.vio Units.vio Contents.vio Container.vio Dilute.vio Solve.vio Plate.vio Prog.vio Recipe.vio
RecipeThm.vos RecipeThm.vok RecipeThm.required_vos: RecipeThm.v Base.vos Units.vos Contents.vos Container.vos Dilute.vos Solve.vos Plate.vos Prog.vos Recipe.vos
FlowsThm.vo FlowsThm.glob FlowsThm.v.beautified FlowsThm.required_vo: FlowsThm.v Base.vo Units.vo Contents.vo Container.vo Dilute.vo Solve.vo Plate.vo Prog.vo Recipe.vo RecipeThm.vo
FlowsThm.vio: FlowsThm.v Base.vio Units.vio Contents.vio Container.vio Dilute.vio Solve.vio Plate.vio Prog.vio Recipe.vio RecipeThm.vio
FlowsThm.vos FlowsThm.vok FlowsThm.required_vos: FlowsThm.v Base.vos Units.vos Contents.vos Container.vos Dilute.vos Solve.vos Plate.vos Prog.vos Recipe.vos RecipeThm.vos
ContainerThm2.vo ContainerThm2.glob ContainerThm2.v.beautified ContainerThm2.required_vo: ContainerThm2.v Base.vo Units.vo UnitsThm.vo Contents.vo Container.vo ContainerThm.vo
ContainerThm2.vio: ContainerThm2.v Base.vio Units.vio UnitsThm.vio Contents.vio Container.vio ContainerThm.vio
ContainerThm2.vos ContainerThm2.vok ContainerThm2.required_vos: ContainerThm2.v Base.vos Units.vos UnitsThm.vos Contents.vos Container.vos ContainerThm.vos
PlateThm.vo PlateThm.glob PlateThm.v.beautified PlateThm.required_vo: PlateThm.v Base.vo Units.vo UnitsThm.vo Contents.vo Container.vo ContainerThm.vo ContainerThm2.vo Plate.vo
PlateThm.vio: PlateThm.v Base.vio Units.vio UnitsThm.vio Contents.vio Container.vio ContainerThm.vio ContainerThm2.vio Plate.vio
PlateThm.vos PlateThm.vok PlateThm.required_vos: PlateThm.v Base.vos Units.vos UnitsThm.vos Contents.vos Container.vos ContainerThm.vos ContainerThm2.vos Plate.vos
PlateFill.vo PlateFill.glob PlateFill.v.beautified PlateFill.required_vo: PlateFill.v Base.vo Units.vo UnitsThm.vo Contents.vo Container.vo ContainerThm.vo ContainerThm2.vo Plate.vo PlateThm.vo
PlateFill.vio: PlateFill.v Base.vio Units.vio UnitsThm.vio Contents.vio Container.vio ContainerThm.vio ContainerThm2.vio Plate.vio PlateThm.vio
PlateFill.vos PlateFill.vok PlateFill.required_vos: PlateFill.v Base.vos Units.vos UnitsThm.vos Contents.vos Container.vos ContainerThm.vos ContainerThm2.vos Plate.vos PlateThm.vos
SizeThm.vo SizeThm.glob SizeThm.v.beautified SizeThm.required_vo: SizeThm.v Base.vo Units.vo UnitsThm.vo Contents.vo Container.vo ContainerThm.vo ContainerThm2.vo Plate.vo PlateThm.vo
SizeThm.vio: SizeThm.v Base.vio Units.vio UnitsThm.vio Contents.vio Container.vio ContainerThm.vio ContainerThm2.vio Plate.vio PlateThm.vio
SizeThm.vos SizeThm.vok SizeThm.required_vos: SizeThm.v Base.vos Units.vos UnitsThm.vos Contents.vos Container.vos ContainerThm.vos ContainerThm2.vos Plate.vos PlateThm.vos
HistoryThm.vo HistoryThm.glob HistoryThm.v.beautified HistoryThm.required_vo: HistoryThm.v Base.vo Units.vo UnitsThm.vo Contents.vo Container.vo ContainerThm.vo ContainerThm2.vo Dilute.vo Solve.vo Plate.vo PlateThm.vo Prog.vo
HistoryThm.vio: HistoryThm.v Base.vio Units.vio UnitsThm.vio Contents.vio Container.vio ContainerThm.vio ContainerThm2.vio Dilute.vio Solve.vio Plate.vio PlateThm.vio Prog.vio
HistoryThm.vos HistoryThm.vok HistoryThm.required_vos: HistoryThm.v Base.vos Units.vos UnitsThm.vos Contents.vos Container.vos ContainerThm.vos ContainerThm2.vos Dilute.vos Solve.vos Plate.vos PlateThm.vos Prog.vos
PlateObs.vo PlateObs.glob PlateObs.v.beautified PlateObs.required_vo: PlateObs.v Base.vo Units.vo Contents.vo Container.vo ContainerThm.vo ContainerThm2.vo Plate.vo PlateThm.vo Prog.vo HistoryThm.vo
PlateObs.vio: PlateObs.v Base.vio Units.vio Contents.vio Container.vio ContainerThm.vio ContainerThm2.vio Plate.vio PlateThm.vio Prog.vio HistoryThm.vio
PlateObs.vos PlateObs.vok PlateObs.required_vos: PlateObs.v Base.vos Units.vos Contents.vos Container.vos ContainerThm.vos ContainerThm2.vos Plate.vos PlateThm.vos Prog.vos HistoryThm.vos
PlateVol.vo PlateVol.glob PlateVol.v.beautified PlateVol.required_vo: PlateVol.v Base.vo Units.vo UnitsThm.vo Contents.vo Container.vo ContainerThm.vo ContainerThm2.vo Plate.vo PlateThm.vo SizeThm.vo PlateObs.vo
PlateVol.vio: PlateVol.v Base.vio Units.vio UnitsThm.vio Contents.vio Container.vio ContainerThm.vio ContainerThm2.vio Plate.vio PlateThm.vio SizeThm.vio PlateObs.vio
PlateVol.vos PlateVol.vok PlateVol.required_vos: PlateVol.v Base.vos Units.vos UnitsThm.vos Contents.vos Container.vos ContainerThm.vos ContainerThm2.vos Plate.vos PlateThm.vos SizeThm.vos PlateObs.vos
CsfThm.vo CsfThm.glob CsfThm.v.beautified CsfThm.required_vo: CsfThm.v Base.vo Units.vo UnitsThm.vo Contents.vo Container.vo ContainerThm.vo ContainerThm2.vo Plate.vo PlateThm.vo SizeThm.vo Dilute.vo Solve.vo SolveThm.vo
CsfThm.vio: CsfThm.v Base.vio Units.vio UnitsThm.vio Contents.vio Container.vio ContainerThm.vio ContainerThm2.vio Plate.vio PlateThm.vio SizeThm.vio Dilute.vio Solve.vio SolveThm.vio
CsfThm.vos CsfThm.vok CsfThm.required_vos: CsfThm.v Base.vos Units.vos UnitsThm.vos Contents.vos Container.vos ContainerThm.vos ContainerThm2.vos Plate.vos PlateThm.vos SizeThm.vos Dilute.vos Solve.vos SolveThm.vos
CsfInstr.vo CsfInstr.glob CsfInstr.v.beautified CsfInstr.required_vo: CsfInstr.v Base.vo Units.vo UnitsThm.vo Contents.vo Container.vo ContainerThm.vo ContainerThm2.vo Plate.vo PlateThm.vo SizeThm.vo Dilute.vo Solve.vo SolveThm.vo CsfThm.vo
CsfInstr.vio: CsfInstr.v Base.vio Units.vio UnitsThm.vio Contents.vio Container.vio ContainerThm.vio ContainerThm2.vio Plate.vio PlateThm.vio SizeThm.vio Dilute.vio Solve.vio SolveThm.vio CsfThm.vio
CsfInstr.vos CsfInstr.vok CsfInstr.required_vos: CsfInstr.v Base.vos Units.vos UnitsThm.vos Contents.vos Container.vos ContainerThm.vos ContainerThm2.vos Plate.vos PlateThm.vos SizeThm.vos Dilute.vos Solve.vos SolveThm.vos CsfThm.vos
C09Thm.vo C09Thm.glob C09Thm.v.beautified C09Thm.required_vo: C09Thm.v Base.vo Units.vo UnitsThm.vo Contents.vo Container.vo ContainerThm.vo ContainerThm2.vo Dilute.vo Solve.vo SolveThm.vo Plate.vo PlateThm.vo Prog.vo HistoryThm.vo Recipe.vo RecipeThm.vo
C09Thm.vio: C09Thm.v Base.vio Units.vio UnitsThm.vio Contents.vio Container.vio ContainerThm.vio ContainerThm2.vio Dilute.vio Solve.vio SolveThm.vio Plate.vio PlateThm.vio Prog.vio HistoryThm.vio Recipe.vio RecipeThm.vio
C09Thm.vos C09Thm.vok C09Thm.required_vos: C09Thm.v Base.vos Units.vos UnitsThm.vos Contents.vos Container.vos ContainerThm.vos ContainerThm2.vos Dilute.vos Solve.vos SolveThm.vos Plate.vos PlateThm.vos Prog.vos HistoryThm.vos Recipe.vos RecipeThm.vos
ConfigThm2.vo ConfigThm2.glob ConfigThm2.v.beautified ConfigThm2.required_vo: ConfigThm2.v Base.vo Units.vo UnitsThm.vo Contents.vo Container.vo ContainerThm.vo ContainerThm2.vo Plate.vo PlateThm.vo Dilute.vo Solve.vo Prog.vo ConfigThm.vo
ConfigThm2.vio: ConfigThm2.v Base.vio Units.vio UnitsThm.vio Contents.vio Container.vio ContainerThm.vio ContainerThm2.vio Plate.vio PlateThm.vio Dilute.vio Solve.vio Prog.vio ConfigThm.vio
ConfigThm2.vos ConfigThm2.vok ConfigThm2.required_vos: ConfigThm2.v Base.vos Units.vos UnitsThm.vos Contents.vos Container.vos ContainerThm.vos ContainerThm2.vos Plate.vos PlateThm.vos Dilute.vos Solve.vos Prog.vos ConfigThm.vos
ConfigThm3.vo ConfigThm3.glob ConfigThm3.v.beautified ConfigThm3.required_vo: ConfigThm3.v Base.vo Units.vo UnitsThm.vo Contents.vo Container.vo ContainerThm.vo ContainerThm2.vo Plate.vo PlateThm.vo Dilute.vo Solve.vo Prog.vo Recipe.vo RecipeThm.vo ConfigThm.vo ConfigThm2.vo
ConfigThm3.vio: ConfigThm3.v Base.vio Units.vio UnitsThm.vio Contents.vio Container.vio ContainerThm.vio ContainerThm2.vio Plate.vio PlateThm.vio Dilute.vio Solve.vio Prog.vio Recipe.vio RecipeThm.vio ConfigThm.vio ConfigThm2.vio
ConfigThm3.vos ConfigThm3.vok ConfigThm3.required_vos: ConfigThm3.v Base.vos Units.vos UnitsThm.vos Contents.vos Container.vos ContainerThm.vos ContainerThm2.vos Plate.vos PlateThm.vos Dilute.vos Solve.vos Prog.vos Recipe.vos RecipeThm.vos ConfigThm.vos ConfigThm2.vos
CsfThm2.vo CsfThm2.glob CsfThm2.v.beautified CsfThm2.required_vo: CsfThm2.v Base.vo Units.vo UnitsThm.vo Contents.vo Container.vo ContainerThm.vo ContainerThm2.vo Plate.vo PlateThm.vo SizeThm.vo Dilute.vo Solve.vo SolveThm.vo CsfThm.vo
CsfThm2.vio: CsfThm2.v Base.vio Units.vio UnitsThm.vio Contents.vio Container.vio ContainerThm.vio ContainerThm2.vio Plate.vio PlateThm.vio SizeThm.vio Dilute.vio Solve.vio SolveThm.vio CsfThm.vio
CsfThm2.vos CsfThm2.vok CsfThm2.required_vos: CsfThm2.v Base.vos Units.vos UnitsThm.vos Contents.vos Container.vos ContainerThm.vos ContainerThm2.vos Plate.vos PlateThm.vos SizeThm.vos Dilute.vos Solve.vos SolveThm.vos CsfThm.vos
Instr2.vo Instr2.glob Instr2.v.beautified Instr2.required_vo: Instr2.v Base.vo Units.vo UnitsThm.vo Contents.vo Container.vo ContainerThm.vo ContainerThm2.vo Dilute.vo Instr.vo Solve.vo Plate.vo Prog.vo
Instr2.vio: Instr2.v Base.vio Units.vio UnitsThm.vio Contents.vio Container.vio ContainerThm.vio ContainerThm2.vio Dilute.vio Instr.vio Solve.vio Plate.vio Prog.vio
Instr2.vos Instr2.vok Instr2.required_vos: Instr2.v Base.vos Units.vos UnitsThm.vos Contents.vos Container.vos ContainerThm.vos ContainerThm2.vos Dilute.vos Instr.vos Solve.vos Plate.vos Prog.vos
InstrSol.vo InstrSol.glob InstrSol.v.beautified InstrSol.required_vo: InstrSol.v Base.vo Units.vo UnitsThm.vo Contents.vo Container.vo ContainerThm.vo ContainerThm2.vo Dilute.vo Instr.vo Instr2.vo Solve.vo Plate.vo Prog.vo
InstrSol.vio: InstrSol.v Base.vio Units.vio UnitsThm.vio Contents.vio Container.vio ContainerThm.vio ContainerThm2.vio Dilute.vio Instr.vio Instr2.vio Solve.vio Plate.vio Prog.vio
InstrSol.vos InstrSol.vok InstrSol.required_vos: InstrSol.v Base.vos Units.vos UnitsThm.vos Contents.vos Container.vos ContainerThm.vos ContainerThm2.vos Dilute.vos Instr.vos Instr2.vos Solve.vos Plate.vos Prog.vos
HeapRefine.vo HeapRefine.glob HeapRefine.v.beautified HeapRefine.required_vo: HeapRefine.v Base.vo Units.vo Contents.vo Container.vo ContainerThm.vo Plate.vo PlateThm.vo Dilute.vo Solve.vo Heap.vo HeapThm.vo ConfigThm.vo
HeapRefine.vio: HeapRefine.v Base.vio Units.vio Contents.vio Container.vio ContainerThm.vio Plate.vio PlateThm.vio Dilute.vio Solve.vio Heap.vio HeapThm.vio ConfigThm.vio
HeapRefine.vos HeapRefine.vok HeapRefine.required_vos: HeapRefine.v Base.vos Units.vos Contents.vos Container.vos ContainerThm.vos Plate.vos PlateThm.vos Dilute.vos Solve.vos Heap.vos HeapThm.vos ConfigThm.vos
Props/C04.vo Props/C04.glob Props/C04.v.beautified Props/C04.required_vo: Props/C04.v Base.vo Units.vo Contents.vo Container.vo Plate.vo Dilute.vo Solve.vo Heap.vo HeapThm.vo HeapRefine.vo
Props/C04.vio: Props/C04.v Base.vio Units.vio Contents.vio Container.vio Plate.vio Dilute.vio Solve.vio Heap.vio HeapThm.vio HeapRefine.vio
Props/C04.vos Props/C04.vok Props/C04.required_vos: Props/C04.v Base.vos Units.vos Contents.vos Container.vos Plate.vos Dilute.vos Solve.vos Heap.vos HeapThm.vos HeapRefine.vos
Props/C12.vo Props/C12.glob Props/C12.v.beautified Props/C12.required_vo: Props/C12.v Base.vo Units.vo UnitsThm.vo Contents.vo Container.vo ContainerThm.vo ContainerThm2.vo Dilute.vo Solve.vo SolveThm.vo CsfThm.vo HistoryThm.vo CsfThm2.vo
Props/C12.vio: Props/C12.v Base.vio Units.vio UnitsThm.vio Contents.vio Container.vio ContainerThm.vio ContainerThm2.vio Dilute.vio Solve.vio SolveThm.vio CsfThm.vio HistoryThm.vio CsfThm2.vio
Props/C12.vos Props/C12.vok Props/C12.required_vos: Props/C12.v Base.vos Units.vos UnitsThm.vos Contents.vos Container.vos ContainerThm.vos ContainerThm2.vos Dilute.vos Solve.vos SolveThm.vos CsfThm.vos HistoryThm.vos CsfThm2.vos
Props/C18.vo Props/C18.glob Props/C18.v.beautified Props/C18.required_vo: Props/C18.v Base.vo Units.vo UnitsThm.vo Contents.vo Container.vo ContainerThm.vo ContainerThm2.vo Plate.vo ConfigThm.vo PlateThm.vo Dilute.vo Solve.vo Prog.vo ConfigThm2.vo Recipe.vo RecipeThm.vo ConfigThm3.vo
Props/C18.vio: Props/C18.v Base.vio Units.vio UnitsThm.vio Contents.vio Container.vio ContainerThm.vio ContainerThm2.vio Plate.vio ConfigThm.vio PlateThm.vio Dilute.vio Solve.vio Prog.vio ConfigThm2.vio Recipe.vio RecipeThm.vio ConfigThm3.vio
Props/C18.vos Props/C18.vok Props/C18.required_vos: Props/C18.v Base.vos Units.vos UnitsThm.vos Contents.vos Container.vos ContainerThm.vos ContainerThm2.vos Plate.vos ConfigThm.vos PlateThm.vos Dilute.vos Solve.vos Prog.vos ConfigThm2.vos Recipe.vos RecipeThm.vos ConfigThm3.vos
Props/C19.vo Props/C19.glob Props/C19.v.beautified Props/C19.required_vo: Props/C19.v Base.vo Units.vo UnitsThm.vo Contents.vo Container.vo Instr.vo ContainerThm.vo Dilute.vo Instr2.vo Solve.vo InstrSol.vo CsfInstr.vo
Props/C19.vio: Props/C19.v Base.vio Units.vio UnitsThm.vio Contents.vio Container.vio Instr.vio ContainerThm.vio Dilute.vio Instr2.vio Solve.vio InstrSol.vio CsfInstr.vio
Props/C19.vos Props/C19.vok Props/C19.required_vos: Props/C19.v Base.vos Units.vos UnitsThm.vos Contents.vos Container.vos Instr.vos ContainerThm.vos Dilute.vos Instr2.vos Solve.vos InstrSol.vos CsfInstr.vos
Props/C06.vo Props/C06.glob Props/C06.v.beautified Props/C06.required_vo: Props/C06.v Base.vo Units.vo UnitsThm.vo GenBase.vo gen/UnitsTie.vo
Props/C06.vio: Props/C06.v Base.vio Units.vio UnitsThm.vio GenBase.vio gen/UnitsTie.vio
Props/C06.vos Props/C06.vok Props/C06.required_vos: Props/C06.v Base.vos Units.vos UnitsThm.vos GenBase.vos gen/UnitsTie.vos
Props/C01.vo Props/C01.glob Props/C01.v.beautified Props/C01.required_vo: Props/C01.v Base.vo Units.vo Contents.vo Container.vo ContainerThm.vo Plate.vo PlateThm.vo
Props/C01.vio: Props/C01.v Base.vio Units.vio Contents.vio Container.vio ContainerThm.vio Plate.vio PlateThm.vio
Props/C01.vos Props/C01.vok Props/C01.required_vos: Props/C01.v Base.vos Units.vos Contents.vos Container.vos ContainerThm.vos Plate.vos PlateThm.vos
Props/C02.vo Props/C02.glob Props/C02.v.beautified Props/C02.required_vo: Props/C02.v Base.vo Units.vo Contents.vo Container.vo ContainerThm.vo ContainerThm2.vo Plate.vo PlateThm.vo SizeThm.vo
Props/C02.vio: Props/C02.v Base.vio Units.vio Contents.vio Container.vio ContainerThm.vio ContainerThm2.vio Plate.vio PlateThm.vio SizeThm.vio
Props/C02.vos Props/C02.vok Props/C02.required_vos: Props/C02.v Base.vos Units.vos Contents.vos Container.vos ContainerThm.vos ContainerThm2.vos Plate.vos PlateThm.vos SizeThm.vos
Props/C03.vo Props/C03.glob Props/C03.v.beautified Props/C03.required_vo: Props/C03.v Base.vo Units.vo Contents.vo Container.vo ContainerThm.vo ContainerThm2.vo Dilute.vo Solve.vo Plate.vo PlateThm.vo Prog.vo HistoryThm.vo
Props/C03.vio: Props/C03.v Base.vio Units.vio Contents.vio Container.vio ContainerThm.vio ContainerThm2.vio Dilute.vio Solve.vio Plate.vio PlateThm.vio Prog.vio HistoryThm.vio
Props/C03.vos Props/C03.vok Props/C03.required_vos: Props/C03.v Base.vos Units.vos Contents.vos Container.vos ContainerThm.vos ContainerThm2.vos Dilute.vos Solve.vos Plate.vos PlateThm.vos Prog.vos HistoryThm.vos
Props/C05.vo Props/C05.glob Props/C05.v.beautified Props/C05.required_vo: Props/C05.v Base.vo Units.vo UnitsThm.vo Contents.vo Container.vo ContainerThm.vo ContainerThm2.vo Dilute.vo Solve.vo SolveThm.vo HistoryThm.vo
Props/C05.vio: Props/C05.v Base.vio Units.vio UnitsThm.vio Contents.vio Container.vio ContainerThm.vio ContainerThm2.vio Dilute.vio Solve.vio SolveThm.vio HistoryThm.vio
Props/C05.vos Props/C05.vok Props/C05.required_vos: Props/C05.v Base.vos Units.vos UnitsThm.vos Contents.vos Container.vos ContainerThm.vos ContainerThm2.vos Dilute.vos Solve.vos SolveThm.vos HistoryThm.vos
Props/C07.vo Props/C07.glob Props/C07.v.beautified Props/C07.required_vo: Props/C07.v Base.vo Units.vo Contents.vo Container.vo ContainerThm.vo ContainerThm2.vo Plate.vo PlateThm.vo
Props/C07.vio: Props/C07.v Base.vio Units.vio Contents.vio Container.vio ContainerThm.vio ContainerThm2.vio Plate.vio PlateThm.vio
Props/C07.vos Props/C07.vok Props/C07.required_vos: Props/C07.v Base.vos Units.vos Contents.vos Container.vos ContainerThm.vos ContainerThm2.vos Plate.vos PlateThm.vos
Props/C10.vo Props/C10.glob Props/C10.v.beautified Props/C10.required_vo: Props/C10.v Base.vo Units.vo Contents.vo Container.vo ContainerThm.vo ContainerThm2.vo Dilute.vo Solve.vo Plate.vo PlateThm.vo SizeThm.vo Prog.vo HistoryThm.vo PlateObs.vo PlateVol.vo
Props/C10.vio: Props/C10.v Base.vio Units.vio Contents.vio Container.vio ContainerThm.vio ContainerThm2.vio Dilute.vio Solve.vio Plate.vio PlateThm.vio SizeThm.vio Prog.vio HistoryThm.vio PlateObs.vio PlateVol.vio
Props/C10.vos Props/C10.vok Props/C10.required_vos: Props/C10.v Base.vos Units.vos Contents.vos Container.vos ContainerThm.vos ContainerThm2.vos Dilute.vos Solve.vos Plate.vos PlateThm.vos SizeThm.vos Prog.vos HistoryThm.vos PlateObs.vos PlateVol.vos
Props/C11.vo Props/C11.glob Props/C11.v.beautified Props/C11.required_vo: Props/C11.v Base.vo Units.vo UnitsThm.vo Contents.vo Container.vo ContainerThm.vo ContainerThm2.vo Dilute.vo DiluteThm.vo Plate.vo PlateThm.vo PlateFill.vo
Props/C11.vio: Props/C11.v Base.vio Units.vio UnitsThm.vio Contents.vio Container.vio ContainerThm.vio ContainerThm2.vio Dilute.vio DiluteThm.vio Plate.vio PlateThm.vio PlateFill.vio
Props/C11.vos Props/C11.vok Props/C11.required_vos: Props/C11.v Base.vos Units.vos UnitsThm.vos Contents.vos Container.vos ContainerThm.vos ContainerThm2.vos Dilute.vos DiluteThm.vos Plate.vos PlateThm.vos PlateFill.vos
Props/C13.vo Props/C13.glob Props/C13.v.beautified Props/C13.required_vo: Props/C13.v Base.vo Plate.vo Slicer.vo SlicerThm.vo
Props/C13.vio: Props/C13.v Base.vio Plate.vio Slicer.vio SlicerThm.vio
Props/C13.vos Props/C13.vok Props/C13.required_vos: Props/C13.v Base.vos Plate.vos Slicer.vos SlicerThm.vos
Props/C14.vo Props/C14.glob Props/C14.v.beautified Props/C14.required_vo: Props/C14.v Base.vo Units.vo UnitsThm.vo GenBase.vo gen/UnitsTie.vo Parse.vo ParseThm.vo
Props/C14.vio: Props/C14.v Base.vio Units.vio UnitsThm.vio GenBase.vio gen/UnitsTie.vio Parse.vio ParseThm.vio
Props/C14.vos Props/C14.vok Props/C14.required_vos: Props/C14.v Base.vos Units.vos UnitsThm.vos GenBase.vos gen/UnitsTie.vos Parse.vos ParseThm.vos
Props/C16.vo Props/C16.glob Props/C16.v.beautified Props/C16.required_vo: Props/C16.v Base.vo GenBase.vo Lifecycle.vo LifecycleThm.vo gen/LifecycleTie.vo
Props/C16.vio: Props/C16.v Base.vio GenBase.vio Lifecycle.vio LifecycleThm.vio gen/LifecycleTie.vio
Props/C16.vos Props/C16.vok Props/C16.required_vos: Props/C16.v Base.vos GenBase.vos Lifecycle.vos LifecycleThm.vos gen/LifecycleTie.vos
Props/C08.vo Props/C08.glob Props/C08.v.beautified Props/C08.required_vo: Props/C08.v Base.vo Units.vo Contents.vo Container.vo Dilute.vo Solve.vo Plate.vo Prog.vo Recipe.vo RecipeThm.vo
Props/C08.vio: Props/C08.v Base.vio Units.vio Contents.vio Container.vio Dilute.vio Solve.vio Plate.vio Prog.vio Recipe.vio RecipeThm.vio
Props/C08.vos Props/C08.vok Props/C08.required_vos: Props/C08.v Base.vos Units.vos Contents.vos Container.vos Dilute.vos Solve.vos Plate.vos Prog.vos Recipe.vos RecipeThm.vos
Props/C17.vo Props/C17.glob Props/C17.v.beautified Props/C17.required_vo: Props/C17.v Base.vo Units.vo Contents.vo Container.vo ContainerThm.vo ContainerThm2.vo Plate.vo PlateThm.vo Dilute.vo Solve.vo Prog.vo HistoryThm.vo Recipe.vo RecipeThm.vo C09Thm.vo
Props/C17.vio: Props/C17.v Base.vio Units.vio Contents.vio Container.vio ContainerThm.vio ContainerThm2.vio Plate.vio PlateThm.vio Dilute.vio Solve.vio Prog.vio HistoryThm.vio Recipe.vio RecipeThm.vio C09Thm.vio
Props/C17.vos Props/C17.vok Props/C17.required_vos: Props/C17.v Base.vos Units.vos Contents.vos Container.vos ContainerThm.vos ContainerThm2.vos Plate.vos PlateThm.vos Dilute.vos Solve.vos Prog.vos HistoryThm.vos Recipe.vos RecipeThm.vos C09Thm.vos
Props/C09.vo Props/C09.glob Props/C09.v.beautified Props/C09.required_vo: Props/C09.v Base.vo Units.vo Contents.vo Container.vo ContainerThm.vo ContainerThm2.vo Dilute.vo Solve.vo Plate.vo PlateThm.vo Prog.vo HistoryThm.vo Recipe.vo RecipeThm.vo C09Thm.vo
Props/C09.vio: Props/C09.v Base.vio Units.vio Contents.vio Container.vio ContainerThm.vio ContainerThm2.vio Dilute.vio Solve.vio Plate.vio PlateThm.vio Prog.vio HistoryThm.vio Recipe.vio RecipeThm.vio C09Thm.vio
Props/C09.vos Props/C09.vok Props/C09.required_vos: Props/C09.v Base.vos Units.vos Contents.vos Container.vos ContainerThm.vos ContainerThm2.vos Dilute.vos Solve.vos Plate.vos PlateThm.vos Prog.vos HistoryThm.vos Recipe.vos RecipeThm.vos C09Thm.vos
Props/C15.vo Props/C15.glob Props/C15.v.beautified Props/C15.required_vo: Props/C15.v Base.vo Units.vo Contents.vo Container.vo Dilute.vo Solve.vo Plate.vo Prog.vo Recipe.vo RecipeThm.vo FlowsThm.vo
Props/C15.vio: Props/C15.v Base.vio Units.vio Contents.vio Container.vio Dilute.vio Solve.vio Plate.vio Prog.vio Recipe.vio RecipeThm.vio FlowsThm.vio
Props/C15.vos Props/C15.vok Props/C15.required_vos: Props/C15.v Base.vos Units.vos Contents.vos Container.vos Dilute.vos Solve.vos Plate.vos Prog.vos Recipe.vos RecipeThm.vos FlowsThm.vos
