(* UnitsGenOK.v -- the definitions generated from /repo's pyplate.py (gen/UnitsGen.v, regenerated on
   every run) are proved equal to the hand-written model of Units.v, so every theorem about the model
   is a theorem about what the source says now. *)
Require Import Base Units UnitsThm GenBase UnitsGen.
From Coq Require Import String.
Open Scope string_scope.

(* how convert_from runs the translated tree *)
Definition gen_run (s : substance) (q : Q) (fu tu : unit_) : option Q :=
  if gen_from_guard s (snd fu) then None else
  match gen_conv_tree s (q * pmult (fst fu)) (snd fu) (snd tu) with
  | Ret v => Some v
  | Asg v => Some (v / pmult (fst tu))
  | Rej => None
  | Unset => None
  end.

Theorem gen_conv_eq_model s q fu tu : optQeq (gen_run s q fu tu) (conv s q fu tu).
Proof.
  destruct fu as [p1 b1], tu as [p2 b2]. pose proof (pmult_pos p2) as H2.
  unfold gen_run, gen_from_guard, gen_conv_tree, conv, conv_base, is_enzyme; simpl.
  destruct s as [i k m d a]; simpl.
  destruct k, b1, b2; simpl; unfold optQeq; try exact I; try reflexivity; try (field; lra).
Qed.

(* the suffix search order of both loops is the one the parsing model (Parse.v) uses *)
Theorem gen_suffix_orders :
  gen_from_suffix_order = ["U"; "L"; "g"; "mol"] /\ gen_to_suffix_order = ["U"; "L"; "g"; "mol"].
Proof. split; reflexivity. Qed.


(* the prefix table of the source is exactly the model's: same keys, same multipliers *)
Theorem gen_prefix_table_eq_model :
  map fst gen_prefix_table = map pname all_prefixes /\
  forall p, exists v, assoc (pname p) gen_prefix_table = Some v /\ v == pmult p.
Proof.
  split; [reflexivity|].
  intros p; destruct p; (eexists; split; [reflexivity | reflexivity]).
Qed.
