(* SolveThm.v -- theorems about the linear-system kernels of create_solution and create_solution_from (C05, C12):
   the exact solver is sound, the rows mean what the chemistry says, the accepted result meets them. *)
Require Import Base Units UnitsThm Contents Container ContainerThm ContainerThm2 Dilute Solve.

(* ---------- dot products ---------- *)
Lemma dot_nil_r a : dot a [] == 0.
Proof. destruct a; reflexivity. Qed.
Lemma dot_map2_sub f : forall pa ra xs, length pa = length ra ->
  dot (map2 (fun x y => y - f * x) pa ra) xs == dot ra xs - f * dot pa xs.
Proof.
  induction pa as [|x pa IH]; intros [|y ra] xs H; simpl in *; try discriminate; [ring|].
  destruct xs as [|z xs]; simpl; [ring|]. rewrite IH by lia. ring.
Qed.
Lemma map2_length {A B C} (f : A -> B -> C) : forall a b, length a = length b -> length (map2 f a b) = length a.
Proof. induction a as [|x a IH]; intros [|y b] H; simpl in *; try discriminate; auto. Qed.

(* ---------- Gaussian elimination is sound ---------- *)
Lemma find_pivot_spec rows p rest : find_pivot rows = Some (p, rest) ->
  (forall r, In r rows <-> (r = p \/ In r rest)) /\ exists a pa, fst p = a :: pa /\ ~ a == 0.
Proof.
  revert p rest. induction rows as [|r t IH]; intros p rest H; simpl in H; [discriminate|].
  destruct (fst r) as [|a pa] eqn:Er; [discriminate|].
  destruct (Qeqb a 0) eqn:Ea.
  - destruct (find_pivot t) as [[p0 rest0]|] eqn:Ef; [|discriminate]. inversion H; subst; clear H.
    destruct (IH _ _ eq_refl) as [Hin Hp]. split; [|exact Hp].
    intros x. simpl. rewrite Hin. tauto.
  - inversion H; subst; clear H. apply Qeqb_neq in Ea. split; [intros x; simpl; split; intros [Hx|Hx]; auto|].
    exists a, pa. auto.
Qed.

Lemma elim_spec (p r : row) a pa b ra :
  fst p = a :: pa -> fst r = b :: ra -> length pa = length ra ->
  length (fst (elim p r)) = length pa /\
  (forall ys, dot (fst (elim p r)) ys == dot ra ys - b / a * dot pa ys) /\ snd (elim p r) = snd r - b / a * snd p.
Proof.
  intros Hp Hr L. unfold elim. rewrite Hp, Hr. simpl. split; [apply map2_length; exact L|]. split; [|reflexivity].
  intros ys. apply dot_map2_sub. exact L.
Qed.
Lemma row_shape (r : row) n : length (fst r) = S n -> exists b ra, fst r = b :: ra /\ length ra = n.
Proof. destruct (fst r) as [|b ra]; simpl; intros H; [discriminate | exists b, ra; split; [reflexivity | lia]]. Qed.

Theorem gauss_sound : forall n (rows : list row) (xs : vec),
  (forall r, In r rows -> length (fst r) = n) -> gauss n rows = Some xs ->
  length xs = n /\ forall r, In r rows -> dot (fst r) xs == snd r.
Proof.
  induction n as [|n IH]; intros rows xs Hlen H; simpl in H.
  - destruct rows; [|discriminate]. inversion H; subst. split; [reflexivity | intros r []].
  - destruct (find_pivot rows) as [[p rest]|] eqn:Ef; [|discriminate].
    destruct (find_pivot_spec _ _ _ Ef) as [Hin (a & pa & Ep & Ha)].
    destruct (gauss n (map (elim p) rest)) as [ys|] eqn:Eg; [|discriminate].
    rewrite Ep in H. inversion H; subst; clear H.
    assert (Lp : length pa = n).
    { pose proof (Hlen p (proj2 (Hin p) (or_introl eq_refl))) as L. destruct (row_shape p n L) as (a' & pa' & E' & L'). rewrite Ep in E'. injection E' as Ea Epa. rewrite Epa. exact L'. }
    assert (Helim : forall r, In r (map (elim p) rest) -> length (fst r) = n).
    { intros r Hr. apply in_map_iff in Hr. destruct Hr as [r0 [<- Hr0]].
      destruct (row_shape r0 n (Hlen r0 (proj2 (Hin r0) (or_intror Hr0)))) as (b & ra & Er & Lr).
      destruct (elim_spec p r0 a pa b ra Ep Er) as (Le & _ & _); lia. }
    destruct (IH _ _ Helim Eg) as [Ly Hy]. split; [simpl; lia|].
    intros r Hr. apply Hin in Hr. destruct Hr as [->|Hr].
    + rewrite Ep. simpl. rewrite rnd_eq. field. exact Ha.
    + destruct (row_shape r n (Hlen r (proj2 (Hin r) (or_intror Hr)))) as (b & ra & Er & Lr).
      destruct (elim_spec p r a pa b ra Ep Er) as (_ & Hd & Hs); [lia|].
      pose proof (Hy (elim p r) (in_map _ _ _ Hr)) as He. rewrite Hd, Hs in He.
      rewrite Er. simpl. rewrite rnd_eq.
      setoid_replace (dot ra ys) with (snd r - b / a * snd p + b / a * dot pa ys) by lra. field. exact Ha.
Qed.

(* ---------- the rows mean what the chemistry says ---------- *)
Lemma dot_scale_l k : forall a xs, dot (map (fun e => e * k) a) xs == k * dot a xs.
Proof. induction a as [|x a IH]; intros [|y xs]; simpl; try ring. rewrite IH. ring. Qed.
Lemma dot_unit_seq i : forall n k xs, length xs = n ->
  dot (map (fun j => if Nat.eqb j i then 1 else 0) (seq k n)) xs == (if Nat.leb k i && Nat.ltb i (k + n) then nth (i - k) xs 0 else 0).
Proof.
  induction n as [|n IH]; intros k xs L; simpl.
  - destruct xs; [|discriminate]. replace (k + 0)%nat with k by lia.
    destruct (Nat.leb k i) eqn:E1; destruct (Nat.ltb i k) eqn:E2; simpl; try reflexivity.
    apply Nat.leb_le in E1. apply Nat.ltb_lt in E2. lia.
  - destruct xs as [|x xs]; [discriminate|]. simpl in L. rewrite IH by lia.
    destruct (Nat.eqb k i) eqn:E.
    + apply Nat.eqb_eq in E. subst k. rewrite Nat.leb_refl. replace (Nat.ltb i (i + S n)) with true by (symmetry; apply Nat.ltb_lt; lia).
      replace (Nat.leb (S i) i) with false by (symmetry; apply Nat.leb_gt; lia). simpl. rewrite Nat.sub_diag. ring.
    + apply Nat.eqb_neq in E.
      destruct (Nat.leb k i) eqn:E1.
      * apply Nat.leb_le in E1. replace (Nat.leb (S k) i) with true by (symmetry; apply Nat.leb_le; lia).
        replace (k + S n)%nat with (S k + n)%nat by lia. simpl.
        destruct (Nat.ltb i (S (k + n))) eqn:E2; simpl; [|ring].
        replace (i - k)%nat with (S (i - S k)) by (apply Nat.ltb_lt in E2; lia). simpl. ring.
      * apply Nat.leb_gt in E1. replace (Nat.leb (S k) i) with false by (symmetry; apply Nat.leb_gt; lia). simpl. ring.
Qed.
Lemma dot_unit_at n i xs : length xs = n -> (i < n)%nat -> dot (unit_at n i) xs == nth i xs 0.
Proof.
  intros L Hi. unfold unit_at. rewrite dot_unit_seq by exact L. simpl.
  replace (Nat.ltb i n) with true by (symmetry; apply Nat.ltb_lt; exact Hi). rewrite Nat.sub_0_r. reflexivity.
Qed.
Lemma dot_map2_lin (c k : Q) : forall bottom ua xs, length bottom = length ua ->
  dot (map2 (fun b e => c * b - e * k) bottom ua) xs == c * dot bottom xs - k * dot ua xs.
Proof.
  induction bottom as [|x b IH]; intros [|y ua] xs H; simpl in *; try discriminate; [ring|].
  destruct xs as [|z xs]; simpl; [ring|]. rewrite IH by lia. ring.
Qed.

(* amounts xs (moles, or activity units for enzymes) of the substances subs: the mixture's total in base unit u *)
Definition mix_total (subs : list substance) (xs : vec) (u : base) : Q := dot (map (fun s => cone s u) subs) xs.

Theorem conc_row_meaning subs i s c xs : length xs = length subs -> (i < length subs)%nat ->
  dot (fst (conc_row subs i s c)) xs - snd (conc_row subs i s c) == cval c * mix_total subs xs (cden c) - cone s (cnum c) * nth i xs 0.
Proof.
  intros L Hi. unfold conc_row, mix_total. simpl.
  rewrite dot_map2_lin by (rewrite map_length; unfold unit_at; rewrite map_length, seq_length; reflexivity).
  rewrite dot_unit_at by (auto). ring.
Qed.
Theorem qty_row_meaning subs i s q xs : length xs = length subs -> (i < length subs)%nat ->
  dot (fst (qty_row subs i s q)) xs - snd (qty_row subs i s q) == cone s (qbase q) * nth i xs 0 - qv q.
Proof.
  intros L Hi. unfold qty_row. simpl. rewrite dot_scale_l, dot_unit_at by auto. ring.
Qed.
Theorem total_row_meaning subs q xs :
  dot (fst (total_row subs q)) xs - snd (total_row subs q) == mix_total subs xs (qbase q) - qv q.
Proof. unfold total_row, mix_total. simpl. ring. Qed.

(* ---------- what solve_solution guarantees ---------- *)
Lemma In_firstn_incl {A} n (l : list A) x : In x (firstn n l) -> In x l.
Proof.
  revert n; induction l as [|y t IH]; intros [|n] H; simpl in *; try contradiction.
  destruct H as [H|H]; [left; exact H | right; eapply IH; exact H].
Qed.
Lemma forallb_In {A} (f : A -> bool) l : forallb f l = true -> forall x, In x l -> f x = true.
Proof. intros H x Hx. rewrite forallb_forall in H. auto. Qed.
Lemma existsb_false_In {A} (f : A -> bool) l : existsb f l = false -> forall x, In x l -> f x = false.
Proof.
  intros H x Hx. destruct (f x) eqn:E; [|reflexivity]. assert (existsb f l = true) by (apply existsb_exists; eauto). congruence.
Qed.

Lemma rows_from_length {A} (f : nat -> substance -> A -> row) (P : row -> Prop) :
  (forall i s x, P (f i s x)) -> forall ss xs i, Forall P (rows_from f i ss xs).
Proof.
  intros Hf. induction ss as [|s ss IH]; intros [|x xs] i; simpl; try constructor; auto.
Qed.

Lemma system_rows_length solutes solvent m rows : system solutes solvent m = Ok rows ->
  forall r, In r rows -> length (fst r) = S (length solutes).
Proof.
  assert (Lsubs : length (solutes ++ [solvent]) = S (length solutes)) by (rewrite app_length; simpl; lia).
  assert (Hc : forall i s c, length (fst (conc_row (solutes ++ [solvent]) i s c)) = S (length solutes)).
  { intros. unfold conc_row. simpl. rewrite map2_length; rewrite map_length; [exact Lsubs | unfold unit_at; rewrite map_length, seq_length; reflexivity]. }
  assert (Hq : forall i s q, length (fst (qty_row (solutes ++ [solvent]) i s q)) = S (length solutes)).
  { intros. unfold qty_row, unit_at. simpl. rewrite !map_length, seq_length. exact Lsubs. }
  assert (Ht : forall q, length (fst (total_row (solutes ++ [solvent]) q)) = S (length solutes)) by (intros; unfold total_row; simpl; rewrite map_length; exact Lsubs).
  assert (Hz : length (fst (zero_row (solutes ++ [solvent]))) = S (length solutes)) by (unfold zero_row; simpl; rewrite map_length; exact Lsubs).
  unfold system. destruct m as [cs t|cs qs|qs t].
  - destruct (negb _); [discriminate|]. intros H; inversion H; subst; clear H. intros r Hr.
    apply in_app_or in Hr. destruct Hr as [Hr|Hr]; [|apply repeat_spec in Hr; subst; exact Hz].
    apply in_app_or in Hr. destruct Hr as [Hr|[<-|[]]]; [|apply Ht].
    pose proof (rows_from_length (conc_row (solutes ++ [solvent])) (fun r => length (fst r) = S (length solutes)) Hc solutes cs 0) as F.
    rewrite Forall_forall in F. auto.
  - destruct (_ || _); [discriminate|]. intros H; inversion H; subst; clear H. intros r Hr.
    apply in_app_or in Hr. destruct Hr as [Hr|Hr].
    + pose proof (rows_from_length (conc_row (solutes ++ [solvent])) (fun r => length (fst r) = S (length solutes)) Hc solutes cs 0) as F.
      rewrite Forall_forall in F. auto.
    + pose proof (rows_from_length (qty_row (solutes ++ [solvent])) (fun r => length (fst r) = S (length solutes)) Hq solutes qs 0) as F.
      rewrite Forall_forall in F. auto.
  - destruct (negb _); [discriminate|]. intros H; inversion H; subst; clear H. intros r Hr.
    apply in_app_or in Hr. destruct Hr as [Hr|Hr]; [|apply repeat_spec in Hr; subst; exact Hz].
    apply in_app_or in Hr. destruct Hr as [Hr|[<-|[]]]; [|apply Ht].
    pose proof (rows_from_length (qty_row (solutes ++ [solvent])) (fun r => length (fst r) = S (length solutes)) Hq solutes qs 0) as F.
    rewrite Forall_forall in F. auto.
Qed.

(* C05: an accepted request yields strictly positive amounts that meet the first n+1 rows exactly and every row within the
   relative tolerance of the residual test *)
Theorem solve_solution_sound solutes solvent m xs :
  solve_solution solutes solvent m = Ok xs ->
  exists rows, system solutes solvent m = Ok rows /\ length xs = S (length solutes) /\
    (forall x, In x xs -> 0 < x) /\
    (forall r, In r (firstn (S (length solutes)) rows) -> dot (fst r) xs == snd r) /\
    (forall r, In r rows -> Qabs (dot (fst r) xs - snd r) <= (1 # 1000000) * (dot_abs (fst r) xs + Qabs (snd r))).
Proof.
  unfold solve_solution. destruct solutes as [|s0 st]; [discriminate|]. set (solutes := s0 :: st) in *.
  unfold bind. destruct (system solutes solvent m) as [rows|] eqn:Er; [|discriminate].
  destruct (gauss (S (length solutes)) (firstn (S (length solutes)) rows)) as [ys|] eqn:Eg; [|discriminate].
  destruct (existsb (fun x => Qle_bool x 0) ys) eqn:Epos; [discriminate|].
  destruct (forallb (residual_ok ys) rows) eqn:Eres; [|discriminate].
  intros H; inversion H; subst; clear H. exists rows. split; [reflexivity|].
  assert (Hl : forall r, In r (firstn (S (length solutes)) rows) -> length (fst r) = S (length solutes)).
  { intros r Hr. apply (system_rows_length _ _ _ _ Er). eapply In_firstn_incl; exact Hr. }
  destruct (gauss_sound _ _ _ Hl Eg) as [Ly Hy]. split; [exact Ly|]. split; [|split; [exact Hy|]].
  - intros x Hx. pose proof (existsb_false_In _ _ Epos x Hx) as Hf. simpl in Hf.
    apply Qnot_le_lt. intro Hle. apply Qle_bool_iff in Hle. congruence.
  - intros r Hr. pose proof (forallb_In _ _ Eres r Hr) as Hf. unfold residual_ok in Hf. apply Qle_bool_iff in Hf. exact Hf.
Qed.

(* ---------- from amounts to the returned container ---------- *)
Definition amount_base (s : substance) : base := if is_enzyme s then BU else BMol.
Lemma amount_roundtrip cf s x u ata :
  wf_subst s -> conv s x (P0, amount_base s) (stored_unit cf s) = Some ata -> conv_stored cf s ata (P0, u) == x * cone s u.
Proof.
  intros (Hm & Hd & Ha). pose proof (pmult_pos (mol_pfx cf)) as Hpm.
  unfold conv_stored, stored_unit, mol_unit, cone, amount_base, conv, conv_base, is_enzyme.
  destruct s as [i k m d ac]; simpl in *.
  destruct k, u; simpl; intros E; inversion E; subst; clear E; change (pmult P0) with 1; field; repeat split; lra.
Qed.
Lemma amount_stored_pos cf s x ata :
  wf_subst s -> 0 < x -> conv s x (P0, amount_base s) (stored_unit cf s) = Some ata -> 0 < ata.
Proof.
  intros (Hm & Hd & Ha) Hx. pose proof (pmult_pos (mol_pfx cf)) as Hpm. pose proof (Qinv_pos _ Hpm).
  unfold stored_unit, mol_unit, amount_base, conv, conv_base, is_enzyme.
  destruct s as [i k m d ac]; simpl in *.
  destruct k; simpl; intros E; inversion E; subst; clear E; change (pmult P0) with 1;
    (apply Qlt_shift_div_l; [first [exact Hpm | reflexivity] | lra]).
Qed.

(* adding pairwise distinct substances that are not yet present: keys are appended, each amount is what was converted *)
Lemma add_all_distinct cf l : forall c0 c,
  add_all cf c0 l = Ok c -> NoDup (keys (cont c0) ++ map fst l) ->
  keys (cont c) = keys (cont c0) ++ map fst l /\
  (forall s q, In (s, q) l -> exists ata, conv s (qv q) (P0, qbase q) (stored_unit cf s) = Some ata /\ 0 <= ata /\ get s (cont c) == ata) /\
  (forall k, ~ In k (map fst l) -> get k (cont c) = get k (cont c0)).
Proof.
  induction l as [|[s q] t IH]; intros c0 c H Hnd; simpl in *.
  - inversion H; subst. rewrite app_nil_r. repeat split; auto. intros s q [].
  - unfold bind in H. destruct (self_add cf c0 s q) as [c1|] eqn:E; [|discriminate].
    pose proof E as E'. apply self_add_ok in E'. destruct E' as (vta & ata & Ev & Ea & Ha & Hv & Hov & Hc1).
    assert (Hs : ~ In s (keys (cont c0))).
    { intro Hin. apply NoDup_remove_2 in Hnd. apply Hnd. apply in_or_app. left. exact Hin. }
    assert (Hst : ~ In s (map fst t)).
    { intro Hin. apply NoDup_remove_2 in Hnd. apply Hnd. apply in_or_app. right. exact Hin. }
    assert (Hk1 : keys (cont c1) = keys (cont c0) ++ [s]) by (subst c1; simpl; apply keys_upd_notin; exact Hs).
    assert (Hnd1 : NoDup (keys (cont c1) ++ map fst t)).
    { rewrite Hk1, <- app_assoc. simpl. exact Hnd. }
    destruct (IH c1 c H Hnd1) as (Hk & Hget & Hother).
    split; [rewrite Hk, Hk1, <- app_assoc; reflexivity|]. split.
    + intros s' q' [Heq|Hin].
      * inversion Heq; subst s' q'. exists ata. split; [exact Ea|]. split; [exact Ha|].
        rewrite (Hother s Hst). subst c1. simpl. rewrite get_upd, seqb_refl, rnd_eq. rewrite (get_notin s _ Hs). ring.
      * apply Hget. exact Hin.
    + intros k Hk'. rewrite (Hother k) by (intro; apply Hk'; right; assumption).
      subst c1. simpl. rewrite get_upd. destruct (seqb s k) eqn:Esk; [apply seqb_eq in Esk; subst; exfalso; apply Hk'; left; reflexivity | reflexivity].
Qed.

Lemma sum_by_keys f c : wfc c -> sum_by f c = Qsum (map (fun k => f k (get k c)) (keys c)).
Proof.
  unfold wfc, keys, sum_by. induction c as [|[s a] t IH]; simpl; intros H; [reflexivity|].
  inversion H as [|x l Hn Hnd]; subst. rewrite seqb_refl. f_equal. rewrite IH by exact Hnd.
  f_equal. rewrite !map_map. apply map_ext_in. intros [s' a'] Hin. simpl.
  destruct (seqb s s') eqn:E; [apply seqb_eq in E; subst; exfalso; apply Hn; apply (in_map fst) in Hin; exact Hin | reflexivity].
Qed.
Lemma Qsum_ext {A} (f g : A -> Q) l : (forall x, In x l -> f x == g x) -> Qsum (map f l) == Qsum (map g l).
Proof.
  induction l as [|x t IH]; simpl; intros H; [reflexivity|]. rewrite (H x (or_introl eq_refl)), IH; [reflexivity|].
  intros y Hy. apply H. right. exact Hy.
Qed.

(* the list of (substance, amount) pairs handed to the Container constructor *)
Definition pairs_of (subs : list substance) (xs : vec) : list (substance * qty) := map2 (fun s x => (s, amount_qty s x)) subs xs.
Lemma pairs_fst : forall subs xs, length xs = length subs -> map fst (pairs_of subs xs) = subs.
Proof. unfold pairs_of. induction subs as [|s t IH]; intros [|x xs] H; simpl in *; try discriminate; [reflexivity|]. f_equal. apply IH. lia. Qed.
Lemma pairs_In : forall subs xs i s, length xs = length subs -> nth_error subs i = Some s -> In (s, amount_qty s (nth i xs 0)) (pairs_of subs xs).
Proof.
  unfold pairs_of. induction subs as [|s0 t IH]; intros [|x xs] [|i] s H E; simpl in *; try discriminate.
  - inversion E; subst. left. reflexivity.
  - right. apply IH; [lia | exact E].
Qed.
Lemma dot_map_nth (f : substance -> Q) : forall subs xs, length xs = length subs ->
  dot (map f subs) xs == Qsum (map (fun p => f (fst p) * snd p) (combine subs xs)).
Proof.
  induction subs as [|s t IH]; intros [|x xs] H; simpl in *; try discriminate; [reflexivity|]. rewrite IH by lia. reflexivity.
Qed.

(* the container built from the solved amounts: its keys, its per-substance amounts and its totals are those of the mixture *)
Theorem built_container cf name subs xs c :
  make_container cf name None (pairs_of subs xs) = Ok c -> NoDup subs -> Forall wf_subst subs -> length xs = length subs ->
  (forall x, In x xs -> 0 < x) ->
  keys (cont c) = subs /\
  (forall i s u, nth_error subs i = Some s -> conv_stored cf s (get s (cont c)) (P0, u) == nth i xs 0 * cone s u) /\
  (forall i s, nth_error subs i = Some s -> 0 < get s (cont c)) /\
  (forall u, total_in cf (cont c) (P0, u) == mix_total subs xs u).
Proof.
  intros H Hnd Hwf L Hpos. unfold make_container, bind in H. simpl in H.
  set (c0 := {| cname := name; cont := []; vol := 0; maxv := None |}) in H.
  assert (Hnd0 : NoDup (keys (cont c0) ++ map fst (pairs_of subs xs))) by (simpl; rewrite pairs_fst by exact L; exact Hnd).
  destruct (add_all_distinct cf _ c0 c H Hnd0) as (Hk & Hget & _). simpl in Hk. rewrite pairs_fst in Hk by exact L.
  assert (Hamt : forall i s, nth_error subs i = Some s ->
            exists ata, conv s (nth i xs 0 * 1) (P0, amount_base s) (stored_unit cf s) = Some ata /\ get s (cont c) == ata).
  { intros i s E. destruct (Hget s _ (pairs_In subs xs i s L E)) as (ata & Ea & _ & Eg).
    unfold amount_qty, qv in Ea. simpl in Ea. change (pmult P0) with 1 in Ea. exists ata. split; [exact Ea | exact Eg]. }
  split; [exact Hk|].
  assert (Hwfs : forall i s, nth_error subs i = Some s -> wf_subst s).
  { intros i s E. rewrite Forall_forall in Hwf. apply Hwf. eapply nth_error_In; exact E. }
  assert (Hconv : forall i s u, nth_error subs i = Some s -> conv_stored cf s (get s (cont c)) (P0, u) == nth i xs 0 * cone s u).
  { intros i s u E. destruct (Hamt i s E) as (ata & Ea & Eg). rewrite Eg.
    rewrite (amount_roundtrip cf s _ u ata (Hwfs i s E) Ea). ring. }
  split; [exact Hconv|]. split.
  - intros i s E. destruct (Hamt i s E) as (ata & Ea & Eg). rewrite Eg.
    apply (amount_stored_pos cf s (nth i xs 0 * 1) ata (Hwfs i s E)); [|exact Ea].
    assert (0 < nth i xs 0); [|lra]. apply Hpos. apply nth_In. rewrite L. apply nth_error_Some. congruence.
  - intros u. unfold total_in, mix_total.
    assert (Hw : wfc (cont c)) by (unfold wfc; rewrite Hk; exact Hnd).
    rewrite (sum_by_keys _ _ Hw), Hk. rewrite dot_map_nth by exact L.
    (* both are sums over the substances in order *)
    clear - Hconv L. revert xs L Hconv. induction subs as [|s t IH]; intros [|x xs] L Hconv; simpl in *; try discriminate; [reflexivity|].
    rewrite (Hconv O s u eq_refl). simpl. rewrite IH with (xs := xs); [ring | lia |].
    intros i s' u' E. apply (Hconv (S i) s' u' E).
Qed.

(* ---------- which rows enter the solve ---------- *)
Lemma rows_from_In {A} (f : nat -> substance -> A -> row) : forall ss xs k i s x,
  nth_error ss i = Some s -> nth_error xs i = Some x -> In (f (k + i)%nat s x) (rows_from f k ss xs).
Proof.
  induction ss as [|s0 t IH]; intros [|x0 xs] k [|i] s x Hs Hx; simpl in *; try discriminate.
  - inversion Hs; inversion Hx; subst. rewrite Nat.add_0_r. left. reflexivity.
  - right. replace (k + S i)%nat with (S k + i)%nat by lia. apply IH; assumption.
Qed.
Lemma rows_from_len {A} (f : nat -> substance -> A -> row) : forall ss xs k, length xs = length ss -> length (rows_from f k ss xs) = length ss.
Proof. induction ss as [|s t IH]; intros [|x xs] k H; simpl in *; try discriminate; auto. Qed.
Lemma firstn_app_exact {A} (l1 l2 : list A) : firstn (length l1) (l1 ++ l2) = l1.
Proof. rewrite firstn_app, Nat.sub_diag, firstn_all. simpl. apply app_nil_r. Qed.

Section Sound.
Variable cf : cfg.
Variables (name : nat) (solutes : list substance) (solvent : substance).
Let subs := solutes ++ [solvent].
Hypothesis Hnd : NoDup subs.
Hypothesis Hwf : Forall wf_subst subs.

Lemma subs_nth i s : nth_error solutes i = Some s -> nth_error subs i = Some s /\ (i < length subs)%nat.
Proof.
  intros H. unfold subs. split; [rewrite nth_error_app1; [exact H | apply nth_error_Some; congruence]|].
  rewrite app_length. assert (i < length solutes)%nat by (apply nth_error_Some; congruence). lia.
Qed.

(* what every accepted create_solution gives, whatever the mode *)
Lemma create_solution_general m c : create_solution cf name solutes solvent m = Ok c ->
  exists xs rows, system solutes solvent m = Ok rows /\ length xs = length subs /\
    (forall r, In r (firstn (S (length solutes)) rows) -> dot (fst r) xs == snd r) /\
    (forall r, In r rows -> Qabs (dot (fst r) xs - snd r) <= (1 # 1000000) * (dot_abs (fst r) xs + Qabs (snd r))) /\
    keys (cont c) = subs /\
    (forall i s u, nth_error subs i = Some s -> conv_stored cf s (get s (cont c)) (P0, u) == nth i xs 0 * cone s u) /\
    (forall i s, nth_error subs i = Some s -> 0 < get s (cont c)) /\
    (forall u, total_in cf (cont c) (P0, u) == mix_total subs xs u).
Proof.
  unfold create_solution, bind. destruct (solve_solution solutes solvent m) as [xs|] eqn:Es; [|discriminate]. intros Hc.
  destruct (solve_solution_sound _ _ _ _ Es) as (rows & Hr & Lx & Hpos & Hex & Htol).
  assert (L : length xs = length subs) by (unfold subs; rewrite app_length; simpl; lia).
  destruct (built_container cf name subs xs c Hc Hnd Hwf L Hpos) as (Hk & Hconv & Hp & Ht).
  exists xs, rows. repeat split; auto.
Qed.

(* concentration + total quantity: every stated concentration and the total are met exactly *)
Theorem create_solution_conc_total cs t c : create_solution cf name solutes solvent (MConcTotal cs t) = Ok c ->
  keys (cont c) = subs /\ (forall i s, nth_error subs i = Some s -> 0 < get s (cont c)) /\
  (forall i s ci, nth_error solutes i = Some s -> nth_error cs i = Some ci ->
     conv_stored cf s (get s (cont c)) (P0, cnum ci) == cval ci * total_in cf (cont c) (P0, cden ci)) /\
  total_in cf (cont c) (P0, qbase t) == qv t.
Proof.
  intros H. destruct (create_solution_general _ _ H) as (xs & rows & Hr & L & Hex & _ & Hk & Hconv & Hp & Ht).
  unfold system in Hr. fold subs in Hr. destruct (Nat.eqb (length cs) (length solutes)) eqn:El; simpl in Hr; [|discriminate].
  apply Nat.eqb_eq in El. inversion Hr; subst rows; clear Hr.
  set (R := rows_from (conc_row subs) 0 solutes cs) in *.
  assert (LR : length R = length solutes) by (apply rows_from_len; exact El).
  assert (Hfirst : forall r, In r (R ++ [total_row subs t]) -> dot (fst r) xs == snd r).
  { intros r Hin. apply Hex. rewrite <- app_assoc.
    replace (S (length solutes)) with (length (R ++ [total_row subs t])) by (rewrite app_length; simpl; lia).
    rewrite app_assoc, firstn_app_exact. exact Hin. }
  split; [exact Hk|]. split; [exact Hp|]. split.
  - intros i s ci Hs Hc. destruct (subs_nth i s Hs) as [Hs' Hi].
    assert (Hin : In (conc_row subs (0 + i) s ci) (R ++ [total_row subs t])) by (apply in_or_app; left; apply rows_from_In; assumption).
    pose proof (Hfirst _ Hin) as Hz. pose proof (conc_row_meaning subs i s ci xs L Hi) as Hm. change (0 + i)%nat with i in Hz.
    rewrite (Hconv i s (cnum ci) Hs'), Ht. lra.
  - assert (Hin : In (total_row subs t) (R ++ [total_row subs t])) by (apply in_or_app; right; left; reflexivity).
    pose proof (Hfirst _ Hin) as Hz. pose proof (total_row_meaning subs t xs) as Hm. rewrite Ht. lra.
Qed.

(* solute quantities + total quantity: every stated quantity and the total are met exactly *)
Theorem create_solution_qty_total qs t c : create_solution cf name solutes solvent (MQtyTotal qs t) = Ok c ->
  keys (cont c) = subs /\ (forall i s, nth_error subs i = Some s -> 0 < get s (cont c)) /\
  (forall i s qi, nth_error solutes i = Some s -> nth_error qs i = Some qi ->
     conv_stored cf s (get s (cont c)) (P0, qbase qi) == qv qi) /\
  total_in cf (cont c) (P0, qbase t) == qv t.
Proof.
  intros H. destruct (create_solution_general _ _ H) as (xs & rows & Hr & L & Hex & _ & Hk & Hconv & Hp & Ht).
  unfold system in Hr. fold subs in Hr. destruct (Nat.eqb (length qs) (length solutes)) eqn:El; simpl in Hr; [|discriminate].
  apply Nat.eqb_eq in El. inversion Hr; subst rows; clear Hr.
  set (R := rows_from (qty_row subs) 0 solutes qs) in *.
  assert (LR : length R = length solutes) by (apply rows_from_len; exact El).
  assert (Hfirst : forall r, In r (R ++ [total_row subs t]) -> dot (fst r) xs == snd r).
  { intros r Hin. apply Hex. rewrite <- app_assoc.
    replace (S (length solutes)) with (length (R ++ [total_row subs t])) by (rewrite app_length; simpl; lia).
    rewrite app_assoc, firstn_app_exact. exact Hin. }
  split; [exact Hk|]. split; [exact Hp|]. split.
  - intros i s qi Hs Hq. destruct (subs_nth i s Hs) as [Hs' Hi].
    assert (Hin : In (qty_row subs (0 + i) s qi) (R ++ [total_row subs t])) by (apply in_or_app; left; apply rows_from_In; assumption).
    pose proof (Hfirst _ Hin) as Hz. pose proof (qty_row_meaning subs i s qi xs L Hi) as Hm. change (0 + i)%nat with i in Hz.
    rewrite (Hconv i s (qbase qi) Hs'). lra.
  - assert (Hin : In (total_row subs t) (R ++ [total_row subs t])) by (apply in_or_app; right; left; reflexivity).
    pose proof (Hfirst _ Hin) as Hz. pose proof (total_row_meaning subs t xs) as Hm. rewrite Ht. lra.
Qed.

(* concentration + solute quantity: every concentration and the FIRST quantity enter the solve and are met exactly; the other
   quantities are guaranteed by the residual test only, within its relative tolerance (partial: see C05 in DESIGN.md) *)
Theorem create_solution_conc_qty_partial cs qs c : create_solution cf name solutes solvent (MConcQty cs qs) = Ok c ->
  keys (cont c) = subs /\ (forall i s, nth_error subs i = Some s -> 0 < get s (cont c)) /\
  (forall i s ci, nth_error solutes i = Some s -> nth_error cs i = Some ci ->
     conv_stored cf s (get s (cont c)) (P0, cnum ci) == cval ci * total_in cf (cont c) (P0, cden ci)) /\
  (forall s q0, nth_error solutes 0 = Some s -> nth_error qs 0 = Some q0 -> conv_stored cf s (get s (cont c)) (P0, qbase q0) == qv q0).
Proof.
  intros H. destruct (create_solution_general _ _ H) as (xs & rows & Hr & L & Hex & _ & Hk & Hconv & Hp & Ht).
  unfold system in Hr. fold subs in Hr.
  destruct (Nat.eqb (length cs) (length solutes)) eqn:El1; simpl in Hr; [|discriminate].
  destruct (Nat.eqb (length qs) (length solutes)) eqn:El2; simpl in Hr; [|discriminate].
  apply Nat.eqb_eq in El1, El2. inversion Hr; subst rows; clear Hr.
  set (R := rows_from (conc_row subs) 0 solutes cs) in *. set (Q := rows_from (qty_row subs) 0 solutes qs) in *.
  assert (LR : length R = length solutes) by (apply rows_from_len; exact El1).
  split; [exact Hk|]. split; [exact Hp|]. split.
  - intros i s ci Hs Hc. destruct (subs_nth i s Hs) as [Hs' Hi].
    assert (Hin : In (conc_row subs (0 + i) s ci) (firstn (S (length solutes)) (R ++ Q))).
    { rewrite firstn_app. apply in_or_app. left. rewrite firstn_all2 by lia. apply rows_from_In; assumption. }
    pose proof (Hex _ Hin) as Hz. pose proof (conc_row_meaning subs i s ci xs L Hi) as Hm. change (0 + i)%nat with i in Hz.
    rewrite (Hconv i s (cnum ci) Hs'), Ht. lra.
  - intros s q0 Hs Hq. destruct (subs_nth 0 s Hs) as [Hs' Hi].
    assert (Hin : In (qty_row subs 0 s q0) (firstn (S (length solutes)) (R ++ Q))).
    { rewrite firstn_app. apply in_or_app. right. rewrite LR. replace (S (length solutes) - length solutes)%nat with 1%nat by lia.
      unfold Q. destruct solutes as [|s0 st]; [discriminate|]. destruct qs as [|qq qt]; [discriminate|]. simpl in *.
      inversion Hs; inversion Hq; subst. left. reflexivity. }
    pose proof (Hex _ Hin) as Hz. pose proof (qty_row_meaning subs 0 s q0 xs L Hi) as Hm.
    rewrite (Hconv 0%nat s (qbase q0) Hs'). lra.
Qed.
End Sound.
