(* ParseThm.v -- theorems about the parsing model (C14): every prefix x base unit token means prefix factor x base
   unit; accepted tokens are exactly of that form; spellings of concentrations denote the SI ratio. *)
Require Import Base Units Parse.
From Coq Require Import String Ascii.

Lemma strip_prefix_spec p : forall l r, strip_prefix p l = Some r <-> l = p ++ r.
Proof.
  induction p as [|a p IH]; intros l r; simpl.
  - split; [intros H; inversion H; reflexivity | intros ->; reflexivity].
  - destruct l as [|b l]; [split; [discriminate | intros H; discriminate]|].
    destruct (Ascii.eqb a b) eqn:E.
    + apply Ascii.eqb_eq in E. subst b. rewrite IH. split; [intros ->; reflexivity | intros H; inversion H; reflexivity].
    + apply Ascii.eqb_neq in E. split; [discriminate | intros H; inversion H; subst; contradiction].
Qed.
Lemma strip_suffix_spec suf s pre : strip_suffix suf s = Some pre <-> s = pre ++ suf.
Proof.
  unfold strip_suffix. destruct (strip_prefix (rev suf) (rev s)) as [r|] eqn:E.
  - apply strip_prefix_spec in E. split.
    + intros H; inversion H; subst. rewrite <- (rev_involutive s), E, rev_app_distr, rev_involutive. reflexivity.
    + intros ->. rewrite rev_app_distr in E. apply app_inv_head in E. subst r. rewrite rev_involutive. reflexivity.
  - split; [discriminate|]. intros ->. rewrite rev_app_distr in E.
    assert (strip_prefix (rev suf) (rev suf ++ rev pre) = Some (rev pre)) by (apply strip_prefix_spec; reflexivity). congruence.
Qed.
Lemma chars_app a b : chars (a ++ b) = (chars a ++ chars b)%list.
Proof. unfold chars. induction a as [|c a IH]; simpl; [reflexivity | rewrite IH; reflexivity]. Qed.
Lemma chars_inj a b : chars a = chars b -> a = b.
Proof. unfold chars. intros H. rewrite <- (string_of_list_ascii_of_string a), <- (string_of_list_ascii_of_string b), H. reflexivity. Qed.
Lemma list_eqb_eq a b : list_eqb a b = true <-> a = b.
Proof. unfold list_eqb. destruct (list_eq_dec ascii_dec a b); split; auto; discriminate. Qed.

(* the prefix table: exactly the ten SI prefixes *)
Lemma find_prefix_sound tok ps p : find_prefix tok ps = Some p -> tok = chars (pname p).
Proof.
  induction ps as [|q t IH]; simpl; [discriminate|]. destruct (list_eqb tok (chars (pname q))) eqn:E.
  - apply list_eqb_eq in E. intros H. injection H as Hq. subst q. exact E.
  - exact IH.
Qed.
Theorem prefix_of_sound tok p : prefix_of tok = Some p -> tok = chars (pname p).
Proof. apply find_prefix_sound. Qed.
Theorem prefix_of_complete p : prefix_of (chars (pname p)) = Some p.
Proof. destruct p; reflexivity. Qed.
Theorem prefix_table_SI :
  pmult Pn == 1 / 10^9 /\ pmult Pu == 1 / 10^6 /\ pmult Pmu == 1 / 10^6 /\ pmult Pm == 1 / 10^3 /\ pmult Pc == 1 / 10^2 /\
  pmult Pd == 1 / 10 /\ pmult P0 == 1 /\ pmult Pda == 10 /\ pmult Pk == 10^3 /\ pmult PM == 10^6.
Proof. repeat split; reflexivity. Qed.

(* ---------- quantities ---------- *)
Theorem split_unit_ok p b : split_unit (pname p ++ qname b) = Ok (p, b).
Proof. destruct p, b; reflexivity. Qed.
Theorem parse_quantity_value v p b : parse_quantity v (pname p ++ qname b) = Ok (v * pmult p, b).
Proof. unfold parse_quantity. rewrite split_unit_ok. reflexivity. Qed.

Lemma try_bases_sound tok bs p b : try_bases tok bs = Ok (p, b) -> tok = (chars (pname p) ++ chars (qname b))%list.
Proof.
  induction bs as [|x t IH]; simpl; [discriminate|].
  destruct (strip_suffix (chars (qname x)) tok) as [pre|] eqn:E.
  - apply strip_suffix_spec in E. destruct (prefix_of pre) as [q|] eqn:Ep; [|discriminate].
    intros H. injection H as Hq Hx. subst q x. apply prefix_of_sound in Ep. subst pre. exact E.
  - exact IH.
Qed.
(* accepted unit tokens are exactly prefix ++ base unit: anything else is rejected *)
Theorem split_unit_sound tok p b : split_unit tok = Ok (p, b) -> tok = (pname p ++ qname b)%string.
Proof.
  unfold split_unit. destruct (String.eqb tok "U") eqn:E.
  - apply String.eqb_eq in E. intros H; inversion H; subst. reflexivity.
  - intros H. apply try_bases_sound in H. apply chars_inj. rewrite chars_app. exact H.
Qed.
Theorem split_unit_rejects tok : (forall p b, tok <> (pname p ++ qname b)%string) -> exists e, split_unit tok = Err e.
Proof.
  intros H. destruct (split_unit tok) as [[p b]|e] eqn:E; [|eauto]. apply split_unit_sound in E. exfalso. eapply H; eassumption.
Qed.
Theorem split_unit_err_is_value tok e : split_unit tok = Err e -> e = EValue.
Proof.
  unfold split_unit. destruct (String.eqb tok "U"); [discriminate|]. generalize quantity_bases. intros bs.
  induction bs as [|x t IH]; simpl; [intros H; inversion H; reflexivity|].
  destruct (strip_suffix _ _); [destruct (prefix_of _); [discriminate | intros H; inversion H; reflexivity] | exact IH].
Qed.

(* ---------- concentrations ---------- *)
Lemma rewrite_tok_ok p b : rewrite_tok (chars (pname p ++ bname b)) concentration_bases = Ok (pmult p * 1, chars (bname b)).
Proof. destruct p, b; reflexivity. Qed.
Lemma base_of_tok_ok b : base_of_tok (chars (bname b)) = Some b.
Proof. destruct b; reflexivity. Qed.

(* "v pN/qD" and "v pN/w qD" denote v (/ w) times the ratio of the prefix factors, in N per D *)
Theorem conc_slash_value v pn nb pd db :
  exists x, parse_concentration ("g", "mL")%string (CSlash v (pname pn ++ bname nb) None (pname pd ++ bname db)) = Ok (x, nb, db) /\
            x == v * pmult pn / pmult pd.
Proof.
  cbn [parse_concentration]. unfold parse_slash, bind. rewrite !rewrite_tok_ok. cbn [fst snd]. rewrite !base_of_tok_ok.
  eexists. split; [reflexivity|]. rewrite rnd_eq. field. apply pmult_nz.
Qed.
Theorem conc_slash_value_den v w pn nb pd db : ~ w == 0 ->
  exists x, parse_concentration ("g", "mL")%string (CSlash v (pname pn ++ bname nb) (Some w) (pname pd ++ bname db)) = Ok (x, nb, db) /\
            x == v / w * pmult pn / pmult pd.
Proof.
  intros Hw. cbn [parse_concentration]. unfold parse_slash, bind. apply Qeqb_neq in Hw. rewrite Hw. rewrite !rewrite_tok_ok. cbn [fst snd]. rewrite !base_of_tok_ok.
  eexists. split; [reflexivity|]. rewrite rnd_eq. apply Qeqb_neq in Hw. field. split; [exact Hw | apply pmult_nz].
Qed.
(* M is mol/L, m is mol/kg, with any prefix; percentages are parts per hundred *)
Theorem conc_molar v p : parse_concentration ("g", "mL")%string (CShort v (pname p ++ "M")) =
                         parse_concentration ("g", "mL")%string (CSlash v (pname p ++ "mol") None "L").
Proof. destruct p; reflexivity. Qed.
Theorem conc_molal v p : parse_concentration ("g", "mL")%string (CShort v (pname p ++ "m")) =
                         parse_concentration ("g", "mL")%string (CSlash v (pname p ++ "mol") None "kg").
Proof. destruct p; reflexivity. Qed.
Theorem conc_percent v :
  (exists x, parse_concentration ("g", "mL")%string (CPercent v PctWW) = Ok (x, BG, BG) /\ x == v / 100) /\
  (exists x, parse_concentration ("g", "mL")%string (CPercent v PctVV) = Ok (x, BL, BL) /\ x == v / 100) /\
  (exists x, parse_concentration ("g", "mL")%string (CPercent v PctWV) = Ok (x, BG, BL) /\ x == v / 100 * 1000).
Proof.
  repeat split; (eexists; split; [reflexivity | rewrite rnd_eq; destruct v as [n d]; unfold Qeq; simpl; lia]).
Qed.
(* equivalent spellings denote the same triple: '1 M', '1 mol/L', '1 mmol/mL', '0.01 mmol/10 uL' (here for any value v) *)
Theorem equivalent_spellings v :
  exists x y z, parse_concentration ("g", "mL")%string (CShort v "M") = Ok (x, BMol, BL) /\
                parse_concentration ("g", "mL")%string (CSlash v "mmol" None "mL") = Ok (y, BMol, BL) /\
                parse_concentration ("g", "mL")%string (CSlash (v / 100) "mmol" (Some 10) "uL") = Ok (z, BMol, BL) /\
                x == v /\ y == v /\ z == v.
Proof.
  pose proof (conc_molar v P0) as HM. destruct (conc_slash_value v P0 BMol P0 BL) as (x & Hx & Ex).
  destruct (conc_slash_value v Pm BMol Pm BL) as (y & Hy & Ey).
  assert (H10 : ~ 10 == 0) by (intro H; discriminate H).
  destruct (conc_slash_value_den (v / 100) 10 Pm BMol Pu BL H10) as (z & Hz & Ez).
  exists x, y, z. split; [rewrite <- Hx; exact HM|]. split; [exact Hy|]. split; [exact Hz|].
  split; [rewrite Ex; simpl; field|]. split; [rewrite Ey; simpl; field | rewrite Ez; simpl; field].
Qed.

(* malformed concentrations are rejected *)
Theorem conc_malformed_rejected wv :
  parse_concentration wv CNoUnit = Err EValue /\ parse_concentration wv CTwoSlashes = Err EValue /\
  (forall v tok, last_char tok <> Some "m"%char -> last_char tok <> Some "M"%char -> parse_concentration wv (CShort v tok) = Err EValue).
Proof.
  repeat split. intros v tok H1 H2. simpl. destruct (last_char tok) as [a|]; [|reflexivity].
  destruct a as [[] [] [] [] [] [] [] []]; try reflexivity; exfalso; [apply H1 | apply H2]; reflexivity.
Qed.
Lemma rewrite_tok_err tok bs e : rewrite_tok tok bs = Err e -> e = EValue.
Proof.
  revert tok. induction bs as [|b t IH]; intros tok; simpl; [discriminate|].
  destruct (strip_suffix _ tok); [|apply IH]. destruct (prefix_of _); [|intros H; inversion H; reflexivity].
  unfold bind. destruct (rewrite_tok _ t) eqn:E; [discriminate|]. intros H; inversion H; subst. eapply IH; eassumption.
Qed.
(* an accepted unit token of a concentration is a prefix followed by one of mol, L, g, U *)
Theorem conc_token_sound tok m t b :
  rewrite_tok tok concentration_bases = Ok (m, t) -> base_of_tok t = Some b ->
  exists p, tok = (chars (pname p) ++ chars (bname b))%list.
Proof.
  unfold concentration_bases. cbn [rewrite_tok].
  Local Ltac hit E Ep :=
    apply strip_suffix_spec in E;
    match goal with |- context [prefix_of ?pre] => destruct (prefix_of pre) eqn:Ep end;
    [ apply prefix_of_sound in Ep; subst; unfold bind;
      intros H; vm_compute in H; injection H as Hm Ht; subst; intros Hb; vm_compute in Hb; injection Hb as Hb; subst; eexists; reflexivity
    | intros H; discriminate H ].
  destruct (strip_suffix (chars (bname BMol)) tok) as [pre|] eqn:E1; [hit E1 Ep|].
  destruct (strip_suffix (chars (bname BL)) tok) as [pre|] eqn:E2; [hit E2 Ep|].
  destruct (strip_suffix (chars (bname BG)) tok) as [pre|] eqn:E3; [hit E3 Ep|].
  destruct (strip_suffix (chars (bname BU)) tok) as [pre|] eqn:E4; [hit E4 Ep|].
  intros H; injection H as Hm Ht; subst t m. intros Hb. unfold base_of_tok in Hb.
  destruct (list_eqb tok (chars "U")) eqn:L1; [apply list_eqb_eq in L1; subst; vm_compute in E4; discriminate|].
  destruct (list_eqb tok (chars "mol")) eqn:L2; [apply list_eqb_eq in L2; subst; vm_compute in E1; discriminate|].
  destruct (list_eqb tok (chars "L")) eqn:L3; [apply list_eqb_eq in L3; subst; vm_compute in E2; discriminate|].
  destruct (list_eqb tok (chars "g")) eqn:L4; [apply list_eqb_eq in L4; subst; vm_compute in E3; discriminate | discriminate].
Qed.
