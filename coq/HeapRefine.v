(* HeapRefine.v -- the object-level model (Heap.v) computes the values of the value-level model (Container.v, Plate.v): running an
   operation on a heap in which the operands are represented yields a heap in which the results of the value-level operation are
   represented (at new addresses), with the same error otherwise.  Together with HeapThm.v (nothing old is written) this makes
   Heap.v a refinement of the value model rather than a second transcription. *)
Require Import Base Units Contents Container ContainerThm Plate PlateThm Dilute Solve Heap HeapThm ConfigThm.
Require Import Lia.

(* ---------- representation ---------- *)
Definition cont_at (h : heap) (a : addr) (c : container) : Prop := exists i, nth_error h a = Some (CCont c i).
Definition arr_at (h : heap) (arr : addr) (ws : list container) : Prop :=
  exists addrs, nth_error h arr = Some (CArr addrs) /\ Forall2 (cont_at h) addrs ws.
Definition plate_at (h : heap) (p : addr) (pl : plate) : Prop :=
  exists arr, nth_error h p = Some (CPlate (pname pl) (nrows pl) (ncols pl) arr) /\ arr_at h arr (wells pl).

(* h' keeps every cell of h, except possibly those at the addresses in ex *)
Definition ext_ex (ex : list addr) (h h' : heap) : Prop :=
  forall a c, ~ In a ex -> nth_error h a = Some c -> nth_error h' a = Some c.
Lemma ext_ex_refl ex h : ext_ex ex h h. Proof. intros a c _ H; exact H. Qed.
Lemma ext_ex_trans ex h1 h2 h3 : ext_ex ex h1 h2 -> ext_ex ex h2 h3 -> ext_ex ex h1 h3.
Proof. intros A B a c Ha H. apply B; auto. Qed.
Lemma ext_ex_app ex h l : ext_ex ex h (h ++ l).
Proof. intros a c _ H. rewrite nth_error_app1; [exact H | apply nth_error_Some; congruence]. Qed.
Lemma ext_ex_store ex h a c : In a ex -> ext_ex ex h (set_nth a c h).
Proof. intros Ha b x Hb H. rewrite HeapThm.set_nth_other; [exact H | intro; subst; contradiction]. Qed.
Lemma ext_ex_weaken ex ex' h h' : (forall a, In a ex -> In a ex') -> ext_ex ex h h' -> ext_ex ex' h h'.
Proof. intros Hs H a c Ha. apply H. intro; apply Ha; auto. Qed.

Lemma cont_at_ext ex h h' a c : ext_ex ex h h' -> ~ In a ex -> cont_at h a c -> cont_at h' a c.
Proof. intros E Ha [i H]. exists i. apply E; assumption. Qed.

Lemma Forall2_impl_in {A B} (P Q : A -> B -> Prop) l l' : (forall a b, P a b -> Q a b) -> Forall2 P l l' -> Forall2 Q l l'.
Proof. intros H. induction 1; constructor; auto. Qed.
Lemma F2_nth_error {A B} (P : A -> B -> Prop) l l' i : Forall2 P l l' ->
  match nth_error l i, nth_error l' i with Some a, Some b => P a b | None, None => True | _, _ => False end.
Proof. intros H. revert i. induction H; intros [|i]; simpl; auto. apply IHForall2. Qed.
Lemma F2_set_nth {A B} (P : A -> B -> Prop) l l' i a b : Forall2 P l l' -> P a b -> Forall2 P (set_nth i a l) (set_nth i b l').
Proof. intros H Hab. revert i. induction H; intros [|i]; simpl; constructor; auto. Qed.
Lemma nth_error_set_nth_eq {A} (l : list A) n x : (n < length l)%nat -> nth_error (set_nth n x l) n = Some x.
Proof. revert n; induction l as [|y l IH]; intros [|n] H; simpl in *; try lia; auto. apply IH; lia. Qed.

(* ---------- running the primitives ---------- *)
Lemma run_bind_ok {A B} (m : M A) (k : A -> M B) h a h1 : m h = (Ok a, h1) -> mbind m k h = k a h1.
Proof. intros E. unfold mbind. rewrite E. reflexivity. Qed.
Lemma run_bind_err {A B} (m : M A) (k : A -> M B) h e h1 : m h = (Err e, h1) -> mbind m k h = (Err e, h1).
Proof. intros E. unfold mbind. rewrite E. reflexivity. Qed.
Lemma run_lift {A B} (r : result A) (k : A -> M B) h :
  mbind (lift r) k h = match r with Ok a => k a h | Err e => (Err e, h) end.
Proof. unfold mbind, lift. destruct r; reflexivity. Qed.
Lemma run_store {B} a c (k : unit -> M B) h : mbind (store a c) k h = k tt (set_nth a c h).
Proof. reflexivity. Qed.
Lemma run_load_cont h a c i : nth_error h a = Some (CCont c i) -> load_cont a h = (Ok (c, i), h).
Proof. intros E. unfold load_cont, mbind, load. rewrite E. reflexivity. Qed.
Lemma run_copy_cont h a c i : nth_error h a = Some (CCont c i) -> copy_cont a h = (Ok (length h), h ++ [CCont c i]).
Proof. intros E. unfold copy_cont. rewrite (run_bind_ok _ _ _ _ _ (run_load_cont h a c i E)). reflexivity. Qed.

Section Ops.
Variable cf : cfg.

(* ---------- Container.transfer ---------- *)
Theorem h_transfer_cc_refines h s d q cs cd :
  cont_at h s cs -> cont_at h d cd ->
  match transfer cf cs cd q with
  | Ok (x, y) => exists a b h', h_transfer_cc cf s d q h = (Ok (a, b), h') /\ ext_ex [] h h' /\ cont_at h' a x /\ cont_at h' b y /\
                              (length h <= a)%nat /\ (length h <= b)%nat /\ a <> b
  | Err e => exists h', h_transfer_cc cf s d q h = (Err e, h') /\ ext_ex [] h h'
  end.
Proof.
  intros [is Es] [id Ed]. unfold h_transfer_cc.
  rewrite (run_bind_ok _ _ _ _ _ (run_load_cont h s cs is Es)). rewrite (run_bind_ok _ _ _ _ _ (run_load_cont h d cd id Ed)). cbn [fst snd].
  unfold transfer, bind. rewrite run_lift.
  destruct (transfer_ratio cf cs q) as [r|e] eqn:Er; [|exists h; split; [reflexivity | apply ext_ex_refl]].
  destruct (Qltb (rnd r) 0) eqn:E0; cbn [orb]; [exists h; split; [reflexivity | apply ext_ex_refl]|].
  destruct (Qgtb (rnd r) 1) eqn:E1; [exists h; split; [reflexivity | apply ext_ex_refl]|].
  rewrite (run_bind_ok _ _ _ _ _ (run_copy_cont h s cs is Es)).
  assert (Ed' : nth_error (h ++ [CCont cs is]) d = Some (CCont cd id)) by (apply (ext_ex_app [] h); auto).
  rewrite (run_bind_ok _ _ _ _ _ (run_copy_cont _ d cd id Ed')).
  set (h2 := (h ++ [CCont cs is]) ++ [CCont cd id]).
  assert (L1 : length (h ++ [CCont cs is]) = S (length h)) by (rewrite app_length; simpl; lia).
  assert (L2 : length h2 = S (S (length h))) by (unfold h2; rewrite app_length, L1; simpl; lia).
  assert (X2 : ext_ex [] h h2) by (unfold h2; eapply ext_ex_trans; apply ext_ex_app).
  rewrite run_lift.
  destruct (over _ (maxv cd)) eqn:Eo; [exists h2; split; [reflexivity | exact X2]|].
  cbn [fst snd]. rewrite !run_store. rewrite L1.
  eexists (length h), (S (length h)), _. split; [reflexivity|].
  set (c1 := CCont _ is). set (c2 := CCont _ (S id)).
  assert (Ls : length (set_nth (length h) c1 h2) = S (S (length h))) by (rewrite HeapThm.set_nth_length; exact L2).
  split; [|split; [|split; [|split; [lia | split; lia]]]].
  - intros a c _ Ha. assert (a < length h)%nat by (apply nth_error_Some; congruence).
    rewrite !HeapThm.set_nth_other by lia. apply X2; auto.
  - exists is. rewrite HeapThm.set_nth_other by lia. apply nth_error_set_nth_eq. lia.
  - exists (S id). apply nth_error_set_nth_eq. lia.
Qed.

(* ---------- loops over wells ---------- *)
Definition sim_step (f : addr -> addr -> M (addr * addr)) (g : container -> container -> result (container * container)) : Prop :=
  forall h acc w accv wv, cont_at h acc accv -> cont_at h w wv ->
    match g accv wv with
    | Ok (a', w') => exists aa wa h', f acc w h = (Ok (aa, wa), h') /\ ext_ex [] h h' /\ cont_at h' aa a' /\ cont_at h' wa w'
    | Err e => exists h', f acc w h = (Err e, h') /\ ext_ex [] h h'
    end.

Lemma sim_src q : sim_step (fun acc w => h_transfer_cc cf acc w q) (fun a w => transfer cf a w q).
Proof.
  intros h acc w accv wv Ha Hw. pose proof (h_transfer_cc_refines h acc w q accv wv Ha Hw) as H.
  destruct (transfer cf accv wv q) as [[x y]|e]; [|exact H].
  destruct H as (a & b & h' & E & X & Ca & Cb & _). exists a, b, h'. auto.
Qed.
Lemma sim_dst q : sim_step (fun acc w => mdo r <- h_transfer_cc cf w acc q; ret (snd r, fst r))
                           (fun d w => do sd <- transfer cf w d q; Ok (snd sd, fst sd)).
Proof.
  intros h acc w accv wv Ha Hw. pose proof (h_transfer_cc_refines h w acc q wv accv Hw Ha) as H. unfold bind.
  destruct (transfer cf wv accv q) as [[x y]|e].
  - destruct H as (a & b & h' & E & X & Ca & Cb & _). exists b, a, h'. rewrite (run_bind_ok _ _ _ _ _ E). cbn. auto.
  - destruct H as (h' & E & X). exists h'. rewrite (run_bind_err _ _ _ _ _ E). auto.
Qed.

Lemma cell_neq h a c arr addrs : cont_at h a c -> nth_error h arr = Some (CArr addrs) -> a <> arr.
Proof. intros [i H] H2 E. subst. congruence. Qed.
Lemma cont_at_store h arr addrs x a c : nth_error h arr = Some (CArr addrs) -> cont_at h a c -> cont_at (set_nth arr x h) a c.
Proof.
  intros Harr Hc. pose proof (cell_neq h a c arr addrs Hc Harr) as Hne. destruct Hc as [i H]. exists i.
  rewrite HeapThm.set_nth_other by auto. exact H.
Qed.
Lemma run_load_arr h arr addrs : nth_error h arr = Some (CArr addrs) -> load_arr arr h = (Ok addrs, h).
Proof. intros E. unfold load_arr, mbind, load. rewrite E. reflexivity. Qed.

Lemma h_fold_refines f g arr : sim_step f g -> forall idxs h acc accv ws,
  arr_at h arr ws -> cont_at h acc accv ->
  match fold_wells g idxs accv ws with
  | Ok (a', ws') => exists acc' h', h_fold f arr idxs acc h = (Ok acc', h') /\ ext_ex [arr] h h' /\ cont_at h' acc' a' /\ arr_at h' arr ws'
  | Err e => exists h', h_fold f arr idxs acc h = (Err e, h') /\ ext_ex [arr] h h'
  end.
Proof.
  intros Hsim. induction idxs as [|i t IH]; intros h acc accv ws Harr Hacc.
  - simpl. exists acc, h. split; [reflexivity|]. split; [apply ext_ex_refl | auto].
  - rewrite fold_wells_cons. cbn [h_fold]. destruct Harr as (addrs & Earr & Hall).
    rewrite (run_bind_ok _ _ _ _ _ (run_load_arr h arr addrs Earr)).
    pose proof (F2_nth_error _ _ _ i Hall) as Hi.
    destruct (nth_error addrs i) as [w|] eqn:Ew; destruct (nth_error ws i) as [wv|] eqn:Ewv; try contradiction;
      [|exists h; split; [reflexivity | apply ext_ex_refl]].
    unfold bind. pose proof (Hsim h acc w accv wv Hacc Hi) as Hs.
    destruct (g accv wv) as [[a1 w1]|e].
    + destruct Hs as (aa & wa & h1 & E1 & X1 & Ca & Cw). rewrite (run_bind_ok _ _ _ _ _ E1). cbn [fst snd]. rewrite run_store.
      set (h2 := set_nth arr (CArr (set_nth i wa addrs)) h1).
      assert (Earr1 : nth_error h1 arr = Some (CArr addrs)) by (apply X1; auto).
      assert (Larr : (arr < length h1)%nat) by (apply nth_error_Some; congruence).
      assert (X12 : ext_ex [arr] h1 h2) by (apply ext_ex_store; left; reflexivity).
      assert (Harr2 : arr_at h2 arr (set_nth i w1 ws)).
      { exists (set_nth i wa addrs). split; [apply nth_error_set_nth_eq; exact Larr|].
        apply F2_set_nth.
        - eapply Forall2_impl_in; [|exact Hall]. intros a c Hac.
          apply (cont_at_store h1 arr addrs _ a c Earr1). eapply cont_at_ext; [exact X1 | auto | exact Hac].
        - apply (cont_at_store h1 arr addrs _ wa w1 Earr1 Cw). }
      assert (Hacc2 : cont_at h2 aa a1) by (apply (cont_at_store h1 arr addrs _ aa a1 Earr1 Ca)).
      specialize (IH h2 aa a1 (set_nth i w1 ws) Harr2 Hacc2). simpl.
      assert (X02 : ext_ex [arr] h h2) by (eapply ext_ex_trans; [eapply ext_ex_weaken; [|exact X1]; intros ? [] | exact X12]).
      destruct (fold_wells g t a1 (set_nth i w1 ws)) as [[a' ws']|e].
      * destruct IH as (acc' & h' & E & X & C & A). exists acc', h'. split; [exact E|]. split; [eapply ext_ex_trans; eassumption | auto].
      * destruct IH as (h' & E & X). exists h'. split; [exact E | eapply ext_ex_trans; eassumption].
    + destruct Hs as (h1 & E1 & X1). rewrite (run_bind_err _ _ _ _ _ E1). exists h1. split; [reflexivity|].
      eapply ext_ex_weaken; [|exact X1]. intros ? [].
Qed.

(* ---------- copies ---------- *)
Lemma cont_at_app h l a c : cont_at h a c -> cont_at (h ++ l) a c.
Proof. intros [i H]. exists i. apply (ext_ex_app [] h l a _ (fun x => x) H). Qed.
Lemma mapM_copy_refines : forall addrs ws h, Forall2 (cont_at h) addrs ws ->
  exists addrs' h', mapM copy_cont addrs h = (Ok addrs', h') /\ ext_ex [] h h' /\ Forall2 (cont_at h') addrs' ws /\
                    Forall (fun a => (length h <= a)%nat) addrs' /\ (length h <= length h')%nat.
Proof.
  induction addrs as [|a t IH]; intros ws h H; inversion H as [|a0 c t0 ws' [i Hc] Hrest]; subst; cbn [mapM].
  - exists [], h. repeat split; auto using ext_ex_refl.
  - rewrite (run_bind_ok _ _ _ _ _ (run_copy_cont h a c i Hc)).
    set (h1 := h ++ [CCont c i]).
    assert (Hrest1 : Forall2 (cont_at h1) t ws') by (eapply Forall2_impl_in; [|exact Hrest]; intros; apply cont_at_app; assumption).
    destruct (IH ws' h1 Hrest1) as (addrs' & h' & E & X & F & Fr & L).
    rewrite (run_bind_ok _ _ _ _ _ E). exists (length h :: addrs'), h'. cbn.
    assert (L1 : length h1 = S (length h)) by (unfold h1; rewrite app_length; simpl; lia).
    split; [reflexivity|]. split; [eapply ext_ex_trans; [apply ext_ex_app | exact X]|]. split; [|split].
    + constructor; [|exact F]. exists i. apply X; auto. unfold h1. rewrite nth_error_app2 by lia. rewrite Nat.sub_diag. reflexivity.
    + constructor; [lia|]. eapply Forall_impl; [|exact Fr]. intros x Hx. cbn beta in Hx. lia.
    + lia.
Qed.

Lemma run_load_plate h p nm nr nc arr : nth_error h p = Some (CPlate nm nr nc arr) -> load_plate p h = (Ok (nm, nr, nc, arr), h).
Proof. intros E. unfold load_plate, mbind, load. rewrite E. reflexivity. Qed.

Lemma deepcopy_plate_refines h p pl : plate_at h p pl ->
  exists p' arr' h', deepcopy_plate p h = (Ok (p', arr', ncols pl), h') /\ ext_ex [] h h' /\
    nth_error h' p' = Some (CPlate (pname pl) (nrows pl) (ncols pl) arr') /\ arr_at h' arr' (wells pl) /\
    (length h <= p')%nat /\ (length h <= arr')%nat /\ p' <> arr'.
Proof.
  intros (arr & Ep & addrs & Earr & Hall). unfold deepcopy_plate.
  rewrite (run_bind_ok _ _ _ _ _ (run_load_plate h p _ _ _ _ Ep)). cbv beta iota.
  rewrite (run_bind_ok _ _ _ _ _ (run_load_arr h arr addrs Earr)).
  destruct (mapM_copy_refines addrs (wells pl) h Hall) as (addrs' & h1 & E & X & F & Fr & L).
  rewrite (run_bind_ok _ _ _ _ _ E).
  unfold alloc at 1. unfold mbind at 1. unfold alloc at 1. unfold mbind at 1. cbn [ret].
  set (h2 := h1 ++ [CArr addrs']). set (h3 := h2 ++ [CPlate (pname pl) (nrows pl) (ncols pl) (length h1)]).
  assert (L2 : length h2 = S (length h1)) by (unfold h2; rewrite app_length; simpl; lia).
  exists (length h2), (length h1), h3. split; [reflexivity|].
  split; [eapply ext_ex_trans; [exact X | eapply ext_ex_trans; apply ext_ex_app]|].
  split; [unfold h3; rewrite nth_error_app2 by lia; rewrite Nat.sub_diag; reflexivity|].
  split; [|split; [lia | split; lia]].
  exists addrs'. split.
  - unfold h3. rewrite nth_error_app1 by lia. unfold h2. rewrite nth_error_app2 by lia. rewrite Nat.sub_diag. reflexivity.
  - eapply Forall2_impl_in; [|exact F]. intros a c Hc. unfold h3, h2. apply cont_at_app, cont_at_app. exact Hc.
Qed.

(* ---------- container -> wells of a plate (PlateSlicer._transfer with a container source), the destination given as a slice ---------- *)
Lemma run_load_slice h s p rg : nth_error h s = Some (CSlice p rg) -> load_slice s h = (Ok (p, rg), h).
Proof. intros E. unfold load_slice, mbind, load. rewrite E. reflexivity. Qed.

Lemma run_copy_slice h s p rg : nth_error h s = Some (CSlice p rg) -> copy_slice s h = (Ok (length h), h ++ [CSlice p rg]).
Proof. intros E. unfold copy_slice. rewrite (run_bind_ok _ _ _ _ _ (run_load_slice h s p rg E)). reflexivity. Qed.
Lemma private_slice_refines h s p rg pl : nth_error h s = Some (CSlice p rg) -> plate_at h p pl ->
  exists sp h', private_slice s h = (Ok sp, h') /\ ext_ex [] h h' /\ ps_rg sp = rg /\ ps_nc sp = ncols pl /\
    nth_error h' (ps_plate sp) = Some (CPlate (pname pl) (nrows pl) (ncols pl) (ps_arr sp)) /\ arr_at h' (ps_arr sp) (wells pl) /\
    (length h <= ps_plate sp)%nat /\ (length h <= ps_arr sp)%nat /\ ps_plate sp <> ps_arr sp.
Proof.
  intros Es Hp. unfold private_slice.
  rewrite (run_bind_ok _ _ _ _ _ (run_copy_slice h s p rg Es)).
  set (h1 := h ++ [CSlice p rg]).
  assert (E1 : nth_error h1 (length h) = Some (CSlice p rg)) by (unfold h1; rewrite nth_error_app2 by lia; rewrite Nat.sub_diag; reflexivity).
  rewrite (run_bind_ok _ _ _ _ _ (run_load_slice h1 (length h) p rg E1)). cbn [fst snd].
  assert (Hp1 : plate_at h1 p pl).
  { destruct Hp as (arr & Ep & addrs & Earr & Hall). exists arr. split; [apply (ext_ex_app [] h); auto|].
    exists addrs. split; [apply (ext_ex_app [] h); auto|]. eapply Forall2_impl_in; [|exact Hall]. intros; apply cont_at_app; assumption. }
  destruct (deepcopy_plate_refines h1 p pl Hp1) as (p' & arr' & h2 & E & X & Epl & Harr & Lp & La & Hne).
  rewrite (run_bind_ok _ _ _ _ _ E). cbn [fst snd]. rewrite run_store.
  assert (L1 : length h1 = S (length h)) by (unfold h1; rewrite app_length; simpl; lia).
  set (h3 := set_nth (length h) (CSlice p' rg) h2).
  eexists {| ps_slice := length h; ps_plate := p'; ps_arr := arr'; ps_nc := ncols pl; ps_rg := rg |}, h3. cbn [ps_slice ps_plate ps_arr ps_nc ps_rg].
  split; [reflexivity|].
  assert (X3 : forall a c, a <> length h -> nth_error h2 a = Some c -> nth_error h3 a = Some c)
    by (intros a c Ha H; unfold h3; rewrite HeapThm.set_nth_other by auto; exact H).
  split. { intros a c _ Ha. assert (a < length h)%nat by (apply nth_error_Some; congruence). apply X3; [lia|]. apply X; auto. apply (ext_ex_app [] h); auto. }
  split; [reflexivity|]. split; [reflexivity|].
  split; [apply X3; [lia | exact Epl]|].
  split; [|split; [lia | split; [lia | exact Hne]]].
  destruct Harr as (addrs' & Ea & Fa). exists addrs'. split; [apply X3; [lia | exact Ea]|].
  eapply Forall2_impl_in; [|exact Fa]. intros a c [i Hc]. exists i. apply X3; [|exact Hc].
  intro; subst a. assert (Hs1 : nth_error h2 (length h) = Some (CSlice p rg)) by (apply X; auto). congruence.
Qed.

Lemma ext_fresh h h1 h2 x : ext_ex [] h h1 -> ext_ex [x] h1 h2 -> (length h <= x)%nat -> ext_ex [] h h2.
Proof.
  intros A B L a c _ Ha. assert (a < length h)%nat by (apply nth_error_Some; congruence).
  apply B; [intros [E|[]]; lia | apply A; auto].
Qed.
Lemma run_as_slice_slice h a p rg : nth_error h a = Some (CSlice p rg) -> as_slice a h = (Ok a, h).
Proof. intros E. unfold as_slice, mbind, load. rewrite E. reflexivity. Qed.

(* container -> the wells a slice addresses *)
Theorem h_transfer_cs_refines h s dst q cs p rg pl :
  cont_at h s cs -> nth_error h dst = Some (CSlice p rg) -> plate_at h p pl ->
  match c_to_p cf cs pl rg q with
  | Ok (c', pl') => exists a b h', h_transfer_cs cf s dst q h = (Ok (a, b), h') /\ ext_ex [] h h' /\ cont_at h' a c' /\ plate_at h' b pl' /\
                                   (length h <= b)%nat
  | Err e => exists h', h_transfer_cs cf s dst q h = (Err e, h') /\ ext_ex [] h h'
  end.
Proof.
  intros Hs Ed Hp. unfold h_transfer_cs.
  rewrite (run_bind_ok _ _ _ _ _ (run_as_slice_slice h dst p rg Ed)).
  destruct Hs as [is Es]. rewrite (run_bind_ok _ _ _ _ _ (run_load_cont h s cs is Es)).
  destruct (private_slice_refines h dst p rg pl Ed Hp) as (sp & h1 & E1 & X1 & Erg & Enc & Epl & Harr & Lp & La & Hne).
  rewrite (run_bind_ok _ _ _ _ _ E1). rewrite Erg, Enc. unfold c_to_p.
  destruct (region_idx (ncols pl) rg) as [|i0 t] eqn:Eidx; cbn [nonempty nonempty_or_err].
  - exists h1. split; [reflexivity | exact X1].
  - rewrite (run_bind_ok (ret tt) _ h1 tt h1 eq_refl). unfold bind.
    assert (Hs1 : cont_at h1 s cs) by (exists is; apply X1; auto).
    pose proof (h_fold_refines _ _ (ps_arr sp) (sim_src q) (i0 :: t) h1 s cs (wells pl) Harr Hs1) as HF.
    destruct (fold_wells (fun src w => transfer cf src w q) (i0 :: t) cs (wells pl)) as [[c' ws']|e].
    + destruct HF as (acc' & h2 & E2 & X2 & Ca & Aw). rewrite (run_bind_ok _ _ _ _ _ E2). cbn [fst snd].
      exists acc', (ps_plate sp), h2. split; [reflexivity|]. split; [eapply ext_fresh; eassumption|]. split; [exact Ca|]. split; [|exact Lp].
      exists (ps_arr sp). split; [|exact Aw]. cbn [with_wells pname nrows ncols]. apply X2; [intros [E|[]]; congruence | exact Epl].
    + destruct HF as (h2 & E2 & X2). rewrite (run_bind_err _ _ _ _ _ E2). exists h2. split; [reflexivity | eapply ext_fresh; eassumption].
Qed.

(* the wells a slice addresses -> container (Container._transfer_slice) *)
Theorem h_transfer_sc_refines h src d q cd p rg pl :
  nth_error h src = Some (CSlice p rg) -> plate_at h p pl -> cont_at h d cd ->
  match p_to_c cf pl rg cd q with
  | Ok (pl', c') => exists a b h', h_transfer_sc cf src d q h = (Ok (a, b), h') /\ ext_ex [] h h' /\ plate_at h' a pl' /\ cont_at h' b c' /\
                                   (length h <= a)%nat
  | Err e => exists h', h_transfer_sc cf src d q h = (Err e, h') /\ ext_ex [] h h'
  end.
Proof.
  intros Es Hp Hd. unfold h_transfer_sc.
  rewrite (run_bind_ok _ _ _ _ _ (run_as_slice_slice h src p rg Es)).
  destruct Hd as [id Ed]. rewrite (run_bind_ok _ _ _ _ _ (run_copy_cont h d cd id Ed)).
  set (h0 := h ++ [CCont cd id]).
  assert (X0 : ext_ex [] h h0) by apply ext_ex_app.
  assert (Es0 : nth_error h0 src = Some (CSlice p rg)) by (apply X0; auto).
  assert (Hp0 : plate_at h0 p pl).
  { destruct Hp as (arr & Ep & addrs & Earr & Hall). exists arr. split; [apply X0; auto|]. exists addrs. split; [apply X0; auto|].
    eapply Forall2_impl_in; [|exact Hall]. intros; apply cont_at_app; assumption. }
  destruct (private_slice_refines h0 src p rg pl Es0 Hp0) as (sp & h1 & E1 & X1 & Erg & Enc & Epl & Harr & Lp & La & Hne).
  rewrite (run_bind_ok _ _ _ _ _ E1). rewrite Erg, Enc. unfold p_to_c.
  assert (L0 : length h0 = S (length h)) by (unfold h0; rewrite app_length; simpl; lia).
  destruct (region_idx (ncols pl) rg) as [|i0 t] eqn:Eidx; cbn [nonempty nonempty_or_err].
  - exists h1. split; [reflexivity | eapply ext_ex_trans; eassumption].
  - rewrite (run_bind_ok (ret tt) _ h1 tt h1 eq_refl).
    assert (Hd1 : cont_at h1 (length h) cd).
    { exists id. apply X1; auto. unfold h0. rewrite nth_error_app2 by lia. rewrite Nat.sub_diag. reflexivity. }
    pose proof (h_fold_refines _ _ (ps_arr sp) (sim_dst q) (i0 :: t) h1 (length h) cd (wells pl) Harr Hd1) as HF.
    destruct (fold_wells (fun dst w => do sd <- transfer cf w dst q; Ok (snd sd, fst sd)) (i0 :: t) cd (wells pl)) as [[c' ws']|e]; cbn [bind fst snd].
    + destruct HF as (acc' & h2 & E2 & X2 & Ca & Aw). rewrite (run_bind_ok _ _ _ _ _ E2). cbn [fst snd].
      exists (ps_plate sp), acc', h2. split; [reflexivity|].
      split; [eapply ext_fresh; [eapply ext_ex_trans; eassumption | exact X2 | lia]|]. split; [|split; [exact Ca | lia]].
      exists (ps_arr sp). split; [|exact Aw]. cbn [with_wells pname nrows ncols]. apply X2; [intros [E|[]]; congruence | exact Epl].
    + destruct HF as (h2 & E2 & X2). rewrite (run_bind_err _ _ _ _ _ E2). exists h2. split; [reflexivity|].
      eapply ext_fresh; [eapply ext_ex_trans; eassumption | exact X2 | lia].
Qed.

(* ---------- operations on one container: remove, fill_to, dilute ---------- *)
Definition sim1 (f : addr -> M addr) (g : container -> result container) : Prop :=
  forall h w wv, cont_at h w wv ->
    match g wv with
    | Ok w' => exists wa h', f w h = (Ok wa, h') /\ ext_ex [] h h' /\ cont_at h' wa w' /\ (length h <= wa)%nat
    | Err e => exists h', f w h = (Err e, h') /\ ext_ex [] h h'
    end.
Lemma copy_then_store h a c i c' i' :
  nth_error h a = Some (CCont c i) ->
  (mdo a' <- copy_cont a; mdo _ <- store a' (CCont c' i'); ret a') h = (Ok (length h), h ++ [CCont c' i']).
Proof.
  intros E. rewrite (run_bind_ok _ _ _ _ _ (run_copy_cont h a c i E)). rewrite run_store. unfold ret. f_equal.
  clear. induction h as [|x h IH]; simpl; [reflexivity | f_equal; exact IH].
Qed.
Lemma sim_remove w : sim1 (fun a => h_remove_c cf a w) (fun c => Ok (remove cf c w)).
Proof.
  intros h a c [i E]. unfold h_remove_c. rewrite (run_bind_ok _ _ _ _ _ (run_load_cont h a c i E)). cbn [fst snd].
  rewrite (copy_then_store h a c i _ _ E). exists (length h), (h ++ [CCont (remove cf c w) (S i)]).
  split; [reflexivity|]. split; [apply ext_ex_app|]. split; [|lia].
  exists (S i). rewrite nth_error_app2 by lia. rewrite Nat.sub_diag. reflexivity.
Qed.
Lemma sim_fill s q : sim1 (fun a => h_fill_c cf a s q) (fun c => fill_to cf c s q).
Proof.
  intros h a c [i E]. unfold h_fill_c. rewrite (run_bind_ok _ _ _ _ _ (run_load_cont h a c i E)). cbn [fst snd]. rewrite run_lift.
  destruct (fill_to cf c s q) as [c'|e]; [|exists h; split; [reflexivity | apply ext_ex_refl]].
  rewrite (copy_then_store h a c i _ _ E). exists (length h), (h ++ [CCont c' (S i)]).
  split; [reflexivity|]. split; [apply ext_ex_app|]. split; [|lia].
  exists (S i). rewrite nth_error_app2 by lia. rewrite Nat.sub_diag. reflexivity.
Qed.
Lemma sim_dilute solute t solvent : sim1 (fun a => h_dilute cf a solute t solvent) (fun c => dilute cf c solute t solvent).
Proof.
  intros h a c [i E]. unfold h_dilute. rewrite (run_bind_ok _ _ _ _ _ (run_load_cont h a c i E)). cbn [fst snd]. rewrite run_lift.
  destruct (dilute cf c solute t solvent) as [c'|e]; [|exists h; split; [reflexivity | apply ext_ex_refl]].
  rewrite (copy_then_store h a c i _ _ E). exists (length h), (h ++ [CCont c' (S i)]).
  split; [reflexivity|]. split; [apply ext_ex_app|]. split; [|lia].
  exists (S i). rewrite nth_error_app2 by lia. rewrite Nat.sub_diag. reflexivity.
Qed.

(* ---------- remove / fill_to on the wells a slice addresses ---------- *)
Lemma h_apply_fold_refines f g arr : sim1 f g -> forall idxs h ws a0,
  arr_at h arr ws ->
  match fold_wells (fun (_ : unit) w => do w' <- g w; Ok (tt, w')) idxs tt ws with
  | Ok (_, ws') => exists h', h_fold (fun acc w => mdo w' <- f w; ret (acc, w')) arr idxs a0 h = (Ok a0, h') /\ ext_ex [arr] h h' /\ arr_at h' arr ws'
  | Err e => exists h', h_fold (fun acc w => mdo w' <- f w; ret (acc, w')) arr idxs a0 h = (Err e, h') /\ ext_ex [arr] h h'
  end.
Proof.
  intros Hsim. induction idxs as [|i t IH]; intros h ws a0 Harr.
  - simpl. exists h. split; [reflexivity|]. split; [apply ext_ex_refl | exact Harr].
  - rewrite fold_wells_cons. cbn [h_fold]. destruct Harr as (addrs & Earr & Hall).
    rewrite (run_bind_ok _ _ _ _ _ (run_load_arr h arr addrs Earr)).
    pose proof (F2_nth_error _ _ _ i Hall) as Hi.
    destruct (nth_error addrs i) as [w|] eqn:Ew; destruct (nth_error ws i) as [wv|] eqn:Ewv; try contradiction;
      [|exists h; split; [reflexivity | apply ext_ex_refl]].
    pose proof (Hsim h w wv Hi) as Hs. unfold bind at 1. unfold bind at 1.
    destruct (g wv) as [w1|e].
    + destruct Hs as (wa & h1 & E1 & X1 & Cw & _).
      rewrite (run_bind_ok _ _ h (a0, wa) h1) by (rewrite (run_bind_ok _ _ _ _ _ E1); reflexivity).
      cbn [fst snd]. rewrite run_store.
      set (h2 := set_nth arr (CArr (set_nth i wa addrs)) h1).
      assert (Earr1 : nth_error h1 arr = Some (CArr addrs)) by (apply X1; auto).
      assert (Larr : (arr < length h1)%nat) by (apply nth_error_Some; congruence).
      assert (X12 : ext_ex [arr] h1 h2) by (apply ext_ex_store; left; reflexivity).
      assert (Harr2 : arr_at h2 arr (set_nth i w1 ws)).
      { exists (set_nth i wa addrs). split; [apply nth_error_set_nth_eq; exact Larr|].
        apply F2_set_nth.
        - eapply Forall2_impl_in; [|exact Hall]. intros a c Hac.
          apply (cont_at_store h1 arr addrs _ a c Earr1). eapply cont_at_ext; [exact X1 | auto | exact Hac].
        - apply (cont_at_store h1 arr addrs _ wa w1 Earr1 Cw). }
      specialize (IH h2 (set_nth i w1 ws) a0 Harr2). cbn [fst snd].
      assert (X02 : ext_ex [arr] h h2) by (eapply ext_ex_trans; [eapply ext_ex_weaken; [|exact X1]; intros ? [] | exact X12]).
      destruct (fold_wells _ t tt (set_nth i w1 ws)) as [[u ws']|e].
      * destruct IH as (h' & E & X & A). exists h'. split; [exact E|]. split; [eapply ext_ex_trans; eassumption | exact A].
      * destruct IH as (h' & E & X). exists h'. split; [exact E | eapply ext_ex_trans; eassumption].
    + destruct Hs as (h1 & E1 & X1).
      rewrite (run_bind_err _ _ h e h1) by (rewrite (run_bind_err _ _ _ _ _ E1); reflexivity).
      exists h1. split; [reflexivity|]. eapply ext_ex_weaken; [|exact X1]. intros ? [].
Qed.

Lemma slice_apply_refines f g h t p rg pl : sim1 f g ->
  nth_error h t = Some (CSlice p rg) -> plate_at h p pl ->
  match nonempty_or_err (region_idx (ncols pl) rg) (do ws <- apply_wells g (region_idx (ncols pl) rg) (wells pl); Ok (with_wells pl ws)) with
  | Ok pl' => exists a h', (mdo s0 <- as_slice t; mdo sp <- private_slice s0;
                            mdo _ <- nonempty (region_idx (ps_nc sp) (ps_rg sp));
                            mdo _ <- h_apply f (ps_arr sp) (region_idx (ps_nc sp) (ps_rg sp)); ret (ps_plate sp)) h = (Ok a, h') /\
                           ext_ex [] h h' /\ plate_at h' a pl' /\ (length h <= a)%nat
  | Err e => exists h', (mdo s0 <- as_slice t; mdo sp <- private_slice s0;
                         mdo _ <- nonempty (region_idx (ps_nc sp) (ps_rg sp));
                         mdo _ <- h_apply f (ps_arr sp) (region_idx (ps_nc sp) (ps_rg sp)); ret (ps_plate sp)) h = (Err e, h') /\ ext_ex [] h h'
  end.
Proof.
  intros Hsim Et Hp.
  rewrite (run_bind_ok _ _ _ _ _ (run_as_slice_slice h t p rg Et)).
  destruct (private_slice_refines h t p rg pl Et Hp) as (sp & h1 & E1 & X1 & Erg & Enc & Epl & Harr & Lp & La & Hne).
  rewrite (run_bind_ok _ _ _ _ _ E1). rewrite Erg, Enc.
  destruct (region_idx (ncols pl) rg) as [|i0 t0] eqn:Eidx; cbn [nonempty nonempty_or_err].
  - exists h1. split; [reflexivity | exact X1].
  - rewrite (run_bind_ok (ret tt) _ h1 tt h1 eq_refl). unfold h_apply, apply_wells.
    pose proof (h_apply_fold_refines f g (ps_arr sp) Hsim (i0 :: t0) h1 (wells pl) 0%nat Harr) as HF.
    destruct (fold_wells _ (i0 :: t0) tt (wells pl)) as [[u ws']|e]; cbn [bind fst snd].
    + destruct HF as (h2 & E2 & X2 & Aw).
      rewrite (run_bind_ok _ _ h1 tt h2) by (rewrite (run_bind_ok _ _ _ _ _ E2); reflexivity).
      exists (ps_plate sp), h2. split; [reflexivity|]. split; [eapply ext_fresh; eassumption|]. split; [|exact Lp].
      exists (ps_arr sp). split; [|exact Aw]. cbn [with_wells pname nrows ncols]. apply X2; [intros [E|[]]; congruence | exact Epl].
    + destruct HF as (h2 & E2 & X2).
      rewrite (run_bind_err _ _ h1 e h2) by (rewrite (run_bind_err _ _ _ _ _ E2); reflexivity).
      exists h2. split; [reflexivity | eapply ext_fresh; eassumption].
Qed.

Theorem h_remove_s_refines h t w p rg pl : nth_error h t = Some (CSlice p rg) -> plate_at h p pl ->
  match premove cf pl rg w with
  | Ok pl' => exists a h', h_remove_s cf t w h = (Ok a, h') /\ ext_ex [] h h' /\ plate_at h' a pl' /\ (length h <= a)%nat
  | Err e => exists h', h_remove_s cf t w h = (Err e, h') /\ ext_ex [] h h'
  end.
Proof. intros Et Hp. exact (slice_apply_refines _ _ h t p rg pl (sim_remove w) Et Hp). Qed.
Theorem h_fill_s_refines h t s q p rg pl : nth_error h t = Some (CSlice p rg) -> plate_at h p pl ->
  match pfill_to cf pl rg s q with
  | Ok pl' => exists a h', h_fill_s cf t s q h = (Ok a, h') /\ ext_ex [] h h' /\ plate_at h' a pl' /\ (length h <= a)%nat
  | Err e => exists h', h_fill_s cf t s q h = (Err e, h') /\ ext_ex [] h h'
  end.
Proof. intros Et Hp. exact (slice_apply_refines _ _ h t p rg pl (sim_fill s q) Et Hp). Qed.

(* ---------- plate -> plate, two different plate objects ---------- *)
Lemma arr_at_ext ex h h' arr ws : ext_ex ex h h' -> ~ In arr ex -> (forall x, In x ex -> forall c i, nth_error h x <> Some (CCont c i)) ->
  arr_at h arr ws -> arr_at h' arr ws.
Proof.
  intros X Ha Hty (addrs & E & F). exists addrs. split; [apply X; auto|].
  eapply Forall2_impl_in; [|exact F]. intros a c [i Hc]. exists i. apply X; [|exact Hc]. intros Hin. exact (Hty a Hin c i Hc).
Qed.
Lemma arr_at_set_other h x c0 c1 arr ws : nth_error h x = Some c0 -> (forall c i, c0 <> CCont c i) -> x <> arr ->
  arr_at h arr ws -> arr_at (set_nth x c1 h) arr ws.
Proof.
  intros Ex Hty Hne. apply (arr_at_ext [x]); [apply ext_ex_store; left; reflexivity | intros [E|[]]; congruence|].
  intros y [<-|[]] c i Hc. rewrite Ex in Hc. inversion Hc. eapply Hty; eassumption.
Qed.
Lemma arr_at_store h arr old addrs ws : nth_error h arr = Some (CArr old) -> Forall2 (cont_at h) addrs ws ->
  arr_at (set_nth arr (CArr addrs) h) arr ws.
Proof.
  intros E F. exists addrs. split; [apply nth_error_set_nth_eq; apply nth_error_Some; congruence|].
  eapply Forall2_impl_in; [|exact F]. intros a c Hc. eapply cont_at_store; eassumption.
Qed.
Lemma run_bump h b c i : nth_error h b = Some (CCont c i) -> bump b h = (Ok tt, set_nth b (CCont c (S i)) h).
Proof. intros E. unfold bump. rewrite (run_bind_ok _ _ _ _ _ (run_load_cont h b c i E)). reflexivity. Qed.
Lemma bump_keeps h b c i : nth_error h b = Some (CCont c i) ->
  (forall a x, cont_at h a x -> cont_at (set_nth b (CCont c (S i)) h) a x).
Proof.
  intros E a x [j H]. destruct (Nat.eq_dec a b) as [->|Hne].
  - rewrite E in H. inversion H; subst. exists (S j). apply nth_error_set_nth_eq. apply nth_error_Some. congruence.
  - exists j. rewrite HeapThm.set_nth_other by auto. exact H.
Qed.

Lemma sim_src_bump q (edit : bool) :
  sim_step (fun acc w => mdo r <- h_transfer_cc cf acc w q; mdo _ <- (if edit then bump (snd r) else ret tt); ret r)
           (fun a w => transfer cf a w q).
Proof.
  intros h acc w accv wv Ha Hw. pose proof (h_transfer_cc_refines h acc w q accv wv Ha Hw) as H.
  destruct (transfer cf accv wv q) as [[x y]|e].
  - destruct H as (a & b & h' & E & X & Ca & Cb & La & Lb & Hab). rewrite (run_bind_ok _ _ _ _ _ E). cbn [fst snd].
    destruct edit.
    + destruct Cb as [ib Eb]. rewrite (run_bind_ok _ _ _ _ _ (run_bump h' b y ib Eb)). cbn [ret].
      exists a, b, (set_nth b (CCont y (S ib)) h'). split; [reflexivity|]. split.
      * intros z c _ Hz. assert (z < length h)%nat by (apply nth_error_Some; congruence).
        rewrite HeapThm.set_nth_other by lia. apply X; auto.
      * split; apply (bump_keeps h' b y ib Eb); [exact Ca | exists ib; exact Eb].
    + rewrite (run_bind_ok (ret tt) _ h' tt h' eq_refl). exists a, b, h'. auto.
  - destruct H as (h' & E & X). rewrite (run_bind_err _ _ _ _ _ E). exists h'. auto.
Qed.
Lemma sim_dst_bump q :
  sim_step (fun acc w => mdo r <- h_transfer_cc cf w acc q; mdo _ <- bump (fst r); ret (snd r, fst r))
           (fun d w => do sd <- transfer cf w d q; Ok (snd sd, fst sd)).
Proof.
  intros h acc w accv wv Ha Hw. pose proof (h_transfer_cc_refines h w acc q wv accv Hw Ha) as H. unfold bind.
  destruct (transfer cf wv accv q) as [[x y]|e].
  - destruct H as (a & b & h' & E & X & Ca & Cb & La & Lb & Hab). rewrite (run_bind_ok _ _ _ _ _ E). cbn [fst snd].
    destruct Ca as [ia Ea]. rewrite (run_bind_ok _ _ _ _ _ (run_bump h' a x ia Ea)). cbn [ret].
    exists b, a, (set_nth a (CCont x (S ia)) h'). split; [reflexivity|]. split.
    + intros z c _ Hz. assert (z < length h)%nat by (apply nth_error_Some; congruence).
      rewrite HeapThm.set_nth_other by lia. apply X; auto.
    + split; apply (bump_keeps h' a x ia Ea); [exact Cb | exists ia; exact Ea].
  - destruct H as (h' & E & X). rewrite (run_bind_err _ _ _ _ _ E). exists h'. auto.
Qed.

Lemma mbind_assoc {A B C} (m : M A) (k1 : A -> M B) (k2 : B -> M C) h :
  mbind (mbind m k1) k2 h = mbind m (fun x => mbind (k1 x) k2) h.
Proof. unfold mbind. destruct (m h) as [[a|e] h1]; reflexivity. Qed.
Lemma run_maybe_bump {B} (edit : bool) h b c i (k : unit -> M B) : nth_error h b = Some (CCont c i) ->
  exists hb, mbind (if edit then bump b else ret tt) k h = k tt hb /\ (forall a x, cont_at h a x -> cont_at hb a x) /\
             (forall z cz, z <> b -> nth_error h z = Some cz -> nth_error hb z = Some cz).
Proof.
  intros E. destruct edit.
  - exists (set_nth b (CCont c (S i)) h). rewrite (run_bind_ok _ _ _ _ _ (run_bump h b c i E)). split; [reflexivity|].
    split; [apply (bump_keeps h b c i E)|]. intros z cz Hz H. rewrite HeapThm.set_nth_other by auto. exact H.
  - exists h. split; [reflexivity|]. auto.
Qed.

(* element-wise pairs over two different arrays *)
Lemma h_pairs_refines q edit fa ta : fa <> ta -> forall pairs h ss ds,
  arr_at h fa ss -> arr_at h ta ds ->
  match pair_wells cf q pairs ss ds with
  | Ok (ss', ds') => exists h', h_pairs cf fa ta pairs q edit h = (Ok tt, h') /\ ext_ex [fa; ta] h h' /\ arr_at h' fa ss' /\ arr_at h' ta ds'
  | Err e => exists h', h_pairs cf fa ta pairs q edit h = (Err e, h') /\ ext_ex [fa; ta] h h'
  end.
Proof.
  intros Hne. induction pairs as [|[i j] t IH]; intros h ss ds Hf Ht.
  - simpl. exists h. split; [reflexivity|]. split; [apply ext_ex_refl | auto].
  - cbn [h_pairs pair_wells]. destruct Hf as (fs & Efa & Ff). destruct Ht as (ts & Eta & Ft).
    rewrite (run_bind_ok _ _ _ _ _ (run_load_arr h fa fs Efa)). rewrite (run_bind_ok _ _ _ _ _ (run_load_arr h ta ts Eta)).
    pose proof (F2_nth_error _ _ _ i Ff) as Hi. pose proof (F2_nth_error _ _ _ j Ft) as Hj.
    destruct (nth_error fs i) as [a|]; destruct (nth_error ss i) as [sv|]; try contradiction;
      [|exists h; split; [reflexivity | apply ext_ex_refl]].
    destruct (nth_error ts j) as [b|]; destruct (nth_error ds j) as [dv|]; try contradiction;
      [|exists h; split; [reflexivity | apply ext_ex_refl]].
    unfold bind. pose proof (h_transfer_cc_refines h a b q sv dv Hi Hj) as Hs.
    destruct (transfer cf sv dv q) as [[s1 d1]|e].
    + destruct Hs as (aa & ba & h1 & E1 & X1 & Ca & Cb & La & Lb & Hab). rewrite (run_bind_ok _ _ _ _ _ E1). cbn [fst snd].
      destruct Cb as [ib Eb].
      destruct (run_maybe_bump edit h1 ba d1 ib
                  (fun _ => mdo _ <- store fa (CArr (set_nth i aa fs)); mdo ts' <- load_arr ta; mdo _ <- store ta (CArr (set_nth j ba ts')); h_pairs cf fa ta t q edit) Eb)
        as (hb & Eq & Kc & Ko).
      rewrite Eq. clear Eq. rewrite run_store.
      assert (Lfa : (fa < length h)%nat) by (apply nth_error_Some; congruence).
      assert (Lta : (ta < length h)%nat) by (apply nth_error_Some; congruence).
      assert (Efab : nth_error hb fa = Some (CArr fs)) by (apply Ko; [lia | apply X1; auto]).
      assert (Etab : nth_error hb ta = Some (CArr ts)) by (apply Ko; [lia | apply X1; auto]).
      assert (Fbf : Forall2 (cont_at hb) fs ss) by (eapply Forall2_impl_in; [|exact Ff]; intros; apply Kc; eapply cont_at_ext; [exact X1 | auto | assumption]).
      assert (Fbt : Forall2 (cont_at hb) ts ds) by (eapply Forall2_impl_in; [|exact Ft]; intros; apply Kc; eapply cont_at_ext; [exact X1 | auto | assumption]).
      assert (Cab : cont_at hb aa s1) by (apply Kc; exact Ca).
      assert (Cbb : cont_at hb ba d1) by (apply Kc; exists ib; exact Eb).
      set (h2 := set_nth fa (CArr (set_nth i aa fs)) hb).
      assert (Eta2 : nth_error h2 ta = Some (CArr ts)) by (unfold h2; rewrite HeapThm.set_nth_other by auto; exact Etab).
      rewrite (run_bind_ok _ _ _ _ _ (run_load_arr h2 ta ts Eta2)). rewrite run_store.
      set (h3 := set_nth ta (CArr (set_nth j ba ts)) h2).
      assert (A2f : arr_at h2 fa (set_nth i s1 ss)) by (apply (arr_at_store hb fa fs); [exact Efab | apply F2_set_nth; assumption]).
      assert (A3f : arr_at h3 fa (set_nth i s1 ss)).
      { apply (arr_at_set_other h2 ta (CArr ts)); [exact Eta2 | discriminate | auto | exact A2f]. }
      assert (F2t : Forall2 (cont_at h2) (set_nth j ba ts) (set_nth j d1 ds)).
      { apply F2_set_nth; [|eapply cont_at_store; eassumption]. eapply Forall2_impl_in; [|exact Fbt]. intros; eapply cont_at_store; eassumption. }
      assert (A3t : arr_at h3 ta (set_nth j d1 ds)) by (apply (arr_at_store h2 ta ts); assumption).
      specialize (IH h3 (set_nth i s1 ss) (set_nth j d1 ds) A3f A3t).
      assert (X03 : ext_ex [fa; ta] h h3).
      { intros z cz Hz Hc. assert (z < length h)%nat by (apply nth_error_Some; congruence).
        unfold h3, h2. rewrite !HeapThm.set_nth_other by (intro; subst; apply Hz; simpl; auto).
        apply Ko; [lia | apply X1; auto]. }
      destruct (pair_wells cf q t (set_nth i s1 ss) (set_nth j d1 ds)) as [[ss' ds']|e].
      * destruct IH as (h' & E & X & Af & At). exists h'. split; [exact E|]. split; [eapply ext_ex_trans; eassumption | auto].
      * destruct IH as (h' & E & X). exists h'. split; [exact E | eapply ext_ex_trans; eassumption].
    + destruct Hs as (h1 & E1 & X1). rewrite (run_bind_err _ _ _ _ _ E1). exists h1. split; [reflexivity|].
      eapply ext_ex_weaken; [|exact X1]. intros ? [].
Qed.

(* cells below n are kept *)
Definition keeps (n : nat) (h h' : heap) : Prop := forall z c, (z < n)%nat -> nth_error h z = Some c -> nth_error h' z = Some c.
Lemma keeps_refl n h : keeps n h h. Proof. intros z c _ H; exact H. Qed.
Lemma keeps_trans n h1 h2 h3 : keeps n h1 h2 -> keeps n h2 h3 -> keeps n h1 h3.
Proof. intros A B z c Hz H. apply B; auto. Qed.
Lemma keeps_ext n ex h h' : ext_ex ex h h' -> (forall x, In x ex -> (n <= x)%nat) -> keeps n h h'.
Proof. intros X Hx z c Hz H. apply X; [intro Hin; specialize (Hx z Hin); lia | exact H]. Qed.
Lemma keeps_store n a c h : (n <= a)%nat -> keeps n h (set_nth a c h).
Proof. intros Ha z x Hz H. rewrite HeapThm.set_nth_other by lia. exact H. Qed.
Lemma keeps_all h h' : keeps (length h) h h' -> ext_ex [] h h'.
Proof. intros K z c _ H. apply K; [apply nth_error_Some; congruence | exact H]. Qed.

Lemma plate_at_ext0 h h' p pl : ext_ex [] h h' -> plate_at h p pl -> plate_at h' p pl.
Proof.
  intros X (arr & Ep & A). exists arr. split; [apply X; auto|]. apply (arr_at_ext [] h h'); auto.
Qed.

Theorem h_transfer_ss_refines_two_plates h src dst q pf rs plf pt rd plt :
  nth_error h src = Some (CSlice pf rs) -> plate_at h pf plf ->
  nth_error h dst = Some (CSlice pt rd) -> plate_at h pt plt -> pf <> pt ->
  match p_to_p cf plf rs plt rd q with
  | Ok (plf', plt') => exists a b h', h_transfer_ss cf src dst q h = (Ok (a, b), h') /\ ext_ex [] h h' /\ plate_at h' a plf' /\ plate_at h' b plt' /\
                                      (length h <= a)%nat /\ (length h <= b)%nat
  | Err e => exists h', h_transfer_ss cf src dst q h = (Err e, h') /\ ext_ex [] h h'
  end.
Proof.
  intros Esrc Hpf Edst Hpt Hne. unfold h_transfer_ss.
  rewrite (run_bind_ok _ _ _ _ _ (run_as_slice_slice h dst pt rd Edst)). rewrite (run_bind_ok _ _ _ _ _ (run_as_slice_slice h src pf rs Esrc)).
  rewrite (run_bind_ok _ _ _ _ _ (run_copy_slice h dst pt rd Edst)). set (h1 := h ++ [CSlice pt rd]).
  assert (X01 : ext_ex [] h h1) by apply ext_ex_app.
  rewrite (run_bind_ok _ _ _ _ _ (run_copy_slice h1 src pf rs (X01 _ _ (fun x => x) Esrc))). set (h2 := h1 ++ [CSlice pf rs]).
  assert (L1 : length h1 = S (length h)) by (unfold h1; rewrite app_length; simpl; lia).
  assert (L2 : length h2 = S (S (length h))) by (unfold h2; rewrite app_length, L1; simpl; lia).
  assert (X02 : ext_ex [] h h2) by (eapply ext_ex_trans; [exact X01 | apply ext_ex_app]).
  assert (Et' : nth_error h2 (length h) = Some (CSlice pt rd)).
  { unfold h2. rewrite nth_error_app1 by lia. unfold h1. rewrite nth_error_app2 by lia. rewrite Nat.sub_diag. reflexivity. }
  assert (Ef' : nth_error h2 (length h1) = Some (CSlice pf rs)) by (unfold h2; rewrite nth_error_app2 by lia; rewrite Nat.sub_diag; reflexivity).
  rewrite (run_bind_ok _ _ _ _ _ (run_load_slice h2 _ pt rd Et')). rewrite (run_bind_ok _ _ _ _ _ (run_load_slice h2 _ pf rs Ef')). cbn [fst snd].
  assert (Ediff : Nat.eqb pt pf = false) by (apply Nat.eqb_neq; auto). rewrite Ediff. cbn [negb andb].
  destruct (deepcopy_plate_refines h2 pt plt (plate_at_ext0 _ _ _ _ X02 Hpt)) as (tp & ta & h3 & E3 & X23 & Etp & Ata & Ltp & Lta & Ntp).
  rewrite mbind_assoc. rewrite (run_bind_ok _ _ _ _ _ E3).
  assert (X03 : ext_ex [] h h3) by (eapply ext_ex_trans; eassumption).
  destruct (deepcopy_plate_refines h3 pf plf (plate_at_ext0 _ _ _ _ X03 Hpf)) as (fp & fa & h4 & E4 & X34 & Efp & Afa & Lfp & Lfa & Nfp).
  rewrite mbind_assoc. rewrite (run_bind_ok _ _ _ _ _ E4). rewrite (run_bind_ok (ret _) _ h4 _ h4 eq_refl). cbn [fst snd].
  rewrite !run_store.
  assert (L3 : (length h2 <= length h3)%nat).
  { assert (Hx : nth_error h3 (length h1) = Some (CSlice pf rs)) by (apply X23; auto).
    assert (length h1 < length h3)%nat by (apply nth_error_Some; congruence). lia. }
  set (h5 := set_nth (length h) (CSlice tp rd) h4). set (h6 := set_nth (length h1) (CSlice fp rs) h5).
  (* what the two private plates look like in h6 *)
  assert (Ata4 : arr_at h4 ta (wells plt)) by (apply (arr_at_ext [] h3 h4); auto).
  assert (Etp4 : nth_error h4 tp = Some (CPlate (pname plt) (nrows plt) (ncols plt) ta)) by (apply X34; auto).
  assert (Et4 : nth_error h4 (length h) = Some (CSlice pt rd)) by (apply X34; auto; apply X23; auto).
  assert (Ef4 : nth_error h4 (length h1) = Some (CSlice pf rs)) by (apply X34; auto; apply X23; auto).
  assert (Ef5 : nth_error h5 (length h1) = Some (CSlice pf rs)) by (unfold h5; rewrite HeapThm.set_nth_other by lia; exact Ef4).
  assert (K6 : forall z c, z <> length h -> z <> length h1 -> nth_error h4 z = Some c -> nth_error h6 z = Some c).
  { intros z c Hz1 Hz2 H. unfold h6, h5. rewrite !HeapThm.set_nth_other by auto. exact H. }
  assert (Ata6 : arr_at h6 ta (wells plt)).
  { apply (arr_at_set_other h5 _ (CSlice pf rs)); [exact Ef5 | discriminate | lia|].
    apply (arr_at_set_other h4 _ (CSlice pt rd)); [exact Et4 | discriminate | lia | exact Ata4]. }
  assert (Afa6 : arr_at h6 fa (wells plf)).
  { apply (arr_at_set_other h5 _ (CSlice pf rs)); [exact Ef5 | discriminate | lia|].
    apply (arr_at_set_other h4 _ (CSlice pt rd)); [exact Et4 | discriminate | lia | exact Afa]. }
  assert (Etp6 : nth_error h6 tp = Some (CPlate (pname plt) (nrows plt) (ncols plt) ta)) by (apply K6; [lia | lia | exact Etp4]).
  assert (Efp6 : nth_error h6 fp = Some (CPlate (pname plf) (nrows plf) (ncols plf) fa)) by (apply K6; [lia | lia | exact Efp]).
  assert (Kp6 : keeps (length h) h h6).
  { intros z c Hz H. apply K6; [lia | lia|]. apply X34; auto. }
  assert (Lta3 : (ta < length h3)%nat) by (destruct Ata as (y & Ey & _); apply nth_error_Some; congruence).
  assert (Ltp3 : (tp < length h3)%nat) by (apply nth_error_Some; congruence).
  assert (Nfa_ta : fa <> ta) by lia.
  unfold p_to_p.
  destruct (region_idx (ncols plf) rs) as [|s0 st] eqn:Esi; [exists h6; split; [reflexivity | apply keeps_all; exact Kp6]|].
  destruct (region_idx (ncols plt) rd) as [|d0 dt] eqn:Edi; [exists h6; split; [reflexivity | apply keeps_all; exact Kp6]|].
  rewrite run_lift. unfold bind.
  destruct (dispatch rs rd (length (s0 :: st)) (length (d0 :: dt))) as [pg|e]; [|exists h6; split; [reflexivity | apply keeps_all; exact Kp6]].
  destruct pg.
  - (* one well -> many *)
    destruct Afa6 as (fs & Efa6 & Ffs). rewrite (run_bind_ok _ _ _ _ _ (run_load_arr h6 fa fs Efa6)).
    pose proof (F2_nth_error _ _ _ s0 Ffs) as Hs0.
    destruct (nth_error fs s0) as [a|]; destruct (nth_error (wells plf) s0) as [srcv|]; try contradiction;
      [|exists h6; split; [reflexivity | apply keeps_all; exact Kp6]].
    pose proof (h_fold_refines _ _ ta (sim_src_bump q true) (d0 :: dt) h6 a srcv (wells plt) Ata6 Hs0) as HF.
    destruct (fold_wells (fun s w => transfer cf s w q) (d0 :: dt) srcv (wells plt)) as [[src' ws']|e].
    + destruct HF as (acc' & h7 & E7 & X67 & Ca & Aw). rewrite (run_bind_ok _ _ _ _ _ E7).
      assert (Efa7 : nth_error h7 fa = Some (CArr fs)) by (apply X67; [intros [E|[]]; congruence | exact Efa6]).
      rewrite (run_bind_ok _ _ _ _ _ (run_load_arr h7 fa fs Efa7)). rewrite run_store. cbn [ret].
      set (h8 := set_nth fa (CArr (set_nth s0 acc' fs)) h7).
      assert (Eta7 : exists tsx, nth_error h7 ta = Some (CArr tsx)) by (destruct Aw as (y & Ey & _); eauto). destruct Eta7 as (tsx & Eta7).
      assert (Ffs7 : Forall2 (cont_at h7) fs (wells plf)).
      { eapply Forall2_impl_in; [|exact Ffs]. intros x c Hc. eapply cont_at_ext; [exact X67 | | exact Hc].
        intros [E|[]]. subst x. destruct Ata6 as (y & Ey & _). destruct Hc as [i Hc]. congruence. }
      exists fp, tp, h8. split; [reflexivity|]. split; [|split; [|split; [|split; lia]]].
      * apply keeps_all. eapply keeps_trans; [exact Kp6|]. eapply keeps_trans; [eapply keeps_ext; [exact X67|]; intros x [<-|[]]; lia | apply keeps_store; lia].
      * exists fa. cbn [with_wells pname nrows ncols wells]. split.
        -- unfold h8. rewrite HeapThm.set_nth_other by lia. apply X67; [intros [E|[]]; lia | exact Efp6].
        -- apply (arr_at_store h7 fa fs); [exact Efa7 | apply F2_set_nth; assumption].
      * exists ta. cbn [with_wells pname nrows ncols wells]. split.
        -- unfold h8. rewrite HeapThm.set_nth_other by lia. apply X67; [intros [E|[]]; lia | exact Etp6].
        -- apply (arr_at_set_other h7 fa (CArr fs)); [exact Efa7 | discriminate | exact Nfa_ta | exact Aw].
    + destruct HF as (h7 & E7 & X67). rewrite (run_bind_err _ _ _ _ _ E7). exists h7. split; [reflexivity|].
      apply keeps_all. eapply keeps_trans; [exact Kp6 | eapply keeps_ext; [exact X67|]; intros x [<-|[]]; lia].
  - (* many wells -> one *)
    destruct Ata6 as (ts & Eta6 & Fts). rewrite (run_bind_ok _ _ _ _ _ (run_load_arr h6 ta ts Eta6)).
    pose proof (F2_nth_error _ _ _ d0 Fts) as Hd0.
    destruct (nth_error ts d0) as [b|]; destruct (nth_error (wells plt) d0) as [dstv|]; try contradiction;
      [|exists h6; split; [reflexivity | apply keeps_all; exact Kp6]].
    pose proof (h_fold_refines _ _ fa (sim_dst_bump q) (s0 :: st) h6 b dstv (wells plf) Afa6 Hd0) as HF. unfold bind in HF.
    destruct (fold_wells _ (s0 :: st) dstv (wells plf)) as [[dst' ws']|e].
    + destruct HF as (acc' & h7 & E7 & X67 & Ca & Aw). rewrite (run_bind_ok _ _ _ _ _ E7).
      assert (Eta7 : nth_error h7 ta = Some (CArr ts)) by (apply X67; [intros [E|[]]; congruence | exact Eta6]).
      rewrite (run_bind_ok _ _ _ _ _ (run_load_arr h7 ta ts Eta7)). rewrite run_store. cbn [ret].
      set (h8 := set_nth ta (CArr (set_nth d0 acc' ts)) h7).
      assert (Efa7 : exists fsx, nth_error h7 fa = Some (CArr fsx)) by (destruct Aw as (y & Ey & _); eauto). destruct Efa7 as (fsx & Efa7).
      assert (Fts7 : Forall2 (cont_at h7) ts (wells plt)).
      { eapply Forall2_impl_in; [|exact Fts]. intros x c Hc. eapply cont_at_ext; [exact X67 | | exact Hc].
        intros [E|[]]. subst x. destruct Afa6 as (y & Ey & _). destruct Hc as [i Hc]. congruence. }
      exists fp, tp, h8. split; [reflexivity|]. split; [|split; [|split; [|split; lia]]].
      * apply keeps_all. eapply keeps_trans; [exact Kp6|]. eapply keeps_trans; [eapply keeps_ext; [exact X67|]; intros x [<-|[]]; lia | apply keeps_store; lia].
      * exists fa. cbn [with_wells pname nrows ncols wells]. split.
        -- unfold h8. rewrite HeapThm.set_nth_other by lia. apply X67; [intros [E|[]]; lia | exact Efp6].
        -- apply (arr_at_set_other h7 ta (CArr ts)); [exact Eta7 | discriminate | auto | exact Aw].
      * exists ta. cbn [with_wells pname nrows ncols wells]. split.
        -- unfold h8. rewrite HeapThm.set_nth_other by lia. apply X67; [intros [E|[]]; lia | exact Etp6].
        -- apply (arr_at_store h7 ta ts); [exact Eta7 | apply F2_set_nth; assumption].
    + destruct HF as (h7 & E7 & X67). rewrite (run_bind_err _ _ _ _ _ E7). exists h7. split; [reflexivity|].
      apply keeps_all. eapply keeps_trans; [exact Kp6 | eapply keeps_ext; [exact X67|]; intros x [<-|[]]; lia].
  - (* element-wise *)
    pose proof (h_pairs_refines q true fa ta Nfa_ta (combine (s0 :: st) (d0 :: dt)) h6 (wells plf) (wells plt) Afa6 Ata6) as HP.
    destruct (pair_wells cf q (combine (s0 :: st) (d0 :: dt)) (wells plf) (wells plt)) as [[ss' ds']|e].
    + destruct HP as (h7 & E7 & X67 & Af & At). rewrite (run_bind_ok _ _ _ _ _ E7). cbn [ret].
      exists fp, tp, h7. split; [reflexivity|]. split; [|split; [|split; [|split; lia]]].
      * apply keeps_all. eapply keeps_trans; [exact Kp6 | eapply keeps_ext; [exact X67|]; intros x [<-|[<-|[]]]; lia].
      * exists fa. cbn [with_wells pname nrows ncols wells]. split; [apply X67; [intros [E|[E|[]]]; lia | exact Efp6] | exact Af].
      * exists ta. cbn [with_wells pname nrows ncols wells]. split; [apply X67; [intros [E|[E|[]]]; lia | exact Etp6] | exact At].
    + destruct HP as (h7 & E7 & X67). rewrite (run_bind_err _ _ _ _ _ E7). exists h7. split; [reflexivity|].
      apply keeps_all. eapply keeps_trans; [exact Kp6 | eapply keeps_ext; [exact X67|]; intros x [<-|[<-|[]]]; lia].
Qed.

(* ---------- plate -> plate, two regions of ONE plate object ---------- *)
Lemma h_pairs_same_refines q fa : forall pairs h ws,
  arr_at h fa ws ->
  match pair_wells_same cf q pairs ws with
  | Ok ws' => exists h', h_pairs cf fa fa pairs q false h = (Ok tt, h') /\ ext_ex [fa] h h' /\ arr_at h' fa ws'
  | Err e => exists h', h_pairs cf fa fa pairs q false h = (Err e, h') /\ ext_ex [fa] h h'
  end.
Proof.
  induction pairs as [|[i j] t IH]; intros h ws Hf.
  - simpl. exists h. split; [reflexivity|]. split; [apply ext_ex_refl | auto].
  - cbn [h_pairs pair_wells_same]. destruct Hf as (fs & Efa & Ff).
    rewrite (run_bind_ok _ _ _ _ _ (run_load_arr h fa fs Efa)). rewrite (run_bind_ok _ _ _ _ _ (run_load_arr h fa fs Efa)).
    pose proof (F2_nth_error _ _ _ i Ff) as Hi. pose proof (F2_nth_error _ _ _ j Ff) as Hj.
    destruct (nth_error fs i) as [a|]; destruct (nth_error ws i) as [sv|]; try contradiction;
      [|exists h; split; [reflexivity | apply ext_ex_refl]].
    destruct (nth_error fs j) as [b|]; destruct (nth_error ws j) as [dv|]; try contradiction;
      [|exists h; split; [reflexivity | apply ext_ex_refl]].
    unfold bind. pose proof (h_transfer_cc_refines h a b q sv dv Hi Hj) as Hs.
    destruct (transfer cf sv dv q) as [[s1 d1]|e].
    + destruct Hs as (aa & ba & h1 & E1 & X1 & Ca & Cb & La & Lb & Hab). rewrite (run_bind_ok _ _ _ _ _ E1). cbn [fst snd].
      rewrite (run_bind_ok (ret tt) _ h1 tt h1 eq_refl). rewrite run_store.
      assert (Efa1 : nth_error h1 fa = Some (CArr fs)) by (apply X1; auto).
      assert (F1 : Forall2 (cont_at h1) fs ws) by (eapply Forall2_impl_in; [|exact Ff]; intros; eapply cont_at_ext; [exact X1 | auto | assumption]).
      set (h2 := set_nth fa (CArr (set_nth i aa fs)) h1).
      assert (A2 : arr_at h2 fa (set_nth i s1 ws)) by (apply (arr_at_store h1 fa fs); [exact Efa1 | apply F2_set_nth; assumption]).
      destruct A2 as (fs2 & Efa2 & F2).
      assert (Efs2 : fs2 = set_nth i aa fs).
      { unfold h2 in Efa2. rewrite nth_error_set_nth_eq in Efa2 by (apply nth_error_Some; congruence). congruence. }
      rewrite (run_bind_ok _ _ _ _ _ (run_load_arr h2 fa fs2 Efa2)). rewrite run_store. subst fs2.
      set (h3 := set_nth fa (CArr (set_nth j ba (set_nth i aa fs))) h2).
      assert (Cb2 : cont_at h2 ba d1) by (eapply cont_at_store; eassumption).
      assert (A3 : arr_at h3 fa (set_nth j d1 (set_nth i s1 ws))) by (apply (arr_at_store h2 fa (set_nth i aa fs)); [exact Efa2 | apply F2_set_nth; assumption]).
      specialize (IH h3 _ A3).
      assert (X03 : ext_ex [fa] h h3).
      { intros z cz Hz Hc. unfold h3, h2. rewrite !HeapThm.set_nth_other by (intro; subst; apply Hz; simpl; auto). apply X1; auto. }
      destruct (pair_wells_same cf q t (set_nth j d1 (set_nth i s1 ws))) as [ws'|e].
      * destruct IH as (h' & E & X & A). exists h'. split; [exact E|]. split; [eapply ext_ex_trans; eassumption | exact A].
      * destruct IH as (h' & E & X). exists h'. split; [exact E | eapply ext_ex_trans; eassumption].
    + destruct Hs as (h1 & E1 & X1). rewrite (run_bind_err _ _ _ _ _ E1). exists h1. split; [reflexivity|].
      eapply ext_ex_weaken; [|exact X1]. intros ? [].
Qed.

Theorem h_transfer_ss_refines_same_plate h src dst q p rs rd pl :
  nth_error h src = Some (CSlice p rs) -> nth_error h dst = Some (CSlice p rd) -> plate_at h p pl ->
  match p_to_p_same cf pl rs rd q with
  | Ok pl' => exists a h', h_transfer_ss cf src dst q h = (Ok (a, a), h') /\ ext_ex [] h h' /\ plate_at h' a pl' /\ (length h <= a)%nat
  | Err e => exists h', h_transfer_ss cf src dst q h = (Err e, h') /\ ext_ex [] h h'
  end.
Proof.
  intros Esrc Edst Hp. unfold h_transfer_ss.
  rewrite (run_bind_ok _ _ _ _ _ (run_as_slice_slice h dst p rd Edst)). rewrite (run_bind_ok _ _ _ _ _ (run_as_slice_slice h src p rs Esrc)).
  rewrite (run_bind_ok _ _ _ _ _ (run_copy_slice h dst p rd Edst)). set (h1 := h ++ [CSlice p rd]).
  assert (X01 : ext_ex [] h h1) by apply ext_ex_app.
  rewrite (run_bind_ok _ _ _ _ _ (run_copy_slice h1 src p rs (X01 _ _ (fun x => x) Esrc))). set (h2 := h1 ++ [CSlice p rs]).
  assert (L1 : length h1 = S (length h)) by (unfold h1; rewrite app_length; simpl; lia).
  assert (L2 : length h2 = S (S (length h))) by (unfold h2; rewrite app_length, L1; simpl; lia).
  assert (X02 : ext_ex [] h h2) by (eapply ext_ex_trans; [exact X01 | apply ext_ex_app]).
  assert (Et' : nth_error h2 (length h) = Some (CSlice p rd)).
  { unfold h2. rewrite nth_error_app1 by lia. unfold h1. rewrite nth_error_app2 by lia. rewrite Nat.sub_diag. reflexivity. }
  assert (Ef' : nth_error h2 (length h1) = Some (CSlice p rs)) by (unfold h2; rewrite nth_error_app2 by lia; rewrite Nat.sub_diag; reflexivity).
  rewrite (run_bind_ok _ _ _ _ _ (run_load_slice h2 _ p rd Et')). rewrite (run_bind_ok _ _ _ _ _ (run_load_slice h2 _ p rs Ef')). cbn [fst snd].
  rewrite Nat.eqb_refl. cbn [negb andb].
  destruct (deepcopy_plate_refines h2 p pl (plate_at_ext0 _ _ _ _ X02 Hp)) as (tp & ta & h3 & E3 & X23 & Etp & Ata & Ltp & Lta & Ntp).
  rewrite mbind_assoc. rewrite (run_bind_ok _ _ _ _ _ E3). rewrite (run_bind_ok (ret _) _ h3 _ h3 eq_refl). cbn [fst snd].
  rewrite !run_store.
  set (h5 := set_nth (length h) (CSlice tp rd) h3). set (h6 := set_nth (length h1) (CSlice tp rs) h5).
  assert (Et3 : nth_error h3 (length h) = Some (CSlice p rd)) by (apply X23; auto).
  assert (Ef3 : nth_error h3 (length h1) = Some (CSlice p rs)) by (apply X23; auto).
  assert (Ef5 : nth_error h5 (length h1) = Some (CSlice p rs)) by (unfold h5; rewrite HeapThm.set_nth_other by lia; exact Ef3).
  assert (K6 : forall z c, z <> length h -> z <> length h1 -> nth_error h3 z = Some c -> nth_error h6 z = Some c).
  { intros z c Hz1 Hz2 H. unfold h6, h5. rewrite !HeapThm.set_nth_other by auto. exact H. }
  assert (Ata6 : arr_at h6 ta (wells pl)).
  { apply (arr_at_set_other h5 _ (CSlice p rs)); [exact Ef5 | discriminate | lia|].
    apply (arr_at_set_other h3 _ (CSlice p rd)); [exact Et3 | discriminate | lia | exact Ata]. }
  assert (Etp6 : nth_error h6 tp = Some (CPlate (pname pl) (nrows pl) (ncols pl) ta)) by (apply K6; [lia | lia | exact Etp]).
  assert (Kp6 : keeps (length h) h h6) by (intros z c Hz H; apply K6; [lia | lia|]; apply X23; auto).
  unfold p_to_p_same.
  destruct (overlaps (region_idx (ncols pl) rs) (region_idx (ncols pl) rd)); [exists h6; split; [reflexivity | apply keeps_all; exact Kp6]|].
  destruct (region_idx (ncols pl) rs) as [|s0 st] eqn:Esi; [exists h6; split; [reflexivity | apply keeps_all; exact Kp6]|].
  destruct (region_idx (ncols pl) rd) as [|d0 dt] eqn:Edi; [exists h6; split; [reflexivity | apply keeps_all; exact Kp6]|].
  rewrite run_lift. unfold bind.
  destruct (dispatch rs rd (length (s0 :: st)) (length (d0 :: dt))) as [pg|e]; [|exists h6; split; [reflexivity | apply keeps_all; exact Kp6]].
  destruct pg.
  - destruct Ata6 as (fs & Efa6 & Ffs). rewrite (run_bind_ok _ _ _ _ _ (run_load_arr h6 ta fs Efa6)).
    pose proof (F2_nth_error _ _ _ s0 Ffs) as Hs0.
    destruct (nth_error fs s0) as [a|]; destruct (nth_error (wells pl) s0) as [srcv|]; try contradiction;
      [|exists h6; split; [reflexivity | apply keeps_all; exact Kp6]].
    pose proof (h_fold_refines _ _ ta (sim_src_bump q false) (d0 :: dt) h6 a srcv (wells pl) (ex_intro _ fs (conj Efa6 Ffs)) Hs0) as HF.
    destruct (fold_wells (fun s w => transfer cf s w q) (d0 :: dt) srcv (wells pl)) as [[src' ws']|e].
    + destruct HF as (acc' & h7 & E7 & X67 & Ca & Aw). rewrite (run_bind_ok _ _ _ _ _ E7).
      destruct Aw as (fs7 & Efa7 & F7). rewrite (run_bind_ok _ _ _ _ _ (run_load_arr h7 ta fs7 Efa7)). rewrite run_store. cbn [ret].
      exists tp, (set_nth ta (CArr (set_nth s0 acc' fs7)) h7). split; [reflexivity|]. split; [|split; [|lia]].
      * apply keeps_all. eapply keeps_trans; [exact Kp6|]. eapply keeps_trans; [eapply keeps_ext; [exact X67|]; intros x [<-|[]]; lia | apply keeps_store; lia].
      * exists ta. cbn [with_wells pname nrows ncols wells]. split.
        -- rewrite HeapThm.set_nth_other by lia. apply X67; [intros [E|[]]; lia | exact Etp6].
        -- apply (arr_at_store h7 ta fs7); [exact Efa7 | apply F2_set_nth; assumption].
    + destruct HF as (h7 & E7 & X67). rewrite (run_bind_err _ _ _ _ _ E7). exists h7. split; [reflexivity|].
      apply keeps_all. eapply keeps_trans; [exact Kp6 | eapply keeps_ext; [exact X67|]; intros x [<-|[]]; lia].
  - destruct Ata6 as (ts & Eta6 & Fts). rewrite (run_bind_ok _ _ _ _ _ (run_load_arr h6 ta ts Eta6)).
    pose proof (F2_nth_error _ _ _ d0 Fts) as Hd0.
    destruct (nth_error ts d0) as [b|]; destruct (nth_error (wells pl) d0) as [dstv|]; try contradiction;
      [|exists h6; split; [reflexivity | apply keeps_all; exact Kp6]].
    pose proof (h_fold_refines _ _ ta (sim_dst_bump q) (s0 :: st) h6 b dstv (wells pl) (ex_intro _ ts (conj Eta6 Fts)) Hd0) as HF. unfold bind in HF.
    destruct (fold_wells _ (s0 :: st) dstv (wells pl)) as [[dst' ws']|e].
    + destruct HF as (acc' & h7 & E7 & X67 & Ca & Aw). rewrite (run_bind_ok _ _ _ _ _ E7).
      destruct Aw as (ts7 & Eta7 & F7). rewrite (run_bind_ok _ _ _ _ _ (run_load_arr h7 ta ts7 Eta7)). rewrite run_store. cbn [ret].
      exists tp, (set_nth ta (CArr (set_nth d0 acc' ts7)) h7). split; [reflexivity|]. split; [|split; [|lia]].
      * apply keeps_all. eapply keeps_trans; [exact Kp6|]. eapply keeps_trans; [eapply keeps_ext; [exact X67|]; intros x [<-|[]]; lia | apply keeps_store; lia].
      * exists ta. cbn [with_wells pname nrows ncols wells]. split.
        -- rewrite HeapThm.set_nth_other by lia. apply X67; [intros [E|[]]; lia | exact Etp6].
        -- apply (arr_at_store h7 ta ts7); [exact Eta7 | apply F2_set_nth; assumption].
    + destruct HF as (h7 & E7 & X67). rewrite (run_bind_err _ _ _ _ _ E7). exists h7. split; [reflexivity|].
      apply keeps_all. eapply keeps_trans; [exact Kp6 | eapply keeps_ext; [exact X67|]; intros x [<-|[]]; lia].
  - pose proof (h_pairs_same_refines q ta (combine (s0 :: st) (d0 :: dt)) h6 (wells pl) Ata6) as HP.
    destruct (pair_wells_same cf q (combine (s0 :: st) (d0 :: dt)) (wells pl)) as [ws'|e].
    + destruct HP as (h7 & E7 & X67 & Af). rewrite (run_bind_ok _ _ _ _ _ E7). cbn [ret].
      exists tp, h7. split; [reflexivity|]. split; [|split; [|lia]].
      * apply keeps_all. eapply keeps_trans; [exact Kp6 | eapply keeps_ext; [exact X67|]; intros x [<-|[]]; lia].
      * exists ta. cbn [with_wells pname nrows ncols wells]. split; [apply X67; [intros [E|[]]; lia | exact Etp6] | exact Af].
    + destruct HP as (h7 & E7 & X67). rewrite (run_bind_err _ _ _ _ _ E7). exists h7. split; [reflexivity|].
      apply keeps_all. eapply keeps_trans; [exact Kp6 | eapply keeps_ext; [exact X67|]; intros x [<-|[]]; lia].
Qed.
End Ops.
