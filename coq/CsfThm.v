(* CsfThm.v -- create_solution_from (C12): the new solution has the requested total and concentration, is an aliquot of the
   source plus pure solvent, and nothing is lost. *)
Require Import Base Units UnitsThm Contents Container ContainerThm ContainerThm2 Plate PlateThm SizeThm Dilute Solve SolveThm.

(* a transfer by volume moves the fraction r = requested volume / source volume of everything *)
Lemma transfer_by_volume cf src dst q s' d' :
  qbase q = BL -> Inv cf src -> Inv cf dst -> transfer cf src dst q = Ok (s', d') ->
  exists r, 0 <= r /\ r <= 1 /\ r * (vol src * pmult (vol_pfx cf)) == qv q /\
    (forall u, total_in cf (cont d') u == total_in cf (cont dst) u + total_in cf (cont src) u * r) /\
    (forall k, get k (cont d') == get k (cont dst) + get k (cont src) * r) /\
    (forall k, get k (cont s') == get k (cont src) * (1 - r)).
Proof.
  intros Hb Is Id H. pose proof H as H'. apply transfer_ok in H'. destruct H' as (r & Hr & H0 & H1 & Hs & Hd & _).
  exists r. split; [exact H0|]. split; [exact H1|]. split.
  - pose proof (ratio_size cf src q r (inv_vol _ _ Is) Hr) as Hsz. rewrite Hb in Hsz. simpl in Hsz.
    rewrite (inv_vol _ _ Is). rewrite <- Hsz. reflexivity.
  - subst s' d'. simpl. split; [|split].
    + intros u. unfold total_in. apply (sum_by_move _ r (cont src) (linear_conv cf u) (cont dst) (inv_wf _ _ Id)).
    + intros k. apply get_move. apply (inv_wf _ _ Is).
    + intros k. rewrite get_take. ring.
Qed.

(* y millilitres of a pure (non-enzyme) solvent: what the fresh container holds, in every unit *)
Definition per_mL (s : substance) (u : base) : Q :=
  match u with BG => dens s | BL => 1 # 1000 | BMol => dens s / mw s | BU => 0 end.
Lemma solvent_container cf name solvent y c :
  wf_subst solvent -> is_enzyme solvent = false -> make_container cf name None [(solvent, mL y)] = Ok c ->
  (forall u, total_in cf (cont c) (P0, u) == y * per_mL solvent u) /\ (forall k, k <> solvent -> get k (cont c) = 0) /\ Inv cf c.
Proof.
  intros Hw He H.
  assert (I : Inv cf c) by (apply (make_container_inv cf name None [(solvent, mL y)] c); [constructor; [exact Hw | constructor] | exact H]).
  split; [|split; [|exact I]].
  - intros u. unfold make_container, bind in H. simpl in H.
    destruct (self_add cf _ solvent (mL y)) as [c1|] eqn:E; [|discriminate]. inversion H; subst c1; clear H.
    apply self_add_ok in E. destruct E as (vta & ata & Ev & Ea & Ha & Hv & Hov & ->). simpl.
    unfold total_in. rewrite sum_by_cons. unfold sum_by at 1. simpl. rewrite rnd_eq.
    destruct Hw as (Hm & Hd & Hac). pose proof (pmult_pos (mol_pfx cf)) as Hpm.
    unfold qv, mL in Ea. simpl in Ea.
    unfold conv_stored, stored_unit, mol_unit, per_mL, conv, conv_base, is_enzyme in *.
    destruct solvent as [i k m d ac]; simpl in *.
    destruct k; try discriminate; destruct u; simpl in *; inversion Ea; subst; clear Ea; change (pmult P0) with 1; change (pmult Pm) with (1 # 1000);
      field; repeat split; lra.
  - intros k Hk. unfold make_container, bind in H. simpl in H.
    destruct (self_add cf _ solvent (mL y)) as [c1|] eqn:E; [|discriminate]. inversion H; subst c1; clear H.
    apply self_add_ok in E. destruct E as (vta & ata & Ev & Ea & Ha & Hv & Hov & ->). simpl.
    destruct (seqb solvent k) eqn:Es; [apply seqb_eq in Es; congruence | reflexivity].
Qed.

Lemma total_in_L_of_vol cf c : Inv cf c -> total_in cf (cont c) (P0, BL) == from_storage_vol cf (vol c) Pm * (1 # 1000).
Proof.
  intros I. rewrite from_storage_vol_spec, (inv_vol _ _ I). unfold volume_of, vol_unit.
  rewrite (total_in_prefix cf (cont c) (vol_pfx cf) BL). change (pmult Pm) with (1 # 1000). field. apply pmult_nz.
Qed.
Lemma conv_stored_solute_units cf s a : wf_subst s -> is_enzyme s = false ->
  conv_stored cf s a (P0, BMol) == from_storage_mol cf a P0 /\
  conv_stored cf s a (P0, BG) == from_storage_mol cf a P0 * mw s /\
  conv_stored cf s a (P0, BL) == from_storage_mol cf a P0 * mw s / (dens s * 1000).
Proof.
  intros (Hm & Hd & Ha) He. rewrite !from_storage_mol_spec. unfold conv_stored, stored_unit, mol_unit, conv, conv_base, is_enzyme in *.
  destruct s as [i k m d ac]; simpl in *. destruct k; try discriminate; simpl; change (pmult P0) with 1; repeat split; field; lra.
Qed.

Definition top_of (mx my : mix) (s : substance) (nb : base) : option (Q * Q) :=
  match nb with
  | BMol => Some (m_m mx / 1000, m_m my / 1000)
  | BG => Some (m_m mx * mw s / 1000, m_m my * mw s / 1000)
  | BL => Some (m_m mx * mw s / (dens s * 1000000), m_m my * mw s / (dens s * 1000000))
  | BU => None
  end.
Definition bot_of (mx my : mix) (db : base) : option (Q * Q) :=
  match db with
  | BMol => Some (m_d mx / m_mw mx, m_d my / m_mw my)
  | BG => Some (m_d mx, m_d my)
  | BL => Some (1 # 1000, 1 # 1000)
  | BU => None
  end.
Lemma csf_system_spec mx my s c q rows : csf_system mx my s c q = Ok rows ->
  exists t b, top_of mx my s (cnum c) = Some t /\ bot_of mx my (cden c) = Some b /\
    rows = [([cval c * fst b - fst t; cval c * snd b - snd t], 0);
            (match bot_of mx my (qbase q) with Some r => [fst r; snd r] | None => [0; 0] end, qv q)].
Proof.
  unfold csf_system, bind, top_of, bot_of.
  destruct (cnum c); try discriminate; destruct (cden c); try discriminate; intros H; inversion H; subst; clear H;
    (eexists; eexists; split; [reflexivity|]; split; [reflexivity|]); simpl; destruct (qbase q); reflexivity.
Qed.

Theorem csf_sound cf src solute solvent c q name src' new :
  Inv cf src -> wf_subst solvent -> is_enzyme solvent = false -> wf_subst solute -> is_enzyme solute = false ->
  0 < total_in cf (cont src) (P0, BG) ->
  create_solution_from cf src solute c solvent q name = Ok (src', new) ->
  (* the requested total, in the unit of the request *)
  total_in cf (cont new) (P0, qbase q) == qv q /\
  (* the requested concentration, read back from the contents in the requested units *)
  conv_stored cf solute (get solute (cont new)) (P0, cnum c) == cval c * total_in cf (cont new) (P0, cden c) /\
  (* nothing is lost: everything but the pure solvent is conserved over residual + new solution, and the solvent only grows *)
  (forall k, k <> solvent -> get k (cont src') + get k (cont new) == get k (cont src)) /\
  get solvent (cont src) <= get solvent (cont src') + get solvent (cont new) /\
  (* what left the source is a uniform aliquot *)
  (exists f, 0 <= f /\ f <= 1 /\ forall k, get k (cont src') == get k (cont src) * (1 - f)) /\
  Inv cf src' /\ Inv cf new.
Proof.
  intros Isrc Hwv Hev Hws Hes Hmass H. unfold create_solution_from in H.
  destruct (Qle_bool (qv q) 0) eqn:Eq; [discriminate|].
  assert (Hq : 0 < qv q). { apply Qnot_le_lt. intro Hle. apply Qle_bool_iff in Hle. congruence. }
  destruct (has solute (cont src)); simpl in H; [|discriminate].
  destruct (seqb solvent solute) eqn:Ess; [discriminate|]. apply seqb_neq in Ess.
  unfold bind in H. unfold mix_of in H.
  set (V := from_storage_vol cf (vol src) Pm) in *. set (M := total_in cf (cont src) (P0, BG)) in *.
  set (N := total_in cf (cont src) (P0, BMol)) in *. set (S := from_storage_mol cf (get solute (cont src)) P0) in *.
  destruct (Qeqb V 0 || Qeqb N 0) eqn:Ez; [discriminate|]. apply orb_false_iff in Ez. destruct Ez as [EV EN].
  apply Qeqb_neq in EV, EN.
  set (mx := {| m_d := M / V; m_mw := M / N; m_m := S / (V / 1000) |}) in *.
  set (my := {| m_d := dens solvent; m_mw := mw solvent; m_m := 0 |}) in *.
  unfold csf_solve, bind in H.
  destruct (csf_system mx my solute c q) as [rows|] eqn:Esys; [|discriminate].
  destruct (csf_system_spec _ _ _ _ _ _ Esys) as ([t1 t2] & [b1 b2] & Etop & Ebot & Erows). simpl in Erows.
  destruct (gauss 2 rows) as [[|x [|y [|z zs]]]|] eqn:Eg; try discriminate.
  destruct (Qltb x 0 || Qltb y 0) eqn:Exy; [discriminate|]. apply orb_false_iff in Exy. destruct Exy as [Ex Ey].
  apply Qltb_ge in Ex, Ey. simpl in H.
  (* the two rows hold exactly *)
  assert (Hrows : forall r, In r rows -> length (fst r) = 2%nat).
  { subst rows. intros r [<-|[<-|[]]]; simpl; [reflexivity|]. destruct (bot_of mx my (qbase q)); reflexivity. }
  destruct (gauss_sound 2 rows [x; y] Hrows Eg) as [_ Hsat].
  assert (R0 : (cval c * b1 - t1) * x + (cval c * b2 - t2) * y == 0).
  { assert (Hin0 : In ([cval c * b1 - t1; cval c * b2 - t2], 0) rows) by (rewrite Erows; left; reflexivity).
    pose proof (Hsat _ Hin0) as Hz. simpl in Hz. lra. }
  assert (R1 : exists r1 r2, bot_of mx my (qbase q) = Some (r1, r2) /\ r1 * x + r2 * y == qv q).
  { assert (Hin : In (match bot_of mx my (qbase q) with Some r => [fst r; snd r] | None => [0; 0] end, qv q) rows) by (rewrite Erows; right; left; reflexivity).
    pose proof (Hsat _ Hin) as Hz. simpl in Hz. destruct (bot_of mx my (qbase q)) as [[r1 r2]|]; simpl in Hz; [exists r1, r2; split; [reflexivity | lra] | lra]. }
  (* the fresh container of pure solvent *)
  set (mk := if Qeqb y 0 then make_container cf name None [] else make_container cf name None [(solvent, mL y)]) in *.
  destruct mk as [new0|] eqn:Emk; [|discriminate].
  assert (P1 : (forall u, total_in cf (cont new0) (P0, u) == y * per_mL solvent u) /\ (forall k, k <> solvent -> get k (cont new0) = 0) /\ Inv cf new0 /\
               0 <= get solvent (cont new0)).
  { unfold mk in Emk. destruct (Qeqb y 0) eqn:Ey0.
    - apply Qeqb_eq in Ey0. inversion Emk; subst new0; clear Emk. simpl. split; [|split; [|split]].
      + intros u. unfold total_in, sum_by. simpl. rewrite Ey0. ring.
      + reflexivity.
      + apply (make_container_inv cf name None [] _ (Forall_nil _) eq_refl).
      + lra.
    - destruct (solvent_container cf name solvent y new0 Hwv Hev Emk) as (A & B & C).
      split; [exact A|]. split; [exact B|]. split; [exact C|]. apply nonneg_get. apply (inv_nonneg _ _ C). }
  destruct P1 as (Tn0 & Gn0 & In0 & Gs0).
  (* the aliquot of the source *)
  assert (P2 : exists r, 0 <= r /\ r <= 1 /\ r * V == x /\
            (forall u, total_in cf (cont new) u == total_in cf (cont new0) u + total_in cf (cont src) u * r) /\
            (forall k, get k (cont new) == get k (cont new0) + get k (cont src) * r) /\
            (forall k, get k (cont src') == get k (cont src) * (1 - r)) /\ Inv cf src' /\ Inv cf new).
  { destruct (Qeqb x 0) eqn:Ex0.
    - apply Qeqb_eq in Ex0. inversion H; subst src' new; clear H. exists 0.
      split; [lra|]. split; [lra|]. split; [rewrite Ex0; ring|]. split; [intros u; ring|]. split; [intros k; ring|].
      split; [intros k; ring|]. split; [exact Isrc | exact In0].
    - destruct (transfer_by_volume cf src new0 (mL x) src' new eq_refl Isrc In0 H) as (r & Hr0 & Hr1 & Hrv & Ht & Hg & Hs).
      destruct (transfer_inv cf src new0 (mL x) src' new Isrc In0 H) as [Is' In'].
      exists r. split; [exact Hr0|]. split; [exact Hr1|]. split; [|split; [exact Ht|]; split; [exact Hg|]; split; [exact Hs|]; split; [exact Is' | exact In']].
      unfold V. rewrite from_storage_vol_spec. unfold qv, mL in Hrv. simpl in Hrv. change (pmult Pm) with (1 # 1000) in *.
      setoid_replace (r * (vol src * pmult (vol_pfx cf) / (1 # 1000))) with (r * (vol src * pmult (vol_pfx cf)) * 1000) by (field).
      rewrite Hrv. field. }
  destruct P2 as (r & Hr0 & Hr1 & HrV & Tnew & Gnew & Gsrc & Is' & In').
  (* totals of the source in the three units *)
  assert (TL : total_in cf (cont src) (P0, BL) == V * (1 # 1000)) by (apply total_in_L_of_vol; exact Isrc).
  assert (HM : ~ M == 0) by lra.
  assert (Hbot : forall u b1' b2', bot_of mx my u = Some (b1', b2') -> b1' * x + b2' * y == total_in cf (cont new) (P0, u)).
  { intros u b1' b2' Eb. rewrite Tnew, Tn0. destruct Hwv as (Hm & Hd & Ha).
    destruct u; simpl in Eb; inversion Eb; subst; clear Eb; simpl; rewrite <- HrV.
    - rewrite TL. field.
    - fold M. field. exact EV.
    - fold N. field. repeat split; lra. }
  split; [|split; [|split; [|split; [|split; [|split; [exact Is' | exact In']]]]]].
  - destruct R1 as (r1 & r2 & Er & Hr). rewrite <- (Hbot _ _ _ Er). exact Hr.
  - rewrite <- (Hbot _ _ _ Ebot).
    assert (Htop : t1 * x + t2 * y == conv_stored cf solute (get solute (cont new)) (P0, cnum c)).
    { rewrite Gnew, (Gn0 solute) by (intro; apply Ess; congruence).
      setoid_replace (0 + get solute (cont src) * r) with (get solute (cont src) * r) by ring.
      rewrite conv_stored_scale.
      destruct (conv_stored_solute_units cf solute (get solute (cont src)) Hws Hes) as (Cm & Cg & Cl). fold S in Cm, Cg, Cl.
      destruct Hws as (Hm & Hd & Ha).
      destruct (cnum c); simpl in Etop; inversion Etop; subst; clear Etop; simpl; rewrite <- HrV.
      - rewrite Cl. field. repeat split; lra.
      - rewrite Cg. field. exact EV.
      - rewrite Cm. field. exact EV. }
    rewrite <- Htop. lra.
  - intros k Hk. rewrite Gsrc, Gnew, (Gn0 k Hk). ring.
  - rewrite Gsrc, Gnew. pose proof (nonneg_get solvent _ (inv_nonneg _ _ Isrc)). nra.
  - exists r. split; [exact Hr0|]. split; [exact Hr1 | exact Gsrc].
Qed.
