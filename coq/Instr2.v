(* Instr2.v -- the amounts written into the instruction lines of transfer, fill_to and dilute (C19), as functions of the same
   quantities the operations compute, and the theorems that each stated amount is the amount actually moved / added.
   (The constructor's "Add x of S" parts are standard_format of Instr.v.) *)
Require Import Base Units UnitsThm Contents Container ContainerThm ContainerThm2 Dilute Instr.

Definition amount3 := (Q * prefix * base)%type.
Definition denotes3 (a : amount3) : Q := fst (fst a) * pmult (snd (fst a)).

(* "Transfer x u of SRC to DST": the volume that leaves a source holding liquid, else the mass (computed in mg) *)
Definition transfer_instr (cf : cfg) (src : container) (r : Q) : amount3 :=
  if has_liquid src
  then let hr := human_readable (from_storage_vol cf (r * vol src) P0) P0 in (fst hr, snd hr, BL)
  else let hr := human_readable (total_in cf (cont src) (Pm, BG) * r) Pm in (fst hr, snd hr, BG).

(* "Fill with x u of SOLVENT": the volume of the solvent added *)
Definition solvent_volume (solvent : substance) (x : Q) (u : unit_) : Q :=
  match conv solvent x u (P0, BL) with Some v => v | None => 0 end.
Definition fill_instr (cf : cfg) (c : container) (solvent : substance) (q : qty) : amount3 :=
  let required := Qmax0 (qv q - total_in cf (cont c) (P0, qbase q)) in
  let hr := human_readable (solvent_volume solvent required (P0, qbase q)) P0 in (fst hr, snd hr, BL).
(* "Dilute with x u of SOLVENT" *)
Definition dilute_instr (cf : cfg) (c : container) (solute : substance) (t : conc) (solvent : substance) : amount3 :=
  let hr := human_readable (solvent_volume solvent (dilute_required cf c solute t solvent) (Pu, BMol)) P0 in (fst hr, snd hr, BL).

(* ---- transfer ---- *)
Theorem transfer_instr_true cf src dst q s' d' : Inv cf src ->
  transfer cf src dst q = Ok (s', d') ->
  exists r, transfer_ratio cf src q = Ok r /\
    let a := transfer_instr cf src r in
    (has_liquid src = true -> ~ r * vol src == 0 ->
       snd a = BL /\ denotes3 a == total_in cf (cont src) (P0, BL) - total_in cf (cont s') (P0, BL)) /\
    (has_liquid src = false -> ~ total_in cf (cont src) (Pm, BG) * r == 0 ->
       snd a = BG /\ denotes3 a == total_in cf (cont src) (P0, BG) - total_in cf (cont s') (P0, BG)).
Proof.
  intros I H. apply transfer_ok in H. destruct H as (r & Hr & H0 & H1 & Hs & _ & _). exists r. split; [exact Hr|].
  unfold transfer_instr. subst s'. cbn [cont]. split; intros Hl Hnz; rewrite Hl; cbn [snd fst]; (split; [reflexivity|]); unfold denotes3; cbn [fst snd].
  - assert (Hv : ~ from_storage_vol cf (r * vol src) P0 == 0).
    { rewrite from_storage_vol_spec. change (pmult P0) with 1. pose proof (pmult_pos (vol_pfx cf)). intro E.
      apply Hnz. assert (r * vol src * pmult (vol_pfx cf) == 0) by (rewrite <- E; field). nra. }
    destruct (human_readable_preserves _ P0 Hv) as [Hd _]. unfold denotes in Hd. rewrite Hd.
    rewrite total_in_take. rewrite from_storage_vol_spec. change (pmult P0) with 1.
    pose proof (Inv_vol_nonneg _ _ I) as Hvn. pose proof (pmult_pos (vol_pfx cf)) as Hp.
    rewrite Qabs_pos by (apply Qle_shift_div_l; [lra | nra]).
    rewrite (total_in_prefix cf (cont src) P0 BL). change (pmult P0) with 1.
    pose proof (inv_vol _ _ I) as Ev. unfold volume_of, vol_unit in Ev. rewrite (total_in_prefix cf (cont src) (vol_pfx cf) BL) in Ev.
    rewrite Ev. field. apply pmult_nz.
  - destruct (human_readable_preserves _ Pm Hnz) as [Hd _]. unfold denotes in Hd. rewrite Hd.
    rewrite total_in_take.
    assert (Hm : 0 <= total_in cf (cont src) (Pm, BG)) by (apply total_in_nonneg; [apply (inv_subst _ _ I) | apply (inv_nonneg _ _ I)]).
    rewrite Qabs_pos by nra.
    rewrite (total_in_prefix cf (cont src) Pm BG). change (pmult Pm) with (1 # 1000). field.
Qed.

(* ---- fill_to / dilute: what is stored for the solvent, read back as a volume, is the volume the instruction states ---- *)
Lemma stored_as_volume cf s y b ata : wf_subst s -> is_enzyme s = false -> b <> BU ->
  conv s y (P0, b) (stored_unit cf s) = Some ata -> conv_stored cf s ata (P0, BL) == solvent_volume s y (P0, b).
Proof.
  intros (Hm & Hd & Ha) He Hb. pose proof (pmult_pos (mol_pfx cf)) as Hpm.
  unfold solvent_volume, conv_stored, stored_unit, mol_unit, conv, conv_base, is_enzyme in *.
  destruct s as [i k m d ac]; simpl in *.
  destruct k, b; simpl; try discriminate; try congruence; intros E; inversion E; subst; clear E;
    change (pmult P0) with 1; field; repeat split; lra.
Qed.
Lemma solvent_volume_prefix s x p b : solvent_volume s x (p, b) == solvent_volume s (x * pmult p) (P0, b).
Proof.
  unfold solvent_volume, conv. cbn [fst snd]. change (pmult P0) with 1.
  assert (E : x * pmult p * 1 == x * pmult p) by ring.
  unfold conv_base. destruct (base_eqb b BU && negb (is_enzyme s)); [reflexivity|].
  destruct b; destruct (is_enzyme s); cbn [negb]; rewrite ?E; reflexivity.
Qed.

Lemma added_solvent cf c s q c' : self_add cf c s q = Ok c' -> wf_subst s -> is_enzyme s = false -> qbase q <> BU ->
  conv_stored cf s (get s (cont c') - get s (cont c)) (P0, BL) == solvent_volume s (qv q) (P0, qbase q) /\
  0 <= solvent_volume s (qv q) (P0, qbase q).
Proof.
  intros H Hw He Hb. apply self_add_ok in H. destruct H as (vta & ata & Ev & Ea & Ha & Hv & Hov & ->). cbn [cont].
  rewrite get_upd, seqb_refl, rnd_eq.
  pose proof (stored_as_volume cf s (qv q) (qbase q) ata Hw He Hb Ea) as E.
  assert (E2 : conv_stored cf s (get s (cont c) + ata - get s (cont c)) (P0, BL) == conv_stored cf s ata (P0, BL)).
  { rewrite !conv_stored_coef. field. apply pmult_nz. }
  rewrite E2. split; [exact E|]. rewrite <- E. apply conv_stored_nonneg; assumption.
Qed.

Theorem fill_instr_true cf c solvent q c' : wf_subst solvent -> is_enzyme solvent = false ->
  fill_to cf c solvent q = Ok c' ->
  let a := fill_instr cf c solvent q in
  ~ solvent_volume solvent (Qmax0 (qv q - total_in cf (cont c) (P0, qbase q))) (P0, qbase q) == 0 ->
  snd a = BL /\ denotes3 a == conv_stored cf solvent (get solvent (cont c') - get solvent (cont c)) (P0, BL).
Proof.
  intros Hw He H. apply fill_to_ok in H. destruct H as (_ & Hb & _ & Hadd). cbv zeta. intros Hnz.
  destruct (added_solvent cf c solvent _ c' Hadd Hw He Hb) as [E Hpos]. unfold qv in E, Hpos. cbn [qval qpfx qbase] in E, Hpos.
  change (pmult P0) with 1 in E, Hpos. fold (qv q) in E, Hpos.
  assert (X : forall z, solvent_volume solvent (z * 1) (P0, qbase q) == solvent_volume solvent z (P0, qbase q)).
  { intros z. rewrite <- (solvent_volume_prefix solvent z P0 (qbase q)). reflexivity. }
  rewrite X in E, Hpos.
  unfold fill_instr, denotes3. cbn [fst snd]. split; [reflexivity|].
  destruct (human_readable_preserves _ P0 Hnz) as [Hd _]. unfold denotes in Hd. rewrite Hd, E.
  rewrite Qabs_pos by exact Hpos. change (pmult P0) with 1. ring.
Qed.

Theorem dilute_instr_true cf c solute t solvent c' : wf_subst solvent ->
  dilute cf c solute t solvent = Ok c' ->
  let a := dilute_instr cf c solute t solvent in
  ~ solvent_volume solvent (dilute_required cf c solute t solvent) (Pu, BMol) == 0 ->
  Qeqb (rnd (to_storage_mol cf (dilute_required cf c solute t solvent) Pu)) 0 = false ->
  snd a = BL /\ denotes3 a == conv_stored cf solvent (get solvent (cont c') - get solvent (cont c)) (P0, BL).
Proof.
  intros Hw H. cbv zeta. intros Hnz Hrs. revert H. unfold dilute. cbv zeta.
  destruct (negb (has solute (cont c))); [discriminate|].
  destruct (base_eqb (cnum t) BU && negb (is_enzyme solute)); [discriminate|].
  destruct (base_eqb (cden t) BU || is_enzyme solvent) eqn:Esv; [discriminate|].
  apply Bool.orb_false_iff in Esv. destruct Esv as [_ He].
  destruct (seqb solvent solute); [discriminate|]. destruct (Qle_bool (cval t) 0); [discriminate|].
  set (req := dilute_required cf c solute t solvent) in *.
  destruct (Qltb (rnd (to_storage_mol cf req Pu)) 0); [discriminate|]. rewrite Hrs.
  destruct (conv solvent req (Pu, BMol) (vol_unit cf)); [|discriminate].
  destruct (over _ (maxv c)); [discriminate|]. intros Hadd.
  destruct (added_solvent cf c solvent _ c' Hadd Hw He ltac:(discriminate)) as [E Hpos].
  unfold qv in E, Hpos. cbn [qval qpfx qbase] in E, Hpos.
  rewrite <- (solvent_volume_prefix solvent req Pu BMol) in E, Hpos.
  unfold dilute_instr, denotes3. cbn [fst snd]. fold req. split; [reflexivity|].
  destruct (human_readable_preserves _ P0 Hnz) as [Hd _]. unfold denotes in Hd. rewrite Hd, E.
  rewrite Qabs_pos by exact Hpos. change (pmult P0) with 1. ring.
Qed.

Definition base_code (b : base) : Z := match b with BU => 1 | BL => 2 | BG => 3 | BMol => 4 end%Z.
Definition showA3 (a : amount3) : list Z := base_code (snd a) :: prefix_code (snd (fst a)) :: showQ (fst (fst a)).

(* ---- printing for the correspondence: the amount each instruction line of a history states ---- *)
Require Import Solve Plate Prog.
Definition instr_of_step (cf : cfg) (e : env) (o : op) : list Z :=
  match o with
  | OTransfer (RefC s) (RefC d) q _ _ =>
      match getC e s with
      | Ok cs => match transfer_ratio cf cs q with Ok r => 1%Z :: showA3 (transfer_instr cf cs r) | Err _ => [0%Z] end
      | Err _ => [0%Z]
      end
  | OFill (RefC v) s q _ => match getC e v with Ok c => 1%Z :: showA3 (fill_instr cf c s q) | Err _ => [0%Z] end
  | ODilute v solute c solvent _ => match getC e v with Ok k => 1%Z :: showA3 (dilute_instr cf k solute c solvent) | Err _ => [0%Z] end
  | _ => [0%Z]
  end.
Fixpoint showInstr (cf : cfg) (e : env) (ops : list op) : list Z :=
  match ops with
  | [] => []
  | o :: t => instr_of_step cf e o ++ showInstr cf (match step cf e o with Ok l => assign e l | Err _ => e end) t
  end.
Definition showInstrRun (cf : cfg) (ops : list op) : list Z := showInstr cf [] ops.
