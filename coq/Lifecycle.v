(* Lifecycle.v -- the Recipe lifecycle as a deterministic automaton (C16): which API calls are accepted in which
   state, with which exception class otherwise, and what they do to the lifecycle state
   (locked / open stage / stage table / declared names / used names / step count).
   Names are numbers; stage 0 is the reserved stage 'all'.  Arguments are assumed well-typed and chemically
   feasible (those are other properties); what is modelled is the discipline. *)
Require Import Base.

Record rstate := {
  locked : bool;
  cur : nat;                         (* current stage, 0 = 'all' (no stage open) *)
  stage_start : nat;
  stages : list (nat * (nat * nat)); (* ended stages: name -> [start, stop) in step indices *)
  declared : list nat;               (* keys of Recipe.results, in order *)
  used : list nat;                   (* Recipe.used *)
  steps : list (list nat)            (* per step: the declared names it touches *)
}.
Definition init : rstate :=
  {| locked := false; cur := 0; stage_start := 0; stages := []; declared := []; used := []; steps := [] |}.

Inductive call :=
| CUses (names : list nat)
| CCreateContainer (name : nat)
| CCreateSolution (name : nat) (solvent : option nat)    (* Some n: the solvent is the declared container n *)
| CCreateSolutionFrom (src name : nat)
| CTransfer (src dst : nat)
| CRemove (dst : nat) | CDilute (dst : nat) | CFillTo (dst : nat)
| CStartStage (n : nat) | CEndStage (n : nat)
| CBake.
Inductive outcome := Accepted | Raise (e : err).

Definition mem (x : nat) (l : list nat) : bool := existsb (Nat.eqb x) l.
Definition add_set (x : nat) (l : list nat) : list nat := if mem x l then l else l ++ [x].
Definition add_step (s : rstate) (names : list nat) : rstate :=
  {| locked := locked s; cur := cur s; stage_start := stage_start s; stages := stages s; declared := declared s;
     used := used s; steps := steps s ++ [names] |}.
Definition set_declared (s : rstate) (d : list nat) : rstate :=
  {| locked := locked s; cur := cur s; stage_start := stage_start s; stages := stages s; declared := d;
     used := used s; steps := steps s |}.

(* Recipe.uses with several arguments: they are declared one by one; a duplicate raises ValueError, earlier arguments stay declared *)
Fixpoint uses_loop (d : list nat) (names : list nat) : list nat * outcome :=
  match names with
  | [] => (d, Accepted)
  | n :: t => if mem n d then (d, Raise EValue) else uses_loop (d ++ [n]) t
  end.
Definition do_uses (s : rstate) (names : list nat) : rstate * outcome :=
  if locked s then (s, Raise ERuntime)
  else let (d, o) := uses_loop (declared s) names in (set_declared s d, o).

Definition end_stage (s : rstate) (n : nat) : rstate * outcome :=
  if locked s then (s, Raise ERuntime)
  else if Nat.eqb n 0 then (s, Raise EValue)
  else if negb (Nat.eqb (cur s) n) then (s, Raise EValue)
  else ({| locked := false; cur := 0; stage_start := stage_start s;
           stages := (n, (stage_start s, length (steps s))) :: filter (fun p => negb (Nat.eqb (fst p) n)) (stages s);
           declared := declared s; used := used s; steps := steps s |}, Accepted).

Definition stage_known (s : rstate) (n : nat) : bool := Nat.eqb n 0 || mem n (map fst (stages s)).

Definition set_size (l : list nat) : nat := length (nodup Nat.eq_dec l).

Definition step_api (s : rstate) (c : call) : rstate * outcome :=
  match c with
  | CUses names => do_uses s names
  | CCreateContainer name =>
      if locked s then (s, Raise ERuntime)
      else if mem name (declared s) then (s, Raise EValue)
      else (add_step (set_declared s (declared s ++ [name])) [name], Accepted)
  | CCreateSolution name solvent =>
      if locked s then (s, Raise ERuntime)
      else if (match solvent with Some v => negb (mem v (declared s)) | None => false end) then (s, Raise EValue)
      else if mem name (declared s) then (s, Raise EValue)
      else (add_step (set_declared s (declared s ++ [name])) (name :: match solvent with Some v => [v] | None => [] end), Accepted)
  | CCreateSolutionFrom src name =>
      if locked s then (s, Raise ERuntime)
      else if negb (mem src (declared s)) then (s, Raise EValue)
      else if mem name (declared s) then (s, Raise EValue)
      else (add_step (set_declared s (declared s ++ [name])) [src; name], Accepted)
  | CTransfer src dst =>
      if locked s then (s, Raise ERuntime)
      else if negb (mem src (declared s)) then (s, Raise EValue)
      else if negb (mem dst (declared s)) then (s, Raise EValue)
      else (add_step s [src; dst], Accepted)
  | CRemove dst | CDilute dst | CFillTo dst =>
      if locked s then (s, Raise ERuntime)
      else if negb (mem dst (declared s)) then (s, Raise EValue)
      else (add_step s [dst], Accepted)
  | CStartStage n =>
      if locked s then (s, Raise ERuntime)
      else if stage_known s n then (s, Raise EValue)
      else if negb (Nat.eqb (cur s) 0) then (s, Raise EValue)
      else ({| locked := false; cur := n; stage_start := length (steps s); stages := stages s; declared := declared s;
               used := used s; steps := steps s |}, Accepted)
  | CEndStage n => end_stage s n
  | CBake =>
      if locked s then (s, Raise ERuntime)
      else
        let s1 := if Nat.eqb (cur s) 0 then s else fst (end_stage s (cur s)) in
        let u := fold_left (fun acc names => fold_left (fun a n => add_set n a) names acc) (steps s1) (used s1) in
        let s2 := {| locked := false; cur := cur s1; stage_start := stage_start s1; stages := stages s1;
                     declared := declared s1; used := u; steps := steps s1 |} in
        if negb (Nat.eqb (set_size u) (length (declared s1))) then (s2, Raise EValue)
        else ({| locked := true; cur := cur s1; stage_start := stage_start s1; stages := stages s1;
                 declared := declared s1; used := u; steps := steps s1 |}, Accepted)
  end.

Fixpoint run_calls (s : rstate) (cs : list call) : rstate * list outcome :=
  match cs with
  | [] => (s, [])
  | c :: t => let (s1, o) := step_api s c in let (s2, os) := run_calls s1 t in (s2, o :: os)
  end.

(* the guard table the automaton implements, in the format of gen/LifecycleGen.v *)
From Coq Require Import String.
Require Import GenBase.
Open Scope string_scope.
Definition model_guards : list (string * (bool * string * bool * list stage_guard)) := [
  ("start_stage", (true, "RuntimeError", false, [GStageExists; GStageOpen]));
  ("end_stage", (true, "RuntimeError", false, [GNameIsAll; GStageMismatch]));
  ("uses", (true, "RuntimeError", false, []));
  ("transfer", (true, "RuntimeError", false, []));
  ("create_container", (true, "RuntimeError", false, []));
  ("create_solution", (true, "RuntimeError", false, []));
  ("create_solution_from", (true, "RuntimeError", false, []));
  ("remove", (true, "RuntimeError", false, []));
  ("dilute", (true, "RuntimeError", false, []));
  ("fill_to", (true, "RuntimeError", false, []));
  ("bake", (true, "RuntimeError", false, []))
].
Close Scope string_scope.

(* output for the runner *)
Definition showOutcome (o : outcome) : list Z := match o with Accepted => [1%Z] | Raise e => [0%Z; err_code e] end.
Definition showState (s : rstate) : list Z :=
  [if locked s then 1%Z else 0%Z; Z.of_nat (cur s); Z.of_nat (List.length (steps s)); Z.of_nat (List.length (declared s))] ++
  map Z.of_nat (declared s) ++ [Z.of_nat (List.length (stages s))] ++
  flat_map (fun p => [Z.of_nat (fst p); Z.of_nat (fst (snd p)); Z.of_nat (snd (snd p))]) (stages s).
Fixpoint showCalls (s : rstate) (cs : list call) : list Z :=
  match cs with
  | [] => []
  | c :: t => let (s1, o) := step_api s c in showOutcome o ++ showState s1 ++ showCalls s1 t
  end.
