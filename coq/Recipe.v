(* Recipe.v -- executable model of pyplate.Recipe: deferred steps over named objects, bake (a fold over the steps
   through the name -> object table, recording per-step snapshots exactly as RecipeStep does), the eager
   specification, and the three tracking queries over the snapshots.  Definitions only. *)
Require Import Base Units Contents Container Dilute Solve Plate Prog.

Definition renv := list (nat * obj).           (* Recipe.results: name -> current object, declaration order *)
Fixpoint rget (n : nat) (e : renv) : option obj :=
  match e with [] => None | (k, o) :: t => if Nat.eqb k n then Some o else rget n t end.
Fixpoint rset (n : nat) (o : obj) (e : renv) : renv :=
  match e with
  | [] => [(n, o)]
  | (k, x) :: t => if Nat.eqb k n then (k, o) :: t else (k, x) :: rset n o t
  end.

Inductive rref := RC (name : nat) | RP (name : nat) (r : region).
Definition rname (r : rref) : nat := match r with RC n => n | RP n _ => n end.

Inductive rstep :=
| SCreate (name : nat) (mx : option qty) (init : list (substance * qty))
| SSolution (name : nat) (solutes : list substance) (solvent : substance) (m : sol_mode)
| SSolutionC (name : nat) (solutes : list substance) (solvent : nat) (m : sol_mode)
| SSolutionFrom (src name : nat) (solute : substance) (c : conc) (solvent : substance) (q : qty)
| STransfer (src dst : rref) (q : qty)
| SRemove (t : rref) (w : what)
| SDilute (name : nat) (solute : substance) (c : conc) (solvent : substance)
| SFill (t : rref) (solvent : substance) (q : qty).

(* names a step declares when it is added (an empty placeholder container) *)
Definition step_declares (s : rstep) : option nat :=
  match s with
  | SCreate n _ _ | SSolution n _ _ _ | SSolutionC n _ _ _ | SSolutionFrom _ n _ _ _ _ => Some n
  | _ => None
  end.
Definition placeholder (n : nat) : obj := OC {| cname := n; cont := []; vol := 0; maxv := None |}.

(* RecipeStep after bake *)
Record snap := {
  s_objs : list nat;                       (* objects_used *)
  s_to : nat; s_to0 : obj; s_to1 : obj;    (* destination name, before, after *)
  s_frm : option (nat * obj * obj);        (* source name, before, after *)
  s_trash : contents;
  s_subs : list substance                  (* substances_used *)
}.

Definition keys_of (o : obj) : list substance :=
  match o with OC c => keys (cont c) | OP p => flat_map (fun w => keys (cont w)) (wells p) end.
Definition region_keys (p : plate) (r : region) : list substance :=
  flat_map (fun i => match nth_error (wells p) i with Some w => keys (cont w) | None => [] end) (region_idx (ncols p) r).
Definition whole (p : plate) : region := RRect (seq 0 (nrows p)) (seq 0 (ncols p)).
Definition is_whole (p : plate) (r : region) : bool :=
  match r with
  | RRect rs cs => (if list_eq_dec Nat.eq_dec rs (seq 0 (nrows p)) then true else false) &&
                   (if list_eq_dec Nat.eq_dec cs (seq 0 (ncols p)) then true else false)
  | RList _ => false
  end.

Definition getc (e : renv) (n : nat) : result container := match rget n e with Some (OC c) => Ok c | _ => Err EOther end.
Definition getp (e : renv) (n : nat) : result plate := match rget n e with Some (OP p) => Ok p | _ => Err EOther end.
Definition geto (e : renv) (n : nat) : result obj := match rget n e with Some o => Ok o | None => Err EOther end.

(* what was removed from each container / well: everything present before and absent after *)
Definition trash_of (before after : list container) : contents :=
  fold_left (fun t p => fold_left (fun t' sa => if has (fst sa) (cont (snd p)) then t' else upd (fst sa) (get (fst sa) t' + snd sa) t')
                                  (cont (fst p)) t)
            (combine before after) [].
Definition conts_of (o : obj) : list container := match o with OC c => [c] | OP p => wells p end.

(* one step of bake: new table and the snapshot.  [d13] = the implementation's treatment of fill_to on a slice
   (the whole plate is filled, step.to[0] being the plate); the eager specification is the same function with d13 = false *)
Definition bake_step (cf : cfg) (d13 : bool) (e : renv) (s : rstep) : result (renv * snap) :=
  match s with
  | SCreate n mx init =>
      do o0 <- geto e n; do c <- make_container cf n mx init;
      Ok (rset n (OC c) e, {| s_objs := [n]; s_to := n; s_to0 := o0; s_to1 := OC c; s_frm := None; s_trash := []; s_subs := keys (cont c) |})
  | SSolution n solutes solvent m =>
      do o0 <- geto e n; do c <- create_solution cf n solutes solvent m;
      Ok (rset n (OC c) e, {| s_objs := [n]; s_to := n; s_to0 := o0; s_to1 := OC c; s_frm := None; s_trash := []; s_subs := keys (cont c) |})
  | SSolutionC n solutes v m =>
      if Nat.eqb n v then Err EOther else      (* a second object named like the solvent is refused at declaration (C16) *)
      do o0 <- geto e n; do k <- getc e v; do r <- create_solution_c cf n solutes k m;
      Ok (rset n (OC (snd r)) (rset v (OC (fst r)) e),
          {| s_objs := [n; v]; s_to := n; s_to0 := o0; s_to1 := OC (snd r); s_frm := Some (v, OC k, OC (fst r)); s_trash := [];
             s_subs := keys (cont (snd r)) |})
  | SSolutionFrom src n solute c solvent q =>
      if Nat.eqb src n then Err EOther else    (* likewise *)
      do o0 <- geto e n; do k <- getc e src; do r <- create_solution_from cf k solute c solvent q n;
      Ok (rset n (OC (snd r)) (rset src (OC (fst r)) e),
          {| s_objs := [src; n]; s_to := n; s_to0 := o0; s_to1 := OC (snd r); s_frm := Some (src, OC k, OC (fst r)); s_trash := [];
             s_subs := keys (cont (snd r)) |})
  | STransfer (RC a) (RC b) q =>
      if Nat.eqb a b then Err EValue else
      do ca <- getc e a; do cb <- getc e b; do r <- transfer cf ca cb q;
      Ok (rset b (OC (snd r)) (rset a (OC (fst r)) e),
          {| s_objs := [a; b]; s_to := b; s_to0 := OC cb; s_to1 := OC (snd r); s_frm := Some (a, OC ca, OC (fst r)); s_trash := [];
             s_subs := keys (cont ca) |})
  | STransfer (RC a) (RP b rb) q =>
      do ca <- getc e a; do pb <- getp e b; do r <- c_to_p cf ca pb rb q;
      Ok (rset b (OP (snd r)) (rset a (OC (fst r)) e),
          {| s_objs := [a; b]; s_to := b; s_to0 := OP pb; s_to1 := OP (snd r); s_frm := Some (a, OC ca, OC (fst r)); s_trash := [];
             s_subs := keys (cont ca) |})
  | STransfer (RP a ra) (RC b) q =>
      do pa <- getp e a; do cb <- getc e b; do r <- p_to_c cf pa ra cb q;
      Ok (rset b (OC (snd r)) (rset a (OP (fst r)) e),
          {| s_objs := [a; b]; s_to := b; s_to0 := OC cb; s_to1 := OC (snd r); s_frm := Some (a, OP pa, OP (fst r)); s_trash := [];
             s_subs := region_keys pa ra |})
  | STransfer (RP a ra) (RP b rb) q =>
      if Nat.eqb a b then
        do p <- getp e a; do p' <- p_to_p_same cf p ra rb q;
        Ok (rset a (OP p') e,
            {| s_objs := [a]; s_to := a; s_to0 := OP p; s_to1 := OP p'; s_frm := Some (a, OP p, OP p'); s_trash := [];
               s_subs := region_keys p ra |})
      else
        do pa <- getp e a; do pb <- getp e b; do r <- p_to_p cf pa ra pb rb q;
        Ok (rset b (OP (snd r)) (rset a (OP (fst r)) e),
            {| s_objs := [a; b]; s_to := b; s_to0 := OP pb; s_to1 := OP (snd r); s_frm := Some (a, OP pa, OP (fst r)); s_trash := [];
               s_subs := region_keys pa ra |})
  | SRemove (RC n) w =>
      do c <- getc e n; let c' := remove cf c w in
      let t := trash_of [c] [c'] in
      Ok (rset n (OC c') e, {| s_objs := [n]; s_to := n; s_to0 := OC c; s_to1 := OC c'; s_frm := None; s_trash := t; s_subs := keys t |})
  | SRemove (RP n r) w =>
      do p <- getp e n; do p' <- premove cf p r w;
      let t := trash_of (wells p) (wells p') in
      Ok (rset n (OP p') e, {| s_objs := [n]; s_to := n; s_to0 := OP p; s_to1 := OP p'; s_frm := None; s_trash := t; s_subs := keys t |})
  | SDilute n solute c solvent =>
      do k <- getc e n; do k' <- dilute cf k solute c solvent;
      Ok (rset n (OC k') e, {| s_objs := [n]; s_to := n; s_to0 := OC k; s_to1 := OC k'; s_frm := None; s_trash := []; s_subs := [solvent] |})
  | SFill (RC n) solvent q =>
      do c <- getc e n; do c' <- fill_to cf c solvent q;
      Ok (rset n (OC c') e, {| s_objs := [n]; s_to := n; s_to0 := OC c; s_to1 := OC c'; s_frm := None; s_trash := []; s_subs := [solvent] |})
  | SFill (RP n r) solvent q =>
      do p <- getp e n;
      do p' <- (if d13 then pfill_to cf p (whole p) solvent q else pfill_to cf p r solvent q);
      Ok (rset n (OP p') e, {| s_objs := [n]; s_to := n; s_to0 := OP p; s_to1 := OP p'; s_frm := None; s_trash := []; s_subs := [solvent] |})
  end.

(* bake: fold; the first failing step aborts with its error *)
Fixpoint bake_steps (cf : cfg) (d13 : bool) (e : renv) (steps : list rstep) : result (renv * list snap) :=
  match steps with
  | [] => Ok (e, [])
  | s :: t => do r <- bake_step cf d13 e s; do r' <- bake_steps cf d13 (fst r) t; Ok (fst r', snd r :: snd r')
  end.
Definition declare_steps (e : renv) (steps : list rstep) : renv :=
  fold_left (fun e' s => match step_declares s with Some n => e' ++ [(n, placeholder n)] | None => e' end) steps e.

Definition bake (cf : cfg) (objs : renv) (steps : list rstep) : result (renv * list snap) :=
  bake_steps cf true (declare_steps objs steps) steps.
Definition eager (cf : cfg) (objs : renv) (steps : list rstep) : result (renv * list snap) :=
  bake_steps cf false (declare_steps objs steps) steps.

(* ---------------- tracking queries over the snapshots ---------------- *)
Definition amount_in_obj (s : substance) (o : obj) : Q := Qsum (map (fun c => get s (cont c)) (conts_of o)).
Definition in_list (n : nat) (l : list nat) : bool := existsb (Nat.eqb n) l.
Definition has_subst (s : substance) (l : list substance) : bool := existsb (seqb s) l.
Definition slice_of {A} (l : list A) (st : nat * nat) : list A := firstn (snd st - fst st) (skipn (fst st) l).

(* Recipe.get_substance_used: raw delta in storage units, over the steps of the timeframe *)
Definition step_delta (s : substance) (dests : list nat) (k : snap) : Q :=
  if negb (has_subst s (s_subs k)) then 0 else
  (if in_list (s_to k) dests then amount_in_obj s (s_to1 k) - amount_in_obj s (s_to0 k) else 0) +
  (match s_frm k with
   | Some (n, o0, o1) => if in_list n dests then amount_in_obj s o1 - amount_in_obj s o0 else 0
   | None => 0
   end) + get s (s_trash k).
Definition used_raw (s : substance) (dests : list nat) (tr : list snap) : Q := Qsum (map (step_delta s dests) tr).
Definition substance_used (cf : cfg) (s : substance) (dests : list nat) (tr : list snap) (u : unit_) : result Q :=
  let d := used_raw s dests tr in
  if Qltb d 0 then Err EValue else Ok (conv_stored cf s d u).

(* totals of an object in a unit: one number for a container, one per well for a plate *)
Definition totals (cf : cfg) (u : unit_) (o : obj) : list Q := map (fun c => total_in cf (cont c) u) (conts_of o).
Definition Qpos (x : Q) : Q := if Qltb x 0 then 0 else x.
Definition vsub (a b : list Q) : list Q := map (fun p => fst p - snd p) (combine a b).
Definition vadd (a b : list Q) : list Q := map (fun p => fst p + snd p) (combine a b).

(* Recipe.get_container_flows *)
Definition step_change (cf : cfg) (u : unit_) (n : nat) (k : snap) : option (list Q) :=
  if negb (in_list n (s_objs k)) then None
  else if Nat.eqb (s_to k) n then Some (vsub (totals cf u (s_to1 k)) (totals cf u (s_to0 k)))
  else match s_frm k with
       | Some (m, o0, o1) => if Nat.eqb m n then Some (vsub (totals cf u o1) (totals cf u o0)) else None
       | None => None
       end.
Definition flows (cf : cfg) (u : unit_) (n : nat) (width : nat) (tr : list snap) : list Q * list Q :=
  fold_left (fun acc k => match step_change cf u n k with
                          | Some ch => (vadd (fst acc) (map Qpos ch), vadd (snd acc) (map (fun x => Qpos (- x)) ch))
                          | None => acc
                          end) tr (repeat 0 width, repeat 0 width).

(* Recipe.get_amount_remaining: the first (mode before) or last (mode after) step of the timeframe touching the object *)
Definition snap_state (cf : cfg) (u : unit_) (n : nat) (after : bool) (k : snap) : option (list Q) :=
  if negb (in_list n (s_objs k)) then None
  else if Nat.eqb (s_to k) n then Some (totals cf u (if after then s_to1 k else s_to0 k))
  else match s_frm k with
       | Some (m, o0, o1) => Some (totals cf u (if after then o1 else o0))
       | None => Some []
       end.
Fixpoint first_some {A B} (f : A -> option B) (l : list A) : option B :=
  match l with [] => None | x :: t => match f x with Some y => Some y | None => first_some f t end end.
Definition remaining (cf : cfg) (u : unit_) (n : nat) (after : bool) (tr : list snap) : option (list Q) :=
  first_some (snap_state cf u n after) (if after then rev tr else tr).

(* ---------------- output for the runner ---------------- *)
Definition showEnv (e : renv) : list Z := Z.of_nat (length e) :: flat_map (fun p => Z.of_nat (fst p) :: showObj (snd p)) e.
Definition showQs (l : list Q) : list Z := Z.of_nat (length l) :: flat_map showQ l.
Inductive query :=
| QUsed (s : substance) (stage : nat * nat) (dests : list nat) (u : unit_)
| QFlows (n : nat) (width : nat) (stage : nat * nat) (u : unit_)
| QRemaining (n : nat) (after : bool) (stage : nat * nat) (u : unit_).
Definition showQuery (cf : cfg) (tr : list snap) (q : query) : list Z :=
  match q with
  | QUsed s st dests u => match substance_used cf s dests (slice_of tr st) u with
                          | Ok x => 1%Z :: showQ x | Err er => [0%Z; err_code er] end
  | QFlows n w st u => let f := flows cf u n w (slice_of tr st) in 1%Z :: showQs (fst f) ++ showQs (snd f)
  | QRemaining n a st u => match remaining cf u n a (slice_of tr st) with Some l => 1%Z :: showQs l | None => [2%Z] end
  end.
Definition showRecipe (cf : cfg) (d13 : bool) (objs : renv) (steps : list rstep) (qs : list query) : list Z :=
  match bake_steps cf d13 (declare_steps objs steps) steps with
  | Err er => [0%Z; err_code er]
  | Ok (e, tr) => 1%Z :: showEnv e ++ flat_map (showQuery cf tr) qs
  end.
(* building the initial objects with the DSL of Prog.v: variables become names *)
Definition objs_of (cf : cfg) (ops : list op) : renv :=
  fold_left (fun e r => match r with Ok l => fold_left (fun e' p => rset (fst p) (snd p) e') l e | Err _ => e end) (run cf [] ops) [].
