(* ConfigThm.v -- answers in user units do not depend on the storage configuration (C18): a simulation between the runs of
   the container operations under any two configurations, and agreement of every observer on related states. *)
Require Import Base Units UnitsThm Contents Container ContainerThm ContainerThm2 Plate.

Section TwoConfigs.
Variables cf cf' : cfg.
Let pv := pmult (vol_pfx cf).
Let pv' := pmult (vol_pfx cf').
Lemma pv_pos : 0 < pv. Proof. apply pmult_pos. Qed.
Lemma pv'_pos : 0 < pv'. Proof. apply pmult_pos. Qed.

(* what one stored unit of substance s is worth physically: moles per storage unit (1 for activity units) *)
Definition msc (c : cfg) (s : substance) : Q := if is_enzyme s then 1 else pmult (mol_pfx c).
Lemma msc_pos c s : 0 < msc c s.
Proof. unfold msc. destruct (is_enzyme s); [reflexivity | apply pmult_pos]. Qed.

(* comparisons are invariant under positive rescaling of both sides *)
Lemma scaled_lt a b a' b' p p' : 0 < p -> 0 < p' -> a * p == a' * p' -> b * p == b' * p' -> (a < b <-> a' < b').
Proof. intros Hp Hp' Ha Hb. split; intros H; nra. Qed.
Lemma scaled_Qltb a b a' b' p p' : 0 < p -> 0 < p' -> a * p == a' * p' -> b * p == b' * p' -> Qltb a b = Qltb a' b'.
Proof.
  intros Hp Hp' Ha Hb. pose proof (scaled_lt a b a' b' p p' Hp Hp' Ha Hb) as Hiff.
  destruct (Qltb a b) eqn:E1; destruct (Qltb a' b') eqn:E2; try reflexivity.
  - apply Qltb_lt in E1. apply Qltb_ge in E2. apply Hiff in E1. lra.
  - apply Qltb_ge in E1. apply Qltb_lt in E2. apply Hiff in E2. lra.
Qed.
Lemma scaled_Qeqb0 a a' p p' : 0 < p -> 0 < p' -> a * p == a' * p' -> Qeqb a 0 = Qeqb a' 0.
Proof.
  intros Hp Hp' Ha. destruct (Qeqb a 0) eqn:E1; destruct (Qeqb a' 0) eqn:E2; try reflexivity.
  - apply Qeqb_eq in E1. apply Qeqb_neq in E2. exfalso. apply E2. rewrite E1 in Ha. nra.
  - apply Qeqb_neq in E1. apply Qeqb_eq in E2. exfalso. apply E1. rewrite E2 in Ha. nra.
Qed.
Lemma Qltb_proper a b a' b' : a == a' -> b == b' -> Qltb a b = Qltb a' b'.
Proof. intros Ha Hb. apply (scaled_Qltb a b a' b' 1 1); try reflexivity; lra. Qed.
Lemma Qeqb0_proper a a' : a == a' -> Qeqb a 0 = Qeqb a' 0.
Proof. intros Ha. apply (scaled_Qeqb0 a a' 1 1); try reflexivity; lra. Qed.

(* ---------- related contents ---------- *)
Definition Rc (x y : contents) : Prop :=
  Forall2 (fun p p' => fst p = fst p' /\ snd p * msc cf (fst p) == snd p' * msc cf' (fst p)) x y.
Lemma Rc_get x y : Rc x y -> forall k, get k x * msc cf k == get k y * msc cf' k.
Proof.
  induction 1 as [|[s a] [s' a'] x y [Hs Ha] _ IH]; intros k; simpl in *; [ring|]. subst s'.
  destruct (seqb s k) eqn:E; [apply seqb_eq in E; subst; exact Ha | apply IH].
Qed.
Lemma Rc_keys x y : Rc x y -> keys x = keys y.
Proof. induction 1 as [|[s a] [s' a'] x y [Hs Ha] _ IH]; simpl in *; [reflexivity | subst; f_equal; exact IH]. Qed.
Lemma Rc_upd x y s v v' : Rc x y -> v * msc cf s == v' * msc cf' s -> Rc (upd s v x) (upd s v' y).
Proof.
  induction 1 as [|[k a] [k' a'] x y [Hk Ha] Hxy IH]; intros Hv; simpl in *.
  - constructor; [split; [reflexivity | exact Hv] | constructor].
  - subst k'. destruct (seqb k s) eqn:E.
    + apply seqb_eq in E. subst. constructor; [split; [reflexivity | exact Hv] | exact Hxy].
    + constructor; [split; [reflexivity | exact Ha] | apply IH; exact Hv].
Qed.
Lemma Rc_take x y r r' : r == r' -> Rc x y -> Rc (take_from r x) (take_from r' y).
Proof.
  intros Hr. induction 1 as [|[k a] [k' a'] x y [Hk Ha] _ IH]; simpl in *; [constructor|]. subst k'.
  constructor; [|exact IH]. simpl. split; [reflexivity|]. rewrite !rnd_eq, Hr.
  setoid_replace ((a - a * r') * msc cf k) with (a * msc cf k * (1 - r')) by ring. rewrite Ha. ring.
Qed.
Lemma Rc_move r r' : r == r' -> forall sx sy, Rc sx sy -> forall dx dy, Rc dx dy -> Rc (move_into r sx dx) (move_into r' sy dy).
Proof.
  intros Hr. induction 1 as [|[k a] [k' a'] sx sy [Hk Ha] _ IH]; intros dx dy Hd; [exact Hd|]. simpl in Hk, Ha. subst k'.
  rewrite !move_into_cons. apply IH. apply Rc_upd; [exact Hd|]. rewrite !rnd_eq, Hr.
  pose proof (Rc_get _ _ Hd k) as Hg.
  setoid_replace ((get k dx + a * r') * msc cf k) with (get k dx * msc cf k + a * msc cf k * r') by ring. rewrite Hg, Ha. ring.
Qed.
Lemma Rc_filter (P : substance -> bool) x y : Rc x y -> Rc (filter (fun p => P (fst p)) x) (filter (fun p => P (fst p)) y).
Proof.
  induction 1 as [|[k a] [k' a'] x y [Hk Ha] _ IH]; simpl in *; [constructor|]. subst k'.
  destruct (P k); [constructor; [split; [reflexivity | exact Ha] | exact IH] | exact IH].
Qed.

(* ---------- observers agree on related contents ---------- *)
Lemma conv_stored_R s a a' u : a * msc cf s == a' * msc cf' s -> conv_stored cf s a u == conv_stored cf' s a' u.
Proof.
  intros H. destruct u as [p b]. rewrite !conv_stored_coef. unfold coef, msc in *. destruct (is_enzyme s).
  - assert (E : a == a') by lra. rewrite E. reflexivity.
  - set (K := match b with BU => 0 | BL => mw s / dens s / 1000 | BMol => 1 | BG => mw s end).
    setoid_replace (a * (pmult (mol_pfx cf) * K)) with (a * pmult (mol_pfx cf) * K) by ring.
    setoid_replace (a' * (pmult (mol_pfx cf') * K)) with (a' * pmult (mol_pfx cf') * K) by ring.
    rewrite H. reflexivity.
Qed.
Theorem total_in_R x y u : Rc x y -> total_in cf x u == total_in cf' y u.
Proof.
  unfold total_in. induction 1 as [|[k a] [k' a'] x y [Hk Ha] _ IH]; simpl in *; [reflexivity|]. subst k'.
  rewrite !sum_by_cons, IH. rewrite (conv_stored_R k a a' u Ha). reflexivity.
Qed.
Lemma volume_of_R x y : Rc x y -> volume_of cf x * pv == volume_of cf' y * pv'.
Proof.
  intros H. unfold volume_of, vol_unit. rewrite (total_in_prefix cf x (vol_pfx cf) BL), (total_in_prefix cf' y (vol_pfx cf') BL).
  rewrite (total_in_R x y (P0, BL) H). unfold pv, pv'. field. split; apply pmult_nz.
Qed.
Lemma total_mol_R x y : Rc x y -> total_mol x * pmult (mol_pfx cf) == total_mol y * pmult (mol_pfx cf').
Proof.
  unfold total_mol. induction 1 as [|[k a] [k' a'] x y [Hk Ha] _ IH]; simpl in *; [unfold sum_by; simpl; ring|]. subst k'.
  rewrite !sum_by_cons. unfold msc in Ha. destruct (is_enzyme k); nra.
Qed.
Lemma total_act_R x y : Rc x y -> total_act x == total_act y.
Proof.
  unfold total_act. induction 1 as [|[k a] [k' a'] x y [Hk Ha] _ IH]; simpl in *; [reflexivity|]. subst k'.
  rewrite !sum_by_cons. unfold msc in Ha. destruct (is_enzyme k); lra.
Qed.

(* ---------- related containers ---------- *)
Definition Rmax (m m' : option Q) : Prop :=
  match m, m' with None, None => True | Some a, Some a' => a * pv == a' * pv' | _, _ => False end.
Record R (c c' : container) : Prop := {
  R_name : cname c = cname c';
  R_cont : Rc (cont c) (cont c');
  R_vol : vol c * pv == vol c' * pv';
  R_max : Rmax (maxv c) (maxv c')
}.
Definition Rres {A} (rel : A -> A -> Prop) (r r' : result A) : Prop :=
  match r, r' with Ok a, Ok a' => rel a a' | Err e, Err e' => e = e' | _, _ => False end.

Lemma over_R v v' m m' : v * pv == v' * pv' -> Rmax m m' -> over v m = over v' m'.
Proof.
  intros Hv Hm. destruct m as [a|], m' as [a'|]; simpl in *; try contradiction; [|reflexivity].
  unfold Qgtb. apply (scaled_Qltb a v a' v' pv pv' pv_pos pv'_pos Hm Hv).
Qed.

(* the same quantity converted for storage under the two configurations *)
Lemma conv_to_storage_R s x b :
  match conv s x (P0, b) (vol_unit cf), conv s x (P0, b) (vol_unit cf'), conv s x (P0, b) (stored_unit cf s), conv s x (P0, b) (stored_unit cf' s) with
  | Some v, Some v', Some a, Some a' => v * pv == v' * pv' /\ a * msc cf s == a' * msc cf' s
  | None, None, None, None => True
  | _, _, _, _ => False
  end.
Proof.
  unfold conv, vol_unit, stored_unit, mol_unit, msc, pv, pv'. simpl.
  pose proof (pmult_nz (vol_pfx cf)). pose proof (pmult_nz (vol_pfx cf')). pose proof (pmult_nz (mol_pfx cf)). pose proof (pmult_nz (mol_pfx cf')).
  unfold conv_base. destruct (base_eqb b BU && negb (is_enzyme s)) eqn:G.
  - destruct (is_enzyme s); simpl; rewrite ?G; exact I.
  - destruct (is_enzyme s) eqn:E; simpl; rewrite ?G.
    + match goal with |- (?X / _ * _ == ?X / _ * _) /\ _ => generalize X; intros XL end. split; [field; auto | reflexivity].
    + match goal with |- (?X / _ * _ == ?X / _ * _) /\ (?Y / _ * _ == ?Y / _ * _) => generalize X; intros XL; generalize Y; intros YA end.
      split; field; auto.
Qed.

Theorem self_add_R c c' s q : R c c' -> Rres R (self_add cf c s q) (self_add cf' c' s q).
Proof.
  intros [Hn Hc Hv Hm]. unfold self_add. pose proof (conv_to_storage_R s (qv q) (qbase q)) as Hconv.
  destruct (conv s (qv q) (P0, qbase q) (vol_unit cf)) as [vta|]; destruct (conv s (qv q) (P0, qbase q) (vol_unit cf')) as [vta'|];
  destruct (conv s (qv q) (P0, qbase q) (stored_unit cf s)) as [ata|]; destruct (conv s (qv q) (P0, qbase q) (stored_unit cf' s)) as [ata'|];
    try contradiction; try (simpl; reflexivity).
  destruct Hconv as [Hvt Hat].
  assert (E1 : Qltb (rnd ata) 0 = Qltb (rnd ata') 0).
  { apply (scaled_Qltb _ _ _ _ (msc cf s) (msc cf' s) (msc_pos cf s) (msc_pos cf' s)); [rewrite !rnd_eq; exact Hat | ring]. }
  assert (E2 : Qltb (rnd vta) 0 = Qltb (rnd vta') 0).
  { apply (scaled_Qltb _ _ _ _ pv pv' pv_pos pv'_pos); [rewrite !rnd_eq; exact Hvt | ring]. }
  rewrite E1, E2. destruct (Qltb (rnd ata') 0 || Qltb (rnd vta') 0); [simpl; reflexivity|].
  assert (Hnv : rnd (vol c + vta) * pv == rnd (vol c' + vta') * pv') by (rewrite !rnd_eq; nra).
  rewrite (over_R _ _ _ _ Hnv Hm). destruct (over _ (maxv c')); [simpl; reflexivity|].
  simpl. constructor; simpl; auto.
  apply Rc_upd; [exact Hc|]. rewrite !rnd_eq. pose proof (Rc_get _ _ Hc s). nra.
Qed.

Lemma ratio_of_R req tot req' tot' p p' : 0 < p -> 0 < p' -> req * p == req' * p' -> tot * p == tot' * p' ->
  Rres Qeq (ratio_of req tot) (ratio_of req' tot').
Proof.
  intros Hp Hp' Hr Ht. unfold ratio_of. rewrite (scaled_Qeqb0 tot tot' p p' Hp Hp' Ht).
  destruct (Qeqb tot' 0) eqn:E.
  - assert (E2 : Qeqb (rnd req) 0 = Qeqb (rnd req') 0) by (apply (scaled_Qeqb0 _ _ p p' Hp Hp'); rewrite !rnd_eq; exact Hr).
    rewrite E2. destruct (Qeqb (rnd req') 0); simpl; reflexivity.
  - simpl. apply Qeqb_neq in E.
    assert (Ht0 : ~ tot == 0). { intro Hz. apply E. rewrite Hz in Ht. nra. }
    assert (Hc : req * tot' == req' * tot).
    { assert (Hx : req * p * (tot' * p') == req' * p' * (tot * p)) by (rewrite Hr, Ht; ring).
      assert (Hpp : ~ p * p' == 0) by (assert (0 < p * p') by (apply Qmult_lt_0_compat; assumption); lra).
      apply (Qmult_inj_r _ _ (p * p') Hpp).
      setoid_replace (req * tot' * (p * p')) with (req * p * (tot' * p')) by ring.
      setoid_replace (req' * tot * (p * p')) with (req' * p' * (tot * p)) by ring. exact Hx. }
    setoid_replace (req / tot) with (req * tot' / (tot * tot')) by (field; split; auto).
    setoid_replace (req' / tot') with (req' * tot / (tot * tot')) by (field; split; auto).
    rewrite Hc. reflexivity.
Qed.

(* conversions respect == in the amount *)
Lemma conv_proper s x x' fu tu : x == x' -> optQeq (conv s x fu tu) (conv s x' fu tu).
Proof.
  intros Hx. destruct fu as [p1 b1], tu as [p2 b2]. unfold conv, conv_base; simpl.
  destruct (base_eqb b1 BU && negb (is_enzyme s)); simpl; [exact I|].
  destruct b2, b1; simpl; destruct (is_enzyme s); simpl; try reflexivity; rewrite Hx; reflexivity.
Qed.

(* self_add with quantities that denote the same amount (needed for fill_to, whose request is computed) *)
Theorem self_add_R_gen c c' s q q' : R c c' -> qbase q = qbase q' -> qv q == qv q' ->
  Rres R (self_add cf c s q) (self_add cf' c' s q').
Proof.
  intros HR Hb Hq. pose proof (self_add_R c c' s q HR) as H1. unfold Rres in *.
  (* under cf' the two requests give results that agree up to == ; rather than a second relation we redo the argument *)
  destruct HR as [Hn Hc Hv Hm]. unfold self_add in *. rewrite <- Hb.
  pose proof (conv_to_storage_R s (qv q) (qbase q)) as Hconv.
  pose proof (conv_proper s (qv q) (qv q') (P0, qbase q) (vol_unit cf') Hq) as P1.
  pose proof (conv_proper s (qv q) (qv q') (P0, qbase q) (stored_unit cf' s) Hq) as P2.
  destruct (conv s (qv q) (P0, qbase q) (vol_unit cf)) as [vta|]; destruct (conv s (qv q) (P0, qbase q) (vol_unit cf')) as [vta0|];
  destruct (conv s (qv q) (P0, qbase q) (stored_unit cf s)) as [ata|]; destruct (conv s (qv q) (P0, qbase q) (stored_unit cf' s)) as [ata0|];
    try contradiction;
  destruct (conv s (qv q') (P0, qbase q) (vol_unit cf')) as [vta'|]; destruct (conv s (qv q') (P0, qbase q) (stored_unit cf' s)) as [ata'|];
    simpl in P1, P2; try contradiction; try reflexivity.
  destruct Hconv as [Hvt0 Hat0]. clear H1.
  assert (Hvt : vta * pv == vta' * pv') by (apply (Qeq_trans _ (vta0 * pv')); [exact Hvt0 | apply Qmult_comp; [exact P1 | reflexivity]]).
  assert (Hat : ata * msc cf s == ata' * msc cf' s) by (apply (Qeq_trans _ (ata0 * msc cf' s)); [exact Hat0 | apply Qmult_comp; [exact P2 | reflexivity]]).
  assert (E1 : Qltb (rnd ata) 0 = Qltb (rnd ata') 0).
  { apply (scaled_Qltb _ _ _ _ (msc cf s) (msc cf' s) (msc_pos cf s) (msc_pos cf' s)); [rewrite !rnd_eq; exact Hat | ring]. }
  assert (E2 : Qltb (rnd vta) 0 = Qltb (rnd vta') 0).
  { apply (scaled_Qltb _ _ _ _ pv pv' pv_pos pv'_pos); [rewrite !rnd_eq; exact Hvt | ring]. }
  rewrite E1, E2. destruct (Qltb (rnd ata') 0 || Qltb (rnd vta') 0); [reflexivity|].
  assert (Hnv : rnd (vol c + vta) * pv == rnd (vol c' + vta') * pv') by (rewrite !rnd_eq; nra).
  rewrite (over_R _ _ _ _ Hnv Hm). destruct (over _ (maxv c')); [reflexivity|].
  constructor; simpl; auto.
  apply Rc_upd; [exact Hc|]. rewrite !rnd_eq. pose proof (Rc_get _ _ Hc s). nra.
Qed.

Lemma transfer_ratio_R src src' q : R src src' -> Rres Qeq (transfer_ratio cf src q) (transfer_ratio cf' src' q).
Proof.
  intros [Hn Hc Hv Hm]. unfold transfer_ratio. destruct (qbase q).
  - rewrite (Qeqb0_proper _ _ (total_act_R _ _ Hc)). destruct (Qeqb (total_act (cont src')) 0).
    + reflexivity.
    + simpl. rewrite (total_act_R _ _ Hc). reflexivity.
  - assert (Hreq : rnd (to_storage_vol cf (qv q) P0) * pv == rnd (to_storage_vol cf' (qv q) P0) * pv').
    { rewrite !rnd_eq, !to_storage_vol_spec. unfold pv, pv'. field. split; apply pmult_nz. }
    unfold Qgtb. rewrite (scaled_Qltb _ _ _ _ pv pv' pv_pos pv'_pos Hv Hreq).
    destruct (Qltb (vol src') _).
    + reflexivity.
    + apply (ratio_of_R _ _ _ _ pv pv' pv_pos pv'_pos Hreq Hv).
  - apply (ratio_of_R _ _ _ _ 1 1); try reflexivity. rewrite (total_in_R _ _ (P0, BG) Hc). ring.
  - apply (ratio_of_R _ _ _ _ (pmult (mol_pfx cf)) (pmult (mol_pfx cf')) (pmult_pos _) (pmult_pos _)).
    + rewrite !to_storage_mol_spec. field. split; apply pmult_nz.
    + apply total_mol_R. exact Hc.
Qed.

Definition R2 (a b : container * container) : Prop := R (fst a) (fst b) /\ R (snd a) (snd b).
Theorem transfer_R src src' dst dst' q : R src src' -> R dst dst' -> Rres R2 (transfer cf src dst q) (transfer cf' src' dst' q).
Proof.
  intros Hs Hd. unfold transfer, bind. pose proof (transfer_ratio_R src src' q Hs) as Hr.
  destruct (transfer_ratio cf src q) as [r|e]; destruct (transfer_ratio cf' src' q) as [r'|e']; simpl in Hr; try contradiction; [|subst; reflexivity].
  assert (E1 : Qltb (rnd r) 0 = Qltb (rnd r') 0) by (apply Qltb_proper; [rewrite !rnd_eq; exact Hr | reflexivity]).
  assert (E2 : Qgtb (rnd r) 1 = Qgtb (rnd r') 1) by (unfold Qgtb; apply Qltb_proper; [reflexivity | rewrite !rnd_eq; exact Hr]).
  rewrite E1, E2. destruct (Qltb (rnd r') 0); [reflexivity|]. destruct (Qgtb (rnd r') 1); [reflexivity|].
  destruct Hs as [sn sc sv sm]. destruct Hd as [dn dc dv dm].
  pose proof (Rc_move r r' Hr _ _ sc _ _ dc) as Hmove. pose proof (Rc_take _ _ r r' Hr sc) as Htake.
  assert (Hdv : rnd (volume_of cf (move_into r (cont src) (cont dst))) * pv == rnd (volume_of cf' (move_into r' (cont src') (cont dst'))) * pv').
  { rewrite !rnd_eq. apply volume_of_R. exact Hmove. }
  rewrite (over_R _ _ _ _ Hdv dm). destruct (over _ (maxv dst')); [reflexivity|].
  simpl. split; constructor; simpl; auto.
  rewrite !rnd_eq. apply volume_of_R. exact Htake.
Qed.

Theorem remove_R c c' w : R c c' -> R (remove cf c w) (remove cf' c' w).
Proof.
  intros [Hn Hc Hv Hm]. unfold remove. constructor; simpl; auto.
  - apply (Rc_filter (fun k => negb (selected w k))). exact Hc.
  - apply volume_of_R. apply (Rc_filter (fun k => negb (selected w k))). exact Hc.
Qed.

Lemma Qmax0_proper x y : x == y -> Qmax0 x == Qmax0 y.
Proof. intros H. unfold Qmax0. rewrite (Qltb_proper x 0 y 0 H (Qeq_refl 0)). destruct (Qltb y 0); [reflexivity | exact H]. Qed.

Theorem fill_to_R c c' s q : R c c' -> Rres R (fill_to cf c s q) (fill_to cf' c' s q).
Proof.
  intros HR. unfold fill_to. destruct (Qle_bool (qv q) 0); [reflexivity|].
  assert (Hb : forall b, Rres R
      (if Qltb (rnd (qv q - total_in cf (cont c) (P0, b))) 0 then Err EValue
       else self_add cf c s {| qval := Qmax0 (qv q - total_in cf (cont c) (P0, b)); qpfx := P0; qbase := b |})
      (if Qltb (rnd (qv q - total_in cf' (cont c') (P0, b))) 0 then Err EValue
       else self_add cf' c' s {| qval := Qmax0 (qv q - total_in cf' (cont c') (P0, b)); qpfx := P0; qbase := b |})).
  { intros b. pose proof (total_in_R _ _ (P0, b) (R_cont _ _ HR)) as Ht.
    assert (Hreq : qv q - total_in cf (cont c) (P0, b) == qv q - total_in cf' (cont c') (P0, b)) by (rewrite Ht; reflexivity).
    assert (E : Qltb (rnd (qv q - total_in cf (cont c) (P0, b))) 0 = Qltb (rnd (qv q - total_in cf' (cont c') (P0, b))) 0)
      by (apply Qltb_proper; [rewrite !rnd_eq; exact Hreq | reflexivity]).
    rewrite E. destruct (Qltb (rnd (qv q - total_in cf' (cont c') (P0, b))) 0); [reflexivity|].
    apply self_add_R_gen; [exact HR | reflexivity|]. unfold qv. simpl. rewrite (Qmax0_proper _ _ Hreq). reflexivity. }
  destruct (qbase q); [reflexivity | apply Hb | apply Hb | apply Hb].
Qed.

(* ---------- observers in user units agree ---------- *)
Theorem get_volume_R c c' p : R c c' -> get_volume cf c p == get_volume cf' c' p.
Proof.
  intros HR. unfold get_volume. rewrite !from_storage_vol_spec. pose proof (R_vol _ _ HR) as Hv. unfold pv, pv' in Hv.
  unfold Qdiv. rewrite Hv. reflexivity.
Qed.
Theorem get_concentration_R c c' s mult nb db : R c c' ->
  get_concentration cf c s mult nb db == get_concentration cf' c' s mult nb db.
Proof.
  intros HR. unfold get_concentration.
  pose proof (conv_stored_R s _ _ (P0, nb) (Rc_get _ _ (R_cont _ _ HR) s)) as Hnum.
  rewrite (Qeqb0_proper _ _ Hnum). destruct (Qeqb (conv_stored cf' s (get s (cont c')) (P0, nb)) 0); [reflexivity|].
  rewrite !rnd_eq, Hnum. destruct db.
  - rewrite (total_in_R _ _ (P0, BU) (R_cont _ _ HR)). reflexivity.
  - pose proof (get_volume_R c c' P0 HR) as Hv. unfold get_volume in Hv. rewrite Hv. reflexivity.
  - rewrite (total_in_R _ _ (P0, BG) (R_cont _ _ HR)). reflexivity.
  - rewrite (total_in_R _ _ (P0, BMol) (R_cont _ _ HR)). reflexivity.
Qed.
Theorem amounts_in_user_units_R c c' s u : R c c' -> conv_stored cf s (get s (cont c)) u == conv_stored cf' s (get s (cont c')) u.
Proof. intros HR. apply conv_stored_R. apply Rc_get. apply (R_cont _ _ HR). Qed.
Theorem totals_in_user_units_R c c' u : R c c' -> total_in cf (cont c) u == total_in cf' (cont c') u.
Proof. intros HR. apply total_in_R. apply (R_cont _ _ HR). Qed.

(* ---------- construction ---------- *)
Theorem new_container_R name mx : Rres R (new_container cf name mx) (new_container cf' name mx).
Proof.
  unfold new_container. destruct mx as [q|].
  - destruct (Qle_bool (qv q) 0); [reflexivity|]. constructor; simpl; auto; [constructor | ring |].
    rewrite !to_storage_vol_spec. unfold pv, pv'. field. split; apply pmult_nz.
  - constructor; simpl; auto; [constructor | ring].
Qed.
Lemma add_all_R l : forall c c', R c c' -> Rres R (add_all cf c l) (add_all cf' c' l).
Proof.
  induction l as [|[s q] t IH]; intros c c' HR; simpl; [exact HR|].
  pose proof (self_add_R c c' s q HR) as H1. unfold bind.
  destruct (self_add cf c s q) as [c1|]; destruct (self_add cf' c' s q) as [c1'|]; simpl in H1; try contradiction; [apply IH; exact H1 | exact H1].
Qed.
Theorem make_container_R name mx init : Rres R (make_container cf name mx init) (make_container cf' name mx init).
Proof.
  unfold make_container, bind. pose proof (new_container_R name mx) as H0.
  destruct (new_container cf name mx) as [c|]; destruct (new_container cf' name mx) as [c'|]; simpl in H0; try contradiction; [apply add_all_R; exact H0 | exact H0].
Qed.
End TwoConfigs.

(* ---------- scripts over containers ---------- *)
Inductive cop :=
| CNew (name : nat) (mx : option qty) (init : list (substance * qty))
| CTransfer (i j : nat) (q : qty)
| CRemove (i : nat) (w : what)
| CFill (i : nat) (s : substance) (q : qty).
Definition cstep (cf : cfg) (e : list container) (o : cop) : result (list container) :=
  match o with
  | CNew n mx init => do c <- make_container cf n mx init; Ok (e ++ [c])
  | CTransfer i j q => if Nat.eqb i j then Err EValue else
      match nth_error e i, nth_error e j with
      | Some a, Some b => do r <- transfer cf a b q; Ok (set_nth j (snd r) (set_nth i (fst r) e))
      | _, _ => Err EType
      end
  | CRemove i w => match nth_error e i with Some a => Ok (set_nth i (remove cf a w) e) | None => Err EType end
  | CFill i s q => match nth_error e i with Some a => do a' <- fill_to cf a s q; Ok (set_nth i a' e) | None => Err EType end
  end.

Fixpoint crun (cf : cfg) (e : list container) (ops : list cop) : list container * list (option err) :=
  match ops with
  | [] => (e, [])
  | o :: t => match cstep cf e o with
              | Ok e1 => let (f, d) := crun cf e1 t in (f, None :: d)
              | Err er => let (f, d) := crun cf e t in (f, Some er :: d)
              end
  end.

Section Scripts.
Variables cf cf' : cfg.
Lemma Forall2_nth_error {A} (P : A -> A -> Prop) l l' i : Forall2 P l l' ->
  match nth_error l i, nth_error l' i with Some a, Some b => P a b | None, None => True | _, _ => False end.
Proof. intros H. revert i. induction H; intros [|i]; simpl; auto. apply IHForall2. Qed.
Lemma Forall2_set_nth {A} (P : A -> A -> Prop) l l' i a b : Forall2 P l l' -> P a b -> Forall2 P (set_nth i a l) (set_nth i b l').
Proof. intros H Hab. revert i. induction H; intros [|i]; simpl; constructor; auto. Qed.

Theorem cstep_R e e' o : Forall2 (R cf cf') e e' -> Rres (Forall2 (R cf cf')) (cstep cf e o) (cstep cf' e' o).
Proof.
  intros HE. destruct o; simpl.
  - unfold bind. pose proof (make_container_R cf cf' name mx init) as H0.
    destruct (make_container cf name mx init) as [c|]; destruct (make_container cf' name mx init) as [c'|]; simpl in H0; try contradiction; [|exact H0].
    simpl. apply Forall2_app; [exact HE | constructor; [exact H0 | constructor]].
  - destruct (Nat.eqb i j); [reflexivity|].
    pose proof (Forall2_nth_error _ _ _ i HE) as Hi. pose proof (Forall2_nth_error _ _ _ j HE) as Hj.
    destruct (nth_error e i) as [a|]; destruct (nth_error e' i) as [a'|]; try contradiction;
    destruct (nth_error e j) as [b|]; destruct (nth_error e' j) as [b'|]; try contradiction; try reflexivity.
    unfold bind. pose proof (transfer_R cf cf' a a' b b' q Hi Hj) as Ht.
    destruct (transfer cf a b q) as [[x y]|]; destruct (transfer cf' a' b' q) as [[x' y']|]; simpl in Ht; try contradiction; [|exact Ht].
    destruct Ht as [Hx Hy]. simpl in *. apply Forall2_set_nth; [apply Forall2_set_nth; assumption | exact Hy].
  - pose proof (Forall2_nth_error _ _ _ i HE) as Hi.
    destruct (nth_error e i) as [a|]; destruct (nth_error e' i) as [a'|]; try contradiction; [|reflexivity].
    simpl. apply Forall2_set_nth; [exact HE | apply remove_R; exact Hi].
  - pose proof (Forall2_nth_error _ _ _ i HE) as Hi.
    destruct (nth_error e i) as [a|]; destruct (nth_error e' i) as [a'|]; try contradiction; [|reflexivity].
    unfold bind. pose proof (fill_to_R cf cf' a a' s q Hi) as Hf.
    destruct (fill_to cf a s q) as [x|]; destruct (fill_to cf' a' s q) as [x'|]; simpl in Hf; try contradiction; [|exact Hf].
    simpl. apply Forall2_set_nth; assumption.
Qed.

(* every script: the same accept / refuse decisions (with the same error class) and related final states, hence by the
   observer theorems the same answers in user units *)
Theorem crun_R ops : forall e e', Forall2 (R cf cf') e e' ->
  snd (crun cf e ops) = snd (crun cf' e' ops) /\ Forall2 (R cf cf') (fst (crun cf e ops)) (fst (crun cf' e' ops)).
Proof.
  induction ops as [|o t IH]; intros e e' HE; simpl; [split; [reflexivity | exact HE]|].
  pose proof (cstep_R e e' o HE) as Hs.
  destruct (cstep cf e o) as [e1|er]; destruct (cstep cf' e' o) as [e1'|er']; simpl in Hs; try contradiction.
  - destruct (IH e1 e1' Hs) as [Hd Hf]. destruct (crun cf e1 t), (crun cf' e1' t). simpl in *. split; [f_equal; exact Hd | exact Hf].
  - subst er'. destruct (IH e e' HE) as [Hd Hf]. destruct (crun cf e t), (crun cf' e' t). simpl in *. split; [f_equal; exact Hd | exact Hf].
Qed.
End Scripts.
