#!/bin/sh
# tools/run_all_seeds.sh [seed...] -- run the quick check(s) of each seed's property against the seeded change (applied to /repo, undone afterwards)
cd /verif
seeds="$@"; [ -z "$seeds" ] && seeds=$(cut -d'"' -f4 build/seedverify/results.jsonl)
for n in $seeds; do
  p=$(echo $n | cut -d_ -f1)
  extra=""
  case $n in C07_m1) extra="C13";; C17_m3) extra="C09";; C07_m5) extra="C08";; C07_m7) extra="C13";; C07_m11) extra="C04";; C07_m13) extra="C13";; C04_m13) extra="C05";; C10_m13) extra="C14";; C18_m10) extra="C03";; C03_m5) extra="C05";; C02_m5) extra="C18";; esac
  d=/verif/seeded_raw/$n
  mkdir -p build/seedverify/$n; : > build/seedverify/$n/check.log
  ( cd /repo
    [ -n "$(git status --porcelain)" ] && { echo "/repo not clean"; exit 2; }
    if git apply --check "$d/patch.diff" 2>/dev/null; then git apply "$d/patch.diff"
    elif patch -p1 -s -F3 --dry-run < "$d/patch.diff" >/dev/null 2>&1; then patch -p1 -s -F3 < "$d/patch.diff"
    else echo "PATCH DOES NOT APPLY" >> /verif/build/seedverify/$n/check.log; exit 0; fi
    for c in $p $extra; do
      echo "== $c" >> /verif/build/seedverify/$n/check.log
      (cd /verif && ./check $c --tier quick 2>&1 | grep -E "VIOLATION|\] ok|KNOWN|violation" | head -4) >> /verif/build/seedverify/$n/check.log
    done
    git reset -q --hard HEAD; git clean -fdq )
  echo "$n: $(grep -c VIOLATION build/seedverify/$n/check.log) violation line(s)"
done
