#!/bin/sh
# tools/run_harmless.sh <dir with hN.diff> [props...] -- apply each behaviour-preserving patch to /repo, run the quick checks, undo
d="$1"; shift; props="$@"; [ -z "$props" ] && props="C01 C02 C03 C04 C05 C06 C07 C08 C09 C10 C11 C12 C13 C14 C15 C16 C17 C18 C19"
cd /verif; mkdir -p build/harmless
for f in "$d"/*.diff; do
  n=$(basename "$f" .diff)
  [ -n "$(git -C /repo status --porcelain)" ] && { echo "/repo not clean"; exit 2; }
  git -C /repo apply "$f" || { echo "$n: does not apply"; continue; }
  : > build/harmless/$n.log
  for p in $props; do ./check $p --tier quick 2>&1 | grep -E "VIOLATION|\] ok|KNOWN|violation" | head -4 >> build/harmless/$n.log; done
  git -C /repo reset -q --hard HEAD; git -C /repo clean -fdq
  echo "$n: $(grep -c VIOLATION build/harmless/$n.log) violation line(s): $(grep VIOLATION build/harmless/$n.log | sed 's/VIOLATION property=\([A-Z0-9]*\).*/\1/' | tr '\n' ' ')"
done
