#!/usr/bin/env python3
"""tools/mkseeded.py -- assemble /verif/seeded/<id>/ from the raw sub-agent output, the scratch-worktree verification
(tools/verify_seed.sh -> build/seedverify/results.jsonl) and the check runs (tools/try_seed.sh -> build/seedverify/<id>/check.log)."""
import json, os, re, shutil
V = '/verif'
res = {}
for l in open(f'{V}/build/seedverify/results.jsonl'):
    r = json.loads(l)
    res[r['seed']] = r
SUPERSEDED = {'C09_m2': 'C09_m2b (same change ported to the current HEAD)', 'C15_m1': 'C15_m1b (same change ported to the current HEAD)'}
for n, r in sorted(res.items()):
    raw = f'{V}/seeded_raw/{n}'
    ok = r['applies'] == 1 and r['tests'].startswith('80 passed') and r['demo_clean_exit'] == 0 and r['demo_patched_exit'] != 0
    if not ok:
        continue
    d = f'{V}/seeded/{n}'
    os.makedirs(d, exist_ok=True)
    shutil.copy(f'{V}/build/seedverify/{n}/applied.diff', f'{d}/patch.diff')
    shutil.copy(f'{raw}/demo.py', f'{d}/demo.py')
    shutil.copy(f'{raw}/README.md', f'{d}/README.md')
    readme = open(f'{raw}/README.md').read()
    title = readme.splitlines()[0].lstrip('# ').strip()
    log = f'{V}/build/seedverify/{n}/check.log'
    caught = []
    if os.path.exists(log):
        for m in re.finditer(r'^== (C\d\d)\n(.*?)(?=^== |\Z)', open(log).read(), re.S | re.M):
            pid, body = m.group(1), m.group(2)
            v = re.search(r'VIOLATION property=(\S+) replay=(\S+)(.*)', body)
            first = re.search(r'first: (.*)', body)
            caught.append({'check': pid, 'violation': bool(v), 'no_failing_input_found': bool(v and 'no-failing-input-found' in v.group(3)),
                           'first_message': first.group(1)[:300] if first else None})
    meta = {
        'seed': n, 'property': n.split('_')[0], 'title': title,
        'origin': 'written by a fresh sub-agent that was given only the text of the property and a scratch git worktree of /repo',
        'what_it_needs_to_manifest': 'see README.md (section "How the property is violated" / the demonstration demo.py)',
        'verified_in_scratch_worktree': {
            'base_commit': os.popen('git -C /repo rev-parse --short HEAD').read().strip(),
            'patch_applies': True, 'existing_suite': r['tests'],
            'demo_on_unpatched_tree_exit': r['demo_clean_exit'], 'demo_on_patched_tree_exit': r['demo_patched_exit'],
            'command': f'tools/verify_seed.sh {n}  (worktree under /tmp, removed afterwards)'},
        'checks_run_against_it': {'command': f'tools/try_seed.sh /verif/seeded/{n} <checks>  (git apply in /repo, ./check <id> --tier quick, git reset --hard)',
                                  'results': caught},
    }
    json.dump(meta, open(f'{d}/meta.json', 'w'), indent=1)
# the ones that are not kept
notes = []
for n, r in sorted(res.items()):
    if os.path.isdir(f'{V}/seeded/{n}'):
        continue
    why = ('superseded by ' + SUPERSEDED[n]) if n in SUPERSEDED else \
          ('the patch no longer applies: the code it changes was rewritten by a fix: commit' if r['applies'] == 0 else
           'harmless on the current tree: its demonstration passes with the patch applied (the helper it changes is no longer used after the dilute fix)')
    notes.append(f"{n}: not kept -- {why}")
open(f'{V}/seeded/NOT_KEPT.txt', 'w').write("\n".join(notes) + "\n")
print(len(os.listdir(f'{V}/seeded')) - 1, 'seeds kept;', len(notes), 'not kept')
