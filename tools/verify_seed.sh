#!/bin/sh
# tools/verify_seed.sh <seed-name>  -- in a scratch worktree of /repo (outside /repo and /verif, removed afterwards):
#   demo on the unpatched tree must exit 0; the patch must apply; the unedited suite must pass; the demo must then fail.
# prints one JSON line.
n="$1"; d="/verif/seeded_raw/$n"; wt="/tmp/wt_verify/$n"
mkdir -p /tmp/wt_verify; rm -rf "$wt"; git -C /repo worktree prune
git -C /repo worktree add -q --detach "$wt" HEAD || { echo "{\"seed\":\"$n\",\"error\":\"worktree\"}"; exit 1; }
cd "$wt"
export PYTHONPATH="$wt" PYTHONHASHSEED=0 PYTHONDONTWRITEBYTECODE=1
timeout 300 /venv/bin/python "$d/demo.py" > "$wt/.demo0.log" 2>&1; d0=$?
applies=1
if git apply --check "$d/patch.diff" 2>/dev/null; then git apply "$d/patch.diff"
elif patch -p1 -s -F3 --dry-run < "$d/patch.diff" >/dev/null 2>&1; then patch -p1 -s -F3 < "$d/patch.diff"
else applies=0; fi
tests="skipped"; d1=-1
if [ $applies = 1 ]; then
  git diff > "$wt/.applied.diff"
  tests=$(timeout 1500 /venv/bin/python -m pytest -q -p no:cacheprovider --timeout=900 -x 2>&1 | tail -1 | tr -d '"')
  timeout 300 /venv/bin/python "$d/demo.py" > "$wt/.demo1.log" 2>&1; d1=$?
  mkdir -p "/verif/build/seedverify/$n"; cp "$wt/.applied.diff" "/verif/build/seedverify/$n/applied.diff"
  tail -5 "$wt/.demo1.log" > "/verif/build/seedverify/$n/demo_patched.log"; tail -3 "$wt/.demo0.log" > "/verif/build/seedverify/$n/demo_clean.log"
fi
cd /; git -C /repo worktree remove --force "$wt"; rm -rf "$wt"
echo "{\"seed\":\"$n\",\"demo_clean_exit\":$d0,\"applies\":$applies,\"tests\":\"$tests\",\"demo_patched_exit\":$d1}"
