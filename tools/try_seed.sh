#!/bin/sh
# tools/try_seed.sh <seed-dir> <prop> [<prop>...]  -- apply a seeded change to /repo, run the quick checks, undo it
d="$1"; shift
cd /repo || exit 2
if ! git diff --quiet; then echo "/repo not clean"; exit 2; fi
if ! git apply --3way "$d/patch.diff" 2>/dev/null && ! git apply "$d/patch.diff" 2>/dev/null && ! patch -p1 -s -F3 < "$d/patch.diff"; then echo "PATCH DOES NOT APPLY: $d"; git checkout -q -- . ; git reset -q; exit 3; fi
git reset -q
for p in "$@"; do
  (cd /verif && ./check "$p" --tier quick 2>&1 | grep -E "VIOLATION|\] ok|KNOWN|violation" | head -3)
done
git checkout -q -- . ; git clean -fdq pyplate 2>/dev/null
git diff --quiet && echo "(repo restored)"
