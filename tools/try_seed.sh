#!/bin/sh
# tools/try_seed.sh <seed-dir> <prop> [<prop>...]  -- apply a seeded change to /repo, run the quick checks, undo it
d="$1"; shift
cd /repo || exit 2
if [ -n "$(git status --porcelain)" ]; then echo "/repo not clean"; exit 2; fi
if git apply --check "$d/patch.diff" 2>/dev/null; then git apply "$d/patch.diff"
elif patch -p1 -s -F3 --dry-run < "$d/patch.diff" >/dev/null 2>&1; then patch -p1 -s -F3 < "$d/patch.diff"
else echo "PATCH DOES NOT APPLY: $d"; exit 3; fi
for p in "$@"; do
  (cd /verif && ./check "$p" --tier quick 2>&1 | grep -E "VIOLATION|\] ok|KNOWN|violation" | head -3)
done
git reset -q --hard HEAD; git clean -fdq
[ -z "$(git status --porcelain)" ] && echo "(repo restored)"
