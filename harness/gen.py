"""gen.py -- seeded generator of operation histories (DESIGN.md 4.5, 4.6).  The generator runs the implementation
while it generates, only to know what every container currently holds, so that requests can be placed well inside,
well outside or exactly on a feasibility boundary.  All numbers are short decimals."""
import math, random
from fractions import Fraction as F
from decimal import Decimal
import dsl
from dsl import PFX, LIBRARY


def dec(x, sig=2, down=False):
    """short decimal string with `sig` significant digits (no exponent); down = round towards zero"""
    if x == 0:
        return '0'
    d = Decimal(repr(float(x)))
    e = d.adjusted()
    q = d.quantize(Decimal(1).scaleb(e - sig + 1), rounding='ROUND_DOWN' if down else 'ROUND_HALF_EVEN')
    s = format(q, 'f')
    if '.' in s:
        s = s.rstrip('0').rstrip('.')
    return s or '0'


NICE_PFX = {'L': ['', 'm', 'u', 'd', 'c'], 'g': ['', 'm', 'u', 'k', 'c'], 'mol': ['', 'm', 'u', 'n', 'k'],
            'U': ['', 'k', 'm', 'da', 'd']}
ALL_PFX = ['n', 'u', 'µ', 'm', 'c', 'd', '', 'da', 'k', 'M']


def pick_qty(rng, base_value, b, sig=2, any_prefix=False, down=False):
    """a quantity document for about base_value (in base unit b); the prefix is chosen so that the number is readable"""
    cands = ALL_PFX if any_prefix else NICE_PFX[b]
    ok = [p for p in cands if base_value == 0 or 1e-3 <= base_value / float(PFX[p][1]) < 1e5]
    p = rng.choice(ok or [''])
    if p == 'u' and rng.random() < 0.3:
        p = 'µ'       # the micro sign is the other spelling of the same prefix
    v = dec(base_value / float(PFX[p][1]), sig, down)
    r = rng.random()
    if r < 0.06 and float(v) != 0:
        from decimal import Decimal
        v = format(Decimal(v), 'E' if r < 0.03 else 'e')      # the same number in exponent notation ('2.5E+1')
    elif r < 0.09 and not v.startswith('-'):
        v = '+' + v                                             # an explicit sign
    return {'v': v, 'p': p, 'b': b}


class Gen:
    def __init__(self, rng, nsubs=None, kinds=None, scale=1.0):
        self.rng = rng
        self.scale = scale
        lib = [s for s in LIBRARY if kinds is None or s['kind'] in kinds]
        k = nsubs or rng.randint(3, 5)
        # always at least one liquid; mixtures of solids, liquids and enzymes
        liquids = [s for s in lib if s['kind'] == 'Liquid']
        first = [rng.choice(liquids)] if liquids else []
        rest = [s for s in lib if s not in first]
        rng.shuffle(rest)
        self.subs = sorted(first + rest[:max(0, k - len(first))], key=lambda s: s['id'])
        if rng.random() < 0.25:
            # a substance and its namesake (dsl.NAME_TWINS) together in one history
            tw = rng.choice([x for x in dsl.NAME_TWINS if kinds is None or x['kind'] in kinds])
            orig = [s for s in LIBRARY if s['id'] == dsl.TWIN_OF[tw['id']]][0]
            if kinds is None or orig['kind'] in kinds:
                keep = [s for s in self.subs if s['id'] not in (orig['id'], tw['id'])]
                drop = max(0, len(keep) + 2 - max(k, 3))
                liquid_ids = {s['id'] for s in keep if s['kind'] == 'Liquid'}
                while drop and len(keep) > 1:
                    cand = [s for s in keep if not (s['kind'] == 'Liquid' and len(liquid_ids) == 1)]
                    if not cand:
                        break
                    x = cand[-1]
                    keep.remove(x)
                    liquid_ids.discard(x['id'])
                    drop -= 1
                self.subs = sorted(keep + [orig, tw], key=lambda s: s['id'])
        self.impl = dsl.Impl(self.subs)
        self.ops = []
        self.obs = []
        self.nvar = 0
        self.nname = 0
        self.containers = []   # variables currently holding containers (latest version of each lineage)
        self.plates = []
        self.stats = {}

    # -------------------------------------------------------------- helpers
    def fresh(self):
        self.nvar += 1
        return self.nvar

    def name(self):
        self.nname += 1
        return self.nname

    def emit(self, op, tag=None):
        """append the operation, run it on the implementation; returns the observation"""
        self.ops.append(op)
        o = self.impl.run([op])[0]
        self.obs.append(o)
        self.stats[op['op']] = self.stats.get(op['op'], 0) + 1
        if tag:
            self.stats[tag] = self.stats.get(tag, 0) + 1
        if not o['ok']:
            self.stats['err:' + o['exc']] = self.stats.get('err:' + o['exc'], 0) + 1
        return o

    def replace(self, lst, old, new):
        lst[lst.index(old)] = new

    def measure(self, c, b):
        """total of container object c in base unit b (floats, through the implementation's own conversions)"""
        from pyplate import Unit
        from pyplate.pyplate import config
        t = 0.0
        for s, a in c.contents.items():
            if b == 'U':
                t += a if s.is_enzyme() else 0
            elif b == 'mol':
                t += 0 if s.is_enzyme() else Unit.convert_from(s, a, config.moles_storage_unit, 'mol')
            else:
                t += Unit.convert_from(s, a, 'U' if s.is_enzyme() else config.moles_storage_unit, b)
        return t

    def clear_of_capacity(self, q, sources, dests, fan_out=1, fan_in=1):
        """shrink the request until no destination ends within 3 % of its capacity (exact-boundary requests are generated only
        in directed cases built from fresh containers, DESIGN.md 4.5); sources / dests are container objects"""
        from fractions import Fraction
        for _ in range(6):
            near = False
            for src in sources:
                tot = self.measure(src, q['b'])
                if tot <= 0:
                    continue
                qv = float(Fraction(q['v']) * PFX[q['p']][1])
                aliquot = src.volume * qv / tot
                for d in dests:
                    if d.max_volume == float('inf'):
                        continue
                    newv = d.volume + aliquot * fan_in
                    if abs(newv - d.max_volume) < 0.03 * d.max_volume:
                        near = True
            if not near:
                return q
            q = dict(q, v=dec(float(Fraction(q['v'])) * 0.8, 2, down=True))
        return q

    def sub(self, kind=None, notin=()):
        c = [s for s in self.subs if (kind is None or s['kind'] in kind) and s['id'] not in notin]
        return self.rng.choice(c) if c else None

    # -------------------------------------------------------------- operations
    def new_container(self, nsub=None, max_ml=None, scale=None):
        rng = self.rng
        scale = self.scale if scale is None else scale
        n = nsub if nsub is not None else rng.choice([1, 2, 2, 3, 3, 4])
        init = []
        used = set()
        for _ in range(n):
            s = self.sub(notin=used)
            if s is None:
                break
            used.add(s['id'])
            if s['kind'] == 'Liquid':
                b = rng.choice(['L', 'L', 'g', 'mol'])
                base = {'L': 0.004, 'g': 4.0, 'mol': 0.05}[b]
            elif s['kind'] == 'Solid':
                b = rng.choice(['g', 'mol', 'g'])
                base = {'g': 0.3, 'mol': 0.004}[b]
            else:
                b = rng.choice(['U', 'U', 'g'])
                base = {'U': 40.0 * float(s['dens']), 'g': 0.04 * float(s['dens']) / float(s['act']) * 1000}[b]
            init.append((s['id'], pick_qty(rng, base * scale * rng.uniform(0.3, 3), b, sig=rng.choice([1, 2, 2, 3]))))
        if init and rng.random() < 0.2:
            # the same substance listed twice (possibly in another unit): the amounts add up
            sid, q0 = rng.choice(init)
            init.insert(rng.randrange(len(init) + 1), (sid, dict(q0, v=dec(float(q0['v']) * rng.choice([0.5, 1, 2]), 2))))
        op = {'op': 'newc', 'out': self.fresh(), 'name': self.name(), 'init': init}
        if max_ml is not None:
            op['max'] = pick_qty(rng, max_ml / 1000.0, 'L', sig=3)
        elif rng.random() < 0.35:
            op['max'] = {'v': rng.choice(['50', '100', '250', '0.5', '2']), 'p': rng.choice(['m', '', 'd']), 'b': 'L'}
            if op['max']['p'] == '' and float(op['max']['v']) > 2:
                op['max']['p'] = 'm'
        o = self.emit(op)
        if o['ok']:
            self.containers.append(op['out'])
        return op['out'] if o['ok'] else None

    def new_plate(self, rows=None, cols=None, max_ul=None, twin_of=None):
        rng = self.rng
        if twin_of is not None:   # a replicate: same name and shape as an existing plate, different object
            t = [o for o in self.ops if o['op'] == 'newp' and o['out'] == twin_of][0]
            op = dict(t, out=self.fresh())
            o = self.emit(op, 'twin-plate')
            if o['ok']:
                self.plates.append(op['out'])
            return op['out'] if o['ok'] else None
        op = {'op': 'newp', 'out': self.fresh(), 'name': self.name(), 'rows': rows or rng.randint(1, 4),
              'cols': cols or rng.randint(1, 5),
              'max': {'v': str(max_ul or rng.choice([200, 500, 1000, 2000])), 'p': 'u', 'b': 'L'}}
        o = self.emit(op)
        if o['ok']:
            self.plates.append(op['out'])
        return op['out'] if o['ok'] else None

    def region(self, pv, kind=None, avoid=None):
        """a random region of plate variable pv as {'rect': [rows, cols]} or {'list': [...]}; avoid = set of cells"""
        rng = self.rng
        p = self.impl.env[pv]
        R, C = p.n_rows, p.n_columns
        kind = kind or rng.choice(['one', 'row', 'col', 'rect', 'rect', 'step', 'all', 'list'])
        for _ in range(30):
            if kind == 'one':
                r = {'rect': [[rng.randrange(R)], [rng.randrange(C)]]}
            elif kind == 'row':
                r = {'rect': [[rng.randrange(R)], list(range(C))]}
            elif kind == 'col':
                r = {'rect': [list(range(R)), [rng.randrange(C)]]}
            elif kind == 'all':
                r = {'rect': [list(range(R)), list(range(C))]}
            elif kind == 'list':
                cells = [(a, b) for a in range(R) for b in range(C)]
                rng.shuffle(cells)
                r = {'list': [list(x) for x in cells[:rng.randint(1, min(4, len(cells)))]]}
            else:
                def ax(n):
                    a = rng.randrange(n)
                    b = rng.randrange(a, n)
                    st = rng.choice([2, 2, 3]) if kind == 'step' else 1
                    return list(range(a, b + 1, st))
                r = {'rect': [ax(R), ax(C)]}
            if avoid is None or not (set(dsl.region_cells(r, C)) & avoid):
                return r
        return None

    def transfer_qty(self, src_obj, frac=None, unit=None, nshare=1, any_prefix=False):
        """a quantity that takes about `frac` of what container object src_obj holds, in a random unit it has"""
        rng = self.rng
        # a mass request is rounded by the library to ten decimals of a GRAM (volumes and moles: of the storage unit): below a
        # microgram the request itself would change, which the exact model cannot follow -- such sources are asked by volume or moles
        units = [b for b in ('L', 'g', 'mol', 'U') if self.measure(src_obj, b) > (1e-6 if b == 'g' else 0)]
        if not units:
            return {'v': '1', 'p': 'm', 'b': 'L'}, 'L'
        b = unit if unit in units else rng.choice(units)
        tot = self.measure(src_obj, b)
        f = frac if frac is not None else rng.choice([0.05, 0.1, 0.2, 0.3, 0.5])
        return pick_qty(rng, tot * min(f, 0.97) / nshare if f <= 1 else tot * f / nshare, b, sig=rng.choice([1, 2, 2]), any_prefix=any_prefix, down=(f <= 1)), b

    def transfer_cc(self, s=None, d=None, frac=None, unit=None, tag=None, any_prefix=False):
        rng = self.rng
        if len(self.containers) < 2:
            return None
        s = s if s is not None else rng.choice(self.containers)
        d = d if d is not None else rng.choice([c for c in self.containers if c != s])
        q, b = self.transfer_qty(self.impl.env[s], frac, unit, any_prefix=any_prefix)
        if frac is None or frac <= 1:
            q = self.clear_of_capacity(q, [self.impl.env[s]], [self.impl.env[d]])
        op = {'op': 'transfer', 'src': {'c': s}, 'dst': {'c': d}, 'q': q, 'osrc': self.fresh(), 'odst': self.fresh()}
        o = self.emit(op, tag or ('xfer:' + b))
        if o['ok']:
            self.replace(self.containers, s, op['osrc'])
            self.replace(self.containers, d, op['odst'])
        return o

    def transfer_cp(self, frac=None, unit=None, kind=None):
        rng = self.rng
        if not self.containers or not self.plates:
            return None
        s, d = rng.choice(self.containers), rng.choice(self.plates)
        r = self.region(d, kind)
        cells = dsl.region_cells(r, 0)
        n = len(cells)
        f = frac if frac is not None else rng.choice([0.1, 0.3, 0.6])
        src = self.impl.env[s]
        if f <= 1 and src.volume > 0:
            # keep the aliquot inside the free capacity of the poorest well (requests beyond it are the 'bad' stream)
            free = min(self.well_obj(d, c).max_volume - self.well_obj(d, c).volume for c in cells)
            f = min(f / n, 0.5 * free / src.volume) * n
        q, b = self.transfer_qty(src, f, unit, nshare=n)
        if f <= 1:
            q = self.clear_of_capacity(q, [src], [self.well_obj(d, c) for c in cells])
        op = {'op': 'transfer', 'src': {'c': s}, 'dst': {'p': d, 'r': r}, 'q': q, 'osrc': self.fresh(), 'odst': self.fresh()}
        o = self.emit(op, 'pair:c->n')
        if o['ok']:
            self.replace(self.containers, s, op['osrc'])
            self.replace(self.plates, d, op['odst'])
        return o

    def nonempty_region(self, pv, kind=None, avoid=None):
        r = None
        for _ in range(12):
            r = self.region(pv, kind, avoid)
            if r is not None and all(self.well_obj(pv, c).volume > 0 for c in dsl.region_cells(r, 0)):
                return r
        return r

    def well_obj(self, pv, cell):
        return self.impl.env[pv].wells[cell[0], cell[1]]

    def min_well_qty(self, pv, r, frac, unit=None):
        """quantity every well of the region can give (about frac of the poorest non-empty well)"""
        cells = dsl.region_cells(r, 0)
        wells = [self.well_obj(pv, c) for c in cells]
        units = [b for b in ('L', 'g', 'mol', 'U') if all(self.measure(w, b) > (1e-6 if b == 'g' else 0) for w in wells)]
        if not units:
            return None, None
        b = unit if unit in units else self.rng.choice(units)
        m = min(self.measure(w, b) for w in wells)
        return pick_qty(self.rng, m * min(frac, 0.97), b, sig=self.rng.choice([1, 2]), down=True), b

    def transfer_pc(self, frac=None, kind=None):
        rng = self.rng
        if not self.containers or not self.plates:
            return None
        s, d = rng.choice(self.plates), rng.choice(self.containers)
        if rng.random() < 0.12:
            # a region in which one well cannot give what the others can (it holds less, or nothing): the whole request is infeasible
            r = self.region(s, kind or rng.choice(['row', 'col', 'rect', 'all']))
            cells = dsl.region_cells(r, 0) if r else []
            vols = [self.well_obj(s, c).volume for c in cells]
            if len(cells) >= 2 and max(vols) > 2 and min(vols) < 0.6 * max(vols):
                q = pick_qty(rng, max(vols) * 0.8 * 1e-6, 'L', sig=2)
                op = {'op': 'transfer', 'src': {'p': s, 'r': r}, 'dst': {'c': d}, 'q': q, 'osrc': self.fresh(), 'odst': self.fresh()}
                return self.emit(op, 'pair:n->c:one-well-short')
        r = self.nonempty_region(s, kind)
        q, b = self.min_well_qty(s, r, frac if frac is not None else rng.choice([0.2, 0.5, 0.9]))
        if q is None:
            if rng.random() < 0.8:
                return None
            q = {'v': '10', 'p': 'u', 'b': 'L'}
        cells = dsl.region_cells(r, 0)
        q = self.clear_of_capacity(q, [self.well_obj(s, c) for c in cells], [self.impl.env[d]], fan_in=len(cells))
        op = {'op': 'transfer', 'src': {'p': s, 'r': r}, 'dst': {'c': d}, 'q': q, 'osrc': self.fresh(), 'odst': self.fresh()}
        o = self.emit(op, 'pair:n->c')
        if o['ok']:
            self.replace(self.plates, s, op['osrc'])
            self.replace(self.containers, d, op['odst'])
        return o

    def transfer_pp(self, form=None, same=None, frac=None):
        """plate -> plate: one-to-many, many-to-one or element-wise; same plate (disjoint regions) or two plates"""
        rng = self.rng
        if not self.plates:
            return None
        form = form or rng.choice(['1n', 'n1', 'nn', 'nn', 'bad'])
        same = (rng.random() < 0.4) if same is None else same
        s = rng.choice(self.plates)
        if same or len(self.plates) < 2:
            d = s
        else:
            d = rng.choice([p for p in self.plates if p != s])
        ps, pd = self.impl.env[s], self.impl.env[d]
        if form == '1n':
            rs = self.nonempty_region(s, 'one')
            rd = self.region(d, None, avoid=set(dsl.region_cells(rs, 0)) if s == d else None)
        elif form == 'n1':
            rd = self.region(d, 'one')
            rs = self.nonempty_region(s, None, avoid=set(dsl.region_cells(rd, 0)) if s == d else None)
        elif form == 'nn':
            # equal shapes: pick a shape that fits both, and offsets
            h = rng.randint(1, min(ps.n_rows, pd.n_rows))
            w = rng.randint(1, min(ps.n_columns, pd.n_columns))
            rs = rd = None
            for _ in range(30):
                a, b = rng.randrange(ps.n_rows - h + 1), rng.randrange(ps.n_columns - w + 1)
                c, e = rng.randrange(pd.n_rows - h + 1), rng.randrange(pd.n_columns - w + 1)
                if rng.random() < 0.3 and h * w > 1:
                    cs = [(a + i, b + j) for i in range(h) for j in range(w)]
                    cd = [(c + i, e + j) for i in range(h) for j in range(w)]
                    if rng.random() < 0.4:
                        # a well listed twice, as a source or as a destination: the pairs are performed in order on the current wells
                        which = cs if rng.random() < 0.5 else cd
                        which[rng.randrange(1, len(which))] = which[0]
                    r1, r2 = {'list': [list(x) for x in cs]}, {'list': [list(x) for x in cd]}
                else:
                    r1 = {'rect': [list(range(a, a + h)), list(range(b, b + w))]}
                    r2 = {'rect': [list(range(c, c + h)), list(range(e, e + w))]}
                if s != d or not (set(dsl.region_cells(r1, 0)) & set(dsl.region_cells(r2, 0))):
                    rs, rd = r1, r2
                    break
        else:  # shapes that do not pair, or overlapping regions of one plate
            rs = self.region(s, rng.choice(['row', 'rect', 'col']))
            rd = self.region(d, rng.choice(['col', 'rect', 'all']))
            k = min(ps.n_columns, pd.n_rows)
            if k >= 2 and s != d and rng.random() < 0.5:
                # the same NUMBER of wells in another arrangement (a 1 x k row into a k x 1 column, or k listed wells into a row of k):
                # equal sizes do not make equal shapes
                k = rng.randint(2, k)
                a, c = rng.randrange(ps.n_rows), rng.randrange(pd.n_columns)
                rs = {'rect': [[a], list(range(k))]}
                rd = {'rect': [list(range(k)), [c]]}
                if rng.random() < 0.4 and pd.n_columns >= k:
                    rs = {'list': [[a, j] for j in range(k)]}
                    rd = {'rect': [[rng.randrange(pd.n_rows)], list(range(k))]}
        if rs is None or rd is None:
            return None
        tagx = ''
        if form in ('1n', 'n1') and rng.random() < 0.25:
            # the single well written as a one-element list: numpy gives it shape (1,), the library refuses (RuntimeError)
            one = rs if form == '1n' else rd
            if 'rect' in one:
                lst = {'list': [[one['rect'][0][0], one['rect'][1][0]]]}
                if form == '1n':
                    rs = lst
                else:
                    rd = lst
                tagx = ':list1'
        nd = len(dsl.region_cells(rd, 0))
        mult = lambda r: max([dsl.region_cells(r, 0).count(c) for c in dsl.region_cells(r, 0)] or [1])      # a well listed k times gives / takes k times
        q, b = self.min_well_qty(s, rs, (frac if frac is not None else rng.choice([0.2, 0.5, 0.8])) / (nd if form == '1n' else 1) / mult(rs))
        if q is None:
            if rng.random() < 0.8:
                return None
            q = {'v': '5', 'p': 'u', 'b': 'L'}
        if form != 'bad':
            sc, dc = dsl.region_cells(rs, 0), dsl.region_cells(rd, 0)
            q = self.clear_of_capacity(q, [self.well_obj(s, c) for c in sc], [self.well_obj(d, c) for c in dc], fan_in=(len(sc) if len(dc) == 1 else mult(rd)))
        op = {'op': 'transfer', 'src': {'p': s, 'r': rs}, 'dst': {'p': d, 'r': rd}, 'q': q, 'osrc': self.fresh(), 'odst': self.fresh()}
        o = self.emit(op, 'pair:' + form + tagx + (':same' if s == d else ':two'))
        if o['ok']:
            if s == d:
                self.replace(self.plates, s, op['odst'])
            else:
                self.replace(self.plates, s, op['osrc'])
                self.replace(self.plates, d, op['odst'])
        return o

    def remove(self, target=None):
        rng = self.rng
        w = {'k': rng.choice(['Solid', 'Liquid', 'Enzyme'])} if rng.random() < 0.4 else {'s': self.sub()['id']}
        if target is None:
            target = 'c' if (not self.plates or (self.containers and rng.random() < 0.5)) else 'p'
        if target == 'c':
            if not self.containers:
                return None
            v = rng.choice(self.containers)
            op = {'op': 'remove', 't': {'c': v}, 'w': w, 'out': self.fresh()}
            o = self.emit(op)
            if o['ok']:
                self.replace(self.containers, v, op['out'])
        else:
            if not self.plates:
                return None
            v = rng.choice(self.plates)
            op = {'op': 'remove', 't': {'p': v, 'r': self.region(v)}, 'w': w, 'out': self.fresh()}
            o = self.emit(op)
            if o['ok']:
                self.replace(self.plates, v, op['out'])
        return o

    def fill(self, target=None, rel=None, sig=2):
        """fill_to: target quantity = rel * current (rel > 1 feasible, < 1 refused)"""
        rng = self.rng
        solvent = self.sub(kind=('Liquid', 'Solid'))
        if solvent is None:
            return None
        b = rng.choice(['L', 'L', 'g', 'mol'])
        rel = rel if rel is not None else rng.choice([1.3, 1.6, 2.5, 0.6])
        if target is None:
            target = 'c' if (not self.plates or (self.containers and rng.random() < 0.6)) else 'p'
        if target == 'c':
            if not self.containers:
                return None
            v = rng.choice(self.containers)
            cur = self.measure(self.impl.env[v], b)
            if 0 < cur and abs(cur * rel - cur) < 5e-9:
                # the library decides on the shortfall rounded to ten decimals of the BASE unit (L, g, mol): a difference of picolitres
                # is below what it resolves (either answer is within its documented precision); not generated
                return None
            base = cur * rel if cur > 0 else {'L': 0.002, 'g': 2.0, 'mol': 0.05}[b]
            op = {'op': 'fill', 't': {'c': v}, 'solvent': solvent['id'], 'q': pick_qty(rng, base, b, sig=sig), 'out': self.fresh()}
            o = self.emit(op, 'fill:' + b)
            if o['ok']:
                self.replace(self.containers, v, op['out'])
        else:
            if not self.plates:
                return None
            v = rng.choice(self.plates)
            r = self.region(v)
            cur = max(self.measure(self.well_obj(v, c), b) for c in dsl.region_cells(r, 0))
            base = cur * max(rel, 1.2) if cur > 0 else {'L': 0.0001, 'g': 0.1, 'mol': 0.003}[b]
            op = {'op': 'fill', 't': {'p': v, 'r': r}, 'solvent': solvent['id'], 'q': pick_qty(rng, base, b, sig=2), 'out': self.fresh()}
            o = self.emit(op, 'fillp:' + b)
            if o['ok']:
                self.replace(self.plates, v, op['out'])
        return o

    def prog(self):
        return {'subs': self.subs, 'ops': self.ops}


def history(rng, nops, weights=None, with_plates=True, trace=False):
    """a random mostly-valid history of about nops operations; trace = nanomole-scale amounts, no enzymes"""
    g = Gen(rng, kinds=('Liquid', 'Solid'), scale=1e-6) if trace else Gen(rng)
    first_plate = None
    g.new_container()
    g.new_container()
    if with_plates:
        first_plate = g.new_plate()
        g.transfer_cp(frac=0.5, kind='all')
        if rng.random() < 0.5:
            if rng.random() < 0.5:
                g.new_plate(twin_of=first_plate)
            else:
                g.new_plate()
            if rng.random() < 0.6:
                g.transfer_cp(frac=0.3, kind='all')
    w = weights or {'newc': 1, 'newp': 0.5, 'cc': 4, 'cp': 3, 'pc': 2, 'pp': 3, 'remove': 1.5, 'fill': 1.5, 'bad': 1}
    if not with_plates:
        w = {k: v for k, v in w.items() if k not in ('newp', 'cp', 'pc', 'pp')}
    kinds, ws = zip(*w.items())
    guard = 0
    while len(g.ops) < nops and guard < nops * 4:
        guard += 1
        k = rng.choices(kinds, ws)[0]
        if k == 'newc':
            g.new_container()
        elif k == 'newp':
            if len(g.plates) < 2:
                if first_plate is not None and rng.random() < 0.5:
                    g.new_plate(twin_of=first_plate)
                else:
                    g.new_plate()
        elif k == 'cc':
            g.transfer_cc()
        elif k == 'cp':
            g.transfer_cp()
        elif k == 'pc':
            g.transfer_pc()
        elif k == 'pp':
            g.transfer_pp()
        elif k == 'remove':
            g.remove()
        elif k == 'fill':
            g.fill()
        elif k == 'bad':   # clearly infeasible requests: over-draw, negative
            c = rng.random()
            if c < 0.5:
                g.transfer_cc(frac=rng.choice([1.5, 3.0]), tag='infeasible:overdraw')
            elif c < 0.75 and g.containers:
                s = rng.choice(g.containers)
                others = [x for x in g.containers if x != s]
                if others:
                    q, b = g.transfer_qty(g.impl.env[s], 0.2)
                    q['v'] = '-' + q['v'].lstrip('+')
                    op = {'op': 'transfer', 'src': {'c': s}, 'dst': {'c': rng.choice(others)}, 'q': q, 'osrc': g.fresh(), 'odst': g.fresh()}
                    g.emit(op, 'infeasible:negative')
            else:
                g.transfer_cp(frac=2.0)
    return g


def twin_plate_cases(seed, n=3):
    """two plate objects with ONE name (replicates), loaded differently, then transfers between disjoint rows of the two: the
    operands are objects, not names"""
    import random
    out = []
    for i in range(n):
        rng = random.Random(seed * 7907 + i)
        g = Gen(rng, kinds=('Liquid', 'Solid', 'Liquid'))
        a = g.new_container(nsub=2)
        b = g.new_container(nsub=2)
        p = g.new_plate(rows=2, cols=3, max_ul=1000)
        if a is None or b is None or p is None:
            continue
        t = g.new_plate(twin_of=p)
        if t is None:
            continue
        rowA = {'rect': [[0], [0, 1, 2]]}
        rowB = {'rect': [[1], [0, 1, 2]]}

        def load(c, pl, region, ul):
            op = {'op': 'transfer', 'src': {'c': c}, 'dst': {'p': pl, 'r': region}, 'q': {'v': str(ul), 'p': 'u', 'b': 'L'}, 'osrc': g.fresh(), 'odst': g.fresh()}
            o = g.emit(op, 'twin:load')
            return (op['osrc'], op['odst']) if o['ok'] else (c, pl)
        a, p = load(a, p, rowA, rng.choice([40, 60]))
        b, t = load(b, t, rowA, rng.choice([20, 30]))
        b, t = load(b, t, rowB, rng.choice([15, 25]))
        for rs, rd, q in (({'rect': [[0], [0]]}, rowB, '5'), (rowA, rowB, '7'), (rowA, {'rect': [[1], [2]]}, '3')):
            op = {'op': 'transfer', 'src': {'p': p, 'r': rs}, 'dst': {'p': t, 'r': rd}, 'q': {'v': q, 'p': 'u', 'b': 'L'}, 'osrc': g.fresh(), 'odst': g.fresh()}
            o = g.emit(op, 'twin:pp')
            if o['ok']:
                p, t = op['osrc'], op['odst']
        out.append(g)
    return out


def whole_source_cases(seed):
    """directed: a transfer that takes the WHOLE source -- by volume, by mass, by moles, by activity -- into a destination that
    already holds the same substances, from a container and from every well of a row; built from short decimals so that the request
    is the source's total on both sides.  (Random histories keep 3 % away from stock boundaries, so they never draw everything.)"""
    import random
    out = []

    def mk(g, init, mx=None):
        op = {'op': 'newc', 'out': g.fresh(), 'name': g.name(), 'init': init}
        if mx:
            op['max'] = mx
        return op['out'] if g.emit(op, 'whole:newc')['ok'] else None

    def q(v, p, b):
        return {'v': v, 'p': p, 'b': b}
    water, dmso, nacl, lipase = 1, 2, 4, 6
    plans = [
        # (source contents, destination contents, request = everything in the source)
        ([(water, q('10', 'm', 'L'))], [(water, q('40', 'm', 'L')), (nacl, q('100', 'm', 'g'))], q('10', 'm', 'L')),
        ([(water, q('0.5', '', 'mol'))], [(water, q('0.25', '', 'mol')), (dmso, q('2', 'm', 'L'))], q('0.5', '', 'mol')),
        ([(nacl, q('2', '', 'g'))], [(water, q('5', 'm', 'L')), (nacl, q('1', '', 'g'))], q('2', '', 'g')),
        ([(lipase, q('20', '', 'U'))], [(water, q('5', 'm', 'L')), (lipase, q('5', '', 'U'))], q('20', '', 'U')),
        ([(dmso, q('250', 'u', 'L'))], [(dmso, q('750', 'u', 'L'))], q('0.25', 'm', 'L')),
    ]
    for i, (src, dst, req) in enumerate(plans):
        g = Gen(random.Random(seed * 6007 + i), nsubs=9)
        s, d = mk(g, [[k, v] for k, v in src]), mk(g, [[k, v] for k, v in dst])
        if s is None or d is None:
            continue
        op = {'op': 'transfer', 'src': {'c': s}, 'dst': {'c': d}, 'q': req, 'osrc': g.fresh(), 'odst': g.fresh()}
        o = g.emit(op, 'boundary:whole-source')
        if o['ok']:
            # the drained source and the enriched destination are used again
            op2 = {'op': 'transfer', 'src': {'c': op['odst']}, 'dst': {'c': op['osrc']}, 'q': q('1', 'm', 'L') if req['b'] != 'U' else q('1', '', 'U'),
                   'osrc': g.fresh(), 'odst': g.fresh()}
            g.emit(op2, 'whole:back')
        out.append(g)
    # pooling: every well of a row gives everything it holds to a container that already holds the same liquid
    g = Gen(random.Random(seed * 6007 + 99), nsubs=9)
    stock = mk(g, [[water, q('5', 'm', 'L')]])
    pool = mk(g, [[water, q('1', 'm', 'L')]])
    pl = g.new_plate(rows=2, cols=3, max_ul=500)
    if None not in (stock, pool, pl):
        row = {'rect': [[0], [0, 1, 2]]}
        op = {'op': 'transfer', 'src': {'c': stock}, 'dst': {'p': pl, 'r': row}, 'q': q('200', 'u', 'L'), 'osrc': g.fresh(), 'odst': g.fresh()}
        if g.emit(op, 'whole:load')['ok']:
            op2 = {'op': 'transfer', 'src': {'p': op['odst'], 'r': row}, 'dst': {'c': pool}, 'q': q('200', 'u', 'L'), 'osrc': g.fresh(), 'odst': g.fresh()}
            g.emit(op2, 'boundary:whole-wells')
        out.append(g)
    return out


def repeated_well_cases(seed):
    """directed: element-wise transfers between regions written as lists in which one well is listed twice -- as a source (it gives
    twice), as a destination (it receives twice) -- between two plates and within one plate; then the plates are used again"""
    import random
    out = []
    for i, (src_l, dst_l, same) in enumerate([([[0, 0], [0, 0]], [[1, 0], [1, 1]], False), ([[0, 0], [0, 1]], [[1, 0], [1, 0]], False),
                                              ([[0, 0], [0, 0], [0, 2]], [[1, 0], [1, 1], [1, 1]], True), ([[0, 1], [0, 0], [0, 1]], [[1, 2], [1, 2], [1, 0]], False)]):
        g = Gen(random.Random(seed * 5009 + i), kinds=('Liquid', 'Solid', 'Liquid'))
        a = g.new_container(nsub=2)
        p = g.new_plate(rows=2, cols=3, max_ul=1000)
        t = p if same else g.new_plate(rows=2, cols=3, max_ul=1000)
        if a is None or p is None or t is None:
            continue
        op = {'op': 'transfer', 'src': {'c': a}, 'dst': {'p': p, 'r': {'rect': [[0], [0, 1, 2]]}}, 'q': {'v': '90', 'p': 'u', 'b': 'L'}, 'osrc': g.fresh(), 'odst': g.fresh()}
        if not g.emit(op, 'repeat:load')['ok']:
            continue
        a, p = op['osrc'], op['odst']
        if same:
            t = p
        for q in ('7', '11'):
            op = {'op': 'transfer', 'src': {'p': p, 'r': {'list': src_l}}, 'dst': {'p': t, 'r': {'list': dst_l}}, 'q': {'v': q, 'p': 'u', 'b': 'L'},
                  'osrc': g.fresh(), 'odst': g.fresh()}
            o = g.emit(op, 'repeat:list->list' + (':same' if same else ':two'))
            if o['ok']:
                p, t = (op['odst'], op['odst']) if same else (op['osrc'], op['odst'])
        # the container forms with a repeated well: dispensing into a list that names a well twice, pooling from one
        d = g.fresh()
        g.emit({'op': 'newc', 'out': d, 'name': g.name(), 'init': []}, 'repeat:tube')
        op = {'op': 'transfer', 'src': {'c': a}, 'dst': {'p': t, 'r': {'list': dst_l}}, 'q': {'v': '6', 'p': 'u', 'b': 'L'},
              'osrc': g.fresh(), 'odst': g.fresh()}
        if g.emit(op, 'repeat:c->list')['ok']:
            t = op['odst']
            if same:
                p = t
        op = {'op': 'transfer', 'src': {'p': p, 'r': {'list': src_l}}, 'dst': {'c': d}, 'q': {'v': '4', 'p': 'u', 'b': 'L'}, 'osrc': g.fresh(), 'odst': g.fresh()}
        g.emit(op, 'repeat:list->c')
        # requests that only the repetition makes infeasible: a well drawn from twice for more than it holds in all, a well that
        # receives twice more than it has room for (each single share would fit)
        op = {'op': 'transfer', 'src': {'p': p, 'r': {'list': [[0, 1], [0, 2], [0, 1]]}}, 'dst': {'c': d}, 'q': {'v': '48', 'p': 'u', 'b': 'L'}, 'osrc': g.fresh(), 'odst': g.fresh()}
        g.emit(op, 'repeat:overdraw')
        op = {'op': 'transfer', 'src': {'c': a}, 'dst': {'p': t, 'r': {'list': [[1, 2], [1, 2]]}}, 'q': {'v': '510', 'p': 'u', 'b': 'L'}, 'osrc': g.fresh(), 'odst': g.fresh()}
        g.emit(op, 'repeat:overfill')
        out.append(g)
    return out


def long_decimal_cases(seed):
    """directed: quantities written with many significant digits (computed volumes such as 1000 / 96 uL), dispensed into wells,
    pooled from wells, moved between containers: the digits given are the digits used"""
    import random
    out = []
    for i, (v1, v2) in enumerate([('10.416666666666666', '3.4722222222222223'),      # (a third of it: two draws leave a third, well clear of the stock)
                                  ('33.333333333333336', '1.2345678901'), ('0.30000000000000004', '0.1234567')]):
        g = Gen(random.Random(seed * 3001 + i), kinds=('Liquid', 'Solid', 'Liquid'))
        a = g.new_container(nsub=2)
        pl = g.new_plate(rows=2, cols=3, max_ul=1000)
        if a is None or pl is None:
            continue
        whole = {'rect': [[0, 1], [0, 1, 2]]}
        op = {'op': 'transfer', 'src': {'c': a}, 'dst': {'p': pl, 'r': whole}, 'q': {'v': v1, 'p': 'u', 'b': 'L'}, 'osrc': g.fresh(), 'odst': g.fresh()}
        if not g.emit(op, 'digits:c->p')['ok']:
            continue
        a, pl = op['osrc'], op['odst']
        d = g.fresh()
        g.emit({'op': 'newc', 'out': d, 'name': g.name(), 'init': []}, 'digits:tube')
        op = {'op': 'transfer', 'src': {'p': pl, 'r': whole}, 'dst': {'c': d}, 'q': {'v': v2, 'p': 'u', 'b': 'L'}, 'osrc': g.fresh(), 'odst': g.fresh()}
        if g.emit(op, 'digits:p->c')['ok']:
            pl, d = op['osrc'], op['odst']
        op = {'op': 'transfer', 'src': {'p': pl, 'r': {'rect': [[0], [0, 1, 2]]}}, 'dst': {'p': pl, 'r': {'rect': [[1], [0, 1, 2]]}}, 'q': {'v': v2, 'p': 'u', 'b': 'L'},
              'osrc': g.fresh(), 'odst': g.fresh()}
        g.emit(op, 'digits:p->p')
        op = {'op': 'transfer', 'src': {'c': a}, 'dst': {'c': d}, 'q': {'v': v1, 'p': 'u', 'b': 'L'}, 'osrc': g.fresh(), 'odst': g.fresh()}
        g.emit(op, 'digits:c->c')
        out.append(g)
    return out


def twin_lot_cases(seed, kind='transfer'):
    """directed: two lots of one enzyme -- same name, different specific activity (dsl.TWIN_LOT); the library's Substance equality
    does not see the difference, so they are kept in separate containers -- put through the same operations one after the other:
    whatever is remembered from the first lot must not be used for the second"""
    import random
    q = lambda v, p, b: {'v': v, 'p': p, 'b': b}
    out = []
    lots = (6, 10)       # lipase 7000 U/g and its second lot 25000 U/g
    subs = [s for s in LIBRARY if s['id'] in (1, 4, 6)] + [dsl.TWIN_LOT]
    for order in (lots, lots[::-1]):
        g = Gen(random.Random(seed * 4001 + order[0]), nsubs=3)
        g.subs = sorted(subs, key=lambda s: s['id'])
        g.impl = dsl.Impl(g.subs)
        vials, stocks = {}, {}
        for lot in order:
            op = {'op': 'newc', 'out': g.fresh(), 'name': g.name(), 'init': [[lot, q('1000', '', 'U')]]}
            vials[lot] = op['out'] if g.emit(op, 'lot:vial')['ok'] else None
            op = {'op': 'newc', 'out': g.fresh(), 'name': g.name(), 'init': [[1, q('5', 'm', 'L')], [4, q('100', 'm', 'g')], [lot, q('700', '', 'U')]]}
            stocks[lot] = op['out'] if g.emit(op, 'lot:stock')['ok'] else None
        if None in list(vials.values()) + list(stocks.values()):
            continue
        for lot in order:
            if kind == 'transfer':
                # 35 mg of pure enzyme: lot 6 holds 142.9 mg, lot 10 holds 40 mg; then 100 mg: feasible for lot 6 only
                for amount in ('35', '100'):
                    d = g.fresh()
                    g.emit({'op': 'newc', 'out': d, 'name': g.name(), 'init': []}, 'lot:tube')
                    op = {'op': 'transfer', 'src': {'c': vials[lot]}, 'dst': {'c': d}, 'q': q(amount, 'm', 'g'), 'osrc': g.fresh(), 'odst': g.fresh()}
                    if g.emit(op, 'lot:draw-mass')['ok']:
                        vials[lot] = op['osrc']
                d = g.fresh()
                g.emit({'op': 'newc', 'out': d, 'name': g.name(), 'init': []}, 'lot:tube')
                op = {'op': 'transfer', 'src': {'c': stocks[lot]}, 'dst': {'c': d}, 'q': q('0.5', '', 'g'), 'osrc': g.fresh(), 'odst': g.fresh()}
                if g.emit(op, 'lot:stock-mass')['ok']:
                    stocks[lot] = op['osrc']
            elif kind == 'fill':
                op = {'op': 'fill', 't': {'c': stocks[lot]}, 'solvent': 1, 'q': q('10', '', 'g'), 'out': g.fresh()}
                if g.emit(op, 'lot:fill-mass')['ok']:
                    stocks[lot] = op['out']
                op = {'op': 'dilute', 'v': stocks[lot], 'solute': 4, 'c': {'v': '5', 'np': 'm', 'nb': 'g', 'dp': '', 'db': 'g'}, 'solvent': 1, 'out': g.fresh()}
                g.emit(op, 'lot:dilute-mass')
            elif kind == 'solfrom':
                op = {'op': 'solfrom', 'src': stocks[lot], 'solute': 4, 'c': {'v': '10', 'np': 'm', 'nb': 'g', 'dp': '', 'db': 'g'}, 'q': q('2', '', 'g'),
                      'name': g.name(), 'osrc': g.fresh(), 'out': g.fresh(), 'solvent': 1, 'expect': 'feasible'}
                if g.emit(op, 'lot:solfrom-mass')['ok']:
                    stocks[lot] = op['osrc']
        out.append(g)
    return out


def big_plate_cases(seed):
    """directed: a 96-well plate (8 x 12) and a 1 x 12 strip: whole-plate dispensing, a row into a row, a column pooled, a stepped
    rectangle, removal and fill_to on regions -- sizes the random histories (up to about 4 x 4) never reach"""
    import random
    q = lambda v, p, b: {'v': v, 'p': p, 'b': b}
    out = []
    for i, (rows, cols) in enumerate(((8, 12), (1, 12))):
        g = Gen(random.Random(seed * 2003 + i), kinds=('Liquid', 'Solid', 'Liquid'))
        a = g.new_container(nsub=3, scale=20.0)
        pl = g.new_plate(rows=rows, cols=cols, max_ul=300)
        if a is None or pl is None:
            continue
        allr = {'rect': [list(range(rows)), list(range(cols))]}
        op = {'op': 'transfer', 'src': {'c': a}, 'dst': {'p': pl, 'r': allr}, 'q': q('100', 'u', 'L'), 'osrc': g.fresh(), 'odst': g.fresh()}
        if not g.emit(op, 'big:c->plate')['ok']:
            out.append(g)
            continue
        a, pl = op['osrc'], op['odst']
        lastr = rows - 1
        steps = [({'p': pl, 'r': {'rect': [[0], list(range(cols))]}}, {'p': pl, 'r': {'rect': [[lastr], list(range(cols))]}}) if rows > 1 else None]
        if steps[0]:
            op = {'op': 'transfer', 'src': steps[0][0], 'dst': steps[0][1], 'q': q('15', 'u', 'L'), 'osrc': g.fresh(), 'odst': g.fresh()}
            if g.emit(op, 'big:row->row')['ok']:
                pl = op['odst']
        d = g.fresh()
        g.emit({'op': 'newc', 'out': d, 'name': g.name(), 'init': []}, 'big:tube')
        op = {'op': 'transfer', 'src': {'p': pl, 'r': {'rect': [list(range(rows)), [cols - 1]]}}, 'dst': {'c': d}, 'q': q('20', 'u', 'L'), 'osrc': g.fresh(), 'odst': g.fresh()}
        if g.emit(op, 'big:column->c')['ok']:
            pl, d = op['osrc'], op['odst']
        op = {'op': 'remove', 't': {'p': pl, 'r': {'rect': [list(range(0, rows, 2)), list(range(1, cols, 3))]}}, 'w': {'k': 'Liquid'}, 'out': g.fresh()}
        if g.emit(op, 'big:remove-stepped')['ok']:
            pl = op['out']
        solvent = g.sub(kind=('Liquid',))
        op = {'op': 'fill', 't': {'p': pl, 'r': {'rect': [[0], list(range(0, cols, 2))]}}, 'solvent': solvent['id'], 'q': q('250', 'u', 'L'), 'out': g.fresh()}
        if g.emit(op, 'big:fill-row')['ok']:
            pl = op['out']
        out.append(g)
    return out


def huge_ratio_cases(seed):
    """directed: a request that is a vanishing share of a very large source (2.5 nL out of 100 L, a microgram out of 50 kg, a
    nanomole out of a litre of buffer, one unit out of 5e10): it moves exactly that, however small the ratio"""
    import random
    q = lambda v, p, b: {'v': v, 'p': p, 'b': b}
    out = []
    plans = [([(1, q('100', '', 'L')), (4, q('900', '', 'g'))], q('2.5', 'n', 'L')),
             ([(4, q('50', 'k', 'g'))], q('1', 'u', 'g')),
             ([(1, q('1', '', 'L')), (4, q('5.844', '', 'g'))], q('1', 'n', 'mol')),
             ([(1, q('1', '', 'L')), (6, q('50000', 'M', 'U'))], q('1', '', 'U'))]
    for i, (init, req) in enumerate(plans):
        g = Gen(random.Random(seed * 1009 + i), nsubs=9)
        op = {'op': 'newc', 'out': g.fresh(), 'name': g.name(), 'init': [[k, v] for k, v in init]}
        if not g.emit(op, 'huge:source')['ok']:
            continue
        src = op['out']
        d = g.fresh()
        g.emit({'op': 'newc', 'out': d, 'name': g.name(), 'init': []}, 'huge:tube')
        for _ in range(3):      # repeated: the same small request again and again
            op = {'op': 'transfer', 'src': {'c': src}, 'dst': {'c': d}, 'q': req, 'osrc': g.fresh(), 'odst': g.fresh()}
            if g.emit(op, 'huge:tiny-request')['ok']:
                src, d = op['osrc'], op['odst']
        out.append(g)
    return out



def short_well_cases(seed):
    """directed: a region pooled into a container (and dispensed from, well by well, into another plate) in which one row holds less
    than the request: the whole call is refused (ValueError), nothing is moved"""
    import random
    q = lambda v, p, b: {'v': v, 'p': p, 'b': b}
    out = []
    for i, (full, short, req) in enumerate((('50', '4', '20'), ('120', '15', '40'))):
        g = Gen(random.Random(seed * 907 + i), kinds=('Liquid', 'Solid', 'Liquid'))
        a = g.new_container(nsub=2, scale=5.0)
        pl = g.new_plate(rows=2, cols=3, max_ul=500)
        if a is None or pl is None:
            continue
        for r, v in ((0, full), (1, short)):
            op = {'op': 'transfer', 'src': {'c': a}, 'dst': {'p': pl, 'r': {'rect': [[r], [0, 1, 2]]}}, 'q': q(v, 'u', 'L'), 'osrc': g.fresh(), 'odst': g.fresh()}
            if g.emit(op, 'short:load')['ok']:
                a, pl = op['osrc'], op['odst']
        d = g.fresh()
        g.emit({'op': 'newc', 'out': d, 'name': g.name(), 'init': []}, 'short:tube')
        whole = {'rect': [[0, 1], [0, 1, 2]]}
        g.emit({'op': 'transfer', 'src': {'p': pl, 'r': whole}, 'dst': {'c': d}, 'q': q(req, 'u', 'L'), 'osrc': g.fresh(), 'odst': g.fresh()}, 'short:pool-refused')
        g.emit({'op': 'transfer', 'src': {'p': pl, 'r': {'rect': [[0, 1], [1]]}}, 'dst': {'c': d}, 'q': q(req, 'u', 'L'), 'osrc': g.fresh(), 'odst': g.fresh()}, 'short:column-refused')
        op = {'op': 'transfer', 'src': {'p': pl, 'r': {'rect': [[0], [0, 1, 2]]}}, 'dst': {'c': d}, 'q': q(req, 'u', 'L'), 'osrc': g.fresh(), 'odst': g.fresh()}
        g.emit(op, 'short:full-row-accepted')
        out.append(g)
    return out
