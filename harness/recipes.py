"""recipes.py -- recipe programs for C08 / C09 / C15 / C17: generator (runs the direct operations eagerly while it
generates: that eager run is also the independent ledger), executor through pyplate.Recipe, Gallina printer for
Recipe.showRecipe, decoder, and the query documents."""
import json, random
from fractions import Fraction as F
import common, dsl, gen
from common import coq_list, qstr

IMPORTS = 'Base Units Contents Container Dilute Solve Plate Prog Recipe'
UNITS_BY_KIND = {'Liquid': ['mL', 'umol', 'mg', 'uL', 'mmol', 'g'], 'Solid': ['umol', 'mg', 'mmol', 'g', 'uL'], 'Enzyme': ['U', 'mg', 'uL', 'kU']}
TOTAL_UNITS = ['uL', 'mL', 'mg', 'umol', 'U', 'g', 'mmol']
DECA_UNITS = ['daL', 'dag', 'damol']      # the one two-letter prefix


def split_unit(u):
    for b in ('mol', 'L', 'g', 'U'):
        if u.endswith(b):
            return u[:-len(b)], b


def coq_unit(u):
    p, b = split_unit(u)
    return f"({dsl.PFX[p][0]}, {dsl.BASE[b]})"


# ----------------------------------------------------------------------------- eager execution = the ledger
class Eager:
    """applies recipe steps directly (Container.* / Plate.*) to the current objects, keyed by name"""

    def __init__(self, subs):
        self.subs = {sd['id']: dsl.make_substance(sd) for sd in subs}
        self.byname = {s.name: k for k, s in self.subs.items()}
        self.bykey = {dsl.key_of(s): k for k, s in self.subs.items()}
        self.env = {}
        self.history = []      # after each successful step: {name: dump}
        self.trash = []        # per step: {sid: amount}
        self._d = dsl.Impl.__new__(dsl.Impl)
        self._d.subs, self._d.byname, self._d.bykey = self.subs, self.byname, self.bykey

    def dump(self, o):
        return dsl.Impl.dump(self._d, o)

    def snapshot(self):
        return {n: self.dump(o) for n, o in self.env.items()}

    def ref(self, r):
        if 'c' in r:
            return self.env[r['c']]
        return self.env[r['p']][dsl.py_selector(r['r'])]

    def what(self, w):
        return self.subs[w['s']] if 's' in w else dsl.KINDS[w['k']]

    def apply(self, st):
        from pyplate import Container, Plate
        k = st['op']
        before = None
        if k == 'create':
            self.env[st['name']] = Container(cname(st['name']), dsl.qty_str(st['max']) if st.get('max') else 'inf L',
                                             [(self.subs[s], dsl.qty_str(q)) for s, q in st['init']] or None)
        elif k in ('solution', 'solutionc'):
            kw = mode_kwargs(st['mode'])
            solutes = [self.subs[s] for s in st['solutes']]
            if k == 'solution':
                self.env[st['name']] = Container.create_solution(solutes, self.subs[st['solvent']], cname(st['name']), **kw)
            else:
                a, b = Container.create_solution(solutes, self.env[st['solventn']], cname(st['name']), **kw)
                self.env[st['solventn']], self.env[st['name']] = a, b
        elif k == 'solfrom':
            a, b = Container.create_solution_from(self.env[st['src']], self.subs[st['solute']], dsl.conc_str(st['c']),
                                                  self.subs[st['solvent']], dsl.qty_str(st['q']), cname(st['name']))
            self.env[st['src']], self.env[st['name']] = a, b
        elif k == 'transfer':
            src, dst = self.ref(st['src']), self.ref(st['dst'])
            sn, dn = name_of(st['src']), name_of(st['dst'])
            if 'c' in st['dst']:
                a, b = Container.transfer(src, dst, dsl.qty_str(st['q']))
            else:
                a, b = Plate.transfer(src, dst, dsl.qty_str(st['q']))
            self.env[sn] = a
            self.env[dn] = b
        elif k == 'remove':
            n = name_of(st['t'])
            before = self.dump(self.env[n])
            self.env[n] = self.ref(st['t']).remove(self.what(st['w']))
        elif k == 'dilute':
            self.env[st['name']] = self.env[st['name']].dilute(self.subs[st['solute']], dsl.conc_str(st['c']), self.subs[st['solvent']],
                                                               f"ren{st['name']}" if st.get('rename') else None)
        elif k == 'fill':
            n = name_of(st['t'])
            self.env[n] = self.ref(st['t']).fill_to(self.subs[st['solvent']], dsl.qty_str(st['q']))
        else:
            raise KeyError(k)
        tr = {}
        if before is not None:
            after = self.dump(self.env[name_of(st['t'])])
            for b, a in zip(containers(before), containers(after)):
                for s, x in b['cont'].items():
                    if s not in a['cont']:
                        tr[s] = tr.get(s, F(0)) + x
        self.trash.append(tr)
        self.history.append(self.snapshot())


def containers(d):
    return [d] if d['t'] == 'c' else d['wells']


def cname(n):
    """object names: every third one is written with blanks and brackets (' obj 3 [r3] '): a name is an arbitrary string"""
    return f"obj{n}" if n % 3 else f" obj {n} [r{n}] "


def name_of(ref):
    return ref['c'] if 'c' in ref else ref['p']


def mode_kwargs(m):
    kw = {}
    if 'cs' in m:
        kw['concentration'] = [dsl.conc_str(c) for c in m['cs']]
    if 'qs' in m:
        kw['quantity'] = [dsl.qty_str(q) for q in m['qs']]
    if 'total' in m:
        kw['total_quantity'] = dsl.qty_str(m['total'])
    return kw


# ----------------------------------------------------------------------------- through pyplate.Recipe
def run_recipe(prog):
    """returns (bake outcome, recipe, handles): outcome = ('ok', {name: dump}) | ('exc', class, msg)"""
    from pyplate import Container, Plate, Recipe
    subs = {sd['id']: dsl.make_substance(sd) for sd in prog['subs']}
    helper = Eager(prog['subs'])
    helper.subs = subs
    helper.byname = {s.name: k for k, s in subs.items()}
    helper.bykey = {dsl.key_of(s): k for k, s in subs.items()}
    helper._d.subs, helper._d.byname, helper._d.bykey = helper.subs, helper.byname, helper.bykey
    handles = {}
    for o in prog['objects']:
        if o['t'] == 'c':
            handles[o['name']] = Container(cname(o['name']), dsl.qty_str(o['max']) if o.get('max') else 'inf L',
                                           [(subs[s], dsl.qty_str(q)) for s, q in o['init']] or None)
        else:
            handles[o['name']] = Plate(cname(o['name']), dsl.qty_str(o['max']), rows=o['rows'], columns=o['cols'])
    for pf in prog.get('prefill', []):
        handles[pf['src']], handles[pf['dst']] = Plate.transfer(handles[pf['src']], handles[pf['dst']], dsl.qty_str(pf['q']))
    initial = {n: helper.dump(h) for n, h in handles.items()}
    r = Recipe()
    r.uses(*handles.values())
    kept = {}

    def stage_calls(i):
        # inside an open stage, every other step is preceded by a nested start_stage (refused: ValueError) -- a refused call changes nothing
        for s in prog['stages']:
            if s['start'] < i < s['stop'] and i % 2:
                try:
                    r.start_stage(f"nested{i}")
                    raise AssertionError(f"start_stage inside the open stage {s['name']} was accepted")
                except ValueError:
                    pass
        for s in prog['stages']:
            if s['stop'] == i and s['start'] < i:
                r.end_stage(s['name'])
        for s in prog['stages']:
            if s['start'] == i:
                r.start_stage(s['name'])
                if s['stop'] == i:
                    r.end_stage(s['name'])

    def href(ref):
        """the operand as a user would write it.  Two spellings that must not matter are mixed in deterministically: a list selector
        whose list object is changed by the caller AFTER the slice was taken, and a rectangle taken as a slice of a slice"""
        if 'c' in ref:
            return handles[ref['c']]
        import zlib
        sel = dsl.py_selector(ref['r'])
        pl = handles[ref['p']]
        h = zlib.crc32(json.dumps(ref, sort_keys=True).encode())
        if isinstance(sel, list):
            sl = pl[sel]
            if h % 2 == 0:
                sel.append((1, 1))          # the caller's list changes after the slice exists
            return sl
        if 'rect' in ref['r']:
            rows, cols = ref['r']['rect']
            if rows == list(range(rows[0], rows[-1] + 1)) and cols == list(range(cols[0], cols[-1] + 1)):
                # the block of rows is an object the caller KEEPS (one per plate object and row range): used by an earlier step as it is,
                # narrowed for a later one -- declaring a step must leave the caller's slice as it found it
                key = (id(pl), rows[0], rows[-1])
                outer = kept.get(key)
                if outer is None:
                    outer = kept[key] = pl[rows[0] + 1:rows[-1] + 1]   # rows, 1-based inclusive
                if cols == list(range(pl.n_columns)):
                    return outer
                return outer[:, cols[0]:cols[-1] + 1]                   # columns of that slice, 0-based exclusive
        return pl[sel]

    def what(w):
        return subs[w['s']] if 's' in w else dsl.KINDS[w['k']]
    try:
        for i, st in enumerate(prog['steps']):
            stage_calls(i)
            k = st['op']
            if k == 'create':
                handles[st['name']] = r.create_container(cname(st['name']), dsl.qty_str(st['max']) if st.get('max') else 'inf L',
                                                         [(subs[s], dsl.qty_str(q)) for s, q in st['init']] or None)
            elif k == 'solution':
                handles[st['name']] = r.create_solution([subs[s] for s in st['solutes']], subs[st['solvent']], cname(st['name']), **mode_kwargs(st['mode']))
            elif k == 'solutionc':
                handles[st['name']] = r.create_solution([subs[s] for s in st['solutes']], handles[st['solventn']], cname(st['name']), **mode_kwargs(st['mode']))
            elif k == 'solfrom':
                handles[st['name']] = r.create_solution_from(handles[st['src']], subs[st['solute']], dsl.conc_str(st['c']), subs[st['solvent']],
                                                             dsl.qty_str(st['q']), cname(st['name']))
            elif k == 'transfer':
                r.transfer(href(st['src']), href(st['dst']), dsl.qty_str(st['q']))
            elif k == 'remove':
                r.remove(href(st['t']), what(st['w']))
            elif k == 'dilute':
                r.dilute(handles[st['name']], subs[st['solute']], dsl.conc_str(st['c']), subs[st['solvent']],
                         f"ren{st['name']}" if st.get('rename') else None)
            elif k == 'fill':
                r.fill_to(href(st['t']), subs[st['solvent']], dsl.qty_str(st['q']))
        stage_calls(len(prog['steps']))
        res = r.bake()
    except Exception as e:  # noqa
        return ('exc', common.exc_class(e), str(e)[:160]), r, handles, helper, initial
    names = {cname(n): n for n in list(handles)}
    out = {}
    for key, o in res.items():
        out[names.get(key, key)] = helper.dump(o)
    return ('ok', out), r, handles, helper, initial


def run_queries(prog, r, handles, subs):
    out = []
    for q in prog['queries']:
        try:
            if q['q'] == 'used':
                dest = "plates" if q['dests'] == 'plates' else [handles[n] for n in q['dests']]
                if isinstance(dest, list) and len(out) % 3 == 1:
                    dest = iter(dest)       # `destinations` is documented as an iterable: every third query hands over a one-shot iterator
                v = r.get_substance_used(subs[q['s']], timeframe=q['stage'], unit=q['unit'], destinations=dest)
                out.append(('ok', F(v)))
            elif q['q'] == 'flows':
                f = r.get_container_flows(handles[q['n']], timeframe=q['stage'], unit=q['unit'])
                import numpy
                flat = lambda x: [F(float(y)) for y in numpy.asarray(x, dtype=float).flatten()]
                out.append(('ok', flat(f['in']), flat(f['out'])))
            else:
                v = r.get_amount_remaining(handles[q['n']], timeframe=q['stage'], unit=q['unit'], mode=q['mode'])
                if v is None:
                    out.append(('none',))
                else:
                    import numpy
                    out.append(('ok', [F(float(y)) for y in numpy.asarray(v, dtype=float).flatten()]))
        except Exception as e:  # noqa
            out.append(('exc', common.exc_class(e), str(e)[:100]))
    return out


# ----------------------------------------------------------------------------- Gallina
def coq_rref(r):
    if 'c' in r:
        return f"(RC {r['c']})"
    return f"(RP {r['p']} {dsl.coq_region(r['r'])})"


def coq_step(st):
    k = st['op']
    sl = lambda l: coq_list(['s%d' % s for s in l])
    if k == 'create':
        mx = f"(Some {dsl.coq_qty(st['max'])})" if st.get('max') else "None"
        return f"SCreate {st['name']} {mx} " + coq_list([f"(s{s}, {dsl.coq_qty(q)})" for s, q in st['init']])
    if k == 'solution':
        return f"SSolution {st['name']} {sl(st['solutes'])} s{st['solvent']} {dsl.coq_mode(st['mode'])}"
    if k == 'solutionc':
        return f"SSolutionC {st['name']} {sl(st['solutes'])} {st['solventn']} {dsl.coq_mode(st['mode'])}"
    if k == 'solfrom':
        return f"SSolutionFrom {st['src']} {st['name']} s{st['solute']} {dsl.coq_conc(st['c'])} s{st['solvent']} {dsl.coq_qty(st['q'])}"
    if k == 'transfer':
        return f"STransfer {coq_rref(st['src'])} {coq_rref(st['dst'])} {dsl.coq_qty(st['q'])}"
    if k == 'remove':
        return f"SRemove {coq_rref(st['t'])} {dsl.coq_what(st['w'])}"
    if k == 'dilute':
        return f"SDilute {st['name']} s{st['solute']} {dsl.coq_conc(st['c'])} s{st['solvent']}"
    if k == 'fill':
        return f"SFill {coq_rref(st['t'])} s{st['solvent']} {dsl.coq_qty(st['q'])}"
    raise KeyError(k)


def stage_range(prog, name):
    if name == 'all':
        return (0, len(prog['steps']))
    s = [x for x in prog['stages'] if x['name'] == name][0]
    return (s['start'], s['stop'])


def coq_query(prog, q, width):
    a, b = stage_range(prog, q['stage'])
    st = f"({a}%nat, {b}%nat)"
    if q['q'] == 'used':
        dests = q['dests'] if q['dests'] != 'plates' else [o['name'] for o in prog['objects'] if o['t'] == 'p']
        return f"QUsed s{q['s']} {st} {coq_list([str(d) + '%nat' for d in dests])} {coq_unit(q['unit'])}"
    if q['q'] == 'flows':
        return f"QFlows {q['n']} {width[q['n']]} {st} {coq_unit(q['unit'])}"
    return f"QRemaining {q['n']} {'true' if q['mode'] == 'after' else 'false'} {st} {coq_unit(q['unit'])}"


def to_coq(prog, d13=True):
    lets = " ".join(f"let s{sd['id']} := {dsl.coq_subst(sd)} in" for sd in prog['subs'])
    ops = []
    width = {}
    for o in prog['objects']:
        if o['t'] == 'c':
            ops.append("(" + dsl.coq_op({'op': 'newc', 'out': o['name'], 'name': o['name'], 'max': o.get('max'), 'init': o['init']}) + ")%nat")
            width[o['name']] = 1
        else:
            ops.append("(" + dsl.coq_op({'op': 'newp', 'out': o['name'], 'name': o['name'], 'rows': o['rows'], 'cols': o['cols'], 'max': o['max']}) + ")%nat")
            width[o['name']] = o['rows'] * o['cols']
    rows_cols = {o['name']: (o['rows'], o['cols']) for o in prog['objects'] if o['t'] == 'p'}
    for pf in prog.get('prefill', []):
        R, C = rows_cols[pf['dst']]
        ops.append("(" + dsl.coq_op({'op': 'transfer', 'src': {'c': pf['src']}, 'dst': {'p': pf['dst'], 'r': {'rect': [list(range(R)), list(range(C))]}},
                                      'q': pf['q'], 'osrc': pf['src'], 'odst': pf['dst']}) + ")%nat")
    for st in prog['steps']:
        if st['op'] in ('create', 'solution', 'solutionc', 'solfrom'):
            width[st['name']] = 1
    cfg = dsl.coq_cfg(prog.get('cfg'))
    steps = coq_list(["(" + coq_step(s) + ")%nat" for s in prog['steps']])
    qs = coq_list(["(" + coq_query(prog, q, width) + ")" for q in prog['queries']])
    return f"({lets} showRecipe {cfg} {'true' if d13 else 'false'} (objs_of {cfg} {coq_list(ops)}) {steps} {qs})"


def decode(ints, prog):
    r = common.Reader(ints)
    if r.int() == 0:
        return ('exc', common.ERR_CODE[r.int()]), []
    n = r.int()
    env = {}
    for _ in range(n):
        name = r.int()
        env[name] = dsl.dec_obj(r)
    qs = []
    for q in prog['queries']:
        t = r.int()
        if q['q'] == 'used':
            qs.append(('ok', r.q()) if t == 1 else ('exc', common.ERR_CODE[r.int()]))
        elif q['q'] == 'flows':
            k = r.int(); a = [r.q() for _ in range(k)]
            k = r.int(); b = [r.q() for _ in range(k)]
            qs.append(('ok', a, b))
        else:
            if t == 2:
                qs.append(('none',))
            else:
                k = r.int()
                qs.append(('ok', [r.q() for _ in range(k)]))
    assert r.done(), 'trailing output'
    return ('ok', env), qs


# ----------------------------------------------------------------------------- generator
class RecipeGen:
    def __init__(self, rng, nsteps, allow_d13=False, with_solutions=True, allow_rename=False, p_over=0.2):
        self.p_over = p_over      # share of capacity-declaring create steps whose contents do not fit
        self.rng = rng
        self.allow_rename = allow_rename
        g = gen.Gen(rng)
        self.g = g
        self.subs = g.subs
        self.eager = Eager(self.subs)
        self.objects, self.steps = [], []
        self.nname = 0
        self.failed = None
        self.stats = {}
        # declared objects: containers with contents, empty plates
        for _ in range(rng.randint(2, 3)):
            self.add_container()
        for _ in range(rng.choice([0, 1, 1, 2])):
            n = self.fresh()
            o = {'t': 'p', 'name': n, 'rows': rng.randint(1, 3), 'cols': rng.randint(1, 4),
                 'max': {'v': str(rng.choice([300, 1000, 2000])), 'p': 'u', 'b': 'L'}}
            from pyplate import Plate
            self.eager.env[n] = Plate(cname(n), dsl.qty_str(o['max']), rows=o['rows'], columns=o['cols'])
            self.objects.append(o)
        # some plates are declared already loaded (from one of the declared containers, before the recipe exists)
        self.prefill = []
        from pyplate import Plate as _Plate
        for o in self.objects:
            if o['t'] == 'p' and rng.random() < 0.4:
                cs = [c['name'] for c in self.objects if c['t'] == 'c' and self.eager.env[c['name']].volume > 100]
                if not cs:
                    continue
                src = rng.choice(cs)
                P = self.eager.env[o['name']]
                ncell = P.n_rows * P.n_columns
                per = min(self.eager.env[src].volume * 0.25 / ncell, P.wells[0, 0].max_volume * 0.3)
                if per < 1:
                    continue
                q = {'v': gen.dec(per, 2, down=True), 'p': 'u', 'b': 'L'}
                self.eager.env[src], self.eager.env[o['name']] = _Plate.transfer(self.eager.env[src], P, dsl.qty_str(q))
                self.prefill.append({'src': src, 'dst': o['name'], 'q': q})
                self.stats['prefilled plate'] = self.stats.get('prefilled plate', 0) + 1
        self.initial = self.eager.snapshot()
        guard = 0
        while len(self.steps) < nsteps and self.failed is None and guard < nsteps * 5:
            guard += 1
            self.add_step(allow_d13, with_solutions)
        # every declared object must be used, else bake refuses: touch unused ones with a tiny removal
        used = set()
        for st in self.steps:
            for k in ('src', 'dst', 't'):
                if k in st and isinstance(st[k], dict):
                    used.add(name_of(st[k]))
            for k in ('name', 'solventn', 'src'):
                if k in st and not isinstance(st[k], dict):
                    used.add(st[k])
        if self.failed is None:
            for o in self.objects:
                if o['name'] not in used:
                    w = {'s': self.g.sub()['id']}
                    t = {'c': o['name']} if o['t'] == 'c' else {'p': o['name'], 'r': self.whole(o['name'])}
                    self.try_step({'op': 'remove', 't': t, 'w': w})
        else:
            # the recipe ends with a step that cannot be performed: the objects no step touches are touched FIRST (a removal of a substance
            # from each), so that bake has no other reason to refuse than that step.  (The ledger of a failing recipe is not used.)
            pre = []
            for o in self.objects:
                if o['name'] not in used:
                    t = {'c': o['name']} if o['t'] == 'c' else {'p': o['name'], 'r': self.whole(o['name'])}
                    pre.append({'op': 'remove', 't': t, 'w': {'s': self.g.sub()['id']}})
            self.steps = pre + self.steps
            self.failed = (self.failed[0] + len(pre),) + tuple(self.failed[1:])
        self.stages = self.make_stages()

    def fresh(self):
        self.nname += 1
        return self.nname

    def whole(self, n):
        p = self.eager.env[n]
        return {'rect': [list(range(p.n_rows)), list(range(p.n_columns))]}

    def add_container(self):
        rng, g = self.rng, self.g
        n = self.fresh()
        init, usedk = [], set()
        for _ in range(rng.choice([1, 2, 2, 3])):
            s = g.sub(notin=usedk)
            if s is None:
                break
            usedk.add(s['id'])
            if s['kind'] == 'Liquid':
                q = gen.pick_qty(rng, 0.004 * rng.uniform(0.5, 3), 'L', sig=2)
            elif s['kind'] == 'Solid':
                q = gen.pick_qty(rng, 0.3 * rng.uniform(0.3, 3), 'g', sig=2)
            else:
                q = gen.pick_qty(rng, 40.0 * float(s['dens']) * rng.uniform(0.3, 3), 'U', sig=2)
            init.append((s['id'], q))
        # always some liquid so that volume transfers make sense
        if not any(self.kind(s) == 'Liquid' for s, _ in init):
            s = g.sub(kind=('Liquid',))
            init.append((s['id'], gen.pick_qty(rng, 0.005, 'L', sig=2)))
        o = {'t': 'c', 'name': n, 'init': init}
        from pyplate import Container
        self.eager.env[n] = Container(cname(n), 'inf L', [(self.eager.subs[s], dsl.qty_str(q)) for s, q in init])
        self.objects.append(o)

    def kind(self, sid):
        return [s for s in self.subs if s['id'] == sid][0]['kind']

    def try_step(self, st, tag=None):
        try:
            self.eager.apply(st)
        except Exception as e:  # noqa
            self.failed = (len(self.steps), common.exc_class(e), str(e)[:120])
        self.steps.append(st)
        self.stats[st['op']] = self.stats.get(st['op'], 0) + 1
        if tag:
            self.stats[tag] = self.stats.get(tag, 0) + 1

    def containers(self):
        from pyplate import Container
        return [n for n, o in self.eager.env.items() if isinstance(o, Container)]

    def plates(self):
        from pyplate import Plate
        return [n for n, o in self.eager.env.items() if isinstance(o, Plate)]

    def region(self, n, kind=None, avoid=None, nonempty=False):
        g = self.g
        g.impl.env['_tmp'] = self.eager.env[n]
        r = g.nonempty_region('_tmp', kind, avoid) if nonempty else g.region('_tmp', kind, avoid)
        return r

    def add_step(self, allow_d13, with_solutions):
        rng, g, E = self.rng, self.g, self.eager
        cs, ps = self.containers(), self.plates()
        choices = ['cc', 'cc', 'remove', 'fill', 'create']
        if ps:
            choices += ['cp', 'cp', 'cp', 'pc', 'pp', 'pp', 'fillp', 'removep']
        if with_solutions:
            choices += ['solution', 'solfrom', 'dilute', 'solutionc']
        k = rng.choice(choices)
        nonempty = [c for c in cs if E.env[c].volume > 0]
        if k == 'cc' and len(cs) >= 2 and nonempty:
            s = rng.choice(nonempty)
            d = rng.choice([c for c in cs if c != s])
            q, b = g.transfer_qty(E.env[s], rng.choice([0.05, 0.1, 0.2, 0.3, 1.5 if rng.random() < 0.15 else 0.25]))
            self.try_step({'op': 'transfer', 'src': {'c': s}, 'dst': {'c': d}, 'q': q})
        elif k == 'cp' and nonempty:
            s, d = rng.choice(nonempty), rng.choice(ps)
            r = self.region(d)
            cells = dsl.region_cells(r, 0)
            src = E.env[s]
            free = min(E.env[d].wells[a, b].max_volume - E.env[d].wells[a, b].volume for a, b in cells)
            f = min(rng.choice([0.05, 0.1, 0.3]), 0.5 * free / src.volume * len(cells)) if src.volume > 0 else 0.1
            q, b = g.transfer_qty(src, f, nshare=len(cells))
            self.try_step({'op': 'transfer', 'src': {'c': s}, 'dst': {'p': d, 'r': r}, 'q': q})
        elif k == 'pc' and cs:
            s, d = rng.choice(ps), rng.choice(cs)
            r = self.region(s, nonempty=True)
            g.impl.env['_tmp'] = E.env[s]
            q, b = g.min_well_qty('_tmp', r, rng.choice([0.2, 0.5, 0.9]))
            if q is not None:
                self.try_step({'op': 'transfer', 'src': {'p': s, 'r': r}, 'dst': {'c': d}, 'q': q})
        elif k == 'pp':
            s = rng.choice(ps)
            d = s if (len(ps) < 2 or rng.random() < 0.5) else rng.choice([p for p in ps if p != s])
            rs = self.region(s, 'one' if rng.random() < 0.4 else None, nonempty=True)
            if rs is None:
                return
            ns = len(dsl.region_cells(rs, 0))
            avoid = set(dsl.region_cells(rs, 0)) if s == d else None
            if ns == 1:
                rd = self.region(d, None, avoid)
            else:
                # same shape: shift is hard in general; use many-to-one or an equal region on another plate
                if s != d and 'rect' in rs and max(rs['rect'][0]) < E.env[d].n_rows and max(rs['rect'][1]) < E.env[d].n_columns:
                    rd = rs
                else:
                    rd = self.region(d, 'one', avoid)
            if rd is None:
                return
            g.impl.env['_tmp'] = E.env[s]
            nd = len(dsl.region_cells(rd, 0))
            q, b = g.min_well_qty('_tmp', rs, rng.choice([0.2, 0.5]) / (nd if ns == 1 else 1))
            if q is not None:
                self.try_step({'op': 'transfer', 'src': {'p': s, 'r': rs}, 'dst': {'p': d, 'r': rd}, 'q': q}, 'pp:same' if s == d else 'pp:two')
        elif k == 'remove' and cs:
            w = {'k': rng.choice(['Solid', 'Liquid', 'Enzyme'])} if rng.random() < 0.3 else {'s': g.sub()['id']}
            self.try_step({'op': 'remove', 't': {'c': rng.choice(cs)}, 'w': w})
        elif k == 'removep':
            n = rng.choice(ps)
            w = {'k': rng.choice(['Solid', 'Liquid', 'Enzyme'])} if rng.random() < 0.3 else {'s': g.sub()['id']}
            r = self.whole(n) if rng.random() < 0.5 else self.region(n)
            self.try_step({'op': 'remove', 't': {'p': n, 'r': r}, 'w': w}, 'remove:whole' if r == self.whole(n) else 'remove:slice')
        elif k == 'fill' and cs:
            n = rng.choice(cs)
            solvent = g.sub(kind=('Liquid',))
            b = rng.choice(['L', 'g', 'mol'])
            cur = g.measure(E.env[n], b)
            base = cur * rng.choice([1.2, 1.5, 2]) if cur > 0 else {'L': 0.002, 'g': 2.0, 'mol': 0.05}[b]
            self.try_step({'op': 'fill', 't': {'c': n}, 'solvent': solvent['id'], 'q': gen.pick_qty(rng, base, b, sig=2)})
        elif k == 'fillp':
            n = rng.choice(ps)
            solvent = g.sub(kind=('Liquid',))
            whole = self.whole(n)
            r = whole
            if allow_d13 and rng.random() < 0.5:
                r = self.region(n)
            cells = dsl.region_cells(whole, 0)      # D13: every well is filled, so choose a target every well can reach
            P = E.env[n]
            cur = max(P.wells[a, b].volume for a, b in cells) * 1e-6
            cap = P.wells[0, 0].max_volume * 1e-6
            target = min(max(cur * 1.3, 20e-6), cap * 0.9)
            if target > cur:
                self.try_step({'op': 'fill', 't': {'p': n, 'r': r}, 'solvent': solvent['id'], 'q': gen.pick_qty(rng, target, 'L', sig=2)},
                              'fill:whole' if r == whole else 'fill:slice(D13)')
        elif k == 'create':
            n = self.fresh()
            s = g.sub(kind=('Liquid',))
            init = [(s['id'], gen.pick_qty(rng, 0.003 * rng.uniform(0.5, 2), 'L', sig=2))]
            if rng.random() < 0.5:
                s2 = g.sub(kind=('Solid', 'Enzyme'))
                if s2:
                    init.append((s2['id'], gen.pick_qty(rng, 0.2, 'g', sig=2) if s2['kind'] == 'Solid' else gen.pick_qty(rng, 30 * float(s2['dens']), 'U', sig=2)))
            if rng.random() < 0.3:      # a substance listed twice: the amounts add up, as in Container(...)
                sid, q0 = rng.choice(init)
                init.insert(rng.randrange(len(init) + 1), (sid, dict(q0, v=gen.dec(float(q0['v']) * rng.choice([0.5, 1, 2]), 2))))
            st = {'op': 'create', 'name': n, 'init': init}
            tag = 'create:repeated' if len({s for s, _ in init}) < len(init) else None
            if rng.random() < 0.4:
                # a declared capacity: roomy, or (rarely) smaller than the listed contents -- performing the step then fails, and so must bake
                from pyplate import Container
                vol = Container('probe', initial_contents=[(E.subs[s], dsl.qty_str(q)) for s, q in init]).volume * 1e-6
                over = rng.random() < self.p_over
                st['max'] = gen.pick_qty(rng, vol * (rng.choice([0.5, 0.8]) if over else rng.choice([1.5, 3])), 'L', sig=2)
                tag = 'create:over-capacity' if over else 'create:capacity'
            self.try_step(st, tag)
        elif k == 'solution':
            solute = g.sub(kind=('Solid',))
            solvent = g.sub(kind=('Liquid',))
            if solute and solvent:
                n = self.fresh()
                mode = {'cs': [{'s': 'M', 'v': rng.choice(['0.5', '0.1', '1', '0.25'])}], 'total': gen.pick_qty(rng, 0.004 * rng.uniform(0.5, 2), 'L', sig=2)}
                self.try_step({'op': 'solution', 'name': n, 'solutes': [solute['id']], 'solvent': solvent['id'], 'mode': mode})
        elif k == 'solutionc' and nonempty:
            solute = g.sub(kind=('Solid',))
            sv = rng.choice(nonempty)
            if solute and E.env[sv].has_liquid():
                n = self.fresh()
                tot = E.env[sv].volume * 1e-6 * rng.choice([0.1, 0.2, 0.3])
                mode = {'cs': [{'v': rng.choice(['5', '10', '20']), 'np': 'm', 'nb': 'g', 'dp': 'm', 'db': 'L'}], 'total': gen.pick_qty(rng, tot, 'L', sig=2)}
                self.try_step({'op': 'solutionc', 'name': n, 'solutes': [solute['id']], 'solventn': sv, 'mode': mode})
        elif k == 'solfrom':
            # dilute a stock of a solid in a liquid
            cand = [(c, s) for c in nonempty for s in E.env[c].contents if s.is_solid() and E.env[c].contents[s] > 0 and E.env[c].has_liquid()]
            solvent = g.sub(kind=('Liquid',))
            if cand and solvent:
                c, s = rng.choice(cand)
                cur = E.env[c].get_concentration(s, 'M')
                if cur > 0:
                    n = self.fresh()
                    conc = {'s': 'M', 'v': gen.dec(cur * rng.choice([0.2, 0.5, 0.8, 1.5 if rng.random() < 0.2 else 0.4]), 2)}
                    q = gen.pick_qty(rng, E.env[c].volume * 1e-6 * rng.choice([0.1, 0.3]), 'L', sig=2)
                    from pyplate.pyplate import Unit as _U
                    stock_mol = _U.convert_from(s, E.env[c].contents[s], _cfg().moles_storage_unit, 'mol')
                    self.try_step({'op': 'solfrom', 'src': c, 'name': n, 'solute': dsl.sid_of(E, s), 'c': conc, 'solvent': solvent['id'], 'q': q,
                                   'stock_mol': '%.3g' % stock_mol})
        elif k == 'dilute':
            cand = [(c, s) for c in nonempty for s in E.env[c].contents if s.is_solid() and E.env[c].contents[s] > 0 and E.env[c].has_liquid()]
            solvent = g.sub(kind=('Liquid',))
            if cand and solvent:
                c, s = rng.choice(cand)
                cur = E.env[c].get_concentration(s, 'M')
                if cur > 0:
                    conc = {'s': 'M', 'v': gen.dec(cur * rng.choice([0.3, 0.5, 0.8]), 2)}
                    st = {'op': 'dilute', 'name': c, 'solute': dsl.sid_of(E, s), 'c': conc, 'solvent': solvent['id']}
                    if self.allow_rename and rng.random() < 0.4:
                        st['rename'] = True
                    self.try_step(st, 'dilute:rename' if st.get('rename') else None)

    def make_stages(self):
        rng = self.rng
        n = len(self.steps)
        stages = []
        pos = 0
        k = 0
        if rng.random() < 0.35:     # a stage opened and closed before the first step
            k += 1
            stages.append({'name': 'st1', 'start': 0, 'stop': 0})
        while pos < n and k < 3:
            a = rng.randint(pos, n)
            b = rng.randint(a, n)
            if rng.random() < 0.7:
                k += 1
                stages.append({'name': f"st{k}", 'start': a, 'stop': b})
            pos = b
            if rng.random() < 0.3:
                break
        return stages

    def prog(self, queries):
        return {'subs': self.subs, 'objects': self.objects, 'prefill': getattr(self, 'prefill', []), 'steps': self.steps, 'stages': self.stages, 'queries': queries}


# ----------------------------------------------------------------------------- shared driver for C08 / C09 / C15
PRECISION = {'uL': 0, 'umol': 1, 'mg': 1}


def touched_names(st):
    out = set()
    for k in ('src', 'dst', 't'):
        if k in st and isinstance(st[k], dict):
            out.add(name_of(st[k]))
    for k in ('name', 'solventn', 'src'):
        if k in st and not isinstance(st[k], dict):
            out.add(st[k])
    return out


def ledger_state(rg_initial, history, k, name):
    """dump of object `name` after step k (k = -1: before the first step); None if it does not exist yet"""
    if k < 0:
        return rg_initial.get(name)
    return history[k].get(name)


def amount(d, sid):
    if d is None:
        return F(0)
    return sum((c['cont'].get(sid, F(0)) for c in containers(d)), F(0))


def totals(subs, d, unit):
    import histcheck
    p, b = split_unit(unit)
    if d is None:
        return [F(0)]
    return [histcheck.measure(subs, c, b) / dsl.PFX[p][1] for c in containers(d)]


def _cfg():
    from pyplate.pyplate import config
    return config


def relax(prog):
    """create_solution_from rounds the stock's solute to 1e-10 mol: results are only ~1e-7 exact (DESIGN 4.4)"""
    if not any(s['op'] in ('solfrom', 'solutionc') for s in prog['steps']):
        return F(2, 10**8)
    # the stock's solute is read through convert_from_storage(.., 'mol'), i.e. rounded to 1e-10 mol: a stock holding n mol of
    # the solute gives amounts that are exact to about 1e-10 / n only (the generator records n with the step)
    rt = F(1, 10**6)
    for s in prog['steps']:
        if s['op'] == 'solfrom' and s.get('stock_mol'):
            rt = max(rt, F(10) * F(1, 10**10) / F(s['stock_mol']))
    return rt


def check(chk, tag, gens_queries, oracle, rule, nontrivial_key, d13=True):
    """gens_queries: list of (RecipeGen, queries).  oracle(prog, rg, outcome, qres) -> list of messages"""
    import histcheck, time
    t0 = time.time()
    progs = [rg.prog(qs) for rg, qs in gens_queries]
    terms = [to_coq(p, d13) for p in progs]
    res, errs = common.coq_eval(tag, IMPORTS, terms, chunk=4)
    ndis = nfail = 0
    nontrivial = set()
    stats = {}
    samples = []
    nq = 0
    for idx, ((rg, qs), prog, m) in enumerate(zip(gens_queries, progs, res)):
        for k, v in rg.stats.items():
            stats[k] = stats.get(k, 0) + v
        out, r, handles, helper, initial = run_recipe(prog)
        qres = run_queries(prog, r, handles, helper.subs) if out[0] == 'ok' else []
        nq += len(qres)
        for key in nontrivial_key(prog, rg, out, qres):
            nontrivial.add(key)
        try:
            fails, known = oracle(prog, rg, out, qres)
        except Exception:  # noqa
            import traceback
            fails, known = ['oracle crashed: ' + traceback.format_exc()[-500:]], []
        for key, what in known:
            chk.known(key, what)
        if fails:
            nfail += 1
            if nfail <= 3:
                chk.violation(fails[0], {'recipe': prog, 'failures': fails[:5], 'bake': str(out)[:300]})
        # ---- correspondence
        diffs = []
        if m is None:
            diffs.append('model evaluation failed')
        else:
            mo, mq = decode(m, prog)
            if out[0] != mo[0]:
                diffs.append(f"bake decision: impl {out[:3] if out[0] == 'exc' else 'ok'} model {mo if mo[0] == 'exc' else 'ok'}")
            elif out[0] == 'exc':
                if not dsl.exc_matches(out[1], mo[1]):
                    diffs.append(f"bake exception class: impl {out[1]} model {mo[1]}")
            else:
                k = F(histcheck.tol_scale(prog))
                rt = relax(prog)
                if set(out[1]) != set(mo[1]):
                    diffs.append(f"bake returns names {sorted(map(str, out[1]))}, model {sorted(mo[1])}")
                for name, d in out[1].items():
                    if name in mo[1]:
                        diffs += dsl.cmp_obj(d, mo[1][name], F(1, 10**7) * k * len(prog['steps']), rt, f"object {name}")
                for q, a, b in zip(prog['queries'], qres, mq):
                    if a[0] != b[0]:
                        diffs.append(f"query {q}: impl {a[:2]} model {b[:2]}")
                        continue
                    if a[0] != 'ok':
                        continue
                    xs, ys = ([[a[1]]], [[b[1]]]) if q['q'] == 'used' else (a[1:], b[1:])
                    half = F(10) ** (-PRECISION.get(q['unit'], 3)) * F(51, 100) if q['q'] != 'remaining' else F(0)
                    for X, Y in zip(xs, ys):
                        if len(X) != len(Y):
                            diffs.append(f"query {q}: shapes differ")
                            continue
                        for x, y in zip(X, Y):
                            if abs(x - y) > half + abs(y) * rt * 10 + F(1, 10**6) * k:
                                diffs.append(f"query {q}: impl {float(x)!r} model {float(y)!r}")
        if diffs:
            ndis += 1
            if not fails and ndis <= 3:
                chk.violation('model/implementation disagree: ' + diffs[0], {'relation': 'Recipe.bake/queries ~ Recipe model', 'recipe': prog,
                                                                            'differences': diffs[:5]}, found_input=False)
        if idx % max(1, len(progs) // 3) == 0 and len(samples) < 3:
            samples.append({'steps': [json.dumps(s)[:140] for s in prog['steps'][:4]], 'stages': prog['stages'], 'bake': out[0],
                            'query0': (str(prog['queries'][0])[:120], str(qres[0])[:100]) if qres else None})
    if errs:
        chk.violation('model evaluation failed: ' + errs[0][:300], {'relation': 'coq_eval ' + tag, 'errors': errs[:3]}, found_input=False)
    return {'evaluations': sum(len(p['steps']) for p in progs) + nq, 'programs': len(progs), 'queries': nq,
            'distinct_nontrivial': len(nontrivial), 'rule': rule, 'disagreements_checked': ndis, 'oracle_failures': nfail,
            'samples': samples, 'generator_distribution': stats, 'correspondence_s': round(time.time() - t0, 1),
            'bake_failures_generated': sum(1 for rg, _ in gens_queries if rg.failed)}


RVARIANTS = [('display mL / mmol', {'volume_display_unit': 'mL', 'moles_display_unit': 'mmol'}),
             ('storage mL / umol', {'volume_storage_unit': 'mL'}),
             ('storage uL / mmol', {'moles_storage_unit': 'mmol'})]


def solids_only_recipe():
    """directed: wells that hold only a solid (no volume at all under default densities inf), then a removal on part of them"""
    q = lambda v, p, b: {'v': v, 'p': p, 'b': b}
    subs = [s for s in dsl.LIBRARY if s['id'] in (1, 4)]
    col = {'rect': [[0, 1], [0]]}
    return {'subs': [dict(s) for s in subs], 'objects': [{'t': 'c', 'name': 1, 'init': [[4, q('100', 'm', 'g')]]},
                                                         {'t': 'p', 'name': 2, 'rows': 2, 'cols': 3, 'max': q('300', 'u', 'L')}],
            'prefill': [], 'steps': [{'op': 'transfer', 'src': {'c': 1}, 'dst': {'p': 2, 'r': col}, 'q': q('10', 'm', 'g')},
                                     {'op': 'remove', 't': {'p': 2, 'r': {'rect': [[0], [0]]}}, 'w': {'s': 4}},
                                     {'op': 'transfer', 'src': {'c': 1}, 'dst': {'p': 2, 'r': {'rect': [[1], [1, 2]]}}, 'q': q('5', 'm', 'g')},
                                     {'op': 'remove', 't': {'p': 2, 'r': {'rect': [[0, 1], [0, 1, 2]]}}, 'w': {'k': 'Solid'}}],
            'stages': [], 'queries': []}


def density_variant(chk, gens_queries, ledger_oracle, tag, limit=8):
    """recipes under default densities inf (solids and enzymes occupy no volume), substances made by the library's factories: bake
    against the eager execution of the same steps performed in the same process under that configuration"""
    import histcheck, copy, types
    overrides = {'default_solid_density': float('inf'), 'default_enzyme_density': float('inf')}
    sel = gens_queries[:limit]
    progs = [solids_only_recipe()] + [copy.deepcopy(rg.prog([])) for rg, qs in sel]
    for p in progs:
        for sd in p['subs']:
            if sd['kind'] in ('Solid', 'Enzyme'):
                sd['dens'] = 'inf'
    try:
        _, res = histcheck.run_job([], progs, overrides, tag + '_d', factory_density=True, ledger=True)
    except Exception as e:  # noqa
        chk.violation(f"recipes could not be run under default densities inf: {e}", {'relation': 'configuration variant densities inf'}, found_input=False)
        return 0
    n = 0
    for prog, (out, qres, led) in zip(progs, res):
        n += len(prog['steps'])
        rg = types.SimpleNamespace(failed=tuple(led['failed']) if led['failed'] else None, initial=led['initial'],
                                   eager=types.SimpleNamespace(history=led['history']))
        try:
            fails = ledger_oracle(prog, rg, out)
        except Exception:  # noqa
            import traceback
            fails = ['oracle crashed under a configuration variant: ' + traceback.format_exc()[-400:]]
        if fails:
            chk.violation("under configuration 'solids and enzymes without volume (default densities inf)': " + fails[0],
                          {'recipe': prog, 'configuration': {k: str(v) for k, v in overrides.items()}, 'factory_density': True, 'failures': fails[:5]})
            break
    return n


def variants(chk, gens_queries, oracle, tag, limit=8):
    """the first recipes (and their queries) again, in a separate process, under configurations that differ in display or storage
    units: the property oracle only, against the eager ledger built at generation (which is in uL / umol whatever the variant)"""
    import histcheck, copy
    n = 0
    for vi, (name, overrides) in enumerate(RVARIANTS):
        storage = any(k.endswith('storage_unit') for k in overrides)
        sel = gens_queries[:limit]
        progs = [copy.deepcopy(rg.prog(qs)) for rg, qs in sel]
        if storage:
            for p in progs:
                p['tol_k'] = 1000.0
        try:
            _, res = histcheck.run_job([], progs, overrides, f'{tag}_{vi}')
        except Exception as e:  # noqa
            chk.violation(f"recipes could not be run under configuration '{name}': {e}", {'relation': 'configuration variant ' + name}, found_input=False)
            continue
        for (rg, qs), prog, (out, qres) in zip(sel, progs, res):
            if storage and prog.get('no_storage_variants'):
                continue
            n += len(prog['steps']) + len(qres)
            try:
                fails, known = oracle(prog, rg, out, qres)
            except Exception:  # noqa
                import traceback
                fails, known = ['oracle crashed under a configuration variant: ' + traceback.format_exc()[-400:]], []
            for key, what in known:
                chk.known(key, what)
            if fails:
                chk.violation(f"under configuration '{name}': " + fails[0],
                              {'recipe': prog, 'configuration': {k: str(v) for k, v in overrides.items()}, 'failures': fails[:5]})
                break
    return n


def replay(path, oracle):
    r = json.load(open(path))
    prog = r.get('recipe')
    if not prog:
        print(json.dumps(r, indent=1)[:3000])
        return 1
    for i, s in enumerate(prog['steps']):
        print(i, json.dumps(s)[:200])
    print('stages', prog['stages'])
    rg = Replayed(prog)
    if r.get('configuration'):
        import histcheck
        print('configuration:', r['configuration'])
        out, qres = histcheck.run_job([], [prog], histcheck.parse_overrides(r['configuration']), 'replay')[1][0]
    else:
        out, rec, handles, helper, initial = run_recipe(prog)
        qres = run_queries(prog, rec, handles, helper.subs) if out[0] == 'ok' else []
    print('bake:', out[0], out[1:3] if out[0] == 'exc' else '')
    fails, known = oracle(prog, rg, out, qres)
    for key, what in known:
        print('KNOWN-FINDING reproduces:', key, '-', what)
    for f in fails[:5]:
        print('PROPERTY FAILS:', f)
    print('property', 'FAILS' if fails else 'HOLDS', 'on this input')
    return 1 if fails else 0


class Replayed:
    """the eager ledger of a stored program (what RecipeGen builds while generating)"""

    def __init__(self, prog):
        from pyplate import Container, Plate
        self.subs = prog['subs']
        self.eager = Eager(self.subs)
        self.objects, self.steps, self.stages = prog['objects'], prog['steps'], prog['stages']
        self.failed = None
        self.stats = {}
        for o in prog['objects']:
            if o['t'] == 'c':
                self.eager.env[o['name']] = Container(cname(o['name']), dsl.qty_str(o['max']) if o.get('max') else 'inf L',
                                                      [(self.eager.subs[s], dsl.qty_str(q)) for s, q in o['init']] or None)
            else:
                self.eager.env[o['name']] = Plate(cname(o['name']), dsl.qty_str(o['max']), rows=o['rows'], columns=o['cols'])
        for pf in prog.get('prefill', []):
            self.eager.env[pf['src']], self.eager.env[pf['dst']] = Plate.transfer(self.eager.env[pf['src']], self.eager.env[pf['dst']], dsl.qty_str(pf['q']))
        self.initial = self.eager.snapshot()
        for i, st in enumerate(prog['steps']):
            try:
                self.eager.apply(st)
            except Exception as e:  # noqa
                self.failed = (i, common.exc_class(e), str(e)[:120])
                break
        self._prog = prog

    def prog(self, queries):
        return dict(self._prog, queries=queries)


def twin_lot_recipes():
    """directed recipes with two lots of one enzyme (same name, other specific activity: dsl.TWIN_LOT) treated alike one after the
    other: made up by mass in recipe steps (equal masses, different activities), or declared with the same activity (equal stored
    amounts, different masses); dispensed into the rows of a plate, topped up, pooled again"""
    q = lambda v, p, b: {'v': v, 'p': p, 'b': b}
    subs = [dict(s) for s in dsl.LIBRARY if s['id'] in (1, 6)] + [dict(dsl.TWIN_LOT)]
    row = lambda r: {'rect': [[r], [0, 1, 2]]}
    tail = [{'op': 'transfer', 'src': {'c': 4}, 'dst': {'p': 2, 'r': row(0)}, 'q': q('50', 'u', 'L')},
            {'op': 'transfer', 'src': {'c': 5}, 'dst': {'p': 2, 'r': row(1)}, 'q': q('50', 'u', 'L')},
            {'op': 'transfer', 'src': {'c': 1}, 'dst': {'c': 4}, 'q': q('1', 'm', 'L')},
            {'op': 'transfer', 'src': {'c': 1}, 'dst': {'c': 5}, 'q': q('1', 'm', 'L')},
            {'op': 'transfer', 'src': {'p': 2, 'r': row(1)}, 'dst': {'c': 3}, 'q': q('10', 'u', 'L')}]
    base = [{'t': 'c', 'name': 1, 'init': [[1, q('20', 'm', 'L')]]}, {'t': 'p', 'name': 2, 'rows': 2, 'cols': 3, 'max': q('300', 'u', 'L')},
            {'t': 'c', 'name': 3, 'init': []}]
    progs = []
    for a, b in ((6, 10), (10, 6)):
        mode = lambda: {'qs': [q('5', 'm', 'g')], 'total': q('10', 'm', 'L')}
        progs.append({'subs': subs, 'objects': base, 'prefill': [],
                      'steps': [{'op': 'solution', 'name': 4, 'solutes': [a], 'solvent': 1, 'mode': mode()},
                                {'op': 'solution', 'name': 5, 'solutes': [b], 'solvent': 1, 'mode': mode()}] + tail,
                      'stages': [{'name': 'st1', 'start': 2, 'stop': 4}], 'queries': []})
        progs.append({'subs': subs, 'objects': base + [{'t': 'c', 'name': 4, 'init': [[1, q('10', 'm', 'L')], [a, q('700', '', 'U')]]},
                                                       {'t': 'c', 'name': 5, 'init': [[1, q('10', 'm', 'L')], [b, q('700', '', 'U')]]}],
                      'prefill': [], 'steps': list(tail), 'stages': [{'name': 'st1', 'start': 0, 'stop': 2}], 'queries': []})
    return progs


def directed_recipes():
    """hand-written recipes for situations the random generator reaches only by chance: quantities with a fractional number of
    microlitres / tenths of a milligram; a removal on part of a plate whose other wells hold the same substance; a plate that is only
    ever a source (pre-loaded, then drawn from)"""
    q = lambda v, p, b: {'v': v, 'p': p, 'b': b}
    subs = [dict(s) for s in dsl.LIBRARY if s['id'] in (1, 2, 4)]
    row = lambda r: {'rect': [[r], [0, 1, 2]]}
    one = lambda a, b: {'rect': [[a], [b]]}
    objs = [{'t': 'c', 'name': 1, 'init': [[1, q('20', 'm', 'L')], [4, q('500', 'm', 'g')]]}, {'t': 'p', 'name': 2, 'rows': 2, 'cols': 3, 'max': q('300', 'u', 'L')},
            {'t': 'c', 'name': 3, 'init': [[2, q('1', 'm', 'L')]]}, {'t': 'p', 'name': 4, 'rows': 2, 'cols': 3, 'max': q('300', 'u', 'L')}]
    progs = []
    # fractional quantities
    progs.append({'subs': subs, 'objects': objs, 'prefill': [],
                  'steps': [{'op': 'transfer', 'src': {'c': 1}, 'dst': {'p': 2, 'r': row(0)}, 'q': q('2.5', 'u', 'L')},
                            {'op': 'transfer', 'src': {'c': 1}, 'dst': {'p': 2, 'r': row(1)}, 'q': q('33.3', 'u', 'L')},
                            {'op': 'transfer', 'src': {'p': 2, 'r': one(1, 0)}, 'dst': {'p': 4, 'r': one(0, 0)}, 'q': q('0.5', 'u', 'L')},
                            {'op': 'transfer', 'src': {'c': 1}, 'dst': {'c': 3}, 'q': q('7.5', 'u', 'L')},
                            {'op': 'transfer', 'src': {'c': 1}, 'dst': {'c': 3}, 'q': q('2.55', 'm', 'g')},
                            {'op': 'transfer', 'src': {'c': 3}, 'dst': {'p': 4, 'r': row(1)}, 'q': q('1.2345', 'c', 'L') if False else q('150', 'n', 'L')}],
                  'stages': [{'name': 'st1', 'start': 0, 'stop': 2}], 'queries': []})
    # a removal on one row of a plate whose other row holds the same substances
    progs.append({'subs': subs, 'objects': objs, 'prefill': [],
                  'steps': [{'op': 'transfer', 'src': {'c': 1}, 'dst': {'p': 2, 'r': {'rect': [[0, 1], [0, 1, 2]]}}, 'q': q('100', 'u', 'L')},
                            {'op': 'remove', 't': {'p': 2, 'r': row(0)}, 'w': {'s': 1}},
                            {'op': 'transfer', 'src': {'c': 3}, 'dst': {'p': 4, 'r': row(0)}, 'q': q('20', 'u', 'L')},
                            {'op': 'remove', 't': {'p': 2, 'r': one(1, 2)}, 'w': {'k': 'Solid'}},
                            {'op': 'transfer', 'src': {'c': 1}, 'dst': {'c': 3}, 'q': q('1', 'm', 'L')}],
                  'stages': [{'name': 'st1', 'start': 1, 'stop': 2}, {'name': 'st2', 'start': 3, 'stop': 5}], 'queries': []})
    # a pre-loaded plate that is only ever a source
    progs.append({'subs': subs, 'objects': objs, 'prefill': [{'src': 1, 'dst': 2, 'q': q('80', 'u', 'L')}],
                  'steps': [{'op': 'transfer', 'src': {'p': 2, 'r': row(0)}, 'dst': {'c': 3}, 'q': q('30', 'u', 'L')},
                            {'op': 'transfer', 'src': {'p': 2, 'r': one(1, 1)}, 'dst': {'p': 4, 'r': row(1)}, 'q': q('10', 'u', 'L')},
                            {'op': 'transfer', 'src': {'c': 1}, 'dst': {'p': 4, 'r': row(0)}, 'q': q('25', 'u', 'L')}],
                  'stages': [{'name': 'st1', 'start': 0, 'stop': 1}], 'queries': []})
    # a row of a loaded plate used whole by one step, then narrowed (a kept slice object, see run_recipe.href) by the next ones
    progs.append({'subs': subs, 'objects': objs, 'prefill': [{'src': 1, 'dst': 2, 'q': q('90', 'u', 'L')}],
                  'steps': [{'op': 'transfer', 'src': {'p': 2, 'r': row(0)}, 'dst': {'p': 4, 'r': row(0)}, 'q': q('10', 'u', 'L')},
                            {'op': 'transfer', 'src': {'p': 2, 'r': one(0, 0)}, 'dst': {'p': 4, 'r': row(1)}, 'q': q('5', 'u', 'L')},
                            {'op': 'transfer', 'src': {'p': 2, 'r': {'rect': [[0], [1, 2]]}}, 'dst': {'p': 4, 'r': {'rect': [[1], [0, 1]]}}, 'q': q('4', 'u', 'L')},
                            {'op': 'remove', 't': {'p': 4, 'r': one(0, 2)}, 'w': {'s': 1}},
                            {'op': 'transfer', 'src': {'c': 1}, 'dst': {'c': 3}, 'q': q('1', 'm', 'L')}],
                  'stages': [], 'queries': []})
    # transfers inside one plate: a column into the next one, one well into several, a column pooled into one well
    col = lambda c: {'rect': [[0, 1], [c]]}
    progs.append({'subs': subs, 'objects': objs, 'prefill': [],
                  'steps': [{'op': 'transfer', 'src': {'c': 1}, 'dst': {'p': 2, 'r': col(0)}, 'q': q('100', 'u', 'L')},
                            {'op': 'transfer', 'src': {'p': 2, 'r': col(0)}, 'dst': {'p': 2, 'r': col(1)}, 'q': q('20', 'u', 'L')},
                            {'op': 'transfer', 'src': {'p': 2, 'r': one(0, 1)}, 'dst': {'p': 2, 'r': col(2)}, 'q': q('5', 'u', 'L')},
                            {'op': 'transfer', 'src': {'c': 3}, 'dst': {'p': 4, 'r': row(0)}, 'q': q('20', 'u', 'L')},
                            {'op': 'transfer', 'src': {'p': 2, 'r': col(0)}, 'dst': {'p': 2, 'r': one(1, 2)}, 'q': q('10', 'u', 'L')},
                            {'op': 'transfer', 'src': {'p': 4, 'r': one(0, 0)}, 'dst': {'p': 4, 'r': row(1)}, 'q': q('2', 'u', 'L')}],
                  'stages': [{'name': 'st1', 'start': 1, 'stop': 3}, {'name': 'st2', 'start': 4, 'stop': 6}], 'queries': []})
    # a mixing vessel that is drawn from, receives another substance, and is drawn from again
    mix = objs + [{'t': 'c', 'name': 5, 'init': []}]
    progs.append({'subs': subs, 'objects': mix, 'prefill': [],
                  'steps': [{'op': 'transfer', 'src': {'c': 1}, 'dst': {'c': 5}, 'q': q('5', 'm', 'L')},
                            {'op': 'transfer', 'src': {'c': 5}, 'dst': {'p': 4, 'r': row(0)}, 'q': q('50', 'u', 'L')},
                            {'op': 'transfer', 'src': {'c': 3}, 'dst': {'c': 5}, 'q': q('0.5', 'm', 'L')},
                            {'op': 'transfer', 'src': {'c': 5}, 'dst': {'p': 4, 'r': row(1)}, 'q': q('50', 'u', 'L')},
                            {'op': 'transfer', 'src': {'c': 5}, 'dst': {'p': 2, 'r': row(0)}, 'q': q('10', 'u', 'L')}],
                  'stages': [{'name': 'st1', 'start': 0, 'stop': 2}, {'name': 'st2', 'start': 2, 'stop': 4}], 'queries': []})
    # a large vessel spiked again and again with a vanishing share of its content: every addition is an inflow
    big = [{'t': 'c', 'name': 1, 'init': [[1, q('1', '', 'L')]]}, {'t': 'c', 'name': 2, 'init': [[1, q('1', 'm', 'L')], [4, q('58.44', 'u', 'g')]]}]
    progs.append({'subs': subs, 'objects': big, 'prefill': [],
                  'steps': [{'op': 'transfer', 'src': {'c': 2}, 'dst': {'c': 1}, 'q': q('0.5', 'n', 'L')} for _ in range(6)],
                  'stages': [{'name': 'st1', 'start': 0, 'stop': 3}], 'queries': [], 'no_storage_variants': True})      # ten decimals of a mmol are more than one spike
    return progs


def histcheck_tol(prog):
    import histcheck
    return histcheck.tol_scale(prog)
