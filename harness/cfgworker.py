#!/usr/bin/env python3
"""cfgworker.py -- runs programs under the configuration given by PYPLATE_CONFIG (read at import of pyplate) and writes the
observations.  Used by C18: the same scripts in separate processes under different storage configurations."""
import sys, os, json
from fractions import Fraction as F
sys.path.insert(0, os.path.dirname(os.path.abspath(__file__)))


def enc(o):
    if isinstance(o, F):
        return {'__f': f"{o.numerator}/{o.denominator}"}
    if isinstance(o, dict):
        return {str(k): enc(v) for k, v in o.items()}
    if isinstance(o, (list, tuple)):
        return [enc(x) for x in o]
    return o


def main():
    inp, outp = sys.argv[1], sys.argv[2]
    job = json.load(open(inp))
    import dsl, recipes
    dsl.FACTORY_DENSITY = bool(job.get('factory_density'))
    from pyplate.pyplate import config
    out = {'config': {'mol': config.moles_storage_unit, 'vol': config.volume_storage_unit, 'precision': config.internal_precision},
           'progs': [], 'recipes': [], 'observers': []}
    for prog in job['progs']:
        obs, im = dsl.run_impl(prog)
        out['progs'].append(obs)
        try:
            out['observers'].append(dsl.observe_all(im) if job.get('observers') else {})
        except Exception as e:  # noqa -- a read-out that raises under this configuration is an answer to compare, not a reason to stop
            out['observers'].append({'__error__': {'observers raised': [f"{type(e).__name__}: {e}"[:200]]}})
    for prog in job['recipes']:
        try:
            o, r, handles, helper, initial = recipes.run_recipe(prog)
            q = recipes.run_queries(prog, r, handles, helper.subs) if o[0] == 'ok' else []
        except Exception as e:  # noqa -- declaring the objects of the recipe was refused under this configuration
            o, q = ['crash', type(e).__name__, str(e)[:200]], []
        res = {'bake': o, 'queries': q}
        if job.get('ledger'):
            # the eager execution of the same steps in THIS process (this configuration): what bake is to be compared with
            rp = recipes.Replayed(prog)
            res['ledger'] = {'failed': list(rp.failed) if rp.failed else None, 'history': rp.eager.history, 'initial': rp.initial}
        out['recipes'].append(res)
    json.dump(enc(out), open(outp, 'w'))


if __name__ == '__main__':
    main()
