"""dsl.py -- the program DSL of the correspondence check (DESIGN.md 4.1): one JSON document per case,
executed on the implementation (run_impl), printed as a Gallina term for the model (to_coq), and the
model's flat integer output decoded back (decode_run); compare() relates the two observations."""
import json, math
from fractions import Fraction as F
from decimal import Decimal
import common
from common import qstr, coq_list

PFX = {'n': ('Pn', F(1, 10**9)), 'u': ('Pu', F(1, 10**6)), 'µ': ('Pmu', F(1, 10**6)), 'm': ('Pm', F(1, 1000)),
       'c': ('Pc', F(1, 100)), 'd': ('Pd', F(1, 10)), '': ('P0', F(1)), 'da': ('Pda', F(10)), 'k': ('Pk', F(1000)),
       'M': ('PM', F(10**6))}
BASE = {'U': 'BU', 'L': 'BL', 'g': 'BG', 'mol': 'BMol'}
KINDS = {'Solid': 1, 'Liquid': 2, 'Enzyme': 3}

# ------------------------------------------------------------------ substances
LIBRARY = [
    {'id': 1, 'name': 'water', 'kind': 'Liquid', 'mw': '18.02', 'dens': '1', 'act': '1'},
    {'id': 2, 'name': 'dmso', 'kind': 'Liquid', 'mw': '78.13', 'dens': '1.1', 'act': '1'},
    {'id': 3, 'name': 'ethanol', 'kind': 'Liquid', 'mw': '46.07', 'dens': '0.79', 'act': '1'},
    {'id': 4, 'name': 'NaCl', 'kind': 'Solid', 'mw': '58.44', 'dens': '1', 'act': '1'},
    {'id': 5, 'name': 'Na2SO4', 'kind': 'Solid', 'mw': '142.04', 'dens': '1', 'act': '1'},
    {'id': 6, 'name': 'lipase', 'kind': 'Enzyme', 'mw': '1', 'dens': '1', 'act': '7000'},
    {'id': 7, 'name': 'amylase', 'kind': 'Enzyme', 'mw': '1', 'dens': '1', 'act': '250'},
    {'id': 8, 'name': 'KBr', 'kind': 'Solid', 'mw': '119', 'dens': '2.75', 'act': '1'},      # non-default solid density
    {'id': 9, 'name': 'trypsin', 'kind': 'Enzyme', 'mw': '1', 'dens': '40', 'act': '1300'},  # non-default U/mL
]
# substances that share their NAME with another entry but are different substances for the library (Substance.__eq__ compares name,
# kind, molecular weight, density): a hydrate, another grade, the same protein weighed as a solid.  Nothing may key on the name alone.
NAME_TWINS = [
    {'id': 11, 'name': 'NaCl', 'kind': 'Solid', 'mw': '76.46', 'dens': '1', 'act': '1'},            # "NaCl" again: another molar mass
    {'id': 12, 'name': 'ethanol', 'kind': 'Liquid', 'mw': '46.07', 'dens': '0.81', 'act': '1'},     # "ethanol" again: another density
    {'id': 13, 'name': 'lipase', 'kind': 'Solid', 'mw': '250', 'dens': '1', 'act': '1'},           # "lipase" weighed as a solid
]
TWIN_OF = {11: 4, 12: 3, 13: 6}
# a second lot of an enzyme: same name, different specific activity (Substance.__eq__ ignores the activity); used by directed cases only
TWIN_LOT = {'id': 10, 'name': 'lipase', 'kind': 'Enzyme', 'mw': '1', 'dens': '1', 'act': '25000'}


FACTORY_DENSITY = False      # True: solids / enzymes keep the density the library's factories give them (configured defaults)


def make_substance(sd):
    from pyplate import Substance
    if FACTORY_DENSITY:
        if sd['kind'] == 'Solid':
            return Substance.solid(sd['name'], float(sd['mw']))
        if sd['kind'] == 'Liquid':
            return Substance.liquid(sd['name'], float(sd['mw']), float(sd['dens']))
        return Substance.enzyme(sd['name'], f"{sd['act']} U/g")
    if sd['kind'] == 'Solid':
        s = Substance.solid(sd['name'], float(sd['mw']))
        if F(sd['dens']) != 1:
            s.density = float(sd['dens'])       # stands for a configured default_solid_density
    elif sd['kind'] == 'Liquid':
        s = Substance.liquid(sd['name'], float(sd['mw']), float(sd['dens']))
    else:
        s = Substance.enzyme(sd['name'], f"{sd['act']} U/g")
        if F(sd['dens']) != 1:
            s.density = float(sd['dens'])       # stands for a configured default_enzyme_density (U/mL)
    return s


def coq_subst(sd):
    return (f"{{| sid := {sd['id']}; knd := {sd['kind']}; mw := {qstr(sd['mw'])}; dens := {qstr(sd['dens'])}; "
            f"act := {qstr(sd['act'])} |}}")


# ------------------------------------------------------------------ quantities / concentrations
def qty_str(q):
    return f"{q['v']} {q['p']}{q['b']}"


def qty_val(q):
    return F(q['v']) * PFX[q['p']][1]


def coq_qty(q):
    return f"{{| qval := {qstr(q['v'])}; qpfx := {PFX[q['p']][0]}; qbase := {BASE[q['b']]} |}}"


def conc_parse(c):
    """exact value of a concentration document {'v','np','nb','dv'(optional),'dp','db'} or {'s': 'M'|'m', 'v', 'np'}
    as (value, num base, den base) -- SI meaning, computed here independently of the implementation"""
    if 'pct' in c:       # per cent: v/v and w/w are plain fractions, w/v is grams per 100 mL (the shipped default_weight_volume_units, g/mL)
        return {'v/v': (F(c['v']) / 100, 'L', 'L'), 'w/w': (F(c['v']) / 100, 'g', 'g'), 'w/v': (F(c['v']) * 10, 'g', 'L')}[c['pct']]
    if 's' in c:
        if c['s'] == 'M':
            return F(c['v']) * PFX[c.get('np', '')][1], 'mol', 'L'
        return F(c['v']) * PFX[c.get('np', '')][1] / 1000, 'mol', 'g'
    v = F(c['v']) * PFX[c['np']][1] / PFX[c['dp']][1]
    if c.get('dv') is not None:
        v = v / F(c['dv'])
    return v, c['nb'], c['db']


def conc_str(c):
    if 'pct' in c:
        return f"{c['v']} %{c['pct']}"
    if 's' in c:
        return f"{c['v']} {c.get('np', '')}{c['s']}"
    den = f"{c['dv']} {c['dp']}{c['db']}" if c.get('dv') is not None else f"{c['dp']}{c['db']}"
    return f"{c['v']} {c['np']}{c['nb']}/{den}"


def coq_conc(c):
    v, nb, db = conc_parse(c)
    return f"{{| cval := {qstr(v)}; cnum := {BASE[nb]}; cden := {BASE[db]} |}}"


# ------------------------------------------------------------------ regions (zero-based indices)
def coq_region(r):
    if 'rect' in r:
        rs, cs = r['rect']
        return f"(RRect {coq_list([str(i) + '%nat' for i in rs])} {coq_list([str(i) + '%nat' for i in cs])})"
    return "(RList " + coq_list([f"({a}%nat, {b}%nat)" for a, b in r['list']]) + ")"


def py_selector(r):
    """a selector object that denotes region r on a default-labelled plate (1-based ints, inclusive stops)"""
    if 'sel' in r:
        return build_selector(r['sel'])
    if 'list' in r:
        return [(a + 1, b + 1) for a, b in r['list']]
    rs, cs = r['rect']

    def ax(ix):
        if len(ix) == 1:
            return slice(ix[0] + 1, ix[0] + 1)
        step = ix[1] - ix[0]
        assert all(ix[k + 1] - ix[k] == step for k in range(len(ix) - 1)) and step > 0
        return slice(ix[0] + 1, ix[-1] + 1, step if step != 1 else None)
    return (ax(rs), ax(cs))


def build_selector(s):
    if isinstance(s, list) and s and s[0] == 'slice':
        return slice(*[build_selector(x) for x in s[1:]])
    if isinstance(s, list) and s and s[0] == 'tuple':
        return tuple(build_selector(x) for x in s[1:])
    if isinstance(s, list) and s and s[0] == 'list':
        return [build_selector(x) for x in s[1:]]
    return s


def region_cells(r, ncols):
    if 'rect' in r:
        return [(a, b) for a in r['rect'][0] for b in r['rect'][1]]
    return [tuple(x) for x in r['list']]


# ------------------------------------------------------------------ executing on the implementation
TABLES = False            # C19: every container is displayed (Container.dataframe) as soon as it is returned; the table is carried in the dump
OBSERVE_EACH = False      # C10: call the observers on every value as soon as it is returned (values derived later must not see stale answers)


def touch(o):
    """call every read-only observer once (whatever they cache is then in place before the next operation copies the object)"""
    from pyplate import Container
    try:
        if isinstance(o, Container):
            ss = o.get_substances()
            o.get_volume()
            for s in list(ss)[:2]:
                try:
                    o.get_concentration(s)
                except Exception:  # noqa
                    pass
        else:
            o.get_substances()
            o.get_volumes()
            o[1, :].get_substances()
            o[1, :].get_volumes()
            for w in list(o.wells.flatten())[:3]:
                touch(w)
    except Exception:  # noqa
        pass


def observe_all(im):
    """the read-outs in explicit user units of every object alive at the end of a program: {var: {observer: [numbers]}}"""
    from pyplate import Container
    import numpy
    out = {}
    for v, o in im.env.items():
        d = {}
        try:
            if isinstance(o, Container):
                for u in ('uL', 'mL', 'L'):
                    d['get_volume ' + u] = [float(o.get_volume(u))]
                for s in list(o.contents)[:2]:
                    if not s.is_enzyme() and o.volume > 0:
                        d['get_concentration M ' + s.name] = [float(o.get_concentration(s, 'M'))]
            else:
                for u in ('uL', 'mL', 'L', 'kL', 'ML'):
                    d['get_volumes ' + u] = [float(x) for x in numpy.asarray(o.get_volumes(unit=u)).flatten()]
                    d['row get_volumes ' + u] = [float(x) for x in numpy.asarray(o[1, :].get_volumes(unit=u)).flatten()]
                    d['get_volume ' + u] = [float(o.get_volume(u))]
                subs = sorted({s for w in o.wells.flatten() for s in w.contents if not s.is_enzyme()}, key=lambda s: s.name)[:2]
                for s in subs:
                    for u in ('umol', 'mmol', 'mol'):
                        d[f'get_moles {u} {s.name}'] = [float(x) for x in numpy.asarray(o.get_moles(s, unit=u)).flatten()]
        except Exception as e:  # noqa
            d['error'] = [type(e).__name__]
        out[str(v)] = d
    return out


def key_of(s):
    """what distinguishes two substances for this harness (the name alone does not: NAME_TWINS)"""
    return (s.name, s.specific_activity, s.mol_weight, s.density)


def sid_of(holder, s):
    """the library id of a Substance object, through the full key first"""
    bk = getattr(holder, 'bykey', None) or {}
    return bk.get(key_of(s), holder.byname.get(s.name, -1))


class Impl:
    """runs a program on the real API; env maps variable -> object"""

    def __init__(self, subs):
        self.subs = {sd['id']: make_substance(sd) for sd in subs}
        self.sid = {id(s): k for k, s in self.subs.items()}
        self.byname = {s.name: k for k, s in self.subs.items()}
        self.bykey = {(s.name, s.specific_activity, s.mol_weight, s.density): k for k, s in self.subs.items()}
        self.env = {}

    def ref(self, r):
        if 'c' in r:
            return self.env[r['c']]
        sl = self.env[r['p']][py_selector(r['r'])]
        import zlib
        if zlib.crc32(json.dumps(r, sort_keys=True).encode()) % 2 == 0:
            # half of the regions are looked at before they are used (whatever a slice caches is then in place when the operation copies it)
            try:
                sl.get_volumes(); sl.get_substances(); sl.shape; sl.size
            except Exception:  # noqa
                pass
        return sl

    def what(self, w):
        return self.subs[w['s']] if 's' in w else KINDS[w['k']]

    def exec_op(self, op):
        from pyplate import Container, Plate
        k = op['op']
        if k == 'newc':
            mx = qty_str(op['max']) if op.get('max') else 'inf L'
            init = [(self.subs[s], qty_str(q)) for s, q in op.get('init', [])]
            return [(op['out'], Container(f"c{op['name']}", mx, init or None))]
        if k == 'newp':
            return [(op['out'], Plate(f"p{op['name']}", qty_str(op['max']), rows=op['rows'], columns=op['cols']))]
        if k == 'transfer':
            src, dst = self.ref(op['src']), self.ref(op['dst'])
            if 'c' in op['dst']:
                a, b = Container.transfer(src, dst, qty_str(op['q']))
            else:
                a, b = Plate.transfer(src, dst, qty_str(op['q']))
            return [(op['osrc'], a), (op['odst'], b)]
        if k == 'remove':
            return [(op['out'], self.ref(op['t']).remove(self.what(op['w'])))]
        if k == 'fill':
            return [(op['out'], self.ref(op['t']).fill_to(self.subs[op['solvent']], qty_str(op['q'])))]
        if k == 'dilute':
            if op.get('named'):     # the optional name= argument takes another path through the library; the model has no names to compare
                return [(op['out'], self.env[op['v']].dilute(self.subs[op['solute']], conc_str(op['c']), self.subs[op['solvent']], f"d{op['out']}"))]
            return [(op['out'], self.env[op['v']].dilute(self.subs[op['solute']], conc_str(op['c']), self.subs[op['solvent']]))]
        if k in ('solution', 'solutionc'):
            kw = {}
            m = op['mode']
            if 'cs' in m:
                kw['concentration'] = [conc_str(c) for c in m['cs']]
            if 'qs' in m:
                kw['quantity'] = [qty_str(q) for q in m['qs']]
            if 'total' in m:
                kw['total_quantity'] = qty_str(m['total'])
            # the caller's own list object, handed over again whenever the same solutes are named (an operation must not change it)
            if not hasattr(self, '_lists'):
                self._lists = {}
            solutes = self._lists.setdefault(tuple(op['solutes']), [self.subs[s] for s in op['solutes']])
            if [id(x) for x in solutes] != [id(self.subs[s]) for s in op['solutes']]:
                raise AssertionError(f"the list of solutes passed to an earlier create_solution was changed by it: now {[x.name for x in solutes]}")
            if k == 'solution':
                return [(op['out'], Container.create_solution(solutes, self.subs[op['solvent']], f"c{op['name']}", **kw))]
            a, b = Container.create_solution(solutes, self.env[op['solventv']], f"c{op['name']}", **kw)
            return [(op['osolv'], a), (op['out'], b)]
        if k == 'solfrom':
            a, b = Container.create_solution_from(self.env[op['src']], self.subs[op['solute']], conc_str(op['c']),
                                                  self.subs[op['solvent']], qty_str(op['q']), f"c{op['name']}")
            return [(op['osrc'], a), (op['out'], b)]
        if k == 'solfromc':
            a, b, c = Container.create_solution_from(self.env[op['src']], self.subs[op['solute']], conc_str(op['c']),
                                                     self.env[op['solventv']], qty_str(op['q']), f"c{op['name']}")
            return [(op['osrc'], a), (op['osolv'], b), (op['out'], c)]
        raise KeyError(k)

    def dump_container(self, c):
        import math
        cont = {}
        if not (all(math.isfinite(a) for a in c.contents.values()) and math.isfinite(c.volume)):
            # an impossible state; kept representable (amounts 0) and marked, the oracles report it
            return {'t': 'c', 'name': c.name, 'cont': {}, 'order': [], 'vol': F(0), 'max': None, 'nonfinite': repr((dict((s.name, a) for s, a in c.contents.items()), c.volume))}
        for s, a in c.contents.items():
            key = getattr(self, 'bykey', {}).get((s.name, s.specific_activity, s.mol_weight, s.density), self.byname.get(s.name, -1))
            cont[key] = cont.get(key, F(0)) + F(a)
        mx = None if c.max_volume == float('inf') else F(c.max_volume)
        return {'t': 'c', 'name': c.name, 'cont': cont, 'order': [getattr(self, 'bykey', {}).get((s.name, s.specific_activity, s.mol_weight, s.density), self.byname.get(s.name, -1)) for s in c.contents],
                'vol': F(c.volume), 'max': mx, 'instr': getattr(c, 'instructions', '') or ''}

    def table_of(self, c):
        """the container's own table (Container.dataframe, what printing it shows): per substance the cells Volume / Mass / Moles / U"""
        if len({s.name for s in c.contents}) != len(c.contents):
            return None         # namesakes share a row label in the library's table: not displayed, not read
        try:
            df = c.dataframe()
            rows = {}
            for s in c.contents:
                key = getattr(self, 'bykey', {}).get((s.name, s.specific_activity, s.mol_weight, s.density), self.byname.get(s.name, -1))
                cells = df.loc[s.name]
                if getattr(cells, 'ndim', 1) == 1:          # (namesakes share a row label: not read)
                    rows[key] = [str(x) for x in cells]
            rows['Total'] = [str(x) for x in df.loc['Total']]
            from pyplate.pyplate import config
            rows['__precisions__'] = {str(k): int(v) for k, v in dict(config.precisions).items()}
            return rows
        except Exception as e:  # noqa
            return {'error': f"{type(e).__name__}: {e}"[:160]}

    def dump(self, o):
        from pyplate import Container
        if isinstance(o, Container):
            if TABLES:
                return dict(self.dump_container(o), table=self.table_of(o))
            return self.dump_container(o)
        return {'t': 'p', 'name': o.name, 'rows': o.n_rows, 'cols': o.n_columns,
                'wells': [self.dump_container(w) for w in o.wells.flatten()]}

    def run(self, ops, keep=False):
        obs = []
        for op in ops:
            # an operand that does not exist because an earlier operation was refused: the operation cannot be run at all (the lookup
            # fails in this harness, not in the library); marked so that no oracle judges it
            refs = [r[k] for r in (op.get('src'), op.get('dst'), op.get('t')) if isinstance(r, dict) for k in ('c', 'p') if k in r] + \
                   [op[k] for k in ('v', 'solventv') if k in op] + ([op['src']] if op.get('op') in ('solfrom', 'solfromc') else [])
            if any(r not in self.env for r in refs):
                obs.append({'ok': False, 'exc': 'KeyError', 'msg': 'operand missing (an earlier operation was refused)', 'skipped': True})
                continue
            try:
                out = self.exec_op(op)
            except Exception as e:  # noqa
                obs.append({'ok': False, 'exc': common.exc_class(e), 'msg': str(e)[:120]})
                continue
            for v, o in out:
                self.env[v] = o
                if OBSERVE_EACH:
                    touch(o)
            obs.append({'ok': True, 'out': [(v, self.dump(o)) for v, o in out]})
        return obs


def run_impl(prog):
    im = Impl(prog['subs'])
    return im.run(prog['ops']), im


# ------------------------------------------------------------------ the same program as a Gallina term
def coq_ref(r):
    if 'c' in r:
        return f"(RefC {r['c']})"
    return f"(RefP {r['p']} {coq_region(r['r'])})"


def coq_what(w):
    return f"(WSubst s{w['s']})" if 's' in w else f"(WKind {w['k']})"


def coq_mode(m):
    if 'cs' in m and 'total' in m:
        return f"(MConcTotal {coq_list([coq_conc(c) for c in m['cs']])} {coq_qty(m['total'])})"
    if 'cs' in m and 'qs' in m:
        return f"(MConcQty {coq_list([coq_conc(c) for c in m['cs']])} {coq_list([coq_qty(q) for q in m['qs']])})"
    return f"(MQtyTotal {coq_list([coq_qty(q) for q in m['qs']])} {coq_qty(m['total'])})"


def coq_op(op):
    k = op['op']
    if k == 'newc':
        mx = f"(Some {coq_qty(op['max'])})" if op.get('max') else "None"
        init = coq_list([f"(s{s}, {coq_qty(q)})" for s, q in op.get('init', [])])
        return f"ONewC {op['out']} {op['name']} {mx} {init}"
    if k == 'newp':
        return f"ONewP {op['out']} {op['name']} {op['rows']} {op['cols']} {coq_qty(op['max'])}"
    if k == 'transfer':
        return f"OTransfer {coq_ref(op['src'])} {coq_ref(op['dst'])} {coq_qty(op['q'])} {op['osrc']} {op['odst']}"
    if k == 'remove':
        return f"ORemove {coq_ref(op['t'])} {coq_what(op['w'])} {op['out']}"
    if k == 'fill':
        return f"OFill {coq_ref(op['t'])} s{op['solvent']} {coq_qty(op['q'])} {op['out']}"
    if k == 'dilute':
        return f"ODilute {op['v']} s{op['solute']} {coq_conc(op['c'])} s{op['solvent']} {op['out']}"
    if k == 'solution':
        return (f"OSolution {op['out']} {op['name']} {coq_list(['s%d' % s for s in op['solutes']])} s{op['solvent']} "
                f"{coq_mode(op['mode'])}")
    if k == 'solutionc':
        return (f"OSolutionC {op['out']} {op['name']} {coq_list(['s%d' % s for s in op['solutes']])} {op['solventv']} "
                f"{coq_mode(op['mode'])} {op['osolv']}")
    if k == 'solfrom':
        return (f"OSolutionFrom {op['src']} s{op['solute']} {coq_conc(op['c'])} s{op['solvent']} {coq_qty(op['q'])} "
                f"{op['name']} {op['osrc']} {op['out']}")
    if k == 'solfromc':
        return (f"OSolutionFromC {op['src']} s{op['solute']} {coq_conc(op['c'])} {op['solventv']} {coq_qty(op['q'])} "
                f"{op['name']} {op['osrc']} {op['osolv']} {op['out']}")
    raise KeyError(k)


def coq_cfg(cfg=None):
    cfg = cfg or {'mol': 'u', 'vol': 'u'}
    return f"{{| mol_pfx := {PFX[cfg['mol']][0]}; vol_pfx := {PFX[cfg['vol']][0]} |}}"


def to_coq(prog, fn='showRun'):
    lets = " ".join(f"let s{sd['id']} := {coq_subst(sd)} in" for sd in prog['subs'])
    ops = coq_list(["(" + coq_op(o) + ")%nat" for o in prog['ops']])
    return f"({lets} {fn} {coq_cfg(prog.get('cfg'))} {ops})"


# ------------------------------------------------------------------ decoding the model's output
def dec_container(r):
    name = r.int()
    n = r.int()
    cont, order = {}, []
    for _ in range(n):
        sid = r.int()
        cont[sid] = cont.get(sid, F(0)) + r.q()
        order.append(sid)
    vol = r.q()
    mx = r.q() if r.int() == 1 else None
    return {'t': 'c', 'name': name, 'cont': cont, 'order': order, 'vol': vol, 'max': mx}


def dec_obj(r):
    t = r.int()
    if t == 1:
        return dec_container(r)
    name, rows, cols = r.int(), r.int(), r.int()
    return {'t': 'p', 'name': name, 'rows': rows, 'cols': cols, 'wells': [dec_container(r) for _ in range(rows * cols)]}


def decode_run(ints, nops):
    r = common.Reader(ints)
    obs = []
    for _ in range(nops):
        if r.int() == 0:
            obs.append({'ok': False, 'exc': common.ERR_CODE[r.int()]})
        else:
            n = r.int()
            obs.append({'ok': True, 'out': [(r.int(), dec_obj(r)) for _ in range(n)]})
    assert r.done(), 'trailing output'
    return obs


# ------------------------------------------------------------------ comparing observations
def exc_matches(impl_exc, model_exc):
    if model_exc == 'ValueError':
        return impl_exc in ('ValueError', 'LinAlgError')
    if model_exc in ('TypeError', 'RuntimeError'):
        return impl_exc == model_exc
    return impl_exc not in ('ValueError', 'LinAlgError', 'TypeError', 'RuntimeError')


def cmp_container(a, m, atol, rtol, where):
    """implementation dump a vs model dump m; returns list of differences"""
    d = []
    keys = set(a['cont']) | set(m['cont'])
    for k in sorted(keys):
        x, y = a['cont'].get(k), m['cont'].get(k)
        if x is None or y is None:
            # a key with amount zero may be present on one side only when nothing was moved; keys are compared strictly
            d.append(f"{where}: substance {k} present on one side only (impl {x}, model {y})")
        elif abs(x - y) > atol + rtol * abs(y):
            d.append(f"{where}: amount of substance {k}: impl {float(x)!r} model {float(y)!r}")
    if abs(a['vol'] - m['vol']) > atol * 10 + rtol * abs(m['vol']):
        d.append(f"{where}: volume impl {float(a['vol'])!r} model {float(m['vol'])!r}")
    if (a['max'] is None) != (m['max'] is None) or (a['max'] is not None and abs(a['max'] - m['max']) > atol + rtol * abs(m['max'])):
        d.append(f"{where}: max_volume impl {a['max']} model {m['max']}")
    return d


def cmp_obj(a, m, atol, rtol, where):
    if a['t'] != m['t']:
        return [f"{where}: kind impl {a['t']} model {m['t']}"]
    if a['t'] == 'c':
        return cmp_container(a, m, atol, rtol, where)
    if (a['rows'], a['cols']) != (m['rows'], m['cols']):
        return [f"{where}: plate shape"]
    d = []
    for i, (x, y) in enumerate(zip(a['wells'], m['wells'])):
        d += cmp_container(x, y, atol, rtol, f"{where} well {i // a['cols']},{i % a['cols']}")
    return d


def compare(impl_obs, model_obs, atol=1e-8, rtol=1e-9):
    """list of (op index, text) where the two observations differ; tolerance grows with the history"""
    diffs = []
    for i, (a, m) in enumerate(zip(impl_obs, model_obs)):
        if a['ok'] != m['ok']:
            diffs.append((i, f"decision: impl {'ok' if a['ok'] else a['exc'] + ' ' + a.get('msg', '')} / model {'ok' if m['ok'] else m['exc']}"))
            # the histories diverge from here on
            break
        if not a['ok']:
            if not exc_matches(a['exc'], m['exc']):
                diffs.append((i, f"exception class: impl {a['exc']} model {m['exc']}"))
            continue
        if [v for v, _ in a['out']] != [v for v, _ in m['out']]:
            diffs.append((i, "assigned variables differ"))
            break
        for (v, x), (_, y) in zip(a['out'], m['out']):
            for t in cmp_obj(x, y, F(atol) * (i + 1), F(rtol), f"op {i} var {v}"):
                diffs.append((i, t))
    return diffs


def jsonable(o):
    if isinstance(o, F):
        return float(o)
    if isinstance(o, dict):
        return {str(k): jsonable(v) for k, v in o.items()}
    if isinstance(o, (list, tuple)):
        return [jsonable(x) for x in o]
    return o
