"""oracles.py -- executable readings of the properties, evaluated on the implementation's own observations
(independent of the Coq model).  Each oracle(prog, obs, impl) returns a list of (op index, message)."""
from fractions import Fraction as F
import dsl, histcheck
from histcheck import containers_of, measure, amount_in

PF = dsl.PFX


def var_of(ref):
    return ref['c'] if 'c' in ref else ref['p']


def cells_of(ref, dump):
    if 'c' in ref:
        return None
    return [a * dump['cols'] + b for a, b in dsl.region_cells(ref['r'], dump['cols'])]


def walk(prog, obs):
    """yields (i, op, o, dumps-before) with dumps = variable -> dump of every value produced so far"""
    dumps = {}
    for i, (op, o) in enumerate(zip(prog['ops'], obs)):
        if not o.get('skipped'):       # an operation whose operand never came to exist was not run: nothing to judge
            yield i, op, o, dumps
        if o['ok']:
            for v, x in o['out']:
                dumps[v] = x


def close(x, y, atol, rtol=F(1, 10**8)):
    return abs(x - y) <= atol + rtol * max(abs(x), abs(y))


# ----------------------------------------------------------------------------- C02
def c02(prog, obs, impl):
    fails = []
    subs = prog['subs']
    k = F(histcheck.tol_scale(prog))
    for i, op, o, dumps in walk(prog, obs):
        if not (o['ok'] and op['op'] == 'transfer'):
            continue
        q = dsl.qty_val(op['q'])
        b = op['q']['b']
        out = dict(o['out'])
        sb, db = dumps[var_of(op['src'])], dumps[var_of(op['dst'])]
        sa, da = out[op['osrc']], out[op['odst']]
        sidx = cells_of(op['src'], sb)
        didx = cells_of(op['dst'], db)
        S0 = [sb] if sidx is None else [sb['wells'][j] for j in sidx]
        S1 = [sa] if sidx is None else [sa['wells'][j] for j in sidx]
        D0 = [db] if didx is None else [db['wells'][j] for j in didx]
        D1 = [da] if didx is None else [da['wells'][j] for j in didx]
        ns, nd = len(S0), len(D0)
        # expected loss per source well / gain per destination well, in the unit of q
        if ns == 1:
            loss, gain = [q * nd], [q] * nd
        elif nd == 1:
            loss, gain = [q] * ns, [q * ns]
        else:
            loss, gain = [q] * ns, [q] * nd
        # a well listed k times in a region written as a list takes part k times
        if sidx is not None:
            loss = [l * sidx.count(j) for l, j in zip(loss, sidx)]
        if didx is not None:
            gain = [g * didx.count(j) for g, j in zip(gain, didx)]
        atol = F(1, 10**12) * k * (i + 1) + abs(q) * F(1, 10**8)
        for w0, w1, l in zip(S0, S1, loss):
            m0, m1 = measure(subs, w0, b), measure(subs, w1, b)
            if not close(m0 - m1, l, atol + m0 * F(1, 10**9)):
                fails.append((i, f"source loses {float(m0 - m1)!r} {b}, requested {float(l)!r} {b} ({dsl.qty_str(op['q'])})"))
            # uniform aliquot: the same fraction of every substance
            # (amounts are rounded to 1e-10 storage units: a fraction of less than 0.01 umol is known to 1e-8 at best, per well drawn)
            fr = [(w0['cont'][s] - w1['cont'].get(s, F(0))) / w0['cont'][s] for s in w0['cont'] if w0['cont'][s] > F(1, 10**2)]
            if fr and max(fr) - min(fr) > F(1, 10**6):
                fails.append((i, f"aliquot is not uniform: fractions {[float(x) for x in fr]}"))
        for w0, w1, g in zip(D0, D1, gain):
            m0, m1 = measure(subs, w0, b), measure(subs, w1, b)
            if not close(m1 - m0, g, atol + m1 * F(1, 10**9)):
                fails.append((i, f"destination gains {float(m1 - m0)!r} {b}, requested {float(g)!r} {b} ({dsl.qty_str(op['q'])})"))
    return fails


# ----------------------------------------------------------------------------- C03
def c03(prog, obs, impl):
    fails = []
    subs = prog['subs']
    declared = {}       # plate name -> capacity per well (uL) as declared when the plate was made
    for op in prog['ops']:
        if op['op'] == 'newp':
            declared.setdefault(f"p{op['name']}", set()).add(dsl.qty_val(op['max']) * 10**6)     # twins share a name
    for i, op, o, dumps in walk(prog, obs):
        if o['ok']:
            for v, d in o['out']:
                if d.get('t') == 'p' and d.get('name') in declared:
                    caps = declared[d['name']]
                    cap = min(caps, key=lambda x: abs(x - (d['wells'][0]['max'] or 0)))
                    for j, c in enumerate(d['wells']):
                        if c['max'] is None or abs(c['max'] - cap) > cap * F(1, 10**9):
                            fails.append((i, f"well {j} of plate {d['name']} reports a capacity of {None if c['max'] is None else float(c['max'])!r} uL, the plate was made with {float(cap)!r} uL per well"))
                            break
                        if c['vol'] > cap * (1 + F(1, 10**9)) + F(1, 10**9):
                            fails.append((i, f"well {j} of plate {d['name']} holds {float(c['vol'])!r} uL, the plate was made with {float(cap)!r} uL per well"))
                            break
                for c in containers_of(d):
                    if c.get('nonfinite'):
                        fails.append((i, f"a returned value holds a non-finite amount or volume: {c['nonfinite'][:160]}"))
                    for s, a in c['cont'].items():
                        if a < 0:
                            fails.append((i, f"negative amount {float(a)!r} of substance {s} in a returned value"))
                    if c['vol'] < 0:
                        fails.append((i, f"negative volume {float(c['vol'])!r}"))
                    if c['max'] is not None and c['vol'] > c['max'] * (1 + F(1, 10**12)) + F(1, 10**9):
                        fails.append((i, f"volume {float(c['vol'])!r} exceeds capacity {float(c['max'])!r}"))
        # feasibility decided independently for container-to-container transfers and container fill_to
        if op['op'] == 'transfer' and 'c' in op['src'] and 'c' in op['dst'] and op['src']['c'] != op['dst']['c'] \
                and op['src']['c'] in dumps and op['dst']['c'] in dumps:
            s, d = dumps[op['src']['c']], dumps[op['dst']['c']]
            q, b = dsl.qty_val(op['q']), op['q']['b']
            avail = measure(subs, s, b)
            margin = F(1, 10**6)
            if q < 0 or q > avail * (1 + margin) + F(1, 10**15):
                if o['ok'] or o['exc'] != 'ValueError':
                    fails.append((i, f"infeasible transfer of {dsl.qty_str(op['q'])} (source holds {float(avail)!r} {b}) "
                                     f"{'was accepted' if o['ok'] else 'raised ' + o['exc'] + ' instead of ValueError'}"))
            elif avail > 0 and 0 <= q <= avail * (1 - margin):
                newvol = d['vol'] + s['vol'] * q / avail
                if d['max'] is None or newvol <= d['max'] * (1 - margin):
                    if not o['ok']:
                        fails.append((i, f"feasible transfer of {dsl.qty_str(op['q'])} refused: {o['exc']} {o.get('msg')}"))
                elif newvol > d['max'] * (1 + margin) and (o['ok'] or o['exc'] != 'ValueError'):
                    fails.append((i, "transfer exceeding the destination's capacity " +
                                  ('was accepted' if o['ok'] else 'raised ' + o['exc'])))
        # a region of a plate as the source: every addressed well must be able to give q (to one container or well: each gives q;
        # to a region of equal shape: each gives q; one well to n wells: it gives n * q)
        if op['op'] == 'transfer' and 'p' in op['src'] and op['src']['p'] in dumps:
            sp = dumps[op['src']['p']]
            cells_ = [tuple(x) for x in dsl.region_cells(op['src']['r'], sp['cols'])]
            cs = [sp['wells'][a * sp['cols'] + b_] for a, b_ in cells_]
            q, b = dsl.qty_val(op['q']), op['q']['b']
            nd = 1 if 'c' in op['dst'] else len(dsl.region_cells(op['dst']['r'], 0))
            need = q * (nd if len(cs) == 1 else 1)
            # (a well listed k times in the source region gives k times)
            short = [j for j, c in enumerate(cs) if need * cells_.count(cells_[j]) > measure(subs, c, b) * (1 + F(1, 10**6)) + F(1, 10**15)]
            if short:
                need = need * cells_.count(cells_[short[0]])
            # (a single well written as a one-element list has shape (1,): the library refuses that pairing with RuntimeError whatever it holds)
            odd = any('list' in r and len(r['list']) == 1 for r in (op['src']['r'], op['dst'].get('r', {})))
            if q > 0 and short and (o['ok'] or (o['exc'] != 'ValueError' and not odd)):
                fails.append((i, f"well {short[0]} of the source region holds {float(measure(subs, cs[short[0]], b))!r} {b}, {float(need)!r} were asked of it: the transfer "
                                 f"{'was accepted' if o['ok'] else 'raised ' + o['exc'] + ' instead of ValueError'}"))
        if op['op'] == 'fill' and 'c' in op['t'] and op['t']['c'] in dumps:
            c = dumps[op['t']['c']]
            q, b = dsl.qty_val(op['q']), op['q']['b']
            cur = measure(subs, c, b)
            sd = [s for s in subs if s['id'] == op['solvent']][0]
            margin = F(1, 10**6)
            if b != 'U' and q > 0 and cur > q * (1 + margin) and (o['ok'] or o['exc'] != 'ValueError'):
                fails.append((i, f"fill_to {dsl.qty_str(op['q'])} below the current {float(cur)!r} {b} "
                                 f"{'was accepted' if o['ok'] else 'raised ' + o['exc']}"))
            if b != 'U' and q > 0 and cur < q * (1 - margin) and sd['kind'] != 'Enzyme' and amount_in(sd, F(1), b) != 0:
                addvol = amount_in(sd, F(1), 'L') / amount_in(sd, F(1), b) * (q - cur) * 10**6   # uL of solvent added
                if (c['max'] is None or c['vol'] + addvol <= c['max'] * (1 - margin)) and not o['ok']:
                    fails.append((i, f"feasible fill_to {dsl.qty_str(op['q'])} refused: {o['exc']} {o.get('msg')}"))
    return fails


# ----------------------------------------------------------------------------- C10
CONC_UNITS = ['M', 'mol/L', 'g/L', 'g/g', 'mol/mol', 'mmol/mL', 'm', 'g/mol', 'L/L', 'U/L', 'U/g', 'mg/g', 'umol/uL']


def conc_def(subs, dump, sid, units):
    """definition of the concentration of substance sid in dump, from contents, exactly"""
    c = {'M': (F(1), 'mol', 'L'), 'm': (F(1, 1000), 'mol', 'g')}.get(units)
    if c is None:
        n, d = units.split('/')
        def split(u):
            for b in ('mol', 'L', 'g', 'U'):
                if u.endswith(b):
                    return PF[u[:-len(b)]][1], b
        (pn, nb), (pd, db) = split(n), split(d)
        c = (pn / pd, nb, db)
    mult, nb, db = c
    sd = [s for s in subs if s['id'] == sid][0]
    num = amount_in(sd, dump['cont'].get(sid, F(0)), nb)
    if num == 0:
        return F(0)
    den = measure(subs, dump, db)
    return num / den / mult


def c10(prog, obs, impl):
    fails = []
    subs = prog['subs']
    k = F(histcheck.tol_scale(prog))
    for i, op, o, dumps in walk(prog, obs):
        if not o['ok']:
            continue
        for v, d in o['out']:
            obj = (impl.env[v] if v in impl.env else None) if impl is not None else None
            for j, c in enumerate(containers_of(d)):
                expect = measure(subs, c, 'L') * 10**6
                if not close(c['vol'], expect, F(1, 10**8) * k * (i + 1), F(1, 10**9)):
                    fails.append((i, f"cached volume {float(c['vol'])!r} uL but contents occupy {float(expect)!r} uL"))
            if obj is None:
                continue
            from pyplate import Container
            cs = [obj] if isinstance(obj, Container) else list(obj.wells.flatten())[:6]
            ds = containers_of(d)
            for cobj, c in zip(cs, ds):
                got = {impl.bykey.get((s.name, s.specific_activity, s.mol_weight, s.density), impl.byname.get(s.name, -1)) for s in cobj.get_substances()}
                if got != set(c['cont']):
                    fails.append((i, f"get_substances() reports substances {sorted(got)}, the contents hold {sorted(c['cont'])}"))
                for unit, p in (('uL', 0), ('mL', 3), ('L', 3)):
                    got = cobj.get_volume(unit)
                    exp = c['vol'] * PF['u'][1] / PF[unit[:-1]][1]
                    if abs(F(got) - exp) > F(1, 10**9) + abs(exp) * F(1, 10**9):
                        fails.append((i, f"get_volume({unit!r}) = {got!r}, volume is {float(exp)!r}"))
                for sid in list(c['cont'])[:3]:
                    sd = [s for s in subs if s['id'] == sid][0]
                    for units in CONC_UNITS:
                        if units.startswith('U') != (sd['kind'] == 'Enzyme'):
                            continue
                        try:
                            got = cobj.get_concentration(impl.subs[sid], units)
                        except ZeroDivisionError:
                            continue
                        exp = conc_def(subs, c, sid, units)
                        rel = F(1, 10**6) * k
                        den_unit = 'L' if units == 'M' else units.split('/')[-1]
                        if den_unit.endswith('L') and c['vol'] > 0:
                            # the library rounds the volume to internal_precision in the denominator's own unit
                            rel += F(1, 10**10) / (c['vol'] * PF['u'][1])   # always litres: the prefix is folded into the multiplier
                        if abs(F(got) - exp) > F(1, 10**9) + abs(exp) * rel:
                            fails.append((i, f"get_concentration(substance {sid}, {units!r}) = {got!r}, by definition {float(exp)!r}"))
            if not isinstance(obj, Container):
                # plate observers
                import numpy
                vols = obj.get_volumes(unit='uL')
                for (cobj, c, x) in zip(obj.wells.flatten(), ds, vols.flatten()):
                    if abs(F(float(x)) - c['vol']) > F(1, 2) + F(1, 10**6):   # uL is displayed with 0 decimals
                        fails.append((i, f"Plate.get_volumes reports {x} uL for a well holding {float(c['vol'])!r} uL"))
                # the default-unit read-outs are the explicit ones in the configured display unit (uL: 0 decimals, umol: 1 decimal)
                dv = obj.get_volumes()
                if not numpy.array_equal(numpy.asarray(dv), numpy.asarray(vols)):
                    fails.append((i, f"Plate.get_volumes() without a unit reports {numpy.asarray(dv).flatten()[:4]}, with unit='uL' (the configured display unit) {numpy.asarray(vols).flatten()[:4]}"))
                # every unit spelling of the array observers (default precision: 3 decimals), and the plate's total volume
                for unit, scale in (('mL', F(1, 1000)), ('L', F(1, 10**6))):
                    vu = obj.get_volumes(unit=unit)
                    for c, x in zip(ds, numpy.asarray(vu).flatten()):
                        if abs(F(float(x)) - c['vol'] * scale) > F(51, 100000) + abs(c['vol'] * scale) * F(1, 10**9):
                            fails.append((i, f"Plate.get_volumes(unit={unit!r}) reports {x} for a well holding {float(c['vol'] * scale)!r} {unit}"))
                    tot = sum((c['vol'] for c in ds), F(0)) * scale
                    gt = obj.get_volume(unit)
                    if abs(F(float(gt)) - tot) > F(51, 100000) * len(ds) + abs(tot) * F(1, 10**9):
                        fails.append((i, f"Plate.get_volume({unit!r}) = {gt!r}, the wells hold {float(tot)!r} {unit} together"))
                sl0 = obj[1, :]
                for unit, scale in (('mL', F(1, 1000)), ('L', F(1, 10**6))):
                    vu = sl0.get_volumes(unit=unit)
                    for c, x in zip(ds[:obj.n_columns], numpy.asarray(vu).flatten()):
                        if abs(F(float(x)) - c['vol'] * scale) > F(51, 100000) + abs(c['vol'] * scale) * F(1, 10**9):
                            fails.append((i, f"get_volumes(unit={unit!r}) of the first row reports {x} for a well holding {float(c['vol'] * scale)!r} {unit}"))
                sset = obj.get_substances()
                exp = {s for c in ds for s in c['cont']}
                # several substances at once: the sum of the moles of the non-enzymes among them
                some = sorted(exp)[:3]
                if len(some) >= 2:
                    for unit, scale, prec in (('umol', F(1), 1), ('mmol', F(1, 1000), 3)):
                        lm = obj.get_moles([impl.subs[s] for s in some], unit=unit)
                        for c, x in zip(ds, numpy.asarray(lm).flatten()):
                            e = sum((c['cont'].get(s, F(0)) for s in some if [q for q in subs if q['id'] == s][0]['kind'] != 'Enzyme'), F(0)) * scale
                            if abs(F(float(x)) - e) > F(10) ** (-prec) * F(51, 100) + abs(e) * F(1, 10**9):
                                fails.append((i, f"Plate.get_moles({some}, unit={unit!r}) reports {x}, the well holds {float(e)!r} {unit} of them together"))
                if {dsl.sid_of(impl, s) for s in sset} != exp:
                    fails.append((i, "Plate.get_substances differs from the union of the wells' contents"))
                for sid in list(exp)[:2]:
                    sd = [s for s in subs if s['id'] == sid][0]
                    mol = obj.get_moles(impl.subs[sid], unit='umol')
                    dm = obj.get_moles(impl.subs[sid])
                    if not numpy.array_equal(numpy.asarray(dm), numpy.asarray(mol)):
                        fails.append((i, f"Plate.get_moles(substance {sid}) without a unit reports {numpy.asarray(dm).flatten()[:4]}, with unit='umol' (the configured display unit) {numpy.asarray(mol).flatten()[:4]}"))
                    for c, x in zip(ds, mol.flatten()):
                        e = F(0) if sd['kind'] == 'Enzyme' else c['cont'].get(sid, F(0))
                        if abs(F(float(x)) - e) > F(6, 100):     # umol displayed with 1 decimal
                            fails.append((i, f"Plate.get_moles reports {x} umol of substance {sid}, well holds {float(e)!r}"))
                    pv = obj.get_volumes(substance=impl.subs[sid], unit='uL')
                    for c, x in zip(ds, pv.flatten()):
                        e = amount_in(sd, c['cont'].get(sid, F(0)), 'L') * 10**6
                        if abs(F(float(x)) - e) > F(1, 2) + F(1, 10**6):
                            fails.append((i, f"Plate.get_volumes(substance {sid}) reports {x} uL, contents give {float(e)!r}"))
                # the same observers through slices of the plate (a row, a column, a block, a list of wells)
                nr, nc = obj.n_rows, obj.n_columns
                regions = [{'rect': [[0], list(range(nc))]}, {'rect': [list(range(nr)), [nc - 1]]},
                           {'rect': [list(range(min(2, nr))), list(range(nc - min(2, nc), nc))]},
                           {'list': [[nr - 1, 0], [0, nc - 1]] if (nr, nc) != (1, 1) else [[0, 0]]}]
                for r in regions:
                    cells = dsl.region_cells(r, nc)
                    sl = obj[dsl.py_selector(r)]
                    wells = [ds[a * nc + b] for a, b in cells]
                    exp = {s for c in wells for s in c['cont']}
                    got = {impl.bykey.get((s.name, s.specific_activity, s.mol_weight, s.density), impl.byname[s.name]) for s in sl.get_substances()}
                    if got != exp:
                        fails.append((i, f"get_substances of slice {dsl.py_selector(r)} reports substances {sorted(got)}, its wells hold {sorted(exp)}"))
                    vs = sl.get_volumes(unit='uL')
                    for c, x in zip(wells, numpy.asarray(vs).flatten()):
                        if abs(F(float(x)) - c['vol']) > F(1, 2) + F(1, 10**6):
                            fails.append((i, f"get_volumes of slice {dsl.py_selector(r)} reports {x} uL for a well holding {float(c['vol'])!r} uL"))
                    for sid in sorted(exp)[:2]:
                        sd = [s for s in subs if s['id'] == sid][0]
                        if sd['kind'] == 'Enzyme':
                            continue
                        mol = sl.get_moles(impl.subs[sid], unit='umol')
                        for c, x in zip(wells, numpy.asarray(mol).flatten()):
                            e = c['cont'].get(sid, F(0))
                            if abs(F(float(x)) - e) > F(6, 100):
                                fails.append((i, f"get_moles of slice {dsl.py_selector(r)} reports {x} umol of substance {sid}, well holds {float(e)!r}"))
    # at the end of the history every value ever returned is still consistent: its volume is the volume of what it holds now
    # (a later operation on a value derived from it must not have reached into it)
    if impl is not None:
        for i, op, o, dumps in walk(prog, obs):
            if not o['ok']:
                continue
            for v, d in o['out']:
                obj = impl.env.get(v)
                if obj is None:
                    continue
                for c in containers_of(impl.dump(obj)):
                    expect = measure(subs, c, 'L') * 10**6
                    if not close(c['vol'], expect, F(1, 10**8) * k * (len(obs) + 1), F(1, 10**9)):
                        fails.append((i, f"at the end of the history the value returned by op {i} has the cached volume {float(c['vol'])!r} uL but its contents occupy {float(expect)!r} uL"))
    return fails


# ----------------------------------------------------------------------------- C17
def c17(prog, obs, impl):
    fails = []
    subs = prog['subs']
    kinds = {s['id']: s['kind'] for s in subs}
    k = F(histcheck.tol_scale(prog))
    for i, op, o, dumps in walk(prog, obs):
        if not (o['ok'] and op['op'] == 'remove'):
            continue
        before = dumps[var_of(op['t'])]
        after = o['out'][0][1]
        idx = cells_of(op['t'], before)
        sel = (lambda s: s == op['w']['s']) if 's' in op['w'] else (lambda s: kinds[s] == op['w']['k'])
        B, A = containers_of(before), containers_of(after)
        for j, (b, a) in enumerate(zip(B, A)):
            addressed = idx is None or j in idx
            if not addressed:
                if b['cont'] != a['cont'] or b['vol'] != a['vol']:
                    fails.append((i, f"well {j} not addressed by remove but changed"))
                continue
            for s in a['cont']:
                if sel(s):
                    fails.append((i, f"selected substance {s} still present after remove"))
            for s, x in b['cont'].items():
                if not sel(s) and a['cont'].get(s) != x:
                    fails.append((i, f"substance {s} was not selected but changed from {float(x)!r} to {a['cont'].get(s)}"))
            expect = measure(subs, a, 'L') * 10**6
            if not close(a['vol'], expect, F(1, 10**8) * k, F(1, 10**9)):
                fails.append((i, f"volume after remove {float(a['vol'])!r} uL, remaining contents occupy {float(expect)!r} uL"))
            removed = sum((amount_in([s for s in subs if s['id'] == sid][0], x, 'L') * 10**6 for sid, x in b['cont'].items() if sel(sid)), F(0))
            if not close(b['vol'] - a['vol'], removed, F(1, 10**7) * k, F(1, 10**9)):
                fails.append((i, f"volume dropped by {float(b['vol'] - a['vol'])!r} uL, removed substances occupied {float(removed)!r} uL"))
            if a['max'] != b['max'] or a['name'] != b['name']:
                fails.append((i, "name or capacity changed by remove"))
    return fails


# ----------------------------------------------------------------------------- C07
def same_container(x, y):
    return x.contents == y.contents and abs(x.volume - y.volume) <= 1e-9 and x.max_volume == y.max_volume and x.name == y.name


def c07(prog, obs, impl):
    """each addressed well = the stand-alone Container operation on that well's contents; every other well identical"""
    from pyplate import Container
    fails = []
    def shape(r):      # a rectangle has a shape (rows, columns); wells listed one by one form a sequence
        return ('list', len(r['list'])) if 'list' in r else (len(r['rect'][0]), len(r['rect'][1]))
    for i, (op, o) in enumerate(zip(prog['ops'], obs)):
        if o['ok'] and op['op'] == 'transfer' and 'p' in op['src'] and 'p' in op['dst']:
            ss, sd = shape(op['src']['r']), shape(op['dst']['r'])
            ns, nd = len(dsl.region_cells(op['src']['r'], 0)), len(dsl.region_cells(op['dst']['r'], 0))
            if ns > 1 and nd > 1 and ss != sd:
                fails.append((i, f"a transfer from a region of shape {ss} into a region of shape {sd} (neither is a single well, the shapes differ) was accepted"))
                continue
        if not o['ok'] or op['op'] not in ('transfer', 'remove', 'fill'):
            continue
        out = dict((v, impl.env.get(v)) for v, _ in o['out'])
        try:
            if op['op'] in ('remove', 'fill'):
                if 'p' not in op['t']:
                    continue
                P0, P1 = impl.env[op['t']['p']], out[op['out']]
                cells = dsl.region_cells(op['t']['r'], 0)
                expect = {}
                for (a, b) in cells:   # a well named twice is operated on twice
                    w = expect.get((a, b), P0.wells[a, b])
                    expect[(a, b)] = w.remove(impl.what(op['w'])) if op['op'] == 'remove' else \
                        w.fill_to(impl.subs[op['solvent']], dsl.qty_str(op['q']))
                fails += cmp_plate(i, P0, P1, expect)
            else:
                q = dsl.qty_str(op['q'])
                sref, dref = op['src'], op['dst']
                if 'c' in sref and 'c' in dref:
                    continue
                if 'c' in sref:
                    src, P0, P1 = impl.env[sref['c']], impl.env[dref['p']], out[op['odst']]
                    expect = {}
                    for (a, b) in dsl.region_cells(dref['r'], 0):
                        src, w = Container.transfer(src, expect.get((a, b), P0.wells[a, b]), q)
                        expect[(a, b)] = w
                    fails += cmp_plate(i, P0, P1, expect)
                    if not same_container(src, out[op['osrc']]):
                        fails.append((i, "source container differs from sequential stand-alone transfers"))
                elif 'c' in dref:
                    dst, P0, P1 = impl.env[dref['c']], impl.env[sref['p']], out[op['osrc']]
                    expect = {}
                    for (a, b) in dsl.region_cells(sref['r'], 0):
                        w, dst = Container.transfer(expect.get((a, b), P0.wells[a, b]), dst, q)
                        expect[(a, b)] = w
                    fails += cmp_plate(i, P0, P1, expect)
                    if not same_container(dst, out[op['odst']]):
                        fails.append((i, "destination container differs from sequential stand-alone transfers"))
                else:
                    S0, D0 = impl.env[sref['p']], impl.env[dref['p']]
                    S1, D1 = out[op['osrc']], out[op['odst']]
                    sc, dc = dsl.region_cells(sref['r'], 0), dsl.region_cells(dref['r'], 0)
                    es, ed = {}, {}
                    same = sref['p'] == dref['p']
                    if same:
                        ed = es
                    if len(sc) == 1:
                        pairs = [(sc[0], d) for d in dc]
                    elif len(dc) == 1:
                        pairs = [(s, dc[0]) for s in sc]
                    else:
                        pairs = list(zip(sc, dc))
                    for s, d in pairs:
                        ws = es.get(s, S0.wells[s[0], s[1]])
                        wd = ed.get(d, D0.wells[d[0], d[1]])
                        ws, wd = Container.transfer(ws, wd, q)
                        es[s], ed[d] = ws, wd
                    fails += cmp_plate(i, S0, S1, es, names=False)
                    if not same:
                        fails += cmp_plate(i, D0, D1, ed, names=False)
        except Exception as e:  # noqa
            fails.append((i, f"stand-alone recomputation raised {type(e).__name__}: {e} although the plate operation succeeded"))
    return fails


def cmp_plate(i, P0, P1, expect, names=True):
    fails = []
    for a in range(P0.n_rows):
        for b in range(P0.n_columns):
            got = P1.wells[a, b]
            if (a, b) in expect:
                e = expect[(a, b)]
                if e.contents != got.contents or abs(e.volume - got.volume) > 1e-9 or e.max_volume != got.max_volume:
                    fails.append((i, f"well {a},{b}: plate operation gives {dict((s.name, x) for s, x in got.contents.items())} "
                                     f"vol {got.volume}, stand-alone container operation gives "
                                     f"{dict((s.name, x) for s, x in e.contents.items())} vol {e.volume}"))
            else:
                w = P0.wells[a, b]
                if w.contents != got.contents or w.volume != got.volume or w.max_volume != got.max_volume or w.name != got.name:
                    fails.append((i, f"well {a},{b} was not addressed but changed"))
    return fails


# ----------------------------------------------------------------------------- %w/v under a setting changed in a running session
def wv_runtime_probe():
    """config.default_weight_volume_units set in a running session (the idiom the library's own tests use for other settings):
    create_solution(..., '5 %w/v', ...) holds five hundredths of THAT unit, and get_concentration(..., '%w/v') reads it back"""
    from pyplate import Substance, Container
    from pyplate.pyplate import config
    fails = []
    saved = config.default_weight_volume_units
    try:
        for unit, g_per_L in (('g/L', F(1)), ('mg/mL', F(1)), ('g/mL', F(1000))):
            config.default_weight_volume_units = unit
            w = Substance.liquid('water', 18.0153, 1)
            s = Substance.solid('NaCl', 58.44)
            try:
                c = Container.create_solution(s, w, concentration='5 %w/v', total_quantity='100 mL')
            except Exception as e:  # noqa
                fails.append(f"with default_weight_volume_units = {unit!r} set in a running session, create_solution('5 %w/v', '100 mL') raised {type(e).__name__}: {e}")
                continue
            grams = F(c.contents[s]) * F(1, 10**6) * F('58.44')
            litres = F(c.volume) * F(1, 10**6)
            want = F(5, 100) * g_per_L
            if abs(grams / litres - want) > want * F(1, 10**6):
                fails.append(f"with default_weight_volume_units = {unit!r} set in a running session, create_solution(NaCl, water, '5 %w/v', '100 mL') holds "
                             f"{float(grams / litres)!r} g/L; five hundredths of a {unit} are {float(want)!r} g/L")
            got = F(repr(c.get_concentration(s, '%w/v')))
            exp = grams / litres / g_per_L * 100
            if abs(got - exp) > abs(exp) * F(1, 10**6) + F(1, 10**9):
                fails.append(f"with default_weight_volume_units = {unit!r} set in a running session, get_concentration(NaCl, '%w/v') = {float(got)!r}; "
                             f"the contents give {float(exp)!r} hundredths of a {unit}")
    finally:
        config.default_weight_volume_units = saved
    return fails
