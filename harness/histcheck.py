"""histcheck.py -- shared driver of the history-based checks: generate programs, run them on the implementation
(done while generating) and on the model (vm_compute inside Coq), compare the observations, evaluate the property's
oracle on the implementation's own observations, shrink and report."""
import json, os, time, copy
from fractions import Fraction as F
import common, dsl, gen

IMPORTS = 'Base Units Contents Container Dilute Solve Plate Prog'


def tol_scale(prog):
    """enzymes at low density turn 1e-10 activity units of rounding into 1e-7 uL of volume (DESIGN 4.4)"""
    k = 1.0
    for s in prog['subs']:
        if s['kind'] == 'Enzyme':
            k = max(k, 1000.0 / float(s['dens']))
    return k


def model_obs(tag, progs, fn='showRun', imports=IMPORTS, chunk=8):
    terms = [dsl.to_coq(p, fn) for p in progs]
    res, errs = common.coq_eval(tag, imports, terms, chunk=chunk)
    out = []
    for p, r in zip(progs, res):
        if r is None:
            out.append(None)
            continue
        try:
            out.append(dsl.decode_run(r, len(p['ops'])))
        except Exception as e:  # noqa
            out.append(None)
            errs.append('decode: ' + str(e))
    return out, errs


def rerun(prog):
    im = dsl.Impl(prog['subs'])
    obs = im.run(prog['ops'])
    return obs, im


def shrink(prog, fails):
    """greedy: cut after the failing op, then drop earlier ops while the oracle still fails"""
    def still(p):
        try:
            obs, im = rerun(p)
            return bool(fails(p, obs, im))
        except Exception:  # noqa
            return False
    best = prog
    if not still(best):
        return best
    f = fails(*((best,) + rerun(best)))
    last = max(i for i, _ in f) if f else len(best['ops']) - 1
    cand = dict(best, ops=best['ops'][:last + 1])
    if still(cand):
        best = cand
    i = len(best['ops']) - 2
    while i >= 0:
        cand = dict(best, ops=best['ops'][:i] + best['ops'][i + 1:])
        if still(cand):
            best = cand
        i -= 1
    return best


def run(chk, gens, oracle, tag, rule, nontrivial_key, model_fn='showRun', imports=IMPORTS, atol=1e-8, rtol=2e-8,
        corpus=(), extra_cov=None):
    """gens: list of Gen objects already run on the implementation (g.prog(), g.obs, g.impl).
    oracle(prog, obs, impl) -> list of (op index, message) where the PROPERTY fails on the implementation."""
    t0 = time.time()
    progs = [g.prog() for g in gens]
    mobs, errs = model_obs(tag, progs, model_fn, imports)
    ndis = 0
    nontrivial = set()
    stats = {}
    samples = []
    maxdev = {}
    nfail = 0
    for gi, (g, m) in enumerate(zip(gens, mobs)):
        prog = progs[gi]
        for k, v in g.stats.items():
            stats[k] = stats.get(k, 0) + v
        for key in nontrivial_key(prog, g.obs):
            nontrivial.add(key)
        # ---- property oracle on the implementation
        try:
            fails = oracle(prog, g.obs, g.impl)
        except Exception as e:  # noqa
            import traceback
            fails = [(0, 'oracle crashed: ' + traceback.format_exc()[-400:])]
        if fails:
            nfail += 1
            if nfail <= 3:
                small = shrink(prog, oracle)
                sobs, sim = rerun(small)
                sf = oracle(small, sobs, sim) or fails
                chk.violation(sf[0][1], {'program': small, 'failures': [list(x) for x in sf[:5]],
                                         'original_length': len(prog['ops'])})
        # ---- correspondence with the model
        if m is None:
            ndis += 1
            continue
        k = tol_scale(prog)
        d = dsl.compare(g.obs, m, atol=atol * k, rtol=rtol)
        if d:
            ndis += 1
            if not fails and ndis <= 3:
                i = d[0][0]
                chk.violation('model/implementation disagree: ' + d[0][1],
                              {'relation': 'Prog.run ~ implementation', 'program': dict(prog, ops=prog['ops'][:i + 1]),
                               'differences': [t for _, t in d[:5]]}, found_input=False)
        if gi % max(1, len(gens) // 3) == 0 and len(samples) < 3:
            samples.append({'ops': [json.dumps(o)[:160] for o in prog['ops'][:4]], 'n_ops': len(prog['ops']),
                            'impl_last': json.dumps(dsl.jsonable(g.obs[-1]))[:200] if g.obs else None})
    if errs:
        chk.violation('model evaluation failed: ' + errs[0][:300], {'relation': 'coq_eval ' + tag, 'errors': errs[:3]},
                      found_input=False)
    cov = {
        'evaluations': sum(len(p['ops']) for p in progs), 'programs': len(progs),
        'distinct_nontrivial': len(nontrivial), 'rule': rule, 'disagreements_checked': ndis,
        'oracle_failures': nfail, 'samples': samples, 'generator_distribution': stats,
        'history_lengths': {'min': min(len(p['ops']) for p in progs), 'max': max(len(p['ops']) for p in progs)},
        'correspondence_s': round(time.time() - t0, 1),
    }
    if extra_cov:
        cov.update(extra_cov)
    return cov


def replay(path, oracle, model_fn='showRun', imports=IMPORTS):
    r = json.load(open(path))
    prog = r.get('program')
    if not prog:
        print(json.dumps(r, indent=1)[:3000])
        print('no program in this replay file (proof gate / model evaluation break): nothing to run on the implementation')
        return 1
    obs, im = rerun(prog)
    for i, (op, o) in enumerate(zip(prog['ops'], obs)):
        print(i, json.dumps(op)[:200], '->', 'ok' if o['ok'] else o['exc'] + ': ' + o.get('msg', ''))
    fails = oracle(prog, obs, im)
    mobs, errs = model_obs('replay', [prog], model_fn, imports)
    if mobs[0] is not None:
        d = dsl.compare(obs, mobs[0], atol=1e-8 * tol_scale(prog), rtol=2e-8)
        print('model/implementation differences:', [t for _, t in d[:5]] or 'none')
    for f in fails[:5]:
        print('PROPERTY FAILS at op', f[0], ':', f[1])
    print('property', 'FAILS' if fails else 'HOLDS', 'on this input')
    return 1 if fails else 0


# ------------------------------------------------------------------ helpers for oracles (exact arithmetic on dumps)
def gper(sd, b):
    mw, d, a = F(sd['mw']), F(sd['dens']), F(sd['act'])
    if sd['kind'] == 'Enzyme':
        return {'g': F(1), 'U': 1 / a, 'L': 1000 * d / a, 'mol': None}[b]
    return {'g': F(1), 'mol': mw, 'L': 1000 * d, 'U': None}[b]


def amount_in(sd, stored, b, mol_mult=F(1, 10**6)):
    """stored amount (storage moles, or activity units) of substance sd in base unit b; None-quantities are 0"""
    base = 'U' if sd['kind'] == 'Enzyme' else 'mol'
    x, y = gper(sd, base), gper(sd, b)
    if y is None:
        return F(0)
    amt = stored if sd['kind'] == 'Enzyme' else stored * mol_mult
    return amt * x / y


def measure(subs, dump, b, mol_mult=F(1, 10**6)):
    byid = {s['id']: s for s in subs}
    return sum((amount_in(byid[k], a, b, mol_mult) for k, a in dump['cont'].items() if k in byid), F(0))


def containers_of(dump):
    return [dump] if dump['t'] == 'c' else dump['wells']


def before_of(im_dumps, var):
    return im_dumps[var]


def all_dumps(prog, obs):
    """variable -> dump for every value the history produced"""
    d = {}
    for o in obs:
        if o['ok']:
            for v, x in o['out']:
                d[v] = x
    return d
